/-
Helper lemmas for C09: implied on-curve point elision (`InterpolatableContourBuilder::build`) as a
structural pass, and its inverse inside skrifa's `to_path` (Model/ToPath.lean, FreeType style,
unscaled 26.6 coordinates).
-/
import FontVerif.Model.GlyfPath
import FontVerif.Model.ToPath
import FontVerif.Lemmas.GlyfBytes
set_option linter.unusedVariables false
namespace FontVerif.GlyfPath
open FontVerif FontVerif.Glyf FontVerif.ToPath

/-- elision as a left-to-right pass: `prev` is the original predecessor, `nxt` the point that
follows the end of the list (cyclically: the first point of the contour) -/
def elideSeq (prev : Point) : List Point → Point → List Point
  | [], _ => []
  | m :: rest, nxt =>
    (if implicit3 prev m (rest.head?.getD nxt) then [] else [m]) ++ elideSeq m rest nxt

theorem elide_suffix (l : List Point) (a : Point) (hl : l[0]? = some a) :
    ∀ (suf pre : List Point) (prev : Point), l = pre ++ suf → pre.getLast? = some prev →
    ((List.range' pre.length suf.length).filter (fun i => !isImplicit l i)).filterMap (fun i => l[i]?)
      = elideSeq prev suf a := by
  intro suf
  induction suf with
  | nil => intro pre prev _ _; simp [elideSeq]
  | cons m rest ih =>
    intro pre prev hsplit hlast
    have hpne : pre ≠ [] := by intro e; rw [e] at hlast; simp at hlast
    have hpl : 0 < pre.length := List.length_pos_iff.mpr hpne
    have hm : l[pre.length]? = some m := by rw [hsplit]; simp
    have hprev : wrapPrev l pre.length = some prev := by
      unfold wrapPrev
      have : ¬ (pre.length = 0) := by omega
      simp only [this, ↓reduceIte]
      rw [hsplit, List.getElem?_append_left (by omega)]
      rw [List.getLast?_eq_getElem?] at hlast
      exact hlast
    have hnext : wrapNext l pre.length = some (rest.head?.getD a) := by
      unfold wrapNext
      have hlen : l.length = pre.length + (rest.length + 1) := by rw [hsplit]; simp
      cases rest with
      | nil =>
        have : pre.length = l.length - 1 := by simp at hlen; omega
        simp only [this, ↓reduceIte, hl, List.head?_nil, Option.getD_none]
      | cons n rest' =>
        have : ¬ (pre.length = l.length - 1) := by simp at hlen; omega
        simp only [this, ↓reduceIte, List.head?_cons, Option.getD_some]
        rw [hsplit]; simp
    have himp : isImplicit l pre.length = implicit3 prev m (rest.head?.getD a) := by
      unfold isImplicit; rw [hm, hprev, hnext]
    have hrec := ih (pre ++ [m]) m (by rw [hsplit]; simp) (by simp)
    simp only [List.length_append, List.length_cons, List.length_nil, Nat.zero_add] at hrec
    simp only [List.length_cons, List.range'_succ, List.filter_cons, himp, elideSeq]
    split
    · rename_i hc
      simp only [Bool.not_eq_eq_eq_not, Bool.not_true] at hc
      simp only [hc, Bool.false_eq_true, ↓reduceIte, List.filterMap_cons, hm, List.cons_append,
        List.nil_append, hrec]
    · rename_i hc
      simp only [Bool.not_eq_eq_eq_not, Bool.not_true, Bool.not_eq_false] at hc
      simp only [hc, ↓reduceIte, List.nil_append, hrec]

/-- index-based `build` = structural pass (for a non-empty contour) -/
theorem elide_eq_seq (a : Point) (t : List Point) :
    elide (a :: t) = (if isImplicit (a :: t) 0 then [] else [a]) ++ elideSeq a t a := by
  have h := elide_suffix (a :: t) a rfl t [a] a rfl rfl
  unfold elide
  simp only [List.length_cons, List.length_nil, Nat.zero_add] at h
  rw [show List.range (a :: t).length = 0 :: List.range' 1 t.length by
    rw [List.length_cons, List.range_eq_range', List.range'_succ]]
  simp only [List.filter_cons]
  split
  · rename_i hc
    simp only [Bool.not_eq_eq_eq_not, Bool.not_true] at hc
    simp only [hc, Bool.false_eq_true, ↓reduceIte, List.filterMap_cons, List.getElem?_cons_zero,
      List.cons_append, List.nil_append, h]
  · rename_i hc
    simp only [Bool.not_eq_eq_eq_not, Bool.not_true, Bool.not_eq_false] at hc
    simp only [hc, ↓reduceIte, List.nil_append, h]


/-- a glyf point as skrifa's unscaled 26.6 `ContourPoint` (`F26Dot6::from_i32`, on-curve bit only) -/
def toPt (p : Point) : Pt := ⟨64 * p.x, 64 * p.y, if p.on then 1 else 0⟩

/-- pending state of `to_path` after a point has been consumed -/
def stateOf (p : Point) : Pending := if p.on then .empty else .quad (toPt p)

/-- index-free emission (indices only occur in error values) -/
def emitB (C : Coord) : Pending → List Pt → List Cmd × Pending
  | st, [] => ([], st)
  | st, p :: rest =>
    match emit C st 0 p with
    | .error _ => ([], st)
    | .ok (st', cs) => let r := emitB C st' rest; (cs ++ r.1, r.2)

def PlainState : Pending → Prop
  | .empty => True
  | .quad _ => True
  | _ => False

theorem flag_facts : isQuad 0 = true ∧ isQuad 1 = false ∧ isCubic 0 = false ∧ isCubic 1 = false
    ∧ isOn 0 = false ∧ isOn 1 = true := by decide

theorem emit_plain (C : Coord) (st : Pending) (hs : PlainState st) (ix : Nat) (p : Pt)
    (hf : p.flags = 0 ∨ p.flags = 1) :
    ∃ st' cs, emit C st ix p = .ok (st', cs) ∧ emit C st 0 p = .ok (st', cs) ∧ PlainState st' := by
  obtain ⟨q0, q1, c0, c1, _, _⟩ := flag_facts
  cases st with
  | empty =>
    rcases hf with h | h <;> simp [emit, h, q0, q1, c1, PlainState]
  | quad q =>
    rcases hf with h | h <;> simp [emit, h, q0, q1, c1, PlainState]
  | cubic _ => exact absurd hs (by simp [PlainState])
  | two _ _ => exact absurd hs (by simp [PlainState])

theorem emitMany_eq_emitB (C : Coord) (body : List (Nat × Pt)) :
    ∀ st, PlainState st → (∀ e ∈ body, e.2.flags = 0 ∨ e.2.flags = 1) →
    emitMany C st body = ((emitB C st (body.map (·.2))).1, .ok (emitB C st (body.map (·.2))).2)
    ∧ PlainState (emitB C st (body.map (·.2))).2 := by
  induction body with
  | nil => intro st hs _; simp [emitMany, emitB, hs]
  | cons e rest ih =>
    intro st hs hf
    obtain ⟨ix, p⟩ := e
    obtain ⟨st', cs, h1, h2, h3⟩ := emit_plain C st hs ix p (hf (ix, p) (by simp))
    have := ih st' h3 (fun e he => hf e (by simp [he]))
    simp only [emitMany, emitB, List.map_cons, h1, h2, this.1]
    exact ⟨trivial, this.2⟩


def Bounded (p : Point) : Prop := inI16 p.x ∧ inI16 p.y

theorem mid_exact (a b m : Int) (ha : inI16 a) (hb : inI16 b) (h : a + b = 2 * m) :
    midI32 (64 * a) (64 * b) = 64 * m := by
  unfold midI32
  have hw : wrapI32 (64 * a + 64 * b) = 2 * (64 * m) := by
    unfold wrapI32 inI16 at *
    simp only []
    split <;> omega
  rw [hw, Int.mul_tdiv_cancel_left _ (by decide)]

theorem implicit3_spec (p0 p1 p2 : Point) (h : implicit3 p0 p1 p2 = true) :
    p1.on = true ∧ p0.on = false ∧ p2.on = false ∧ p0.x + p2.x = 2 * p1.x ∧ p0.y + p2.y = 2 * p1.y := by
  unfold implicit3 isMid at h
  cases h1 : p1.on <;> cases h0 : p0.on <;> cases h2 : p2.on <;> simp [h1, h0, h2] at h ⊢
  exact h

theorem off_not_implicit (p0 p1 p2 : Point) (h : p1.on = false) : implicit3 p0 p1 p2 = false := by
  unfold implicit3; simp [h]

/-- **the reader's midpoint insertion undoes the writer's elision**: consuming the elided point
list leaves `to_path` with exactly the same pen commands and pending state as the full list -/
theorem emitB_elideSeq (t : List Point) : ∀ (prev nxt : Point), nxt.on = true → Bounded prev →
    (∀ p ∈ t, Bounded p) →
    emitB fixedCoord (stateOf prev) ((elideSeq prev t nxt).map toPt)
      = emitB fixedCoord (stateOf prev) (t.map toPt) := by
  obtain ⟨q0, q1, c0, c1, _, _⟩ := flag_facts
  induction t with
  | nil => intro prev nxt _ _ _; rfl
  | cons m rest ih =>
    intro prev nxt hn hbp hb
    have hbm := hb m (by simp)
    have hbr : ∀ p ∈ rest, Bounded p := fun p hp => hb p (by simp [hp])
    simp only [elideSeq]
    cases hi : implicit3 prev m (rest.head?.getD nxt) with
    | false =>
      -- m is kept: one identical step, then the induction hypothesis from `stateOf m`
      simp only [Bool.false_eq_true, ↓reduceIte, List.cons_append, List.nil_append, List.map_cons,
        emitB]
      have hstep : ∀ cs, emit fixedCoord (stateOf prev) 0 (toPt m) = .ok (stateOf m, cs) →
          True := fun _ _ => trivial
      have hst : ∃ cs, emit fixedCoord (stateOf prev) 0 (toPt m) = .ok (stateOf m, cs) := by
        unfold stateOf toPt
        cases hpo : prev.on <;> cases hmo : m.on <;> simp [emit, q0, q1, c1]
      obtain ⟨cs, hcs⟩ := hst
      simp only [hcs, ih m nxt hn hbm hbr]
    | true =>
      obtain ⟨hm1, hp0, hp2, hx, hy⟩ := implicit3_spec _ _ _ hi
      -- the successor exists (it is off-curve, `nxt` is on-curve) and is itself kept
      cases rest with
      | nil => simp only [List.head?_nil, Option.getD_none] at hp2; rw [hn] at hp2; cases hp2
      | cons p rest' =>
        simp only [List.head?_cons, Option.getD_some] at hp2 hx hy
        have hbp2 := hb p (by simp)
        have hkeep : implicit3 m p (rest'.head?.getD nxt) = false := off_not_implicit _ _ _ hp2
        have ih' := ih m nxt hn hbm hbr
        simp only [elideSeq, hkeep, Bool.false_eq_true, ↓reduceIte, List.cons_append,
          List.nil_append, List.map_cons] at ih' ⊢
        -- unfold the three emissions
        have sprev : stateOf prev = .quad (toPt prev) := by simp [stateOf, hp0]
        have sm : stateOf m = .empty := by simp [stateOf, hm1]
        have fm : (toPt m).flags = 1 := by simp [toPt, hm1]
        have fp : (toPt p).flags = 0 := by simp [toPt, hp2]
        have e1 : emit fixedCoord (.quad (toPt prev)) 0 (toPt m) =
            .ok (.empty, [.quad (fixedCoord.out (toPt prev).x) (fixedCoord.out (toPt prev).y)
              (fixedCoord.out (toPt m).x) (fixedCoord.out (toPt m).y)]) := by
          simp [emit, fm, q1, c1]
        have e2 : emit fixedCoord .empty 0 (toPt p) = .ok (.quad (toPt p), []) := by
          simp [emit, fp, q0]
        have e3 : emit fixedCoord (.quad (toPt prev)) 0 (toPt p) =
            .ok (.quad (toPt p), [.quad (fixedCoord.out (toPt prev).x) (fixedCoord.out (toPt prev).y)
              (fixedCoord.out (toPt m).x) (fixedCoord.out (toPt m).y)]) := by
          have mx := mid_exact prev.x p.x m.x hbp.1 hbp2.1 hx
          have my := mid_exact prev.y p.y m.y hbp.2 hbp2.2 hy
          simp only [emit, fp, q0, ↓reduceIte, Pt.midpoint, fixedCoord]
          simp only [toPt, mx, my]
        rw [sm] at ih'
        simp only [emitB, e2, List.nil_append] at ih'
        rw [sprev]
        simp only [emitB, e1, e2, e3, List.nil_append]
        have i1 := congrArg Prod.fst ih'
        have i2 := congrArg Prod.snd ih'
        simp only [] at i1 i2
        rw [i1, i2]


theorem enumFrom_snd (pts : List Pt) : ∀ i, (enumFrom i pts).map (·.2) = pts := by
  induction pts with
  | nil => intro i; rfl
  | cons p ps ih => intro i; simp [enumFrom, ih]

theorem toPt_flags (p : Point) : (toPt p).flags = 0 ∨ (toPt p).flags = 1 := by
  unfold toPt; cases p.on <;> simp

theorem enum_flags (l : List Point) (i : Nat) :
    ∀ e ∈ enumFrom i (l.map toPt), e.2.flags = 0 ∨ e.2.flags = 1 := by
  intro e he
  have : e.2 ∈ (enumFrom i (l.map toPt)).map (·.2) := List.mem_map_of_mem he
  rw [enumFrom_snd] at this
  obtain ⟨p, _, hp⟩ := List.mem_map.mp this
  rw [← hp]; exact toPt_flags p

/-- `runContour` on on/off points, through the index-free emission -/
theorem runContour_plain (start : Pt) (l : List Point) (i : Nat) :
    runContour fixedCoord start (enumFrom i (l.map toPt)) =
      (Cmd.move (fixedCoord.out start.x) (fixedCoord.out start.y)
          :: (emitB fixedCoord .empty (l.map toPt)).1
          ++ (finish fixedCoord (emitB fixedCoord .empty (l.map toPt)).2 start).1,
       (finish fixedCoord (emitB fixedCoord .empty (l.map toPt)).2 start).2) := by
  have h := (emitMany_eq_emitB fixedCoord (enumFrom i (l.map toPt)) .empty trivial (enum_flags l i)).1
  rw [enumFrom_snd] at h
  unfold runContour
  simp only [h]

theorem finish_coords (st : Pending) (s1 s2 : Pt) (hx : s1.x = s2.x) (hy : s1.y = s2.y) :
    finish fixedCoord st s1 = finish fixedCoord st s2 := by
  unfold finish
  have : ({ s1 with flags := 1 } : Pt) = { s2 with flags := 1 } := by
    cases s1; cases s2; simp_all
  rw [this]

theorem elideSeq_getLast (t : List Point) : ∀ (prev nxt z : Point), t.getLast? = some z →
    z.on = false → (elideSeq prev t nxt).getLast? = some z := by
  induction t with
  | nil => intro prev nxt z h; simp at h
  | cons m rest ih =>
    intro prev nxt z h hz
    cases rest with
    | nil =>
      simp only [List.getLast?_singleton, Option.some.injEq] at h
      subst h
      simp [elideSeq, off_not_implicit _ _ _ hz]
    | cons r rest' =>
      rw [List.getLast?_cons_cons] at h
      have := ih m nxt z h hz
      simp only [elideSeq] at this ⊢
      rw [List.getLast?_append, this]
      simp


/-- drawing the elided contour = drawing the full contour (same pen calls, same result) -/
theorem draw_elided_eq (a : Point) (t : List Point) (ha : a.on = true)
    (hb : ∀ p ∈ a :: t, Bounded p) (lastE lastL : Pt)
    (hE : ((elide (a :: t)).map toPt).getLast? = some lastE) :
    contourToPath fixedCoord .freeType ((elide (a :: t)).map toPt) lastE
      = contourToPath fixedCoord .freeType ((a :: t).map toPt) lastL := by
  obtain ⟨q0, q1, c0, c1, o0, o1⟩ := flag_facts
  have hba := hb a (by simp)
  have hbt : ∀ p ∈ t, Bounded p := fun p hp => hb p (by simp [hp])
  have fa : (toPt a).flags = 1 := by simp [toPt, ha]
  have hseq := emitB_elideSeq t a a ha hba hbt
  have sa : stateOf a = .empty := by simp [stateOf, ha]
  rw [sa] at hseq
  -- the full contour starts at its first (on-curve) point
  have hR : contourToPath fixedCoord .freeType ((a :: t).map toPt) lastL
      = runContour fixedCoord (toPt a) (enumFrom 1 (t.map toPt)) := by
    simp only [List.map_cons, contourToPath, fa, c1, q1, Bool.false_eq_true, ↓reduceIte]
  rw [hR, runContour_plain, elide_eq_seq]
  cases hi : isImplicit (a :: t) 0 with
  | false =>
    simp only [Bool.false_eq_true, ↓reduceIte, List.cons_append, List.nil_append, List.map_cons,
      contourToPath, fa, c1, q1]
    rw [runContour_plain, hseq]
    rfl
  | true =>
    -- the start point itself is implied: its neighbours are the (off-curve) last and second points
    simp only [↓reduceIte, List.nil_append]
    rw [elide_eq_seq, hi] at hE
    simp only [↓reduceIte, List.nil_append] at hE
    cases t with
    | nil =>
      simp [isImplicit, wrapPrev, wrapNext, implicit3, ha] at hi
    | cons p2 rest =>
      have hprev : wrapPrev (a :: p2 :: rest) 0 = (p2 :: rest).getLast? := by
        simp only [wrapPrev, ↓reduceIte, List.length_cons, Nat.add_sub_cancel]
        rw [List.getLast?_eq_getElem?]
        simp
      have hnext : wrapNext (a :: p2 :: rest) 0 = some p2 := by
        simp [wrapNext]
      obtain ⟨p0, hp0⟩ : ∃ p0, (p2 :: rest).getLast? = some p0 := by
        cases h : (p2 :: rest).getLast? with
        | none => simp at h
        | some z => exact ⟨z, rfl⟩
      have hi3 : implicit3 p0 a p2 = true := by
        simp only [isImplicit, List.getElem?_cons_zero, hprev, hp0, hnext] at hi
        exact hi
      obtain ⟨_, h0off, h2off, hx, hy⟩ := implicit3_spec _ _ _ hi3
      have hb2 := hb p2 (by simp)
      have hb0 : Bounded p0 := hb p0 (by
        have := List.mem_of_getLast? hp0
        simp only [List.mem_cons] at this ⊢
        exact Or.inr this)
      have hkeep : implicit3 a p2 (rest.head?.getD a) = false := off_not_implicit _ _ _ h2off
      have hlastE : lastE = toPt p0 := by
        have := elideSeq_getLast (p2 :: rest) a a p0 hp0 h0off
        rw [List.getLast?_map, this] at hE
        simp only [Option.map_some, Option.some.injEq] at hE
        exact hE.symm
      have f2 : (toPt p2).flags = 0 := by simp [toPt, h2off]
      have f0 : (toPt p0).flags = 0 := by simp [toPt, h0off]
      have hE2 : elideSeq a (p2 :: rest) a = p2 :: elideSeq p2 rest a := by
        simp [elideSeq, hkeep]
      have hL : contourToPath fixedCoord .freeType ((elideSeq a (p2 :: rest) a).map toPt) lastE
          = runContour fixedCoord (lastE.midpoint fixedCoord (toPt p2))
              (enumFrom 0 ((elideSeq a (p2 :: rest) a).map toPt)) := by
        rw [hE2]
        simp only [List.map_cons, contourToPath, f2, c0, q0, hlastE, f0, o0, Bool.false_eq_true,
          ↓reduceIte]
      rw [hL, runContour_plain, hseq]
      have mx := mid_exact p0.x p2.x a.x hb0.1 hb2.1 hx
      have my := mid_exact p0.y p2.y a.y hb0.2 hb2.2 hy
      have sx : (lastE.midpoint fixedCoord (toPt p2)).x = (toPt a).x := by
        rw [hlastE]; simp only [Pt.midpoint, fixedCoord, toPt, mx]
      have sy : (lastE.midpoint fixedCoord (toPt p2)).y = (toPt a).y := by
        rw [hlastE]; simp only [Pt.midpoint, fixedCoord, toPt, my]
      rw [finish_coords _ _ (toPt a) sx sy, sx, sy]


/-- a line or quadratic segment of a path (end point last) -/
inductive Seg
  | line (x y : Int)
  | quad (cx cy x y : Int)
deriving DecidableEq, Repr

def Seg.el : Seg → El
  | .line x y => .line x y
  | .quad cx cy x y => .quad cx cy x y

/-- the contour points a segment appends (`line_to` / `quad_to`) -/
def Seg.pts : Seg → List Point
  | .line x y => [⟨x, y, true⟩]
  | .quad cx cy x y => [⟨cx, cy, false⟩, ⟨x, y, true⟩]

/-- the pen call that draws the segment, in unscaled 26.6 units -/
def Seg.cmd : Seg → Cmd
  | .line x y => .line (64 * x) (64 * y)
  | .quad cx cy x y => .quad (64 * cx) (64 * cy) (64 * x) (64 * y)

def Seg.Bounded : Seg → Prop
  | .line x y => inI16 x ∧ inI16 y
  | .quad cx cy x y => inI16 cx ∧ inI16 cy ∧ inI16 x ∧ inI16 y

theorem out_id (v : Int) (h : inI16 v) : fixedCoord.out (64 * v) = 64 * v := by
  unfold inI16 at h
  simp only [fixedCoord, f32RoundInt, f32RoundNat]
  split
  · have : -(64 * v) < 16777216 := by omega
    simp only [this, ↓reduceIte]; omega
  · have : 64 * v < 16777216 := by omega
    simp only [this, ↓reduceIte]

theorem emitB_append (C : Coord) (l1 : List Pt) : ∀ (st : Pending) (l2 : List Pt)
    (h : ∀ st' p, PlainState st' → p ∈ l1 → ∃ r, emit C st' 0 p = .ok r ∧ PlainState r.1),
    PlainState st →
    emitB C st (l1 ++ l2) = ((emitB C st l1).1 ++ (emitB C (emitB C st l1).2 l2).1,
      (emitB C (emitB C st l1).2 l2).2) ∧ PlainState (emitB C st l1).2 := by
  induction l1 with
  | nil => intro st l2 _ hs; simp [emitB, hs]
  | cons p ps ih =>
    intro st l2 h hs
    obtain ⟨r, hr, hp⟩ := h st p hs (by simp)
    have := ih r.1 l2 (fun st' q hs' hq => h st' q hs' (by simp [hq])) hp
    simp only [List.cons_append, emitB, hr, this.1, List.append_assoc]
    exact ⟨trivial, this.2⟩

theorem emit_toPt_ok (st' : Pending) (p : Point) (hs : PlainState st') :
    ∃ r, emit fixedCoord st' 0 (toPt p) = .ok r ∧ PlainState r.1 := by
  obtain ⟨st2, cs, _, h2, h3⟩ := emit_plain fixedCoord st' hs 0 (toPt p) (toPt_flags p)
  exact ⟨(st2, cs), h2, h3⟩

/-- consuming the points of whole segments from the empty state emits exactly their pen calls and
returns to the empty state -/
theorem emitB_segs (segs : List Seg) (hb : ∀ s ∈ segs, s.Bounded) :
    emitB fixedCoord .empty ((segs.flatMap Seg.pts).map toPt) = (segs.map Seg.cmd, .empty) := by
  obtain ⟨q0, q1, c0, c1, _, _⟩ := flag_facts
  induction segs with
  | nil => rfl
  | cons s rest ih =>
    have hs := hb s (by simp)
    have ih' := ih (fun x hx => hb x (by simp [hx]))
    cases s with
    | line x y =>
      obtain ⟨hx, hy⟩ := hs
      simp only [List.flatMap_cons, Seg.pts, List.cons_append, List.nil_append, List.map_cons, emitB]
      have e1 : emit fixedCoord .empty 0 (toPt ⟨x, y, true⟩) =
          .ok (.empty, [.line (64 * x) (64 * y)]) := by
        simp [emit, toPt, q1, c1, out_id x hx, out_id y hy]
      simp only [e1, ih', Seg.cmd, List.cons_append, List.nil_append]
    | quad cx cy x y =>
      obtain ⟨h1, h2, hx, hy⟩ := hs
      simp only [List.flatMap_cons, Seg.pts, List.cons_append, List.nil_append, List.map_cons, emitB]
      have e1 : emit fixedCoord .empty 0 (toPt ⟨cx, cy, false⟩) =
          .ok (.quad (toPt ⟨cx, cy, false⟩), []) := by
        simp [emit, toPt, q0]
      have e2 : emit fixedCoord (.quad (toPt ⟨cx, cy, false⟩)) 0 (toPt ⟨x, y, true⟩) =
          .ok (.empty, [.quad (64 * cx) (64 * cy) (64 * x) (64 * y)]) := by
        simp [emit, toPt, q1, c1, out_id x hx, out_id y hy, out_id cx h1, out_id cy h2]
      simp only [e1, e2, ih', Seg.cmd, List.cons_append, List.nil_append]


/-- the builder's points for `M s, segs…` after `Z` (`remove_last` when the last point repeats the
move point) -/
def closedPts (s : Point) (segs : List Seg) : List Point :=
  let P := s :: segs.flatMap Seg.pts
  if P.length > 1 ∧ P.getLast? = P.head? then P.dropLast else P

/-- the segments a closed contour is drawn with: a final straight line back to the start point is
left to the pen's `close` -/
def closeNorm (sx sy : Int) (segs : List Seg) : List Seg :=
  if segs.getLast? = some (.line sx sy) then segs.dropLast else segs

theorem concat_cases (l : List Seg) : l = [] ∨ ∃ init z, l = init ++ [z] := by
  induction l with
  | nil => exact Or.inl rfl
  | cons a t ih =>
    right
    rcases ih with rfl | ⟨init, z, rfl⟩
    · exact ⟨[], a, rfl⟩
    · exact ⟨a :: init, z, rfl⟩

theorem draw_open_pts (sx sy : Int) (segs : List Seg) (hs : inI16 sx ∧ inI16 sy)
    (hb : ∀ s ∈ segs, s.Bounded) (last : Pt) :
    contourToPath fixedCoord .freeType ((⟨sx, sy, true⟩ :: segs.flatMap Seg.pts).map toPt) last
      = (Cmd.move (64 * sx) (64 * sy) :: segs.map Seg.cmd ++ [Cmd.close], none) := by
  obtain ⟨q0, q1, c0, c1, o0, o1⟩ := flag_facts
  have fa : (toPt ⟨sx, sy, true⟩).flags = 1 := rfl
  simp only [List.map_cons, contourToPath, fa, c1, q1, Bool.false_eq_true, ↓reduceIte]
  rw [runContour_plain, emitB_segs segs hb]
  simp only [finish, toPt, out_id sx hs.1, out_id sy hs.2]

theorem flatMap_concat (init : List Seg) (z : Seg) :
    (init ++ [z]).flatMap Seg.pts = init.flatMap Seg.pts ++ z.pts := by
  simp [List.flatMap_append]

/-- **drawing a closed contour built from a path** (before elision): `M s, segs, Z` draws as
`move s`, one pen call per segment, `close` — except that a final straight line back to `s` is
left to `close` (the builder removed the duplicate point). -/
theorem draw_full_contour (sx sy : Int) (segs : List Seg) (hs : inI16 sx ∧ inI16 sy)
    (hb : ∀ s ∈ segs, s.Bounded) (last : Pt) :
    contourToPath fixedCoord .freeType ((closedPts ⟨sx, sy, true⟩ segs).map toPt) last
      = (Cmd.move (64 * sx) (64 * sy) :: (closeNorm sx sy segs).map Seg.cmd ++ [Cmd.close], none) := by
  obtain ⟨q0, q1, c0, c1, o0, o1⟩ := flag_facts
  rcases concat_cases segs with rfl | ⟨init, z, rfl⟩
  · -- a lone move point
    have := draw_open_pts sx sy [] hs (by simp) last
    simpa [closedPts, closeNorm] using this
  · have hbi : ∀ s ∈ init, s.Bounded := fun s h => hb s (by simp [h])
    have hbz := hb z (by simp)
    cases z with
    | line x y =>
      have hlast : (⟨sx, sy, true⟩ :: (init ++ [Seg.line x y]).flatMap Seg.pts).getLast?
          = some ⟨x, y, true⟩ := by
        rw [flatMap_concat]; simp [Seg.pts, List.getLast?_cons]
      have hlen : (⟨sx, sy, true⟩ :: (init ++ [Seg.line x y]).flatMap Seg.pts : List Point).length > 1 := by
        rw [flatMap_concat]; simp [Seg.pts]
      by_cases he : x = sx ∧ y = sy
      · obtain ⟨rfl, rfl⟩ := he
        have hP : closedPts ⟨x, y, true⟩ (init ++ [Seg.line x y])
            = ⟨x, y, true⟩ :: init.flatMap Seg.pts := by
          unfold closedPts
          simp only [hlast, List.head?_cons, hlen, and_self, ↓reduceIte]
          rw [flatMap_concat]
          simp [Seg.pts, List.dropLast_cons_of_ne_nil]
        have hN : closeNorm x y (init ++ [Seg.line x y]) = init := by
          simp [closeNorm]
        rw [hP, hN]
        exact draw_open_pts x y init hs hbi last
      · have hP : closedPts ⟨sx, sy, true⟩ (init ++ [Seg.line x y])
            = ⟨sx, sy, true⟩ :: (init ++ [Seg.line x y]).flatMap Seg.pts := by
          unfold closedPts
          simp only [hlast, List.head?_cons, Option.some.injEq, Point.mk.injEq, and_true]
          have : ¬ (x = sx ∧ y = sy) := he
          simp [this]
        have hN : closeNorm sx sy (init ++ [Seg.line x y]) = init ++ [Seg.line x y] := by
          have : ¬ (x = sx ∧ y = sy) := he
          simp [closeNorm, this]
        rw [hP, hN]
        exact draw_open_pts sx sy _ hs hb last
    | quad cx cy x y =>
      have hlast : (⟨sx, sy, true⟩ :: (init ++ [Seg.quad cx cy x y]).flatMap Seg.pts).getLast?
          = some ⟨x, y, true⟩ := by
        rw [flatMap_concat]; simp [Seg.pts, List.getLast?_cons]
      have hlen : (⟨sx, sy, true⟩ :: (init ++ [Seg.quad cx cy x y]).flatMap Seg.pts : List Point).length > 1 := by
        rw [flatMap_concat]; simp [Seg.pts]
      have hN : closeNorm sx sy (init ++ [Seg.quad cx cy x y]) = init ++ [Seg.quad cx cy x y] := by
        simp [closeNorm]
      rw [hN]
      by_cases he : x = sx ∧ y = sy
      · obtain ⟨rfl, rfl⟩ := he
        obtain ⟨h1, h2, hx, hy⟩ := hbz
        have hP : closedPts ⟨x, y, true⟩ (init ++ [Seg.quad cx cy x y])
            = ⟨x, y, true⟩ :: (init.flatMap Seg.pts ++ [⟨cx, cy, false⟩]) := by
          unfold closedPts
          simp only [hlast, List.head?_cons, hlen, and_self, ↓reduceIte]
          rw [flatMap_concat]
          simp only [Seg.pts]
          rw [List.dropLast_cons_of_ne_nil (by simp)]
          rw [show init.flatMap Seg.pts ++ [⟨cx, cy, false⟩, ⟨x, y, true⟩]
            = (init.flatMap Seg.pts ++ [⟨cx, cy, false⟩]) ++ [⟨x, y, true⟩] by simp]
          rw [List.dropLast_concat]
        rw [hP]
        have fa : (toPt ⟨x, y, true⟩).flags = 1 := rfl
        simp only [List.map_cons, contourToPath, fa, c1, q1, Bool.false_eq_true, ↓reduceIte]
        rw [runContour_plain]
        have happ := (emitB_append fixedCoord ((init.flatMap Seg.pts).map toPt) .empty
          [toPt ⟨cx, cy, false⟩]
          (fun st' p hs' hp => by
            obtain ⟨q, _, rfl⟩ := List.mem_map.mp hp
            exact emit_toPt_ok st' q hs') trivial).1
        rw [List.map_append, List.map_cons, List.map_nil, happ, emitB_segs init hbi]
        have e1 : emit fixedCoord .empty 0 (toPt ⟨cx, cy, false⟩) =
            .ok (.quad (toPt ⟨cx, cy, false⟩), []) := by
          simp [emit, toPt, q0]
        simp only [emitB, e1, List.append_nil]
        simp only [finish, emit, q1, c1, Bool.false_eq_true, ↓reduceIte, toPt, out_id x hx,
          out_id y hy, out_id cx h1, out_id cy h2, List.map_append, List.map_cons, List.map_nil,
          Seg.cmd, List.append_assoc, List.cons_append, List.nil_append]
      · have hP : closedPts ⟨sx, sy, true⟩ (init ++ [Seg.quad cx cy x y])
            = ⟨sx, sy, true⟩ :: (init ++ [Seg.quad cx cy x y]).flatMap Seg.pts := by
          unfold closedPts
          simp only [hlast, List.head?_cons, Option.some.injEq, Point.mk.injEq, and_true]
          have : ¬ (x = sx ∧ y = sy) := he
          simp [this]
        rw [hP]
        exact draw_open_pts sx sy _ hs hb last


/-- a closed contour of a path: `M s`, line/quadratic segments, `Z` -/
structure PContour where
  sx : Int
  sy : Int
  segs : List Seg
deriving Repr

def PContour.els (c : PContour) : List El := .move c.sx c.sy :: c.segs.map Seg.el ++ [.close]
def PContour.pts (c : PContour) : List Point := closedPts ⟨c.sx, c.sy, true⟩ c.segs
def PContour.Bounded (c : PContour) : Prop := inI16 c.sx ∧ inI16 c.sy ∧ ∀ s ∈ c.segs, s.Bounded

theorem run_segs (segs : List Seg) : ∀ (d : List (List Point)) (P : List Point) (rest : List El),
    run ⟨d, some P⟩ (segs.map Seg.el ++ rest) = run ⟨d, some (P ++ segs.flatMap Seg.pts)⟩ rest := by
  induction segs with
  | nil => intro d P rest; simp
  | cons s ss ih =>
    intro d P rest
    cases s with
    | line x y =>
      simp only [List.map_cons, List.cons_append, run, Seg.el, step, List.flatMap_cons, Seg.pts]
      rw [ih]; simp
    | quad cx cy x y =>
      simp only [List.map_cons, List.cons_append, run, Seg.el, step, List.flatMap_cons, Seg.pts]
      rw [ih]; simp

def curList : Option (List Point) → List (List Point)
  | none => []
  | some c => [c]

theorem run_contour (c : PContour) (d : List (List Point)) (cur : Option (List Point))
    (rest : List El) :
    run ⟨d, cur⟩ (c.els ++ rest) = run ⟨d ++ curList cur, some c.pts⟩ rest := by
  unfold PContour.els
  cases cur with
  | none =>
    simp only [List.cons_append, List.append_assoc, run, step, curList, List.append_nil]
    rw [run_segs]
    simp only [List.cons_append, List.nil_append, run, step, PContour.pts, closedPts]
    by_cases hc : (({ x := c.sx, y := c.sy, on := true } : Point) :: List.flatMap Seg.pts c.segs).length > 1 ∧
        (({ x := c.sx, y := c.sy, on := true } : Point) :: List.flatMap Seg.pts c.segs).getLast? =
          (({ x := c.sx, y := c.sy, on := true } : Point) :: List.flatMap Seg.pts c.segs).head?
    · simp only [hc, and_self, ↓reduceIte]
    · simp only [hc, ↓reduceIte]
  | some c0 =>
    simp only [List.cons_append, List.append_assoc, run, step, curList]
    rw [run_segs]
    simp only [List.cons_append, List.nil_append, run, step, PContour.pts, closedPts]
    by_cases hc : (({ x := c.sx, y := c.sy, on := true } : Point) :: List.flatMap Seg.pts c.segs).length > 1 ∧
        (({ x := c.sx, y := c.sy, on := true } : Point) :: List.flatMap Seg.pts c.segs).getLast? =
          (({ x := c.sx, y := c.sy, on := true } : Point) :: List.flatMap Seg.pts c.segs).head?
    · simp only [hc, and_self, ↓reduceIte]
    · simp only [hc, ↓reduceIte]

/-- all contours gathered by the element loop -/
def St.final (s : St) : List (List Point) := s.done ++ curList s.cur

theorem run_contours (cs : List PContour) : ∀ (d : List (List Point)) (cur : Option (List Point)),
    ∃ s', run ⟨d, cur⟩ (cs.flatMap PContour.els) = .ok s' ∧
      s'.final = d ++ curList cur ++ cs.map PContour.pts := by
  induction cs with
  | nil => intro d cur; exact ⟨⟨d, cur⟩, rfl, by simp [St.final]⟩
  | cons c cs ih =>
    intro d cur
    obtain ⟨s', h1, h2⟩ := ih (d ++ curList cur) (some c.pts)
    refine ⟨s', ?_, ?_⟩
    · rw [List.flatMap_cons, run_contour]; exact h1
    · rw [h2]; simp [curList]


/-- a decoded point as `read_points_fast` returns it -/
def fastPt (p : Point) : Int × Int × Nat := (p.x, p.y, if p.on then 1 else 0)

theorem zipPts_map (l : List Point) :
    zipPts (l.map (fun p => (64 * p.x, 64 * p.y))) (l.map (fun p => if p.on then 1 else 0))
      = l.map toPt := by
  induction l with
  | nil => rfl
  | cons p ps ih => simp only [List.map_cons, zipPts, ih, toPt]

theorem toPathGo_contours (cs : List (List Point)) :
    ∀ (A : List Point) (all : List Point) (ix : Nat), all = A ++ cs.flatten →
    (∀ c ∈ cs, c ≠ []) →
    (∀ c ∈ cs, (contourToPath fixedCoord .freeType (c.map toPt)
        ((c.map toPt).getLast?.getD ⟨0, 0, 0⟩)).2 = none) →
    toPathGo fixedCoord .freeType (all.map (fun p => (64 * p.x, 64 * p.y)))
        (all.map (fun p => if p.on then 1 else 0)) (endSpec A.length cs) ix A.length
      = (cs.flatMap (fun c => (contourToPath fixedCoord .freeType (c.map toPt)
            ((c.map toPt).getLast?.getD ⟨0, 0, 0⟩)).1), none) := by
  induction cs with
  | nil => intro A all ix _ _ _; rfl
  | cons c cs ih =>
    intro A all ix hall hne herr
    have hc := hne c (by simp)
    have hcl : 0 < c.length := List.length_pos_iff.mpr hc
    have hlen : all.length = A.length + (c.length + cs.flatten.length) := by
      rw [hall]; simp
    simp only [endSpec, toPathGo, List.length_map]
    have h1 : ¬ (A.length + c.length - 1 < A.length ∨ A.length + c.length - 1 ≥ all.length) := by omega
    have h2 : ¬ (A.length + c.length - 1 ≥ all.length) := by omega
    have hn : A.length + c.length - 1 - A.length + 1 = c.length := by omega
    simp only [h2, ↓reduceIte, hn]
    have hd : (all.drop A.length).take c.length = c := by
      rw [hall, List.flatten_cons, List.drop_left, List.take_left]
    rw [← List.map_drop, ← List.map_drop, ← List.map_take, ← List.map_take, hd, zipPts_map]
    cases hl : (c.map toPt).getLast? with
    | none => simp [hc] at hl
    | some last =>
      have he := herr c (by simp)
      rw [hl, Option.getD_some] at he
      cases hr : contourToPath fixedCoord .freeType (c.map toPt) last with
      | mk cmds e =>
        rw [hr] at he
        simp only [] at he
        subst he
        have e1 : A.length + c.length - 1 + 1 = (A ++ c).length := by simp; omega
        rw [e1]
        have := ih (A ++ c) all (ix + 1) (by rw [hall]; simp) (fun x hx => hne x (by simp [hx]))
          (fun x hx => herr x (by simp [hx]))
        simp only [List.length_append] at this e1 ⊢
        rw [this]
        have h3 : ¬ (A.length + c.length - 1 < A.length) := by omega
        have hl' : (Option.map toPt c.getLast?) = some last := by rw [← List.getLast?_map]; exact hl
        simp [List.flatMap_cons, hl', hr, h3]

theorem closedPts_head (s : Point) (segs : List Seg) : ∃ t, closedPts s segs = s :: t ∧
    ∀ p ∈ t, p ∈ segs.flatMap Seg.pts := by
  unfold closedPts
  simp only []
  split
  · rename_i h
    cases hf : segs.flatMap Seg.pts with
    | nil => rw [hf] at h; simp at h
    | cons q qs =>
      refine ⟨(q :: qs).dropLast, by simp [List.dropLast_cons_of_ne_nil], ?_⟩
      intro p hp; exact List.dropLast_subset _ hp
  · exact ⟨_, rfl, fun p hp => hp⟩

theorem seg_pts_bounded (segs : List Seg) (hb : ∀ s ∈ segs, s.Bounded) :
    ∀ p ∈ segs.flatMap Seg.pts, Bounded p := by
  intro p hp
  obtain ⟨s, hs, hps⟩ := List.mem_flatMap.mp hp
  have := hb s hs
  cases s with
  | line x y =>
    simp only [Seg.pts, List.mem_cons, List.not_mem_nil, or_false] at hps
    subst hps; exact this
  | quad cx cy x y =>
    simp only [Seg.pts, List.mem_cons, List.not_mem_nil, or_false] at hps
    obtain ⟨h1, h2, h3, h4⟩ := this
    rcases hps with rfl | rfl
    · exact ⟨h1, h2⟩
    · exact ⟨h3, h4⟩

theorem elide_ne_nil (a : Point) (t : List Point) (ha : a.on = true) : elide (a :: t) ≠ [] := by
  rw [elide_eq_seq]
  cases hi : isImplicit (a :: t) 0 with
  | false => simp
  | true =>
    cases t with
    | nil => simp [isImplicit, wrapPrev, wrapNext, implicit3, ha] at hi
    | cons p2 rest =>
      have hnext : wrapNext (a :: p2 :: rest) 0 = some p2 := by simp [wrapNext]
      simp only [isImplicit, List.getElem?_cons_zero, hnext] at hi
      cases hp : wrapPrev (a :: p2 :: rest) 0 with
      | none => simp [hp] at hi
      | some p0 =>
        rw [hp] at hi
        obtain ⟨_, _, h2off, _, _⟩ := implicit3_spec _ _ _ hi
        simp [elideSeq, off_not_implicit _ _ _ h2off]

theorem elide_subset (l : List Point) : ∀ p ∈ elide l, p ∈ l := by
  intro p hp
  unfold elide at hp
  obtain ⟨i, _, hi⟩ := List.mem_filterMap.mp hp
  exact List.mem_of_getElem? hi

/-- drawing one contour of the built glyph = the path contour's pen calls -/
theorem draw_path_contour (c : PContour) (hb : c.Bounded) :
    contourToPath fixedCoord .freeType ((elide c.pts).map toPt)
        (((elide c.pts).map toPt).getLast?.getD ⟨0, 0, 0⟩)
      = (Cmd.move (64 * c.sx) (64 * c.sy) :: (closeNorm c.sx c.sy c.segs).map Seg.cmd ++ [Cmd.close],
         none) := by
  obtain ⟨hx, hy, hs⟩ := hb
  obtain ⟨t, ht, hsub⟩ := closedPts_head ⟨c.sx, c.sy, true⟩ c.segs
  have hbt : ∀ p ∈ (⟨c.sx, c.sy, true⟩ : Point) :: t, Bounded p := by
    intro p hp
    simp only [List.mem_cons] at hp
    rcases hp with rfl | hp
    · exact ⟨hx, hy⟩
    · exact seg_pts_bounded c.segs hs p (hsub p hp)
  have hne := elide_ne_nil ⟨c.sx, c.sy, true⟩ t rfl
  unfold PContour.pts
  rw [ht]
  cases hl : ((elide (⟨c.sx, c.sy, true⟩ :: t)).map toPt).getLast? with
  | none => simp [hne] at hl
  | some lastE =>
    simp only [Option.getD_some]
    rw [draw_elided_eq ⟨c.sx, c.sy, true⟩ t rfl hbt lastE ⟨0, 0, 0⟩ hl, ← ht]
    exact draw_full_contour c.sx c.sy c.segs ⟨hx, hy⟩ hs _


theorem foldl_min_mem (r : List Int) : ∀ a, r.foldl min a ∈ a :: r := by
  induction r with
  | nil => intro a; simp
  | cons b r ih =>
    intro a
    have := ih (min a b)
    simp only [List.foldl_cons, List.mem_cons] at this ⊢
    rcases this with h | h
    · rw [h]; rcases Int.le_total a b with hab | hab
      · left; exact Int.min_eq_left hab
      · right; left; exact Int.min_eq_right hab
    · right; right; exact h

theorem foldl_max_mem (r : List Int) : ∀ a, r.foldl max a ∈ a :: r := by
  induction r with
  | nil => intro a; simp
  | cons b r ih =>
    intro a
    have := ih (max a b)
    simp only [List.foldl_cons, List.mem_cons] at this ⊢
    rcases this with h | h
    · rw [h]; rcases Int.le_total a b with hab | hab
      · right; left; exact Int.max_eq_right hab
      · left; exact Int.max_eq_left hab
    · right; right; exact h

theorem minL_in (l : List Int) (h : ∀ v ∈ l, inI16 v) : inI16 (minL l) := by
  cases l with
  | nil => simp [minL, inI16]
  | cons a r => exact h _ (foldl_min_mem r a)

theorem maxL_in (l : List Int) (h : ∀ v ∈ l, inI16 v) : inI16 (maxL l) := by
  cases l with
  | nil => simp [maxL, inI16]
  | cons a r => exact h _ (foldl_max_mem r a)

theorem boxPts_bounded (cs : List PContour) (hb : ∀ c ∈ cs, c.Bounded) :
    ∀ q ∈ boxPts (cs.flatMap PContour.els), inI16 q.1 ∧ inI16 q.2 := by
  have hseg : ∀ (segs : List Seg) (rest : List El), (∀ s ∈ segs, s.Bounded) →
      (∀ q ∈ boxPts rest, inI16 q.1 ∧ inI16 q.2) →
      ∀ q ∈ boxPts (segs.map Seg.el ++ rest), inI16 q.1 ∧ inI16 q.2 := by
    intro segs
    induction segs with
    | nil => intro rest _ hr; simpa using hr
    | cons s ss ih =>
      intro rest hs hr q hq
      have h1 := hs s (by simp)
      have ih' := ih rest (fun x hx => hs x (by simp [hx])) hr
      cases s with
      | line x y =>
        simp only [List.map_cons, List.cons_append, Seg.el, boxPts, List.mem_cons] at hq
        rcases hq with rfl | hq
        · exact h1
        · exact ih' q hq
      | quad cx cy x y =>
        simp only [List.map_cons, List.cons_append, Seg.el, boxPts, List.mem_cons] at hq
        obtain ⟨a1, a2, a3, a4⟩ := h1
        rcases hq with rfl | rfl | hq
        · exact ⟨a1, a2⟩
        · exact ⟨a3, a4⟩
        · exact ih' q hq
  induction cs with
  | nil => intro q hq; simp [boxPts] at hq
  | cons c cs ih =>
    obtain ⟨hx, hy, hs⟩ := hb c (by simp)
    have ih' := ih (fun x hx => hb x (by simp [hx]))
    intro q hq
    simp only [List.flatMap_cons, PContour.els, List.cons_append, List.append_assoc, boxPts,
      List.mem_cons] at hq
    rcases hq with rfl | hq
    · exact ⟨hx, hy⟩
    · refine hseg c.segs _ hs ?_ q hq
      intro q' hq'
      simp only [List.cons_append, List.nil_append, boxPts] at hq'
      exact ih' q' hq'

end FontVerif.GlyfPath
