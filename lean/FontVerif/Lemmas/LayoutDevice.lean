/-
Helper lemmas for C16: Device table writer (`Device::new`) against the reader (`Device::iter`).
-/
import FontVerif.Model.LayoutDevice
set_option linter.unusedVariables false
set_option linter.unusedSimpArgs false
namespace FontVerif.Layout
open FontVerif.HandLayout

/-- OR of bit-disjoint numbers is their sum -/
theorem or_disjoint (a c k : Nat) (ha : a % 2 ^ k = 0) (hc : c < 2 ^ k) : a ||| c = a + c := by
  have h1 := Nat.shiftLeft_add_eq_or_of_lt hc (a / 2 ^ k)
  have h2 : (a / 2 ^ k) <<< k = a := by
    rw [Nat.shiftLeft_eq]
    have := Nat.div_add_mod a (2 ^ k)
    rw [ha, Nat.add_zero, Nat.mul_comm] at this
    exact this
  rw [h2] at h1
  exact h1.symm

theorem and3 (n : Nat) : n &&& 3 = n % 4 := Nat.and_two_pow_sub_one_eq_mod n 2
theorem and15 (n : Nat) : n &&& 15 = n % 16 := Nat.and_two_pow_sub_one_eq_mod n 4
theorem and255 (n : Nat) : n &&& 255 = n % 256 := Nat.and_two_pow_sub_one_eq_mod n 8

theorem sign2 : ∀ v, v < 4 → ((v &&& 2 ≠ 0) ↔ 2 ≤ v) := by decide
theorem sign4 : ∀ v, v < 16 → ((v &&& 8 ≠ 0) ↔ 8 ≤ v) := by decide
set_option maxRecDepth 100000 in
theorem sign8 : ∀ v, v < 256 → ((v &&& 128 ≠ 0) ↔ 128 ≤ v) := by decide +kernel

/-- one decoded field -/
def fieldVal (bits v : Nat) : Int := if 2 ^ (bits - 1) ≤ v then (v : Int) - (2 ^ bits : Nat) else v

/-! ### a full word: decode (encode chunk) = chunk, per format (generated text, literal shifts) -/

theorem dec2 (q : Nat) :
    (if (q % 65536 &&& 3) &&& 2 ≠ 0
      then toI8 (((q % 65536 &&& 3 : Nat) : Int) - ((4 : Nat) : Int))
      else toI8 ((q % 65536 &&& 3 : Nat) : Int)) = fieldVal 2 (q % 4) := by
  rw [and3]
  have hm : q % 65536 % 4 = q % 4 := by omega
  rw [hm]
  have hv : q % 4 < 4 := Nat.mod_lt _ (by decide)
  generalize q % 4 = v at hv
  have hs := sign2 v hv
  unfold fieldVal toI8
  by_cases h : 2 ≤ v
  · have : v &&& 2 ≠ 0 := hs.mpr h
    simp only [this, ↓reduceIte, ne_eq, not_false_eq_true, Nat.reducePow, Nat.reduceSub, h]
    omega
  · have : ¬ (v &&& 2 ≠ 0) := fun e => h (hs.mp e)
    simp only [this, ↓reduceIte, Nat.reducePow, Nat.reduceSub, h]
    omega

theorem fv2 (x : Int) (h : -2 ≤ x ∧ x ≤ 1) : fieldVal 2 ((x % 256).toNat % 4) = x := by
  unfold fieldVal
  simp only [Nat.reducePow, Nat.reduceSub]
  by_cases hc : 2 ≤ (x % 256).toNat % 4
  · rw [if_pos hc]; omega
  · rw [if_neg hc]; omega

theorem full2 (x0 x1 x2 x3 x4 x5 x6 x7 : Int) (h0 : -2 ≤ x0 ∧ x0 ≤ 1) (h1 : -2 ≤ x1 ∧ x1 ≤ 1) (h2 : -2 ≤ x2 ∧ x2 ≤ 1) (h3 : -2 ≤ x3 ∧ x3 ≤ 1) (h4 : -2 ≤ x4 ∧ x4 ≤ 1) (h5 : -2 ≤ x5 ∧ x5 ≤ 1) (h6 : -2 ≤ x6 ∧ x6 ≤ 1) (h7 : -2 ≤ x7 ∧ x7 ≤ 1) :
    packedLoop (encodeChunk 3 2 [x0, x1, x2, x3, x4, x5, x6, x7]) 3 2 2 [0, 1, 2, 3, 4, 5, 6, 7] =
      .val [x0, x1, x2, x3, x4, x5, x6, x7] := by
  simp only [encodeChunk, encodeChunkGo, byteOf, and3, Nat.shiftLeft_eq, Nat.zero_or,
    Nat.reducePow, Nat.reduceSub, Nat.reduceMul, Nat.reduceAdd]
  have r0 := fv2 x0 h0
  have r1 := fv2 x1 h1
  have r2 := fv2 x2 h2
  have r3 := fv2 x3 h3
  have r4 := fv2 x4 h4
  have r5 := fv2 x5 h5
  have r6 := fv2 x6 h6
  have r7 := fv2 x7 h7
  generalize hf0 : (x0 % 256).toNat % 4 = f0 at r0
  generalize hf1 : (x1 % 256).toNat % 4 = f1 at r1
  generalize hf2 : (x2 % 256).toNat % 4 = f2 at r2
  generalize hf3 : (x3 % 256).toNat % 4 = f3 at r3
  generalize hf4 : (x4 % 256).toNat % 4 = f4 at r4
  generalize hf5 : (x5 % 256).toNat % 4 = f5 at r5
  generalize hf6 : (x6 % 256).toNat % 4 = f6 at r6
  generalize hf7 : (x7 % 256).toNat % 4 = f7 at r7
  have b0 : f0 < 4 := by omega
  have b1 : f1 < 4 := by omega
  have b2 : f2 < 4 := by omega
  have b3 : f3 < 4 := by omega
  have b4 : f4 < 4 := by omega
  have b5 : f5 < 4 := by omega
  have b6 : f6 < 4 := by omega
  have b7 : f7 < 4 := by omega
  clear hf0 h0 hf1 h1 hf2 h2 hf3 h3 hf4 h4 hf5 h5 hf6 h6 hf7 h7
  rw [or_disjoint (f0 * 16384 % 65536) (f1 * 4096 % 65536) 14 (by omega) (by omega)]
  rw [or_disjoint (f0 * 16384 % 65536 + f1 * 4096 % 65536) (f2 * 1024 % 65536) 12 (by omega) (by omega)]
  rw [or_disjoint (f0 * 16384 % 65536 + f1 * 4096 % 65536 + f2 * 1024 % 65536) (f3 * 256 % 65536) 10 (by omega) (by omega)]
  rw [or_disjoint (f0 * 16384 % 65536 + f1 * 4096 % 65536 + f2 * 1024 % 65536 + f3 * 256 % 65536) (f4 * 64 % 65536) 8 (by omega) (by omega)]
  rw [or_disjoint (f0 * 16384 % 65536 + f1 * 4096 % 65536 + f2 * 1024 % 65536 + f3 * 256 % 65536 + f4 * 64 % 65536) (f5 * 16 % 65536) 6 (by omega) (by omega)]
  rw [or_disjoint (f0 * 16384 % 65536 + f1 * 4096 % 65536 + f2 * 1024 % 65536 + f3 * 256 % 65536 + f4 * 64 % 65536 + f5 * 16 % 65536) (f6 * 4 % 65536) 4 (by omega) (by omega)]
  rw [or_disjoint (f0 * 16384 % 65536 + f1 * 4096 % 65536 + f2 * 1024 % 65536 + f3 * 256 % 65536 + f4 * 64 % 65536 + f5 * 16 % 65536 + f6 * 4 % 65536) (f7 * 1 % 65536) 2 (by omega) (by omega)]
  generalize hraw : f0 * 16384 % 65536 + f1 * 4096 % 65536 + f2 * 1024 % 65536 + f3 * 256 % 65536 + f4 * 64 % 65536 + f5 * 16 % 65536 + f6 * 4 % 65536 + f7 * 1 % 65536 = raw
  simp only [packedLoop, subTrap, Res.bind, Nat.reduceLeDiff, ↓reduceIte, Nat.reduceSub, Nat.reduceMul,
    Nat.zero_le, Nat.sub_zero, ge_iff_le, Nat.reduceLeDiff, dec2, Nat.reducePow, Nat.div_one]
  have e0 : raw / 16384 % 4 = f0 := by omega
  have e1 : raw / 4096 % 4 = f1 := by omega
  have e2 : raw / 1024 % 4 = f2 := by omega
  have e3 : raw / 256 % 4 = f3 := by omega
  have e4 : raw / 64 % 4 = f4 := by omega
  have e5 : raw / 16 % 4 = f5 := by omega
  have e6 : raw / 4 % 4 = f6 := by omega
  have e7 : raw % 4 = f7 := by omega
  rw [e0, e1, e2, e3, e4, e5, e6, e7, r0, r1, r2, r3, r4, r5, r6, r7]

theorem dec4 (q : Nat) :
    (if (q % 65536 &&& 15) &&& 8 ≠ 0
      then toI8 (((q % 65536 &&& 15 : Nat) : Int) - ((16 : Nat) : Int))
      else toI8 ((q % 65536 &&& 15 : Nat) : Int)) = fieldVal 4 (q % 16) := by
  rw [and15]
  have hm : q % 65536 % 16 = q % 16 := by omega
  rw [hm]
  have hv : q % 16 < 16 := Nat.mod_lt _ (by decide)
  generalize q % 16 = v at hv
  have hs := sign4 v hv
  unfold fieldVal toI8
  by_cases h : 8 ≤ v
  · have : v &&& 8 ≠ 0 := hs.mpr h
    simp only [this, ↓reduceIte, ne_eq, not_false_eq_true, Nat.reducePow, Nat.reduceSub, h]
    omega
  · have : ¬ (v &&& 8 ≠ 0) := fun e => h (hs.mp e)
    simp only [this, ↓reduceIte, Nat.reducePow, Nat.reduceSub, h]
    omega

theorem fv4 (x : Int) (h : -8 ≤ x ∧ x ≤ 7) : fieldVal 4 ((x % 256).toNat % 16) = x := by
  unfold fieldVal
  simp only [Nat.reducePow, Nat.reduceSub]
  by_cases hc : 8 ≤ (x % 256).toNat % 16
  · rw [if_pos hc]; omega
  · rw [if_neg hc]; omega

theorem full4 (x0 x1 x2 x3 : Int) (h0 : -8 ≤ x0 ∧ x0 ≤ 7) (h1 : -8 ≤ x1 ∧ x1 ≤ 7) (h2 : -8 ≤ x2 ∧ x2 ≤ 7) (h3 : -8 ≤ x3 ∧ x3 ≤ 7) :
    packedLoop (encodeChunk 15 4 [x0, x1, x2, x3]) 15 8 4 [0, 1, 2, 3] =
      .val [x0, x1, x2, x3] := by
  simp only [encodeChunk, encodeChunkGo, byteOf, and15, Nat.shiftLeft_eq, Nat.zero_or,
    Nat.reducePow, Nat.reduceSub, Nat.reduceMul, Nat.reduceAdd]
  have r0 := fv4 x0 h0
  have r1 := fv4 x1 h1
  have r2 := fv4 x2 h2
  have r3 := fv4 x3 h3
  generalize hf0 : (x0 % 256).toNat % 16 = f0 at r0
  generalize hf1 : (x1 % 256).toNat % 16 = f1 at r1
  generalize hf2 : (x2 % 256).toNat % 16 = f2 at r2
  generalize hf3 : (x3 % 256).toNat % 16 = f3 at r3
  have b0 : f0 < 16 := by omega
  have b1 : f1 < 16 := by omega
  have b2 : f2 < 16 := by omega
  have b3 : f3 < 16 := by omega
  clear hf0 h0 hf1 h1 hf2 h2 hf3 h3
  rw [or_disjoint (f0 * 4096 % 65536) (f1 * 256 % 65536) 12 (by omega) (by omega)]
  rw [or_disjoint (f0 * 4096 % 65536 + f1 * 256 % 65536) (f2 * 16 % 65536) 8 (by omega) (by omega)]
  rw [or_disjoint (f0 * 4096 % 65536 + f1 * 256 % 65536 + f2 * 16 % 65536) (f3 * 1 % 65536) 4 (by omega) (by omega)]
  generalize hraw : f0 * 4096 % 65536 + f1 * 256 % 65536 + f2 * 16 % 65536 + f3 * 1 % 65536 = raw
  simp only [packedLoop, subTrap, Res.bind, Nat.reduceLeDiff, ↓reduceIte, Nat.reduceSub, Nat.reduceMul,
    Nat.zero_le, Nat.sub_zero, ge_iff_le, Nat.reduceLeDiff, dec4, Nat.reducePow, Nat.div_one]
  have e0 : raw / 4096 % 16 = f0 := by omega
  have e1 : raw / 256 % 16 = f1 := by omega
  have e2 : raw / 16 % 16 = f2 := by omega
  have e3 : raw % 16 = f3 := by omega
  rw [e0, e1, e2, e3, r0, r1, r2, r3]

theorem dec8 (q : Nat) :
    (if (q % 65536 &&& 255) &&& 128 ≠ 0
      then toI8 (((q % 65536 &&& 255 : Nat) : Int) - ((256 : Nat) : Int))
      else toI8 ((q % 65536 &&& 255 : Nat) : Int)) = fieldVal 8 (q % 256) := by
  rw [and255]
  have hm : q % 65536 % 256 = q % 256 := by omega
  rw [hm]
  have hv : q % 256 < 256 := Nat.mod_lt _ (by decide)
  generalize q % 256 = v at hv
  have hs := sign8 v hv
  unfold fieldVal toI8
  by_cases h : 128 ≤ v
  · have : v &&& 128 ≠ 0 := hs.mpr h
    simp only [this, ↓reduceIte, ne_eq, not_false_eq_true, Nat.reducePow, Nat.reduceSub, h]
    omega
  · have : ¬ (v &&& 128 ≠ 0) := fun e => h (hs.mp e)
    simp only [this, ↓reduceIte, Nat.reducePow, Nat.reduceSub, h]
    omega

theorem fv8 (x : Int) (h : -128 ≤ x ∧ x ≤ 127) : fieldVal 8 ((x % 256).toNat % 256) = x := by
  unfold fieldVal
  simp only [Nat.reducePow, Nat.reduceSub]
  by_cases hc : 128 ≤ (x % 256).toNat % 256
  · rw [if_pos hc]; omega
  · rw [if_neg hc]; omega

theorem full8 (x0 x1 : Int) (h0 : -128 ≤ x0 ∧ x0 ≤ 127) (h1 : -128 ≤ x1 ∧ x1 ≤ 127) :
    packedLoop (encodeChunk 255 8 [x0, x1]) 255 128 8 [0, 1] =
      .val [x0, x1] := by
  simp only [encodeChunk, encodeChunkGo, byteOf, and255, Nat.shiftLeft_eq, Nat.zero_or,
    Nat.reducePow, Nat.reduceSub, Nat.reduceMul, Nat.reduceAdd]
  have r0 := fv8 x0 h0
  have r1 := fv8 x1 h1
  generalize hf0 : (x0 % 256).toNat % 256 = f0 at r0
  generalize hf1 : (x1 % 256).toNat % 256 = f1 at r1
  have b0 : f0 < 256 := by omega
  have b1 : f1 < 256 := by omega
  clear hf0 h0 hf1 h1
  rw [or_disjoint (f0 * 256 % 65536) (f1 * 1 % 65536) 8 (by omega) (by omega)]
  generalize hraw : f0 * 256 % 65536 + f1 * 1 % 65536 = raw
  simp only [packedLoop, subTrap, Res.bind, Nat.reduceLeDiff, ↓reduceIte, Nat.reduceSub, Nat.reduceMul,
    Nat.zero_le, Nat.sub_zero, ge_iff_le, Nat.reduceLeDiff, dec8, Nat.reducePow, Nat.div_one]
  have e0 : raw / 256 % 256 = f0 := by omega
  have e1 : raw % 256 = f1 := by omega
  rw [e0, e1, r0, r1]

theorem full2_list (l : List Int) (hl : l.length = 8) (hr : ∀ x ∈ l, -2 ≤ x ∧ x ≤ 1) :
    packedLoop (encodeChunk 3 2 l) 3 2 2 (List.range 8) = .val l := by
  have hrange : List.range 8 = [0, 1, 2, 3, 4, 5, 6, 7] := by decide
  rw [hrange]
  rcases l with _ | ⟨x0, _ | ⟨x1, _ | ⟨x2, _ | ⟨x3, _ | ⟨x4, _ | ⟨x5, _ | ⟨x6, _ | ⟨x7, _ | ⟨x8, l⟩⟩⟩⟩⟩⟩⟩⟩⟩
  all_goals (try (simp only [List.length_cons, List.length_nil] at hl))
  all_goals (try omega)
  exact full2 x0 x1 x2 x3 x4 x5 x6 x7 (hr x0 (by simp)) (hr x1 (by simp)) (hr x2 (by simp)) (hr x3 (by simp)) (hr x4 (by simp)) (hr x5 (by simp)) (hr x6 (by simp)) (hr x7 (by simp))

theorem full4_list (l : List Int) (hl : l.length = 4) (hr : ∀ x ∈ l, -8 ≤ x ∧ x ≤ 7) :
    packedLoop (encodeChunk 15 4 l) 15 8 4 (List.range 4) = .val l := by
  have hrange : List.range 4 = [0, 1, 2, 3] := by decide
  rw [hrange]
  rcases l with _ | ⟨x0, _ | ⟨x1, _ | ⟨x2, _ | ⟨x3, _ | ⟨x4, l⟩⟩⟩⟩⟩
  all_goals (try (simp only [List.length_cons, List.length_nil] at hl))
  all_goals (try omega)
  exact full4 x0 x1 x2 x3 (hr x0 (by simp)) (hr x1 (by simp)) (hr x2 (by simp)) (hr x3 (by simp))

theorem full8_list (l : List Int) (hl : l.length = 2) (hr : ∀ x ∈ l, -128 ≤ x ∧ x ≤ 127) :
    packedLoop (encodeChunk 255 8 l) 255 128 8 (List.range 2) = .val l := by
  have hrange : List.range 2 = [0, 1] := by decide
  rw [hrange]
  rcases l with _ | ⟨x0, _ | ⟨x1, _ | ⟨x2, l⟩⟩⟩
  all_goals (try (simp only [List.length_cons, List.length_nil] at hl))
  all_goals (try omega)
  exact full8 x0 x1 (hr x0 (by simp)) (hr x1 (by simp))

/-! ### partial last word: trailing zero fields change nothing, decoding is prefix-stable -/

theorem encodeChunkGo_pad (mask bits : Nat) : ∀ (xs : List Int) (m i out : Nat),
    encodeChunkGo mask bits i out (xs ++ List.replicate m 0) = encodeChunkGo mask bits i out xs := by
  intro xs
  induction xs with
  | nil =>
    intro m
    induction m with
    | zero => intro i out; rfl
    | succ m ih =>
      intro i out
      simp only [List.nil_append, List.replicate_succ, encodeChunkGo] at ih ⊢
      have : byteOf 0 = 0 := by decide
      simp only [this, Nat.zero_and, Nat.zero_shiftLeft, Nat.zero_mod, Nat.or_zero]
      exact ih (i + 1) out
  | cons x xs ih =>
    intro m i out
    simp only [List.cons_append, encodeChunkGo]
    exact ih m (i + 1) _

theorem packedLoop_prefix (raw mask sm bits : Nat) : ∀ (l1 l2 : List Nat) (vs : List Int),
    packedLoop raw mask sm bits (l1 ++ l2) = .val vs →
    packedLoop raw mask sm bits l1 = .val (vs.take l1.length) := by
  intro l1
  induction l1 with
  | nil => intro l2 vs _; simp [packedLoop]
  | cons i rest ih =>
    intro l2 vs h
    simp only [List.cons_append, packedLoop] at h ⊢
    cases h1 : subTrap 16 bits with
    | trap => rw [h1] at h; simp [Res.bind] at h
    | val a =>
      rw [h1] at h
      simp only [Res.bind] at h ⊢
      cases h2 : subTrap a (i * bits) with
      | trap => rw [h2] at h; simp at h
      | val shift =>
        rw [h2] at h
        simp only at h ⊢
        by_cases c1 : shift ≥ 16
        · simp [c1] at h
        · by_cases c2 : i ≥ 8
          · simp [c1, c2] at h
          · simp only [c1, c2, ↓reduceIte] at h ⊢
            cases h3 : packedLoop raw mask sm bits (rest ++ l2) with
            | trap => rw [h3] at h; simp at h
            | val tl =>
              rw [h3] at h
              simp only [Res.val.injEq] at h
              subst h
              rw [ih l2 tl h3]
              simp

/-! ### any chunk, any number of words -/

theorem chunk_decode (per mask sm bits : Nat) (lo hi : Int) (hz : lo ≤ 0 ∧ 0 ≤ hi)
    (hfull : ∀ l : List Int, l.length = per → (∀ x ∈ l, lo ≤ x ∧ x ≤ hi) →
      packedLoop (encodeChunk mask bits l) mask sm bits (List.range per) = .val l)
    (chunk : List Int) (hL : chunk.length ≤ per) (hr : ∀ x ∈ chunk, lo ≤ x ∧ x ≤ hi) :
    packedLoop (encodeChunk mask bits chunk) mask sm bits (List.range chunk.length) = .val chunk := by
  have hpad := hfull (chunk ++ List.replicate (per - chunk.length) 0)
    (by simp; omega)
    (by
      intro x hx
      rcases List.mem_append.mp hx with h | h
      · exact hr x h
      · rw [List.mem_replicate] at h; rw [h.2]; exact hz)
  have henc : encodeChunk mask bits (chunk ++ List.replicate (per - chunk.length) 0) = encodeChunk mask bits chunk :=
    encodeChunkGo_pad mask bits chunk _ 0 0
  rw [henc] at hpad
  have hrange : List.range per = List.range chunk.length ++
      (List.range (per - chunk.length)).map (chunk.length + ·) := by
    have : per = chunk.length + (per - chunk.length) := by omega
    conv => lhs; rw [this]
    exact List.range_add
  rw [hrange] at hpad
  have := packedLoop_prefix _ _ _ _ _ _ _ hpad
  rw [this, List.length_range, List.take_left']
  rfl

theorem chunksOf_nil {α : Type} (k : Nat) : chunksOf k ([] : List α) = [] := by
  rw [chunksOf]; split <;> simp

theorem chunksOf_cons {α : Type} (k : Nat) (hk : 0 < k) (xs : List α) (hx : xs ≠ []) :
    chunksOf k xs = xs.take k :: chunksOf k (xs.drop k) := by
  rw [chunksOf]
  have h0 : ¬ k = 0 := by omega
  have h1 : ¬ xs.length = 0 := by
    intro h; exact hx (List.eq_nil_of_length_eq_zero h)
  simp only [h0, ↓reduceDIte, h1]

/-- decoding the words written for `vs` yields `vs` -/
theorem devWords_roundtrip (fmt per mask sm bits : Nat) (lo hi : Int) (hz : lo ≤ 0 ∧ 0 ≤ hi)
    (hp : packParams fmt = (mask, sm, bits)) (hb : bits ≠ 0) (hper : 16 / bits = per) (hpos : 0 < per)
    (hfull : ∀ l : List Int, l.length = per → (∀ x ∈ l, lo ≤ x ∧ x ≤ hi) →
      packedLoop (encodeChunk mask bits l) mask sm bits (List.range per) = .val l) :
    ∀ (n : Nat) (vs : List Int), vs.length = n → (∀ x ∈ vs, lo ≤ x ∧ x ≤ hi) →
      devWords fmt per n ((chunksOf per vs).map (encodeChunk mask bits)) = .val vs := by
  intro n
  induction n using Nat.strongRecOn with
  | ind n ih =>
    intro vs hn hr
    by_cases hv : vs = []
    · subst hv; rw [chunksOf_nil]; rfl
    · rw [chunksOf_cons per hpos vs hv]
      simp only [List.map_cons, devWords]
      have hlen : (vs.take per).length = min n per := by rw [List.length_take, hn, Nat.min_comm]
      have hchunk := chunk_decode per mask sm bits lo hi hz hfull (vs.take per)
        (by rw [hlen]; exact Nat.min_le_right _ _) (fun x hx => hr x (List.mem_of_mem_take hx))
      have hiter : iterPackedValues (encodeChunk mask bits (vs.take per)) fmt n = .val (vs.take per) := by
        unfold iterPackedValues
        simp only [hp, hb, ↓reduceIte, hper]
        rw [← hlen]
        exact hchunk
      rw [hiter]
      have hnpos : 0 < n := by
        rw [← hn]; exact List.length_pos_iff.mpr hv
      have hrest := ih (n - per) (by omega) (vs.drop per) (by rw [List.length_drop, hn])
        (fun x hx => hr x (List.mem_of_mem_drop hx))
      simp only [Res.bind, hrest, List.take_append_drop]

/-! ### format choice -/

theorem foldl_max_spec : ∀ (l : List Nat) (a : Nat),
    a ≤ l.foldl max a ∧ (∀ x ∈ l, x ≤ l.foldl max a) ∧ (l.foldl max a = a ∨ l.foldl max a ∈ l) := by
  intro l
  induction l with
  | nil => intro a; exact ⟨Nat.le_refl _, fun x hx => (nomatch hx), Or.inl rfl⟩
  | cons y ys ih =>
    intro a
    obtain ⟨h1, h2, h3⟩ := ih (max a y)
    simp only [List.foldl_cons]
    refine ⟨Nat.le_trans (Nat.le_max_left a y) h1, fun x hx => ?_, ?_⟩
    · rcases List.mem_cons.mp hx with rfl | hx'
      · exact Nat.le_trans (Nat.le_max_right a x) h1
      · exact h2 x hx'
    · rcases h3 with h | h
      · rw [h]
        rcases Nat.le_total a y with hle | hle
        · rw [Nat.max_eq_right hle]; exact Or.inr (List.mem_cons_self ..)
        · rw [Nat.max_eq_left hle]; exact Or.inl rfl
      · exact Or.inr (List.mem_cons_of_mem _ h)

theorem deltaFormatOf_range (v : Int) : 1 ≤ deltaFormatOf v ∧ deltaFormatOf v ≤ 3 := by
  unfold deltaFormatOf; split <;> (try split) <;> omega

theorem chooseFormat_range (vs : List Int) : 1 ≤ chooseFormat vs ∧ chooseFormat vs ≤ 3 := by
  unfold chooseFormat
  obtain ⟨h1, _, h3⟩ := foldl_max_spec (vs.map deltaFormatOf) 1
  refine ⟨h1, ?_⟩
  rcases h3 with h | h
  · rw [h]; omega
  · obtain ⟨v, _, hv⟩ := List.mem_map.mp h
    rw [← hv]; exact (deltaFormatOf_range v).2

theorem chooseFormat_le (vs : List Int) (k : Nat) (hk : 1 ≤ k) :
    chooseFormat vs ≤ k ↔ ∀ v ∈ vs, deltaFormatOf v ≤ k := by
  unfold chooseFormat
  obtain ⟨h1, h2, h3⟩ := foldl_max_spec (vs.map deltaFormatOf) 1
  constructor
  · intro h v hv
    exact Nat.le_trans (h2 _ (List.mem_map.mpr ⟨v, hv, rfl⟩)) h
  · intro h
    rcases h3 with e | e
    · rw [e]; exact hk
    · obtain ⟨v, hv, hve⟩ := List.mem_map.mp e
      rw [← hve]; exact h v hv

theorem deltaFormatOf_le1 (v : Int) : deltaFormatOf v ≤ 1 ↔ (-2 ≤ v ∧ v ≤ 1) := by
  unfold deltaFormatOf; split <;> (try split) <;> omega

theorem deltaFormatOf_le2 (v : Int) : deltaFormatOf v ≤ 2 ↔ (-8 ≤ v ∧ v ≤ 7) := by
  unfold deltaFormatOf; split <;> (try split) <;> omega

end FontVerif.Layout
