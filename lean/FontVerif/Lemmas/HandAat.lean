/-
Helper lemmas for Props/C01HandAat.lean (Model/HandAat.lean): big-endian reads stay inside the data,
the transcribed `binary_search_by` returns an in-range index whatever the keys, per-format facts of
the byte-level AAT lookups.
-/
import FontVerif.Model.HandAat
set_option linter.unusedVariables false
namespace FontVerif.HandAat
open FontVerif FontVerif.HandRead

theorem beValue_lt (bs : List Nat) (hb : ∀ b ∈ bs, b < 256) : beValue bs < 256 ^ bs.length := by
  unfold beValue
  suffices h : ∀ (l : List Nat) (acc k : Nat), (∀ b ∈ l, b < 256) → acc < 256 ^ k →
      l.foldl (fun a b => a * 256 + b) acc < 256 ^ (k + l.length) by
    have := h bs 0 0 hb (by simp)
    simpa using this
  intro l
  induction l with
  | nil => intro acc k _ h; simpa using h
  | cons x xs ih =>
    intro acc k hl h
    simp only [List.foldl_cons, List.length_cons]
    have hx : x < 256 := hl x (by simp)
    have := ih (acc * 256 + x) (k + 1) (fun b hb' => hl b (List.mem_cons_of_mem _ hb')) (by
      rw [Nat.pow_succ]; omega)
    have e : k + 1 + xs.length = k + (xs.length + 1) := by omega
    rw [e] at this
    exact this

theorem beAt_lt (d : List Nat) (hb : ∀ b ∈ d, b < 256) (p n : Nat) : beAt d p n < 256 ^ n := by
  unfold beAt
  have h1 := beValue_lt ((d.drop p).take n) (fun b hb' => hb b (List.mem_of_mem_drop (List.mem_of_mem_take hb')))
  have h2 : ((d.drop p).take n).length ≤ n := by simp; omega
  exact Nat.lt_of_lt_of_le h1 (Nat.pow_le_pow_right (by omega) h2)

theorem readAt_some {d : List Nat} {off sz v : Nat} (h : readAt d off sz = some v) :
    off + sz ≤ d.length ∧ v = beAt d off sz := by
  unfold readAt checkedAdd at h
  split at h
  · cases h
  · rename_i e he
    split at he
    · injection he with he; subst he
      split at h
      · injection h with h; exact ⟨by assumption, h.symm⟩
      · cases h
    · cases he

theorem readAt_of_le {d : List Nat} {off sz : Nat} (h : off + sz ≤ d.length) (hl : d.length ≤ MAXU) :
    readAt d off sz = some (beAt d off sz) := by
  unfold readAt checkedAdd
  have : off + sz ≤ MAXU := by omega
  simp [this, h]

theorem readAt_none {d : List Nat} {off sz : Nat} (h : readAt d off sz = none) (hl : d.length ≤ MAXU) :
    d.length < off + sz := by
  by_cases hc : off + sz ≤ d.length
  · rw [readAt_of_le hc hl] at h; cases h
  · omega

theorem beAt_drop (d : List Nat) (k p w : Nat) : beAt (d.drop k) p w = beAt d (k + p) w := by
  unfold beAt
  rw [List.drop_drop]

theorem beAt_take (l : List Nat) (L p w : Nat) (h : p + w ≤ L) : beAt (l.take L) p w = beAt l p w := by
  unfold beAt
  rw [List.drop_take, List.take_take]
  have : min w (L - p) = w := by omega
  rw [this]

/-! ## binary search: the index is in range whatever the keys -/

theorem bsLoop_bounds (c : Nat → Ordering) : ∀ (size base : Nat), 1 ≤ size →
    base ≤ Layout.bsLoop c size base ∧ Layout.bsLoop c size base < base + size := by
  intro size
  induction size using Nat.strongRecOn with
  | _ size ih =>
    intro base h1
    unfold Layout.bsLoop
    by_cases hs : size > 1
    · simp only [hs, ↓reduceDIte]
      have hlt : size - size / 2 < size := by omega
      by_cases hc : (c (base + size / 2) == .gt) = true
      · simp only [hc, ↓reduceIte]
        have := ih (size - size / 2) hlt base (by omega)
        omega
      · simp only [hc, Bool.false_eq_true, ↓reduceIte]
        have := ih (size - size / 2) hlt (base + size / 2) (by omega)
        omega
    · simp only [hs, ↓reduceDIte]; omega

theorem bs_ok_lt {n : Nat} {c : Nat → Ordering} {i : Nat} (h : Layout.binarySearchBy n c = .ok i) :
    i < n ∧ c i = .eq := by
  unfold Layout.binarySearchBy at h
  by_cases hn : n = 0
  · simp [hn] at h
  · simp only [hn, ↓reduceIte] at h
    have hb := bsLoop_bounds c n 0 (by omega)
    generalize Layout.bsLoop c n 0 = b at h hb
    cases hc : c b <;> simp [hc] at h
    subst h
    exact ⟨by omega, hc⟩

theorem bs_err_le {n : Nat} {c : Nat → Ordering} {i : Nat} (h : Layout.binarySearchBy n c = .err i) :
    i ≤ n := by
  unfold Layout.binarySearchBy at h
  by_cases hn : n = 0
  · simp [hn] at h; omega
  · simp only [hn, ↓reduceIte] at h
    have hb := bsLoop_bounds c n 0 (by omega)
    generalize Layout.bsLoop c n 0 = b at h hb
    cases hc : c b <;> simp [hc] at h <;> omega

theorem bsIx_lt {n : Nat} (c : Nat → Ordering) (hn : 0 < n) : bsIx n c < n := by
  unfold bsIx
  cases h : Layout.binarySearchBy n c with
  | ok i => exact (bs_ok_lt h).1
  | err i => have := bs_err_le h; simp only; omega

/-! ## byte-level AAT lookups -/

/-- `v` is (the low 16 bits of) a big-endian number of `w` bytes that lie inside `d` -/
def ReadsInside (d : List Nat) (v : Nat) : Prop :=
  ∃ p w, p + w ≤ d.length ∧ (v = beAt d p w ∨ v = beAt d p w % 65536)

theorem readsInside_drop {d : List Nat} {k p w v : Nat} (h : readAt (d.drop k) p w = some v) :
    ReadsInside d v := by
  obtain ⟨h1, h2⟩ := readAt_some h
  simp only [List.length_drop] at h1
  by_cases hk : k ≤ d.length
  · exact ⟨k + p, w, by omega, Or.inl (by rw [h2, beAt_drop])⟩
  · -- the dropped list is empty: `p + w ≤ 0`
    have hp : p = 0 := by omega
    have hw : w = 0 := by omega
    subst hp; subst hw
    exact ⟨0, 0, by omega, Or.inl (by rw [h2]; simp [beAt])⟩

theorem lookup0v_facts (d : List Nat) (size g : Nat) (hl : d.length ≤ MAXU) (hs : size = 2 ∨ size = 4) :
    lookup0v d size g ≠ .trap ∧ ∀ v, lookup0v d size g = .ok v → ReadsInside d v := by
  unfold lookup0v
  by_cases h2 : d.length < 2
  · simp [h2]
  · simp only [h2, ↓reduceIte]
    have hs0 : size ≠ 0 := by omega
    simp only [hs0, ↓reduceIte, List.length_drop]
    have hdiv : (d.length - 2) / size * size ≤ (d.length - 2) := Nat.div_mul_le_self _ _
    have hng : ¬ ((d.length - 2) / size * size > (d.length - 2)) := by omega
    simp only [hng, ↓reduceIte]
    by_cases hg : g < (d.length - 2) / size
    · simp only [hg, ↓reduceIte]
      have hle : g * size + size ≤ (d.drop 2).length := by
        simp only [List.length_drop]
        have : (g + 1) * size ≤ (d.length - 2) / size * size := Nat.mul_le_mul_right _ hg
        rw [Nat.succ_mul] at this
        omega
      have hl2 : (d.drop 2).length ≤ MAXU := by simp; omega
      rw [readAt_of_le hle hl2]
      refine ⟨by simp, ?_⟩
      intro v hv
      injection hv with hv
      exact readsInside_drop (k := 2) (p := g * size) (w := size) (by rw [readAt_of_le hle hl2, hv])
    · simp [hg]


theorem readsInside_take_drop {d : List Nat} {k L p w v : Nat}
    (h : readAt ((d.drop k).take L) p w = some v) (hk : k ≤ d.length) : ReadsInside d v := by
  obtain ⟨h1, h2⟩ := readAt_some h
  simp only [List.length_take, List.length_drop] at h1
  refine ⟨k + p, w, by omega, Or.inl ?_⟩
  rw [h2, beAt_take _ _ _ _ (by omega), beAt_drop]

theorem readsInside_self {d : List Nat} {p w v : Nat} (h : readAt d p w = some v) : ReadsInside d v := by
  obtain ⟨h1, h2⟩ := readAt_some h
  exact ⟨p, w, h1, Or.inl h2⟩

theorem lookup2v_facts (d : List Nat) (size g : Nat) (hl : d.length ≤ MAXU) :
    lookup2v d size g ≠ .trap ∧ ∀ v, lookup2v d size g = .ok v → ReadsInside d v := by
  unfold lookup2v
  cases hu : readAt d 2 2 with
  | none => simp
  | some unit =>
    cases hn : readAt d 4 2 with
    | none => simp
    | some n =>
      simp only []
      by_cases h1 : 12 + unit * n ≤ d.length
      · simp only [h1, ↓reduceIte]
        by_cases h2 : n * (4 + size) ≤ ((d.drop 12).take (unit * n)).length
        · simp only [h2, ↓reduceIte]
          generalize hix : bsIx n (fun i => Layout.natCmp (beAt ((d.drop 12).take (unit * n)) (i * (4 + size) + 2) 2) g) = ix
          by_cases h3 : ix < n
          · simp only [h3, ↓reduceIte]
            split
            · have hle : ix * (4 + size) + 4 + size ≤ ((d.drop 12).take (unit * n)).length := by
                have : (ix + 1) * (4 + size) ≤ n * (4 + size) := Nat.mul_le_mul_right _ h3
                rw [Nat.succ_mul] at this
                omega
              have hl2 : ((d.drop 12).take (unit * n)).length ≤ MAXU := by
                simp only [List.length_take, List.length_drop]; omega
              have hr := readAt_of_le hle hl2
              rw [hr]
              refine ⟨by simp, ?_⟩
              intro v hv
              injection hv with hv
              exact readsInside_take_drop (k := 12) (by rw [hr, hv]) (by omega)
            · simp
          · simp only [h3, ↓reduceIte]; simp
        · simp only [h2, ↓reduceIte]; simp
      · simp only [h1, ↓reduceIte]; simp


theorem lookup4v_facts (d : List Nat) (size g : Nat) (hl : d.length ≤ MAXU) (hb : ∀ b ∈ d, b < 256)
    (hs : size = 2 ∨ size = 4) (hg : g < 65536) :
    lookup4v d size g ≠ .trap ∧ ∀ v, lookup4v d size g = .ok v → ReadsInside d v := by
  unfold lookup4v
  cases hn : readAt d 4 2 with
  | none => simp
  | some n =>
    simp only []
    by_cases h1 : 12 + n * 6 ≤ d.length
    · simp only [h1, ↓reduceIte]
      generalize hix : bsIx n (fun i => Layout.natCmp (beAt d (12 + i * 6 + 2) 2) g) = ix
      by_cases h3 : ix < n
      · simp only [h3, ↓reduceIte]
        split
        · have hoff := beAt_lt d hb (12 + ix * 6 + 4) 2
          generalize beAt d (12 + ix * 6 + 4) 2 = off at hoff ⊢
          generalize beAt d (12 + ix * 6 + 2) 2 = first
          have hnt : ¬ (off + (g - first) * size > MAXU) := by
            have : (g - first) * size ≤ 65536 * 4 := Nat.mul_le_mul (by omega) (by omega)
            simp only [MAXU]; omega
          simp only [hnt, ↓reduceIte]
          cases hr : readAt d (off + (g - first) * size) size with
          | none => simp
          | some v => exact ⟨by simp, fun v' hv => by injection hv with hv; subst hv; exact readsInside_self hr⟩
        · simp
      · simp only [h3, ↓reduceIte]; simp
    · simp only [h1, ↓reduceIte]; simp

theorem lookup6v_facts (d : List Nat) (size g : Nat) (hl : d.length ≤ MAXU) :
    lookup6v d size g ≠ .trap ∧ ∀ v, lookup6v d size g = .ok v → ReadsInside d v := by
  unfold lookup6v
  cases hu : readAt d 2 2 with
  | none => simp
  | some unit =>
    cases hn : readAt d 4 2 with
    | none => simp
    | some n =>
      simp only []
      by_cases h1 : 12 + unit * n ≤ d.length
      · simp only [h1, ↓reduceIte]
        by_cases h2 : n * (2 + size) ≤ ((d.drop 12).take (unit * n)).length
        · simp only [h2, ↓reduceIte]
          cases hbs : Layout.binarySearchBy n (fun i => Layout.natCmp (beAt ((d.drop 12).take (unit * n)) (i * (2 + size)) 2) g) with
          | err i => simp
          | ok ix =>
            have h3 : ix < n := (bs_ok_lt hbs).1
            simp only [h3, ↓reduceIte]
            have hle : ix * (2 + size) + 2 + size ≤ ((d.drop 12).take (unit * n)).length := by
              have : (ix + 1) * (2 + size) ≤ n * (2 + size) := Nat.mul_le_mul_right _ h3
              rw [Nat.succ_mul] at this
              omega
            have hl2 : ((d.drop 12).take (unit * n)).length ≤ MAXU := by
              simp only [List.length_take, List.length_drop]; omega
            have hr := readAt_of_le hle hl2
            rw [hr]
            refine ⟨by simp, ?_⟩
            intro v hv
            injection hv with hv
            exact readsInside_take_drop (k := 12) (by rw [hr, hv]) (by omega)
        · simp only [h2, ↓reduceIte]; simp
      · simp only [h1, ↓reduceIte]; simp

theorem lookup8v_facts (d : List Nat) (g : Nat) (hl : d.length ≤ MAXU) :
    lookup8v d g ≠ .trap ∧ ∀ v, lookup8v d g = .ok v → ReadsInside d v := by
  unfold lookup8v
  by_cases h1 : 6 ≤ d.length
  · simp only [h1, ↓reduceIte]
    rw [readAt_of_le (by omega : 2 + 2 ≤ d.length) hl]
    simp only []
    generalize beAt d 2 2 = first
    by_cases h2 : g < first
    · simp only [h2, ↓reduceIte]; simp
    · simp only [h2, ↓reduceIte]
      by_cases h3 : g - first < (d.length - 6) / 2
      · simp only [h3, ↓reduceIte]
        have hr := readAt_of_le (d := d) (off := 6 + (g - first) * 2) (sz := 2) (by omega) hl
        rw [hr]
        exact ⟨by simp, fun v hv => by injection hv with hv; exact readsInside_self (by rw [hr, hv])⟩
      · simp only [h3, ↓reduceIte]; simp
  · simp only [h1, ↓reduceIte]; simp

theorem lookup10v_facts (d : List Nat) (size g : Nat) (hl : d.length ≤ MAXU) (hb : ∀ b ∈ d, b < 256)
    (hg : g < 65536) :
    lookup10v d size g ≠ .trap ∧ ∀ v, lookup10v d size g = .ok v → ReadsInside d v := by
  unfold lookup10v
  by_cases h1 : 8 ≤ d.length
  · simp only [h1, ↓reduceIte]
    rw [readAt_of_le (by omega : 2 + 2 ≤ d.length) hl, readAt_of_le (by omega : 4 + 2 ≤ d.length) hl]
    simp only []
    have hunit := beAt_lt d hb 2 2
    generalize beAt d 2 2 = unit at hunit ⊢
    generalize beAt d 4 2 = first
    by_cases h2 : g < first
    · simp only [h2, ↓reduceIte]; simp
    · simp only [h2, ↓reduceIte]
      have hnt : ¬ ((g - first) * unit > MAXU) := by
        have : (g - first) * unit ≤ 65536 * 65536 := Nat.mul_le_mul (by omega) (by omega)
        simp only [MAXU]; omega
      simp only [hnt, ↓reduceIte]
      split
      · cases hr : readAt (d.drop 8) ((g - first) * unit) unit with
        | none => simp
        | some r =>
          refine ⟨by simp, fun v hv => ?_⟩
          injection hv with hv
          obtain ⟨p, w, hpw, hv'⟩ := readsInside_drop hr
          refine ⟨p, w, hpw, ?_⟩
          rcases hv' with hv' | hv'
          · by_cases hs2 : size = 2
            · simp only [hs2, ↓reduceIte] at hv; right; rw [← hv, hv']
            · simp only [hs2, ↓reduceIte] at hv; left; rw [← hv, hv']
          · by_cases hs2 : size = 2
            · simp only [hs2, ↓reduceIte] at hv; right; rw [← hv, hv']; omega
            · simp only [hs2, ↓reduceIte] at hv; right; rw [← hv, hv']
      · simp
  · simp only [h1, ↓reduceIte]; simp

theorem lookupValue_facts (d : List Nat) (size g : Nat) (hl : d.length ≤ MAXU) (hb : ∀ b ∈ d, b < 256)
    (hs : size = 2 ∨ size = 4) (hg : g < 65536) :
    lookupValue d size g ≠ .trap ∧ ∀ v, lookupValue d size g = .ok v → ReadsInside d v := by
  unfold lookupValue
  cases hf : readAt d 0 2 with
  | none => simp
  | some fmt =>
    simp only []
    split
    · exact lookup0v_facts d size g hl hs
    · split
      · exact lookup2v_facts d size g hl
      · split
        · exact lookup4v_facts d size g hl hb hs hg
        · split
          · exact lookup6v_facts d size g hl
          · split
            · exact lookup8v_facts d g hl
            · split
              · exact lookup10v_facts d size g hl hb hg
              · simp

/-! ## state tables, ankr, feat, ltag -/

theorem resolveOff_ok {d sub : List Nat} {off : Nat} (h : resolveOff d off = .ok sub) :
    off ≠ 0 ∧ off ≤ d.length ∧ sub = d.drop off := by
  unfold resolveOff at h
  split at h
  · cases h
  · split at h
    · injection h with h; exact ⟨by assumption, by assumption, h.symm⟩
    · cases h

theorem classSubRead_ok {sub : List Nat} {n : Nat} (h : classSubRead sub = .ok n) :
    4 + n ≤ sub.length ∧ n = beAt sub 2 2 := by
  unfold classSubRead at h
  cases hr : readAt sub 2 2 with
  | none => simp [hr] at h
  | some m =>
    simp only [hr] at h
    split at h
    · injection h with h; subst h; exact ⟨by assumption, (readAt_some hr).2⟩
    · cases h

theorem stClass_facts (d : List Nat) (g : Nat) (hr : stRead d = true) (hl : d.length ≤ MAXU) :
    stClass d g ≠ .trap ∧ ∀ c, stClass d g = .ok c →
      (g = 0xFFFF ∧ c = 2) ∨
      (beAt d (beAt d 2 2) 2 ≤ g ∧ g - beAt d (beAt d 2 2) 2 < beAt d (beAt d 2 2 + 2) 2 ∧
        beAt d 2 2 + 4 + (g - beAt d (beAt d 2 2) 2) < d.length ∧
        d[beAt d 2 2 + 4 + (g - beAt d (beAt d 2 2) 2)]? = some c) := by
  simp only [stRead, decide_eq_true_eq] at hr
  unfold stClass
  by_cases hg : g = 0xFFFF
  · simp only [hg, ↓reduceIte]
    exact ⟨by simp, fun c hc => by injection hc with hc; exact Or.inl ⟨trivial, hc.symm⟩⟩
  · simp only [hg, ↓reduceIte]
    rw [readAt_of_le (by omega : 2 + 2 ≤ d.length) hl]
    simp only []
    generalize beAt d 2 2 = co
    cases hres : resolveOff d co with
    | error e => simp
    | ok sub =>
      obtain ⟨hco0, hco, hsub⟩ := resolveOff_ok hres
      simp only []
      cases hcs : classSubRead sub with
      | error e => simp
      | ok n =>
        obtain ⟨hn4, hnv⟩ := classSubRead_ok hcs
        simp only []
        have hsl : sub.length ≤ MAXU := by rw [hsub]; simp; omega
        rw [readAt_of_le (by omega : 0 + 2 ≤ sub.length) hsl]
        simp only []
        have hfirst : beAt sub 0 2 = beAt d co 2 := by rw [hsub, beAt_drop]; simp
        have hn' : n = beAt d (co + 2) 2 := by rw [hnv, hsub, beAt_drop]
        rw [hfirst]
        generalize beAt d co 2 = first
        by_cases h1 : g < first
        · simp only [h1, ↓reduceIte]; simp
        · simp only [h1, ↓reduceIte, hn4]
          by_cases h2 : g - first < n
          · simp only [h2, ↓reduceIte]
            have hlen : sub.length = d.length - co := by rw [hsub]; simp
            have hidx : 4 + (g - first) < sub.length := by omega
            have hget : sub[4 + (g - first)]? = d[co + 4 + (g - first)]? := by
              rw [hsub, List.getElem?_drop]; congr 1; omega
            cases hc : sub[4 + (g - first)]? with
            | none =>
              have := List.getElem?_eq_none_iff.mp hc
              omega
            | some c =>
              refine ⟨by simp, fun c' hc' => ?_⟩
              injection hc' with hc'
              subst hc'
              right
              refine ⟨by omega, by omega, by omega, ?_⟩
              rw [← hget, hc]
          · simp only [h2, ↓reduceIte]; simp


theorem stateEntryRead_ok {e : List Nat} {psize ns fl pl : Nat} (h : stateEntryRead e psize = .ok (ns, fl, pl)) :
    4 + psize ≤ e.length ∧ ns = beAt e 0 2 ∧ fl = beAt e 2 2 ∧ pl = beAt e 4 psize := by
  unfold stateEntryRead at h
  cases h0 : readAt e 0 2 with
  | none => simp [h0] at h
  | some a =>
    cases h2 : readAt e 2 2 with
    | none => simp [h0, h2] at h
    | some b =>
      simp only [h0, h2] at h
      split at h
      · split at h
        · injection h with h
          injection h with ha h
          injection h with hb hc
          exact ⟨by omega, by rw [← ha]; exact (readAt_some h0).2, by rw [← hb]; exact (readAt_some h2).2, hc.symm⟩
        · cases h
      · cases h

theorem asI32_small {v : Nat} (h : v < 65536) : asI32 v = (v : Int) := by
  unfold asI32
  have e : v % 4294967296 = v := Nat.mod_eq_of_lt (by omega)
  simp only [e]
  have : v < 2147483648 := by omega
  simp [this]

theorem mem_of_getElem?_drop {d : List Nat} {k i x : Nat} (h : (d.drop k)[i]? = some x) : x ∈ d :=
  List.mem_of_mem_drop (List.mem_of_getElem? h)

/-- `StateTable::entry`: no trap; an `Ok` entry was read through in-range indices -/
theorem stEntry_facts (d : List Nat) (state cls : Nat) (hr : stRead d = true) (hl : d.length ≤ MAXU)
    (hb : ∀ b ∈ d, b < 256) (hs : state < 65536) (hc : cls < 256) :
    stEntry d state cls ≠ .trap ∧ ∀ ns fl, stEntry d state cls = .ok (ns, fl) →
      ns ≤ 65535 ∧ beAt d 0 2 ≠ 0 ∧
      ∃ eix, d[beAt d 4 2 + (state * beAt d 0 2 + (if cls ≥ beAt d 0 2 then 1 else cls))]? = some eix ∧
        beAt d 6 2 + eix * 4 + 4 ≤ d.length ∧ fl = beAt d (beAt d 6 2 + eix * 4 + 2) 2 := by
  simp only [stRead, decide_eq_true_eq] at hr
  unfold stEntry
  rw [readAt_of_le (by omega : 0 + 2 ≤ d.length) hl, readAt_of_le (by omega : 4 + 2 ≤ d.length) hl,
    readAt_of_le (by omega : 6 + 2 ≤ d.length) hl]
  simp only []
  have hnc := beAt_lt d hb 0 2
  have hao := beAt_lt d hb 4 2
  generalize beAt d 0 2 = nc at hnc ⊢
  generalize beAt d 4 2 = ao at hao ⊢
  generalize beAt d 6 2 = eo
  by_cases h0 : nc = 0
  · simp only [h0, ↓reduceIte]; simp
  · simp only [h0, ↓reduceIte]
    generalize hcl : (if cls ≥ nc then 1 else cls) = cl
    have hclb : cl < 256 := by rw [← hcl]; split <;> omega
    cases hres : resolveOff d ao with
    | error e => simp
    | ok arr =>
      obtain ⟨_, hao', harr⟩ := resolveOff_ok hres
      simp only []
      have hm : state * nc ≤ 65536 * 65536 := Nat.mul_le_mul (by omega) (by omega)
      have hcm : checkedMul state nc = some (state * nc) := by
        unfold checkedMul
        have : state * nc ≤ MAXU := by simp only [MAXU]; omega
        simp only [this, ↓reduceIte]
      rw [hcm]
      simp only []
      have hnt : ¬ (state * nc + cl > MAXU) := by simp only [MAXU]; omega
      simp only [hnt, ↓reduceIte]
      cases hix : arr[state * nc + cl]? with
      | none => simp
      | some eix =>
        simp only []
        have heix : eix < 256 := hb eix (by rw [harr] at hix; exact mem_of_getElem?_drop hix)
        have hnt2 : ¬ (eix * 4 > MAXU) := by simp only [MAXU]; omega
        simp only [hnt2, ↓reduceIte]
        cases hres2 : resolveOff d eo with
        | error e => simp
        | ok ent =>
          obtain ⟨_, heo', hent⟩ := resolveOff_ok hres2
          simp only []
          by_cases h4 : eix * 4 ≤ ent.length
          · simp only [h4, ↓reduceIte]
            cases hse : stateEntryRead (ent.drop (eix * 4)) 0 with
            | error e => simp
            | ok r =>
              obtain ⟨ns, fl, pl⟩ := r
              obtain ⟨hlen, hns, hfl, _⟩ := stateEntryRead_ok hse
              simp only []
              have hnsb : ns < 65536 := by
                rw [hns, hent, List.drop_drop, beAt_drop]; exact beAt_lt d hb _ 2
              rw [asI32_small hnsb, asI32_small hao, asI32_small hnc]
              have hd1 : ¬ ((ns : Int) - (ao : Int) < -2147483648 ∨ (ns : Int) - (ao : Int) > 2147483647) := by omega
              simp only [hd1, ↓reduceIte]
              have hd2 : ¬ ((nc : Int) = 0 ∨ ((ns : Int) - (ao : Int) = -2147483648 ∧ (nc : Int) = -1)) := by omega
              simp only [hd2, ↓reduceIte]
              split
              · rename_i hq
                refine ⟨by simp, fun ns' fl' h => ?_⟩
                injection h with h
                injection h with h1 h2
                refine ⟨by omega, h0, eix, ?_, ?_, ?_⟩
                · rw [harr, List.getElem?_drop] at hix; exact hix
                · simp only [List.length_drop, hent] at hlen; omega
                · rw [← h2, hfl, hent, List.drop_drop, beAt_drop]
              · simp
          · simp only [h4, ↓reduceIte]; simp


/-- `ExtendedStateTable::entry`: no trap; an `Ok` entry was read through in-range indices -/
theorem stxEntry_facts (d : List Nat) (psize state cls : Nat) (hr : stxRead d = true) (hl : d.length ≤ MAXU)
    (hb : ∀ b ∈ d, b < 256) (hp : psize ≤ 65536) (hs : state < 65536) (hc : cls < 65536) :
    stxEntry d psize state cls ≠ .trap ∧ ∀ ns fl pl, stxEntry d psize state cls = .ok (ns, fl, pl) →
      ∃ eix, beAt d 8 4 + 2 * (state * beAt d 0 4 + (if cls ≥ beAt d 0 4 then 1 else cls)) + 2 ≤ d.length ∧
        eix = beAt d (beAt d 8 4 + 2 * (state * beAt d 0 4 + (if cls ≥ beAt d 0 4 then 1 else cls))) 2 ∧
        beAt d 12 4 + eix * (4 + psize) + 4 + psize ≤ d.length ∧
        ns = beAt d (beAt d 12 4 + eix * (4 + psize)) 2 ∧
        fl = beAt d (beAt d 12 4 + eix * (4 + psize) + 2) 2 ∧
        pl = beAt d (beAt d 12 4 + eix * (4 + psize) + 4) psize := by
  simp only [stxRead, decide_eq_true_eq] at hr
  unfold stxEntry
  rw [readAt_of_le (by omega : 0 + 4 ≤ d.length) hl, readAt_of_le (by omega : 8 + 4 ≤ d.length) hl,
    readAt_of_le (by omega : 12 + 4 ≤ d.length) hl]
  simp only []
  have hnc := beAt_lt d hb 0 4
  generalize beAt d 0 4 = nc at hnc ⊢
  generalize beAt d 8 4 = ao
  generalize beAt d 12 4 = eo
  generalize hcl : (if cls ≥ nc then 1 else cls) = cl
  have hclb : cl < 65536 := by rw [← hcl]; split <;> omega
  cases hres : resolveOff d ao with
  | error e => simp
  | ok arr =>
    obtain ⟨_, hao', harr⟩ := resolveOff_ok hres
    simp only []
    have hm : state * nc ≤ 65536 * 4294967296 := Nat.mul_le_mul (by omega) (by omega)
    have hnt : ¬ (state * nc + cl > MAXU) := by simp only [MAXU]; omega
    simp only [hnt, ↓reduceIte]
    by_cases hix : state * nc + cl < arr.length / 2
    · simp only [hix, ↓reduceIte]
      have hal : arr.length = d.length - ao := by rw [harr]; simp
      have hle : 2 * (state * nc + cl) + 2 ≤ arr.length := by omega
      rw [readAt_of_le hle (by omega)]
      simp only []
      have heixv : beAt arr (2 * (state * nc + cl)) 2 = beAt d (ao + 2 * (state * nc + cl)) 2 := by
        rw [harr, beAt_drop]
      have heix := beAt_lt d hb (ao + 2 * (state * nc + cl)) 2
      rw [heixv]
      generalize beAt d (ao + 2 * (state * nc + cl)) 2 = eix at heix ⊢
      have hm2 : eix * (4 + psize) ≤ 65536 * 65540 := Nat.mul_le_mul (by omega) (by omega)
      have hnt2 : ¬ (eix * (4 + psize) > MAXU) := by simp only [MAXU]; omega
      simp only [hnt2, ↓reduceIte]
      cases hres2 : resolveOff d eo with
      | error e => simp
      | ok ent =>
        obtain ⟨_, heo', hent⟩ := resolveOff_ok hres2
        simp only []
        by_cases h4 : eix * (4 + psize) ≤ ent.length
        · simp only [h4, ↓reduceIte]
          cases hse : stateEntryRead (ent.drop (eix * (4 + psize))) psize with
          | error e => simp
          | ok r =>
            obtain ⟨ns, fl, pl⟩ := r
            obtain ⟨hlen, hns, hfl, hpl⟩ := stateEntryRead_ok hse
            simp only []
            refine ⟨by simp, fun ns' fl' pl' h => ?_⟩
            injection h with h
            injection h with h1 h
            injection h with h2 h3
            subst h1; subst h2; subst h3
            refine ⟨eix, by omega, rfl, ?_, ?_, ?_, ?_⟩
            · simp only [List.length_drop, hent] at hlen; omega
            · rw [hns, hent, List.drop_drop, beAt_drop]; simp
            · rw [hfl, hent, List.drop_drop, beAt_drop]
            · rw [hpl, hent, List.drop_drop, beAt_drop]
        · simp only [h4, ↓reduceIte]; simp
    · simp only [hix, ↓reduceIte]; simp

theorem stxClass_facts (d : List Nat) (g : Nat) (hr : stxRead d = true) (hl : d.length ≤ MAXU)
    (hb : ∀ b ∈ d, b < 256) (hg : g < 65536) :
    stxClass d g ≠ .trap ∧ ∀ c, stxClass d g = .ok c →
      (g = 0xFFFF ∧ c = 2) ∨ ReadsInside d c := by
  simp only [stxRead, decide_eq_true_eq] at hr
  unfold stxClass
  by_cases hgd : g = 0xFFFF
  · simp only [hgd, ↓reduceIte]
    exact ⟨by simp, fun c hc => by injection hc with hc; exact Or.inl ⟨trivial, hc.symm⟩⟩
  · simp only [hgd, ↓reduceIte]
    rw [readAt_of_le (by omega : 4 + 4 ≤ d.length) hl]
    simp only []
    cases hres : resolveOff d (beAt d 4 4) with
    | error e => simp
    | ok sub =>
      obtain ⟨_, hco, hsub⟩ := resolveOff_ok hres
      simp only []
      have hsl : sub.length ≤ MAXU := by rw [hsub]; simp; omega
      have hsb : ∀ b ∈ sub, b < 256 := fun b hb' => hb b (by rw [hsub] at hb'; exact List.mem_of_mem_drop hb')
      obtain ⟨h1, h2⟩ := lookupValue_facts sub 2 g hsl hsb (Or.inl rfl) hg
      refine ⟨h1, fun c hc => Or.inr ?_⟩
      obtain ⟨p, w, hpw, hv⟩ := h2 c hc
      rw [hsub] at hpw hv
      simp only [List.length_drop] at hpw
      rw [beAt_drop] at hv
      exact ⟨beAt d 4 4 + p, w, by omega, hv⟩


theorem checkedAdd_some {a b c : Nat} (h : checkedAdd a b = some c) : c = a + b ∧ a + b ≤ MAXU := by
  unfold checkedAdd at h; split at h
  · injection h with h; exact ⟨h.symm, by assumption⟩
  · cases h

theorem checkedMul_some {a b c : Nat} (h : checkedMul a b = some c) : c = a * b ∧ a * b ≤ MAXU := by
  unfold checkedMul at h; split at h
  · injection h with h; exact ⟨h.symm, by assumption⟩
  · cases h

/-- `Ankr::anchor_points`: no trap; the points handed out lie inside the table -/
theorem ankrPoints_facts (d : List Nat) (gid : Nat) (hr : ankrRead d = true) (hl : d.length ≤ MAXU)
    (hb : ∀ b ∈ d, b < 256) :
    ankrPoints d gid ≠ .trap ∧ ∀ p n, ankrPoints d gid = .ok (p, n) →
      gid ≤ 0xFFFF ∧ 4 ≤ p ∧ p + 4 * n ≤ d.length ∧ n = beAt d (p - 4) 4 := by
  simp only [ankrRead, decide_eq_true_eq] at hr
  unfold ankrPoints
  by_cases hg : gid > 0xFFFF
  · simp only [hg, ↓reduceIte]; simp
  · simp only [hg, ↓reduceIte]
    rw [readAt_of_le (by omega : 4 + 4 ≤ d.length) hl, readAt_of_le (by omega : 8 + 4 ≤ d.length) hl]
    simp only []
    cases hres : resolveOff d (beAt d 4 4) with
    | error e => simp
    | ok sub =>
      obtain ⟨_, hco, hsub⟩ := resolveOff_ok hres
      simp only []
      have hsl : sub.length ≤ MAXU := by rw [hsub]; simp; omega
      have hsb : ∀ b ∈ sub, b < 256 := fun b hb' => hb b (by rw [hsub] at hb'; exact List.mem_of_mem_drop hb')
      obtain ⟨h1, _⟩ := lookupValue_facts sub 2 gid hsl hsb (Or.inl rfl) (by omega)
      cases hlk : lookupValue sub 2 gid with
      | trap => exact absurd hlk h1
      | err e => simp
      | ok v =>
        simp only []
        cases hadd : checkedAdd (beAt d 8 4) v with
        | none => simp
        | some full =>
          simp only []
          by_cases hf : full ≤ d.length
          · simp only [hf, ↓reduceIte]
            cases hrn : readAt (d.drop full) 0 4 with
            | none => simp
            | some n =>
              simp only []
              cases hmul : checkedMul n 4 with
              | none => simp
              | some bl =>
                obtain ⟨hbl, _⟩ := checkedMul_some hmul
                simp only []
                split
                · rename_i hfit
                  refine ⟨by simp, fun p n' h => ?_⟩
                  injection h with h
                  injection h with hp hn
                  subst hp; subst hn
                  simp only [List.length_drop] at hfit
                  refine ⟨by omega, by omega, by omega, ?_⟩
                  have := (readAt_some hrn).2
                  rw [beAt_drop] at this
                  simpa using this
                · simp
          · simp only [hf, ↓reduceIte]; simp

/-- `Feat::find`: a hit is the index of a record inside the table with exactly this feature code -/
theorem featFind_facts (d : List Nat) (n feature ix : Nat) (hr : featRead d = some n)
    (h : featFind d n feature = some ix) :
    ix < n ∧ 12 + (ix + 1) * 12 ≤ d.length ∧ beAt d (12 + ix * 12) 2 = feature := by
  unfold featFind at h
  cases hbs : Layout.binarySearchBy n (fun i => Layout.natCmp (beAt d (12 + i * 12) 2) feature) with
  | err i => simp [hbs] at h
  | ok j =>
    simp only [hbs] at h
    obtain ⟨hj, hcmp⟩ := bs_ok_lt hbs
    simp only [hj, ↓reduceIte] at h
    injection h with h
    subst h
    refine ⟨hj, ?_, ?_⟩
    · unfold featRead at hr
      cases h4 : readAt d 4 2 with
      | none => simp [h4] at hr
      | some m =>
        simp only [h4] at hr
        cases hm : checkedMul m 12 with
        | none => simp [hm] at hr
        | some bl =>
          simp only [hm] at hr
          obtain ⟨hbl, _⟩ := checkedMul_some hm
          split at hr
          · injection hr with hr; subst hr
            have : (j + 1) * 12 ≤ m * 12 := Nat.mul_le_mul_right _ hj
            omega
          · cases hr
    · simp only [Layout.natCmp] at hcmp
      split at hcmp
      · cases hcmp
      · split at hcmp
        · assumption
        · cases hcmp


theorem ltagRead_some {d : List Nat} {n : Nat} (h : ltagRead d = some n) : 12 + n * 4 ≤ d.length := by
  unfold ltagRead at h
  cases h8 : readAt d 8 4 with
  | none => simp [h8] at h
  | some m =>
    simp only [h8] at h
    cases hm : checkedMul m 4 with
    | none => simp [hm] at h
    | some bl =>
      simp only [hm] at h
      obtain ⟨hbl, _⟩ := checkedMul_some hm
      split at h
      · injection h with h; subst h; omega
      · cases h

theorem ltagItem_facts (d : List Nat) (i : Nat) (hl : d.length ≤ MAXU) (hb : ∀ b ∈ d, b < 256)
    (hi : 12 + (i + 1) * 4 ≤ d.length) :
    ∃ o, ltagItem d i = .ok o ∧ ∀ t, o = some t → t.1 = i ∧ t.2.1 + t.2.2 ≤ d.length ∧
      utf8Valid ((d.drop t.2.1).take t.2.2) = true := by
  unfold ltagItem
  rw [readAt_of_le (by omega : 12 + i * 4 + 2 ≤ d.length) hl, readAt_of_le (by omega : 12 + i * 4 + 2 + 2 ≤ d.length) hl]
  simp only []
  have ho := beAt_lt d hb (12 + i * 4) 2
  have hn := beAt_lt d hb (12 + i * 4 + 2) 2
  generalize beAt d (12 + i * 4) 2 = off at ho ⊢
  generalize beAt d (12 + i * 4 + 2) 2 = len at hn ⊢
  have hnt : ¬ (off + len > MAXU) := by simp only [MAXU]; omega
  simp only [hnt, ↓reduceIte]
  by_cases hin : off + len ≤ d.length
  · simp only [hin, ↓reduceIte]
    by_cases hu : utf8Valid ((d.drop off).take len) = true
    · simp only [hu, ↓reduceIte]
      exact ⟨_, rfl, fun t ht => by injection ht with ht; subst ht; exact ⟨rfl, hin, hu⟩⟩
    · simp only [hu]
      exact ⟨none, by simp, fun t ht => by cases ht⟩
  · simp only [hin, ↓reduceIte]
    exact ⟨none, rfl, fun t ht => by cases ht⟩

theorem ltagLoop_facts (d : List Nat) (hl : d.length ≤ MAXU) (hb : ∀ b ∈ d, b < 256) :
    ∀ (is : List Nat), (∀ i ∈ is, 12 + (i + 1) * 4 ≤ d.length) →
      ∃ xs, ltagLoop d is = .ok xs ∧ xs.length ≤ is.length ∧
        ∀ t ∈ xs, t.1 ∈ is ∧ t.2.1 + t.2.2 ≤ d.length ∧ utf8Valid ((d.drop t.2.1).take t.2.2) = true := by
  intro is
  induction is with
  | nil => intro _; exact ⟨[], rfl, by simp, by simp⟩
  | cons i rest ih =>
    intro h
    obtain ⟨o, ho, hof⟩ := ltagItem_facts d i hl hb (h i (by simp))
    obtain ⟨xs, hxs, hlen, hall⟩ := ih (fun j hj => h j (List.mem_cons_of_mem _ hj))
    unfold ltagLoop
    simp only [ho, hxs]
    cases o with
    | none =>
      refine ⟨xs, rfl, by simp; omega, fun t ht => ?_⟩
      obtain ⟨a, b, c⟩ := hall t ht
      exact ⟨List.mem_cons_of_mem _ a, b, c⟩
    | some t0 =>
      refine ⟨t0 :: xs, rfl, by simp; omega, fun t ht => ?_⟩
      simp only [List.mem_cons] at ht
      rcases ht with rfl | ht
      · obtain ⟨a, b, c⟩ := hof t rfl
        exact ⟨by rw [a]; simp, b, c⟩
      · obtain ⟨a, b, c⟩ := hall t ht
        exact ⟨List.mem_cons_of_mem _ a, b, c⟩

/-- `Ltag::tag_indices`: one item per range record at most, every string inside the table, no trap -/
theorem ltagTags_facts (d : List Nat) (n : Nat) (hr : ltagRead d = some n) (hl : d.length ≤ MAXU)
    (hb : ∀ b ∈ d, b < 256) :
    ∃ xs, ltagTags d n = .ok xs ∧ xs.length ≤ n ∧ 12 + n * 4 ≤ d.length ∧
      ∀ t ∈ xs, t.1 < n ∧ t.2.1 + t.2.2 ≤ d.length ∧ utf8Valid ((d.drop t.2.1).take t.2.2) = true := by
  have hn := ltagRead_some hr
  obtain ⟨xs, h1, h2, h3⟩ := ltagLoop_facts d hl hb (List.range n) (fun i hi => by
    have := List.mem_range.mp hi
    have : (i + 1) * 4 ≤ n * 4 := Nat.mul_le_mul_right _ this
    omega)
  refine ⟨xs, h1, by simpa using h2, hn, fun t ht => ?_⟩
  obtain ⟨a, b, c⟩ := h3 t ht
  exact ⟨List.mem_range.mp a, b, c⟩

end FontVerif.HandAat
