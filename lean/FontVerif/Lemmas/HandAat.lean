/-
Helper lemmas for Props/C01HandAat.lean (Model/HandAat.lean): big-endian reads stay inside the data,
the transcribed `binary_search_by` returns an in-range index whatever the keys, per-format facts of
the byte-level AAT lookups.
-/
import FontVerif.Model.HandAat
set_option linter.unusedVariables false
namespace FontVerif.HandAat
open FontVerif FontVerif.HandRead
open FontVerif.ReadIter (Out run items trapped)

theorem beValue_lt (bs : List Nat) (hb : ∀ b ∈ bs, b < 256) : beValue bs < 256 ^ bs.length := by
  unfold beValue
  suffices h : ∀ (l : List Nat) (acc k : Nat), (∀ b ∈ l, b < 256) → acc < 256 ^ k →
      l.foldl (fun a b => a * 256 + b) acc < 256 ^ (k + l.length) by
    have := h bs 0 0 hb (by simp)
    simpa using this
  intro l
  induction l with
  | nil => intro acc k _ h; simpa using h
  | cons x xs ih =>
    intro acc k hl h
    simp only [List.foldl_cons, List.length_cons]
    have hx : x < 256 := hl x (by simp)
    have := ih (acc * 256 + x) (k + 1) (fun b hb' => hl b (List.mem_cons_of_mem _ hb')) (by
      rw [Nat.pow_succ]; omega)
    have e : k + 1 + xs.length = k + (xs.length + 1) := by omega
    rw [e] at this
    exact this

theorem beAt_lt (d : List Nat) (hb : ∀ b ∈ d, b < 256) (p n : Nat) : beAt d p n < 256 ^ n := by
  unfold beAt
  have h1 := beValue_lt ((d.drop p).take n) (fun b hb' => hb b (List.mem_of_mem_drop (List.mem_of_mem_take hb')))
  have h2 : ((d.drop p).take n).length ≤ n := by simp; omega
  exact Nat.lt_of_lt_of_le h1 (Nat.pow_le_pow_right (by omega) h2)

theorem readAt_some {d : List Nat} {off sz v : Nat} (h : readAt d off sz = some v) :
    off + sz ≤ d.length ∧ v = beAt d off sz := by
  unfold readAt checkedAdd at h
  split at h
  · cases h
  · rename_i e he
    split at he
    · injection he with he; subst he
      split at h
      · injection h with h; exact ⟨by assumption, h.symm⟩
      · cases h
    · cases he

theorem readAt_of_le {d : List Nat} {off sz : Nat} (h : off + sz ≤ d.length) (hl : d.length ≤ MAXU) :
    readAt d off sz = some (beAt d off sz) := by
  unfold readAt checkedAdd
  have : off + sz ≤ MAXU := by omega
  simp [this, h]

theorem readAt_none {d : List Nat} {off sz : Nat} (h : readAt d off sz = none) (hl : d.length ≤ MAXU) :
    d.length < off + sz := by
  by_cases hc : off + sz ≤ d.length
  · rw [readAt_of_le hc hl] at h; cases h
  · omega

theorem beAt_drop (d : List Nat) (k p w : Nat) : beAt (d.drop k) p w = beAt d (k + p) w := by
  unfold beAt
  rw [List.drop_drop]

theorem beAt_take (l : List Nat) (L p w : Nat) (h : p + w ≤ L) : beAt (l.take L) p w = beAt l p w := by
  unfold beAt
  rw [List.drop_take, List.take_take]
  have : min w (L - p) = w := by omega
  rw [this]

/-! ## binary search: the index is in range whatever the keys -/

theorem bsLoop_bounds (c : Nat → Ordering) : ∀ (size base : Nat), 1 ≤ size →
    base ≤ Layout.bsLoop c size base ∧ Layout.bsLoop c size base < base + size := by
  intro size
  induction size using Nat.strongRecOn with
  | _ size ih =>
    intro base h1
    unfold Layout.bsLoop
    by_cases hs : size > 1
    · simp only [hs, ↓reduceDIte]
      have hlt : size - size / 2 < size := by omega
      by_cases hc : (c (base + size / 2) == .gt) = true
      · simp only [hc, ↓reduceIte]
        have := ih (size - size / 2) hlt base (by omega)
        omega
      · simp only [hc, Bool.false_eq_true, ↓reduceIte]
        have := ih (size - size / 2) hlt (base + size / 2) (by omega)
        omega
    · simp only [hs, ↓reduceDIte]; omega

theorem bs_ok_lt {n : Nat} {c : Nat → Ordering} {i : Nat} (h : Layout.binarySearchBy n c = .ok i) :
    i < n ∧ c i = .eq := by
  unfold Layout.binarySearchBy at h
  by_cases hn : n = 0
  · simp [hn] at h
  · simp only [hn, ↓reduceIte] at h
    have hb := bsLoop_bounds c n 0 (by omega)
    generalize Layout.bsLoop c n 0 = b at h hb
    cases hc : c b <;> simp [hc] at h
    subst h
    exact ⟨by omega, hc⟩

theorem bs_err_le {n : Nat} {c : Nat → Ordering} {i : Nat} (h : Layout.binarySearchBy n c = .err i) :
    i ≤ n := by
  unfold Layout.binarySearchBy at h
  by_cases hn : n = 0
  · simp [hn] at h; omega
  · simp only [hn, ↓reduceIte] at h
    have hb := bsLoop_bounds c n 0 (by omega)
    generalize Layout.bsLoop c n 0 = b at h hb
    cases hc : c b <;> simp [hc] at h <;> omega

theorem bsIx_lt {n : Nat} (c : Nat → Ordering) (hn : 0 < n) : bsIx n c < n := by
  unfold bsIx
  cases h : Layout.binarySearchBy n c with
  | ok i => exact (bs_ok_lt h).1
  | err i => have := bs_err_le h; simp only; omega

/-! ## byte-level AAT lookups -/

/-- `v` is (the low 16 bits of) a big-endian number of `w` bytes that lie inside `d` -/
def ReadsInside (d : List Nat) (v : Nat) : Prop :=
  ∃ p w, p + w ≤ d.length ∧ (v = beAt d p w ∨ v = beAt d p w % 65536)

theorem readsInside_drop {d : List Nat} {k p w v : Nat} (h : readAt (d.drop k) p w = some v) :
    ReadsInside d v := by
  obtain ⟨h1, h2⟩ := readAt_some h
  simp only [List.length_drop] at h1
  by_cases hk : k ≤ d.length
  · exact ⟨k + p, w, by omega, Or.inl (by rw [h2, beAt_drop])⟩
  · -- the dropped list is empty: `p + w ≤ 0`
    have hp : p = 0 := by omega
    have hw : w = 0 := by omega
    subst hp; subst hw
    exact ⟨0, 0, by omega, Or.inl (by rw [h2]; simp [beAt])⟩

theorem lookup0v_facts (d : List Nat) (size g : Nat) (hl : d.length ≤ MAXU) (hs : size = 2 ∨ size = 4) :
    lookup0v d size g ≠ .trap ∧ ∀ v, lookup0v d size g = .ok v → ReadsInside d v := by
  unfold lookup0v
  by_cases h2 : d.length < 2
  · simp [h2]
  · simp only [h2, ↓reduceIte]
    have hs0 : size ≠ 0 := by omega
    simp only [hs0, ↓reduceIte, List.length_drop]
    have hdiv : (d.length - 2) / size * size ≤ (d.length - 2) := Nat.div_mul_le_self _ _
    have hng : ¬ ((d.length - 2) / size * size > (d.length - 2)) := by omega
    simp only [hng, ↓reduceIte]
    by_cases hg : g < (d.length - 2) / size
    · simp only [hg, ↓reduceIte]
      have hle : g * size + size ≤ (d.drop 2).length := by
        simp only [List.length_drop]
        have : (g + 1) * size ≤ (d.length - 2) / size * size := Nat.mul_le_mul_right _ hg
        rw [Nat.succ_mul] at this
        omega
      have hl2 : (d.drop 2).length ≤ MAXU := by simp; omega
      rw [readAt_of_le hle hl2]
      refine ⟨by simp, ?_⟩
      intro v hv
      injection hv with hv
      exact readsInside_drop (k := 2) (p := g * size) (w := size) (by rw [readAt_of_le hle hl2, hv])
    · simp [hg]


theorem readsInside_take_drop {d : List Nat} {k L p w v : Nat}
    (h : readAt ((d.drop k).take L) p w = some v) (hk : k ≤ d.length) : ReadsInside d v := by
  obtain ⟨h1, h2⟩ := readAt_some h
  simp only [List.length_take, List.length_drop] at h1
  refine ⟨k + p, w, by omega, Or.inl ?_⟩
  rw [h2, beAt_take _ _ _ _ (by omega), beAt_drop]

theorem readsInside_self {d : List Nat} {p w v : Nat} (h : readAt d p w = some v) : ReadsInside d v := by
  obtain ⟨h1, h2⟩ := readAt_some h
  exact ⟨p, w, h1, Or.inl h2⟩

theorem lookup2v_facts (d : List Nat) (size g : Nat) (hl : d.length ≤ MAXU) :
    lookup2v d size g ≠ .trap ∧ ∀ v, lookup2v d size g = .ok v → ReadsInside d v := by
  unfold lookup2v
  cases hu : readAt d 2 2 with
  | none => simp
  | some unit =>
    cases hn : readAt d 4 2 with
    | none => simp
    | some n =>
      simp only []
      by_cases h1 : 12 + unit * n ≤ d.length
      · simp only [h1, ↓reduceIte]
        by_cases h2 : n * (4 + size) ≤ ((d.drop 12).take (unit * n)).length
        · simp only [h2, ↓reduceIte]
          generalize hix : bsIx n (fun i => Layout.natCmp (beAt ((d.drop 12).take (unit * n)) (i * (4 + size) + 2) 2) g) = ix
          by_cases h3 : ix < n
          · simp only [h3, ↓reduceIte]
            split
            · have hle : ix * (4 + size) + 4 + size ≤ ((d.drop 12).take (unit * n)).length := by
                have : (ix + 1) * (4 + size) ≤ n * (4 + size) := Nat.mul_le_mul_right _ h3
                rw [Nat.succ_mul] at this
                omega
              have hl2 : ((d.drop 12).take (unit * n)).length ≤ MAXU := by
                simp only [List.length_take, List.length_drop]; omega
              have hr := readAt_of_le hle hl2
              rw [hr]
              refine ⟨by simp, ?_⟩
              intro v hv
              injection hv with hv
              exact readsInside_take_drop (k := 12) (by rw [hr, hv]) (by omega)
            · simp
          · simp only [h3, ↓reduceIte]; simp
        · simp only [h2, ↓reduceIte]; simp
      · simp only [h1, ↓reduceIte]; simp


theorem lookup4v_facts (d : List Nat) (size g : Nat) (hl : d.length ≤ MAXU) (hb : ∀ b ∈ d, b < 256)
    (hs : size = 2 ∨ size = 4) (hg : g < 65536) :
    lookup4v d size g ≠ .trap ∧ ∀ v, lookup4v d size g = .ok v → ReadsInside d v := by
  unfold lookup4v
  cases hn : readAt d 4 2 with
  | none => simp
  | some n =>
    simp only []
    by_cases h1 : 12 + n * 6 ≤ d.length
    · simp only [h1, ↓reduceIte]
      generalize hix : bsIx n (fun i => Layout.natCmp (beAt d (12 + i * 6 + 2) 2) g) = ix
      by_cases h3 : ix < n
      · simp only [h3, ↓reduceIte]
        split
        · have hoff := beAt_lt d hb (12 + ix * 6 + 4) 2
          generalize beAt d (12 + ix * 6 + 4) 2 = off at hoff ⊢
          generalize beAt d (12 + ix * 6 + 2) 2 = first
          have hnt : ¬ (off + (g - first) * size > MAXU) := by
            have : (g - first) * size ≤ 65536 * 4 := Nat.mul_le_mul (by omega) (by omega)
            simp only [MAXU]; omega
          simp only [hnt, ↓reduceIte]
          cases hr : readAt d (off + (g - first) * size) size with
          | none => simp
          | some v => exact ⟨by simp, fun v' hv => by injection hv with hv; subst hv; exact readsInside_self hr⟩
        · simp
      · simp only [h3, ↓reduceIte]; simp
    · simp only [h1, ↓reduceIte]; simp

theorem lookup6v_facts (d : List Nat) (size g : Nat) (hl : d.length ≤ MAXU) :
    lookup6v d size g ≠ .trap ∧ ∀ v, lookup6v d size g = .ok v → ReadsInside d v := by
  unfold lookup6v
  cases hu : readAt d 2 2 with
  | none => simp
  | some unit =>
    cases hn : readAt d 4 2 with
    | none => simp
    | some n =>
      simp only []
      by_cases h1 : 12 + unit * n ≤ d.length
      · simp only [h1, ↓reduceIte]
        by_cases h2 : n * (2 + size) ≤ ((d.drop 12).take (unit * n)).length
        · simp only [h2, ↓reduceIte]
          cases hbs : Layout.binarySearchBy n (fun i => Layout.natCmp (beAt ((d.drop 12).take (unit * n)) (i * (2 + size)) 2) g) with
          | err i => simp
          | ok ix =>
            have h3 : ix < n := (bs_ok_lt hbs).1
            simp only [h3, ↓reduceIte]
            have hle : ix * (2 + size) + 2 + size ≤ ((d.drop 12).take (unit * n)).length := by
              have : (ix + 1) * (2 + size) ≤ n * (2 + size) := Nat.mul_le_mul_right _ h3
              rw [Nat.succ_mul] at this
              omega
            have hl2 : ((d.drop 12).take (unit * n)).length ≤ MAXU := by
              simp only [List.length_take, List.length_drop]; omega
            have hr := readAt_of_le hle hl2
            rw [hr]
            refine ⟨by simp, ?_⟩
            intro v hv
            injection hv with hv
            exact readsInside_take_drop (k := 12) (by rw [hr, hv]) (by omega)
        · simp only [h2, ↓reduceIte]; simp
      · simp only [h1, ↓reduceIte]; simp

theorem lookup8v_facts (d : List Nat) (g : Nat) (hl : d.length ≤ MAXU) :
    lookup8v d g ≠ .trap ∧ ∀ v, lookup8v d g = .ok v → ReadsInside d v := by
  unfold lookup8v
  by_cases h1 : 6 ≤ d.length
  · simp only [h1, ↓reduceIte]
    rw [readAt_of_le (by omega : 2 + 2 ≤ d.length) hl]
    simp only []
    generalize beAt d 2 2 = first
    by_cases h2 : g < first
    · simp only [h2, ↓reduceIte]; simp
    · simp only [h2, ↓reduceIte]
      by_cases h3 : g - first < (d.length - 6) / 2
      · simp only [h3, ↓reduceIte]
        have hr := readAt_of_le (d := d) (off := 6 + (g - first) * 2) (sz := 2) (by omega) hl
        rw [hr]
        exact ⟨by simp, fun v hv => by injection hv with hv; exact readsInside_self (by rw [hr, hv])⟩
      · simp only [h3, ↓reduceIte]; simp
  · simp only [h1, ↓reduceIte]; simp

theorem lookup10v_facts (d : List Nat) (size g : Nat) (hl : d.length ≤ MAXU) (hb : ∀ b ∈ d, b < 256)
    (hg : g < 65536) :
    lookup10v d size g ≠ .trap ∧ ∀ v, lookup10v d size g = .ok v → ReadsInside d v := by
  unfold lookup10v
  by_cases h1 : 8 ≤ d.length
  · simp only [h1, ↓reduceIte]
    rw [readAt_of_le (by omega : 2 + 2 ≤ d.length) hl, readAt_of_le (by omega : 4 + 2 ≤ d.length) hl]
    simp only []
    have hunit := beAt_lt d hb 2 2
    generalize beAt d 2 2 = unit at hunit ⊢
    generalize beAt d 4 2 = first
    by_cases h2 : g < first
    · simp only [h2, ↓reduceIte]; simp
    · simp only [h2, ↓reduceIte]
      have hnt : ¬ ((g - first) * unit > MAXU) := by
        have : (g - first) * unit ≤ 65536 * 65536 := Nat.mul_le_mul (by omega) (by omega)
        simp only [MAXU]; omega
      simp only [hnt, ↓reduceIte]
      split
      · cases hr : readAt (d.drop 8) ((g - first) * unit) unit with
        | none => simp
        | some r =>
          refine ⟨by simp, fun v hv => ?_⟩
          injection hv with hv
          obtain ⟨p, w, hpw, hv'⟩ := readsInside_drop hr
          refine ⟨p, w, hpw, ?_⟩
          rcases hv' with hv' | hv'
          · by_cases hs2 : size = 2
            · simp only [hs2, ↓reduceIte] at hv; right; rw [← hv, hv']
            · simp only [hs2, ↓reduceIte] at hv; left; rw [← hv, hv']
          · by_cases hs2 : size = 2
            · simp only [hs2, ↓reduceIte] at hv; right; rw [← hv, hv']; omega
            · simp only [hs2, ↓reduceIte] at hv; right; rw [← hv, hv']
      · simp
  · simp only [h1, ↓reduceIte]; simp

theorem lookupValue_facts (d : List Nat) (size g : Nat) (hl : d.length ≤ MAXU) (hb : ∀ b ∈ d, b < 256)
    (hs : size = 2 ∨ size = 4) (hg : g < 65536) :
    lookupValue d size g ≠ .trap ∧ ∀ v, lookupValue d size g = .ok v → ReadsInside d v := by
  unfold lookupValue
  cases hf : readAt d 0 2 with
  | none => simp
  | some fmt =>
    simp only []
    split
    · exact lookup0v_facts d size g hl hs
    · split
      · exact lookup2v_facts d size g hl
      · split
        · exact lookup4v_facts d size g hl hb hs hg
        · split
          · exact lookup6v_facts d size g hl
          · split
            · exact lookup8v_facts d g hl
            · split
              · exact lookup10v_facts d size g hl hb hg
              · simp

/-! ## state tables, ankr, feat, ltag -/

theorem resolveOff_ok {d sub : List Nat} {off : Nat} (h : resolveOff d off = .ok sub) :
    off ≠ 0 ∧ off ≤ d.length ∧ sub = d.drop off := by
  unfold resolveOff at h
  split at h
  · cases h
  · split at h
    · injection h with h; exact ⟨by assumption, by assumption, h.symm⟩
    · cases h

theorem classSubRead_ok {sub : List Nat} {n : Nat} (h : classSubRead sub = .ok n) :
    4 + n ≤ sub.length ∧ n = beAt sub 2 2 := by
  unfold classSubRead at h
  cases hr : readAt sub 2 2 with
  | none => simp [hr] at h
  | some m =>
    simp only [hr] at h
    split at h
    · injection h with h; subst h; exact ⟨by assumption, (readAt_some hr).2⟩
    · cases h

theorem stClass_facts (d : List Nat) (g : Nat) (hr : stRead d = true) (hl : d.length ≤ MAXU) :
    stClass d g ≠ .trap ∧ ∀ c, stClass d g = .ok c →
      (g = 0xFFFF ∧ c = 2) ∨
      (beAt d (beAt d 2 2) 2 ≤ g ∧ g - beAt d (beAt d 2 2) 2 < beAt d (beAt d 2 2 + 2) 2 ∧
        beAt d 2 2 + 4 + (g - beAt d (beAt d 2 2) 2) < d.length ∧
        d[beAt d 2 2 + 4 + (g - beAt d (beAt d 2 2) 2)]? = some c) := by
  simp only [stRead, decide_eq_true_eq] at hr
  unfold stClass
  by_cases hg : g = 0xFFFF
  · simp only [hg, ↓reduceIte]
    exact ⟨by simp, fun c hc => by injection hc with hc; exact Or.inl ⟨trivial, hc.symm⟩⟩
  · simp only [hg, ↓reduceIte]
    rw [readAt_of_le (by omega : 2 + 2 ≤ d.length) hl]
    simp only []
    generalize beAt d 2 2 = co
    cases hres : resolveOff d co with
    | error e => simp
    | ok sub =>
      obtain ⟨hco0, hco, hsub⟩ := resolveOff_ok hres
      simp only []
      cases hcs : classSubRead sub with
      | error e => simp
      | ok n =>
        obtain ⟨hn4, hnv⟩ := classSubRead_ok hcs
        simp only []
        have hsl : sub.length ≤ MAXU := by rw [hsub]; simp; omega
        rw [readAt_of_le (by omega : 0 + 2 ≤ sub.length) hsl]
        simp only []
        have hfirst : beAt sub 0 2 = beAt d co 2 := by rw [hsub, beAt_drop]; simp
        have hn' : n = beAt d (co + 2) 2 := by rw [hnv, hsub, beAt_drop]
        rw [hfirst]
        generalize beAt d co 2 = first
        by_cases h1 : g < first
        · simp only [h1, ↓reduceIte]; simp
        · simp only [h1, ↓reduceIte, hn4]
          by_cases h2 : g - first < n
          · simp only [h2, ↓reduceIte]
            have hlen : sub.length = d.length - co := by rw [hsub]; simp
            have hidx : 4 + (g - first) < sub.length := by omega
            have hget : sub[4 + (g - first)]? = d[co + 4 + (g - first)]? := by
              rw [hsub, List.getElem?_drop]; congr 1; omega
            cases hc : sub[4 + (g - first)]? with
            | none =>
              have := List.getElem?_eq_none_iff.mp hc
              omega
            | some c =>
              refine ⟨by simp, fun c' hc' => ?_⟩
              injection hc' with hc'
              subst hc'
              right
              refine ⟨by omega, by omega, by omega, ?_⟩
              rw [← hget, hc]
          · simp only [h2, ↓reduceIte]; simp


theorem stateEntryRead_ok {e : List Nat} {psize ns fl pl : Nat} (h : stateEntryRead e psize = .ok (ns, fl, pl)) :
    4 + psize ≤ e.length ∧ ns = beAt e 0 2 ∧ fl = beAt e 2 2 ∧ pl = beAt e 4 psize := by
  unfold stateEntryRead at h
  cases h0 : readAt e 0 2 with
  | none => simp [h0] at h
  | some a =>
    cases h2 : readAt e 2 2 with
    | none => simp [h0, h2] at h
    | some b =>
      simp only [h0, h2] at h
      split at h
      · split at h
        · injection h with h
          injection h with ha h
          injection h with hb hc
          exact ⟨by omega, by rw [← ha]; exact (readAt_some h0).2, by rw [← hb]; exact (readAt_some h2).2, hc.symm⟩
        · cases h
      · cases h

theorem asI32_small {v : Nat} (h : v < 65536) : asI32 v = (v : Int) := by
  unfold asI32
  have e : v % 4294967296 = v := Nat.mod_eq_of_lt (by omega)
  simp only [e]
  have : v < 2147483648 := by omega
  simp [this]

theorem mem_of_getElem?_drop {d : List Nat} {k i x : Nat} (h : (d.drop k)[i]? = some x) : x ∈ d :=
  List.mem_of_mem_drop (List.mem_of_getElem? h)

/-- `StateTable::entry`: no trap; an `Ok` entry was read through in-range indices -/
theorem stEntry_facts (d : List Nat) (state cls : Nat) (hr : stRead d = true) (hl : d.length ≤ MAXU)
    (hb : ∀ b ∈ d, b < 256) (hs : state < 65536) (hc : cls < 256) :
    stEntry d state cls ≠ .trap ∧ ∀ ns fl, stEntry d state cls = .ok (ns, fl) →
      ns ≤ 65535 ∧ beAt d 0 2 ≠ 0 ∧
      ∃ eix, d[beAt d 4 2 + (state * beAt d 0 2 + (if cls ≥ beAt d 0 2 then 1 else cls))]? = some eix ∧
        beAt d 6 2 + eix * 4 + 4 ≤ d.length ∧ fl = beAt d (beAt d 6 2 + eix * 4 + 2) 2 := by
  simp only [stRead, decide_eq_true_eq] at hr
  unfold stEntry
  rw [readAt_of_le (by omega : 0 + 2 ≤ d.length) hl, readAt_of_le (by omega : 4 + 2 ≤ d.length) hl,
    readAt_of_le (by omega : 6 + 2 ≤ d.length) hl]
  simp only []
  have hnc := beAt_lt d hb 0 2
  have hao := beAt_lt d hb 4 2
  generalize beAt d 0 2 = nc at hnc ⊢
  generalize beAt d 4 2 = ao at hao ⊢
  generalize beAt d 6 2 = eo
  by_cases h0 : nc = 0
  · simp only [h0, ↓reduceIte]; simp
  · simp only [h0, ↓reduceIte]
    generalize hcl : (if cls ≥ nc then 1 else cls) = cl
    have hclb : cl < 256 := by rw [← hcl]; split <;> omega
    cases hres : resolveOff d ao with
    | error e => simp
    | ok arr =>
      obtain ⟨_, hao', harr⟩ := resolveOff_ok hres
      simp only []
      have hm : state * nc ≤ 65536 * 65536 := Nat.mul_le_mul (by omega) (by omega)
      have hcm : checkedMul state nc = some (state * nc) := by
        unfold checkedMul
        have : state * nc ≤ MAXU := by simp only [MAXU]; omega
        simp only [this, ↓reduceIte]
      rw [hcm]
      simp only []
      have hnt : ¬ (state * nc + cl > MAXU) := by simp only [MAXU]; omega
      simp only [hnt, ↓reduceIte]
      cases hix : arr[state * nc + cl]? with
      | none => simp
      | some eix =>
        simp only []
        have heix : eix < 256 := hb eix (by rw [harr] at hix; exact mem_of_getElem?_drop hix)
        have hnt2 : ¬ (eix * 4 > MAXU) := by simp only [MAXU]; omega
        simp only [hnt2, ↓reduceIte]
        cases hres2 : resolveOff d eo with
        | error e => simp
        | ok ent =>
          obtain ⟨_, heo', hent⟩ := resolveOff_ok hres2
          simp only []
          by_cases h4 : eix * 4 ≤ ent.length
          · simp only [h4, ↓reduceIte]
            cases hse : stateEntryRead (ent.drop (eix * 4)) 0 with
            | error e => simp
            | ok r =>
              obtain ⟨ns, fl, pl⟩ := r
              obtain ⟨hlen, hns, hfl, _⟩ := stateEntryRead_ok hse
              simp only []
              have hnsb : ns < 65536 := by
                rw [hns, hent, List.drop_drop, beAt_drop]; exact beAt_lt d hb _ 2
              rw [asI32_small hnsb, asI32_small hao, asI32_small hnc]
              have hd1 : ¬ ((ns : Int) - (ao : Int) < -2147483648 ∨ (ns : Int) - (ao : Int) > 2147483647) := by omega
              simp only [hd1, ↓reduceIte]
              have hd2 : ¬ ((nc : Int) = 0 ∨ ((ns : Int) - (ao : Int) = -2147483648 ∧ (nc : Int) = -1)) := by omega
              simp only [hd2, ↓reduceIte]
              split
              · rename_i hq
                refine ⟨by simp, fun ns' fl' h => ?_⟩
                injection h with h
                injection h with h1 h2
                refine ⟨by omega, h0, eix, ?_, ?_, ?_⟩
                · rw [harr, List.getElem?_drop] at hix; exact hix
                · simp only [List.length_drop, hent] at hlen; omega
                · rw [← h2, hfl, hent, List.drop_drop, beAt_drop]
              · simp
          · simp only [h4, ↓reduceIte]; simp


/-- `ExtendedStateTable::entry`: no trap; an `Ok` entry was read through in-range indices -/
theorem stxEntry_facts (d : List Nat) (psize state cls : Nat) (hr : stxRead d = true) (hl : d.length ≤ MAXU)
    (hb : ∀ b ∈ d, b < 256) (hp : psize ≤ 65536) (hs : state < 65536) (hc : cls < 65536) :
    stxEntry d psize state cls ≠ .trap ∧ ∀ ns fl pl, stxEntry d psize state cls = .ok (ns, fl, pl) →
      ∃ eix, beAt d 8 4 + 2 * (state * beAt d 0 4 + (if cls ≥ beAt d 0 4 then 1 else cls)) + 2 ≤ d.length ∧
        eix = beAt d (beAt d 8 4 + 2 * (state * beAt d 0 4 + (if cls ≥ beAt d 0 4 then 1 else cls))) 2 ∧
        beAt d 12 4 + eix * (4 + psize) + 4 + psize ≤ d.length ∧
        ns = beAt d (beAt d 12 4 + eix * (4 + psize)) 2 ∧
        fl = beAt d (beAt d 12 4 + eix * (4 + psize) + 2) 2 ∧
        pl = beAt d (beAt d 12 4 + eix * (4 + psize) + 4) psize := by
  simp only [stxRead, decide_eq_true_eq] at hr
  unfold stxEntry
  rw [readAt_of_le (by omega : 0 + 4 ≤ d.length) hl, readAt_of_le (by omega : 8 + 4 ≤ d.length) hl,
    readAt_of_le (by omega : 12 + 4 ≤ d.length) hl]
  simp only []
  have hnc := beAt_lt d hb 0 4
  generalize beAt d 0 4 = nc at hnc ⊢
  generalize beAt d 8 4 = ao
  generalize beAt d 12 4 = eo
  generalize hcl : (if cls ≥ nc then 1 else cls) = cl
  have hclb : cl < 65536 := by rw [← hcl]; split <;> omega
  cases hres : resolveOff d ao with
  | error e => simp
  | ok arr =>
    obtain ⟨_, hao', harr⟩ := resolveOff_ok hres
    simp only []
    have hm : state * nc ≤ 65536 * 4294967296 := Nat.mul_le_mul (by omega) (by omega)
    have hnt : ¬ (state * nc + cl > MAXU) := by simp only [MAXU]; omega
    simp only [hnt, ↓reduceIte]
    by_cases hix : state * nc + cl < arr.length / 2
    · simp only [hix, ↓reduceIte]
      have hal : arr.length = d.length - ao := by rw [harr]; simp
      have hle : 2 * (state * nc + cl) + 2 ≤ arr.length := by omega
      rw [readAt_of_le hle (by omega)]
      simp only []
      have heixv : beAt arr (2 * (state * nc + cl)) 2 = beAt d (ao + 2 * (state * nc + cl)) 2 := by
        rw [harr, beAt_drop]
      have heix := beAt_lt d hb (ao + 2 * (state * nc + cl)) 2
      rw [heixv]
      generalize beAt d (ao + 2 * (state * nc + cl)) 2 = eix at heix ⊢
      have hm2 : eix * (4 + psize) ≤ 65536 * 65540 := Nat.mul_le_mul (by omega) (by omega)
      have hnt2 : ¬ (eix * (4 + psize) > MAXU) := by simp only [MAXU]; omega
      simp only [hnt2, ↓reduceIte]
      cases hres2 : resolveOff d eo with
      | error e => simp
      | ok ent =>
        obtain ⟨_, heo', hent⟩ := resolveOff_ok hres2
        simp only []
        by_cases h4 : eix * (4 + psize) ≤ ent.length
        · simp only [h4, ↓reduceIte]
          cases hse : stateEntryRead (ent.drop (eix * (4 + psize))) psize with
          | error e => simp
          | ok r =>
            obtain ⟨ns, fl, pl⟩ := r
            obtain ⟨hlen, hns, hfl, hpl⟩ := stateEntryRead_ok hse
            simp only []
            refine ⟨by simp, fun ns' fl' pl' h => ?_⟩
            injection h with h
            injection h with h1 h
            injection h with h2 h3
            subst h1; subst h2; subst h3
            refine ⟨eix, by omega, rfl, ?_, ?_, ?_, ?_⟩
            · simp only [List.length_drop, hent] at hlen; omega
            · rw [hns, hent, List.drop_drop, beAt_drop]; simp
            · rw [hfl, hent, List.drop_drop, beAt_drop]
            · rw [hpl, hent, List.drop_drop, beAt_drop]
        · simp only [h4, ↓reduceIte]; simp
    · simp only [hix, ↓reduceIte]; simp

theorem stxClass_facts (d : List Nat) (g : Nat) (hr : stxRead d = true) (hl : d.length ≤ MAXU)
    (hb : ∀ b ∈ d, b < 256) (hg : g < 65536) :
    stxClass d g ≠ .trap ∧ ∀ c, stxClass d g = .ok c →
      (g = 0xFFFF ∧ c = 2) ∨ ReadsInside d c := by
  simp only [stxRead, decide_eq_true_eq] at hr
  unfold stxClass
  by_cases hgd : g = 0xFFFF
  · simp only [hgd, ↓reduceIte]
    exact ⟨by simp, fun c hc => by injection hc with hc; exact Or.inl ⟨trivial, hc.symm⟩⟩
  · simp only [hgd, ↓reduceIte]
    rw [readAt_of_le (by omega : 4 + 4 ≤ d.length) hl]
    simp only []
    cases hres : resolveOff d (beAt d 4 4) with
    | error e => simp
    | ok sub =>
      obtain ⟨_, hco, hsub⟩ := resolveOff_ok hres
      simp only []
      have hsl : sub.length ≤ MAXU := by rw [hsub]; simp; omega
      have hsb : ∀ b ∈ sub, b < 256 := fun b hb' => hb b (by rw [hsub] at hb'; exact List.mem_of_mem_drop hb')
      obtain ⟨h1, h2⟩ := lookupValue_facts sub 2 g hsl hsb (Or.inl rfl) hg
      refine ⟨h1, fun c hc => Or.inr ?_⟩
      obtain ⟨p, w, hpw, hv⟩ := h2 c hc
      rw [hsub] at hpw hv
      simp only [List.length_drop] at hpw
      rw [beAt_drop] at hv
      exact ⟨beAt d 4 4 + p, w, by omega, hv⟩


theorem checkedAdd_some {a b c : Nat} (h : checkedAdd a b = some c) : c = a + b ∧ a + b ≤ MAXU := by
  unfold checkedAdd at h; split at h
  · injection h with h; exact ⟨h.symm, by assumption⟩
  · cases h

theorem checkedMul_some {a b c : Nat} (h : checkedMul a b = some c) : c = a * b ∧ a * b ≤ MAXU := by
  unfold checkedMul at h; split at h
  · injection h with h; exact ⟨h.symm, by assumption⟩
  · cases h

/-- `Ankr::anchor_points`: no trap; the points handed out lie inside the table -/
theorem ankrPoints_facts (d : List Nat) (gid : Nat) (hr : ankrRead d = true) (hl : d.length ≤ MAXU)
    (hb : ∀ b ∈ d, b < 256) :
    ankrPoints d gid ≠ .trap ∧ ∀ p n, ankrPoints d gid = .ok (p, n) →
      gid ≤ 0xFFFF ∧ 4 ≤ p ∧ p + 4 * n ≤ d.length ∧ n = beAt d (p - 4) 4 := by
  simp only [ankrRead, decide_eq_true_eq] at hr
  unfold ankrPoints
  by_cases hg : gid > 0xFFFF
  · simp only [hg, ↓reduceIte]; simp
  · simp only [hg, ↓reduceIte]
    rw [readAt_of_le (by omega : 4 + 4 ≤ d.length) hl, readAt_of_le (by omega : 8 + 4 ≤ d.length) hl]
    simp only []
    cases hres : resolveOff d (beAt d 4 4) with
    | error e => simp
    | ok sub =>
      obtain ⟨_, hco, hsub⟩ := resolveOff_ok hres
      simp only []
      have hsl : sub.length ≤ MAXU := by rw [hsub]; simp; omega
      have hsb : ∀ b ∈ sub, b < 256 := fun b hb' => hb b (by rw [hsub] at hb'; exact List.mem_of_mem_drop hb')
      obtain ⟨h1, _⟩ := lookupValue_facts sub 2 gid hsl hsb (Or.inl rfl) (by omega)
      cases hlk : lookupValue sub 2 gid with
      | trap => exact absurd hlk h1
      | err e => simp
      | ok v =>
        simp only []
        cases hadd : checkedAdd (beAt d 8 4) v with
        | none => simp
        | some full =>
          simp only []
          by_cases hf : full ≤ d.length
          · simp only [hf, ↓reduceIte]
            cases hrn : readAt (d.drop full) 0 4 with
            | none => simp
            | some n =>
              simp only []
              cases hmul : checkedMul n 4 with
              | none => simp
              | some bl =>
                obtain ⟨hbl, _⟩ := checkedMul_some hmul
                simp only []
                split
                · rename_i hfit
                  refine ⟨by simp, fun p n' h => ?_⟩
                  injection h with h
                  injection h with hp hn
                  subst hp; subst hn
                  simp only [List.length_drop] at hfit
                  refine ⟨by omega, by omega, by omega, ?_⟩
                  have := (readAt_some hrn).2
                  rw [beAt_drop] at this
                  simpa using this
                · simp
          · simp only [hf, ↓reduceIte]; simp

/-- `Feat::find`: a hit is the index of a record inside the table with exactly this feature code -/
theorem featFind_facts (d : List Nat) (n feature ix : Nat) (hr : featRead d = some n)
    (h : featFind d n feature = some ix) :
    ix < n ∧ 12 + (ix + 1) * 12 ≤ d.length ∧ beAt d (12 + ix * 12) 2 = feature := by
  unfold featFind at h
  cases hbs : Layout.binarySearchBy n (fun i => Layout.natCmp (beAt d (12 + i * 12) 2) feature) with
  | err i => simp [hbs] at h
  | ok j =>
    simp only [hbs] at h
    obtain ⟨hj, hcmp⟩ := bs_ok_lt hbs
    simp only [hj, ↓reduceIte] at h
    injection h with h
    subst h
    refine ⟨hj, ?_, ?_⟩
    · unfold featRead at hr
      cases h4 : readAt d 4 2 with
      | none => simp [h4] at hr
      | some m =>
        simp only [h4] at hr
        cases hm : checkedMul m 12 with
        | none => simp [hm] at hr
        | some bl =>
          simp only [hm] at hr
          obtain ⟨hbl, _⟩ := checkedMul_some hm
          split at hr
          · injection hr with hr; subst hr
            have : (j + 1) * 12 ≤ m * 12 := Nat.mul_le_mul_right _ hj
            omega
          · cases hr
    · simp only [Layout.natCmp] at hcmp
      split at hcmp
      · cases hcmp
      · split at hcmp
        · assumption
        · cases hcmp


theorem ltagRead_some {d : List Nat} {n : Nat} (h : ltagRead d = some n) : 12 + n * 4 ≤ d.length := by
  unfold ltagRead at h
  cases h8 : readAt d 8 4 with
  | none => simp [h8] at h
  | some m =>
    simp only [h8] at h
    cases hm : checkedMul m 4 with
    | none => simp [hm] at h
    | some bl =>
      simp only [hm] at h
      obtain ⟨hbl, _⟩ := checkedMul_some hm
      split at h
      · injection h with h; subst h; omega
      · cases h

theorem ltagItem_facts (d : List Nat) (i : Nat) (hl : d.length ≤ MAXU) (hb : ∀ b ∈ d, b < 256)
    (hi : 12 + (i + 1) * 4 ≤ d.length) :
    ∃ o, ltagItem d i = .ok o ∧ ∀ t, o = some t → t.1 = i ∧ t.2.1 + t.2.2 ≤ d.length ∧
      utf8Valid ((d.drop t.2.1).take t.2.2) = true := by
  unfold ltagItem
  rw [readAt_of_le (by omega : 12 + i * 4 + 2 ≤ d.length) hl, readAt_of_le (by omega : 12 + i * 4 + 2 + 2 ≤ d.length) hl]
  simp only []
  have ho := beAt_lt d hb (12 + i * 4) 2
  have hn := beAt_lt d hb (12 + i * 4 + 2) 2
  generalize beAt d (12 + i * 4) 2 = off at ho ⊢
  generalize beAt d (12 + i * 4 + 2) 2 = len at hn ⊢
  have hnt : ¬ (off + len > MAXU) := by simp only [MAXU]; omega
  simp only [hnt, ↓reduceIte]
  by_cases hin : off + len ≤ d.length
  · simp only [hin, ↓reduceIte]
    by_cases hu : utf8Valid ((d.drop off).take len) = true
    · simp only [hu, ↓reduceIte]
      exact ⟨_, rfl, fun t ht => by injection ht with ht; subst ht; exact ⟨rfl, hin, hu⟩⟩
    · simp only [hu]
      exact ⟨none, by simp, fun t ht => by cases ht⟩
  · simp only [hin, ↓reduceIte]
    exact ⟨none, rfl, fun t ht => by cases ht⟩

theorem ltagLoop_facts (d : List Nat) (hl : d.length ≤ MAXU) (hb : ∀ b ∈ d, b < 256) :
    ∀ (is : List Nat), (∀ i ∈ is, 12 + (i + 1) * 4 ≤ d.length) →
      ∃ xs, ltagLoop d is = .ok xs ∧ xs.length ≤ is.length ∧
        ∀ t ∈ xs, t.1 ∈ is ∧ t.2.1 + t.2.2 ≤ d.length ∧ utf8Valid ((d.drop t.2.1).take t.2.2) = true := by
  intro is
  induction is with
  | nil => intro _; exact ⟨[], rfl, by simp, by simp⟩
  | cons i rest ih =>
    intro h
    obtain ⟨o, ho, hof⟩ := ltagItem_facts d i hl hb (h i (by simp))
    obtain ⟨xs, hxs, hlen, hall⟩ := ih (fun j hj => h j (List.mem_cons_of_mem _ hj))
    unfold ltagLoop
    simp only [ho, hxs]
    cases o with
    | none =>
      refine ⟨xs, rfl, by simp; omega, fun t ht => ?_⟩
      obtain ⟨a, b, c⟩ := hall t ht
      exact ⟨List.mem_cons_of_mem _ a, b, c⟩
    | some t0 =>
      refine ⟨t0 :: xs, rfl, by simp; omega, fun t ht => ?_⟩
      simp only [List.mem_cons] at ht
      rcases ht with rfl | ht
      · obtain ⟨a, b, c⟩ := hof t rfl
        exact ⟨by rw [a]; simp, b, c⟩
      · obtain ⟨a, b, c⟩ := hall t ht
        exact ⟨List.mem_cons_of_mem _ a, b, c⟩

/-- `Ltag::tag_indices`: one item per range record at most, every string inside the table, no trap -/
theorem ltagTags_facts (d : List Nat) (n : Nat) (hr : ltagRead d = some n) (hl : d.length ≤ MAXU)
    (hb : ∀ b ∈ d, b < 256) :
    ∃ xs, ltagTags d n = .ok xs ∧ xs.length ≤ n ∧ 12 + n * 4 ≤ d.length ∧
      ∀ t ∈ xs, t.1 < n ∧ t.2.1 + t.2.2 ≤ d.length ∧ utf8Valid ((d.drop t.2.1).take t.2.2) = true := by
  have hn := ltagRead_some hr
  obtain ⟨xs, h1, h2, h3⟩ := ltagLoop_facts d hl hb (List.range n) (fun i hi => by
    have := List.mem_range.mp hi
    have : (i + 1) * 4 ≤ n * 4 := Nat.mul_le_mul_right _ this
    omega)
  refine ⟨xs, h1, by simpa using h2, hn, fun t ht => ?_⟩
  obtain ⟨a, b, c⟩ := h3 t ht
  exact ⟨List.mem_range.mp a, b, c⟩

/-! ## IFT -/

/-- termination, trip bound, trap freedom and a property of every item from ONE step lemma; the
invariant only has to survive the trips that do not end the iteration -/
theorem run_inv {σ α : Type} (step : σ → Out α × σ) (μ : σ → Nat) (Inv : σ → Prop) (P : α → Prop)
    (hstep : ∀ s, Inv s → (step s).1 ≠ .trap ∧
      ((step s).1 ≠ .done → Inv (step s).2 ∧ μ (step s).2 < μ s) ∧
      (∀ a, (step s).1 = .yield a → P a)) :
    ∀ (f : Nat) (s : σ), Inv s → μ s < f →
      ∃ evs, run step f s = some evs ∧ evs.length ≤ μ s ∧ trapped evs = false ∧ ∀ a ∈ items evs, P a := by
  intro f
  induction f with
  | zero => intro s _ h; omega
  | succ f ih =>
    intro s hi hf
    obtain ⟨hnt, hnd, hy⟩ := hstep s hi
    unfold run
    split
    · exact ⟨[], rfl, by simp, by simp [trapped], by simp [items]⟩
    · rename_i s' hs
      rw [hs] at hnt; exact absurd rfl hnt
    · rename_i s' hs
      rw [hs] at hnd
      obtain ⟨hi', hlt⟩ := hnd (by simp)
      obtain ⟨evs, he, hl, ht, hp⟩ := ih s' hi' (by simp only at hlt; omega)
      refine ⟨.cont :: evs, by simp [he], by simp only [List.length_cons]; simp only at hlt; omega,
        by simpa [trapped] using ht, by simpa [items] using hp⟩
    · rename_i a s' hs
      rw [hs] at hnd hy
      obtain ⟨hi', hlt⟩ := hnd (by simp)
      obtain ⟨evs, he, hl, ht, hp⟩ := ih s' hi' (by simp only at hlt; omega)
      refine ⟨.yield a :: evs, by simp [he], by simp only [List.length_cons]; simp only at hlt; omega,
        by simpa [trapped] using ht, ?_⟩
      intro x hx
      simp only [items, List.mem_cons] at hx
      rcases hx with rfl | hx
      · exact hy x rfl
      · exact hp x hx

theorem compatFromU32s_eq (a b c e : Nat) :
    compatFromU32s [a, b, c, e] = some (beBytes 4 a ++ beBytes 4 b ++ beBytes 4 c ++ beBytes 4 e) := by
  simp [compatFromU32s, compatOuter, compatInner, beBytes, List.range_succ, List.replicate]


theorem f1Read_some {d : List Nat} {h : F1Hdr} (hr : f1Read d = some h) :
    h.maxEntry = beAt d 21 2 ∧ h.glyphCount = beAt d 25 3 ∧ h.bitmapLen = (h.maxEntry + 1 + 7) / 8 ∧
      36 + h.bitmapLen + 2 + h.uriLen + 1 ≤ d.length := by
  unfold f1Read at hr
  cases h4 : readAt d 4 1 with
  | none => simp [h4] at hr
  | some flags =>
    cases h21 : readAt d 21 2 with
    | none => simp [h4, h21] at hr
    | some mei =>
      simp only [h4, h21] at hr
      cases hu : readAt d (36 + (mei + 1 + 7) / 8) 2 with
      | none => simp [hu] at hr
      | some ul =>
        simp only [hu, Option.ite_none_right_eq_some, Option.some.injEq] at hr
        obtain ⟨he, hr⟩ := hr
        subst hr
        simp only
        exact ⟨(readAt_some h21).2, trivial, trivial, by omega⟩

theorem glyphMapRead_ok {sub : List Nat} {gc mei : Nat} {g : GmView} (h : glyphMapRead sub gc mei = .ok g) :
    g.first = beAt sub 0 2 ∧ g.size = u8or16Size mei ∧ g.data.length = (gc - g.first) * g.size ∧
      2 + g.data.length ≤ sub.length ∧ g.data = (sub.drop 2).take g.data.length := by
  unfold glyphMapRead at h
  cases h0 : readAt sub 0 2 with
  | none => simp [h0] at h
  | some first =>
    simp only [h0] at h
    cases hm : checkedMul (gc - first) (u8or16Size mei) with
    | none => simp [hm] at h
    | some bl =>
      obtain ⟨hbl, _⟩ := checkedMul_some hm
      simp only [hm] at h
      split at h
      · rename_i hfit
        injection h with h
        subst h
        simp only [List.length_take, List.length_drop]
        have : min bl (sub.length - 2) = bl := by omega
        rw [this]
        refine ⟨(readAt_some h0).2, ?_, hbl, hfit, ?_⟩ <;> first | rfl | trivial
      · cases h

theorem compGet_some {dl il idx off : Nat} (h : compGet dl il idx = some off) :
    off = idx * il ∧ off + il ≤ dl := by
  unfold compGet at h
  cases hm : checkedMul idx il with
  | none => simp [hm] at h
  | some o =>
    obtain ⟨ho, _⟩ := checkedMul_some hm
    simp only [hm] at h
    split at h
    · injection h with h; subst h; exact ⟨ho, by assumption⟩
    · cases h

/-- one trip of `GidToEntryIter::next` from a state at or above `first_mapped_glyph` -/
theorem gidStep_facts (g : GmView) (gc s : Nat) (hgc : gc < 16777216) (hf : g.first < 65536)
    (hs : g.first ≤ s ∧ s ≤ max g.first gc) :
    (gidStep (some g) gc s).1 ≠ .trap ∧
    ((gidStep (some g) gc s).1 ≠ .done →
      (g.first ≤ (gidStep (some g) gc s).2 ∧ (gidStep (some g) gc s).2 ≤ max g.first gc) ∧
      gc - (gidStep (some g) gc s).2 < gc - s) ∧
    (∀ a, (gidStep (some g) gc s).1 = .yield a →
      g.first ≤ a.1 ∧ a.1 < gc ∧ 0 < a.2 ∧
      (a.1 - g.first) * g.size + g.size ≤ g.data.length ∧ a.2 = beAt g.data ((a.1 - g.first) * g.size) g.size) := by
  unfold gidStep
  simp only []
  have h1 : ¬ (s + 1 > 4294967295) := by omega
  simp only [h1, ↓reduceIte]
  by_cases h2 : s ≥ gc
  · simp only [h2, ↓reduceIte]; simp
  · simp only [h2, ↓reduceIte]
    have h3 : ¬ (s < g.first) := by omega
    simp only [h3, ↓reduceIte]
    cases hc : compGet g.data.length g.size (s - g.first) with
    | none => simp
    | some off =>
      obtain ⟨hoff, hfit⟩ := compGet_some hc
      simp only []
      cases hrd : readAt g.data off g.size with
      | none => simp
      | some e =>
        simp only []
        by_cases he : e > 0
        · simp only [he, ↓reduceIte]
          refine ⟨by simp, fun _ => ⟨by omega, by omega⟩, fun a ha => ?_⟩
          injection ha with ha
          subst ha
          simp only
          refine ⟨hs.1, by omega, he, by rw [← hoff]; exact hfit, ?_⟩
          rw [← hoff]; exact (readAt_some hrd).2
        · simp only [he, ↓reduceIte]
          exact ⟨by simp, fun _ => ⟨by omega, by omega⟩, fun a ha => by cases ha⟩


/-- what `gid_to_entry_iter` promises for glyph map `g` -/
def GidItemOk (g : GmView) (gc : Nat) (a : Nat × Nat) : Prop :=
  g.first ≤ a.1 ∧ a.1 < gc ∧ 0 < a.2 ∧
    (a.1 - g.first) * g.size + g.size ≤ g.data.length ∧ a.2 = beAt g.data ((a.1 - g.first) * g.size) g.size

theorem gidTrace_facts (d : List Nat) (h : F1Hdr) (hr : f1Read d = some h) (hb : ∀ b ∈ d, b < 256) :
    (∀ e, f1GlyphMap d h = .error e → gidTrace d h = some []) ∧
    (∀ g, f1GlyphMap d h = .ok g →
      ∃ evs, gidTrace d h = some evs ∧ evs.length ≤ h.glyphCount - g.first ∧
        (h.glyphCount - g.first) * g.size + 2 ≤ d.length ∧ 1 ≤ g.size ∧
        trapped evs = false ∧ ∀ a ∈ items evs, GidItemOk g h.glyphCount a) := by
  obtain ⟨_, hgc, _, _⟩ := f1Read_some hr
  have hgcb : h.glyphCount < 16777216 := by rw [hgc]; exact beAt_lt d hb 25 3
  refine ⟨fun e he => ?_, fun g hg => ?_⟩
  · unfold gidTrace
    simp only [he]
    simp [run, gidStep]
  · unfold gidTrace
    simp only [hg]
    -- the glyph map sits inside the table
    unfold f1GlyphMap at hg
    cases hres : resolveOff d h.gmOff with
    | error e => simp [hres] at hg
    | ok sub =>
      obtain ⟨_, hoff, hsub⟩ := resolveOff_ok hres
      simp only [hres] at hg
      obtain ⟨hfirst, hsize, hlen, hfit, _⟩ := glyphMapRead_ok hg
      have hfb : g.first < 65536 := by
        rw [hfirst, hsub, beAt_drop]; exact beAt_lt d hb _ 2
      have hsz : 1 ≤ g.size := by rw [hsize]; unfold u8or16Size; split <;> omega
      obtain ⟨evs, he, hl, ht, hp⟩ := run_inv (gidStep (some g) h.glyphCount) (fun s => h.glyphCount - s)
        (fun s => g.first ≤ s ∧ s ≤ max g.first h.glyphCount) (GidItemOk g h.glyphCount)
        (fun s hs => gidStep_facts g h.glyphCount s hgcb hfb hs)
        (h.glyphCount + 2) g.first ⟨Nat.le_refl _, by omega⟩ (by omega)
      refine ⟨evs, he, hl, ?_, hsz, ht, hp⟩
      have : sub.length = d.length - h.gmOff := by rw [hsub]; simp
      rw [← hlen]; omega


theorem featureMapRead_ok {sub : List Nat} {mei n rs : Nat} (h : featureMapRead sub mei = .ok (n, rs)) :
    rs = 4 + 2 * u8or16Size mei ∧ n = beAt sub 0 2 ∧ 2 + n * rs ≤ sub.length := by
  unfold featureMapRead at h
  cases h0 : readAt sub 0 2 with
  | none => simp [h0] at h
  | some m =>
    simp only [h0] at h
    cases hm : checkedMul m (4 + 2 * u8or16Size mei) with
    | none => simp [hm] at h
    | some bl =>
      obtain ⟨hbl, _⟩ := checkedMul_some hm
      simp only [hm] at h
      split at h
      · injection h with h
        injection h with h1 h2
        subst h1; subst h2
        exact ⟨rfl, (readAt_some h0).2, by omega⟩
      · cases h

/-- the `entry_map_count` of feature record `i` -/
def recCount (recs : List Nat) (rs w i : Nat) : Nat := beAt recs (rs * i + 4 + w) w

theorem ersLoop_ok (recs : List Nat) (rs w fw n : Nat) (hlen : recs.length = n * rs) (hrs : rs = 4 + 2 * w)
    (hw : w = 1 ∨ w = 2) (hfw : fw ≤ 2) (hb : ∀ b ∈ recs, b < 256) (hl : recs.length ≤ MAXU) :
    ∀ (is : List Nat) (acc : Nat), (∀ i ∈ is, i < n) → acc + is.length * (65535 * 4) ≤ MAXU →
      ersLoop recs rs w fw is acc = .ok (is.foldl (fun a i => a + recCount recs rs w i * fw * 2) acc) ∧
      is.foldl (fun a i => a + recCount recs rs w i * fw * 2) acc ≤ acc + is.length * (65535 * 4) := by
  intro is
  induction is with
  | nil => intro acc _ _; exact ⟨rfl, by simp⟩
  | cons i rest ih =>
    intro acc hall hacc
    have hi : i < n := hall i (by simp)
    have hmul : (i + 1) * rs ≤ n * rs := Nat.mul_le_mul_right _ hi
    rw [Nat.succ_mul] at hmul
    have hst : rs * i ≤ recs.length := by rw [Nat.mul_comm]; omega
    have hcm : checkedMul rs i = some (rs * i) := by
      unfold checkedMul
      have : rs * i ≤ MAXU := by omega
      simp only [this, ↓reduceIte]
    unfold ersLoop
    simp only [hcm]
    have hng : ¬ (rs * i > recs.length) := by omega
    simp only [hng, ↓reduceIte]
    -- the record fits
    have hdl : (recs.drop (rs * i)).length = recs.length - rs * i := by simp
    have hdm : (recs.drop (rs * i)).length ≤ MAXU := by omega
    have hfit : 4 + 2 * w ≤ (recs.drop (rs * i)).length := by
      rw [hdl, ← hrs, Nat.mul_comm rs i]; omega
    have hcnt : featureRecordCount (recs.drop (rs * i)) w = some (recCount recs rs w i) := by
      unfold featureRecordCount
      rw [readAt_of_le (by omega : 0 + 4 ≤ _) hdm, readAt_of_le (by omega : 4 + w ≤ _) hdm,
        readAt_of_le (by omega : 4 + w + w ≤ _) hdm]
      simp only [recCount, beAt_drop]
      have : rs * i + (4 + w) = rs * i + 4 + w := by omega
      rw [this]
    rw [hcnt]
    simp only [List.foldl_cons]
    have hc : recCount recs rs w i < 65536 := by
      have := beAt_lt recs hb (rs * i + 4 + w) w
      unfold recCount
      rcases hw with rfl | rfl
      · have : beAt recs (rs * i + 4 + 1) 1 < 256 ^ 1 := this
        omega
      · exact this
    generalize recCount recs rs w i = c at hc ⊢
    have h2 : c * fw ≤ 65535 * 2 := Nat.mul_le_mul (by omega) hfw
    simp only [List.length_cons] at hacc
    have hnt : ¬ (c * fw > MAXU ∨ c * fw * 2 > MAXU ∨ acc + c * fw * 2 > MAXU) := by
      simp only [MAXU] at hacc ⊢; omega
    simp only [hnt, ↓reduceIte]
    obtain ⟨h3, h4⟩ := ih (acc + c * fw * 2) (fun j hj => hall j (List.mem_cons_of_mem _ hj)) (by omega)
    exact ⟨h3, by simp only [List.length_cons]; omega⟩

/-- `FeatureMap::entry_records_size`: `Ok(Σ count · width · 2)`, below 2^34, no trap, no `Err` -/
theorem entryRecordsSize_facts (sub : List Nat) (meiOwn meiArg n rs : Nat)
    (hr : featureMapRead sub meiOwn = .ok (n, rs)) (hl : sub.length ≤ MAXU) (hb : ∀ b ∈ sub, b < 256) :
    ∃ v, entryRecordsSize sub meiOwn meiArg = .ok v ∧ v ≤ n * (65535 * 4) ∧ n * rs + 2 ≤ sub.length ∧
      v = (List.range n).foldl (fun a i => a + recCount ((sub.drop 2).take (n * rs)) rs (u8or16Size meiOwn) i *
        (if meiArg < 256 then 1 else 2) * 2) 0 := by
  obtain ⟨hrs, hn, hfit⟩ := featureMapRead_ok hr
  have hnb : n < 65536 := by rw [hn]; exact beAt_lt sub hb 0 2
  unfold entryRecordsSize
  simp only [hr]
  have hlen : ((sub.drop 2).take (n * rs)).length = n * rs := by
    simp only [List.length_take, List.length_drop]; omega
  have hw : u8or16Size meiOwn = 1 ∨ u8or16Size meiOwn = 2 := by unfold u8or16Size; split <;> simp
  have hrs6 : 6 ≤ rs := by omega
  have hcl : compLen ((sub.drop 2).take (n * rs)).length rs = n := by
    unfold compLen
    have : rs ≠ 0 := by omega
    simp only [this, ↓reduceIte, hlen]
    exact Nat.mul_div_cancel _ (by omega)
  rw [hcl]
  have hfw : (if meiArg < 256 then 1 else 2) ≤ 2 := by split <;> omega
  obtain ⟨h1, h2⟩ := ersLoop_ok ((sub.drop 2).take (n * rs)) rs (u8or16Size meiOwn) (if meiArg < 256 then 1 else 2) n
    hlen hrs hw hfw (fun b hb' => hb b (List.mem_of_mem_drop (List.mem_of_mem_take hb'))) (by omega)
    (List.range n) 0 (fun i hi => List.mem_range.mp hi) (by
      simp only [List.length_range, MAXU]
      have : n * (65535 * 4) ≤ 65536 * (65535 * 4) := Nat.mul_le_mul_right _ (by omega)
      omega)
  refine ⟨_, h1, ?_, by omega, rfl⟩
  simpa using h2

/-- the size computed from the bytes is the one of the C19 decoder model (Model/PatchMapDecode.lean
`entryRecordsSize`) on any table view whose records carry these counts -/
theorem entryRecordsSize_eq_C19 (t : PatchMap.F1Table) (cs : List Nat) (hc : t.featRecs.map (·.count) = cs) :
    PatchMap.entryRecordsSize t = cs.foldl (fun a c => a + c * (if t.maxEntry < 256 then 1 else 2) * 2) 0 := by
  unfold PatchMap.entryRecordsSize
  rw [← hc, List.foldl_map]


theorem gpRead_some {d : List Nat} {wide : Bool} {h : GpHdr} (hr : gpRead d wide = some h) :
    h.w = (if wide then 3 else 2) ∧ h.idsAt = 5 ∧ h.idsAt + h.gc * h.w ≤ h.offsAt ∧
      h.offsAt + h.nOffs * 4 ≤ d.length := by
  unfold gpRead at hr
  cases h0 : readAt d 0 4 with
  | none => simp [h0] at hr
  | some gc =>
    cases h4 : readAt d 4 1 with
    | none => simp [h0, h4] at hr
    | some tc =>
      simp only [h0, h4] at hr
      cases hm1 : checkedMul gc (if wide then 3 else 2) with
      | none => simp [hm1] at hr
      | some idsLen =>
        cases hm2 : checkedMul tc 4 with
        | none => simp [hm1, hm2] at hr
        | some tabLen =>
          simp only [hm1, hm2] at hr
          cases hm3 : checkedMul (satAdd (satMul gc tc) 1) 4 with
          | none => simp [hm3] at hr
          | some offLen =>
            simp only [hm3, Option.ite_none_right_eq_some, Option.some.injEq] at hr
            obtain ⟨hfit, hr⟩ := hr
            subst hr
            obtain ⟨e1, _⟩ := checkedMul_some hm1
            obtain ⟨e3, _⟩ := checkedMul_some hm3
            simp only
            exact ⟨trivial, trivial, by omega, by omega⟩

/-- the termination measure of `GlyphDataIterator`: glyph ids left, 0 once failed -/
def gdMu (h : GpHdr) (s : GdSt) : Nat := if s.failed then 0 else h.gc - s.k

/-- what a successful item promises: the glyph data lies inside the table -/
def GdItemOk (d : List Nat) (x : Except AErr (Nat × Nat × Nat)) : Prop :=
  ∀ g st ln, x = .ok (g, st, ln) → 0 < st ∧ st + ln ≤ d.length

theorem gdData_facts (d : List Nat) (h : GpHdr) (s s2 : GdSt) (gid st en : Nat)
    (hmu : ∀ f, gdMu h { s2 with failed := f } < gdMu h s) :
    (gdData d s2 gid st en).1 ≠ .trap ∧ gdMu h (gdData d s2 gid st en).2 < gdMu h s ∧
    (∀ a, (gdData d s2 gid st en).1 = .yield a → GdItemOk d a ∧
      ((∃ e, a = .error e) → (gdData d s2 gid st en).2.failed = true)) := by
  have hmu2 : gdMu h s2 < gdMu h s := by
    have := hmu s2.failed
    simpa using this
  unfold gdData
  split
  · refine ⟨by simp, hmu _, fun a ha => ?_⟩
    injection ha with ha; subst ha
    exact ⟨fun g st ln hx => (by cases hx), fun _ => rfl⟩
  · cases hres : resolveOff d st with
    | error e =>
      refine ⟨by simp, hmu _, fun a ha => ?_⟩
      injection ha with ha; subst ha
      exact ⟨fun g st ln hx => (by cases hx), fun _ => rfl⟩
    | ok data =>
      obtain ⟨hst0, hstl, hdata⟩ := resolveOff_ok hres
      simp only []
      split
      · rename_i hfit
        refine ⟨by simp, hmu2, fun a ha => ?_⟩
        injection ha with ha; subst ha
        refine ⟨fun g st' ln hx => ?_, fun hx => ?_⟩
        · injection hx with hx
          injection hx with _ hx
          injection hx with h1 h2
          subst h1; subst h2
          rw [hdata] at hfit
          simp only [List.length_drop] at hfit
          exact ⟨by omega, by omega⟩
        · obtain ⟨e, he⟩ := hx; cases he
      · refine ⟨by simp, hmu _, fun a ha => ?_⟩
        injection ha with ha; subst ha
        exact ⟨fun g st ln hx => (by cases hx), fun _ => rfl⟩

theorem gdStep_facts (d : List Nat) (h : GpHdr) (si : Nat) (s : GdSt) (hl : d.length ≤ MAXU)
    (hoffs : h.offsAt + h.nOffs * 4 ≤ d.length) :
    (gdStep d h si s).1 ≠ .trap ∧
    ((gdStep d h si s).1 ≠ .done → gdMu h (gdStep d h si s).2 < gdMu h s) ∧
    (∀ a, (gdStep d h si s).1 = .yield a → GdItemOk d a ∧
      ((∃ e, a = .error e) → (gdStep d h si s).2.failed = true)) := by
  unfold gdStep
  by_cases hf : s.failed = true
  · simp [hf]
  · simp only [hf, Bool.false_eq_true, ↓reduceIte]
    by_cases hk : s.k ≥ h.gc
    · simp [hk]
    · simp only [hk, ↓reduceIte]
      by_cases hz : si + s.k ≥ h.nOffs ∨ satAdd si 1 + s.k ≥ h.nOffs
      · simp [hz]
      · simp only [hz, ↓reduceIte]
        have hz1 : si + s.k < h.nOffs := by omega
        have hz2 : satAdd si 1 + s.k < h.nOffs := by omega
        rw [readAt_of_le (by omega : h.offsAt + 4 * (si + s.k) + 4 ≤ d.length) hl,
          readAt_of_le (by omega : h.offsAt + 4 * (satAdd si 1 + s.k) + 4 ≤ d.length) hl]
        simp only []
        generalize beAt d (h.offsAt + 4 * (si + s.k)) 4 = st
        generalize beAt d (h.offsAt + 4 * (satAdd si 1 + s.k)) 4 = en
        have hmu : ∀ (p : Option Nat) (f : Bool), gdMu h { k := s.k + 1, prev := p, failed := f } < gdMu h s := by
          intro p f
          unfold gdMu
          simp only [hf]
          cases f <;> simp <;> omega
        cases hgid : readAt d (h.idsAt + h.w * s.k) h.w with
        | none =>
          simp only []
          refine ⟨by simp, fun _ => hmu _ _, fun a ha => ?_⟩
          injection ha with ha; subst ha
          exact ⟨fun g st ln hx => (by cases hx), fun _ => (by first | rfl | trivial)⟩
        | some gid =>
          simp only []
          cases hp : s.prev with
          | none =>
            simp only []
            obtain ⟨a, b, c⟩ := gdData_facts d h s { k := s.k + 1, prev := some gid, failed := false } gid st en
              (fun f => hmu _ f)
            exact ⟨a, fun _ => b, c⟩
          | some p =>
            simp only []
            split
            · refine ⟨by simp, fun _ => hmu _ _, fun a ha => ?_⟩
              injection ha with ha; subst ha
              exact ⟨fun g st ln hx => (by cases hx), fun _ => rfl⟩
            · obtain ⟨a, b, c⟩ := gdData_facts d h s { k := s.k + 1, prev := some gid, failed := false } gid st en
                (fun f => hmu _ f)
              exact ⟨a, fun _ => b, c⟩

/-- `glyph_data_for_table`: at most `glyph_count` items, no trap, every glyph's data inside the table -/
theorem gdTrace_facts (d : List Nat) (wide : Bool) (h : GpHdr) (ti : Nat) (hr : gpRead d wide = some h)
    (hl : d.length ≤ MAXU) :
    ∃ evs, gdTrace d h ti = some evs ∧ evs.length ≤ h.gc ∧ 5 + h.gc * 2 ≤ d.length ∧
      trapped evs = false ∧ ∀ a ∈ items evs, GdItemOk d a := by
  obtain ⟨hw, hids, h1, h2⟩ := gpRead_some hr
  unfold gdTrace
  obtain ⟨evs, he, hlen, ht, hp⟩ := run_inv (gdStep d h (gdStartIndex h ti)) (gdMu h) (fun _ => True) (GdItemOk d)
    (fun s _ => by
      obtain ⟨a, b, c⟩ := gdStep_facts d h (gdStartIndex h ti) s hl h2
      exact ⟨a, fun hnd => ⟨trivial, b hnd⟩, fun x hx => (c x hx).1⟩)
    (h.gc + 2) { k := 0, prev := none, failed := false } trivial (by simp [gdMu])
  refine ⟨evs, he, by simpa [gdMu] using hlen, ?_, ht, hp⟩
  have : h.gc * 2 ≤ h.gc * h.w := Nat.mul_le_mul_left _ (by rw [hw]; split <;> omega)
  omega

/-! ## example tables for the non-vacuity examples of Props/C01HandAat.lean -/

/-- the example table of the Apple `kern` chapter (7 classes, class table for glyphs 3..6):
glyph 5 has class 3; entry (state 2, class 1) is `(2, 0x8114)` -/
def exState : List Nat :=
  [0,7, 0,10, 0,18, 0,40, 0,64,  0,3, 0,4, 1,2,3,4,
   2,0,0,2,1,0,0, 2,0,0,2,1,0,0, 2,3,3,2,3,4,5, 0,
   0,18,0x81,0x12, 0,32,0x81,0x12, 0,18,0,0, 0,32,0x81,0x14, 0,18,0x81,0x16]

/-- format 6 lookup with UNSORTED keys: the search still ends inside the table -/
def exLookup6 : List Nat := [0,6, 0,4, 0,3, 0,0, 0,0, 0,0,  0,9, 0,1,  0,2, 0,7,  0,5, 0,3]

/-- a format 1 patch map: max_entry_index 3, 5 glyphs, glyph map at 41 (first mapped glyph 2, entries
2 0 1), no feature map, bitmap `0b0101`, template "a" -/
def exF1 : List Nat :=
  [1,0,0,0, 0] ++ List.replicate 16 7 ++ [0,3, 0,3, 0,0,5, 0,0,0,41, 0,0,0,0, 5, 0,1,97, 0,  0,2, 2,0,1]

/-- glyph patches: 2 glyphs (ids 5, 9), 1 table, offsets 21, 23, 24; table 0 yields both, table 1 nothing -/
def exGp : List Nat := [0,0,0,2, 1, 0,5, 0,9, 103,108,121,102, 0,0,0,25, 0,0,0,27, 0,0,0,28, 1,2,3]

end FontVerif.HandAat
