/-
Lemmas for C17 drawn-outline preservation (Props/C17Outline.lean), part 1: read-fonts' three views of the flag /
coordinate data of a simple glyph (`resolve_coords_len`, `PointIter`, `read_points_fast`; model: Model/Glyf.lean)
on data that starts with well-formed flag runs covering exactly the point count — which is what a non-zero result
of klippa's `trim_simple_glyph_padding` certifies (`trimGo_spec` / `trim_exact`). Trailing bytes are never read.
-/
import FontVerif.Lemmas.Subset
import FontVerif.Model.Glyf
set_option linter.unusedVariables false
namespace FontVerif.SubsetOutline
open FontVerif FontVerif.Subset

def xSz (f : Nat) : Nat := if f &&& 0x02 != 0 then 1 else if f &&& 0x10 == 0 then 2 else 0
def ySz (f : Nat) : Nat := if f &&& 0x04 != 0 then 1 else if f &&& 0x20 == 0 then 2 else 0

theorem xlen_eq (f r : Nat) :
    (if Glyf.hasBit f Glyf.X_SHORT then r else 0) + (if (f &&& (Glyf.X_SHORT ||| Glyf.X_SAME)) = 0 then r * 2 else 0)
      = xSz f * r := by
  have h : f &&& (2 ||| 16) = (f &&& 2) ||| (f &&& 16) := Nat.and_or_distrib_left ..
  simp only [Glyf.hasBit, Glyf.X_SHORT, Glyf.X_SAME, xSz, h, Nat.or_eq_zero_iff, bne_iff_ne, ne_eq, beq_iff_eq]
  by_cases h2 : f &&& 2 = 0 <;> by_cases h16 : f &&& 16 = 0 <;> simp [h2, h16] <;> omega

theorem ylen_eq (f r : Nat) :
    (if Glyf.hasBit f Glyf.Y_SHORT then r else 0) + (if (f &&& (Glyf.Y_SHORT ||| Glyf.Y_SAME)) = 0 then r * 2 else 0)
      = ySz f * r := by
  have h : f &&& (4 ||| 32) = (f &&& 4) ||| (f &&& 32) := Nat.and_or_distrib_left ..
  simp only [Glyf.hasBit, Glyf.Y_SHORT, Glyf.Y_SAME, ySz, h, Nat.or_eq_zero_iff, bne_iff_ne, ne_eq, beq_iff_eq]
  by_cases h2 : f &&& 4 = 0 <;> by_cases h16 : f &&& 32 = 0 <;> simp [h2, h16] <;> omega

def counts (runs : List (Nat × Nat)) : Nat := (runs.map (·.2)).sum
def xTot (runs : List (Nat × Nat)) : Nat := (runs.map (fun r => xSz r.1 * r.2)).sum
def yTot (runs : List (Nat × Nat)) : Nat := (runs.map (fun r => ySz r.1 * r.2)).sum

theorem encRuns_cons (r : Nat × Nat) (rs : List (Nat × Nat)) : encRuns (r :: rs) = encRun r ++ encRuns rs := by
  simp [encRuns]

theorem resolve_zero (d : Bytes) (pos xl yl : Nat) : Glyf.resolveCoordsLen d pos 0 xl yl = some (pos, xl, yl) := by
  cases d <;> simp [Glyf.resolveCoordsLen]

/-- `resolve_coords_len` on data that starts with well-formed flag runs covering exactly the point count -/
theorem resolve_runs : ∀ (runs : List (Nat × Nat)) (more : Bytes) (pos xl yl : Nat), (∀ r ∈ runs, runOk r) →
    Glyf.resolveCoordsLen (encRuns runs ++ more) pos (counts runs) xl yl =
      some (pos + (encRuns runs).length, xl + xTot runs, yl + yTot runs)
  | [], more, pos, xl, yl, _ => by simp [encRuns, counts, xTot, yTot, resolve_zero]
  | (f, n) :: rs, more, pos, xl, yl, hok => by
    have hr : runOk (f, n) := hok _ (List.mem_cons_self ..)
    have hrs : ∀ r ∈ rs, runOk r := fun r hr => hok r (List.mem_cons_of_mem _ hr)
    have ih := resolve_runs rs more
    rw [encRuns_cons]
    unfold runOk at hr
    simp only at hr
    by_cases hb : (f &&& 0x08 != 0) = true
    · simp only [hb, if_true] at hr
      have hcnt : counts ((f, n) :: rs) = n + counts rs := by simp [counts]
      have e : encRun (f, n) = [f, n - 1] := by simp [encRun, hb]
      rw [e, hcnt]
      simp only [List.cons_append, List.nil_append]
      unfold Glyf.resolveCoordsLen
      have hne : ¬ (n + counts rs = 0) := by omega
      have hrep : Glyf.hasBit f Glyf.REPEAT = true := by simpa [Glyf.hasBit, Glyf.REPEAT] using hb
      simp only [hne, if_false, hrep, if_true]
      have hn1 : n - 1 + 1 = n := by omega
      rw [hn1]
      have hgt : ¬ (n > n + counts rs) := by omega
      simp only [hgt, if_false]
      have hsub : n + counts rs - n = counts rs := by omega
      rw [hsub, Nat.add_assoc xl, xlen_eq, Nat.add_assoc yl, ylen_eq, ih _ _ _ hrs]
      simp [xTot, yTot]
      omega
    · simp only [hb, if_false] at hr
      subst hr
      have hcnt : counts ((f, 1) :: rs) = 1 + counts rs := by simp [counts]
      have e : encRun (f, 1) = [f] := by simp [encRun, hb]
      rw [e, hcnt]
      simp only [List.cons_append, List.nil_append]
      unfold Glyf.resolveCoordsLen
      have hne : ¬ (1 + counts rs = 0) := by omega
      have hrep : Glyf.hasBit f Glyf.REPEAT = false := by simpa [Glyf.hasBit, Glyf.REPEAT] using hb
      simp only [hne, if_false, hrep]
      have hsub : 1 + counts rs - 1 = counts rs := by omega
      rw [hsub, Nat.add_assoc xl, xlen_eq, Nat.add_assoc yl, ylen_eq]
      simp only [Bool.false_eq_true, if_false]
      rw [ih _ _ _ hrs]
      simp [xTot, yTot]
      omega

/-! ### the point iterator on run-structured flags -/

def expand (runs : List (Nat × Nat)) : List Nat := runs.flatMap (fun r => List.replicate r.2 r.1)

/-- the points a per-point flag list decodes to, reading deltas sequentially from `xs` / `ys` -/
def pointsOf : List Nat → List Nat → List Nat → Int → Int → List Glyf.Point
  | [], _, _, _, _ => []
  | f :: fs, xs, ys, cx, cy =>
    let dx := Glyf.readDelta (Glyf.hasBit f Glyf.X_SHORT) (Glyf.hasBit f Glyf.X_SAME) xs
    let dy := Glyf.readDelta (Glyf.hasBit f Glyf.Y_SHORT) (Glyf.hasBit f Glyf.Y_SAME) ys
    ⟨wrapI16 (cx + dx.1), wrapI16 (cy + dy.1), Glyf.hasBit f Glyf.ON_CURVE⟩ ::
      pointsOf fs dx.2 dy.2 (wrapI16 (cx + dx.1)) (wrapI16 (cy + dy.1))

theorem expand_cons (f n : Nat) (rs : List (Nat × Nat)) : expand ((f, n) :: rs) = List.replicate n f ++ expand rs := by
  simp [expand]

theorem collect_runs : ∀ (fuel c : Nat) (runs : List (Nat × Nat)) (f : Nat) (xs ys : List Nat) (cx cy : Int),
    (∀ r ∈ runs, runOk r) → c + counts runs ≤ fuel →
    Glyf.PointIter.collect fuel { flags := encRuns runs, xCoords := xs, yCoords := ys, flagRepeats := c,
                                  curFlags := f, curX := cx, curY := cy } =
      pointsOf (List.replicate c f ++ expand runs) xs ys cx cy := by
  intro fuel
  induction fuel with
  | zero =>
    intro c runs f xs ys cx cy hok hle
    have hc : c = 0 := by omega
    have hz : counts runs = 0 := by omega
    subst hc
    cases runs with
    | nil => simp [Glyf.PointIter.collect, expand, pointsOf]
    | cons r rs =>
      have := hok r (List.mem_cons_self ..)
      unfold runOk at this
      simp [counts] at hz
      split at this <;> omega
  | succ n ih =>
    intro c runs f xs ys cx cy hok hle
    unfold Glyf.PointIter.collect Glyf.PointIter.next Glyf.PointIter.advanceFlags
    by_cases hc : c = 0
    · subst hc
      simp only [if_true]
      cases runs with
      | nil => simp [encRuns, expand, pointsOf]
      | cons r rs =>
        obtain ⟨g, m⟩ := r
        have hr : runOk (g, m) := hok _ (List.mem_cons_self ..)
        have hrs : ∀ r ∈ rs, runOk r := fun r hr => hok r (List.mem_cons_of_mem _ hr)
        have hcnt : counts ((g, m) :: rs) = m + counts rs := by simp [counts]
        rw [encRuns_cons, expand_cons]
        unfold runOk at hr
        simp only at hr
        by_cases hb : (g &&& 0x08 != 0) = true
        · simp only [hb, if_true] at hr
          have e : encRun (g, m) = [g, m - 1] := by simp [encRun, hb]
          have hrep : Glyf.hasBit g Glyf.REPEAT = true := by simpa [Glyf.hasBit, Glyf.REPEAT] using hb
          rw [e]
          simp only [List.cons_append, List.nil_append, hrep, if_true, Glyf.PointIter.advancePoints]
          have hm : m - 1 + 1 - 1 = m - 1 := by omega
          rw [hm, ih (m - 1) rs g _ _ _ _ hrs (by omega)]
          have hrepl : List.replicate m g = g :: List.replicate (m - 1) g := by
            cases m with
            | zero => omega
            | succ k => simp [List.replicate_succ]
          rw [hrepl]
          simp [pointsOf]
        · simp only [hb] at hr
          subst hr
          have e : encRun (g, 1) = [g] := by simp [encRun, hb]
          have hrep : Glyf.hasBit g Glyf.REPEAT = false := by simpa [Glyf.hasBit, Glyf.REPEAT] using hb
          rw [e]
          simp only [List.cons_append, List.nil_append, hrep, Bool.false_eq_true, if_false, Glyf.PointIter.advancePoints]
          have := ih 0 rs g
          simp only [List.replicate_zero, List.nil_append] at this
          rw [this _ _ _ _ hrs (by omega)]
          simp [pointsOf]
    · simp only [hc, if_false, Glyf.PointIter.advancePoints]
      rw [ih (c - 1) runs f _ _ _ _ hok (by omega)]
      have hrepl : List.replicate c f = f :: List.replicate (c - 1) f := by
        cases c with
        | zero => omega
        | succ k => simp [List.replicate_succ]
      rw [hrepl]
      simp [pointsOf]

/-! ### trailing bytes are never read -/

/-- bytes one delta read consumes -/
def need (short same : Bool) : Nat := if short then 1 else if same then 0 else 2

theorem ySz_need (f : Nat) : ySz f = need (Glyf.hasBit f Glyf.Y_SHORT) (Glyf.hasBit f Glyf.Y_SAME) := by
  simp only [ySz, need, Glyf.hasBit, Glyf.Y_SHORT, Glyf.Y_SAME]
  by_cases h2 : f &&& 4 = 0 <;> by_cases h16 : f &&& 32 = 0 <;> simp [h2, h16]

theorem xSz_need (f : Nat) : xSz f = need (Glyf.hasBit f Glyf.X_SHORT) (Glyf.hasBit f Glyf.X_SAME) := by
  simp only [xSz, need, Glyf.hasBit, Glyf.X_SHORT, Glyf.X_SAME]
  by_cases h2 : f &&& 2 = 0 <;> by_cases h16 : f &&& 16 = 0 <;> simp [h2, h16]

theorem readI16_append (a b : Nat) (r extra : List Nat) : Glyf.readI16 ((a :: b :: r) ++ extra) =
      ((Glyf.readI16 (a :: b :: r)).1, (Glyf.readI16 (a :: b :: r)).2 ++ extra) := by
  simp only [List.cons_append, Glyf.readI16]

theorem readI16_len (a b : Nat) (r : List Nat) : (Glyf.readI16 (a :: b :: r)).2 = r := by
  simp only [Glyf.readI16]

theorem readDelta_append (short same : Bool) (ys extra : List Nat) (h : need short same ≤ ys.length) :
    Glyf.readDelta short same (ys ++ extra) =
      ((Glyf.readDelta short same ys).1, (Glyf.readDelta short same ys).2 ++ extra) ∧
    (Glyf.readDelta short same ys).2.length = ys.length - need short same := by
  cases short <;> cases same <;> simp only [need, Bool.false_eq_true, if_false, if_true] at h ⊢
  · -- i16
    cases ys with
    | nil => simp at h
    | cons a r =>
      cases r with
      | nil => simp at h
      | cons b r =>
        unfold Glyf.readDelta
        simp only [readI16_append, readI16_len]
        simp
  · simp [Glyf.readDelta]
  · cases ys with
    | nil => simp at h
    | cons a r => simp [Glyf.readDelta, Glyf.readU8]
  · cases ys with
    | nil => simp at h
    | cons a r => simp [Glyf.readDelta, Glyf.readU8]

theorem pointsOf_ys_extend : ∀ (fs xs ys extra : List Nat) (cx cy : Int),
    (fs.map ySz).sum ≤ ys.length → pointsOf fs xs (ys ++ extra) cx cy = pointsOf fs xs ys cx cy
  | [], _, _, _, _, _, _ => by simp [pointsOf]
  | f :: fs, xs, ys, extra, cx, cy, h => by
    simp only [List.map_cons, List.sum_cons] at h
    have hn : need (Glyf.hasBit f Glyf.Y_SHORT) (Glyf.hasBit f Glyf.Y_SAME) ≤ ys.length := by
      rw [← ySz_need]; omega
    obtain ⟨e1, e2⟩ := readDelta_append _ _ ys extra hn
    simp only [pointsOf]
    rw [e1]
    simp only
    rw [pointsOf_ys_extend fs _ _ extra _ _ (by rw [e2, ← ySz_need]; omega)]

/-- only the six low flag bits are looked at -/
theorem hasBit_mask (f m : Nat) (hm : 0x3F &&& m = m) : Glyf.hasBit (f &&& 0x3F) m = Glyf.hasBit f m := by
  simp only [Glyf.hasBit, Nat.and_assoc, hm]

theorem pointsOf_congr : ∀ (fs gs xs ys : List Nat) (cx cy : Int),
    fs.map (· &&& 0x3F) = gs.map (· &&& 0x3F) → pointsOf fs xs ys cx cy = pointsOf gs xs ys cx cy
  | [], [], _, _, _, _, _ => rfl
  | [], _ :: _, _, _, _, _, h => by simp at h
  | _ :: _, [], _, _, _, _, h => by simp at h
  | f :: fs, g :: gs, xs, ys, cx, cy, h => by
    simp only [List.map_cons, List.cons.injEq] at h
    have hb : ∀ m, 0x3F &&& m = m → Glyf.hasBit f m = Glyf.hasBit g m := by
      intro m hm
      rw [← hasBit_mask f m hm, ← hasBit_mask g m hm, h.1]
    simp only [pointsOf]
    rw [hb Glyf.X_SHORT rfl, hb Glyf.X_SAME rfl, hb Glyf.Y_SHORT rfl, hb Glyf.Y_SAME rfl, hb Glyf.ON_CURVE rfl,
      pointsOf_congr fs gs _ _ _ _ h.2]

/-! ### read_points_fast on run-structured flags -/

theorem counts_pos_of_ne_nil : ∀ (runs : List (Nat × Nat)), (∀ r ∈ runs, runOk r) → runs ≠ [] → 0 < counts runs
  | [], _, h => absurd rfl h
  | (f, n) :: rs, hok, _ => by
    have hr : runOk (f, n) := hok _ (List.mem_cons_self ..)
    unfold runOk at hr
    simp only [counts, List.map_cons, List.sum_cons]
    split at hr <;> omega

theorem fastFlags_runs : ∀ (runs : List (Nat × Nat)) (more : Bytes), (∀ r ∈ runs, runOk r) → runs ≠ [] →
    Glyf.fastFlags (encRuns runs ++ more) (counts runs) = some (expand runs, (encRuns runs).length)
  | [], _, _, h => absurd rfl h
  | (f, n) :: rs, more, hok, _ => by
    have hr : runOk (f, n) := hok _ (List.mem_cons_self ..)
    have hrs : ∀ r ∈ rs, runOk r := fun r hr => hok r (List.mem_cons_of_mem _ hr)
    have hcnt : counts ((f, n) :: rs) = n + counts rs := by simp [counts]
    rw [encRuns_cons, expand_cons, hcnt]
    unfold runOk at hr
    simp only at hr
    by_cases hb : (f &&& 0x08 != 0) = true
    · simp only [hb, if_true] at hr
      have e : encRun (f, n) = [f, n - 1] := by simp [encRun, hb]
      have hrep : Glyf.hasBit f Glyf.REPEAT = true := by simpa [Glyf.hasBit, Glyf.REPEAT] using hb
      rw [e]
      simp only [List.cons_append, List.nil_append]
      unfold Glyf.fastFlags
      simp only [hrep, if_true]
      have hmin : min (n - 1 + 1) (n + counts rs) = n := by omega
      rw [hmin]
      have hsub : n + counts rs - n = counts rs := by omega
      rw [hsub]
      by_cases hz : counts rs = 0
      · have : rs = [] := by
          cases rs with
          | nil => rfl
          | cons r rs' =>
            have := counts_pos_of_ne_nil (r :: rs') hrs (by simp)
            omega
        subst this
        simp [hz, expand, encRuns]
      · have hne : rs ≠ [] := by
          intro h; subst h; simp [counts] at hz
        simp only [hz, if_false]
        rw [fastFlags_runs rs more hrs hne]
        simp
    · simp only [hb] at hr
      subst hr
      have e : encRun (f, 1) = [f] := by simp [encRun, hb]
      have hrep : Glyf.hasBit f Glyf.REPEAT = false := by simpa [Glyf.hasBit, Glyf.REPEAT] using hb
      rw [e]
      simp only [List.cons_append, List.nil_append]
      unfold Glyf.fastFlags
      simp only [hrep, Bool.false_eq_true, if_false]
      have hsub : 1 + counts rs - 1 = counts rs := by omega
      rw [hsub]
      by_cases hz : counts rs = 0
      · have : rs = [] := by
          cases rs with
          | nil => rfl
          | cons r rs' =>
            have := counts_pos_of_ne_nil (r :: rs') hrs (by simp)
            omega
        subst this
        simp [hz, expand, encRuns]
      · have hne : rs ≠ [] := by
          intro h; subst h; simp [counts] at hz
        simp only [hz, if_false]
        rw [fastFlags_runs rs more hrs hne]
        simp

/-- bytes one coordinate pass of `read_points_fast` consumes -/
def fastNeed (short same : Nat) (fs : List Nat) : Nat :=
  (fs.map (fun f => need (Glyf.hasBit f short) (Glyf.hasBit f same))).sum

theorem fastDelta_enough (short same : Bool) (cur extra : List Nat) (h : need short same ≤ cur.length) :
    ∃ v, Glyf.fastDelta short same cur = some (v, cur.drop (need short same)) ∧
         Glyf.fastDelta short same (cur ++ extra) = some (v, cur.drop (need short same) ++ extra) := by
  cases short <;> cases same <;> simp only [need, Bool.false_eq_true, if_false, if_true] at h ⊢
  · cases cur with
    | nil => simp at h
    | cons a r =>
      cases r with
      | nil => simp at h
      | cons b r => exact ⟨wrapI16 ((a * 256 + b : Nat) : Int), by simp [Glyf.fastDelta], by simp [Glyf.fastDelta]⟩
  · exact ⟨0, by simp [Glyf.fastDelta], by simp [Glyf.fastDelta]⟩
  · cases cur with
    | nil => simp at h
    | cons a r => exact ⟨-(a : Int), by simp [Glyf.fastDelta], by simp [Glyf.fastDelta]⟩
  · cases cur with
    | nil => simp at h
    | cons a r => exact ⟨(a : Int), by simp [Glyf.fastDelta], by simp [Glyf.fastDelta]⟩

theorem fastCoords_enough (short same : Nat) : ∀ (fs cur extra : List Nat) (acc : Int),
    fastNeed short same fs ≤ cur.length →
    ∃ l, Glyf.fastCoords short same fs cur acc = some (l, cur.drop (fastNeed short same fs)) ∧
         Glyf.fastCoords short same fs (cur ++ extra) acc = some (l, cur.drop (fastNeed short same fs) ++ extra)
  | [], cur, extra, acc, _ => ⟨[], by simp [Glyf.fastCoords, fastNeed], by simp [Glyf.fastCoords, fastNeed]⟩
  | f :: fs, cur, extra, acc, h => by
    simp only [fastNeed, List.map_cons, List.sum_cons] at h
    obtain ⟨v, h1, h2⟩ := fastDelta_enough (Glyf.hasBit f short) (Glyf.hasBit f same) cur extra (by omega)
    obtain ⟨l, h3, h4⟩ := fastCoords_enough short same fs (cur.drop (need (Glyf.hasBit f short) (Glyf.hasBit f same))) extra
      (wrapI32 (acc + v)) (by simp only [fastNeed, List.length_drop]; omega)
    refine ⟨wrapI32 (acc + v) :: l, ?_, ?_⟩
    · unfold Glyf.fastCoords
      simp only [h1, h3, Option.map_some, fastNeed, List.map_cons, List.sum_cons, List.drop_drop]
    · unfold Glyf.fastCoords
      simp only [h2, h4, Option.map_some, fastNeed, List.map_cons, List.sum_cons, List.drop_drop]

theorem fastCoords_congr (short same : Nat) (hs : 0x3F &&& short = short) (hm : 0x3F &&& same = same) :
    ∀ (fs gs cur : List Nat) (acc : Int), fs.map (· &&& 0x3F) = gs.map (· &&& 0x3F) →
      Glyf.fastCoords short same fs cur acc = Glyf.fastCoords short same gs cur acc
  | [], [], _, _, _ => rfl
  | [], _ :: _, _, _, h => by simp at h
  | _ :: _, [], _, _, h => by simp at h
  | f :: fs, g :: gs, cur, acc, h => by
    simp only [List.map_cons, List.cons.injEq] at h
    have e1 : Glyf.hasBit f short = Glyf.hasBit g short := by
      rw [← hasBit_mask f short hs, ← hasBit_mask g short hs, h.1]
    have e2 : Glyf.hasBit f same = Glyf.hasBit g same := by
      rw [← hasBit_mask f same hm, ← hasBit_mask g same hm, h.1]
    unfold Glyf.fastCoords
    rw [e1, e2]
    split
    · rfl
    · simp only
      rw [fastCoords_congr short same hs hm fs gs _ _ h.2]

end FontVerif.SubsetOutline
