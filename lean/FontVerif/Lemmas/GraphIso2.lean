/-
Helper lemmas for C05 (Model/Graph.lean): the simulation invariant of Lemmas/GraphIso.lean through
the sorts, `assign_spaces_hb`, `try_isolating_subgraphs`.
-/
import FontVerif.Model.Graph
import FontVerif.Lemmas.GraphIso
import FontVerif.Lemmas.GraphPack
set_option linter.unusedVariables false
set_option linter.unusedSimpArgs false
namespace FontVerif.Graph
open FontVerif

/-- the invariant of `pack_objects`: the current graph simulates the input graph `g0` with the
root mapped to the root, and the ids still to be handed out are distinct and unused -/
def PInv (g0 g : Graph) (fr : List Nat) : Prop :=
  ∃ φ, SInv g0 φ ⟨g, [], fr⟩ [] ∧ φ g.root = g0.root ∧ g.root ∉ fr

theorem pinv_of_same (g0 g g' : Graph) (fr : List Nat) (hobj : g'.objects = g.objects) (hroot : g'.root = g.root)
    (hun : ∀ n, Unused g n → Unused g' n) (h : PInv g0 g fr) : PInv g0 g' fr := by
  obtain ⟨φ, hinv, h1, h2⟩ := h
  refine ⟨φ, ⟨simulates_congr g g' g0 φ hobj hinv.sim, hinv.nodup, fun n hn => hun n (hinv.unused n hn), hinv.dupes⟩, ?_, ?_⟩
  · rw [hroot]; exact h1
  · rw [hroot]; exact h2

theorem pinv_suffix (g0 g : Graph) (fr fr' : List Nat) (hs : fr' <:+ fr) (h : PInv g0 g fr) : PInv g0 g fr' := by
  obtain ⟨φ, hinv, h1, h2⟩ := h
  refine ⟨φ, ⟨hinv.sim, ?_, ?_, ?_⟩, h1, fun hm => h2 (hs.subset hm)⟩
  · have := hinv.nodup
    simp only [List.nil_append] at this ⊢
    exact this.sublist hs.sublist
  · intro n hn
    exact hinv.unused n (by simp only [List.nil_append] at hn ⊢; exact hs.subset hn)
  · intro k v hkv; simp [Map.find?] at hkv

theorem pinv_isolate (g0 g : Graph) (roots : Set) (fr : List Nat) (b : Bool) (g' : Graph) (roots' : Set) (fr' : List Nat)
    (h : PInv g0 g fr) (hr : ∀ r ∈ roots, r ∉ fr)
    (hi : isolateSubgraph g roots fr = some (b, g', roots', fr')) : PInv g0 g' fr' ∧ fr' <:+ fr := by
  obtain ⟨φ, hinv, h1, h2⟩ := h
  obtain ⟨φ', hinv', hsuf, hag, hroot⟩ := isolate_spec g0 φ g roots fr b g' roots' fr' hinv hr hi
  refine ⟨⟨φ', hinv', ?_, ?_⟩, hsuf⟩
  · rw [hroot, hag _ h2]; exact h1
  · rw [hroot]; exact fun hm => h2 (hsuf.subset hm)

/-! ### the sorts keep the cached parents of `update_parents` -/

theorem kahnLoop_parents (g : Graph) (fuel : Nat) (st st' : SortSt) (h : kahnLoop g fuel st = some st') (x : Nat) :
    parentsOf st'.nodes x = parentsOf st.nodes x := by
  induction fuel generalizing st with
  | zero => simp [kahnLoop] at h
  | succ n ih =>
    unfold kahnLoop at h
    split at h
    · simp only [Option.some.injEq] at h; subst h; rfl
    · rename_i id rest hq
      simp only [] at h
      generalize hfold : (g.obj id).links.foldl (kahnVisitLink g) (rest, st.removed) = res at h
      obtain ⟨q, r⟩ := res
      simp only [] at h
      rw [ih _ h]
      exact parentsOf_modify st.nodes id (fun n => { n with position := st.pos }) (fun n => rfl) x

theorem shortLoop_parents (g : Graph) (fuel : Nat) (st st' : ShortSt) (h : shortLoop g fuel st = some st') (x : Nat) :
    parentsOf st'.nodes x = parentsOf st.nodes x := by
  induction fuel generalizing st with
  | zero => simp [shortLoop] at h
  | succ n ih =>
    unfold shortLoop at h
    split at h
    · simp only [Option.some.injEq] at h; subst h; rfl
    · rename_i e rest hq
      simp only [] at h
      generalize hfold : (g.obj e.id).links.foldl (shortVisitLink g) (rest, st.removed, st.objOrder) = res at h
      obtain ⟨q, r, oo⟩ := res
      simp only [] at h
      rw [ih _ h]
      exact parentsOf_modify st.nodes e.id (fun n => { n with position := st.pos }) (fun n => rfl) x

theorem unused_of_parents (g g' : Graph) (hobj : g'.objects = g.objects)
    (hpar : ∀ x, parentsOf g'.nodes x = parentsOf g.nodes x) (n : Nat) (h : Unused g n) : Unused g' n := by
  refine ⟨by rw [hobj]; exact h.1, ?_, ?_⟩
  · intro x; rw [obj_congr g g' hobj]; exact h.2.1 x
  · intro x p hp
    rw [node_parents_eq, hpar x] at hp
    exact h.2.2 x p hp

theorem sortKahn_unused (g g' : Graph) (h : sortKahn g = some g') (n : Nat) (hu : Unused g n) : Unused g' n := by
  unfold sortKahn at h
  split at h
  · simp only [Option.some.injEq] at h; subst h
    exact unused_congr g _ rfl rfl n hu
  · simp only [] at h
    split at h
    · simp at h
    · rename_i st hloop
      split at h
      · simp only [Option.some.injEq] at h; subst h
        refine unused_of_parents (updateParents g) _ ?_ ?_ n (updateParents_unused g n hu)
        · rfl
        · intro x; exact kahnLoop_parents _ _ _ _ hloop x
      · simp at h

theorem sortKahn_objects (g g' : Graph) (h : sortKahn g = some g') : g'.objects = g.objects ∧ g'.root = g.root := by
  unfold sortKahn at h
  split at h
  · simp only [Option.some.injEq] at h; subst h; exact ⟨rfl, rfl⟩
  · simp only [] at h
    split at h
    · simp at h
    · split at h
      · simp only [Option.some.injEq] at h; subst h
        exact ⟨updateParents_objects g, updateParents_root g⟩
      · simp at h

theorem updateDistances_parents (g g' : Graph) (h : updateDistances g = some g') (x : Nat) :
    parentsOf g'.nodes x = parentsOf g.nodes x := by
  unfold updateDistances at h
  simp only [] at h
  split at h
  · simp at h
  · rename_i nodes' hl
    simp only [Option.some.injEq] at h; subst h
    simp only []
    rw [updDistLoop_parents g _ _ _ _ _ hl]
    refine Eq.trans (parentsOf_modify _ _ _ ?_ x) ?_
    · intro n; rfl
    · refine parentsOf_mapVal g.nodes (fun n => { n with distance := U32_MAX }) ?_ x
      intro n; rfl

theorem assignSpace0_parents (g g' : Graph) (h : assignSpace0 g = some g') (x : Nat) :
    parentsOf g'.nodes x = parentsOf g.nodes x := by
  unfold assignSpace0 at h
  split at h
  · simp at h
  · rename_i nodes' hl
    simp only [Option.some.injEq] at h; subst h
    exact space0Loop_parents g _ _ _ _ hl x

theorem sortShortest_unused (g g' : Graph) (h : sortShortest g = some g') (n : Nat) (hu : Unused g n) : Unused g' n := by
  unfold sortShortest at h
  simp only [Option.bind_eq_bind, Option.bind_eq_some_iff] at h
  obtain ⟨g2, hd, g3, hs, st, hloop, h⟩ := h
  split at h
  · simp only [Option.some.injEq] at h; subst h
    have ho2 := updateDistances_objects _ _ hd
    have ho3 := assignSpace0_objects _ _ hs
    have u1 := updateParents_unused g n hu
    have u2 := unused_of_parents _ g2 ho2.1 (updateDistances_parents _ _ hd) n u1
    have u3 := unused_of_parents _ g3 ho3.1 (assignSpace0_parents _ _ hs) n u2
    refine unused_of_parents g3 _ ?_ ?_ n u3
    · rfl
    · intro x; exact shortLoop_parents _ _ _ _ hloop x
  · simp at h

theorem pinv_sortKahn (g0 g g' : Graph) (fr : List Nat) (h : sortKahn g = some g') (hp : PInv g0 g fr) : PInv g0 g' fr :=
  pinv_of_same g0 g g' fr (sortKahn_objects g g' h).1 (sortKahn_objects g g' h).2 (sortKahn_unused g g' h) hp

theorem pinv_sortShortest (g0 g g' : Graph) (fr : List Nat) (h : sortShortest g = some g') (hp : PInv g0 g fr) :
    PInv g0 g' fr :=
  pinv_of_same g0 g g' fr (sortShortest_spec g g' h).1 (sortShortest_spec g g' h).2.1 (sortShortest_unused g g' h) hp

theorem pinv_basicSort (g0 g g' : Graph) (fr : List Nat) (ok : Bool) (h : basicSort g = some (ok, g'))
    (hp : PInv g0 g fr) : PInv g0 g' fr := by
  unfold basicSort at h
  simp only [Option.bind_eq_bind, Option.bind_eq_some_iff] at h
  obtain ⟨g1, hk, ov, hov, h⟩ := h
  have h1 := pinv_sortKahn g0 g g1 fr hk hp
  cases ov with
  | false =>
    bsimp at h
    obtain ⟨_, rfl⟩ := h
    exact h1
  | true =>
    bsimp at h
    obtain ⟨g2, hs, ov2, hov2, _, h2⟩ := h
    subst h2
    exact pinv_sortShortest g0 g1 g2 fr hs h1

/-! ### sets -/

theorem Set.mem_insert (s : Set) (x y : Nat) (h : y ∈ Set.insert s x) : y = x ∨ y ∈ s := by
  induction s with
  | nil => simp [Set.insert] at h; left; exact h
  | cons z rest ih =>
    simp only [Set.insert] at h
    split at h
    · rcases List.mem_cons.mp h with h | h
      · left; exact h
      · right; exact h
    · split at h
      · right; exact h
      · rcases List.mem_cons.mp h with h | h
        · right; rw [h]; exact List.mem_cons_self
        · rcases ih h with h | h
          · left; exact h
          · right; exact List.mem_cons_of_mem _ h

theorem Set.mem_erase (s : Set) (x y : Nat) (h : y ∈ Set.erase s x) : y ∈ s := by
  unfold Set.erase at h
  exact (List.mem_filter.mp h).1

/-! ### find_space_roots_hb / find_connected_nodes_hb only return link targets / given targets -/

theorem spaceRootsLoop_roots (g : Graph) (P : Nat → Prop) (hP : ∀ x, ∀ l ∈ (g.obj x).links, P l.target)
    (fuel : Nat) (queue : List Nat) (visited roots : Set) (v' r' : Set) (hr : ∀ x ∈ roots, P x)
    (h : spaceRootsLoop g fuel queue visited roots = some (v', r')) : ∀ x ∈ r', P x := by
  induction fuel generalizing queue visited roots with
  | zero => simp [spaceRootsLoop] at h
  | succ n ih =>
    unfold spaceRootsLoop at h
    split at h
    · simp only [Option.some.injEq, Prod.mk.injEq] at h
      obtain ⟨_, rfl⟩ := h
      exact hr
    · rename_i id rest
      split at h
      · exact ih _ _ _ hr h
      · simp only [] at h
        have key : ∀ (links : List Link) (acc : List Nat × Set × Set), (∀ l ∈ links, P l.target) →
            (∀ x ∈ acc.2.2, P x) →
            ∀ x ∈ (links.foldl (fun (acc : List Nat × Set × Set) l =>
              if l.width = 4 then (acc.1, findSubgraph g (depthFuel g) l.target acc.2.1, acc.2.2.insert l.target)
              else (acc.1 ++ [l.target], acc.2.1, acc.2.2)) acc).2.2, P x := by
          intro links
          induction links with
          | nil => intro acc _ ha; exact ha
          | cons l rest' ihl =>
            intro acc hl ha
            simp only [List.foldl_cons]
            apply ihl _ (fun l' hl' => hl l' (List.mem_cons_of_mem _ hl'))
            split
            · intro x hx
              rcases Set.mem_insert _ _ _ hx with h1 | h1
              · rw [h1]; exact hl l List.mem_cons_self
              · exact ha x h1
            · exact ha
        have hk := key (g.linksOf id) (rest, visited, roots) (hP id) hr
        generalize hfold : (g.linksOf id).foldl _ (rest, visited, roots) = res at h hk
        obtain ⟨q, v, r⟩ := res
        exact ih _ _ _ hk h

theorem findConnected_sub (g : Graph) (P : Nat → Prop) (fuel id : Nat) (st : Set × Set × Set)
    (ht : ∀ x ∈ st.1, P x) (hc : ∀ x ∈ st.2.2, P x) :
    (∀ x ∈ (findConnected g fuel id st).1, P x) ∧ (∀ x ∈ (findConnected g fuel id st).2.2, P x) := by
  induction fuel generalizing id st with
  | zero => exact ⟨ht, hc⟩
  | succ n ih =>
    obtain ⟨targets, visited, connected⟩ := st
    unfold findConnected
    split
    · exact ⟨ht, hc⟩
    · simp only []
      have foldP : ∀ {β : Type} (xs : List β) (f : β → Nat) (st : Set × Set × Set),
          (∀ x ∈ st.1, P x) → (∀ x ∈ st.2.2, P x) →
          (∀ x ∈ (xs.foldl (fun st p => findConnected g n (f p) st) st).1, P x) ∧
          (∀ x ∈ (xs.foldl (fun st p => findConnected g n (f p) st) st).2.2, P x) := by
        intro β xs f
        induction xs with
        | nil => intro st h1 h2; exact ⟨h1, h2⟩
        | cons y ys ihx =>
          intro st h1 h2
          simp only [List.foldl_cons]
          obtain ⟨a, b⟩ := ih (f y) st h1 h2
          exact ihx _ a b
      have h0 : (∀ x ∈ (if targets.contains id then (targets.erase id, connected.insert id) else (targets, connected)).1, P x) ∧
          (∀ x ∈ (if targets.contains id then (targets.erase id, connected.insert id) else (targets, connected)).2, P x) := by
        split
        · rename_i hcont
          refine ⟨fun x hx => ht x (Set.mem_erase _ _ _ hx), ?_⟩
          intro x hx
          rcases Set.mem_insert _ _ _ hx with h1 | h1
          · rw [h1]
            apply ht
            simpa [Set.contains] using hcont
          · exact hc x h1
        · exact ⟨ht, hc⟩
      generalize (if targets.contains id then (targets.erase id, connected.insert id) else (targets, connected) : Set × Set) = tc at h0 ⊢
      obtain ⟨a1, b1⟩ := foldP (g.node id).parents (fun p => p.1) (tc.1, visited.insert id, tc.2) h0.1 h0.2
      exact foldP (g.linksOf id) (fun l => l.target) _ a1 b1

/-! ### assign_spaces_hb -/

theorem pinv_assignSpacesLoop (g0 : Graph) (fuel : Nat) (g : Graph) (roots visited : Set) (fr : List Nat)
    (g' : Graph) (fr' : List Nat) (hp : PInv g0 g fr) (hr : ∀ r ∈ roots, r ∉ fr)
    (h : assignSpacesLoop fuel g roots visited fr = some (g', fr')) : PInv g0 g' fr' ∧ fr' <:+ fr := by
  induction fuel generalizing g roots visited fr with
  | zero => simp [assignSpacesLoop] at h
  | succ n ih =>
    unfold assignSpacesLoop at h
    split at h
    · simp only [Option.some.injEq, Prod.mk.injEq] at h
      obtain ⟨rfl, rfl⟩ := h
      exact ⟨hp, List.suffix_refl _⟩
    · rename_i next rest
      have hsub := findConnected_sub g (fun x => x ∉ fr) (depthFuel g) next (next :: rest, visited, []) hr (by simp)
      generalize hfc : findConnected g (depthFuel g) next (next :: rest, visited, []) = res at h hsub
      obtain ⟨roots1, visited1, connected⟩ := res
      simp only [] at h
      split at h
      · simp at h
      · rename_i b g1 r1 fr1 hiso
        obtain ⟨hp1, hsuf1⟩ := pinv_isolate g0 g connected fr b g1 r1 fr1 hp hsub.2 hiso
        obtain ⟨hp2, hsuf2⟩ := ih g1 roots1 visited1 fr1 hp1 (fun r hr' hm => hsub.1 r hr' (hsuf1.subset hm)) h
        exact ⟨hp2, hsuf2.trans hsuf1⟩

theorem pinv_updateParents (g0 g : Graph) (fr : List Nat) (hp : PInv g0 g fr) : PInv g0 (updateParents g) fr :=
  pinv_of_same g0 g _ fr (updateParents_objects g) (updateParents_root g) (updateParents_unused g) hp

theorem pinv_links_notFresh (g0 g : Graph) (fr : List Nat) (hp : PInv g0 g fr) :
    ∀ x, ∀ l ∈ (g.obj x).links, l.target ∉ fr := by
  obtain ⟨φ, hinv, _, _⟩ := hp
  intro x l hl hm
  exact (hinv.unused l.target (by simpa using hm)).2.1 x l hl rfl

theorem pinv_assignSpaces (g0 g : Graph) (fr : List Nat) (b : Bool) (g' : Graph) (fr' : List Nat)
    (hp : PInv g0 g fr) (h : assignSpaces g fr = some (b, g', fr')) : PInv g0 g' fr' ∧ fr' <:+ fr := by
  unfold assignSpaces at h
  simp only [Option.bind_eq_bind, Option.bind_eq_some_iff] at h
  obtain ⟨⟨visited, roots⟩, hroots, h⟩ := h
  have hpu := pinv_updateParents g0 g fr hp
  simp only [] at h
  split at h
  · simp only [Option.some.injEq, Prod.mk.injEq] at h
    obtain ⟨_, rfl, rfl⟩ := h
    exact ⟨hpu, List.suffix_refl _⟩
  · simp only [Option.bind_eq_some_iff] at h
    obtain ⟨⟨g1, fr1⟩, hloop, h⟩ := h
    simp only [Option.some.injEq, Prod.mk.injEq] at h
    obtain ⟨_, rfl, rfl⟩ := h
    have hr : ∀ r ∈ roots, r ∉ fr := by
      unfold findSpaceRoots at hroots
      exact spaceRootsLoop_roots (updateParents g) (fun x => x ∉ fr) (pinv_links_notFresh g0 _ fr hpu)
        _ _ _ _ visited roots (by simp) hroots
    exact pinv_assignSpacesLoop g0 _ _ roots _ fr _ _ hpu hr hloop

/-! ### try_isolating_subgraphs -/

theorem findRootOfSpace_P (g : Graph) (P : Nat → Prop) (hpar : ∀ x, ∀ p ∈ (g.node x).parents, P p.1)
    (fuel obj r : Nat) (ho : P obj) (h : findRootOfSpace g fuel obj = some r) : P r := by
  induction fuel generalizing obj with
  | zero => simp [findRootOfSpace] at h
  | succ n ih =>
    unfold findRootOfSpace at h
    simp only [] at h
    split at h
    · simp at h
    · rename_i parent w rest hpl
      split at h
      · simp only [Option.some.injEq] at h; subst h; exact ho
      · exact ih parent (hpar obj (parent, w) (by rw [hpl]; exact List.mem_cons_self)) h

/-- one iteration of the first loop of `try_isolating_subgraphs` -/
def toIsoStep (g : Graph) (acc : Option (Map Set)) (ov : Overflow) : Option (Map Set) :=
  match acc with
  | none => none
  | some m =>
    let parentSpace := (g.node ov.1).space
    if parentSpace < 2 then some m else
    match g.numRoots.find? parentSpace with
    | none => none
    | some nr =>
      if nr < 2 then some m else
      if parentSpace ≠ (g.node ov.2.1).space then none else
      match findRootOfSpace g (depthFuel g) ov.1 with
      | none => none
      | some root =>
        if (g.node root).space ≠ parentSpace then none else
        some (m.insert parentSpace (((m.find? parentSpace).getD []).insert root))

theorem toIsoStep_none (g : Graph) (ovs : List Overflow) : ovs.foldl (toIsoStep g) none = none := by
  induction ovs with
  | nil => rfl
  | cons o rest ih => simpa [List.foldl_cons, toIsoStep] using ih

theorem toIso_P (g : Graph) (P : Nat → Prop) (hpar : ∀ x, ∀ p ∈ (g.node x).parents, P p.1)
    (ovs : List Overflow) (hov : ∀ ov ∈ ovs, P ov.1) (m m' : Map Set)
    (hm : ∀ kv ∈ m, ∀ r ∈ kv.2, P r) (h : ovs.foldl (toIsoStep g) (some m) = some m') :
    ∀ kv ∈ m', ∀ r ∈ kv.2, P r := by
  induction ovs generalizing m with
  | nil => simp only [List.foldl_nil, Option.some.injEq] at h; subst h; exact hm
  | cons ov rest ih =>
    simp only [List.foldl_cons] at h
    cases hstep : toIsoStep g (some m) ov with
    | none => rw [hstep, toIsoStep_none] at h; simp at h
    | some m1 =>
      rw [hstep] at h
      apply ih (fun o ho => hov o (List.mem_cons_of_mem _ ho)) m1 ?_ h
      unfold toIsoStep at hstep
      simp only [] at hstep
      split at hstep
      · simp only [Option.some.injEq] at hstep; subst hstep; exact hm
      · split at hstep
        · simp at hstep
        · split at hstep
          · simp only [Option.some.injEq] at hstep; subst hstep; exact hm
          · split at hstep
            · simp at hstep
            · split at hstep
              · simp at hstep
              · rename_i root hroot
                split at hstep
                · simp at hstep
                · simp only [Option.some.injEq] at hstep; subst hstep
                  intro kv hkv r hr
                  rcases Map.mem_insert _ _ _ _ hkv with h1 | h1
                  · rw [h1] at hr
                    simp only [] at hr
                    rcases Set.mem_insert _ _ _ hr with h2 | h2
                    · rw [h2]
                      exact findRootOfSpace_P g P hpar _ _ _ (hov ov List.mem_cons_self) hroot
                    · cases hf : m.find? (g.node ov.1).space with
                      | none => rw [hf] at h2; simp at h2
                      | some v =>
                        rw [hf] at h2
                        exact hm _ (Map.find?_mem m _ v hf) r h2
                  · exact hm kv h1 r hr

/-- one iteration of the second loop of `try_isolating_subgraphs` -/
def isoStep (acc : Option (Graph × List Nat)) (kv : Nat × Set) : Option (Graph × List Nat) :=
  match acc with
  | none => none
  | some (g, fresh) =>
    match g.numRoots.find? kv.1 with
    | none => none
    | some nTotal =>
      let roots := dropLastUntil (nTotal / 2) kv.2
      match isolateSubgraph g roots fresh with
      | none => none
      | some (_, g, roots, fresh) =>
        match g.numRoots.find? kv.1 with
        | none => none
        | some cur =>
          if cur < roots.length then none
          else some ({ g with numRoots := g.numRoots.insert kv.1 (cur - roots.length) }, fresh)

theorem isoStep_none (xs : List (Nat × Set)) : xs.foldl isoStep none = none := by
  induction xs with
  | nil => rfl
  | cons o rest ih => simpa [List.foldl_cons, isoStep] using ih

theorem pinv_isoFold (g0 : Graph) (xs : List (Nat × Set)) (g : Graph) (fr : List Nat) (g' : Graph) (fr' : List Nat)
    (hp : PInv g0 g fr) (hx : ∀ kv ∈ xs, ∀ r ∈ kv.2, r ∉ fr)
    (h : xs.foldl isoStep (some (g, fr)) = some (g', fr')) : PInv g0 g' fr' ∧ fr' <:+ fr := by
  induction xs generalizing g fr with
  | nil =>
    simp only [List.foldl_nil, Option.some.injEq, Prod.mk.injEq] at h
    obtain ⟨rfl, rfl⟩ := h
    exact ⟨hp, List.suffix_refl _⟩
  | cons kv rest ih =>
    simp only [List.foldl_cons] at h
    cases hstep : isoStep (some (g, fr)) kv with
    | none => rw [hstep, isoStep_none] at h; simp at h
    | some pr =>
      obtain ⟨g1, fr1⟩ := pr
      rw [hstep] at h
      unfold isoStep at hstep
      simp only [] at hstep
      split at hstep
      · simp at hstep
      · rename_i nTotal hnt
        split at hstep
        · simp at hstep
        · rename_i b g2 roots2 fr2 hiso
          split at hstep
          · simp at hstep
          · rename_i cur hcur
            split at hstep
            · simp at hstep
            · simp only [Option.some.injEq, Prod.mk.injEq] at hstep
              obtain ⟨rfl, rfl⟩ := hstep
              have hr : ∀ r ∈ dropLastUntil (nTotal / 2) kv.2, r ∉ fr := by
                intro r hr
                unfold dropLastUntil at hr
                exact hx kv List.mem_cons_self r (List.mem_of_mem_take hr)
              obtain ⟨hp2, hsuf2⟩ := pinv_isolate g0 g _ fr b g2 roots2 fr2 hp hr hiso
              have hp2' : PInv g0 { g2 with numRoots := g2.numRoots.insert kv.1 (cur - roots2.length) } fr2 :=
                pinv_of_same g0 g2 _ fr2 rfl rfl (fun n hn => unused_congr g2 _ rfl rfl n hn) hp2
              obtain ⟨hp3, hsuf3⟩ := ih _ fr2 hp2'
                (fun kv' hkv' r hr' hm => hx kv' (List.mem_cons_of_mem _ hkv') r hr' (hsuf2.subset hm)) h
              exact ⟨hp3, hsuf3.trans hsuf2⟩

theorem pinv_parents_notFresh (g0 g : Graph) (fr : List Nat) (hp : PInv g0 g fr) :
    ∀ x, ∀ p ∈ (g.node x).parents, p.1 ∉ fr := by
  obtain ⟨φ, hinv, _, _⟩ := hp
  intro x p hpm hm
  exact (hinv.unused p.1 (by simpa using hm)).2.2 x p hpm rfl

theorem pinv_tryIsolating (g0 g : Graph) (ovs : List Overflow) (fr : List Nat) (b : Bool) (g' : Graph) (fr' : List Nat)
    (hp : PInv g0 g fr) (hov : ∀ ov ∈ ovs, ov.1 ∉ fr)
    (h : tryIsolating g ovs fr = some (b, g', fr')) : PInv g0 g' fr' ∧ fr' <:+ fr := by
  unfold tryIsolating at h
  simp only [Option.bind_eq_bind, Option.bind_eq_some_iff] at h
  obtain ⟨toIsolate, hto, h⟩ := h
  have hto' : ovs.foldl (toIsoStep g) (some []) = some toIsolate := hto
  have hP := toIso_P g (fun x => x ∉ fr) (pinv_parents_notFresh g0 g fr hp) ovs hov [] toIsolate (by simp) hto'
  split at h
  · simp only [Option.some.injEq, Prod.mk.injEq] at h
    obtain ⟨_, rfl, rfl⟩ := h
    exact ⟨hp, List.suffix_refl _⟩
  · simp only [Option.bind_eq_some_iff] at h
    obtain ⟨⟨g1, fr1⟩, hfold, h⟩ := h
    simp only [Option.some.injEq, Prod.mk.injEq] at h
    obtain ⟨_, rfl, rfl⟩ := h
    have hfold' : toIsolate.foldl isoStep (some (g, fr)) = some (g1, fr1) := hfold
    exact pinv_isoFold g0 toIsolate g fr g1 fr1 hp hP hfold'


end FontVerif.Graph
