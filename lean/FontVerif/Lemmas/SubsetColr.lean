/-
Lemmas about the COLR subsetter model: the object graph it builds (`Model/SubsetColr.lean`) unfolds to
the renamed source graph (`Model/SubsetColrTree.lean`).
-/
import FontVerif.Lemmas.SubsetColrSer
import FontVerif.Model.SubsetColrTree
set_option linter.unusedVariables false
namespace FontVerif.SubsetColr
open FontVerif FontVerif.ColrSer
open FontVerif.SubsetHvar (Err R)

/-! ## generalities -/

theorem bind_ok {α β} {x : R α} {f : α → R β} {r : β} (h : (x >>= f) = .ok r) :
    ∃ a, x = .ok a ∧ f a = .ok r := by
  cases x with
  | error e => cases h
  | ok a => exact ⟨a, rfl, h⟩

/-- an object that may be packed behind `n` objects -/
def ObjOk (o : Obj) (n : Nat) : Prop :=
  (∀ l ∈ o.links, l.target < n) ∧ LinksInside o.links o.bytes.length ∧ SortedLinks o.links

/-- `b` extends `a` -/
def Ext (a b : List Obj) : Prop := ∃ e, b = a ++ e

theorem Ext.refl (a : List Obj) : Ext a a := ⟨[], by simp⟩

theorem Ext.trans {a b c : List Obj} (h1 : Ext a b) (h2 : Ext b c) : Ext a c := by
  obtain ⟨e1, rfl⟩ := h1
  obtain ⟨e2, rfl⟩ := h2
  exact ⟨e1 ++ e2, by simp⟩

theorem Ext.length_le {a b : List Obj} (h : Ext a b) : a.length ≤ b.length := by
  obtain ⟨e, rfl⟩ := h; simp

theorem Ext.getElem? {a b : List Obj} (h : Ext a b) {i : Nat} (hi : i < a.length) : b[i]? = a[i]? := by
  obtain ⟨e, rfl⟩ := h
  exact List.getElem?_append_left hi

theorem WF.of_ext {a b : List Obj} (h : Ext a b) (wf : WF b) : WF a := by
  intro k hk
  have hkb : k < b.length := Nat.lt_of_lt_of_le hk h.length_le
  have := wf k hkb
  have e : b[k] = a[k] := by
    have h1 := h.getElem? hk
    rw [List.getElem?_eq_getElem hkb, List.getElem?_eq_getElem hk] at h1
    exact Option.some.inj h1
  rw [e] at this
  exact this

theorem WF.nil : WF [] := fun k hk => absurd hk (by simp)

theorem WF.snoc {a : List Obj} {o : Obj} (wf : WF a) (ok : ObjOk o a.length) : WF (a ++ [o]) := by
  intro k hk
  by_cases hka : k < a.length
  · have e : (a ++ [o])[k] = a[k] := List.getElem_append_left hka
    rw [e]; exact wf k hka
  · have hk' : k = a.length := by simp at hk; omega
    subst hk'
    have e : (a ++ [o])[a.length] = o := by simp
    rw [e]; exact ok

theorem packChild_spec (pk : List Obj) (o : Obj) (i : Nat) (pk' : List Obj)
    (h : packChild pk o = .ok (i, pk')) (wf : WF pk) (ok : ObjOk o pk.length) :
    WF pk' ∧ Ext pk pk' ∧ pk'[i]? = some o := by
  unfold packChild at h
  rcases popPack_spec pk o with ⟨_, hp⟩ | ⟨_, j, hj, hget, hp⟩ | ⟨_, hp⟩
  · rw [hp] at h; cases h
  · rw [hp] at h
    simp only [pure, Except.pure] at h
    cases h
    exact ⟨wf, Ext.refl _, hget⟩
  · rw [hp] at h
    simp only [pure, Except.pure] at h
    cases h
    exact ⟨WF.snoc wf ok, ⟨[o], rfl⟩, by simp⟩

/-- a leaf object (no links) may be packed anywhere -/
theorem ObjOk.leaf (bytes : List Nat) (n : Nat) : ObjOk ⟨bytes, []⟩ n :=
  ⟨by simp, by intro l hl; simp at hl, List.Pairwise.nil⟩

/-! ## `packEach` -/

theorem packEach_spec {α : Type} (build : α → List Obj → R (Obj × List Obj)) (P : α → Nat → List Obj → Prop)
    (hmono : ∀ a i pk pk', P a i pk → Ext pk pk' → WF pk' → P a i pk') :
    ∀ (as : List α) (pk : List Obj) (ts : List Nat) (pk' : List Obj),
      (∀ a ∈ as, ∀ pk o pk1, build a pk = .ok (o, pk1) → WF pk →
        WF pk1 ∧ Ext pk pk1 ∧ ObjOk o pk1.length ∧
        ∀ pk2 i, Ext pk1 pk2 → WF pk2 → pk2[i]? = some o → P a i pk2) →
      packEach build as pk = .ok (ts, pk') → WF pk →
      WF pk' ∧ Ext pk pk' ∧ ts.length = as.length ∧
      ∀ k (hk : k < as.length) (hk' : k < ts.length), ts[k] < pk'.length ∧ P as[k] ts[k] pk'
  | [], pk, ts, pk', _, h, wf => by
    simp only [packEach, pure, Except.pure] at h
    cases h
    exact ⟨wf, Ext.refl _, rfl, fun k hk => absurd hk (by simp)⟩
  | a :: as, pk, ts, pk', hb, h, wf => by
    simp only [packEach] at h
    obtain ⟨⟨o, pk1⟩, hbuild, h⟩ := bind_ok h
    obtain ⟨⟨i, pk2⟩, hpack, h⟩ := bind_ok h
    obtain ⟨⟨ts', pk3⟩, hrest, h⟩ := bind_ok h
    simp only [pure, Except.pure] at h
    cases h
    obtain ⟨wf1, e1, ok1, hP⟩ := hb a (by simp) pk o pk1 hbuild wf
    obtain ⟨wf2, e2, hget⟩ := packChild_spec pk1 o i pk2 hpack wf1 ok1
    obtain ⟨wf3, e3, hlen, hall⟩ := packEach_spec build P hmono as pk2 ts' pk'
      (fun a' ha' => hb a' (by simp [ha'])) hrest wf2
    refine ⟨wf3, e1.trans (e2.trans e3), by simp [hlen], ?_⟩
    intro k hk hk'
    cases k with
    | zero =>
      simp only [List.getElem_cons_zero]
      have hi : i < pk2.length := by
        by_cases hi : i < pk2.length
        · exact hi
        · rw [List.getElem?_eq_none (by omega)] at hget; cases hget
      exact ⟨Nat.lt_of_lt_of_le hi e3.length_le, hmono a i pk2 pk' (hP pk2 i e2 wf2 hget) e3 wf3⟩
    | succ k =>
      simp only [List.getElem_cons_succ]
      exact hall k (by simpa using hk) (by simpa using hk')

/-! ## the object graph is stable under packing more objects -/

theorem linkAt_mem {links : List Link} {pos t : Nat} (h : linkAt links pos = some t) :
    ∃ l ∈ links, l.pos = pos ∧ l.target = t := by
  unfold linkAt at h
  cases hf : links.find? (·.pos = pos) with
  | none => rw [hf] at h; cases h
  | some l =>
    rw [hf] at h
    simp only [Option.map_some, Option.some.injEq] at h
    have hm := List.mem_of_find?_eq_some hf
    have hp := List.find?_some hf
    exact ⟨l, hm, by simpa using hp, h⟩

theorem objKids_congr (f g : Nat → Option Tree) (links : List Link)
    (h : ∀ l ∈ links, f l.target = g l.target) :
    ∀ ps, objKids f links ps = objKids g links ps
  | [] => rfl
  | pos :: rest => by
    simp only [objKids]
    cases hl : linkAt links pos with
    | none => rfl
    | some t =>
      obtain ⟨l, hm, _, ht⟩ := linkAt_mem hl
      simp only []
      rw [← ht, h l hm, objKids_congr f g links h rest]

theorem objTree_ext {pk pk' : List Obj} (hext : Ext pk pk') (wf : WF pk) :
    ∀ fuel i, i < pk.length → objTree pk' fuel i = objTree pk fuel i
  | 0, _, _ => rfl
  | fuel + 1, i, hi => by
    simp only [objTree]
    rw [hext.getElem? hi, List.getElem?_eq_getElem hi]
    simp only []
    have hwf := wf i hi
    have hk : objKids (objTree pk' fuel) pk[i].links (kidPositions (pk[i].bytes.getD 0 0)) =
        objKids (objTree pk fuel) pk[i].links (kidPositions (pk[i].bytes.getD 0 0)) :=
      objKids_congr _ _ _ (fun l hl => objTree_ext hext wf fuel l.target (by have := hwf.1 l hl; omega)) _
    rw [hk]
    cases objKids (objTree pk fuel) pk[i].links (kidPositions (pk[i].bytes.getD 0 0)) with
    | none => rfl
    | some kids =>
      simp only []
      cases hb : blobOf (pk[i].bytes.getD 0 0) with
      | none => rfl
      | some pb =>
        obtain ⟨pos, kind⟩ := pb
        simp only []
        cases hl : linkAt pk[i].links pos with
        | none => rfl
        | some t =>
          obtain ⟨l, hm, _, ht⟩ := linkAt_mem hl
          have : t < pk.length := by have := hwf.1 l hm; omega
          simp only []
          rw [hext.getElem? this]

/-! ## per-format facts -/

theorem paintSize_pos {fmt size : Nat} (h : paintSize fmt = some size) :
    1 ≤ fmt ∧ fmt ≤ 32 ∧ 3 ≤ size := by
  unfold paintSize at h
  split at h <;> simp_all <;> omega

/-- the link positions of a format stay inside its record and do not overlap -/
def PositionsOk (fmt size : Nat) : Prop :=
  (∀ pos ∈ kidPositions fmt, 1 ≤ pos ∧ pos + 3 ≤ size) ∧
  (match blobOf fmt with
   | some (pos, _) => 1 ≤ pos ∧ pos + 3 ≤ size ∧ ∀ q ∈ kidPositions fmt, q + 3 ≤ pos
   | none => True) ∧
  (kidPositions fmt).Pairwise (fun a b => a + 3 ≤ b)

instance (fmt size : Nat) : Decidable (PositionsOk fmt size) := by
  unfold PositionsOk
  cases h : blobOf fmt with
  | none => simp only []; infer_instance
  | some pk => obtain ⟨pos, k⟩ := pk; simp only []; infer_instance

theorem positions_ok {fmt size : Nat} (h : paintSize fmt = some size) : PositionsOk fmt size := by
  unfold paintSize at h
  split at h <;> first | (cases h; decide) | cases h

theorem paintSize_ge {fmt size : Nat} (h : paintSize fmt = some size) (h11 : fmt ≠ 11) : 5 ≤ size := by
  unfold paintSize at h
  split at h <;> simp_all <;> omega

theorem getD0_writeBE (b : List Nat) (pos w v : Nat) (hpos : 1 ≤ pos) (hb : pos ≤ b.length) :
    (writeBE b pos w v).getD 0 0 = b.getD 0 0 := by
  rw [writeBE_eq]
  cases b with
  | nil => simp at hb; omega
  | cons x xs =>
    obtain ⟨q, rfl⟩ : ∃ q, pos = q + 1 := ⟨pos - 1, by omega⟩
    simp [List.getD]

theorem patchVar_spec (p : PlanIn) (bytes : List Nat) (pos : Nat) (out : List Nat)
    (h : patchVar p bytes pos = .ok out) (hp : 1 ≤ pos) (hl : pos + 4 ≤ bytes.length) :
    out.length = bytes.length ∧ out.getD 0 0 = bytes.getD 0 0 := by
  unfold patchVar at h
  split at h
  · simp only [pure, Except.pure] at h; cases h; exact ⟨rfl, rfl⟩
  · split at h
    · cases h
    · simp only [pure, Except.pure] at h; cases h
      exact ⟨writeBE_length hl, getD0_writeBE _ _ _ _ hp (by omega)⟩

theorem renameNode_spec (p : PlanIn) (fmt size : Nat) (src bytes : List Nat)
    (h : renameNode p fmt src = .ok bytes) (hs : paintSize fmt = some size) (hl : src.length = size)
    (h0 : src.getD 0 0 = fmt) : bytes.length = size ∧ bytes.getD 0 0 = fmt := by
  unfold renameNode at h
  split at h
  · rename_i hf; subst hf
    have : size = 6 := by simp [paintSize] at hs; omega
    subst this
    split at h
    · simp only [pure, Except.pure] at h; cases h; exact ⟨hl, h0⟩
    · split at h
      · cases h
      · simp only [pure, Except.pure] at h; cases h
        exact ⟨by rw [writeBE_length (by omega)]; exact hl, by rw [getD0_writeBE _ _ _ _ (by omega) (by omega)]; exact h0⟩
  · split at h
    · rename_i hf
      have hsz : 5 ≤ size := paintSize_ge hs (by omega)
      split at h
      · cases h
      · rename_i npal _
        have hw : (writeBE src 1 2 npal).length = src.length := writeBE_length (by omega)
        have hw0 : (writeBE src 1 2 npal).getD 0 0 = src.getD 0 0 := getD0_writeBE _ _ _ _ (by omega) (by omega)
        split at h
        · rename_i h3
          have : size = 9 := by subst h3; simp [paintSize] at hs; omega
          obtain ⟨a, b'⟩ := patchVar_spec p _ 5 bytes h (by omega) (by omega)
          exact ⟨by omega, by rw [b', hw0]; exact h0⟩
        · simp only [pure, Except.pure] at h; cases h
          exact ⟨by omega, by rw [hw0]; exact h0⟩
    · split at h
      · rename_i hf; subst hf
        have : size = 6 := by simp [paintSize] at hs; omega
        split at h
        · cases h
        · simp only [pure, Except.pure] at h; cases h
          simp [beBytes_length, this]
      · split at h
        · rename_i hf; subst hf
          have : size = 3 := by simp [paintSize] at hs; omega
          split at h
          · cases h
          · simp only [pure, Except.pure] at h; cases h
            simp [beBytes_length, this]
        · split at h
          · rename_i hf
            have : size = 7 := by rcases hf with hf | hf <;> (subst hf; simp [paintSize] at hs; omega)
            simp only [pure, Except.pure] at h; cases h
            simp [this]
          · split at h
            · rename_i hf; subst hf
              have : size = 8 := by simp [paintSize] at hs; omega
              simp only [pure, Except.pure] at h; cases h
              simp [this]
            · rename_i n1 n23 n10 n11 n1213 n32
              have hsz : 5 ≤ size := paintSize_ge hs n11
              split at h
              · obtain ⟨a, b'⟩ := patchVar_spec p _ _ bytes h (by omega) (by omega)
                exact ⟨by omega, by rw [b']; exact h0⟩
              · simp only [pure, Except.pure] at h; cases h; exact ⟨hl, h0⟩

/-! ## looking up kid links -/

/-- `find?` skips a prefix without a match -/
theorem linkAt_append_of_none (pre rest : List Link) (pos : Nat) (h : ∀ l ∈ pre, l.pos ≠ pos) :
    linkAt (pre ++ rest) pos = linkAt rest pos := by
  unfold linkAt
  congr 1
  induction pre with
  | nil => rfl
  | cons l ls ih =>
    have hl : l.pos ≠ pos := h l (by simp)
    simp only [List.cons_append, List.find?_cons]
    have : decide (l.pos = pos) = false := by simpa using hl
    rw [this]
    exact ih (fun l' hl' => h l' (by simp [hl']))

theorem linkAt_cons_same (pos w t : Nat) (rest : List Link) : linkAt (⟨pos, w, t⟩ :: rest) pos = some t := by
  simp [linkAt]

/-- the kid links of an object, looked up by position, lead to the trees of the kid targets -/
theorem objKids_zip (f : Nat → Option Tree) (g : Nat → Option Tree) (extra : List Link) :
    ∀ (positions ts : List Nat) (pre : List Link), ts.length = positions.length →
      positions.Pairwise (fun a b => a + 3 ≤ b) →
      (∀ l ∈ pre, ∀ q ∈ positions, l.pos ≠ q) →
      (∀ k (hk : k < positions.length) (hk' : k < ts.length), f ts[k] = g positions[k]) →
      objKids f (pre ++ (List.zipWith (fun pos t => (⟨pos, 3, t⟩ : Link)) positions ts ++ extra)) positions =
        positions.foldr (fun pos acc => consOpt (g pos) acc) (some [])
  | [], ts, pre, _, _, _, _ => by simp [objKids]
  | pos :: rest, [], pre, hl, _, _, _ => by simp at hl
  | pos :: rest, t :: ts, pre, hl, hp, hpre, hfg => by
    simp only [List.zipWith_cons_cons, List.cons_append, objKids, List.foldr_cons]
    rw [linkAt_append_of_none pre _ pos (fun l hl' => hpre l hl' pos (by simp)), linkAt_cons_same]
    simp only []
    have h0 := hfg 0 (by simp) (by simp)
    simp only [List.getElem_cons_zero] at h0
    rw [h0]
    have hrest := objKids_zip f g extra rest ts (pre ++ [⟨pos, 3, t⟩]) (by simpa using hl)
      (List.pairwise_cons.mp hp).2
      (fun l hl' q hq => by
        simp only [List.mem_append, List.mem_singleton] at hl'
        rcases hl' with hl' | hl'
        · exact hpre l hl' q (by simp [hq])
        · subst hl'
          have := (List.pairwise_cons.mp hp).1 q hq
          simp only; omega)
      (fun k hk hk' => by
        have := hfg (k + 1) (by simp; omega) (by simp; omega)
        simpa using this)
    simp only [List.append_assoc, List.singleton_append] at hrest
    rw [hrest]

theorem expectKids_foldr (rec : Nat → Option Tree) (b : Array Nat) (off : Nat) (positions : List Nat) :
    expectKids rec b off positions =
      positions.foldr (fun pos acc => consOpt (expectKid rec b off pos) acc) (some []) := by
  induction positions with
  | nil => rfl
  | cons pos rest ih => simp only [expectKids, List.foldr_cons, ← ih]


/-! ## packing the children of a paint -/

/-- what is known about the packed object `i` that stands for the source paint at `c` -/
def PaintAt (p : PlanIn) (b : Array Nat) (fuel c i : Nat) (pk : List Obj) : Prop :=
  i < pk.length ∧ objTree pk fuel i = expectTree p b fuel c

theorem PaintAt.mono {p : PlanIn} {b : Array Nat} {fuel c i : Nat} {pk pk' : List Obj}
    (h : PaintAt p b fuel c i pk) (e : Ext pk pk') (wf : WF pk') : PaintAt p b fuel c i pk' :=
  ⟨Nat.lt_of_lt_of_le h.1 e.length_le, by rw [objTree_ext e (WF.of_ext e wf) fuel i h.1]; exact h.2⟩

theorem sl_length {b : Array Nat} {p n : Nat} {r : List Nat} (h : sl b p n = some r) : r.length = n := by
  unfold sl at h
  split at h
  · cases h; simp; omega
  · cases h

theorem sl_getD0 {b : Array Nat} {p n v : Nat} {r : List Nat} (h : sl b p n = some r) (hn : 1 ≤ n)
    (hv : rd 1 b p = some v) : r.getD 0 0 = v := by
  unfold sl at h
  unfold rd at hv
  split at h
  · rename_i hp
    cases h
    rw [if_pos (by omega)] at hv
    cases hv
    have h1 : (b.extract p (p + 1)).toList = [b.toList[p]'(by simp; omega)] := by
      apply List.ext_getElem
      · simp; omega
      · intro i h1 h2
        simp at h1 h2
        have : i = 0 := by omega
        subst this
        simp
    rw [h1]
    simp only [beValue, List.foldl_cons, List.foldl_nil, Nat.zero_mul, Nat.zero_add]
    have h2 : ((b.extract p (p + n)).toList).getD 0 0 = b.toList[p]'(by simp; omega) := by
      rw [List.getD_eq_getElem?_getD, List.getElem?_eq_getElem (by simp; omega)]
      simp
    exact h2
  · cases h

theorem colorLineObj_leaf (b : Array Nat) (p : PlanIn) (off : Nat) (isVar : Bool) (o : Obj)
    (h : colorLineObj b p off isVar = .ok o) : o.links = [] := by
  unfold colorLineObj at h
  split at h
  · rename_i ext n _ _
    by_cases hc : off + 3 + n * (if isVar = true then 10 else 6) > b.size
    · rw [if_pos hc] at h; cases h
    · rw [if_neg hc] at h
      obtain ⟨stops, _, h⟩ := bind_ok h
      simp only [pure, Except.pure] at h
      cases h; rfl
  · cases h

theorem blobObj_leaf (b : Array Nat) (p : PlanIn) (off pos : Nat) (kind : Blob) (o : Obj)
    (h : blobObj b p off pos kind = .ok o) : o.links = [] := by
  unfold blobObj at h
  split at h
  · cases h
  · cases kind with
    | line isVar => exact colorLineObj_leaf _ _ _ _ _ h
    | affine isVar =>
      simp only [] at h
      split at h
      · cases h
      · split at h
        · obtain ⟨a', _, h⟩ := bind_ok h
          simp only [pure, Except.pure] at h
          cases h; rfl
        · simp only [pure, Except.pure] at h
          cases h; rfl

theorem packBlob_spec (b : Array Nat) (p : PlanIn) (off : Nat) (spec : Option (Nat × Blob))
    (pk : List Obj) (ls : List Link) (pk' : List Obj)
    (h : packBlob b p off spec pk = .ok (ls, pk')) (wf : WF pk) :
    WF pk' ∧ Ext pk pk' ∧ (spec = none → ls = []) ∧
    (∀ pos kind, spec = some (pos, kind) → ∃ ib bo, ls = [⟨pos, 3, ib⟩] ∧ pk'[ib]? = some bo ∧
         blobObj b p off pos kind = .ok bo) := by
  unfold packBlob at h
  cases spec with
  | none =>
    simp only [pure, Except.pure] at h
    cases h
    exact ⟨wf, Ext.refl _, fun _ => rfl, fun _ _ e => by cases e⟩
  | some pk0 =>
    obtain ⟨pos, kind⟩ := pk0
    simp only [] at h
    obtain ⟨o, hobj, h⟩ := bind_ok h
    obtain ⟨⟨ib, pk2⟩, hpack, h⟩ := bind_ok h
    simp only [pure, Except.pure] at h
    cases h
    have hleaf := blobObj_leaf _ _ _ _ _ _ hobj
    have hok : ObjOk o pk.length := by
      obtain ⟨ob, ol⟩ := o
      simp only at hleaf
      subst hleaf
      exact ObjOk.leaf _ _
    obtain ⟨wf2, e2, hget⟩ := packChild_spec pk o ib pk' hpack wf hok
    refine ⟨wf2, e2, (fun e => by cases e), ?_⟩
    intro pos' kind' e
    cases e
    exact ⟨ib, o, rfl, hget, hobj⟩

/-! ## the main induction -/


theorem mem_zipLinks : ∀ (ps ts : List Nat) (l : Link),
    l ∈ List.zipWith (fun pos t => (⟨pos, 3, t⟩ : Link)) ps ts →
    ∃ k, ∃ (hk : k < ps.length) (hk' : k < ts.length), l = ⟨ps[k], 3, ts[k]⟩
  | [], _, l, h => by simp at h
  | _ :: _, [], l, h => by simp at h
  | q :: ps, t :: ts, l, h => by
    simp only [List.zipWith_cons_cons, List.mem_cons] at h
    rcases h with h | h
    · exact ⟨0, by simp, by simp, h⟩
    · obtain ⟨k, hk, hk', e⟩ := mem_zipLinks ps ts l h
      exact ⟨k + 1, by simp; omega, by simp; omega, by simpa using e⟩

theorem pairwise_zipLinks : ∀ (ps ts : List Nat), ps.Pairwise (fun a b => a + 3 ≤ b) →
    SortedLinks (List.zipWith (fun pos t => (⟨pos, 3, t⟩ : Link)) ps ts)
  | [], _, _ => by simp [SortedLinks]
  | _ :: _, [], _ => by simp [SortedLinks]
  | q :: ps, t :: ts, h => by
    unfold SortedLinks
    simp only [List.zipWith_cons_cons]
    refine List.pairwise_cons.mpr ⟨?_, pairwise_zipLinks ps ts (List.pairwise_cons.mp h).2⟩
    intro l hl
    obtain ⟨k, hk, _, e⟩ := mem_zipLinks ps ts l hl
    subst e
    left
    exact (List.pairwise_cons.mp h).1 _ (List.getElem_mem hk)

theorem toOpt_ok {α} (a : α) : toOpt (Except.ok a : R α) = some a := rfl

/-- **The object graph built for a paint unfolds to the renamed source graph.** -/
theorem subsetPaint_spec (p : PlanIn) (b : Array Nat) :
    ∀ (fuel off : Nat) (pk : List Obj) (o : Obj) (pk1 : List Obj),
      subsetPaint b p fuel off pk = .ok (o, pk1) → WF pk →
      WF pk1 ∧ Ext pk pk1 ∧ ObjOk o pk1.length ∧
      ∀ pk2 i, Ext pk1 pk2 → WF pk2 → pk2[i]? = some o → PaintAt p b fuel off i pk2
  | 0, off, pk, o, pk1, h, _ => by simp [subsetPaint, throw, throwThe, MonadExceptOf.throw] at h
  | fuel + 1, off, pk, o, pk1, h, wf => by
    simp only [subsetPaint] at h
    split at h
    · cases h
    rename_i fmt hfmt
    split at h
    · cases h
    rename_i size hsize
    split at h
    · cases h
    rename_i src hsrc
    obtain ⟨bytes, hren, h⟩ := bind_ok h
    obtain ⟨⟨klinks, pkk⟩, hkids, h⟩ := bind_ok h
    obtain ⟨⟨blinks, pkb⟩, hblob, h⟩ := bind_ok h
    simp only [pure, Except.pure] at h
    cases h
    -- facts about the record
    have hsl : src.length = size := sl_length hsrc
    obtain ⟨_, _, hsz3⟩ := paintSize_pos hsize
    have hs0 : src.getD 0 0 = fmt := sl_getD0 hsrc (by omega) hfmt
    obtain ⟨hbl, hb0⟩ := renameNode_spec p fmt size src bytes hren hsize hsl hs0
    obtain ⟨hkpos, hbpos, hkpair⟩ := positions_ok hsize
    -- the kids
    unfold packKids at hkids
    obtain ⟨⟨ts, pkk'⟩, heach, hk2⟩ := bind_ok hkids
    simp only [pure, Except.pure] at hk2
    cases hk2
    have IH := subsetPaint_spec p b fuel
    obtain ⟨wfk, ek, hlen, hall⟩ := packEach_spec (kidBuild (subsetPaint b p fuel) b off)
      (fun pos i pk => ∃ c, resolveOff b 3 off pos = some c ∧ paintOk b c = true ∧ PaintAt p b fuel c i pk)
      (by
        intro pos i pk0 pk0' ⟨c, h1, h2, h3⟩ e w
        exact ⟨c, h1, h2, h3.mono e w⟩)
      (kidPositions fmt) pk ts pkk
      (by
        intro pos _ pk0 o0 pk01 hb0' wf0
        unfold kidBuild at hb0'
        split at hb0'
        · cases hb0'
        rename_i c hc
        split at hb0'
        · cases hb0'
        rename_i hpo
        obtain ⟨w1, e1, ok1, hP⟩ := IH c pk0 o0 pk01 hb0' wf0
        refine ⟨w1, e1, ok1, fun pk2 i e2 w2 hg => ⟨c, hc, by simpa using hpo, hP pk2 i e2 w2 hg⟩⟩)
      heach wf
    -- the blob
    obtain ⟨wfb, eb, hbnone, hbsome⟩ := packBlob_spec b p off (blobOf fmt) pkk blinks pk1 hblob wfk
    refine ⟨wfb, ek.trans eb, ?_, ?_⟩
    · -- the object is well formed
      refine ⟨?_, ?_, ?_⟩
      · intro l hl
        simp only [List.mem_append] at hl
        rcases hl with hl | hl
        · obtain ⟨k, hk, hk', e⟩ := mem_zipLinks _ _ l hl
          subst e
          have := (hall k hk hk').1
          have := eb.length_le
          simp only; omega
        · cases hbo : blobOf fmt with
          | none => have := hbnone hbo; subst this; simp at hl
          | some pkind =>
            obtain ⟨pos, kind⟩ := pkind
            obtain ⟨ib, bo, hls, hget, _⟩ := hbsome pos kind hbo
            subst hls
            simp only [List.mem_singleton] at hl
            subst hl
            by_cases hi : ib < pk1.length
            · exact hi
            · rw [List.getElem?_eq_none (by omega)] at hget; cases hget
      · intro l hl
        simp only [List.mem_append] at hl
        rcases hl with hl | hl
        · obtain ⟨k, hk, hk', e⟩ := mem_zipLinks _ _ l hl
          subst e
          have := (hkpos _ (List.getElem_mem hk)).2
          simp only; omega
        · cases hbo : blobOf fmt with
          | none => have := hbnone hbo; subst this; simp at hl
          | some pkind =>
            obtain ⟨pos, kind⟩ := pkind
            rw [hbo] at hbpos
            obtain ⟨ib, bo, hls, _, _⟩ := hbsome pos kind hbo
            subst hls
            simp only [List.mem_singleton] at hl
            subst hl
            simp only [] at hbpos
            simp only; omega
      · unfold SortedLinks
        rw [List.pairwise_append]
        refine ⟨pairwise_zipLinks _ _ hkpair, ?_, ?_⟩
        · cases hbo : blobOf fmt with
          | none => have := hbnone hbo; subst this; exact List.Pairwise.nil
          | some pkind =>
            obtain ⟨pos, kind⟩ := pkind
            obtain ⟨ib, bo, hls, _, _⟩ := hbsome pos kind hbo
            subst hls
            exact List.pairwise_singleton _ _
        · intro a ha c hc
          obtain ⟨k, hk, hk', e⟩ := mem_zipLinks _ _ a ha
          subst e
          cases hbo : blobOf fmt with
          | none => have := hbnone hbo; subst this; simp at hc
          | some pkind =>
            obtain ⟨pos, kind⟩ := pkind
            rw [hbo] at hbpos
            obtain ⟨ib, bo, hls, _, _⟩ := hbsome pos kind hbo
            subst hls
            simp only [List.mem_singleton] at hc
            subst hc
            simp only [] at hbpos
            left
            exact hbpos.2.2 _ (List.getElem_mem hk)
    · -- the tree
      intro pk2 i e2 wf2 hget
      have hi : i < pk2.length := by
        by_cases hi : i < pk2.length
        · exact hi
        · rw [List.getElem?_eq_none (by omega)] at hget; cases hget
      refine ⟨hi, ?_⟩
      simp only [objTree, expectTree, hget, hfmt, hsize, hsrc, hren, toOpt_ok, hb0]
      -- the kids
      have hkids : objKids (objTree pk2 fuel)
          (List.zipWith (fun pos t => (⟨pos, 3, t⟩ : Link)) (kidPositions fmt) ts ++ blinks) (kidPositions fmt) =
          expectKids (expectTree p b fuel) b off (kidPositions fmt) := by
        rw [expectKids_foldr]
        have := objKids_zip (objTree pk2 fuel) (expectKid (expectTree p b fuel) b off) blinks
          (kidPositions fmt) ts [] hlen hkpair (by simp)
          (by
            intro k hk hk'
            obtain ⟨_, c, hc, hpo, hpa⟩ := hall k hk hk'
            have := (hpa.mono (eb.trans e2) wf2).2
            rw [this]
            unfold expectKid
            rw [hc]
            simp [hpo])
        simpa using this
      rw [hkids]
      cases hk : expectKids (expectTree p b fuel) b off (kidPositions fmt) with
      | none => rfl
      | some kids =>
        simp only []
        cases hbo : blobOf fmt with
        | none =>
          have := hbnone hbo
          subst this
          simp only [expectBlob]
        | some pkind =>
          obtain ⟨pos, kind⟩ := pkind
          rw [hbo] at hbpos
          obtain ⟨ib, bo, hls, hgetb, hobj⟩ := hbsome pos kind hbo
          subst hls
          simp only [] at hbpos
          have hla : linkAt (List.zipWith (fun pos t => (⟨pos, 3, t⟩ : Link)) (kidPositions fmt) ts ++
              [⟨pos, 3, ib⟩]) pos = some ib := by
            rw [linkAt_append_of_none _ _ pos (by
              intro l hl
              obtain ⟨k, hk, _, e⟩ := mem_zipLinks _ _ l hl
              subst e
              have := hbpos.2.2 _ (List.getElem_mem hk)
              simp only; omega)]
            exact linkAt_cons_same _ _ _ _
          have hib : ib < pk1.length := by
            by_cases hi : ib < pk1.length
            · exact hi
            · rw [List.getElem?_eq_none (by omega)] at hgetb; cases hgetb
          simp only [hla, e2.getElem? hib, hgetb, expectBlob, hobj, toOpt_ok, Option.map_some]


/-! ## link lists of the record arrays -/

theorem linksAt_length (first stride width : Nat) (ts : List Nat) :
    (linksAt first stride width ts).length = ts.length := by simp [linksAt]

theorem linksAt_getElem (first stride width : Nat) (ts : List Nat) (k : Nat) (hk : k < ts.length) :
    (linksAt first stride width ts)[k]'(by rw [linksAt_length]; exact hk) = ⟨first + k * stride, width, ts[k]⟩ := by
  simp [linksAt]

theorem mem_linksAt {first stride width : Nat} {ts : List Nat} {l : Link} (h : l ∈ linksAt first stride width ts) :
    ∃ k, ∃ (hk : k < ts.length), l = ⟨first + k * stride, width, ts[k]⟩ := by
  obtain ⟨k, hk, e⟩ := List.mem_iff_getElem.mp h
  have hk' : k < ts.length := by rw [linksAt_length] at hk; exact hk
  exact ⟨k, hk', by rw [← e, linksAt_getElem _ _ _ _ _ hk']⟩

theorem sorted_linksAt (first stride width : Nat) (ts : List Nat) (hw : width ≤ stride) :
    SortedLinks (linksAt first stride width ts) := by
  unfold SortedLinks
  rw [List.pairwise_iff_getElem]
  intro i j hi hj hij
  rw [linksAt_length] at hi hj
  rw [linksAt_getElem _ _ _ _ _ hi, linksAt_getElem _ _ _ _ _ hj]
  left
  simp only
  have : (i + 1) * stride ≤ j * stride := Nat.mul_le_mul_right _ hij
  rw [Nat.succ_mul] at this
  omega

/-- the link of record `k` of an array object -/
theorem linkAt_linksAt (first stride width : Nat) (ts : List Nat) (hs : 0 < stride) (k : Nat) (hk : k < ts.length) :
    linkAt (linksAt first stride width ts) (first + k * stride) = some ts[k] := by
  have hsplit : linksAt first stride width ts =
      (linksAt first stride width ts).take k ++ (⟨first + k * stride, width, ts[k]⟩ ::
        (linksAt first stride width ts).drop (k + 1)) := by
    have hk' : k < (linksAt first stride width ts).length := by rw [linksAt_length]; exact hk
    conv => lhs; rw [← List.take_append_drop k (linksAt first stride width ts)]
    congr 1
    rw [List.drop_eq_getElem_cons hk', linksAt_getElem _ _ _ _ _ hk]
  rw [hsplit, linkAt_append_of_none _ _ _ (by
    intro l hl
    obtain ⟨j, hj, e⟩ := List.mem_iff_getElem.mp hl
    have hj' : j < k := by simp at hj; omega
    rw [List.getElem_take] at e
    rw [linksAt_getElem _ _ _ _ _ (by omega)] at e
    subst e
    simp only
    intro heq
    have : j * stride < k * stride := Nat.mul_lt_mul_of_pos_right hj' hs
    omega)]
  exact linkAt_cons_same _ _ _ _



/-! ## BaseGlyphList and LayerList -/

theorem flatMap_const_length {α} (xs : List α) (f : α → List Nat) (n : Nat) (h : ∀ x ∈ xs, (f x).length = n) :
    (xs.flatMap f).length = n * xs.length := by
  induction xs with
  | nil => simp
  | cons x xs ih =>
    rw [List.flatMap_cons, List.length_append, h x (by simp), ih (fun y hy => h y (by simp [hy]))]
    simp [Nat.mul_succ]; omega

/-- the retained BaseGlyphPaint records -/
def keptRecs (p : PlanIn) (recs : List (Nat × Nat)) : List (Nat × Nat) :=
  recs.filter fun r => p.colred.contains r.1

theorem baseListObj_spec (b : Array Nat) (p : PlanIn) (off : Nat) (recs : List (Nat × Nat))
    (pk : List Obj) (o : Obj) (pk1 : List Obj)
    (h : baseListObj b p off recs pk = .ok (o, pk1)) (wf : WF pk) :
    WF pk1 ∧ Ext pk pk1 ∧ ObjOk o pk1.length ∧
    o.bytes = beBytes 4 ((keptRecs p recs).length % 4294967296) ++
      (keptRecs p recs).flatMap (fun r => beBytes 2 ((p.glyphMap.lookup r.1).getD 0) ++ [0, 0, 0, 0]) ∧
    ∀ k (hk : k < (keptRecs p recs).length),
      (p.glyphMap.lookup (keptRecs p recs)[k].1).isSome ∧
      ∃ i, linkAt o.links (6 + k * 6) = some i ∧
        PaintAt p b (paintFuel b) (off + (keptRecs p recs)[k].2) i pk1 := by
  unfold baseListObj at h
  simp only [] at h
  obtain ⟨⟨ts, pk'⟩, heach, h⟩ := bind_ok h
  simp only [pure, Except.pure] at h
  cases h
  obtain ⟨wf1, e1, hlen, hall⟩ := packEach_spec (bglBuild b p off)
    (fun (r : Nat × Nat) i pk => (p.glyphMap.lookup r.1).isSome ∧ PaintAt p b (paintFuel b) (off + r.2) i pk)
    (by
      intro r i pk0 pk0' ⟨h1, h2⟩ e w
      exact ⟨h1, h2.mono e w⟩)
    (keptRecs p recs) pk ts pk1
    (by
      intro r _ pk0 o0 pk01 hb wf0
      unfold bglBuild at hb
      split at hb
      · cases hb
      rename_i ng hng
      split at hb
      · cases hb
      split at hb
      · cases hb
      obtain ⟨w1, e1, ok1, hP⟩ := subsetPaint_spec p b _ _ pk0 o0 pk01 hb wf0
      exact ⟨w1, e1, ok1, fun pk2 i e2 w2 hg => ⟨by rw [hng]; rfl, hP pk2 i e2 w2 hg⟩⟩)
    heach wf
  have hbytes : (beBytes 4 ((keptRecs p recs).length % 4294967296) ++
      (keptRecs p recs).flatMap (fun (r : Nat × Nat) => beBytes 2 ((p.glyphMap.lookup r.1).getD 0) ++ [0, 0, 0, 0])).length =
      4 + 6 * (keptRecs p recs).length := by
    rw [List.length_append, beBytes_length, flatMap_const_length _ _ 6 (by intro x _; simp [beBytes_length])]
  refine ⟨wf1, e1, ⟨?_, ?_, sorted_linksAt 6 6 4 ts (by omega)⟩, rfl, ?_⟩
  · intro l hl
    obtain ⟨k, hk, e⟩ := mem_linksAt hl
    subst e
    exact (hall k (by omega) hk).1
  · intro l hl
    obtain ⟨k, hk, e⟩ := mem_linksAt hl
    subst e
    show 6 + k * 6 + 4 ≤ _
    unfold keptRecs at hbytes
    rw [hbytes]
    unfold keptRecs at hlen
    omega
  · intro k hk
    obtain ⟨_, h1, h2⟩ := hall k hk (by omega)
    exact ⟨h1, ts[k]'(by omega), linkAt_linksAt 6 6 4 ts (by omega) k (by omega), h2⟩

/-- the retained layer indices -/
def keptLayers (p : PlanIn) (numLayers : Nat) : List Nat :=
  (List.range numLayers).filter fun i => (p.layers.lookup i).isSome

theorem layerListObj_spec (b : Array Nat) (p : PlanIn) (off numLayers : Nat)
    (pk : List Obj) (o : Obj) (pk1 : List Obj)
    (h : layerListObj b p off numLayers pk = .ok (some (o, pk1))) (wf : WF pk) :
    WF pk1 ∧ Ext pk pk1 ∧ ObjOk o pk1.length ∧
    o.bytes = beBytes 4 (p.layers.length % 4294967296) ++ List.replicate (4 * (keptLayers p numLayers).length) 0 ∧
    ∀ k (hk : k < (keptLayers p numLayers).length),
      ∃ c i, resolveOff b 4 off (4 + 4 * (keptLayers p numLayers)[k]) = some c ∧ paintOk b c = true ∧
        linkAt o.links (4 + k * 4) = some i ∧ PaintAt p b (paintFuel b) c i pk1 := by
  unfold layerListObj at h
  split at h
  · simp only [pure, Except.pure] at h; cases h
  simp only [] at h
  obtain ⟨⟨ts, pk'⟩, heach, h⟩ := bind_ok h
  simp only [pure, Except.pure] at h
  cases h
  obtain ⟨wf1, e1, hlen, hall⟩ := packEach_spec (layerBuild b p off)
    (fun idx i pk => ∃ c, resolveOff b 4 off (4 + 4 * idx) = some c ∧ paintOk b c = true ∧
      PaintAt p b (paintFuel b) c i pk)
    (by
      intro r i pk0 pk0' ⟨c, h1, h2, h3⟩ e w
      exact ⟨c, h1, h2, h3.mono e w⟩)
    (keptLayers p numLayers) pk ts pk1
    (by
      intro idx _ pk0 o0 pk01 hb wf0
      unfold layerBuild at hb
      split at hb
      · cases hb
      rename_i c hc
      split at hb
      · cases hb
      rename_i hpo
      obtain ⟨w1, e1, ok1, hP⟩ := subsetPaint_spec p b _ _ pk0 o0 pk01 hb wf0
      exact ⟨w1, e1, ok1, fun pk2 i e2 w2 hg => ⟨c, hc, by simpa using hpo, hP pk2 i e2 w2 hg⟩⟩)
    heach wf
  refine ⟨wf1, e1, ⟨?_, ?_, sorted_linksAt 4 4 4 ts (by omega)⟩, rfl, ?_⟩
  · intro l hl
    obtain ⟨k, hk, e⟩ := mem_linksAt hl
    subst e
    exact (hall k (by omega) hk).1
  · intro l hl
    obtain ⟨k, hk, e⟩ := mem_linksAt hl
    subst e
    show 4 + k * 4 + 4 ≤ _
    simp only [List.length_append, beBytes_length, List.length_replicate]
    unfold keptLayers at hlen
    omega
  · intro k hk
    obtain ⟨_, c, h1, h2, h3⟩ := hall k hk (by omega)
    exact ⟨c, ts[k]'(by omega), h1, h2, linkAt_linksAt 4 4 4 ts (by omega) k (by omega), h3⟩



/-! ## the tables around the paint graph -/

theorem PaintAt.mono' {p : PlanIn} {b : Array Nat} {fuel c i : Nat} {pk pk' : List Obj}
    (h : PaintAt p b fuel c i pk) (e : Ext pk pk') (wf : WF pk) : PaintAt p b fuel c i pk' :=
  ⟨Nat.lt_of_lt_of_le h.1 e.length_le, by rw [objTree_ext e wf fuel i h.1]; exact h.2⟩

theorem packChild_ext (pk : List Obj) (o : Obj) (i : Nat) (pk' : List Obj)
    (h : packChild pk o = .ok (i, pk')) : Ext pk pk' ∧ pk'[i]? = some o := by
  unfold packChild at h
  rcases popPack_spec pk o with ⟨_, hp⟩ | ⟨_, j, hj, hget, hp⟩ | ⟨_, hp⟩
  · rw [hp] at h; cases h
  · rw [hp] at h; simp only [pure, Except.pure] at h; cases h; exact ⟨Ext.refl _, hget⟩
  · rw [hp] at h; simp only [pure, Except.pure] at h; cases h; exact ⟨⟨[o], rfl⟩, by simp⟩

theorem packEach_ext {α : Type} (build : α → List Obj → R (Obj × List Obj))
    (hb : ∀ a pk o pk1, build a pk = .ok (o, pk1) → Ext pk pk1) :
    ∀ (as : List α) (pk : List Obj) (ts : List Nat) (pk' : List Obj),
      packEach build as pk = .ok (ts, pk') → Ext pk pk'
  | [], pk, ts, pk', h => by
    simp only [packEach, pure, Except.pure] at h; cases h; exact Ext.refl _
  | a :: as, pk, ts, pk', h => by
    simp only [packEach] at h
    obtain ⟨⟨o, pk1⟩, hbuild, h⟩ := bind_ok h
    obtain ⟨⟨i, pk2⟩, hpack, h⟩ := bind_ok h
    obtain ⟨⟨ts', pk3⟩, hrest, h⟩ := bind_ok h
    simp only [pure, Except.pure] at h
    cases h
    exact (hb a pk o pk1 hbuild).trans ((packChild_ext _ _ _ _ hpack).1.trans
      (packEach_ext build hb as pk2 ts' pk' hrest))

theorem WF_of_leaves (pk : List Obj) (h : ∀ o ∈ pk, o.links = []) : WF pk := by
  intro k hk
  have := h pk[k] (List.getElem_mem hk)
  rw [this]
  exact ⟨by simp, by intro l hl; simp at hl, List.Pairwise.nil⟩

theorem packChild_leaves (pk : List Obj) (bytes : List Nat) (i : Nat) (pk' : List Obj)
    (h : packChild pk ⟨bytes, []⟩ = .ok (i, pk')) (hl : ∀ o ∈ pk, o.links = []) :
    ∀ o ∈ pk', o.links = [] := by
  unfold packChild at h
  rcases popPack_spec pk ⟨bytes, []⟩ with ⟨_, hp⟩ | ⟨_, j, hj, hget, hp⟩ | ⟨_, hp⟩
  · rw [hp] at h; cases h
  · rw [hp] at h; simp only [pure, Except.pure] at h; cases h; exact hl
  · rw [hp] at h; simp only [pure, Except.pure] at h; cases h
    intro o ho
    simp only [List.mem_append, List.mem_singleton] at ho
    rcases ho with ho | ho
    · exact hl o ho
    · subst ho; rfl

/-- `serialize_v0` packs leaves only; its links sit at 4 and 8 -/
theorem serializeV0_spec (b : Array Nat) (h : Header) (p : PlanIn) (toV0 : Bool)
    (hdr : List Nat) (links : List Link) (pk : List Obj)
    (hok : serializeV0 b h p toV0 = .ok (hdr, links, pk)) :
    (∀ o ∈ pk, o.links = []) ∧ (∀ l ∈ links, l.pos = 4 ∨ l.pos = 8) := by
  unfold serializeV0 at hok
  generalize hH : (if toV0 = true then 14 else 34) = H at hok
  split at hok
  · cases hok
  try simp only [] at hok
  split at hok
  · simp only [pure, Except.pure] at hok; cases hok; simp
  split at hok
  · cases hok
  rename_i recs hrecs
  try simp only [] at hok
  split at hok
  · split at hok
    · cases hok
    · simp only [pure, Except.pure] at hok; cases hok; simp
  obtain ⟨⟨rs, total⟩, hgo, hok⟩ := bind_ok hok
  obtain ⟨⟨i, pk1⟩, hp1, hok⟩ := bind_ok hok
  simp only [] at hok hp1
  have hl1 := packChild_leaves [] _ i pk1 hp1 (by simp)
  split at hok
  · simp only [pure, Except.pure] at hok; cases hok
    exact ⟨hl1, by simp⟩
  split at hok
  · cases hok
  split at hok
  · cases hok
  rename_i layers hlayers
  obtain ⟨lb, hlg, hok⟩ := bind_ok hok
  obtain ⟨⟨j, pk2⟩, hp2, hok⟩ := bind_ok hok
  simp only [pure, Except.pure] at hok
  cases hok
  exact ⟨packChild_leaves _ _ j _ hp2 hl1, by simp⟩



theorem storeObj_spec (st : StoreIn) (innerMaps : List (List Nat)) (pk : List Obj) (o : Obj) (pk1 : List Obj)
    (h : storeObj st innerMaps pk = .ok (some (o, pk1))) (wf : WF pk) :
    WF pk1 ∧ Ext pk pk1 ∧ ObjOk o pk1.length := by
  unfold storeObj at h
  split at h
  · simp only [pure, Except.pure] at h; cases h
  split at h
  · cases h
  rename_i axisCount regions hreg
  obtain ⟨refs, hrefs, h⟩ := bind_ok h
  split at h
  · simp only [pure, Except.pure] at h; cases h
  obtain ⟨out, hout, h⟩ := bind_ok h
  obtain ⟨⟨ts, pk'⟩, heach, h⟩ := bind_ok h
  simp only [pure, Except.pure] at h
  cases h
  obtain ⟨wf1, e1, hlen, hall⟩ := packEach_spec (fun (o : Obj) pk => (pure (o, pk) : R (Obj × List Obj)))
    (fun _ _ _ => True) (by intros; trivial) _ pk ts pk1
    (by
      intro a ha pk0 o0 pk01 hb wf0
      simp only [pure, Except.pure] at hb
      cases hb
      have hleaf : a.links = [] := by
        simp only [List.mem_cons, List.mem_map] at ha
        rcases ha with ha | ⟨sub, _, ha⟩
        · subst ha; rfl
        · subst ha; rfl
      refine ⟨wf0, Ext.refl _, ?_, fun _ _ _ _ _ => trivial⟩
      obtain ⟨ab, al⟩ := a
      simp only at hleaf
      subst hleaf
      exact ObjOk.leaf _ _)
    heach wf
  simp only [List.length_cons, List.length_map] at hlen
  refine ⟨wf1, e1, ?_, ?_, ?_⟩
  · intro l hl
    simp only [List.mem_cons] at hl
    rcases hl with hl | hl
    · subst hl
      cases ts with
      | nil => simp at hlen
      | cons t0 ts' =>
        have := (hall 0 (by simp) (by simp)).1
        simpa using this
    · obtain ⟨k, hk, e⟩ := mem_linksAt hl
      subst e
      have hk2 : k + 1 < ts.length := by simp at hk; omega
      have := (hall (k + 1) (by simp; omega) hk2).1
      simp only [List.getElem_tail]
      exact this
  · intro l hl
    simp only [List.length_append, beBytes_length, List.length_cons, List.length_nil, List.length_replicate]
    simp only [List.mem_cons] at hl
    rcases hl with hl | hl
    · subst hl; simp only; omega
    · obtain ⟨k, hk, e⟩ := mem_linksAt hl
      subst e
      simp only [List.length_tail] at hk
      simp only; omega
  · unfold SortedLinks
    refine List.pairwise_cons.mpr ⟨?_, sorted_linksAt 8 4 4 _ (by omega)⟩
    intro l hl
    obtain ⟨k, hk, e⟩ := mem_linksAt hl
    subst e
    left; simp only; omega

/-- what `linkTable` does -/
theorem linkTable_spec (r : R (Option (Obj × List Obj))) (pos : Nat) (links : List Link) (pk : List Obj)
    (links' : List Link) (pk' : List Obj) (h : linkTable r pos links pk = .ok (links', pk')) :
    (r = .ok none ∧ links' = links ∧ pk' = pk) ∨
    (∃ o pko i, r = .ok (some (o, pko)) ∧ packChild pko o = .ok (i, pk') ∧ links' = links ++ [⟨pos, 4, i⟩]) := by
  unfold linkTable at h
  obtain ⟨x, hr, h⟩ := bind_ok h
  cases x with
  | none =>
    simp only [pure, Except.pure] at h
    cases h
    exact Or.inl ⟨hr, rfl, rfl⟩
  | some opk =>
    obtain ⟨o, pko⟩ := opk
    simp only [] at h
    obtain ⟨⟨i, pk2⟩, hp, h⟩ := bind_ok h
    simp only [pure, Except.pure] at h
    cases h
    exact Or.inr ⟨o, pko, i, hr, hp, rfl⟩



theorem map_some_ok {α} {x : R α} {a : Option α} (h : x.map some = .ok a) : ∃ v, a = some v ∧ x = .ok v := by
  cases x with
  | error e => cases h
  | ok v => simp only [Except.map] at h; cases h; exact ⟨v, rfl, rfl⟩

/-- `clipListObj` only appends objects -/
theorem clipListObj_ext (b : Array Nat) (p : PlanIn) (off : Nat) (clips : List (Nat × Nat × Nat))
    (pk : List Obj) (o : Obj) (pk1 : List Obj) (h : clipListObj b p off clips pk = .ok (some (o, pk1))) :
    Ext pk pk1 := by
  unfold clipListObj at h
  split at h
  · simp only [pure, Except.pure] at h; cases h
  simp only [] at h
  split at h
  · cases h
  obtain ⟨⟨ts, pk'⟩, heach, h⟩ := bind_ok h
  simp only [pure, Except.pure] at h
  cases h
  exact packEach_ext _ (by
    intro a pk0 o0 pk01 hb
    obtain ⟨bo, _, hb⟩ := bind_ok hb
    simp only [pure, Except.pure] at hb
    cases hb
    exact Ext.refl _) _ _ _ _ heach

/-- the facts about the BaseGlyphList object -/
def BglFacts (p : PlanIn) (b : Array Nat) (bglOff : Nat) (bglRecs : List (Nat × Nat)) (ob : Obj)
    (pkF : List Obj) : Prop :=
  ob.bytes = beBytes 4 ((keptRecs p bglRecs).length % 4294967296) ++
      (keptRecs p bglRecs).flatMap (fun r => beBytes 2 ((p.glyphMap.lookup r.1).getD 0) ++ [0, 0, 0, 0]) ∧
  ∀ k (hk : k < (keptRecs p bglRecs).length),
    (p.glyphMap.lookup (keptRecs p bglRecs)[k].1).isSome ∧
    ∃ i, linkAt ob.links (6 + k * 6) = some i ∧
      PaintAt p b (paintFuel b) (bglOff + (keptRecs p bglRecs)[k].2) i pkF

/-- the facts about the LayerList object -/
def LayerFacts (p : PlanIn) (b : Array Nat) (lOff n : Nat) (ol : Obj) (pkF : List Obj) : Prop :=
  ol.bytes = beBytes 4 (p.layers.length % 4294967296) ++ List.replicate (4 * (keptLayers p n).length) 0 ∧
  ∀ k (hk : k < (keptLayers p n).length),
    ∃ c i, resolveOff b 4 lOff (4 + 4 * (keptLayers p n)[k]) = some c ∧ paintOk b c = true ∧
      linkAt ol.links (4 + k * 4) = some i ∧ PaintAt p b (paintFuel b) c i pkF

theorem v1Tables_spec (b : Array Nat) (p : PlanIn) (bglOff : Nat) (bglRecs : List (Nat × Nat))
    (lOff cOff mOff sOff : Nat) (links : List Link) (pk : List Obj) (links' : List Link) (pkF : List Obj)
    (h : v1Tables b p bglOff bglRecs lOff cOff mOff sOff links pk = .ok (links', pkF))
    (wf : WF pk) (hlinks : ∀ l ∈ links, l.pos = 4 ∨ l.pos = 8) :
    (∃ ib ob, linkAt links' 14 = some ib ∧ pkF[ib]? = some ob ∧ BglFacts p b bglOff bglRecs ob pkF) ∧
    (lOff ≠ 0 → p.layers ≠ [] →
      ∃ n il ol, rd 4 b lOff = some n ∧ linkAt links' 18 = some il ∧ pkF[il]? = some ol ∧
        LayerFacts p b lOff n ol pkF) := by
  unfold v1Tables at h
  obtain ⟨⟨l1, pk1⟩, hs1, h⟩ := bind_ok h
  obtain ⟨⟨l2, pk2⟩, hs2, h⟩ := bind_ok h
  obtain ⟨⟨l3, pk3⟩, hs3, h⟩ := bind_ok h
  obtain ⟨⟨l4, pk4⟩, hs4, h⟩ := bind_ok h
  simp only [] at hs2 hs3 hs4 h
  -- step 1: the variation store
  have st1 : WF pk1 ∧ Ext pk pk1 ∧ ∀ l ∈ l1, l.pos = 4 ∨ l.pos = 8 ∨ l.pos = 30 := by
    split at hs1
    · simp only [pure, Except.pure] at hs1; cases hs1
      exact ⟨wf, Ext.refl _, fun l hl => by rcases hlinks l hl with h | h <;> simp [h]⟩
    · split at hs1
      · cases hs1
      rename_i st hst
      rcases linkTable_spec _ _ _ _ _ _ hs1 with ⟨_, e1, e2⟩ | ⟨o, pko, i, hr, hp, hle⟩
      · subst e1; subst e2
        exact ⟨wf, Ext.refl _, fun l hl => by rcases hlinks l hl with h | h <;> simp [h]⟩
      · obtain ⟨w, e, ok⟩ := storeObj_spec _ _ _ _ _ hr wf
        obtain ⟨w2, e2, _⟩ := packChild_spec _ _ _ _ hp w ok
        refine ⟨w2, e.trans e2, ?_⟩
        intro l hl
        rw [hle] at hl
        simp only [List.mem_append, List.mem_singleton] at hl
        rcases hl with hl | hl
        · rcases hlinks l hl with h | h <;> simp [h]
        · subst hl; simp
  obtain ⟨wf1, e1, hl1⟩ := st1
  -- step 2: the BaseGlyphList
  rcases linkTable_spec _ _ _ _ _ _ hs2 with ⟨hr, _, _⟩ | ⟨ob, pkb, ib, hr, hp, hl2⟩
  · obtain ⟨v, hv, _⟩ := map_some_ok hr; cases hv
  obtain ⟨v, hv, hbl⟩ := map_some_ok hr
  cases hv
  obtain ⟨wfb, eb, okb, hbytes, hfacts⟩ := baseListObj_spec _ _ _ _ _ _ _ hbl wf1
  obtain ⟨wf2, e2, hget2⟩ := packChild_spec _ _ _ _ hp wfb okb
  -- everything later only extends the packed list
  have hib : ib < pk2.length := by
    by_cases hi : ib < pk2.length
    · exact hi
    · rw [List.getElem?_eq_none (by omega)] at hget2; cases hget2
  have hla14 : ∀ post, linkAt (l1 ++ [⟨14, 4, ib⟩] ++ post) 14 = some ib := by
    intro post
    rw [List.append_assoc, linkAt_append_of_none _ _ _ (by
      intro l hl
      rcases hl1 l hl with h | h | h <;> omega)]
    exact linkAt_cons_same _ _ _ _
  -- step 3: the LayerList
  have st3 : WF pk3 ∧ Ext pk2 pk3 ∧ (∃ post, l3 = l2 ++ post ∧ ∀ l ∈ post, l.pos = 18) ∧
      (lOff ≠ 0 → p.layers ≠ [] → ∃ n il ol, rd 4 b lOff = some n ∧ linkAt l3 18 = some il ∧
        pk3[il]? = some ol ∧ LayerFacts p b lOff n ol pk3) := by
    split at hs3
    · rename_i hl0
      simp only [pure, Except.pure] at hs3; cases hs3
      exact ⟨wf2, Ext.refl _, ⟨[], by simp, by simp⟩, fun hne => absurd hl0 hne⟩
    · split at hs3
      · cases hs3
      split at hs3
      · cases hs3
      rename_i n hn
      split at hs3
      · cases hs3
      rcases linkTable_spec _ _ _ _ _ _ hs3 with ⟨hr, el, ep⟩ | ⟨ol, pkl, il, hr, hp3, hl3⟩
      · subst el; subst ep
        refine ⟨wf2, Ext.refl _, ⟨[], by simp, by simp⟩, ?_⟩
        intro _ hne
        -- an empty result means no retained layer
        unfold layerListObj at hr
        split at hr
        · rename_i hemp
          exact absurd (by simpa using hemp) hne
        · obtain ⟨tp, _, hr⟩ := bind_ok hr
          simp only [pure, Except.pure] at hr
          cases hr
      · obtain ⟨wfl, el, okl, hlb, hlf⟩ := layerListObj_spec _ _ _ _ _ _ _ hr wf2
        obtain ⟨wf3, e3, hget3⟩ := packChild_spec _ _ _ _ hp3 wfl okl
        refine ⟨wf3, el.trans e3, ⟨[⟨18, 4, il⟩], hl3, by simp⟩, ?_⟩
        intro _ _
        refine ⟨n, il, ol, hn, ?_, hget3, hlb, ?_⟩
        · rw [hl3, hl2, linkAt_append_of_none _ _ _ (by
            intro l hl
            simp only [List.mem_append, List.mem_singleton] at hl
            rcases hl with hl | hl
            · rcases hl1 l hl with h | h | h <;> omega
            · subst hl; simp)]
          exact linkAt_cons_same _ _ _ _
        · intro k hk
          obtain ⟨c, i, h1, h2, h3, h4⟩ := hlf k hk
          exact ⟨c, i, h1, h2, h3, h4.mono' e3 wfl⟩
  obtain ⟨wf3, e3, ⟨post3, hl3, hpost3⟩, hlayer⟩ := st3
  -- steps 4 and 5 only extend
  have st4 : Ext pk3 pk4 ∧ ∃ post, l4 = l3 ++ post ∧ ∀ l ∈ post, l.pos = 22 := by
    split at hs4
    · simp only [pure, Except.pure] at hs4; cases hs4; exact ⟨Ext.refl _, [], by simp, by simp⟩
    · split at hs4
      · cases hs4
      split at hs4
      · cases hs4
      rcases linkTable_spec _ _ _ _ _ _ hs4 with ⟨_, el, ep⟩ | ⟨oc, pkc, ic, hr, hp4, hl4⟩
      · subst el; subst ep; exact ⟨Ext.refl _, [], by simp, by simp⟩
      · exact ⟨(clipListObj_ext _ _ _ _ _ _ _ hr).trans (packChild_ext _ _ _ _ hp4).1, [⟨22, 4, ic⟩], hl4, by simp⟩
  obtain ⟨e4, post4, hl4, hpost4⟩ := st4
  have st5 : Ext pk4 pkF ∧ ∃ post, links' = l4 ++ post ∧ ∀ l ∈ post, l.pos = 26 := by
    split at h
    · simp only [pure, Except.pure] at h; cases h; exact ⟨Ext.refl _, [], by simp, by simp⟩
    · split at h
      · cases h
      · simp only [pure, Except.pure] at h; cases h; exact ⟨Ext.refl _, [], by simp, by simp⟩
      · rcases linkTable_spec _ _ _ _ _ _ h with ⟨_, el, ep⟩ | ⟨om, pkm, im, hr, hp5, hl5⟩
        · subst el; subst ep; exact ⟨Ext.refl _, [], by simp, by simp⟩
        · obtain ⟨mp, _, hr⟩ := bind_ok hr
          have hpkm : pkm = pk4 := by
            cases mp with
            | none => simp only [pure, Except.pure] at hr; cases hr
            | some mp' =>
              simp only [] at hr
              obtain ⟨mo, _, hr⟩ := bind_ok hr
              simp only [pure, Except.pure] at hr
              cases hr; rfl
          subst hpkm
          exact ⟨(packChild_ext _ _ _ _ hp5).1, [⟨26, 4, im⟩], hl5, by simp⟩
  obtain ⟨e5, post5, hl5, hpost5⟩ := st5
  have e35 : Ext pk3 pkF := e4.trans e5
  constructor
  · -- BaseGlyphList
    refine ⟨ib, ob, ?_, ?_, hbytes, ?_⟩
    · rw [hl5, hl4, hl3, hl2]
      have := hla14 (post3 ++ post4 ++ post5)
      simpa [List.append_assoc] using this
    · rw [(e3.trans e35).getElem? hib]; exact hget2
    · intro k hk
      obtain ⟨h1, i, h2, h3⟩ := hfacts k hk
      exact ⟨h1, i, h2, h3.mono' (e2.trans (e3.trans e35)) wfb⟩
  · -- LayerList
    intro hl0 hne
    obtain ⟨n, il, ol, hn, hla, hget, hlb, hlf⟩ := hlayer hl0 hne
    have hil : il < pk3.length := by
      by_cases hi : il < pk3.length
      · exact hi
      · rw [List.getElem?_eq_none (by omega)] at hget; cases hget
    refine ⟨n, il, ol, hn, ?_, by rw [e35.getElem? hil]; exact hget, hlb, ?_⟩
    · -- the later links sit at 22 and 26
      unfold linkAt at hla ⊢
      rw [hl5, hl4, List.append_assoc, List.find?_append]
      cases hf : l3.find? (·.pos = 18) with
      | none => rw [hf] at hla; cases hla
      | some l => rw [hf] at hla; simpa using hla
    · intro k hk
      obtain ⟨c, i, h1, h2, h3, h4⟩ := hlf k hk
      exact ⟨c, i, h1, h2, h3, h4.mono' e35 wf3⟩


/-- the COLRv1 part of a successful `Colr::subset` run that keeps a COLRv1 glyph -/
theorem colrObjects_v1 (b : Array Nat) (p : PlanIn) (packed : List Obj) (root : Obj)
    (h : colrObjects b p = .ok (packed, root))
    (hd : Header) (hhd : readHeader b = some hd)
    (bglOff lOff cOff mOff sOff : Nat) (hv1 : hd.v1 = some (bglOff, lOff, cOff, mOff, sOff))
    (bglRecs : List (Nat × Nat)) (hoff : bglOff ≠ 0) (hrecs : baseGlyphPaintRecords b bglOff = some bglRecs)
    (hkeep : (bglRecs.any fun r => p.colred.contains r.1) = true) :
    (∃ ib ob, linkAt root.links 14 = some ib ∧ packed[ib]? = some ob ∧
      BglFacts p b bglOff bglRecs ob packed) ∧
    (lOff ≠ 0 → p.layers ≠ [] →
      ∃ n il ol, rd 4 b lOff = some n ∧ linkAt root.links 18 = some il ∧ packed[il]? = some ol ∧
        LayerFacts p b lOff n ol packed) := by
  unfold colrObjects at h
  rw [hhd] at h
  simp only [] at h
  obtain ⟨bgl, hbgl, h⟩ := bind_ok h
  -- the BaseGlyphList was read
  have hbgl' : bgl = some (bglOff, bglRecs) := by
    unfold readBaseGlyphList at hbgl
    rw [hv1] at hbgl
    simp only [] at hbgl
    rw [if_neg hoff] at hbgl
    split at hbgl
    · cases hbgl
    · rw [hrecs] at hbgl
      simp only [pure, Except.pure] at hbgl
      cases hbgl; rfl
  subst hbgl'
  have htov0 : downgradeToV0 p (some (bglOff, bglRecs)) = false := by
    simp only [downgradeToV0, hkeep, Bool.not_true]
  rw [htov0] at h
  obtain ⟨⟨hdr, links0, pk0⟩, hv0, h⟩ := bind_ok h
  simp only [Bool.false_eq_true, if_false, hv1] at h
  obtain ⟨⟨links', pkF⟩, hv1t, h⟩ := bind_ok h
  simp only [pure, Except.pure] at h
  cases h
  obtain ⟨hleaves, hpos⟩ := serializeV0_spec _ _ _ _ _ _ _ hv0
  exact v1Tables_spec b p bglOff bglRecs lOff cOff mOff sOff links0 pk0 links' packed hv1t
    (WF_of_leaves _ hleaves) hpos



/-! ## COLR version 0 records -/

/-- number of layers of the first `k` records -/
def layersBefore (kept : List (Nat × Nat × Nat)) (k : Nat) : Nat := ((kept.take k).map (·.2.2)).sum

theorem baseRecordsGo_spec (p : PlanIn) :
    ∀ (kept : List (Nat × Nat × Nat)) (total : Nat) (rs : List (Nat × Nat × Nat)) (t : Nat),
      baseRecordsGo p kept total = .ok (rs, t) →
      rs.length = kept.length ∧ t = total + layersBefore kept kept.length ∧
      ∀ k (hk : k < kept.length) (hk' : k < rs.length),
        p.glyphMap.lookup kept[k].1 = some rs[k].1 ∧ rs[k].2.1 = total + layersBefore kept k ∧
        rs[k].2.2 = kept[k].2.2
  | [], total, rs, t, h => by
    simp only [baseRecordsGo, pure, Except.pure] at h
    cases h
    exact ⟨rfl, by simp [layersBefore], fun k hk => absurd hk (by simp)⟩
  | (g, f, n) :: rest, total, rs, t, h => by
    simp only [baseRecordsGo] at h
    split at h
    · cases h
    rename_i ng hng
    split at h
    · cases h
    rename_i hfit
    obtain ⟨⟨rs', t'⟩, hrest, h⟩ := bind_ok h
    simp only [pure, Except.pure] at h
    cases h
    obtain ⟨hl, ht, hall⟩ := baseRecordsGo_spec p rest (total + n) rs' t hrest
    refine ⟨by simp [hl], ?_, ?_⟩
    · rw [ht]; simp [layersBefore, List.take_succ_cons]; omega
    · intro k hk hk'
      cases k with
      | zero => simp [layersBefore, hng]
      | succ k =>
        obtain ⟨a, b', c⟩ := hall k (by simpa using hk) (by simpa using hk')
        simp only [List.getElem_cons_succ]
        refine ⟨a, ?_, c⟩
        rw [b']
        simp [layersBefore, List.take_succ_cons]; omega

theorem layerRange_spec (p : PlanIn) (layers : List (Nat × Nat)) :
    ∀ (n f : Nat) (r : List (Nat × Nat)), layerRange p layers f n = .ok r →
      r.length = n ∧ ∀ j (hj : j < n) (hj' : j < r.length), ∃ g pi, layers[f + j]? = some (g, pi) ∧
        p.glyphMap.lookup g = some r[j].1 ∧ p.palettes.lookup pi = some r[j].2
  | 0, f, r, h => by
    simp only [layerRange, pure, Except.pure] at h
    cases h
    exact ⟨rfl, fun j hj => absurd hj (by simp)⟩
  | n + 1, f, r, h => by
    simp only [layerRange] at h
    split at h
    · cases h
    rename_i g pi hget
    split at h
    · rename_i ng npi hng hnpi
      obtain ⟨r', hrest, h⟩ := bind_ok h
      simp only [pure, Except.pure] at h
      cases h
      obtain ⟨hl, hall⟩ := layerRange_spec p layers n (f + 1) r' hrest
      refine ⟨by simp [hl], ?_⟩
      intro j hj hj'
      cases j with
      | zero => exact ⟨g, pi, by simpa using hget, by simpa using hng, by simpa using hnpi⟩
      | succ j =>
        obtain ⟨g', pi', h1, h2, h3⟩ := hall j (by omega) (by simpa using hj')
        exact ⟨g', pi', by rw [← h1]; congr 1; omega, by simpa using h2, by simpa using h3⟩
    · cases h

theorem layersGo_spec (p : PlanIn) (layers : List (Nat × Nat)) :
    ∀ (kept : List (Nat × Nat × Nat)) (lb : List (Nat × Nat)), layersGo p layers kept = .ok lb →
      lb.length = layersBefore kept kept.length ∧
      ∀ k (hk : k < kept.length), ∃ r, layerRange p layers kept[k].2.1 kept[k].2.2 = .ok r ∧
        (lb.drop (layersBefore kept k)).take kept[k].2.2 = r
  | [], lb, h => by
    simp only [layersGo, pure, Except.pure] at h
    cases h
    exact ⟨by simp [layersBefore], fun k hk => absurd hk (by simp)⟩
  | (g, f, n) :: rest, lb, h => by
    simp only [layersGo] at h
    obtain ⟨a, ha, h⟩ := bind_ok h
    obtain ⟨r', hrest, h⟩ := bind_ok h
    simp only [pure, Except.pure] at h
    cases h
    obtain ⟨hal, _⟩ := layerRange_spec p layers n f a ha
    obtain ⟨hl, hall⟩ := layersGo_spec p layers rest r' hrest
    refine ⟨by simp [hl, hal, layersBefore, List.take_succ_cons], ?_⟩
    intro k hk
    cases k with
    | zero =>
      refine ⟨a, ha, ?_⟩
      simp only [layersBefore, List.take_zero, List.map_nil, List.sum_nil, List.drop_zero, List.getElem_cons_zero]
      rw [← hal, List.take_left' rfl]
    | succ k =>
      obtain ⟨r, hr, hdt⟩ := hall k (by simpa using hk)
      refine ⟨r, by simpa using hr, ?_⟩
      simp only [List.getElem_cons_succ]
      rw [← hdt]
      have : layersBefore ((g, f, n) :: rest) (k + 1) = a.length + layersBefore rest k := by
        simp [layersBefore, List.take_succ_cons, hal]
      rw [this, drop_append_len]


end FontVerif.SubsetColr
