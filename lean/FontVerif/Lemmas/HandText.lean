/-
Helper lemmas for Props/C01HandText.lean (models of Model/HandText.lean): the segment binary search of
`Cmap4` / `Cmap12::map_codepoint`, core's `binary_search_by` on arbitrary comparison functions, the
`DefaultUvsIter` / `Cmap14Iter` measures and invariants, `CharIter` steps, the Mac Roman tables, `Post::read`.
-/
import FontVerif.Model.HandText
import FontVerif.Lemmas.ReadIter
set_option linter.unusedVariables false
set_option linter.unusedSimpArgs false
namespace FontVerif.HandText
open FontVerif FontVerif.ReadIter FontVerif.HandRead

/-! ## segment search -/


theorem seek_total (sA eA : Nat → Option Nat) (c : Nat) :
    ∀ fuel lo hi, hi - lo < 2 ^ fuel → seek sA eA c fuel lo hi ≠ .fuel := by
  intro fuel
  induction fuel with
  | zero => intro lo hi h; simp at h; unfold seek; have : ¬ lo < hi := by omega
            simp [this]
  | succ f ih =>
    intro lo hi h
    rw [Nat.pow_succ] at h
    unfold seek
    split
    · split
      · simp
      · simp only []
        split
        · simp
        · split
          · apply ih; omega
          · split
            · simp
            · split
              · apply ih; omega
              · simp
    · simp

theorem seek_found (sA eA : Nat → Option Nat) (c : Nat) :
    ∀ fuel lo hi i sc, seek sA eA c fuel lo hi = .found i sc →
      lo ≤ i ∧ i < hi ∧ sA i = some sc ∧ sc ≤ c ∧ ∃ ec, eA i = some ec ∧ c ≤ ec := by
  intro fuel
  induction fuel with
  | zero => intro lo hi i sc h; unfold seek at h; split at h <;> simp at h
  | succ f ih =>
    intro lo hi i sc h
    unfold seek at h
    split at h
    · split at h
      · simp at h
      · simp only [] at h
        split at h
        · simp at h
        · rename_i sc' hs
          split at h
          · obtain ⟨a1, a2, a3, a4, a5⟩ := ih _ _ _ _ h
            exact ⟨by omega, by omega, a3, a4, a5⟩
          · split at h
            · simp at h
            · rename_i ec he
              split at h
              · obtain ⟨a1, a2, a3, a4, a5⟩ := ih _ _ _ _ h
                exact ⟨by omega, by omega, a3, a4, a5⟩
              · simp at h
                obtain ⟨h1, h2⟩ := h
                subst h1; subst h2
                refine ⟨by omega, by omega, hs, by omega, ec, he, by omega⟩
    · simp at h

theorem seek_no_trap (sA eA : Nat → Option Nat) (c : Nat) :
    ∀ fuel lo hi, lo ≤ hi → 2 * hi ≤ MAXU → seek sA eA c fuel lo hi ≠ .trap := by
  intro fuel
  induction fuel with
  | zero => intro lo hi _ _; unfold seek; split <;> simp
  | succ f ih =>
    intro lo hi hle hm
    unfold seek
    split
    · split
      · omega
      · simp only []
        split
        · simp
        · split
          · apply ih <;> omega
          · split
            · simp
            · split
              · apply ih <;> omega
              · simp
    · simp

theorem seek_no_getFail (sA eA : Nat → Option Nat) (c : Nat) :
    ∀ fuel lo hi, (∀ i, i < hi → (sA i).isSome ∧ (eA i).isSome) → seek sA eA c fuel lo hi ≠ .getFail := by
  intro fuel
  induction fuel with
  | zero => intro lo hi _; unfold seek; split <;> simp
  | succ f ih =>
    intro lo hi hall
    unfold seek
    split
    · split
      · simp
      · simp only []
        have hi' : (lo + hi) / 2 < hi := by omega
        have := hall _ hi'
        split
        · rename_i hs; simp [hs] at this
        · split
          · apply ih; intro i h; exact hall i (by omega)
          · split
            · rename_i he; simp [he] at this
            · split
              · apply ih; exact hall
              · simp
    · simp

theorem seekFuel_ok (n : Nat) : n - 0 < 2 ^ seekFuel n := by
  unfold seekFuel
  have := Nat.lt_log2_self (n := n)
  simpa using this

/-! ## `binary_search_by`, `lookup_glyph_id` -/

/-- the final `base` of core's binary search loop stays inside `base .. base + size` -/
theorem bsLoop_lt (cmpAt : Nat → Ordering) :
    ∀ size base, 1 ≤ size → base ≤ Layout.bsLoop cmpAt size base ∧ Layout.bsLoop cmpAt size base < base + size := by
  intro size
  induction size using Nat.strongRecOn with
  | _ size ih =>
    intro base h1
    unfold Layout.bsLoop
    by_cases hs : size > 1
    · simp only [hs, ↓reduceDIte]
      have hlt : size - size / 2 < size := by omega
      split
      · have := ih _ hlt base (by omega); omega
      · have := ih _ hlt (base + size / 2) (by omega); omega
    · simp only [hs, ↓reduceDIte]; omega

/-- `binary_search_by` answers `Ok(i)` only for an index of the slice whose element compares `Equal` — for EVERY
comparison function (sorted or not) -/
theorem bs_ok_lt {n : Nat} {cmpAt : Nat → Ordering} {i : Nat}
    (h : Layout.binarySearchBy n cmpAt = .ok i) : i < n ∧ cmpAt i = .eq := by
  unfold Layout.binarySearchBy at h
  by_cases hn : n = 0
  · simp [hn] at h
  · simp only [hn, ↓reduceIte] at h
    have := bsLoop_lt cmpAt n 0 (by omega)
    generalize Layout.bsLoop cmpAt n 0 = b at h this
    cases hc : cmpAt b <;> simp [hc] at h
    subst h
    exact ⟨by omega, hc⟩

theorem lookup4_no_trap (t : Cmap4) (cp i sc : Nat) (h : sc ≤ cp) : t.lookupGlyphId cp i sc ≠ .trap := by
  unfold Cmap4.lookupGlyphId
  split
  · simp
  · split
    · simp
    · split
      · simp
      · split
        · omega
        · simp only []
          split
          · simp
          · split <;> simp


/-! ## `DefaultUvsIter` -/


theorem items_length_le {α : Type} : ∀ (evs : List (Out α)), (items evs).length ≤ evs.length := by
  intro evs
  induction evs with
  | nil => simp [items]
  | cons e r ih => cases e <;> simp [items] <;> omega

def sumRem (rest : List (Nat × Nat)) : Nat := (rest.map (fun r => r.2 + 1)).sum

theorem duSkip_rem : ∀ (rest : List (Nat × Nat)) (lo hi : Nat), hi ≤ lo →
    duRem (duSkip lo hi rest).2 ≤ sumRem rest ∧
    ((duSkip lo hi rest).1 ≠ .done → duRem (duSkip lo hi rest).2 < sumRem rest) := by
  intro rest
  induction rest with
  | nil => intro lo hi h; simp [duSkip, duRem, sumRem]; omega
  | cons r rs ih =>
    intro lo hi h
    unfold duSkip
    cases he : uvsEnd r with
    | none => simp [duRem, sumRem]; omega
    | some e =>
      simp only []
      have hev : e = r.1 + r.2 + 1 := by
        unfold uvsEnd at he; split at he <;> simp at he; omega
      split
      · simp [duRem, sumRem]; omega
      · have := ih r.1 e (by omega)
        simp only [sumRem, List.map_cons, List.sum_cons] at this ⊢
        constructor
        · omega
        · intro hd; have := this.2 hd; omega

theorem duNext_rem (s : DuSt) :
    duRem (duNext s).2 ≤ duRem s ∧ ((duNext s).1 ≠ .done → duRem (duNext s).2 < duRem s) := by
  unfold duNext
  split
  · simp [duRem]; omega
  · have := duSkip_rem s.rest s.lo s.hi (by omega)
    simp only [duRem, sumRem] at this ⊢
    have hz : s.hi - s.lo = 0 := by omega
    rw [hz]
    exact ⟨by omega, fun hd => by have := this.2 hd; omega⟩

theorem duNew_rem (ranges : List (Nat × Nat)) (d : DuSt) (h : duNew ranges = some d) :
    duRem d = duTotal ranges := by
  cases ranges with
  | nil => simp [duNew] at h; subst h; simp [duRem, duTotal]
  | cons r rs =>
    simp only [duNew] at h
    cases he : uvsEnd r with
    | none => simp [he] at h
    | some e =>
      simp [he] at h; subst h
      have hev : e = r.1 + r.2 + 1 := by
        unfold uvsEnd at he; split at he <;> simp at he; omega
      simp [duRem, duTotal]; omega

theorem duSkip_ok : ∀ (rest : List (Nat × Nat)) (lo hi : Nat), RestOk rest →
    (duSkip lo hi rest).1 ≠ .trap ∧ RestOk (duSkip lo hi rest).2.rest := by
  intro rest
  induction rest with
  | nil => intro lo hi h; simp [duSkip, RestOk]
  | cons r rs ih =>
    intro lo hi h
    have hr : uvsEnd r ≠ none := h r (by simp)
    have hrs : RestOk rs := fun x hx => h x (by simp [hx])
    unfold duSkip
    cases he : uvsEnd r with
    | none => exact absurd he hr
    | some e =>
      simp only []
      split
      · exact ⟨by simp, hrs⟩
      · exact ih r.1 e hrs

theorem duNext_ok (s : DuSt) (h : RestOk s.rest) : (duNext s).1 ≠ .trap ∧ RestOk (duNext s).2.rest := by
  unfold duNext
  split
  · exact ⟨by simp, h⟩
  · exact duSkip_ok s.rest s.lo s.hi h

theorem duNew_ok (ranges : List (Nat × Nat)) (h : RestOk ranges) :
    ∃ d, duNew ranges = some d ∧ RestOk d.rest := by
  cases ranges with
  | nil => exact ⟨_, rfl, by simp [RestOk]⟩
  | cons r rs =>
    have hr : uvsEnd r ≠ none := h r (by simp)
    cases he : uvsEnd r with
    | none => exact absurd he hr
    | some e => exact ⟨⟨r.1, e, rs⟩, by simp [duNew, he], fun x hx => h x (by simp [hx])⟩

theorem uvsEnd_of_fields (r : Nat × Nat) (h1 : r.1 < 16777216) (h2 : r.2 < 256) : uvsEnd r ≠ none := by
  unfold uvsEnd; split <;> simp; omega


/-! ## `Cmap14Iter` -/

theorem c14Weight_eq (r : Cmap.VarSel) : c14Weight r = c14Items r + 1 := rfl

def duRemO : Option DuSt → Nat
  | some d => duRem d
  | none => 0

def ndRem : Option (List (Nat × Nat)) → Nat
  | some ms => ms.length
  | none => 0

/-- trips still to make (termination measure) -/
def c14Mu (t : List Cmap.VarSel) (s : C14St) : Nat :=
  match s.sel with
  | none => 0
  | some _ => duRemO s.du + ndRem s.nd + ((t.drop (s.ix + 1)).map c14Weight).sum + 1

/-- items still to yield -/
def c14Nu (t : List Cmap.VarSel) (s : C14St) : Nat :=
  match s.sel with
  | none => 0
  | some _ => duRemO s.du + ndRem s.nd + ((t.drop (s.ix + 1)).map c14Items).sum

theorem drop_sum {α : Type} (t : List α) (w : α → Nat) (i : Nat) (r : α) (h : t[i]? = some r) :
    ((t.drop i).map w).sum = w r + ((t.drop (i + 1)).map w).sum := by
  have hi : i < t.length := by
    rcases Nat.lt_or_ge i t.length with h' | h'
    · exact h'
    · rw [List.getElem?_eq_none h'] at h; simp at h
  rw [List.drop_eq_getElem_cons hi]
  have : t[i] = r := by rw [List.getElem?_eq_getElem hi] at h; simpa using h
  simp [this]

theorem c14Load_mu (t : List Cmap.VarSel) (ix : Nat) (s' : C14St) (h : c14Load t ix = some s') :
    c14Mu t s' = ((t.drop ix).map c14Weight).sum ∧ c14Nu t s' = ((t.drop ix).map c14Items).sum ∧ s'.ix = ix := by
  unfold c14Load at h
  cases ht : t[ix]? with
  | none =>
    simp [ht] at h; subst h
    have : t.length ≤ ix := by
      rcases Nat.lt_or_ge ix t.length with h' | h'
      · rw [List.getElem?_eq_getElem h'] at ht; simp at ht
      · exact h'
    simp [c14Mu, c14Nu, List.drop_eq_nil_of_le this]
  | some r =>
    simp only [ht] at h
    rw [drop_sum t c14Weight ix r ht, drop_sum t c14Items ix r ht]
    cases hd : r.defaults with
    | none =>
      simp [hd] at h; subst h
      simp [c14Mu, c14Nu, duRemO, ndRem, c14Weight, c14Items, hd]
      cases r.nonDefaults <;> simp <;> omega
    | some ranges =>
      simp only [hd] at h
      cases hn : duNew ranges with
      | none => simp [hn] at h
      | some d =>
        simp [hn] at h; subst h
        have := duNew_rem ranges d hn
        simp [c14Mu, c14Nu, duRemO, ndRem, c14Weight, c14Items, hd, this]
        cases r.nonDefaults <;> simp <;> omega

theorem c14Step_measures (t : List Cmap.VarSel) (s : C14St) :
    ((c14Step t s).1 ≠ .done → c14Mu t (c14Step t s).2 < c14Mu t s) ∧
    (∀ a, (c14Step t s).1 = .yield a → c14Nu t (c14Step t s).2 < c14Nu t s) ∧
    ((c14Step t s).1 = .cont → c14Nu t (c14Step t s).2 ≤ c14Nu t s) := by
  unfold c14Step
  cases hs : s.sel with
  | none => simp
  | some r =>
    simp only []
    cases hd : s.du with
    | none =>
      simp only []
      cases hnd : s.nd with
      | none =>
        simp only []
        cases hl : c14Load t (s.ix + 1) with
        | none => simp [c14Dead, c14Mu, hs]
        | some s' =>
          have := c14Load_mu t (s.ix + 1) s' hl
          simp [c14Mu, c14Nu, hs, hd, hnd, duRemO, ndRem] at this ⊢
          omega
      | some ms =>
        cases ms with
        | nil =>
          simp only []
          cases hl : c14Load t (s.ix + 1) with
          | none => simp [c14Dead, c14Mu, hs]
          | some s' =>
            have := c14Load_mu t (s.ix + 1) s' hl
            simp [c14Mu, c14Nu, hs, hd, hnd, duRemO, ndRem] at this ⊢
            omega
        | cons m ms =>
          simp [c14Mu, c14Nu, hs, hd, hnd, duRemO, ndRem]
    | some d =>
      simp only []
      have hrem := duNext_rem d
      cases ho : (duNext d).1 with
      | yield cp =>
        rw [ho] at hrem
        simp [c14Mu, c14Nu, hs, hd, duRemO]
        have := hrem.2 (by simp)
        omega
      | trap => simp [c14Dead, c14Mu, hs]
      | done =>
        simp only []
        cases hnd : s.nd with
        | none =>
          simp only []
          cases hl : c14Load t (s.ix + 1) with
          | none => simp [c14Dead, c14Mu, hs]
          | some s' =>
            have := c14Load_mu t (s.ix + 1) s' hl
            simp [c14Mu, c14Nu, hs, hd, hnd, duRemO, ndRem] at this ⊢
            omega
        | some ms =>
          cases ms with
          | nil =>
            simp only []
            cases hl : c14Load t (s.ix + 1) with
            | none => simp [c14Dead, c14Mu, hs]
            | some s' =>
              have := c14Load_mu t (s.ix + 1) s' hl
              simp [c14Mu, c14Nu, hs, hd, hnd, duRemO, ndRem] at this ⊢
              omega
          | cons m ms =>
            simp [c14Mu, c14Nu, hs, hd, hnd, duRemO, ndRem]
            omega
      | cont =>
        simp only []
        cases hnd : s.nd with
        | none =>
          simp only []
          cases hl : c14Load t (s.ix + 1) with
          | none => simp [c14Dead, c14Mu, hs]
          | some s' =>
            have := c14Load_mu t (s.ix + 1) s' hl
            simp [c14Mu, c14Nu, hs, hd, hnd, duRemO, ndRem] at this ⊢
            omega
        | some ms =>
          cases ms with
          | nil =>
            simp only []
            cases hl : c14Load t (s.ix + 1) with
            | none => simp [c14Dead, c14Mu, hs]
            | some s' =>
              have := c14Load_mu t (s.ix + 1) s' hl
              simp [c14Mu, c14Nu, hs, hd, hnd, duRemO, ndRem] at this ⊢
              omega
          | cons m ms =>
            simp [c14Mu, c14Nu, hs, hd, hnd, duRemO, ndRem]
            omega

def C14Inv (s : C14St) : Prop := ∀ d, s.du = some d → RestOk d.rest

theorem c14Load_ok (t : List Cmap.VarSel) (hw : C14Wf t) (ix : Nat) :
    ∃ s', c14Load t ix = some s' ∧ C14Inv s' := by
  unfold c14Load
  cases ht : t[ix]? with
  | none => exact ⟨_, rfl, by intro d hd; simp at hd⟩
  | some r =>
    simp only []
    have hmem : r ∈ t := List.mem_of_getElem? ht
    cases hd : r.defaults with
    | none => exact ⟨_, rfl, by intro d hd; simp at hd⟩
    | some ranges =>
      simp only []
      have hok : RestOk ranges := fun x hx => uvsEnd_of_fields x (hw r hmem ranges hd x hx).1 (hw r hmem ranges hd x hx).2
      obtain ⟨d, hn, hr⟩ := duNew_ok ranges hok
      rw [hn]
      exact ⟨_, rfl, by intro d' hd'; simp at hd'; subst hd'; exact hr⟩

theorem c14Step_ok (t : List Cmap.VarSel) (hw : C14Wf t) (s : C14St) (hi : C14Inv s) :
    (c14Step t s).1 ≠ .trap ∧ C14Inv (c14Step t s).2 := by
  unfold c14Step
  cases hs : s.sel with
  | none => exact ⟨by simp, hi⟩
  | some r =>
    simp only []
    obtain ⟨s', hl, hinv'⟩ := c14Load_ok t hw (s.ix + 1)
    cases hd : s.du with
    | none =>
      simp only []
      cases hnd : s.nd with
      | none => simp only [hl]; exact ⟨by simp, hinv'⟩
      | some ms =>
        cases ms with
        | nil => simp only [hl]; exact ⟨by simp, hinv'⟩
        | cons m ms => exact ⟨by simp, by intro d hd'; simp at hd'⟩
    | some d =>
      simp only []
      have hok := duNext_ok d (hi d hd)
      cases ho : (duNext d).1 with
      | yield cp =>
        exact ⟨by simp, by intro d' hd'; simp at hd'; subst hd'; exact hok.2⟩
      | trap => exact absurd ho hok.1
      | done =>
        simp only []
        cases hnd : s.nd with
        | none => simp only [hl]; exact ⟨by simp, hinv'⟩
        | some ms =>
          cases ms with
          | nil => simp only [hl]; exact ⟨by simp, hinv'⟩
          | cons m ms => exact ⟨by simp, by intro d' hd'; simp at hd'; subst hd'; exact hok.2⟩
      | cont =>
        simp only []
        cases hnd : s.nd with
        | none => simp only [hl]; exact ⟨by simp, hinv'⟩
        | some ms =>
          cases ms with
          | nil => simp only [hl]; exact ⟨by simp, hinv'⟩
          | cons m ms => exact ⟨by simp, by intro d' hd'; simp at hd'; subst hd'; exact hok.2⟩

theorem c14Weight_pos (t : List Cmap.VarSel) (h : t ≠ []) : 1 ≤ (t.map c14Weight).sum := by
  cases t with
  | nil => exact absurd rfl h
  | cons r rs => simp [c14Weight]; omega


/-! ## `CharIter`, Mac Roman -/


theorem macDecodeT_total : ∀ b, b < 256 → macDecodeT b = some (NameStr.macDecode b) ∧ NameStr.isChar (NameStr.macDecode b) = true := by
  decide +kernel

theorem bumpU16_val (d : List Nat) (pos v p : Nat) (h : bumpU16 d pos = .val v p) :
    p = pos + 2 ∧ p ≤ d.length := by
  unfold bumpU16 at h
  split at h
  · simp at h
  · split at h
    · split at h
      · simp at h; omega
      · simp at h
    · simp at h

theorem bumpU16_no_trap (d : List Nat) (pos : Nat) (hm : d.length + 2 ≤ MAXU) (hp : pos ≤ d.length) :
    bumpU16 d pos ≠ .trap := by
  unfold bumpU16
  split
  · omega
  · split
    · rename_i h2
      have hl : ((d.drop pos).take 2).length = 2 := by simp; omega
      generalize (d.drop pos).take 2 = l at hl
      match l, hl with
      | [a, b], _ => simp
    · simp

theorem bumpU8_val (d : List Nat) (pos v p : Nat) (h : bumpU8 d pos = .val v p) :
    p = pos + 1 ∧ p ≤ d.length ∧ d[pos]? = some v := by
  unfold bumpU8 at h
  split at h
  · simp at h
  · rename_i b hb
    split at h
    · simp at h
    · simp at h
      have : pos < d.length := by
        rcases Nat.lt_or_ge pos d.length with h' | h'
        · exact h'
        · rw [List.getElem?_eq_none h'] at hb; simp at hb
      refine ⟨by omega, by omega, ?_⟩
      rw [hb, h.1]

theorem isChar_charOrRep (raw : Nat) : NameStr.isChar (charOrRep raw) = true := by
  unfold charOrRep
  split
  · assumption
  · decide

theorem charStep_spec (enc : NameStr.Encoding) (d : List Nat) (pos : Nat) (hp : pos ≤ d.length) :
    (charStep enc d pos).2 ≤ d.length ∧
    ((charStep enc d pos).1 ≠ .done → pos < (charStep enc d pos).2) ∧
    ((charStep enc d pos).1 ≠ .cont) ∧
    (∀ a, (charStep enc d pos).1 = .yield a →
        NameStr.isChar a = true ∧ charNu enc d.length (charStep enc d pos).2 < charNu enc d.length pos) := by
  unfold charStep
  split
  · simp; omega
  · rename_i hlt
    cases enc with
    | unknown => simp; omega
    | macRoman =>
      simp only []
      cases hb : bumpU8 d pos with
      | none => simp; omega
      | trap => simp; omega
      | val c p1 =>
        have := bumpU8_val d pos c p1 hb
        simp only []
        cases hm : macDecodeT c with
        | none => simp; omega
        | some v =>
          simp only [charNu]
          refine ⟨by omega, fun _ => by omega, by simp, ?_⟩
          intro a ha; simp at ha; subst ha
          exact ⟨isChar_charOrRep v, by omega⟩
    | utf16be =>
      simp only []
      cases hb : bumpU16 d pos with
      | none => simp; omega
      | trap => simp; omega
      | val c1 p1 =>
        have h1 := bumpU16_val d pos c1 p1 hb
        simp only []
        split
        · cases hb2 : bumpU16 d p1 with
          | none =>
            simp only [charNu]
            refine ⟨by omega, fun _ => by omega, by simp, ?_⟩
            intro a ha; simp at ha; subst ha
            exact ⟨by decide, by omega⟩
          | trap => simp; omega
          | val c2 p2 =>
            have h2 := bumpU16_val d p1 c2 p2 hb2
            simp only []
            split
            · simp; omega
            · simp only [charNu]
              refine ⟨by omega, fun _ => by omega, by simp, ?_⟩
              intro a ha; simp at ha; subst ha
              exact ⟨isChar_charOrRep _, by omega⟩
        · simp only [charNu]
          refine ⟨by omega, fun _ => by omega, by simp, ?_⟩
          intro a ha; simp at ha; subst ha
          exact ⟨isChar_charOrRep _, by omega⟩

theorem charStep_no_trap (enc : NameStr.Encoding) (d : List Nat) (pos : Nat) (hp : pos ≤ d.length)
    (hm : d.length + 2 ≤ MAXU) (hb : ∀ b ∈ d, b < 256) : (charStep enc d pos).1 ≠ .trap := by
  unfold charStep
  split
  · simp
  · cases enc with
    | unknown => simp
    | macRoman =>
      simp only []
      cases hb8 : bumpU8 d pos with
      | none => simp
      | trap =>
        unfold bumpU8 at hb8
        split at hb8
        · simp at hb8
        · split at hb8
          · omega
          · simp at hb8
      | val c p1 =>
        have := bumpU8_val d pos c p1 hb8
        have hc : c < 256 := hb c (List.mem_of_getElem? this.2.2)
        have := (macDecodeT_total c hc).1
        simp [this]
    | utf16be =>
      simp only []
      cases hb1 : bumpU16 d pos with
      | none => simp
      | trap => exact absurd hb1 (bumpU16_no_trap d pos hm hp)
      | val c1 p1 =>
        have h1 := bumpU16_val d pos c1 p1 hb1
        simp only []
        split
        · cases hb2 : bumpU16 d p1 with
          | none => simp
          | trap => exact absurd hb2 (bumpU16_no_trap d p1 hm h1.2)
          | val c2 p2 =>
            simp only []
            split
            · omega
            · simp
        · simp



theorem natCmp_eq {a b : Nat} (h : Layout.natCmp a b = .eq) : a = b := by
  unfold Layout.natCmp at h
  split at h
  · simp at h
  · split at h
    · assumption
    · simp at h

theorem macEncode_table_roundtrip :
    ∀ i, i < 128 → macDecodeT (NameStr.macEncodeTable.getD i (0, 0)).2 = some (NameStr.macEncodeTable.getD i (0, 0)).1 := by
  decide +kernel


/-! ## `PString`, `Post::read` -/

theorem validUtf8_ascii : ∀ (s : List Nat), (s.all (· < 128)) = true → validUtf8 s = true := by
  intro s
  induction s with
  | nil => intro _; simp [validUtf8]
  | cons b r ih =>
    intro h
    simp at h
    unfold validUtf8
    simp [h.1]
    apply ih
    simp; exact h.2

theorem readAt_byte (d : List Nat) (v : Nat) (h : readAt d 0 1 = some v) : d[0]? = some v := by
  unfold readAt checkedAdd at h
  have : MAXU = 18446744073709551615 := rfl
  simp [this] at h
  cases d with
  | nil => simp at h
  | cons b r => simp [HandRead.beAt, beValue] at h; simp [h]


theorem postRead_v2 (d : List Nat) (t : PostT) (h : postRead d = some t) :
    (t.version / 65536 = 2 → t.numGlyphs.isSome ∧ t.index.isSome ∧ ∃ k, t.sdata = some (d.drop k)) := by
  intro hv
  unfold postRead at h
  split at h
  · simp at h
  · simp only [] at h
    split at h
    · split at h
      · simp at h
      · split at h
        · simp at h
        · split at h
          · split at h
            · simp at h
            · split at h
              · injection h with h; subst h; exact ⟨rfl, rfl, _, rfl⟩
              · simp at h
          · simp at h
    · rename_i hn
      split at h
      · injection h with h; subst h; exact absurd hv hn
      · simp at h


/-! ## `CharIter` against the C18 decoder (`NameStr.decodeString`) -/

theorem bumpU16_val_drop (d : List Nat) (pos v p : Nat) (h : bumpU16 d pos = .val v p) :
    ∃ a b, d.drop pos = a :: b :: d.drop (pos + 2) ∧ v = a * 256 + b ∧ p = pos + 2 := by
  unfold bumpU16 at h
  split at h
  · simp at h
  · split at h
    · split at h
      · rename_i a b hab
        simp at h
        refine ⟨a, b, ?_, by omega, by omega⟩
        have := List.take_append_drop 2 (d.drop pos)
        rw [hab, List.drop_drop] at this
        simpa using this.symm
      · simp at h
    · simp at h

theorem bumpU16_none_drop (d : List Nat) (pos : Nat) (h : bumpU16 d pos = .none) :
    (d.drop pos).length < 2 := by
  unfold bumpU16 at h
  split at h
  · simp at h
  · split at h
    · split at h <;> simp at h
    · simp; omega

theorem decodeUtf16_short (l : List Nat) (h : l.length < 2) : NameStr.decodeUtf16 l = [] := by
  match l, h with
  | [], _ => simp [NameStr.decodeUtf16]
  | [_], _ => simp [NameStr.decodeUtf16]

/-- the UTF-16BE `CharIter` yields exactly what the C18 model `NameStr.decodeUtf16` decodes -/
theorem charRun_utf16 (d : List Nat) :
    ∀ fuel pos evs, pos ≤ d.length → run (charStep .utf16be d) fuel pos = some evs → trapped evs = false →
      items evs = NameStr.decodeUtf16 (d.drop pos) := by
  intro fuel
  induction fuel with
  | zero => intro pos evs _ h; simp [run] at h
  | succ f ih =>
    intro pos evs hp h ht
    unfold run at h
    have hspec := charStep_spec .utf16be d pos hp
    split at h
    · -- done
      rename_i s' hs
      simp at h; subst h
      simp only [items]
      unfold charStep at hs
      split at hs
      · rw [List.drop_eq_nil_of_le (by omega)]; simp [NameStr.decodeUtf16]
      · simp only [] at hs
        cases hb : bumpU16 d pos with
        | none => exact (decodeUtf16_short _ (bumpU16_none_drop d pos hb)).symm
        | trap => simp [hb] at hs
        | val c1 p1 =>
          simp only [hb] at hs
          split at hs
          · cases hb2 : bumpU16 d p1 with
            | none => simp [hb2] at hs
            | trap => simp [hb2] at hs
            | val c2 p2 =>
              simp only [hb2] at hs
              split at hs <;> simp at hs
          · simp at hs
    · -- trap
      simp at h; subst h; simp [trapped] at ht
    · -- cont
      rename_i s' hs
      exact absurd (by rw [hs]) hspec.2.2.1
    · -- yield
      rename_i a s' hs
      cases hr : run (charStep .utf16be d) f s' with
      | none => simp [hr] at h
      | some r =>
        simp [hr] at h; subst h
        have hs'le : s' ≤ d.length := by have := hspec.1; rw [hs] at this; exact this
        have ih' := ih s' r hs'le hr (by simpa [trapped] using ht)
        simp only [items]
        rw [ih']
        unfold charStep at hs
        split at hs
        · simp at hs
        · simp only [] at hs
          cases hb : bumpU16 d pos with
          | none => simp [hb] at hs
          | trap => simp [hb] at hs
          | val c1 p1 =>
            obtain ⟨a1, b1, hd1, hv1, hp1⟩ := bumpU16_val_drop d pos c1 p1 hb
            simp only [hb] at hs
            rw [hd1]
            split at hs
            · rename_i hsur
              cases hb2 : bumpU16 d p1 with
              | trap => simp [hb2] at hs
              | none =>
                simp only [hb2] at hs
                simp at hs
                have hshort := bumpU16_none_drop d p1 hb2
                rw [hp1] at hshort
                obtain ⟨ha, hs2⟩ := hs
                subst ha; subst hs2
                rw [hp1, decodeUtf16_short _ hshort]
                unfold NameStr.decodeUtf16
                rw [← hv1]
                simp only [hsur, and_self, ↓reduceIte]
                match hm : d.drop (pos + 2), hshort with
                | [], _ => rfl
                | [_], _ => rfl
              | val c2 p2 =>
                obtain ⟨a2, b2, hd2, hv2, hp2⟩ := bumpU16_val_drop d p1 c2 p2 hb2
                simp only [hb2] at hs
                split at hs
                · simp at hs
                · simp at hs
                  obtain ⟨ha, hs2⟩ := hs
                  subst ha; subst hs2
                  rw [hp1] at hd2
                  rw [hd2, hp2, hp1]
                  conv => rhs; unfold NameStr.decodeUtf16
                  rw [← hv1]
                  simp only [hsur, and_self, ↓reduceIte, charOrRep, ← hv2]
            · rename_i hsur
              simp at hs
              obtain ⟨ha, hs2⟩ := hs
              subst ha; subst hs2
              rw [hp1]
              conv => rhs; unfold NameStr.decodeUtf16
              rw [← hv1]
              simp only [hsur, ↓reduceIte, charOrRep]


/-- the Mac Roman `CharIter` yields exactly what the C18 model `NameStr.decodeMac` decodes -/
theorem charRun_mac (d : List Nat) (hb : ∀ b ∈ d, b < 256) :
    ∀ fuel pos evs, pos ≤ d.length → run (charStep .macRoman d) fuel pos = some evs → trapped evs = false →
      items evs = NameStr.decodeMac (d.drop pos) := by
  intro fuel
  induction fuel with
  | zero => intro pos evs _ h; simp [run] at h
  | succ f ih =>
    intro pos evs hp h ht
    unfold run at h
    have hspec := charStep_spec .macRoman d pos hp
    split at h
    · rename_i s' hs
      simp at h; subst h
      simp only [items]
      unfold charStep at hs
      split at hs
      · rw [List.drop_eq_nil_of_le (by omega)]; simp [NameStr.decodeMac]
      · rename_i hlt
        simp only [] at hs
        cases hb8 : bumpU8 d pos with
        | none =>
          unfold bumpU8 at hb8
          split at hb8
          · rename_i hn
            rw [List.getElem?_eq_getElem (by omega)] at hn; simp at hn
          · split at hb8 <;> simp at hb8
        | trap => simp [hb8] at hs
        | val c p1 =>
          simp only [hb8] at hs
          split at hs <;> simp at hs
    · simp at h; subst h; simp [trapped] at ht
    · rename_i s' hs
      exact absurd (by rw [hs]) hspec.2.2.1
    · rename_i a s' hs
      cases hr : run (charStep .macRoman d) f s' with
      | none => simp [hr] at h
      | some r =>
        simp [hr] at h; subst h
        have hs'le : s' ≤ d.length := by have := hspec.1; rw [hs] at this; exact this
        have ih' := ih s' r hs'le hr (by simpa [trapped] using ht)
        simp only [items]
        rw [ih']
        unfold charStep at hs
        split at hs
        · simp at hs
        · rename_i hlt
          simp only [] at hs
          cases hb8 : bumpU8 d pos with
          | none => simp [hb8] at hs
          | trap => simp [hb8] at hs
          | val c p1 =>
            obtain ⟨hp1, _, hget⟩ := bumpU8_val d pos c p1 hb8
            have hc : c < 256 := hb c (List.mem_of_getElem? hget)
            have hdec := macDecodeT_total c hc
            simp only [hb8, hdec.1] at hs
            simp at hs
            obtain ⟨ha, hs2⟩ := hs
            subst ha; subst hs2
            have hlt' : pos < d.length := by omega
            rw [List.drop_eq_getElem_cons hlt']
            have : d[pos] = c := by rw [List.getElem?_eq_getElem hlt'] at hget; simpa using hget
            rw [this, hp1]
            simp [NameStr.decodeMac, charOrRep, hdec.2]


end FontVerif.HandText
