/-
C04 ⇄ C05 bridge, part 2: from the store to the packing graph (`Graph::from_obj_store`), and from `RepLinks` to C05's
`unfold` / `readBack`.
-/
import FontVerif.Lemmas.TableWriter
import FontVerif.Lemmas.GraphTopo2
set_option linter.unusedVariables false
set_option linter.unusedSimpArgs false
namespace FontVerif.TableWriter
open FontVerif FontVerif.Graph

/-! ### `Graph::from_obj_store` -/

def insEntry (m : Map Obj) (e : TData × Nat) : Map Obj := m.insert e.2 (toObj e.1)

theorem objects_eq (s : Store) : s.objects = s.foldl insEntry [] := rfl

theorem foldl_mem (s : Store) : ∀ (m : Map Obj) (kv : Nat × Obj), kv ∈ s.foldl insEntry m →
    (∃ d, (d, kv.1) ∈ s ∧ kv.2 = toObj d) ∨ kv ∈ m := by
  induction s with
  | nil => intro m kv h; exact Or.inr h
  | cons e rest ih =>
    intro m kv h
    simp only [List.foldl_cons] at h
    rcases ih _ kv h with ⟨d, hm, hd⟩ | h
    · exact Or.inl ⟨d, List.mem_cons_of_mem _ hm, hd⟩
    · rcases Map.mem_insert m e.2 (toObj e.1) kv h with h | h
      · left
        refine ⟨e.1, ?_, ?_⟩
        · rw [h]; exact List.mem_cons_self
        · rw [h]
      · exact Or.inr h

theorem objects_mem (s : Store) (kv : Nat × Obj) (h : kv ∈ s.objects) : ∃ d, (d, kv.1) ∈ s ∧ kv.2 = toObj d := by
  rcases foldl_mem s [] kv h with h | h
  · exact h
  · cases h

theorem foldl_find_notin (s : Store) : ∀ (m : Map Obj) (id : Nat), id ∉ s.map (·.2) →
    (s.foldl insEntry m).find? id = m.find? id := by
  induction s with
  | nil => intro m id _; rfl
  | cons e rest ih =>
    intro m id h
    simp only [List.map_cons, List.mem_cons, not_or] at h
    simp only [List.foldl_cons]
    rw [ih _ id h.2]
    unfold insEntry
    rw [Map.find?_insert, if_neg (fun hh => h.1 hh.symm)]

theorem foldl_find (s : Store) : ∀ (m : Map Obj) (d : TData) (id : Nat), (d, id) ∈ s → (s.map (·.2)).Nodup →
    (s.foldl insEntry m).find? id = some (toObj d) := by
  induction s with
  | nil => intro m d id h; cases h
  | cons e rest ih =>
    intro m d id h hnd
    simp only [List.map_cons, List.nodup_cons] at hnd
    simp only [List.foldl_cons]
    rcases List.mem_cons.mp h with h | h
    · subst h
      rw [foldl_find_notin rest _ id hnd.1]
      unfold insEntry
      rw [Map.find?_insert, if_pos rfl]
    · exact ih _ d id h hnd.2

theorem objects_find (s : Store) (hnd : (s.map (·.2)).Nodup) (d : TData) (id : Nat) (h : (d, id) ∈ s) :
    s.objects.find? id = some (toObj d) := foldl_find s [] d id h hnd

theorem objects_find_none (s : Store) (id : Nat) (h : id ∉ s.map (·.2)) : s.objects.find? id = none := by
  rw [objects_eq, foldl_find_notin s [] id h]; rfl

theorem foldl_sorted (s : Store) : ∀ (m : Map Obj), m.keys.Pairwise (· < ·) →
    (s.foldl insEntry m).keys.Pairwise (· < ·) := by
  induction s with
  | nil => intro m h; exact h
  | cons e rest ih =>
    intro m h
    simp only [List.foldl_cons]
    exact ih _ (Map.insert_sorted m e.2 (toObj e.1) h)

theorem objects_sorted (s : Store) : s.objects.keys.Pairwise (· < ·) :=
  foldl_sorted s [] (by simp [Map.keys])

theorem objects_keys_nodup (s : Store) : s.objects.keys.Nodup :=
  (objects_sorted s).imp (fun h => Nat.ne_of_lt h)

theorem obj_fromObjects (s : Store) (root : Nat) (hnd : (s.map (·.2)).Nodup) (d : TData) (id : Nat)
    (h : (d, id) ∈ s) : (Graph.fromObjects s.objects root).obj id = toObj d := by
  unfold Graph.obj Graph.fromObjects
  simp only []
  rw [objects_find s hnd d id h]
  rfl

/-! ### shapes -/

theorem inSomeField_shape (o o' : Obj)
    (hl : o.links.map (fun l => (l.pos, l.width)) = o'.links.map (fun l => (l.pos, l.width))) (k : Nat) :
    inSomeField o k = inSomeField o' k := by
  unfold inSomeField
  have e : ∀ (ls : List Link), ls.any (fun l => decide (l.pos ≤ k) && decide (k < l.pos + l.width)) =
      (ls.map (fun l => (l.pos, l.width))).any (fun p => decide (p.1 ≤ k) && decide (k < p.1 + p.2)) := by
    intro ls; simp [List.any_map, Function.comp_def]
  rw [e, e, hl]

theorem maskedBytes_shape (o o' : Obj) (bs : List Nat) (hb : o.bytes.length = o'.bytes.length)
    (hl : o.links.map (fun l => (l.pos, l.width)) = o'.links.map (fun l => (l.pos, l.width))) :
    maskedBytes o bs = maskedBytes o' bs := by
  unfold maskedBytes
  rw [hb]
  apply List.map_congr_left
  intro k _
  rw [inSomeField_shape o o' hl k]

/-- the records found in the store have the positions, widths and adjustments the value tree prescribes -/
theorem repLinks_skel (s : Store) (fs : Fields) : ∀ len a ls, RepLinks s fs len a ls →
    ls.map (fun l => (l.pos, l.width, l.adj)) = (skelLinks fs len a).map (fun l => (l.pos, l.width, l.adj)) := by
  induction fs with
  | nil => intro len a ls h; simp only [RepLinks] at h; subst h; rfl
  | bytes bs rest ih => intro len a ls h; exact ih _ _ _ h
  | null w rest ih => intro len a ls h; exact ih _ _ _ h
  | pad2 rest ih => intro len a ls h; exact ih _ _ _ h
  | adjust n body rest ihb ihr =>
    intro len a ls h
    obtain ⟨l1, l2, h1, hb, hr⟩ := h
    subst h1
    simp only [skelLinks, List.map_append]
    rw [ihb _ _ _ hb, ihr _ _ _ hr]
  | link w ty child rest ihc ihr =>
    intro len a ls h
    obtain ⟨l, ls', h1, h2, h3, h4, _, hr⟩ := h
    subst h1
    simp only [skelLinks, List.map_cons]
    rw [ihr _ _ _ hr, h2, h3, h4]

theorem repLinks_shape (s : Store) (fs : Fields) (len a : Nat) (ls : List Link) (h : RepLinks s fs len a ls) :
    ls.map (fun l => (l.pos, l.width)) = (skelLinks fs len a).map (fun l => (l.pos, l.width)) := by
  have := congrArg (List.map (fun (p : Nat × Nat × Nat) => (p.1, p.2.1))) (repLinks_skel s fs len a ls h)
  simpa [List.map_map, Function.comp_def] using this

/-! ### C05's `unfold` and `readBack` on a represented value -/

/-- **unfolding the stored objects gives back the value tree**: in any graph `g` whose objects are those of the store,
the subtrees behind the records `ls` that represent `fs` are the value's children (`treeKids`), to every depth. -/
theorem unfold_rep (s : Store) (g : Graph) (hg : ∀ d id, (d, id) ∈ s → g.obj id = toObj d) (fs : Fields) :
    ∀ len a ls fuel, RepLinks s fs len a ls → depth fs ≤ fuel →
      ls.map (fun l => unfold g fuel l.target) = treeKids fs a := by
  induction fs with
  | nil => intro len a ls fuel h _; simp only [RepLinks] at h; subst h; rfl
  | bytes bs rest ih => intro len a ls fuel h hd; exact ih _ _ _ _ h hd
  | null w rest ih => intro len a ls fuel h hd; exact ih _ _ _ _ h hd
  | pad2 rest ih => intro len a ls fuel h hd; exact ih _ _ _ _ h hd
  | adjust n body rest ihb ihr =>
    intro len a ls fuel h hd
    obtain ⟨l1, l2, h1, hb, hr⟩ := h
    subst h1
    simp only [depth] at hd
    simp only [treeKids, List.map_append]
    rw [ihb _ _ _ _ hb (by omega), ihr _ _ _ _ hr (by omega)]
  | link w ty child rest ihc ihr =>
    intro len a ls fuel h hd
    obtain ⟨l, ls', h1, h2, h3, h4, ⟨d, hm, hb, hc⟩, hr⟩ := h
    subst h1
    simp only [depth] at hd
    simp only [treeKids, List.map_cons]
    rw [ihr _ _ _ _ hr (by omega)]
    congr 1
    obtain ⟨n, rfl⟩ : ∃ n, fuel = n + 1 := ⟨fuel - 1, by omega⟩
    simp only [unfold, hg d l.target hm, toObj]
    rw [ihc _ _ _ _ hc (by omega)]
    congr 1
    rw [hb]
    apply maskedBytes_shape
    · simp [skel, hb]
    · simpa [skel] using repLinks_shape s child 0 a d.offsets hc

/-- **C05's shape-guided reader on the stored objects is the value-guided reader** -/
theorem readBack_rep (out : List Nat) (s : Store) (g : Graph) (hg : ∀ d id, (d, id) ∈ s → g.obj id = toObj d)
    (fs : Fields) :
    ∀ hd len a ls fuel, RepLinks s fs len a ls → depth fs ≤ fuel →
      ls.map (fun l => readBack out g fuel (hd + l.adj + readOffset out hd l) l.target) = readKids out hd fs len a := by
  induction fs with
  | nil => intro hd len a ls fuel h _; simp only [RepLinks] at h; subst h; rfl
  | bytes bs rest ih => intro hd len a ls fuel h hdp; exact ih _ _ _ _ _ h hdp
  | null w rest ih => intro hd len a ls fuel h hdp; exact ih _ _ _ _ _ h hdp
  | pad2 rest ih => intro hd len a ls fuel h hdp; exact ih _ _ _ _ _ h hdp
  | adjust n body rest ihb ihr =>
    intro hd len a ls fuel h hdp
    obtain ⟨l1, l2, h1, hb, hr⟩ := h
    subst h1
    simp only [depth] at hdp
    simp only [readKids, List.map_append]
    rw [ihb _ _ _ _ _ hb (by omega), ihr _ _ _ _ _ hr (by omega)]
  | link w ty child rest ihc ihr =>
    intro hd len a ls fuel h hdp
    obtain ⟨l, ls', h1, h2, h3, h4, ⟨d, hm, hb, hc⟩, hr⟩ := h
    subst h1
    simp only [depth] at hdp
    simp only [readKids, List.map_cons]
    rw [ihr _ _ _ _ _ hr (by omega)]
    congr 1
    obtain ⟨n, rfl⟩ : ∃ n, fuel = n + 1 := ⟨fuel - 1, by omega⟩
    have hoff : readOffset out hd l = beValue ((out.drop (hd + len % U32)).take (lenOf w)) := by
      unfold readOffset; rw [h2, h3]
    simp only [readBack, hg d l.target hm, toObj, hoff, h4]
    rw [ihc _ _ _ _ _ hc (by omega)]
    congr 1
    apply maskedBytes_shape
    · simp [skel, hb]
    · simpa [skel] using repLinks_shape s child 0 a d.offsets hc

end FontVerif.TableWriter
