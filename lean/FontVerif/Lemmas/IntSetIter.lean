/- C14 / IntSet helper lemmas, part 6: observers of `IntSet` in both modes — the ordered member
sequence `elems`, `len`, `iter` / `rev` / `iter_after`, `first` / `last`, and the range-list
plumbing (`expandTake`, `clipRanges`, `subtractRanges`, `complementRanges`). -/
import FontVerif.Lemmas.IntSetObs
set_option linter.unusedVariables false
set_option linter.unusedSimpArgs false
namespace FontVerif.IntSet

/-! ### well-formed domains and the member sequence -/

/-- a well-formed element domain: `ordered_values()` is given by sorted disjoint non-empty
ranges, `count()` is their total size, and a continuous domain is one single range -/
structure DomWF (d : Domain) : Prop where
  sorted : RSorted d.ranges
  count : d.count = (expand d.ranges).length
  cont : d.continuous = true → ∃ lo hi, d.ranges = [(lo, hi)]

/-- the members of the set in ascending order: the domain values `x` with `contains x` -/
def IntSet.elems (d : Domain) (s : IntSet) : List Nat := (expand d.ranges).filter s.contains

theorem Domain.contains_iff_mem {d : Domain} {x : Nat} :
    d.contains x = true ↔ x ∈ expand d.ranges := by
  rw [Domain.contains_iff, mem_expand]

theorem mem_elems {d : Domain} {s : IntSet} {x : Nat} :
    x ∈ s.elems d ↔ d.contains x = true ∧ s.contains x = true := by
  unfold IntSet.elems
  rw [List.mem_filter, Domain.contains_iff_mem]

theorem elems_asc {d : Domain} (hd : DomWF d) (s : IntSet) : Asc (s.elems d) :=
  (expand_asc hd.sorted).filter _

/-- the stored values, listed through the domain, are `BitSet::iter` -/
theorem stored_eq_members {d : Domain} (hd : DomWF d) {s : IntSet} (h : IInvD d s) :
    (expand d.ranges).filter s.set.contains = s.set.members := by
  apply asc_ext ((expand_asc hd.sorted).filter _) (BitSet.members_asc _ h.1)
  intro x
  rw [List.mem_filter, BitSet.mem_members _ h.1, ← Domain.contains_iff_mem]
  constructor
  · exact fun hx => hx.2
  · exact fun hx => ⟨h.2 x hx, hx⟩

theorem elems_inclusive {d : Domain} (hd : DomWF d) {s : IntSet} (h : IInvD d s)
    (hi : s.inverted = false) : s.elems d = s.set.members := by
  rw [← stored_eq_members hd h]
  unfold IntSet.elems
  congr 1
  funext x
  simp [IntSet.contains, hi]

theorem filter_length_compl (p : Nat → Bool) (l : List Nat) :
    (l.filter p).length + (l.filter (fun x => !p x)).length = l.length := by
  induction l with
  | nil => rfl
  | cons a l ih =>
    simp only [List.filter_cons]
    cases p a <;> simp <;> omega

/-- `IntSet::len()` is the number of members, in both modes (in particular the `u64`
subtraction `T::count() - s.len()` never underflows) -/
theorem IntSet.len_spec {d : Domain} (hd : DomWF d) {s : IntSet} (h : IInvD d s) :
    s.len d = some (s.elems d).length := by
  unfold IntSet.len
  have hst := stored_eq_members hd h
  have hlen := BitSet.len_eq _ h.1
  have hc := filter_length_compl s.set.contains (expand d.ranges)
  rw [hst, ← hlen, ← hd.count] at hc
  split
  · rename_i hi
    have he : s.elems d = (expand d.ranges).filter (fun x => !s.set.contains x) := by
      unfold IntSet.elems; congr 1; funext x; simp [IntSet.contains, hi]
    rw [he]
    rw [if_pos (by omega)]
    congr 1
    omega
  · rename_i hi
    simp only [Bool.not_eq_true] at hi
    rw [elems_inclusive hd h hi, hlen]

/-! ### `expandTake` / `expandTakeBack` -/

theorem expand_append (as bs : List (Nat × Nat)) : expand (as ++ bs) = expand as ++ expand bs := by
  unfold expand; simp

theorem length_expand_cons (r : Nat × Nat) (rs : List (Nat × Nat)) :
    (expand (r :: rs)).length = (r.2 + 1 - r.1) + (expand rs).length := by
  rw [expand_cons]; simp

theorem expand_cons_empty {s e : Nat} (h : s > e) (rest : List (Nat × Nat)) :
    expand ((s, e) :: rest) = expand rest := by
  rw [expand_cons]
  have : e + 1 - s = 0 := by omega
  simp [this]

theorem expandTake_eq (k : Nat) (rs : List (Nat × Nat)) : expandTake k rs = (expand rs).take k := by
  fun_induction expandTake k rs with
  | case1 rs => simp
  | case2 k hk => simp [expand_nil]
  | case3 k s e rest hgt ih =>
    rw [ih, expand_cons_empty hgt]
  | case4 k s e rest hle n ih =>
    rw [ih, expand_cons, List.take_append]
    simp only [List.length_map, List.length_range]
    have hn : n = min (k + 1) (e + 1 - s) := rfl
    congr 1
    · rw [← List.map_take, List.take_range, hn]
    · by_cases hlt : k + 1 ≤ e + 1 - s
      · have h1 : k + 1 - n = 0 := by omega
        have h2 : k + 1 - (e + 1 - s) = 0 := by omega
        rw [h1, h2]
      · have h1 : n = e + 1 - s := by omega
        rw [h1]

theorem range_map_reverse (s e : Nat) (h : s ≤ e) :
    ((List.range (e + 1 - s)).map (· + s)).reverse = (List.range (e + 1 - s)).map (fun i => e - i) := by
  apply List.ext_getElem
  · simp
  · intro i h1 h2
    simp only [List.length_reverse, List.length_map, List.length_range] at h1
    simp only [List.getElem_reverse, List.getElem_map, List.getElem_range, List.length_map,
      List.length_range]
    omega

theorem expandTakeBack_go_eq (k : Nat) (l : List (Nat × Nat)) :
    expandTakeBack.go k l = (expand l.reverse).reverse.take k := by
  fun_induction expandTakeBack.go k l with
  | case1 rs => simp
  | case2 k hk => simp [expand_nil]
  | case3 k s e rest hgt ih =>
    rw [ih, List.reverse_cons, expand_append, expand_cons_empty hgt, expand_nil, List.append_nil]
  | case4 k s e rest hle n ih =>
    rw [ih, List.reverse_cons, expand_append, List.reverse_append, expand_cons, expand_nil,
      List.append_nil, range_map_reverse s e (by omega), List.take_append]
    simp only [List.length_map, List.length_range]
    have hn : n = min (k + 1) (e + 1 - s) := rfl
    congr 1
    · rw [← List.map_take, List.take_range, hn]
    · by_cases hlt : k + 1 ≤ e + 1 - s
      · have h1 : k + 1 - n = 0 := by omega
        have h2 : k + 1 - (e + 1 - s) = 0 := by omega
        rw [h1, h2]
      · have h1 : n = e + 1 - s := by omega
        rw [h1]

theorem expandTakeBack_eq (k : Nat) (rs : List (Nat × Nat)) :
    expandTakeBack k rs = (expand rs).reverse.take k := by
  unfold expandTakeBack
  rw [expandTakeBack_go_eq, List.reverse_reverse]

/-! ### `clipRanges` -/

theorem clipRanges_cons (r : Nat × Nat) (rs : List (Nat × Nat)) (lo hi : Nat) :
    clipRanges (r :: rs) lo hi =
      if max r.1 lo ≤ min r.2 hi then (max r.1 lo, min r.2 hi) :: clipRanges rs lo hi
      else clipRanges rs lo hi := by
  unfold clipRanges
  rw [List.filterMap_cons]
  by_cases h : max r.1 lo ≤ min r.2 hi
  · simp [h]
  · simp [h]

theorem clipRanges_rsorted {rs : List (Nat × Nat)} (h : RSorted rs) (lo hi : Nat) :
    RSorted (clipRanges rs lo hi) := by
  induction rs with
  | nil => exact rsorted_nil
  | cons r rs ih =>
    rw [rsorted_cons] at h
    rw [clipRanges_cons]
    split
    · rename_i hle
      rw [rsorted_cons]
      refine ⟨?_, hle, ih h.2.2⟩
      intro q hq
      rw [mem_clipRanges] at hq
      obtain ⟨r', hr', _, rfl⟩ := hq
      have := h.1 r' hr'
      simp only
      omega
    · exact ih h.2.2

theorem nmem_clipRanges {rs : List (Nat × Nat)} {lo hi x : Nat} :
    NMem (clipRanges rs lo hi) x ↔ NMem rs x ∧ lo ≤ x ∧ x ≤ hi := by
  unfold NMem
  constructor
  · rintro ⟨q, hq, h1, h2⟩
    rw [mem_clipRanges] at hq
    obtain ⟨r, hr, _, rfl⟩ := hq
    simp only at h1 h2
    exact ⟨⟨r, hr, by omega, by omega⟩, by omega, by omega⟩
  · rintro ⟨⟨r, hr, h1, h2⟩, h3, h4⟩
    refine ⟨(max r.1 lo, min r.2 hi), ?_, by simp only; omega, by simp only; omega⟩
    rw [mem_clipRanges]
    exact ⟨r, hr, by omega, rfl⟩

theorem expand_clipRanges {rs : List (Nat × Nat)} (h : RSorted rs) (lo hi : Nat) :
    expand (clipRanges rs lo hi) =
      (expand rs).filter (fun x => decide (lo ≤ x) && decide (x ≤ hi)) := by
  apply asc_ext (expand_asc (clipRanges_rsorted h lo hi)) ((expand_asc h).filter _)
  intro x
  rw [mem_expand_iff_nmem, nmem_clipRanges, List.mem_filter, mem_expand_iff_nmem]
  simp

/-! ### `subtractRanges` -/

theorem subtractRanges_spec (as bs : List (Nat × Nat)) (ha : RSorted as) (hb : RSorted bs) :
    RSorted (subtractRanges as bs) ∧
    (∀ x, NMem (subtractRanges as bs) x ↔ NMem as x ∧ ¬ NMem bs x) ∧
    (∀ q ∈ subtractRanges as bs, ∃ p ∈ as, p.1 ≤ q.1 ∧ q.2 ≤ p.2) := by
  fun_induction subtractRanges as bs with
  | case1 bs => exact ⟨rsorted_nil, fun x => by simp [nmem_nil], by simp⟩
  | case2 as hne =>
    refine ⟨ha, fun x => by simp [nmem_nil], fun q hq => ⟨q, hq, Nat.le_refl _, Nat.le_refl _⟩⟩
  | case3 s e as x y bs hgt ih =>
    have ha' := rsorted_cons.1 ha
    simp only at ha'
    omega
  | case4 s e as x y bs hle hlt ih =>
    have hb' := rsorted_cons.1 hb
    obtain ⟨i1, i2, i3⟩ := ih ha hb'.2.2
    refine ⟨i1, fun z => ?_, i3⟩
    rw [i2 z, nmem_cons (p := (x, y))]
    simp only
    constructor
    · rintro ⟨h1, h2⟩
      refine ⟨h1, fun h3 => ?_⟩
      rcases h3 with h3 | h3
      · have := nmem_ge_head ha h1; simp only at this; omega
      · exact h2 h3
    · rintro ⟨h1, h2⟩
      exact ⟨h1, fun h3 => h2 (Or.inr h3)⟩
  | case5 s e as x y bs hle hnlt hlt ih =>
    have ha' := rsorted_cons.1 ha
    have hb' := rsorted_cons.1 hb
    simp only at ha' hb'
    obtain ⟨i1, i2, i3⟩ := ih ha'.2.2 hb
    refine ⟨?_, fun z => ?_, ?_⟩
    · rw [rsorted_cons]
      refine ⟨?_, ha'.2.1, i1⟩
      intro q hq
      obtain ⟨p, hp, h1, h2⟩ := i3 q hq
      have := ha'.1 p hp
      simp only; omega
    · rw [nmem_cons, i2 z, nmem_cons (p := (s, e))]
      simp only
      constructor
      · rintro (h1 | ⟨h1, h2⟩)
        · refine ⟨Or.inl h1, fun h3 => ?_⟩
          have := nmem_ge_head hb h3; simp only at this; omega
        · exact ⟨Or.inr h1, h2⟩
      · rintro ⟨h1 | h1, h2⟩
        · exact Or.inl h1
        · exact Or.inr ⟨h1, h2⟩
    · intro q hq
      simp only [List.mem_cons] at hq
      rcases hq with rfl | hq
      · exact ⟨(s, e), by simp, Nat.le_refl _, Nat.le_refl _⟩
      · obtain ⟨p, hp, h1, h2⟩ := i3 q hq
        exact ⟨p, by simp [hp], h1, h2⟩
  | case6 s e as x y bs hle hnlt1 hnlt2 left hlt ih =>
    have ha' := rsorted_cons.1 ha
    have hb' := rsorted_cons.1 hb
    simp only at ha' hb'
    have ha2 : RSorted ((y + 1, e) :: as) := by
      rw [rsorted_cons]; exact ⟨ha'.1, by simp only; omega, ha'.2.2⟩
    obtain ⟨i1, i2, i3⟩ := ih ha2 hb'.2.2
    -- members of the recursive result are > y
    have hgt : ∀ q ∈ subtractRanges ((y + 1, e) :: as) bs, y < q.1 := by
      intro q hq
      obtain ⟨p, hp, h1, h2⟩ := i3 q hq
      simp only [List.mem_cons] at hp
      rcases hp with rfl | hp
      · simp only at h1; omega
      · have := ha'.1 p hp; omega
    have hmem : ∀ z, NMem ((y + 1, e) :: as) z ∧ ¬ NMem bs z ↔
        (NMem ((s, e) :: as) z ∧ ¬ NMem ((x, y) :: bs) z) ∧ ¬ (s ≤ z ∧ z < x) := by
      intro z
      rw [nmem_cons (p := (y + 1, e)), nmem_cons (p := (s, e)), nmem_cons (p := (x, y))]
      simp only
      constructor
      · rintro ⟨h1 | h1, h2⟩
        · exact ⟨⟨Or.inl (by omega), fun h3 => h3.elim (by omega) h2⟩, by omega⟩
        · obtain ⟨p, hp, h3, h4⟩ := h1
          have := ha'.1 p hp
          exact ⟨⟨Or.inr ⟨p, hp, h3, h4⟩, fun h5 => h5.elim (by omega) h2⟩, by omega⟩
      · rintro ⟨⟨h1 | h1, h2⟩, h3⟩
        · refine ⟨Or.inl ?_, fun h4 => h2 (Or.inr h4)⟩
          have : ¬ (x ≤ z ∧ z ≤ y) := fun h4 => h2 (Or.inl h4)
          omega
        · exact ⟨Or.inr h1, fun h4 => h2 (Or.inr h4)⟩
    rw [show left = (if s < x then [(s, x - 1)] else []) from rfl]
    split
    · rename_i hsx
      refine ⟨?_, fun z => ?_, ?_⟩
      · simp only [List.singleton_append]
        rw [rsorted_cons]
        refine ⟨?_, by simp only; omega, i1⟩
        intro q hq
        have := hgt q hq
        simp only; omega
      · simp only [List.singleton_append]
        rw [nmem_cons, i2 z, hmem z, nmem_cons (p := (s, e)), nmem_cons (p := (x, y))]
        simp only
        constructor
        · rintro (h1 | h1)
          · refine ⟨Or.inl (by omega), fun h3 => ?_⟩
            rcases h3 with h3 | h3
            · omega
            · obtain ⟨p, hp, h4, h5⟩ := h3
              have := hb'.1 p hp; omega
          · exact h1.1
        · rintro ⟨h1, h2⟩
          by_cases hz : s ≤ z ∧ z < x
          · exact Or.inl (by omega)
          · exact Or.inr ⟨⟨h1, h2⟩, hz⟩
      · intro q hq
        simp only [List.singleton_append, List.mem_cons] at hq
        rcases hq with rfl | hq
        · exact ⟨(s, e), by simp, Nat.le_refl _, by simp only; omega⟩
        · obtain ⟨p, hp, h1, h2⟩ := i3 q hq
          simp only [List.mem_cons] at hp
          rcases hp with rfl | hp
          · exact ⟨(s, e), by simp, by simp only at h1 ⊢; omega, h2⟩
          · exact ⟨p, by simp [hp], h1, h2⟩
    · rename_i hsx
      refine ⟨?_, fun z => ?_, ?_⟩
      · simpa using i1
      · simp only [List.nil_append]
        rw [i2 z, hmem z]
        constructor
        · exact fun h => h.1
        · exact fun h => ⟨h, by omega⟩
      · intro q hq
        simp only [List.nil_append] at hq
        obtain ⟨p, hp, h1, h2⟩ := i3 q hq
        simp only [List.mem_cons] at hp
        rcases hp with rfl | hp
        · exact ⟨(s, e), by simp, by simp only at h1 ⊢; omega, h2⟩
        · exact ⟨p, by simp [hp], h1, h2⟩
  | case7 s e as x y bs hle hnlt1 hnlt2 left hnlt3 ih =>
    have ha' := rsorted_cons.1 ha
    have hb' := rsorted_cons.1 hb
    simp only at ha' hb'
    obtain ⟨i1, i2, i3⟩ := ih ha'.2.2 hb
    have hmem : ∀ z, NMem as z ∧ ¬ NMem ((x, y) :: bs) z ↔
        (NMem ((s, e) :: as) z ∧ ¬ NMem ((x, y) :: bs) z) ∧ ¬ (s ≤ z ∧ z < x) := by
      intro z
      rw [nmem_cons (p := (s, e)), nmem_cons (p := (x, y))]
      simp only
      constructor
      · rintro ⟨h1, h2⟩
        obtain ⟨p, hp, h3, h4⟩ := h1
        have := ha'.1 p hp
        exact ⟨⟨Or.inr ⟨p, hp, h3, h4⟩, h2⟩, by omega⟩
      · rintro ⟨⟨h1 | h1, h2⟩, h3⟩
        · have : ¬ (x ≤ z ∧ z ≤ y) := fun h4 => h2 (Or.inl h4)
          omega
        · exact ⟨h1, h2⟩
    have hgt : ∀ q ∈ subtractRanges as ((x, y) :: bs), e < q.1 := by
      intro q hq
      obtain ⟨p, hp, h1, h2⟩ := i3 q hq
      have := ha'.1 p hp; omega
    rw [show left = (if s < x then [(s, x - 1)] else []) from rfl]
    split
    · rename_i hsx
      refine ⟨?_, fun z => ?_, ?_⟩
      · simp only [List.singleton_append]
        rw [rsorted_cons]
        refine ⟨?_, by simp only; omega, i1⟩
        intro q hq
        have := hgt q hq
        simp only; omega
      · simp only [List.singleton_append]
        rw [nmem_cons, i2 z, hmem z, nmem_cons (p := (s, e)), nmem_cons (p := (x, y))]
        simp only
        constructor
        · rintro (h1 | h1)
          · refine ⟨Or.inl (by omega), fun h3 => ?_⟩
            rcases h3 with h3 | h3
            · omega
            · obtain ⟨p, hp, h4, h5⟩ := h3
              have := hb'.1 p hp; omega
          · exact h1.1
        · rintro ⟨h1, h2⟩
          by_cases hz : s ≤ z ∧ z < x
          · exact Or.inl (by omega)
          · exact Or.inr ⟨⟨h1, h2⟩, hz⟩
      · intro q hq
        simp only [List.singleton_append, List.mem_cons] at hq
        rcases hq with rfl | hq
        · exact ⟨(s, e), by simp, Nat.le_refl _, by simp only; omega⟩
        · obtain ⟨p, hp, h1, h2⟩ := i3 q hq
          exact ⟨p, by simp [hp], h1, h2⟩
    · rename_i hsx
      refine ⟨?_, fun z => ?_, ?_⟩
      · simpa using i1
      · simp only [List.nil_append]
        rw [i2 z, hmem z]
        constructor
        · exact fun h => h.1
        · exact fun h => ⟨h, by omega⟩
      · intro q hq
        simp only [List.nil_append] at hq
        obtain ⟨p, hp, h1, h2⟩ := i3 q hq
        exact ⟨p, by simp [hp], h1, h2⟩

end FontVerif.IntSet
