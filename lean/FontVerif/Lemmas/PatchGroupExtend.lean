/-
Lemmas for C19 (extension loop with a failing server, `extendF`): the status map's keys stay
duplicate-free and inside the uri universe, so the number of applied uris — the termination measure
of `round_progress` — is bounded by the size of the universe.
-/
import FontVerif.Lemmas.PatchGroup
set_option linter.unusedVariables false
namespace FontVerif.PatchGroup
open FontVerif FontVerif.PatchMap FontVerif.UriTemplate

/-- pigeonhole: a duplicate-free list inside `U` is not longer than `U` -/
theorem nodup_subset_length {α : Type} [DecidableEq α] : ∀ (U l : List α), l.Nodup → (∀ x, x ∈ l → x ∈ U) →
    l.length ≤ U.length
  | [], l, _, hs => by
    cases l with
    | nil => simp
    | cons x xs => exact absurd (hs x (List.mem_cons_self ..)) (by simp)
  | a :: U, l, hn, hs => by
    by_cases ha : a ∈ l
    · have h1 := nodup_subset_length U (l.erase a) (hn.erase a) (by
        intro x hx
        have := (hn.mem_erase_iff).1 hx
        rcases List.mem_cons.1 (hs x this.2) with rfl | h
        · exact absurd rfl this.1
        · exact h)
      rw [List.length_erase_of_mem ha] at h1
      simp only [List.length_cons]
      have : 0 < l.length := List.length_pos_of_mem ha
      omega
    · have h1 := nodup_subset_length U l hn (by
        intro x hx
        rcases List.mem_cons.1 (hs x hx) with rfl | h
        · exact absurd hx ha
        · exact h)
      simp only [List.length_cons]; omega

/-- the status map has unique keys, all of them uris of the universe -/
def PdOk (U : List Uri) (pd : PatchData) : Prop :=
  (pd.map (·.1)).Nodup ∧ ∀ k, k ∈ pd.map (·.1) → k ∈ U

theorem PdOk.nil (U : List Uri) : PdOk U [] := ⟨by simp, by simp⟩

theorem appliedCount_le (U : List Uri) (pd : PatchData) (h : PdOk U pd) : appliedCount pd ≤ U.length := by
  have h1 : appliedCount pd ≤ pd.length := by
    unfold appliedCount; exact List.length_filter_le _ _
  have h2 := nodup_subset_length U (pd.map (·.1)) h.1 h.2
  simp only [List.length_map] at h2
  omega

theorem pdGet_none_iff (pd : PatchData) (u : Uri) : pdGet pd u = none ↔ u ∉ pd.map (·.1) := by
  induction pd with
  | nil => simp [pdGet]
  | cons x xs ih =>
    obtain ⟨k, v⟩ := x
    simp only [pdGet, List.map_cons, List.mem_cons, not_or]
    split
    · next hk => subst hk; simp
    · next hk => rw [ih]; constructor
                 · intro h; exact ⟨fun e => hk e.symm, h⟩
                 · intro h; exact h.2

theorem fetchMissingOpt_spec (fetch : Uri → Option (List Nat)) (U : List Uri) :
    ∀ (uris : List Uri) (pd pd1 : PatchData), (∀ u, u ∈ uris → u ∈ U) → PdOk U pd →
      fetchMissingOpt fetch pd uris = some pd1 → PdOk U pd1 ∧ appliedCount pd1 = appliedCount pd
  | [], pd, pd1, _, hok, h => by simp only [fetchMissingOpt] at h; cases h; exact ⟨hok, rfl⟩
  | u :: us, pd, pd1, hu, hok, h => by
    have hus : ∀ x, x ∈ us → x ∈ U := fun x hx => hu x (List.mem_cons_of_mem _ hx)
    simp only [fetchMissingOpt] at h
    split at h
    · exact fetchMissingOpt_spec fetch U us pd pd1 hus hok h
    · next hnone =>
      split at h
      · cases h
      · next data _ =>
        have hnot := (pdGet_none_iff pd u).1 hnone
        have hok' : PdOk U (pd ++ [(u, .pending data)]) := by
          constructor
          · simp only [List.map_append, List.map_cons, List.map_nil]
            rw [List.nodup_append]
            refine ⟨hok.1, by simp, ?_⟩
            intro a ha b hb hab
            simp only [List.mem_singleton] at hb
            subst hb; subst hab
            exact hnot ha
          · intro k hk
            simp only [List.map_append, List.map_cons, List.map_nil, List.mem_append,
              List.mem_singleton] at hk
            rcases hk with hk | rfl
            · exact hok.2 k hk
            · exact hu _ (List.mem_cons_self ..)
        obtain ⟨r1, r2⟩ := fetchMissingOpt_spec fetch U us _ pd1 hus hok' h
        exact ⟨r1, by rw [r2, count_append_pending]⟩

theorem fetchMissingOpt_none (fetch : Uri → Option (List Nat)) :
    ∀ (uris : List Uri) (pd : PatchData) (u : Uri), u ∈ uris → pdGet pd u = none → fetch u = none →
      fetchMissingOpt fetch pd uris = none
  | [], pd, u, hu, _, _ => by cases hu
  | x :: xs, pd, u, hu, hget, hf => by
    simp only [fetchMissingOpt]
    by_cases hxu : x = u
    · subst hxu; rw [hget]; simp [hf]
    · have hmem : u ∈ xs := by
        rcases List.mem_cons.1 hu with h | h
        · exact absurd h.symm hxu
        · exact h
      split
      · exact fetchMissingOpt_none fetch xs pd u hmem hget hf
      · split
        · rfl
        · next data _ =>
          apply fetchMissingOpt_none fetch xs _ u hmem _ hf
          rw [pdGet_none_iff] at hget ⊢
          simp only [List.map_append, List.map_cons, List.map_nil, List.mem_append, List.mem_singleton,
            not_or]
          exact ⟨hget, fun e => hxu e.symm⟩

theorem pdSetApplied_keys (pd : PatchData) (u : Uri) : (pdSetApplied pd u).map (·.1) = pd.map (·.1) := by
  unfold pdSetApplied
  rw [List.map_map]
  apply List.map_congr_left
  intro p _
  simp only [Function.comp]
  split <;> rfl

theorem fold_setApplied_keys (ps : List PatchInfo) : ∀ pd : PatchData,
    (ps.foldl (fun (pd : PatchData) (p : PatchInfo) => pdSetApplied pd p.uri) pd).map (·.1) = pd.map (·.1) := by
  induction ps with
  | nil => intro pd; rfl
  | cons p ps ih => intro pd; rw [List.foldl_cons, ih, pdSetApplied_keys]

/-- a successful round keeps the keys of the status map, and its font is the result of one of the two
application functions -/
theorem applyNext_keys {F : Type} (g : Option Group)
    (applyTk : PatchInfo → List Nat → Except String F)
    (applyGk : List (PatchInfo × List Nat) → Except String F)
    (pd pd' : PatchData) (f : F) (h : applyNext g applyTk applyGk pd = .ok (f, pd')) :
    pd'.map (·.1) = pd.map (·.1) ∧
    ((∃ p data, applyTk p data = .ok f) ∨ (∃ acc, applyGk acc = .ok f)) := by
  have hrest : ∀ (nonInv : List PatchInfo),
      (match accumulate pd nonInv with
        | none => (Except.error "err:MissingPatches" : Except String (F × PatchData))
        | some acc =>
          if acc.isEmpty then .error "err:EmptyPatchList" else
          match applyGk acc with
          | .error e => .error e
          | .ok f => .ok (f, nonInv.foldl (fun (pd : PatchData) (p : PatchInfo) => pdSetApplied pd p.uri) pd)) = .ok (f, pd') →
      pd'.map (·.1) = pd.map (·.1) ∧ ∃ acc, applyGk acc = .ok f := by
    intro nonInv h
    split at h
    · cases h
    · next acc _ =>
      split at h
      · cases h
      · split at h
        · cases h
        · next f' hf =>
          cases h
          exact ⟨fold_setApplied_keys _ _, acc, hf⟩
  unfold applyNext at h
  simp only [] at h
  split at h
  · next p hp =>
    split at h
    · cases h
    · next data hd =>
      split at h
      · cases h
      · next f' hf =>
        cases h
        exact ⟨pdSetApplied_keys _ _, Or.inl ⟨p, data, hf⟩⟩
    · obtain ⟨h1, h2⟩ := hrest _ h
      exact ⟨h1, Or.inr h2⟩
  · obtain ⟨h1, h2⟩ := hrest _ h
    exact ⟨h1, Or.inr h2⟩

/-- **the loop ends**: starting from an invariant font and a well-formed status map, with more fuel than
uris that can still become applied, `extendF` never runs out of fuel; it ends `done` (with a font
whose selection has no uris) or `failed`, after at most as many further rounds as uris of the
universe that were not yet applied -/
theorem extendF_bounded {F : Type} (select : F → Except String (Option Group))
    (applyTk : F → PatchInfo → List Nat → Except String F)
    (applyGk : F → List (PatchInfo × List Nat) → Except String F)
    (fetch : Uri → Option (List Nat)) (Inv : F → Prop) (U : List Uri)
    (hTk : ∀ f p data f', Inv f → applyTk f p data = .ok f' → Inv f')
    (hGk : ∀ f acc f', Inv f → applyGk f acc = .ok f' → Inv f')
    (hU : ∀ f g, Inv f → select f = .ok g → ∀ u, u ∈ optUris g → u ∈ U) :
    ∀ (fuel rounds : Nat) (font : F) (pd : PatchData), Inv font → PdOk U pd →
      U.length < appliedCount pd + fuel →
      match extendF select applyTk applyGk fetch fuel rounds font pd with
      | .done f' pd' r => r + appliedCount pd ≤ rounds + U.length ∧ Inv f' ∧ PdOk U pd' ∧
          ∃ g, select f' = .ok g ∧ hasUris g = false
      | .failed _ r => r + appliedCount pd ≤ rounds + U.length
      | .outOfFuel _ _ => False := by
  intro fuel
  induction fuel with
  | zero =>
    intro rounds font pd _ hpd hf
    have := appliedCount_le U pd hpd
    omega
  | succ n ih =>
    intro rounds font pd hinv hpd hf
    have hle := appliedCount_le U pd hpd
    simp only [extendF]
    cases hs : select font with
    | error e => simp only []; omega
    | ok g =>
      simp only []
      by_cases hh : (!hasUris g) = true
      · simp only [hh, if_true]
        exact ⟨by omega, hinv, hpd, g, hs, by simpa using hh⟩
      · simp only [hh, Bool.false_eq_true, if_false]
        cases hfm : fetchMissingOpt fetch pd (optUris g) with
        | none => simp only []; omega
        | some pd1 =>
          simp only []
          obtain ⟨hpd1, hc1⟩ := fetchMissingOpt_spec fetch U _ pd pd1 (hU font g hinv hs) hpd hfm
          cases happ : applyNext g (applyTk font) (applyGk font) pd1 with
          | error e => simp only []; omega
          | ok r =>
            obtain ⟨font', pd'⟩ := r
            simp only []
            have hp := (applyNext_progress g (applyTk font) (applyGk font) _ pd' font' happ).2.2
            obtain ⟨hk, hfont⟩ := applyNext_keys g (applyTk font) (applyGk font) _ pd' font' happ
            have hpd' : PdOk U pd' := by unfold PdOk; rw [hk]; exact hpd1
            have hinv' : Inv font' := by
              rcases hfont with ⟨p, data, h⟩ | ⟨acc, h⟩
              · exact hTk font p data font' hinv h
              · exact hGk font acc font' hinv h
            have hle' := appliedCount_le U pd' hpd'
            have := ih (rounds + 1) font' pd' hinv' hpd' (by omega)
            cases hr : extendF select applyTk applyGk fetch n (rounds + 1) font' pd' with
            | done f2 pd2 r2 =>
              simp only [hr] at this ⊢
              exact ⟨by omega, this.2⟩
            | failed e r2 => simp only [hr] at this ⊢; omega
            | outOfFuel f2 pd2 => simp only [hr] at this

end FontVerif.PatchGroup
