/-
Helper lemmas for C08 (Model/Cmap.lean): the shared binary search, format 12 grouping and reading.
-/
import FontVerif.Model.Cmap
set_option linter.unusedVariables false
namespace FontVerif.Cmap
open FontVerif

/-! ## the binary search shared by `Cmap4::map_codepoint` and `Cmap12::map_codepoint` -/

/-- ascending, pairwise disjoint inclusive ranges `[s i, e i]`, `i < n` -/
structure RangesSorted (s e : Nat → Nat) (n : Nat) : Prop where
  le : ∀ i, i < n → s i ≤ e i
  lt : ∀ i j, i < j → j < n → e i < s j

theorem segSearch_inv (startAt endAt : Nat → Option Nat) (s e : Nat → Nat) (n c : Nat)
    (hs : ∀ i, i < n → startAt i = some (s i)) (he : ∀ i, i < n → endAt i = some (e i))
    (H : RangesSorted s e n) :
    ∀ fuel lo hi, lo ≤ hi → hi ≤ n → hi - lo < fuel →
      (∀ j, j < lo → e j < c) → (∀ j, hi ≤ j → j < n → c < s j) →
      (∀ i, lo ≤ i → i < hi → s i ≤ c → c ≤ e i → segSearch startAt endAt c fuel lo hi = some i) ∧
      ((∀ i, lo ≤ i → i < hi → ¬ (s i ≤ c ∧ c ≤ e i)) → segSearch startAt endAt c fuel lo hi = none) := by
  intro fuel
  induction fuel with
  | zero => intro lo hi _ _ h; omega
  | succ f ih =>
    intro lo hi hlh hhn hf hlo hhi
    by_cases hlt : lo < hi
    · have hmid : (lo + hi) / 2 < hi := by omega
      have hmid' : lo ≤ (lo + hi) / 2 := by omega
      have hmn : (lo + hi) / 2 < n := by omega
      unfold segSearch
      simp only [hlt, if_true, hs _ hmn, he _ hmn]
      by_cases h1 : c < s ((lo + hi) / 2)
      · simp only [h1, if_true]
        have hhi' : ∀ j, (lo + hi) / 2 ≤ j → j < n → c < s j := by
          intro j hj hjn
          by_cases hj' : j = (lo + hi) / 2
          · subst hj'; exact h1
          · have := H.lt ((lo + hi) / 2) j (by omega) hjn
            have := H.le _ hmn
            omega
        have := ih lo ((lo + hi) / 2) hmid' (by omega) (by omega) hlo hhi'
        refine ⟨fun i hi1 hi2 hsi hei => ?_, fun hno => ?_⟩
        · by_cases hi3 : i < (lo + hi) / 2
          · exact this.1 i hi1 hi3 hsi hei
          · have := hhi' i (by omega) (by omega); omega
        · exact this.2 (fun i hi1 hi2 => hno i hi1 (by omega))
      · simp only [h1, if_false]
        by_cases h2 : c > e ((lo + hi) / 2)
        · simp only [h2, if_true]
          have hlo' : ∀ j, j < (lo + hi) / 2 + 1 → e j < c := by
            intro j hj
            by_cases hj' : j = (lo + hi) / 2
            · subst hj'; exact h2
            · have := H.lt j ((lo + hi) / 2) (by omega) hmn
              have := H.le _ hmn
              omega
          have := ih ((lo + hi) / 2 + 1) hi (by omega) hhn (by omega) hlo' hhi
          refine ⟨fun i hi1 hi2 hsi hei => ?_, fun hno => ?_⟩
          · by_cases hi3 : (lo + hi) / 2 + 1 ≤ i
            · exact this.1 i hi3 hi2 hsi hei
            · have := hlo' i (by omega); omega
          · exact this.2 (fun i hi1 hi2 => hno i (by omega) hi2)
        · simp only [h2, if_false]
          refine ⟨fun i hi1 hi2 hsi hei => ?_, fun hno => ?_⟩
          · by_cases hi3 : i = (lo + hi) / 2
            · rw [hi3]
            · exfalso
              by_cases hi4 : i < (lo + hi) / 2
              · have := H.lt i _ hi4 hmn; omega
              · have := H.lt ((lo + hi) / 2) i (by omega) (by omega); omega
          · exact absurd ⟨by omega, by omega⟩ (hno _ hmid' hmid)
    · have : lo = hi := by omega
      subst this
      unfold segSearch
      simp only [Nat.lt_irrefl, if_false]
      exact ⟨fun i h1 h2 => by omega, fun _ => trivial⟩

/-- the search finds the (unique) range containing `c` … -/
theorem segSearch_found (startAt endAt : Nat → Option Nat) (s e : Nat → Nat) (n c i : Nat)
    (hs : ∀ i, i < n → startAt i = some (s i)) (he : ∀ i, i < n → endAt i = some (e i))
    (H : RangesSorted s e n) (hi : i < n) (h1 : s i ≤ c) (h2 : c ≤ e i) :
    segSearch startAt endAt c (n + 1) 0 n = some i :=
  (segSearch_inv startAt endAt s e n c hs he H (n + 1) 0 n (Nat.zero_le _) (Nat.le_refl _) (by omega)
    (fun j h => by omega) (fun j h1 h2 => by omega)).1 i (Nat.zero_le _) hi h1 h2

/-- … and answers `none` when there is none -/
theorem segSearch_none (startAt endAt : Nat → Option Nat) (s e : Nat → Nat) (n c : Nat)
    (hs : ∀ i, i < n → startAt i = some (s i)) (he : ∀ i, i < n → endAt i = some (e i))
    (H : RangesSorted s e n) (hno : ∀ i, i < n → ¬ (s i ≤ c ∧ c ≤ e i)) :
    segSearch startAt endAt c (n + 1) 0 n = none :=
  (segSearch_inv startAt endAt s e n c hs he H (n + 1) 0 n (Nat.zero_le _) (Nat.le_refl _) (by omega)
    (fun j h => by omega) (fun j h1 h2 => by omega)).2 (fun i _ h => hno i h)

/-! ## format 12: what a list of groups means -/

/-- the pairs a `SequentialMapGroup` stands for -/
def expandGroup (g : Group) : Mapping :=
  (List.range' g.1 (g.2.1 + 1 - g.1)).map (fun c => (c, g.2.2 + (c - g.1)))

def expandGroups (gs : List Group) : Mapping := gs.flatMap expandGroup

/-- groups are well formed (`start ≤ end`), ascending and disjoint, all at or above `lb` -/
def GroupsOk : Nat → List Group → Prop
  | _, [] => True
  | lb, g :: rest => lb ≤ g.1 ∧ g.1 ≤ g.2.1 ∧ GroupsOk (g.2.1 + 1) rest

/-- nothing wraps in 32 bits -/
def GroupsBounded (gs : List Group) : Prop :=
  ∀ g ∈ gs, g.2.1 < 4294967296 ∧ g.2.2 + (g.2.1 - g.1) < 4294967296

theorem mem_expandGroup (g : Group) (c v : Nat) :
    (c, v) ∈ expandGroup g ↔ g.1 ≤ c ∧ c ≤ g.2.1 ∧ v = g.2.2 + (c - g.1) := by
  unfold expandGroup
  simp only [List.mem_map, List.mem_range'_1, Prod.mk.injEq]
  constructor
  · rintro ⟨a, ⟨h1, h2⟩, rfl, rfl⟩
    exact ⟨h1, by omega, rfl⟩
  · rintro ⟨h1, h2, rfl⟩
    exact ⟨c, ⟨h1, by omega⟩, rfl, rfl⟩

theorem mem_expandGroups (gs : List Group) (c v : Nat) :
    (c, v) ∈ expandGroups gs ↔ ∃ g ∈ gs, g.1 ≤ c ∧ c ≤ g.2.1 ∧ v = g.2.2 + (c - g.1) := by
  unfold expandGroups
  simp only [List.mem_flatMap, mem_expandGroup]

def sAt (gs : List Group) (i : Nat) : Nat := (gs[i]?.getD (0, 0, 0)).1
def eAt (gs : List Group) (i : Nat) : Nat := (gs[i]?.getD (0, 0, 0)).2.1

theorem GroupsOk.sorted : ∀ (gs : List Group) (lb : Nat), GroupsOk lb gs →
    (∀ i, i < gs.length → lb ≤ sAt gs i) ∧ RangesSorted (sAt gs) (eAt gs) gs.length := by
  intro gs
  induction gs with
  | nil => intro lb _; exact ⟨fun i h => by simp at h, ⟨fun i h => by simp at h, fun i j _ h => by simp at h⟩⟩
  | cons g rest ih =>
    intro lb h
    obtain ⟨h1, h2, h3⟩ := h
    obtain ⟨ih1, ih2⟩ := ih _ h3
    refine ⟨?_, ⟨?_, ?_⟩⟩
    · intro i hi
      cases i with
      | zero => simpa [sAt] using h1
      | succ k =>
        have := ih1 k (by simpa using hi)
        simp only [sAt, List.getElem?_cons_succ] at this ⊢
        omega
    · intro i hi
      cases i with
      | zero => simpa [sAt, eAt] using h2
      | succ k =>
        have := ih2.le k (by simpa using hi)
        simpa [sAt, eAt] using this
    · intro i j hij hj
      cases j with
      | zero => omega
      | succ j' =>
        have hj' : j' < rest.length := by simpa using hj
        cases i with
        | zero =>
          have := ih1 j' hj'
          simp only [sAt, eAt, List.getElem?_cons_succ, List.getElem?_cons_zero, Option.getD_some] at this ⊢
          omega
        | succ i' =>
          have := ih2.lt i' j' (by omega) hj'
          simpa [sAt, eAt] using this

/-- `Cmap12::map_codepoint` on well-formed groups answers exactly the pairs the groups stand for -/
theorem map12_iff (gs : List Group) (lb : Nat) (hok : GroupsOk lb gs) (hb : GroupsBounded gs)
    (c v : Nat) (hc : c < 4294967296) :
    map12 gs.toArray c = some v ↔ (c, v) ∈ expandGroups gs := by
  obtain ⟨_, hsorted⟩ := hok.sorted
  have hs : ∀ i, i < gs.length → (fun i => (gs.toArray[i]?).map (·.1)) i = some (sAt gs i) := by
    intro i hi
    simp [sAt, List.getElem?_eq_getElem hi]
  have he : ∀ i, i < gs.length → (fun i => (gs.toArray[i]?).map (·.2.1)) i = some (eAt gs i) := by
    intro i hi
    simp [eAt, List.getElem?_eq_getElem hi]
  rw [mem_expandGroups]
  unfold map12
  simp only [List.size_toArray]
  by_cases hex : ∃ i, i < gs.length ∧ sAt gs i ≤ c ∧ c ≤ eAt gs i
  · obtain ⟨i, hi, h1, h2⟩ := hex
    rw [segSearch_found _ _ (sAt gs) (eAt gs) gs.length c i hs he hsorted hi h1 h2]
    have hgi : gs.toArray[i]? = some gs[i] := by simp [List.getElem?_eq_getElem hi]
    simp only [hgi]
    have hmem : gs[i] ∈ gs := List.getElem_mem hi
    have hbi := hb _ hmem
    simp only [sAt, eAt, List.getElem?_eq_getElem hi, Option.getD_some] at h1 h2
    have hl : lookup12 c gs[i].1 gs[i].2.2 = gs[i].2.2 + (c - gs[i].1) := by
      unfold lookup12; omega
    constructor
    · intro h
      refine ⟨gs[i], hmem, h1, h2, ?_⟩
      have : lookup12 c gs[i].1 gs[i].2.2 = v := by simpa using h
      omega
    · rintro ⟨g, hg, hg1, hg2, rfl⟩
      -- the containing group is unique
      obtain ⟨j, hj, rfl⟩ := List.getElem_of_mem hg
      have hij : i = j := by
        by_cases hlt : i < j
        · have := hsorted.lt i j hlt hj
          simp only [sAt, eAt, List.getElem?_eq_getElem hi, List.getElem?_eq_getElem hj, Option.getD_some] at this
          omega
        · by_cases hgt : j < i
          · have := hsorted.lt j i hgt hi
            simp only [sAt, eAt, List.getElem?_eq_getElem hi, List.getElem?_eq_getElem hj, Option.getD_some] at this
            omega
          · omega
      subst hij
      simp [hl]
  · have hno : ∀ i, i < gs.length → ¬ (sAt gs i ≤ c ∧ c ≤ eAt gs i) := fun i hi h => hex ⟨i, hi, h⟩
    rw [segSearch_none _ _ (sAt gs) (eAt gs) gs.length c hs he hsorted hno]
    constructor
    · intro h; cases h
    · rintro ⟨g, hg, hg1, hg2, _⟩
      obtain ⟨j, hj, rfl⟩ := List.getElem_of_mem hg
      exact absurd ⟨by simpa [sAt, List.getElem?_eq_getElem hj] using hg1,
        by simpa [eAt, List.getElem?_eq_getElem hj] using hg2⟩ (hno j hj)


/-! ## format 12: the iterator on well-formed groups -/

theorem iter12Seg_eq (s e g : Nat) (h1 : e < 4294967296) (h2 : g + (e - s) < 4294967296) :
    iter12Seg s (e + 1) s g = expandGroup (s, e, g) := by
  unfold iter12Seg expandGroup
  apply List.map_congr_left
  intro c hc
  rw [List.mem_range'_1] at hc
  have hc' : c % 4294967296 = c := by omega
  simp only [hc', lookup12, Prod.mk.injEq, true_and]
  omega

theorem iter12From_eq (gs : List Group) (hb : GroupsBounded gs) :
    ∀ fuel ix curEnd, gs.length - ix ≤ fuel → GroupsOk curEnd (gs.drop ix) →
      iter12From gs.toArray none fuel ix curEnd = expandGroups (gs.drop ix) := by
  intro fuel
  induction fuel with
  | zero =>
    intro ix curEnd h _
    have : gs.drop ix = [] := List.drop_eq_nil_of_le (by omega)
    simp [iter12From, this, expandGroups]
  | succ f ih =>
    intro ix curEnd h hok
    by_cases hix : ix < gs.length
    · rw [List.drop_eq_getElem_cons hix] at hok ⊢
      obtain ⟨h1, h2, h3⟩ := hok
      have hbi := hb _ (List.getElem_mem hix)
      unfold iter12From
      simp only [group12, List.getElem?_toArray, List.getElem?_eq_getElem hix]
      have : ¬ (gs[ix].1 < curEnd) := by omega
      simp only [this, if_false]
      rw [ih (ix + 1) (gs[ix].2.1 + 1) (by omega) h3]
      rw [iter12Seg_eq _ _ _ hbi.1 hbi.2]
      simp only [expandGroups, List.flatMap_cons]
    · have : gs.drop ix = [] := List.drop_eq_nil_of_le (by omega)
      have hnone : gs.toArray[ix]? = none := by simp; omega
      unfold iter12From
      simp [group12, hnone, this, expandGroups]

/-- `Cmap12::iter()` on well-formed groups yields exactly the pairs the groups stand for, in order -/
theorem iter12_eq (gs : List Group) (lb : Nat) (hok : GroupsOk lb gs) (hb : GroupsBounded gs) :
    iter12 gs.toArray none = expandGroups gs := by
  cases gs with
  | nil => simp [iter12, group12, expandGroups]
  | cons g rest =>
    obtain ⟨h1, h2, h3⟩ := hok
    have hbi := hb g (List.mem_cons_self ..)
    have := iter12From_eq (g :: rest) hb (rest.length + 1) 1 (g.2.1 + 1) (by simp) (by simpa using h3)
    unfold iter12
    simp only [group12, List.getElem?_toArray, List.getElem?_cons_zero, List.size_toArray, List.length_cons]
    rw [this, iter12Seg_eq _ _ _ hbi.1 hbi.2]
    simp [expandGroups]

/-! ## format 12: the writer (`create_format_12`) -/

/-- all code points and glyph ids fit 32 bits with room for `+ 1` -/
def Small (m : Mapping) : Prop := ∀ p ∈ m, p.1 < 4294967295 ∧ p.2 < 4294967295

theorem groups12Go_expand : ∀ (rest : Mapping) (sc sg lc lg : Nat), Small rest →
    sc ≤ lc → lg = sg + (lc - sc) → lc < 4294967295 → lg < 4294967295 →
    expandGroups (groups12Go sc sg lc lg rest) = expandGroup (sc, lc, sg) ++ rest := by
  intro rest
  induction rest with
  | nil => intro sc sg lc lg _ _ _ _ _; simp [groups12Go, expandGroups]
  | cons p rest ih =>
    intro sc sg lc lg hsm h1 h2 h3 h4
    obtain ⟨c, g⟩ := p
    have hp := hsm (c, g) (List.mem_cons_self ..)
    have hsm' : Small rest := fun q hq => hsm q (List.mem_cons_of_mem _ hq)
    have e1 : (lg + 1) % 4294967296 = lg + 1 := by omega
    have e2 : (lc + 1) % 4294967296 = lc + 1 := by omega
    unfold groups12Go
    simp only [e1, e2]
    by_cases hsplit : g ≠ lg + 1 ∨ c ≠ lc + 1
    · simp only [hsplit, if_true]
      have := ih c g c g hsm' (Nat.le_refl _) (by omega) hp.1 hp.2
      simp only [expandGroups, List.flatMap_cons] at this ⊢
      rw [this]
      simp [expandGroup]
    · simp only [hsplit, if_false]
      have hg : g = lg + 1 := by omega
      have hc : c = lc + 1 := by omega
      subst hg hc
      rw [ih sc sg (lc + 1) (lg + 1) hsm' (by omega) (by omega) hp.1 hp.2]
      unfold expandGroup
      simp only
      have : lc + 1 + 1 - sc = (lc + 1 - sc) + 1 := by omega
      rw [this, List.range'_concat]
      simp only [List.map_append, List.map_cons, List.map_nil, Nat.one_mul, List.append_assoc,
        List.cons_append, List.nil_append]
      congr 3
      · omega
      · omega

/-- strictly ascending code points, all above `lb` -/
def AscFrom : Nat → Mapping → Prop
  | _, [] => True
  | lb, p :: rest => lb ≤ p.1 ∧ AscFrom (p.1 + 1) rest

theorem groups12Go_ok : ∀ (rest : Mapping) (lb sc sg lc lg : Nat),
    lb ≤ sc → sc ≤ lc → AscFrom (lc + 1) rest → Small rest → lc < 4294967295 →
    GroupsOk lb (groups12Go sc sg lc lg rest) := by
  intro rest
  induction rest with
  | nil => intro lb sc sg lc lg h1 h2 _ _ _; exact ⟨h1, h2, trivial⟩
  | cons p rest ih =>
    intro lb sc sg lc lg h1 h2 hasc hsm h3
    obtain ⟨c, g⟩ := p
    have hp := hsm (c, g) (List.mem_cons_self ..)
    have hsm' : Small rest := fun q hq => hsm q (List.mem_cons_of_mem _ hq)
    obtain ⟨ha1, ha2⟩ := hasc
    unfold groups12Go
    split
    · exact ⟨h1, h2, ih (lc + 1) c g c g ha1 (Nat.le_refl _) ha2 hsm' hp.1⟩
    · exact ih lb sc sg c g h1 (by simp at ha1; omega) ha2 hsm' hp.1

/-- `create_format_12` on a non-empty ascending mapping: well-formed groups that stand for the mapping -/
theorem createFormat12_spec (m : Mapping) (lb : Nat) (hne : m ≠ []) (hasc : AscFrom lb m) (hsm : Small m) :
    ∃ gs, createFormat12 m = some gs ∧ GroupsOk lb gs ∧ expandGroups gs = m := by
  cases m with
  | nil => exact absurd rfl hne
  | cons p rest =>
    obtain ⟨c, g⟩ := p
    have hp := hsm (c, g) (List.mem_cons_self ..)
    have hsm' : Small rest := fun q hq => hsm q (List.mem_cons_of_mem _ hq)
    obtain ⟨ha1, ha2⟩ := hasc
    refine ⟨_, rfl, ?_, ?_⟩
    · -- first loop iteration: never a split
      have e1 : ((g + 4294967295) % 4294967296 + 1) % 4294967296 = g := by omega
      have e2 : ((c + 4294967295) % 4294967296 + 1) % 4294967296 = c := by omega
      rw [groups12Go]
      simp only [e1, e2, ne_eq, not_true_eq_false, or_self, if_false]
      exact groups12Go_ok rest lb c g c g ha1 (Nat.le_refl _) ha2 hsm' hp.1
    · have e1 : ((g + 4294967295) % 4294967296 + 1) % 4294967296 = g := by omega
      have e2 : ((c + 4294967295) % 4294967296 + 1) % 4294967296 = c := by omega
      rw [groups12Go]
      simp only [e1, e2, ne_eq, not_true_eq_false, or_self, if_false]
      rw [groups12Go_expand rest c g c g hsm' (Nat.le_refl _) (by omega) hp.1 hp.2]
      simp [expandGroup]

/-- the groups `create_format_12` produces never wrap -/
theorem groupsBounded_of_expand (gs : List Group) (lb : Nat) (hok : GroupsOk lb gs)
    (hsm : Small (expandGroups gs)) : GroupsBounded gs := by
  intro g hg
  have hle : g.1 ≤ g.2.1 := by
    clear hsm
    induction gs generalizing lb with
    | nil => cases hg
    | cons a rest ih =>
      obtain ⟨h1, h2, h3⟩ := hok
      cases hg with
      | head => exact h2
      | tail _ h => exact ih _ h3 h
  have hmem : (g.2.1, g.2.2 + (g.2.1 - g.1)) ∈ expandGroups gs :=
    (mem_expandGroups gs _ _).2 ⟨g, hg, hle, Nat.le_refl _, rfl⟩
  have := hsm _ hmem
  simp only at this
  omega

/-! ## the domain of the property -/

/-- strictly ascending code points: what `from_mappings` hands to the subtable builders for a
conflict-free input (sorted, deduplicated, each character once) -/
def Ascending (m : Mapping) : Prop := m.Pairwise (fun a b => a.1 < b.1)

/-- a conflict-free mapping in the property's domain: Unicode scalar range, U+FFFF excepted,
glyph ids non-zero and 16 bit -/
structure InDomain (m : Mapping) : Prop where
  asc : Ascending m
  cp : ∀ p ∈ m, p.1 ≤ 0x10FFFF ∧ p.1 ≠ 0xFFFF
  gid : ∀ p ∈ m, 1 ≤ p.2 ∧ p.2 ≤ 0xFFFF

theorem Ascending.ascFrom : ∀ (m : Mapping) (lb : Nat), Ascending m → (∀ p ∈ m, lb ≤ p.1) → AscFrom lb m := by
  intro m
  induction m with
  | nil => intro _ _ _; trivial
  | cons p rest ih =>
    intro lb h hlb
    have h' := List.pairwise_cons.1 h
    exact ⟨hlb p (List.mem_cons_self ..), ih _ h'.2 (fun q hq => h'.1 q hq)⟩

theorem InDomain.small {m : Mapping} (h : InDomain m) : Small m := by
  intro p hp
  have := h.cp p hp
  have := h.gid p hp
  omega


/-! ## the bounded enumeration used by the driver is a prefix of the full one -/

theorem take_range' (s m n : Nat) : (List.range' s m).take n = List.range' s (min m n) := by
  induction m generalizing s n with
  | zero => simp
  | succ m ih =>
    cases n with
    | zero => simp
    | succ n =>
      rw [List.range'_succ, List.take_succ_cons, ih]
      have : min (m + 1) (n + 1) = min m n + 1 := by omega
      rw [this, List.range'_succ]

theorem iter12SegN_eq (lo hi s g n : Nat) : iter12SegN lo hi s g n = (iter12Seg lo hi s g).take n := by
  unfold iter12SegN iter12Seg
  rw [← List.map_take, take_range']

theorem iter12Seg_length (lo hi s g : Nat) : (iter12Seg lo hi s g).length = hi - lo := by
  simp [iter12Seg]

theorem iter12FromN_eq (gs : Array Group) (limits : Limits) :
    ∀ fuel ix curEnd n, iter12FromN gs limits fuel ix curEnd n = (iter12From gs limits fuel ix curEnd).take n := by
  intro fuel
  induction fuel with
  | zero => intro ix curEnd n; simp [iter12FromN, iter12From]
  | succ f ih =>
    intro ix curEnd n
    unfold iter12FromN iter12From
    cases group12 gs ix limits with
    | none => simp
    | some r =>
      obtain ⟨lo, hi, s, g⟩ := r
      simp only
      rw [List.take_append, iter12Seg_length, iter12SegN_eq, ih]
      congr 2
      omega

/-- `iter12N` (what the driver prints for arbitrary, possibly huge, groups) is the first `n` items
of `iter12` (what the theorems are about) -/
theorem iter12N_eq_take (gs : Array Group) (limits : Limits) (n : Nat) :
    iter12N gs limits n = (iter12 gs limits).take n := by
  unfold iter12N iter12
  cases group12 gs 0 limits with
  | none => simp
  | some r =>
    obtain ⟨lo, hi, s, g⟩ := r
    simp only
    rw [List.take_append, iter12Seg_length, iter12SegN_eq, iter12FromN_eq]
    congr 2
    omega

end FontVerif.Cmap
