/- helper lemmas about Model/ToPath.lean -/
import FontVerif.Model.ToPath
namespace FontVerif.ToPath

/-- one contour's worth of pen calls: `Move Seg* Close` -/
def IsContour (l : List Cmd) : Prop :=
  ∃ x y segs, l = Cmd.move x y :: (segs ++ [Cmd.close]) ∧ segs.all Cmd.isSeg = true

/-- `(Move Seg* Close)*` as an inductive predicate -/
inductive Grammar : List Cmd → Prop
  | nil : Grammar []
  | contour (c rest : List Cmd) : IsContour c → Grammar rest → Grammar (c ++ rest)

theorem wf_segs (segs r : List Cmd) (h : segs.all Cmd.isSeg = true) :
    wellFormedGo true (segs ++ Cmd.close :: r) = wellFormedGo false r := by
  induction segs with
  | nil => simp [wellFormedGo]
  | cons c cs ih =>
    simp only [List.all_cons, Bool.and_eq_true] at h
    cases c <;> simp_all [wellFormedGo, Cmd.isSeg]

theorem wf_block (l r : List Cmd) (h : IsContour l) :
    wellFormedGo false (l ++ r) = wellFormedGo false r := by
  obtain ⟨x, y, segs, rfl, hs⟩ := h
  simp only [List.cons_append, List.append_assoc, List.singleton_append, wellFormedGo]
  exact wf_segs segs r hs

theorem grammar_wellFormed (l : List Cmd) (h : Grammar l) : wellFormed l = true := by
  induction h with
  | nil => rfl
  | contour c rest hc _ ih => unfold wellFormed at *; rw [wf_block c rest hc]; exact ih

/-- splitting an open contour at its `close` -/
theorem wf_true_split : ∀ (l : List Cmd), wellFormedGo true l = true →
    ∃ segs r, l = segs ++ Cmd.close :: r ∧ segs.all Cmd.isSeg = true ∧ wellFormedGo false r = true := by
  intro l
  induction l with
  | nil => intro h; simp [wellFormedGo] at h
  | cons c cs ih =>
    intro h
    cases c with
    | close => exact ⟨[], cs, by simp, by simp, by simpa [wellFormedGo] using h⟩
    | move x y => simp [wellFormedGo, Cmd.isSeg] at h
    | line x y =>
      simp only [wellFormedGo, Cmd.isSeg, Bool.true_and] at h
      obtain ⟨segs, r, rfl, hs, hr⟩ := ih h
      exact ⟨Cmd.line x y :: segs, r, by simp, by simp [Cmd.isSeg, hs], hr⟩
    | quad a b c d =>
      simp only [wellFormedGo, Cmd.isSeg, Bool.true_and] at h
      obtain ⟨segs, r, rfl, hs, hr⟩ := ih h
      exact ⟨Cmd.quad a b c d :: segs, r, by simp, by simp [Cmd.isSeg, hs], hr⟩
    | cubic a b c d e f =>
      simp only [wellFormedGo, Cmd.isSeg, Bool.true_and] at h
      obtain ⟨segs, r, rfl, hs, hr⟩ := ih h
      exact ⟨Cmd.cubic a b c d e f :: segs, r, by simp, by simp [Cmd.isSeg, hs], hr⟩

theorem wellFormed_grammar : ∀ (n : Nat) (l : List Cmd), l.length ≤ n → wellFormed l = true → Grammar l := by
  intro n
  induction n with
  | zero =>
    intro l hl _
    have : l = [] := List.eq_nil_of_length_eq_zero (by omega)
    subst this; exact Grammar.nil
  | succ n ih =>
    intro l hl h
    cases l with
    | nil => exact Grammar.nil
    | cons c cs =>
      unfold wellFormed at h
      cases c with
      | move x y =>
        simp only [wellFormedGo] at h
        obtain ⟨segs, r, rfl, hs, hr⟩ := wf_true_split cs h
        have hg : Grammar r := ih r (by simp at hl; omega) hr
        have : Cmd.move x y :: (segs ++ Cmd.close :: r) = (Cmd.move x y :: (segs ++ [Cmd.close])) ++ r := by simp
        rw [this]
        exact Grammar.contour _ _ ⟨x, y, segs, rfl, hs⟩ hg
      | line x y => simp [wellFormedGo] at h
      | quad a b c d => simp [wellFormedGo] at h
      | cubic a b c d e f => simp [wellFormedGo] at h
      | close => simp [wellFormedGo] at h

/-! ### emit / emitMany / finish only ever produce segments -/

theorem emit_segs (C : Coord) (st : Pending) (ix : Nat) (p : Pt) (st' : Pending) (cs : List Cmd)
    (h : emit C st ix p = .ok (st', cs)) : cs.all Cmd.isSeg = true := by
  unfold emit at h
  cases st <;> simp only [] at h <;> (repeat' split at h) <;> simp_all [Cmd.isSeg]
  all_goals (try (obtain ⟨_, rfl⟩ := h; simp [Cmd.isSeg]))

theorem emitMany_segs (C : Coord) : ∀ (l : List (Nat × Pt)) (st : Pending),
    (emitMany C st l).1.all Cmd.isSeg = true := by
  intro l
  induction l with
  | nil => intro st; simp [emitMany]
  | cons a rest ih =>
    intro st
    obtain ⟨ix, p⟩ := a
    simp only [emitMany]
    cases he : emit C st ix p with
    | error e => simp
    | ok v =>
      obtain ⟨st', cs⟩ := v
      simp only [List.all_append, Bool.and_eq_true]
      exact ⟨emit_segs C st ix p st' cs he, ih st'⟩

theorem finish_ok (C : Coord) (st : Pending) (start : Pt) (h : (finish C st start).2 = none) :
    ∃ segs, (finish C st start).1 = segs ++ [Cmd.close] ∧ segs.all Cmd.isSeg = true := by
  unfold finish at *
  cases st with
  | empty => exact ⟨[], by simp, by simp⟩
  | quad q =>
    simp only [] at *
    cases he : emit C (.quad q) 0 { start with flags := 1 } with
    | error e => rw [he] at h; simp at h
    | ok v => obtain ⟨st', cs⟩ := v; exact ⟨cs, by simp, emit_segs _ _ _ _ _ _ he⟩
  | cubic q =>
    simp only [] at *
    cases he : emit C (.cubic q) 0 { start with flags := 1 } with
    | error e => rw [he] at h; simp at h
    | ok v => obtain ⟨st', cs⟩ := v; exact ⟨cs, by simp, emit_segs _ _ _ _ _ _ he⟩
  | two a b =>
    simp only [] at *
    cases he : emit C (.two a b) 0 { start with flags := 1 } with
    | error e => rw [he] at h; simp at h
    | ok v => obtain ⟨st', cs⟩ := v; exact ⟨cs, by simp, emit_segs _ _ _ _ _ _ he⟩

theorem runContour_ok (C : Coord) (start : Pt) (body : List (Nat × Pt))
    (h : (runContour C start body).2 = none) : IsContour (runContour C start body).1 := by
  unfold runContour at *
  have hs := emitMany_segs C body .empty
  cases hm : emitMany C .empty body with
  | mk cs r =>
    rw [hm] at hs h
    cases r with
    | error e => simp at h
    | ok st =>
      simp only [] at h ⊢
      obtain ⟨segs, hf, hseg⟩ := finish_ok C st start h
      refine ⟨C.out start.x, C.out start.y, cs ++ segs, ?_, ?_⟩
      · rw [hf]; simp
      · simp only [List.all_append, Bool.and_eq_true]; exact ⟨hs, hseg⟩

theorem contourToPath_ok (C : Coord) (style : Style) (pts : List Pt) (last : Pt)
    (h : (contourToPath C style pts last).2 = none) :
    (contourToPath C style pts last).1 = [] ∨ IsContour (contourToPath C style pts last).1 := by
  unfold contourToPath at *
  split
  · left; rfl
  · rename_i first tail
    simp only [] at h ⊢
    split at h
    · simp at h
    · split at h
      · cases style with
        | freeType =>
          simp only [] at h ⊢
          split at h
          · rename_i h1 h2 h3; simp only [h1, h2, h3]; right
            simpa [h1, h2, h3] using runContour_ok _ _ _ h
          · rename_i h1 h2 h3; right
            simpa [h1, h2, h3] using runContour_ok _ _ _ h
        | harfBuzz =>
          simp only [] at h ⊢
          cases tail with
          | nil => left; simp_all
          | cons next rest =>
            simp only [] at h ⊢
            split at h
            · rename_i h1 h2 h3; right
              simpa [h1, h2, h3] using runContour_ok _ _ _ h
            · rename_i h1 h2 h3; right
              simpa [h1, h2, h3] using runContour_ok _ _ _ h
      · rename_i h1 h2; right
        simpa [h1, h2] using runContour_ok _ _ _ h

end FontVerif.ToPath

namespace FontVerif.ToPath

theorem toPathGo_wf (C : Coord) (style : Style) (pts : List (Int × Int)) (flags : List Nat) :
    ∀ (contours : List Nat) (ix start : Nat),
      (toPathGo C style pts flags contours ix start).2 = none →
      wellFormedGo false (toPathGo C style pts flags contours ix start).1 = true := by
  intro contours
  induction contours with
  | nil => intro ix start _; simp [toPathGo, wellFormedGo]
  | cons e rest ih =>
    intro ix start h
    unfold toPathGo at h ⊢
    by_cases h1 : e < start ∨ e ≥ pts.length
    · simp [h1] at h
    · by_cases h2 : e ≥ flags.length
      · simp [h1, h2] at h
      · simp only [h1, h2, if_false] at h ⊢
        cases hl : (zipPts (List.take (e - start + 1) (List.drop start pts))
                  (List.take (e - start + 1) (List.drop start flags))).getLast? with
        | none => rw [hl] at h; simp only [] at h ⊢; exact ih _ _ h
        | some last =>
          rw [hl] at h; simp only [] at h ⊢
          cases hc : contourToPath C style
                (zipPts (List.take (e - start + 1) (List.drop start pts))
                  (List.take (e - start + 1) (List.drop start flags))) last with
          | mk cs r =>
            rw [hc] at h
            cases r with
            | some err => simp at h
            | none =>
              simp only [] at h ⊢
              have hok : (contourToPath C style
                  (zipPts (List.take (e - start + 1) (List.drop start pts))
                    (List.take (e - start + 1) (List.drop start flags))) last).2 = none := by rw [hc]
              have := contourToPath_ok C style _ last hok
              rw [hc] at this
              simp only [] at this
              rcases this with h0 | hcont
              · subst h0; simpa using ih _ _ h
              · rw [wf_block _ _ hcont]; exact ih _ _ h

/-! ### the error automaton -/

def absP : Pending → PK
  | .empty => .empty
  | .quad _ => .quad
  | .cubic _ => .cubic
  | .two _ _ => .two

theorem emit_abs (C : Coord) (st : Pending) (ix : Nat) (p : Pt) :
    (match emit C st ix p with
     | .ok (st', _) => stepK (absP st) (kindOf p.flags) = some (absP st')
     | .error _ => stepK (absP st) (kindOf p.flags) = none) := by
  have hqc : isQuad p.flags = true → isCubic p.flags = false := by
    unfold isQuad; cases isCubic p.flags <;> simp
  unfold emit kindOf
  cases st <;> simp only [absP] <;> by_cases hq : isQuad p.flags = true <;>
    by_cases hc : isCubic p.flags = true <;> simp_all [stepK, absP]

theorem emitMany_abs (C : Coord) : ∀ (l : List (Nat × Pt)) (st : Pending),
    (match (emitMany C st l).2 with
     | .ok st' => runK (absP st) (l.map (fun a => kindOf a.2.flags)) = some (absP st')
     | .error _ => runK (absP st) (l.map (fun a => kindOf a.2.flags)) = none) := by
  intro l
  induction l with
  | nil => intro st; simp [emitMany, runK]
  | cons a rest ih =>
    intro st
    obtain ⟨ix, p⟩ := a
    have h1 := emit_abs C st ix p
    simp only [emitMany, List.map_cons, runK]
    cases he : emit C st ix p with
    | error e => rw [he] at h1; simp only [] at h1 ⊢; rw [h1]
    | ok v =>
      obtain ⟨st', cs⟩ := v
      rw [he] at h1; simp only [] at h1 ⊢; rw [h1]
      exact ih st'

theorem kindOf_one : kindOf 1 = .on := by decide

theorem finish_abs (C : Coord) (st : Pending) (start : Pt) :
    ((finish C st start).2 = none) ↔
      (match absP st with | .empty => True | s => (stepK s .on).isSome = true) := by
  have h1 := emit_abs C st 0 { start with flags := 1 }
  simp only [kindOf_one] at h1
  unfold finish
  cases st with
  | empty => simp [absP]
  | quad q =>
    simp only [absP] at h1 ⊢
    cases he : emit C (.quad q) 0 { start with flags := 1 } with
    | error e => rw [he] at h1; simp_all
    | ok v => obtain ⟨a, b⟩ := v; rw [he] at h1; simp_all
  | cubic q =>
    simp only [absP] at h1 ⊢
    cases he : emit C (.cubic q) 0 { start with flags := 1 } with
    | error e => rw [he] at h1; simp_all
    | ok v => obtain ⟨a, b⟩ := v; rw [he] at h1; simp_all
  | two x y =>
    simp only [absP] at h1 ⊢
    cases he : emit C (.two x y) 0 { start with flags := 1 } with
    | error e => rw [he] at h1; simp_all
    | ok v => obtain ⟨a, b⟩ := v; rw [he] at h1; simp_all

theorem runContour_ok_iff (C : Coord) (start : Pt) (body : List (Nat × Pt)) :
    (runContour C start body).2 = none ↔ acceptsK (body.map (fun a => kindOf a.2.flags)) = true := by
  have h1 := emitMany_abs C body .empty
  unfold runContour acceptsK
  cases hm : emitMany C .empty body with
  | mk cs r =>
    rw [hm] at h1
    cases r with
    | error e =>
      simp only [] at h1 ⊢
      rw [show absP Pending.empty = PK.empty from rfl] at h1
      rw [h1]; simp
    | ok st =>
      simp only [] at h1 ⊢
      rw [show absP Pending.empty = PK.empty from rfl] at h1
      rw [h1, finish_abs]
      cases absP st <;> simp

theorem enumFrom_kinds : ∀ (l : List Pt) (i : Nat),
    (enumFrom i l).map (fun a => kindOf a.2.flags) = l.map (fun p => kindOf p.flags) := by
  intro l
  induction l with
  | nil => intro i; rfl
  | cons p ps ih => intro i; simp [enumFrom, ih]

theorem enumFrom_dropLast : ∀ (l : List Pt) (i : Nat),
    (enumFrom i l).dropLast = enumFrom i l.dropLast := by
  intro l
  induction l with
  | nil => intro i; rfl
  | cons p ps ih =>
    intro i
    cases ps with
    | nil => rfl
    | cons q qs =>
      have := ih (i + 1)
      simp only [enumFrom, List.dropLast_cons_cons] at this ⊢
      rw [this]

/-- flag-level description of when `contour_to_path` succeeds -/
def contourOk (style : Style) (fl : List Nat) (lastFlag : Nat) : Bool :=
  match fl with
  | [] => true
  | f :: tail =>
    if isCubic f then false
    else if isQuad f then
      match style with
      | .freeType =>
        if isOn lastFlag then acceptsK ((fl.map kindOf).dropLast) else acceptsK (fl.map kindOf)
      | .harfBuzz =>
        match tail with
        | [] => true
        | n :: rest =>
          if isOn n then acceptsK (rest.map kindOf ++ [kindOf f, kindOf n])
          else acceptsK (tail.map kindOf ++ [kindOf f])
    else acceptsK (tail.map kindOf)

theorem contourToPath_ok_iff (C : Coord) (style : Style) (pts : List Pt) (last : Pt) :
    (contourToPath C style pts last).2 = none ↔
      contourOk style (pts.map (·.flags)) last.flags = true := by
  unfold contourToPath contourOk
  cases pts with
  | nil => simp
  | cons first tail =>
    simp only [List.map_cons]
    by_cases hc : isCubic first.flags = true
    · simp [hc]
    · simp only [hc, if_false, Bool.false_eq_true]
      by_cases hq : isQuad first.flags = true
      · simp only [hq, if_true]
        cases style with
        | freeType =>
          simp only []
          by_cases ho : isOn last.flags = true
          · simp only [ho, if_true]
            rw [runContour_ok_iff, enumFrom_dropLast, enumFrom_kinds]
            simp [List.map_dropLast, Function.comp_def]
          · simp only [ho, if_false, Bool.false_eq_true]
            rw [runContour_ok_iff, enumFrom_kinds]
            simp [Function.comp_def]
        | harfBuzz =>
          simp only []
          cases tail with
          | nil => simp
          | cons next rest =>
            simp only [List.map_cons]
            by_cases ho : isOn next.flags = true
            · simp only [ho, if_true]
              rw [runContour_ok_iff]
              simp [enumFrom_kinds, Function.comp_def]
            · simp only [ho, if_false, Bool.false_eq_true]
              rw [runContour_ok_iff]
              simp [enumFrom_kinds, Function.comp_def]
      · simp only [hq, if_false, Bool.false_eq_true]
        rw [runContour_ok_iff, enumFrom_kinds]
        simp [Function.comp_def]

end FontVerif.ToPath

namespace FontVerif.ToPath

/-! ### without cubic flags nothing fails -/

theorem runK_no_cubic : ∀ (ks : List Kind), (∀ k ∈ ks, k ≠ Kind.cubic) →
    ∀ s, (s = PK.empty ∨ s = PK.quad) → ∃ s', (s' = PK.empty ∨ s' = PK.quad) ∧ runK s ks = some s' := by
  intro ks
  induction ks with
  | nil => intro _ s hs; exact ⟨s, hs, rfl⟩
  | cons k rest ih =>
    intro hk s hs
    have hk0 : k ≠ Kind.cubic := hk k (by simp)
    have hrest : ∀ k ∈ rest, k ≠ Kind.cubic := fun k hm => hk k (by simp [hm])
    rcases hs with rfl | rfl <;> cases k <;> simp only [runK, stepK] <;> first
      | exact absurd rfl hk0
      | exact ih hrest _ (Or.inl rfl)
      | exact ih hrest _ (Or.inr rfl)

theorem acceptsK_no_cubic (ks : List Kind) (h : ∀ k ∈ ks, k ≠ Kind.cubic) : acceptsK ks = true := by
  obtain ⟨s', hs', hr⟩ := runK_no_cubic ks h .empty (Or.inl rfl)
  unfold acceptsK; rw [hr]
  rcases hs' with rfl | rfl <;> simp [stepK]

theorem kindOf_ne_cubic (f : Nat) (h : isCubic f = false) : kindOf f ≠ Kind.cubic := by
  unfold kindOf; split <;> simp_all

theorem contourOk_no_cubic (style : Style) (fl : List Nat) (lastFlag : Nat)
    (h : ∀ f ∈ fl, isCubic f = false) : contourOk style fl lastFlag = true := by
  have hk : ∀ (l : List Nat), (∀ f ∈ l, isCubic f = false) → ∀ k ∈ l.map kindOf, k ≠ Kind.cubic := by
    intro l hl k hm
    obtain ⟨f, hf, rfl⟩ := List.mem_map.mp hm
    exact kindOf_ne_cubic f (hl f hf)
  unfold contourOk
  cases fl with
  | nil => rfl
  | cons f tail =>
    have hf : isCubic f = false := h f (by simp)
    have ht : ∀ g ∈ tail, isCubic g = false := fun g hg => h g (by simp [hg])
    simp only [hf, Bool.false_eq_true, if_false]
    split
    · cases style with
      | freeType =>
        simp only []
        split
        · apply acceptsK_no_cubic
          intro k hm
          exact hk (f :: tail) h k (List.dropLast_subset _ hm)
        · exact acceptsK_no_cubic _ (hk (f :: tail) h)
      | harfBuzz =>
        simp only []
        cases tail with
        | nil => rfl
        | cons n rest =>
          simp only []
          have hn : isCubic n = false := ht n (by simp)
          have hr : ∀ g ∈ rest, isCubic g = false := fun g hg => ht g (by simp [hg])
          split
          · apply acceptsK_no_cubic
            intro k hm
            simp only [List.mem_append, List.mem_cons, List.mem_nil_iff, or_false] at hm
            rcases hm with hm | rfl | rfl
            · exact hk rest hr k hm
            · exact kindOf_ne_cubic f hf
            · exact kindOf_ne_cubic n hn
          · apply acceptsK_no_cubic
            intro k hm
            simp only [List.mem_append, List.mem_cons, List.mem_nil_iff, or_false] at hm
            rcases hm with hm | rfl
            · exact hk (n :: rest) ht k hm
            · exact kindOf_ne_cubic f hf
    · exact acceptsK_no_cubic _ (hk tail ht)

theorem zipPts_flags : ∀ (a : List (Int × Int)) (b : List Nat) (p : Pt), p ∈ zipPts a b → p.flags ∈ b := by
  intro a
  induction a with
  | nil => intro b p h; simp [zipPts] at h
  | cons xy ps ih =>
    intro b p h
    obtain ⟨x, y⟩ := xy
    cases b with
    | nil => simp [zipPts] at h
    | cons f fs =>
      simp only [zipPts, List.mem_cons] at h
      rcases h with rfl | h
      · simp
      · exact List.mem_cons_of_mem _ (ih fs p h)

/-- contour end points are non-decreasing from `start` and inside both arrays -/
def ContoursValid (np nf : Nat) : List Nat → Nat → Prop
  | [], _ => True
  | e :: rest, start => start ≤ e ∧ e < np ∧ e < nf ∧ ContoursValid np nf rest (e + 1)

theorem toPathGo_total (C : Coord) (style : Style) (pts : List (Int × Int)) (flags : List Nat)
    (hf : ∀ f ∈ flags, isCubic f = false) :
    ∀ (contours : List Nat) (ix start : Nat), ContoursValid pts.length flags.length contours start →
      (toPathGo C style pts flags contours ix start).2 = none := by
  intro contours
  induction contours with
  | nil => intro ix start _; rfl
  | cons e rest ih =>
    intro ix start hv
    obtain ⟨h1, h2, h3, h4⟩ := hv
    unfold toPathGo
    have n1 : ¬(e < start ∨ e ≥ pts.length) := by omega
    have n2 : ¬(e ≥ flags.length) := by omega
    simp only [n1, n2, if_false]
    cases hl : (zipPts (List.take (e - start + 1) (List.drop start pts))
                  (List.take (e - start + 1) (List.drop start flags))).getLast? with
    | none => simp only []; exact ih _ _ h4
    | some last =>
      simp only []
      have hsub : ∀ p ∈ zipPts (List.take (e - start + 1) (List.drop start pts))
                  (List.take (e - start + 1) (List.drop start flags)), isCubic p.flags = false := by
        intro p hp
        apply hf
        exact List.mem_of_mem_drop (List.mem_of_mem_take (zipPts_flags _ _ p hp))
      have hok := (contourToPath_ok_iff C style
          (zipPts (List.take (e - start + 1) (List.drop start pts))
                  (List.take (e - start + 1) (List.drop start flags))) last).mpr
          (contourOk_no_cubic style _ _ (by
            intro f hm
            obtain ⟨p, hp, rfl⟩ := List.mem_map.mp hm
            exact hsub p hp))
      cases hc : contourToPath C style
                (zipPts (List.take (e - start + 1) (List.drop start pts))
                  (List.take (e - start + 1) (List.drop start flags))) last with
      | mk cs r =>
        rw [hc] at hok
        simp only [] at hok
        subst hok
        simp only []
        exact ih _ _ h4

/-! ### coordinates -/

section coords
variable (C : Coord) (R B : Int → Prop)
variable (hmid : ∀ a b, R a → R b → R (C.mid a b)) (hout : ∀ v, R v → B (C.out v))

def PtR (R : Int → Prop) (p : Pt) : Prop := R p.x ∧ R p.y

def PendingR (R : Int → Prop) : Pending → Prop
  | .empty => True
  | .quad p => PtR R p
  | .cubic p => PtR R p
  | .two a b => PtR R a ∧ PtR R b

def CmdsB (B : Int → Prop) (cs : List Cmd) : Prop := ∀ c ∈ cs, ∀ v ∈ c.coords, B v

include hmid hout in
theorem emit_coords (st : Pending) (ix : Nat) (p : Pt) (st' : Pending) (cs : List Cmd)
    (hs : PendingR R st) (hp : PtR R p) (h : emit C st ix p = .ok (st', cs)) :
    PendingR R st' ∧ CmdsB B cs := by
  unfold emit at h
  obtain ⟨hpx, hpy⟩ := hp
  cases st with
  | empty =>
    simp only [] at h
    (repeat' split at h) <;> simp only [Except.ok.injEq, Prod.mk.injEq] at h <;> obtain ⟨rfl, rfl⟩ := h
    · exact ⟨⟨hpx, hpy⟩, by simp [CmdsB]⟩
    · exact ⟨⟨hpx, hpy⟩, by simp [CmdsB]⟩
    · refine ⟨trivial, ?_⟩
      intro c hc v hv
      simp only [List.mem_singleton] at hc; subst hc
      simp only [Cmd.coords, List.mem_cons, List.mem_nil_iff, or_false] at hv
      rcases hv with rfl | rfl <;> apply hout <;> assumption
  | quad q =>
    obtain ⟨hqx, hqy⟩ := hs
    simp only [] at h
    (repeat' split at h) <;> simp only [Except.ok.injEq, Prod.mk.injEq, reduceCtorEq] at h <;> obtain ⟨rfl, rfl⟩ := h
    · refine ⟨⟨hpx, hpy⟩, ?_⟩
      intro c hc v hv
      simp only [List.mem_singleton] at hc; subst hc
      simp only [Cmd.coords, Pt.midpoint, List.mem_cons, List.mem_nil_iff, or_false] at hv
      rcases hv with rfl | rfl | rfl | rfl <;> apply hout <;> first | assumption | (apply hmid <;> assumption)
    · refine ⟨trivial, ?_⟩
      intro c hc v hv
      simp only [List.mem_singleton] at hc; subst hc
      simp only [Cmd.coords, List.mem_cons, List.mem_nil_iff, or_false] at hv
      rcases hv with rfl | rfl | rfl | rfl <;> apply hout <;> assumption
  | cubic q =>
    simp only [] at h
    (repeat' split at h) <;> simp only [Except.ok.injEq, Prod.mk.injEq, reduceCtorEq] at h <;> obtain ⟨rfl, rfl⟩ := h
    exact ⟨⟨hs, ⟨hpx, hpy⟩⟩, by simp [CmdsB]⟩
  | two a b =>
    obtain ⟨⟨hax, hay⟩, ⟨hbx, hby⟩⟩ := hs
    simp only [] at h
    (repeat' split at h) <;> simp only [Except.ok.injEq, Prod.mk.injEq, reduceCtorEq] at h <;> obtain ⟨rfl, rfl⟩ := h
    · refine ⟨⟨hpx, hpy⟩, ?_⟩
      intro c hc v hv
      simp only [List.mem_singleton] at hc; subst hc
      simp only [Cmd.coords, Pt.midpoint, List.mem_cons, List.mem_nil_iff, or_false] at hv
      rcases hv with rfl | rfl | rfl | rfl | rfl | rfl <;> apply hout <;>
        first | assumption | (apply hmid <;> assumption)
    · refine ⟨trivial, ?_⟩
      intro c hc v hv
      simp only [List.mem_singleton] at hc; subst hc
      simp only [Cmd.coords, List.mem_cons, List.mem_nil_iff, or_false] at hv
      rcases hv with rfl | rfl | rfl | rfl | rfl | rfl <;> apply hout <;> assumption

theorem CmdsB_append (a b : List Cmd) (ha : CmdsB B a) (hb : CmdsB B b) : CmdsB B (a ++ b) := by
  intro c hc
  rcases List.mem_append.mp hc with h | h
  · exact ha c h
  · exact hb c h

include hmid hout in
theorem emitMany_coords : ∀ (l : List (Nat × Pt)) (st : Pending),
    PendingR R st → (∀ a ∈ l, PtR R a.2) →
    CmdsB B (emitMany C st l).1 ∧
      (∀ st', (emitMany C st l).2 = .ok st' → PendingR R st') := by
  intro l
  induction l with
  | nil => intro st hs _; exact ⟨by simp [emitMany, CmdsB], by intro st' h; simp [emitMany] at h; subst h; exact hs⟩
  | cons a rest ih =>
    intro st hs hl
    obtain ⟨ix, p⟩ := a
    simp only [emitMany]
    cases he : emit C st ix p with
    | error e => exact ⟨by simp [CmdsB], by intro st' h; simp at h⟩
    | ok v =>
      obtain ⟨st1, cs⟩ := v
      have := emit_coords C R B hmid hout st ix p st1 cs hs (hl (ix, p) (by simp)) he
      have ih' := ih st1 this.1 (fun a ha => hl a (by simp [ha]))
      exact ⟨CmdsB_append B _ _ this.2 ih'.1, ih'.2⟩

include hmid hout in
theorem finish_coords (st : Pending) (start : Pt) (hs : PendingR R st) (hp : PtR R start) :
    CmdsB B (finish C st start).1 := by
  have hclose : CmdsB B [Cmd.close] := by intro c hc v hv; simp at hc; subst hc; simp [Cmd.coords] at hv
  have key : ∀ st, PendingR R st →
      CmdsB B (match emit C st 0 { start with flags := 1 } with
        | .error e => (([], some e) : List Cmd × Option Err)
        | .ok (_, cs) => (cs ++ [Cmd.close], none)).1 := by
    intro st hs
    cases he : emit C st 0 { start with flags := 1 } with
    | error e => simp [CmdsB]
    | ok v =>
      obtain ⟨st1, cs⟩ := v
      have := emit_coords C R B hmid hout st 0 { start with flags := 1 } st1 cs hs hp he
      exact CmdsB_append B _ _ this.2 hclose
  unfold finish
  cases st with
  | empty => exact hclose
  | quad q => exact key _ hs
  | cubic q => exact key _ hs
  | two a b => exact key _ hs

include hmid hout in
theorem runContour_coords (start : Pt) (body : List (Nat × Pt)) (hp : PtR R start)
    (hl : ∀ a ∈ body, PtR R a.2) : CmdsB B (runContour C start body).1 := by
  have hm := emitMany_coords C R B hmid hout body .empty trivial hl
  have hmove : CmdsB B [Cmd.move (C.out start.x) (C.out start.y)] := by
    intro c hc v hv
    simp only [List.mem_singleton] at hc; subst hc
    simp only [Cmd.coords, List.mem_cons, List.mem_nil_iff, or_false] at hv
    rcases hv with rfl | rfl
    · exact hout _ hp.1
    · exact hout _ hp.2
  unfold runContour
  cases hmm : emitMany C .empty body with
  | mk cs r =>
    rw [hmm] at hm
    cases r with
    | error e => exact CmdsB_append B [_] cs hmove hm.1
    | ok st =>
      simp only []
      have hf := finish_coords C R B hmid hout st start (hm.2 st rfl) hp
      exact CmdsB_append B [_] _ hmove (CmdsB_append B _ _ hm.1 hf)

theorem enumFrom_mem : ∀ (l : List Pt) (i : Nat) (a : Nat × Pt), a ∈ enumFrom i l → a.2 ∈ l := by
  intro l
  induction l with
  | nil => intro i a h; simp [enumFrom] at h
  | cons p ps ih =>
    intro i a h
    simp only [enumFrom, List.mem_cons] at h
    rcases h with rfl | h
    · simp
    · exact List.mem_cons_of_mem _ (ih _ _ h)

include hmid hout in
theorem contourToPath_coords (style : Style) (pts : List Pt) (last : Pt)
    (hp : ∀ p ∈ pts, PtR R p) (hlast : PtR R last) : CmdsB B (contourToPath C style pts last).1 := by
  have hnil : CmdsB B [] := by simp [CmdsB]
  have hmidpt : ∀ a b, PtR R a → PtR R b → PtR R (a.midpoint C b) :=
    fun a b ha hb => ⟨hmid _ _ ha.1 hb.1, hmid _ _ ha.2 hb.2⟩
  unfold contourToPath
  cases pts with
  | nil => exact hnil
  | cons first tail =>
    have hfirst := hp first (by simp)
    have hall : ∀ a ∈ enumFrom 0 (first :: tail), PtR R a.2 := fun a ha => hp _ (enumFrom_mem _ _ a ha)
    simp only []
    split
    · exact hnil
    · split
      · cases style with
        | freeType =>
          simp only []
          split
          · apply runContour_coords C R B hmid hout _ _ hlast
            intro a ha; exact hall a (List.dropLast_subset _ ha)
          · exact runContour_coords C R B hmid hout _ _ (hmidpt _ _ hlast hfirst) hall
        | harfBuzz =>
          simp only []
          cases tail with
          | nil => exact hnil
          | cons next rest =>
            have hnext := hp next (by simp)
            simp only []
            split
            · apply runContour_coords C R B hmid hout _ _ hnext
              intro a ha
              simp only [List.mem_append, List.mem_cons, List.mem_nil_iff, or_false] at ha
              rcases ha with ha | rfl | rfl
              · exact hp _ (by have := enumFrom_mem _ _ a ha; simp [this])
              · exact hfirst
              · exact hnext
            · apply runContour_coords C R B hmid hout _ _ (hmidpt _ _ hfirst hnext)
              intro a ha
              simp only [List.mem_append, List.mem_cons, List.mem_nil_iff, or_false] at ha
              rcases ha with ha | rfl
              · exact hp _ (List.mem_cons_of_mem _ (enumFrom_mem _ _ a ha))
              · exact hfirst
      · apply runContour_coords C R B hmid hout _ _ hfirst
        intro a ha; exact hp _ (List.mem_cons_of_mem _ (enumFrom_mem _ _ a ha))

theorem zipPts_coords : ∀ (a : List (Int × Int)) (b : List Nat) (p : Pt), p ∈ zipPts a b → (p.x, p.y) ∈ a := by
  intro a
  induction a with
  | nil => intro b p h; simp [zipPts] at h
  | cons xy ps ih =>
    intro b p h
    obtain ⟨x, y⟩ := xy
    cases b with
    | nil => simp [zipPts] at h
    | cons f fs =>
      simp only [zipPts, List.mem_cons] at h
      rcases h with rfl | h
      · simp
      · exact List.mem_cons_of_mem _ (ih fs p h)

include hmid hout in
theorem toPathGo_coords (style : Style) (pts : List (Int × Int)) (flags : List Nat)
    (hp : ∀ xy ∈ pts, R xy.1 ∧ R xy.2) :
    ∀ (contours : List Nat) (ix start : Nat), CmdsB B (toPathGo C style pts flags contours ix start).1 := by
  have hnil : CmdsB B [] := by simp [CmdsB]
  intro contours
  induction contours with
  | nil => intro ix start; exact hnil
  | cons e rest ih =>
    intro ix start
    unfold toPathGo
    split
    · exact hnil
    · split
      · exact hnil
      · simp only []
        have hsub : ∀ p ∈ zipPts (List.take (e - start + 1) (List.drop start pts))
                  (List.take (e - start + 1) (List.drop start flags)), PtR R p := by
          intro p hm
          have := zipPts_coords _ _ p hm
          exact hp _ (List.mem_of_mem_drop (List.mem_of_mem_take this))
        split
        · exact ih _ _
        · rename_i last hl
          have hlast : PtR R last := hsub last (List.mem_of_getLast? hl)
          have hc := contourToPath_coords C R B hmid hout style _ last hsub hlast
          split
          · rename_i cs err hcc; rw [hcc] at hc; exact hc
          · rename_i cs hcc; rw [hcc] at hc
            exact CmdsB_append B _ _ hc (ih _ _)

end coords

/-! ### the fixed-point instantiation -/

theorem wrapI32_inI32 (x : Int) : inI32 (wrapI32 x) := by
  unfold inI32 wrapI32; simp only []; split <;> omega

theorem tdiv2 (x : Int) : Int.tdiv x 2 = if 0 ≤ x then x / 2 else -((-x) / 2) := by
  split
  · rename_i h; exact Int.tdiv_eq_ediv_of_nonneg h
  · rename_i h
    have h2 : x = -(-x) := by omega
    rw [h2, Int.neg_tdiv, Int.tdiv_eq_ediv_of_nonneg (by omega)]
    simp

theorem midI32_inI32 (a b : Int) : inI32 (midI32 a b) := by
  unfold midI32 inI32
  rw [tdiv2]
  have hw := wrapI32_inI32 (a + b)
  unfold inI32 at hw
  split <;> omega

theorem f32Step_bound (a q : Int) (hq : 0 < q) : a - q < f32Step a q ∧ f32Step a q < a + q ∧ f32Step a q % q = 0 := by
  unfold f32Step
  simp only []
  have h1 := Int.emod_nonneg a (Int.ne_of_gt hq)
  have h2 := Int.emod_lt_of_pos a hq
  have h3 : (a - a % q) % q = 0 := by
    have h5 : a - a % q = q * (a / q) := by have := Int.mul_ediv_add_emod a q; omega
    rw [h5]; exact Int.mul_emod_right _ _
  have h4 : (a - a % q + q) % q = 0 := by
    rw [Int.add_emod_right]; exact h3
  refine ⟨?_, ?_, ?_⟩ <;> (repeat' split) <;> first | omega | assumption

theorem f32RoundNat_bound (a : Int) (h0 : 0 ≤ a) (h1 : a ≤ 2147483648) :
    0 ≤ f32RoundNat a ∧ f32RoundNat a ≤ 2147483648 := by
  unfold f32RoundNat
  split; · omega
  split; · have := f32Step_bound a 2 (by omega); omega
  split; · have := f32Step_bound a 4 (by omega); omega
  split; · have := f32Step_bound a 8 (by omega); omega
  split; · have := f32Step_bound a 16 (by omega); omega
  split; · have := f32Step_bound a 32 (by omega); omega
  split; · have := f32Step_bound a 64 (by omega); omega
  split; · have := f32Step_bound a 128 (by omega); omega
  split
  · have := f32Step_bound a 256 (by omega); omega
  · omega

theorem f32RoundInt_bound (v : Int) (h : inI32 v) :
    -2147483648 ≤ f32RoundInt v ∧ f32RoundInt v ≤ 2147483648 := by
  unfold inI32 at h
  unfold f32RoundInt
  split
  · have := f32RoundNat_bound (-v) (by omega) (by omega); omega
  · have := f32RoundNat_bound v (by omega) (by omega); omega

/-! ### whole-outline success condition and start points -/

theorem zipPts_map_flags : ∀ (a : List (Int × Int)) (b : List Nat), a.length = b.length →
    (zipPts a b).map (·.flags) = b := by
  intro a
  induction a with
  | nil => intro b h; cases b <;> simp_all [zipPts]
  | cons xy ps ih =>
    intro b h
    obtain ⟨x, y⟩ := xy
    cases b with
    | nil => simp at h
    | cons f fs => simp only [zipPts, List.map_cons]; rw [ih fs (by simpa using h)]

/-- flag-level description of when `to_path` succeeds -/
def toPathOkGo (style : Style) (npts : Nat) (flags : List Nat) : List Nat → Nat → Bool
  | [], _ => true
  | e :: rest, start =>
    if e < start ∨ e ≥ npts then false
    else if e ≥ flags.length then false
    else
      let fl := (flags.drop start).take (e - start + 1)
      match fl.getLast? with
      | none => toPathOkGo style npts flags rest (e + 1)
      | some lf => contourOk style fl lf && toPathOkGo style npts flags rest (e + 1)

theorem toPathGo_ok_iff (C : Coord) (style : Style) (pts : List (Int × Int)) (flags : List Nat) :
    ∀ (contours : List Nat) (ix start : Nat),
      (toPathGo C style pts flags contours ix start).2 = none ↔
        toPathOkGo style pts.length flags contours start = true := by
  intro contours
  induction contours with
  | nil => intro ix start; simp [toPathGo, toPathOkGo]
  | cons e rest ih =>
    intro ix start
    unfold toPathGo toPathOkGo
    by_cases h1 : e < start ∨ e ≥ pts.length
    · simp [h1]
    · by_cases h2 : e ≥ flags.length
      · simp [h1, h2]
      · simp only [h1, h2, if_false]
        have hlen : (List.take (e - start + 1) (List.drop start pts)).length =
            (List.take (e - start + 1) (List.drop start flags)).length := by
          simp only [List.length_take, List.length_drop]; omega
        have hmap := zipPts_map_flags _ _ hlen
        have hlast : (zipPts (List.take (e - start + 1) (List.drop start pts))
              (List.take (e - start + 1) (List.drop start flags))).getLast?.map (·.flags) =
            (List.take (e - start + 1) (List.drop start flags)).getLast? := by
          rw [← List.getLast?_map, hmap]
        cases hl : (zipPts (List.take (e - start + 1) (List.drop start pts))
              (List.take (e - start + 1) (List.drop start flags))).getLast? with
        | none =>
          rw [hl] at hlast; simp only [Option.map_none] at hlast
          rw [← hlast]; simp only []
          exact ih _ _
        | some last =>
          rw [hl] at hlast; simp only [Option.map_some] at hlast
          rw [← hlast]; simp only []
          have hc := contourToPath_ok_iff C style
            (zipPts (List.take (e - start + 1) (List.drop start pts))
              (List.take (e - start + 1) (List.drop start flags))) last
          rw [hmap] at hc
          cases hcp : contourToPath C style
              (zipPts (List.take (e - start + 1) (List.drop start pts))
                (List.take (e - start + 1) (List.drop start flags))) last with
          | mk cs r =>
            rw [hcp] at hc
            cases r with
            | some err =>
              simp only [] at hc ⊢
              have : contourOk style (List.take (e - start + 1) (List.drop start flags)) last.flags = false := by
                cases hco : contourOk style (List.take (e - start + 1) (List.drop start flags)) last.flags with
                | false => rfl
                | true => have := hc.mpr hco; simp at this
              simp [this]
            | none =>
              simp only [] at hc ⊢
              have : contourOk style (List.take (e - start + 1) (List.drop start flags)) last.flags = true := hc.mp trivial
              rw [this, Bool.true_and]
              exact ih _ _

/-- the point a contour's `MoveTo` goes to -/
def startPoint (C : Coord) (style : Style) (pts : List Pt) (last : Pt) : Option Pt :=
  match pts with
  | [] => none
  | first :: tail =>
    if isCubic first.flags then none
    else if isQuad first.flags then
      match style with
      | .freeType => if isOn last.flags then some last else some (last.midpoint C first)
      | .harfBuzz =>
        match tail with
        | [] => none
        | next :: _ => if isOn next.flags then some next else some (first.midpoint C next)
    else some first

theorem runContour_head (C : Coord) (start : Pt) (body : List (Nat × Pt)) :
    (runContour C start body).1.head? = some (Cmd.move (C.out start.x) (C.out start.y)) := by
  unfold runContour
  cases emitMany C .empty body with
  | mk cs r => cases r <;> simp

theorem contourToPath_head (C : Coord) (style : Style) (pts : List Pt) (last : Pt) :
    (contourToPath C style pts last).1.head? =
      (startPoint C style pts last).map (fun p => Cmd.move (C.out p.x) (C.out p.y)) := by
  unfold contourToPath startPoint
  cases pts with
  | nil => rfl
  | cons first tail =>
    simp only []
    by_cases hc : isCubic first.flags = true
    · simp [hc]
    · simp only [hc, if_false, Bool.false_eq_true]
      by_cases hq : isQuad first.flags = true
      · simp only [hq, if_true]
        cases style with
        | freeType =>
          simp only []
          by_cases ho : isOn last.flags = true
          · simp only [ho, if_true]; rw [runContour_head]; rfl
          · simp only [ho, if_false, Bool.false_eq_true]; rw [runContour_head]; rfl
        | harfBuzz =>
          simp only []
          cases tail with
          | nil => rfl
          | cons next rest =>
            simp only []
            by_cases ho : isOn next.flags = true
            · simp only [ho, if_true]; rw [runContour_head]; rfl
            · simp only [ho, if_false, Bool.false_eq_true]; rw [runContour_head]; rfl
      · simp only [hq, if_false, Bool.false_eq_true]; rw [runContour_head]; rfl

end FontVerif.ToPath
