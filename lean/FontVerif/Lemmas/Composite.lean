/-
C02 core 2 — lemmas about Model/Composite.lean
-/
import FontVerif.Model.Composite
namespace FontVerif.CompositeLemmas
open FontVerif FontVerif.Composite

def isErr {α} : Except Err α → Prop
  | .error _ => True
  | .ok _ => False

/-- a chain of `n` component edges through present glyphs starts at `g` -/
inductive Deep (G : Nat → GlyphInfo) : Nat → Nat → Prop
  | zero (g : Nat) : (G g).present = true → Deep G 0 g
  | succ (g c : Nat) (cs : List Nat) (h : Bool) (n : Nat) :
      G g = .composite cs h → c ∈ cs → Deep G n c → Deep G (n + 1) g

theorem loop_error (G : Nat → GlyphInfo) (prev : Rec) (c : Nat) (hp : (G c).present = true)
    (herr : ∀ o cd, isErr (prev (G c) o cd)) :
    ∀ (cs : List Nat) (o : Out) (cd : Nat), c ∈ cs → isErr (loop G prev cs o cd) := by
  intro cs
  induction cs with
  | nil => intro o cd h; cases h
  | cons x xs ih =>
    intro o cd hmem
    unfold loop
    by_cases hx : x = c
    · subst hx
      have := herr o cd
      cases hg : G x with
      | readErr => simp [isErr]
      | empty => rw [hg] at hp; simp [GlyphInfo.present] at hp
      | simple p k h =>
        simp only []
        rw [hg] at this
        cases hq : prev (.simple p k h) o cd with
        | error e => simp [isErr]
        | ok v => rw [hq] at this; exact absurd this (by simp [isErr])
      | composite cs' h =>
        simp only []
        rw [hg] at this
        cases hq : prev (.composite cs' h) o cd with
        | error e => simp [isErr]
        | ok v => rw [hq] at this; exact absurd this (by simp [isErr])
    · have hmem' : c ∈ xs := by
        cases hmem with
        | head => exact absurd rfl hx
        | tail _ h => exact h
      cases hg : G x with
      | readErr => simp [isErr]
      | empty => simp only []; exact ih o cd hmem'
      | simple p k h =>
        simp only []
        cases hq : prev (.simple p k h) o cd with
        | error e => simp [isErr]
        | ok v => simp only []; exact ih v cd hmem'
      | composite cs' h =>
        simp only []
        cases hq : prev (.composite cs' h) o cd with
        | error e => simp [isErr]
        | ok v => simp only []; exact ih v cd hmem'

/-- fuel not larger than a chain below `g` ⇒ `outline_rec` fails -/
theorem deep_is_error (G : Nat → GlyphInfo) (n : Nat) (g : Nat) (hd : Deep G n g) :
    ∀ (f : Nat), f ≤ n → ∀ o cd, isErr (recF G f (G g) o cd) := by
  induction hd with
  | zero g hp =>
    intro f hf o cd
    have : f = 0 := by omega
    subst this; simp [recF, isErr]
  | succ g c cs h n hg hmem hdc ih =>
    intro f hf o cd
    cases f with
    | zero => simp [recF, isErr]
    | succ f' =>
      have hp : (G c).present = true := by
        cases hdc with
        | zero _ hp => exact hp
        | succ _ _ _ _ _ hgc _ _ => rw [hgc]; rfl
      have hl := loop_error G (recF G f') c hp (ih f' (by omega)) cs
      simp only [recF, hg, level]
      have := hl { o with visits := o.visits + 1 } (cd + (cs.length + PHANTOM)) hmem
      cases hq : loop G (recF G f') cs { o with visits := o.visits + 1 } (cd + (cs.length + PHANTOM)) with
      | error e => simp [isErr]
      | ok v => rw [hq] at this; exact absurd this (by simp [isErr])

/-- `a` reaches `b` along `k` component edges, every glyph on the way being a composite -/
inductive Walk (G : Nat → GlyphInfo) : Nat → Nat → Nat → Prop
  | nil (a : Nat) : Walk G 0 a a
  | cons (a b c : Nat) (cs : List Nat) (h : Bool) (k : Nat) :
      G a = .composite cs h → b ∈ cs → Walk G k b c → Walk G (k + 1) a c

theorem walk_deep (G : Nat → GlyphInfo) (k a b : Nat) (hw : Walk G k a b) :
    ∀ n, Deep G n b → Deep G (n + k) a := by
  induction hw with
  | nil a => intro n h; exact h
  | cons a b c cs h k hg hmem _ ih =>
    intro n hd
    have := ih n hd
    exact Deep.succ a b cs h (n + k) hg hmem this

/-- a glyph on a component cycle has arbitrarily deep chains below it -/
theorem cycle_deep (G : Nat → GlyphInfo) (k g : Nat) (hw : Walk G (k + 1) g g) : ∀ m, Deep G (m * (k + 1)) g := by
  have hp : (G g).present = true := by
    cases hw with
    | cons _ _ _ _ _ _ hg _ _ => rw [hg]; rfl
  intro m
  induction m with
  | zero => simpa using Deep.zero g hp
  | succ m ih =>
    have := walk_deep G (k + 1) g g hw _ ih
    have he : (m + 1) * (k + 1) = m * (k + 1) + (k + 1) := by rw [Nat.succ_mul]
    rw [he]; exact this

theorem deep_mono (G : Nat → GlyphInfo) (n g : Nat) (hd : Deep G (n + 1) g) : Deep G n g := by
  induction n generalizing g with
  | zero =>
    cases hd with
    | succ _ _ _ _ _ hg _ _ => exact Deep.zero g (by rw [hg]; rfl)
  | succ n ih =>
    cases hd with
    | succ _ c cs h _ hg hmem hdc => exact Deep.succ g c cs h n hg hmem (ih c hdc)
end FontVerif.CompositeLemmas
