/- helper lemmas for C04 (Model/Field.lean): big-endian codec, records, arrays of records -/
import FontVerif.Model.Field

namespace FontVerif.Field

theorem be_length (sz n : Nat) : (be sz n).length = sz := by
  induction sz generalizing n with
  | zero => simp [be]
  | succ k ih => simp [be, ih]

theorem beVal_append_single (bs : Bytes) (b : Nat) : beVal (bs ++ [b]) = beVal bs * 256 + b := by
  simp [beVal, List.foldl_append]

theorem beVal_be (sz n : Nat) (h : n < 256 ^ sz) : beVal (be sz n) = n := by
  induction sz generalizing n with
  | zero =>
    have : n = 0 := by simpa using h
    simp [be, beVal, this]
  | succ k ih =>
    have h1 : n / 256 < 256 ^ k := by
      apply Nat.div_lt_of_lt_mul
      rw [Nat.pow_succ] at h
      omega
    rw [be, beVal_append_single, ih _ h1]
    omega

theorem take_be_append (sz n : Nat) (rest : Bytes) : (be sz n ++ rest).take sz = be sz n := by
  have := be_length sz n
  rw [List.take_append_of_le_length (by omega)]
  rw [List.take_of_length_le (by omega)]

theorem drop_be_append (sz n : Nat) (rest : Bytes) : (be sz n ++ rest).drop sz = rest := by
  have := be_length sz n
  rw [List.drop_append_of_le_length (by omega)]
  rw [List.drop_of_length_le (by omega)]
  simp

theorem emitRec_length : ∀ (ss xs : List Nat) (b : Bytes), emitRec ss xs = some b → b.length = elemSize ss
  | [], [], b, h => by simp [emitRec] at h; simp [h, elemSize]
  | [], _ :: _, b, h => by simp [emitRec] at h
  | _ :: _, [], b, h => by simp [emitRec] at h
  | s :: ss, x :: xs, b, h => by
    simp only [emitRec] at h
    split at h
    · split at h
      · rename_i b' hb'
        have ih := emitRec_length ss xs b' hb'
        injection h with h
        subst h
        simp [be_length, ih, elemSize]
      · cases h
    · cases h

theorem parseRec_emitRec : ∀ (ss xs : List Nat) (b rest : Bytes), emitRec ss xs = some b →
    parseRec ss (b ++ rest) = some (xs, rest)
  | [], [], b, rest, h => by simp [emitRec] at h; simp [h, parseRec]
  | [], _ :: _, b, rest, h => by simp [emitRec] at h
  | _ :: _, [], b, rest, h => by simp [emitRec] at h
  | s :: ss, x :: xs, b, rest, h => by
    simp only [emitRec] at h
    split at h
    · rename_i hx
      split at h
      · rename_i b' hb'
        have ih := parseRec_emitRec ss xs b' rest hb'
        injection h with h
        subst h
        have hl : ¬ (be s x ++ b' ++ rest).length < s := by
          simp [be_length]
        rw [parseRec, if_neg hl]
        rw [List.append_assoc, take_be_append, drop_be_append, ih, beVal_be _ _ hx]
      · cases h
    · cases h

theorem emitRecs_length (elem : List Nat) : ∀ (rs : List (List Nat)) (b : Bytes),
    emitRecs elem rs = some b → b.length = rs.length * elemSize elem
  | [], b, h => by simp [emitRecs] at h; simp [h]
  | r :: rs, b, h => by
    simp only [emitRecs] at h
    split at h
    · rename_i a b' ha hb
      injection h with h
      subst h
      have h1 := emitRec_length elem r a ha
      have h2 := emitRecs_length elem rs b' hb
      simp [h1, h2, Nat.succ_mul]
      omega
    · cases h

theorem parseRecs_emitRecs (elem : List Nat) : ∀ (rs : List (List Nat)) (b rest : Bytes),
    emitRecs elem rs = some b → parseRecs elem rs.length (b ++ rest) = some (rs, rest)
  | [], b, rest, h => by simp [emitRecs] at h; simp [h, parseRecs]
  | r :: rs, b, rest, h => by
    simp only [emitRecs] at h
    split at h
    · rename_i a b' ha hb
      injection h with h
      subst h
      have h1 := parseRec_emitRec elem r a (b' ++ rest) ha
      have h2 := parseRecs_emitRecs elem rs b' rest hb
      simp only [List.length_cons, parseRecs, List.append_assoc, h1, h2]
    · cases h

/-! ## variable-size records (`arrayV`) -/

theorem repGroup_all (tail : Nat) (ws : List Nat) (h : ws.all (· == tail) = true) :
    ∀ n, repGroup n ws = List.replicate (n * ws.length) tail
  | 0 => by simp [repGroup]
  | n + 1 => by
    have hws : ws = List.replicate ws.length tail := by
      apply List.eq_replicate_iff.mpr
      refine ⟨rfl, ?_⟩
      intro x hx
      have := List.all_eq_true.mp h x hx
      simpa using this
    rw [repGroup, repGroup_all tail ws h n, Nat.succ_mul, Nat.add_comm, ← List.replicate_append_replicate, ← hws]

/-- soundness of the static check: for every value of its counts the reader's element layout is the writer's fixed
prefix followed by `tail`-byte scalars -/
theorem segsCompat_sound (tail : Nat) (view : View) : ∀ (segs : Segs) (pre : List Nat),
    segsCompat tail pre segs = true → ∃ k, evalSegs view segs = pre ++ List.replicate k tail
  | [], pre, h => by
    simp only [segsCompat, List.isEmpty_iff] at h
    subst h
    exact ⟨0, by simp [evalSegs]⟩
  | (n, ws) :: rest, pre, h => by
    simp only [segsCompat] at h
    split at h
    · rename_i hp
      simp only [List.isEmpty_iff] at hp
      subst hp
      simp only [Bool.and_eq_true] at h
      obtain ⟨k, hk⟩ := segsCompat_sound tail view rest [] h.2
      refine ⟨n.eval view * ws.length + k, ?_⟩
      simp only [evalSegs, hk, repGroup_all tail ws h.1, List.nil_append, List.replicate_append_replicate]
    · simp only [Bool.and_eq_true, beq_iff_eq] at h
      obtain ⟨⟨hn, hpre⟩, hrest⟩ := h
      subst hn
      obtain ⟨k, hk⟩ := segsCompat_sound tail view rest (pre.drop ws.length) hrest
      refine ⟨k, ?_⟩
      have hp : ws ++ pre.drop ws.length = pre := by
        have := List.isPrefixOf_iff_prefix.mp hpre
        obtain ⟨t, ht⟩ := this
        subst ht
        simp
      simp only [evalSegs, NExpr.eval, repGroup, List.append_nil, hk]
      rw [← List.append_assoc, hp]

theorem wWidths_of_eq (pre : List Nat) (tail k len : Nat) (ws : List Nat)
    (hws : ws = pre ++ List.replicate k tail) (hlen : len = ws.length) : wWidths pre tail len = ws := by
  subst hws hlen
  simp [wWidths]

theorem emitRecsV_eq (pre : List Nat) (tail : Nat) (elem : List Nat) : ∀ (xs : List (List Nat)),
    (∀ x ∈ xs, pre.length ≤ x.length ∧ wWidths pre tail x.length = elem) →
    emitRecsV pre tail xs = emitRecs elem xs
  | [], _ => by simp [emitRecsV, emitRecs]
  | r :: rs, h => by
    have h1 := h r (List.mem_cons_self ..)
    have ih := emitRecsV_eq pre tail elem rs (fun x hx => h x (List.mem_cons_of_mem _ hx))
    simp only [emitRecsV, emitRecs, if_pos h1.1, h1.2, ih]

/-! ## length-prefixed elements (`arrayL`) -/

theorem emitRec_widths_length : ∀ (ss xs : List Nat) (b : Bytes), emitRec ss xs = some b → xs.length = ss.length
  | [], [], b, h => rfl
  | [], _ :: _, b, h => by simp [emitRec] at h
  | _ :: _, [], b, h => by simp [emitRec] at h
  | s :: ss, x :: xs, b, h => by
    simp only [emitRec] at h
    split at h
    · split at h
      · rename_i b' hb'
        simp [emitRec_widths_length ss xs b' hb']
      · cases h
    · cases h

theorem parseRecsL_emitRecsL (hw : Nat) (item : List Nat) : ∀ (rs : List (List Nat)) (b rest : Bytes),
    emitRecsL hw item rs = some b → parseRecsL hw item rs.length (b ++ rest) = some (rs, rest)
  | [], b, rest, h => by simp [emitRecsL] at h; simp [h, parseRecsL]
  | r :: rs, b, rest, h => by
    simp only [emitRecsL] at h
    split at h
    · rename_i hk
      split at h
      · rename_i a b' ha hb
        injection h with h
        subst h
        have h1 := parseRec_emitRec _ r a (b' ++ rest) ha
        have h2 := parseRecsL_emitRecsL hw item rs b' rest hb
        have hl : ¬ (be hw (r.length / item.length) ++ (a ++ (b' ++ rest))).length < hw := by
          simp [be_length]
        simp only [List.length_cons, parseRecsL, List.append_assoc, if_neg hl]
        rw [take_be_append, drop_be_append, beVal_be _ _ hk.2, h1]
        simp only [h2]
      · cases h
    · cases h

end FontVerif.Field
