/- helper lemmas for C04 (Model/Field.lean): big-endian codec, records, arrays of records -/
import FontVerif.Model.Field

namespace FontVerif.Field

theorem be_length (sz n : Nat) : (be sz n).length = sz := by
  induction sz generalizing n with
  | zero => simp [be]
  | succ k ih => simp [be, ih]

theorem beVal_append_single (bs : Bytes) (b : Nat) : beVal (bs ++ [b]) = beVal bs * 256 + b := by
  simp [beVal, List.foldl_append]

theorem beVal_be (sz n : Nat) (h : n < 256 ^ sz) : beVal (be sz n) = n := by
  induction sz generalizing n with
  | zero =>
    have : n = 0 := by simpa using h
    simp [be, beVal, this]
  | succ k ih =>
    have h1 : n / 256 < 256 ^ k := by
      apply Nat.div_lt_of_lt_mul
      rw [Nat.pow_succ] at h
      omega
    rw [be, beVal_append_single, ih _ h1]
    omega

theorem take_be_append (sz n : Nat) (rest : Bytes) : (be sz n ++ rest).take sz = be sz n := by
  have := be_length sz n
  rw [List.take_append_of_le_length (by omega)]
  rw [List.take_of_length_le (by omega)]

theorem drop_be_append (sz n : Nat) (rest : Bytes) : (be sz n ++ rest).drop sz = rest := by
  have := be_length sz n
  rw [List.drop_append_of_le_length (by omega)]
  rw [List.drop_of_length_le (by omega)]
  simp

theorem emitRec_length : ∀ (ss xs : List Nat) (b : Bytes), emitRec ss xs = some b → b.length = elemSize ss
  | [], [], b, h => by simp [emitRec] at h; simp [h, elemSize]
  | [], _ :: _, b, h => by simp [emitRec] at h
  | _ :: _, [], b, h => by simp [emitRec] at h
  | s :: ss, x :: xs, b, h => by
    simp only [emitRec] at h
    split at h
    · split at h
      · rename_i b' hb'
        have ih := emitRec_length ss xs b' hb'
        injection h with h
        subst h
        simp [be_length, ih, elemSize]
      · cases h
    · cases h

theorem parseRec_emitRec : ∀ (ss xs : List Nat) (b rest : Bytes), emitRec ss xs = some b →
    parseRec ss (b ++ rest) = some (xs, rest)
  | [], [], b, rest, h => by simp [emitRec] at h; simp [h, parseRec]
  | [], _ :: _, b, rest, h => by simp [emitRec] at h
  | _ :: _, [], b, rest, h => by simp [emitRec] at h
  | s :: ss, x :: xs, b, rest, h => by
    simp only [emitRec] at h
    split at h
    · rename_i hx
      split at h
      · rename_i b' hb'
        have ih := parseRec_emitRec ss xs b' rest hb'
        injection h with h
        subst h
        have hl : ¬ (be s x ++ b' ++ rest).length < s := by
          simp [be_length]
        rw [parseRec, if_neg hl]
        rw [List.append_assoc, take_be_append, drop_be_append, ih, beVal_be _ _ hx]
      · cases h
    · cases h

theorem emitRecs_length (elem : List Nat) : ∀ (rs : List (List Nat)) (b : Bytes),
    emitRecs elem rs = some b → b.length = rs.length * elemSize elem
  | [], b, h => by simp [emitRecs] at h; simp [h]
  | r :: rs, b, h => by
    simp only [emitRecs] at h
    split at h
    · rename_i a b' ha hb
      injection h with h
      subst h
      have h1 := emitRec_length elem r a ha
      have h2 := emitRecs_length elem rs b' hb
      simp [h1, h2, Nat.succ_mul]
      omega
    · cases h

theorem parseRecs_emitRecs (elem : List Nat) : ∀ (rs : List (List Nat)) (b rest : Bytes),
    emitRecs elem rs = some b → parseRecs elem rs.length (b ++ rest) = some (rs, rest)
  | [], b, rest, h => by simp [emitRecs] at h; simp [h, parseRecs]
  | r :: rs, b, rest, h => by
    simp only [emitRecs] at h
    split at h
    · rename_i a b' ha hb
      injection h with h
      subst h
      have h1 := parseRec_emitRec elem r a (b' ++ rest) ha
      have h2 := parseRecs_emitRecs elem rs b' rest hb
      simp only [List.length_cons, parseRecs, List.append_assoc, h1, h2]
    · cases h

end FontVerif.Field
