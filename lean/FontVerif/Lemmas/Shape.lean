/-
Helper lemmas for the generic reader theorem (Props/C01.lean).
-/
import FontVerif.Model.Shape

set_option linter.unusedVariables false
set_option linter.unusedSimpArgs false

namespace FontVerif.Shape

/-! ### saturating arithmetic -/

theorem satAdd_exact {a b L : Nat} (h : satAdd a b ≤ L) (hL : L < MAXU) : satAdd a b = a + b := by
  unfold satAdd at *
  split at h <;> simp_all <;> omega

theorem checkedAdd_of_le {a b L : Nat} (h : a + b ≤ L) (hL : L < MAXU) : checkedAdd a b = some (a + b) := by
  unfold checkedAdd; rw [if_pos]; omega

/-! ### steps move the cursor forward only (read backwards from a successful `finish`) -/

theorem step_pos_le {ext : Ext} {d : Data} {st st' : St} {s : Step}
    (h : step ext d st s = .ok st') (hp : st'.pos ≤ d.len) (hL : d.len < MAXU) : st.pos ≤ d.len := by
  cases s <;> simp only [step] at h
  case adv sz =>
    cases h; have := satAdd_exact hp hL; simp only [] at *; omega
  case readVar x sz =>
    split at h
    · cases h
    · cases h; have := satAdd_exact hp hL; simp only [] at *; omega
  case markStart f c =>
    split at h
    · split at h
      · cases h; exact hp
      · cases h
    · cases h; exact hp
  case condAdv c sz =>
    split at h
    · cases h; have := satAdd_exact hp hL; simp only [] at *; omega
    · cases h; exact hp
  case condRead c x sz =>
    split at h
    · split at h
      · cases h
      · cases h; have := satAdd_exact hp hL; simp only [] at *; omega
    · cases h; exact hp
  case letLen f l =>
    split at h
    · cases h
    · cases h; exact hp
  case advBy f =>
    split at h
    · cases h; have := satAdd_exact hp hL; simp only [] at *; omega
    · cases h
  case letLenCond f c l =>
    split at h
    · cases h
    · cases h; exact hp
  case advByCond f =>
    split at h
    · cases h; have := satAdd_exact hp hL; simp only [] at *; omega
    · cases h; exact hp
    · cases h

theorem runSteps_pos_le {ext : Ext} {d : Data} (hL : d.len < MAXU) :
    ∀ (ss : List Step) (st st' : St), runSteps ext d ss st = .ok st' → st'.pos ≤ d.len → st.pos ≤ d.len := by
  intro ss
  induction ss with
  | nil => intro st st' h hp; simp only [runSteps] at h; cases h; exact hp
  | cons s ss ih =>
    intro st st' h hp
    simp only [runSteps] at h
    split at h
    · cases h
    · rename_i st1 h1
      exact step_pos_le h1 (ih _ _ h hp) hL

theorem runSteps_append {ext : Ext} {d : Data} :
    ∀ (a b : List Step) (st st' : St), runSteps ext d (a ++ b) st = .ok st' →
      ∃ st1, runSteps ext d a st = .ok st1 ∧ runSteps ext d b st1 = .ok st' := by
  intro a
  induction a with
  | nil => intro b st st' h; exact ⟨st, rfl, h⟩
  | cons s a ih =>
    intro b st st' h
    simp only [List.cons_append, runSteps] at h ⊢
    split at h
    · cases h
    · rename_i st1 h1
      exact ih b st1 st' h


/-! ### which locals a step (re)binds -/

/-- field whose `f_byte_start` / `f_byte_len` local the step binds -/
def Step.bindsField : Step → Option Nat
  | .markStart f _ => some f
  | .letLen f _ => some f
  | .letLenCond f _ _ => some f
  | _ => none

def Step.bindsVar : Step → Option Nat
  | .readVar x _ => some x
  | .condRead _ x _ => some x
  | _ => none

theorem lookup_cons_ne {β : Type} {a k : Nat} {v : β} {l : List (Nat × β)} (h : a ≠ k) :
    List.lookup a ((k, v) :: l) = List.lookup a l := by
  have : (a == k) = false := by simpa using h
  simp [List.lookup, this]

theorem lookup_cons_self {β : Type} {k : Nat} {v : β} {l : List (Nat × β)} :
    List.lookup k ((k, v) :: l) = some v := by
  simp [List.lookup]

theorem step_preserves {ext : Ext} {d : Data} {st st' : St} {s : Step}
    (h : step ext d st s = .ok st') :
    (∀ id, s.bindsField ≠ some id → st'.starts.lookup id = st.starts.lookup id ∧
        st'.lens.lookup id = st.lens.lookup id) ∧
    (∀ x, s.bindsVar ≠ some x → st'.vars.lookup x = st.vars.lookup x) := by
  cases s <;> simp only [step] at h
  case adv sz => cases h; simp
  case readVar x sz =>
    split at h
    · cases h
    · cases h
      refine ⟨by simp, ?_⟩
      intro y hy
      simp only [Step.bindsVar, ne_eq, Option.some.injEq] at hy
      exact lookup_cons_ne (fun e => hy e.symm)
  case markStart f c =>
    have key : ∀ (v : Option Nat) id, Step.bindsField (.markStart f c) ≠ some id →
        List.lookup id ((f, v) :: st.starts) = List.lookup id st.starts := by
      intro v id hid
      simp only [Step.bindsField, ne_eq, Option.some.injEq] at hid
      exact lookup_cons_ne (fun e => hid e.symm)
    split at h
    · split at h
      · cases h; exact ⟨fun id hid => ⟨key _ id hid, rfl⟩, by simp⟩
      · cases h
    · cases h; exact ⟨fun id hid => ⟨key _ id hid, rfl⟩, by simp⟩
  case condAdv c sz =>
    split at h <;> cases h <;> simp
  case condRead c x sz =>
    have key : ∀ (v : Nat) y, Step.bindsVar (.condRead c x sz) ≠ some y →
        List.lookup y ((x, v) :: st.vars) = List.lookup y st.vars := by
      intro v y hy
      simp only [Step.bindsVar, ne_eq, Option.some.injEq] at hy
      exact lookup_cons_ne (fun e => hy e.symm)
    split at h
    · split at h
      · cases h
      · cases h; exact ⟨by simp, fun y hy => key _ y hy⟩
    · cases h; exact ⟨by simp, fun y hy => key _ y hy⟩
  case letLen f l =>
    split at h
    · cases h
    · cases h
      refine ⟨?_, by simp⟩
      intro id hid
      simp only [Step.bindsField, ne_eq, Option.some.injEq] at hid
      exact ⟨rfl, lookup_cons_ne (fun e => hid e.symm)⟩
  case advBy f =>
    split at h
    · cases h; simp
    · cases h
  case letLenCond f c l =>
    split at h
    · cases h
    · cases h
      refine ⟨?_, by simp⟩
      intro id hid
      simp only [Step.bindsField, ne_eq, Option.some.injEq] at hid
      exact ⟨rfl, lookup_cons_ne (fun e => hid e.symm)⟩
  case advByCond f =>
    split at h
    · cases h; simp
    · cases h; simp
    · cases h

theorem runSteps_preserves {ext : Ext} {d : Data} :
    ∀ (ss : List Step) (st st' : St), runSteps ext d ss st = .ok st' →
    (∀ id, (∀ s ∈ ss, s.bindsField ≠ some id) → st'.starts.lookup id = st.starts.lookup id ∧
        st'.lens.lookup id = st.lens.lookup id) ∧
    (∀ x, (∀ s ∈ ss, s.bindsVar ≠ some x) → st'.vars.lookup x = st.vars.lookup x) := by
  intro ss
  induction ss with
  | nil => intro st st' h; simp only [runSteps] at h; cases h; simp
  | cons s ss ih =>
    intro st st' h
    simp only [runSteps] at h
    split at h
    · cases h
    · rename_i st1 h1
      have p1 := step_preserves h1
      have p2 := ih st1 st' h
      constructor
      · intro id hid
        have a := p1.1 id (hid s (by simp))
        have b := p2.1 id (fun s' hs' => hid s' (by simp [hs']))
        exact ⟨b.1.trans a.1, b.2.trans a.2⟩
      · intro x hx
        have a := p1.2 x (hx s (by simp))
        have b := p2.2 x (fun s' hs' => hx s' (by simp [hs']))
        exact b.trans a

theorem stepsOf_bindsField {fp : FieldP} {s : Step} (hs : s ∈ stepsOf fp) {id : Nat}
    (h : s.bindsField = some id) : id = fp.id := by
  obtain ⟨fid, k⟩ := fp
  cases k with
  | scalar sz rd =>
    cases rd <;> simp [stepsOf] at hs <;> subst hs <;> simp [Step.bindsField] at h
  | computed l =>
    simp [stepsOf] at hs
    rcases hs with hs | hs <;> subst hs <;> simp [Step.bindsField] at h <;> simp [h]
  | condScalar c sz rd =>
    cases rd <;> simp [stepsOf] at hs <;> rcases hs with hs | hs <;> subst hs <;>
      simp [Step.bindsField] at h <;> simp [h]
  | condComputed c l =>
    simp [stepsOf] at hs
    rcases hs with hs | hs | hs <;> subst hs <;> simp [Step.bindsField] at h <;> simp [h]

theorem stepsOf_bindsVar {fp : FieldP} {s : Step} (hs : s ∈ stepsOf fp) {x : Nat}
    (h : s.bindsVar = some x) : fp.readsVar = some x := by
  obtain ⟨fid, k⟩ := fp
  cases k with
  | scalar sz rd =>
    cases rd <;> simp [stepsOf] at hs <;> subst hs <;> simp [Step.bindsVar] at h
    simp [FieldP.readsVar, h]
  | computed l =>
    simp [stepsOf] at hs
    rcases hs with hs | hs <;> subst hs <;> simp [Step.bindsVar] at h
  | condScalar c sz rd =>
    cases rd <;> simp [stepsOf] at hs <;> rcases hs with hs | hs <;> subst hs <;>
      simp [Step.bindsVar] at h
    simp [FieldP.readsVar, h]
  | condComputed c l =>
    simp [stepsOf] at hs
    rcases hs with hs | hs | hs <;> subst hs <;> simp [Step.bindsVar] at h


theorem prog_preserves {ext : Ext} {d : Data} (fps : List FieldP) (st st' : St)
    (h : runSteps ext d (fps.flatMap stepsOf) st = .ok st') :
    (∀ id, id ∉ fps.map FieldP.id → st'.starts.lookup id = st.starts.lookup id ∧
        st'.lens.lookup id = st.lens.lookup id) ∧
    (∀ x, x ∉ boundVars fps → st'.vars.lookup x = st.vars.lookup x) := by
  have p := runSteps_preserves _ _ _ h
  constructor
  · intro id hid
    apply p.1
    intro s hs hb
    rcases List.mem_flatMap.mp hs with ⟨fp, hfp, hsfp⟩
    have := stepsOf_bindsField hsfp hb
    exact hid (List.mem_map.mpr ⟨fp, hfp, this.symm⟩)
  · intro x hx
    apply p.2
    intro s hs hb
    rcases List.mem_flatMap.mp hs with ⟨fp, hfp, hsfp⟩
    have := stepsOf_bindsVar hsfp hb
    exact hx (List.mem_filterMap.mpr ⟨fp, hfp, this⟩)

/-! ### range fns only look at the entries of the fields they mention -/

def EntAgree (m m' : Marker) (id : Nat) : Prop :=
  m.starts.lookup id = m'.starts.lookup id ∧ m.lens.lookup id = m'.lens.lookup id

theorem condRange_congr {m m' : Marker} {f : Field} (h : EntAgree m m' f.id) :
    condRange m f = condRange m' f := by
  unfold condRange Marker.start Marker.olen
  rw [h.1, h.2]

theorem prevEnd_congr {m m' : Marker} : ∀ (rp : List Field), (∀ f ∈ rp, EntAgree m m' f.id) →
    prevEnd m rp = prevEnd m' rp := by
  intro rp
  induction rp with
  | nil => intro _; rfl
  | cons f rest ih =>
    intro h
    have hf := h f (by simp)
    have hr := ih (fun g hg => h g (by simp [hg]))
    unfold prevEnd
    rw [condRange_congr hf, hr]
    unfold Marker.len
    rw [hf.2]

theorem fieldRange_congr {m m' : Marker} {rp : List Field} {f : Field}
    (hf : EntAgree m m' f.id) (hr : ∀ g ∈ rp, EntAgree m m' g.id) :
    fieldRange m rp f = fieldRange m' rp f := by
  unfold fieldRange
  rw [condRange_congr hf, prevEnd_congr rp hr]
  unfold Marker.len
  rw [hf.2]


/-! ### inversion of single steps -/

theorem runSteps_cons_inv {ext : Ext} {d : Data} {s : Step} {ss : List Step} {st st' : St}
    (h : runSteps ext d (s :: ss) st = .ok st') :
    ∃ st1, step ext d st s = .ok st1 ∧ runSteps ext d ss st1 = .ok st' := by
  simp only [runSteps] at h
  split at h
  · cases h
  · rename_i st1 h1; exact ⟨st1, h1, h⟩

theorem runSteps_nil_inv {ext : Ext} {d : Data} {st st' : St}
    (h : runSteps ext d [] st = .ok st') : st' = st := by
  simp only [runSteps] at h; cases h; rfl

theorem step_adv_inv {ext : Ext} {d : Data} {st st1 : St} {sz : Nat}
    (h : step ext d st (.adv sz) = .ok st1) : st1 = { st with pos := satAdd st.pos sz } := by
  simp only [step] at h; cases h; rfl

theorem step_readVar_inv {ext : Ext} {d : Data} {st st1 : St} {x sz : Nat}
    (h : step ext d st (.readVar x sz) = .ok st1) :
    ∃ v, readAt d st.pos sz = some v ∧
      st1 = { st with pos := satAdd st.pos sz, vars := (x, v) :: st.vars } := by
  simp only [step] at h
  split at h
  · cases h
  · rename_i v hv; cases h; exact ⟨v, hv, rfl⟩

theorem step_markStart_inv {ext : Ext} {d : Data} {st st1 : St} {f : Nat} {c : Cond}
    (h : step ext d st (.markStart f c) = .ok st1) :
    (evalCond st.vars c = true ∧ st.pos ≤ d.len ∧
        st1 = { st with starts := (f, some st.pos) :: st.starts }) ∨
    (evalCond st.vars c = false ∧ st1 = { st with starts := (f, none) :: st.starts }) := by
  simp only [step] at h
  split at h
  · rename_i hc
    split at h
    · rename_i hp; cases h; exact Or.inl ⟨hc, hp, rfl⟩
    · cases h
  · rename_i hc; cases h; exact Or.inr ⟨by simpa using hc, rfl⟩

theorem step_condAdv_inv {ext : Ext} {d : Data} {st st1 : St} {sz : Nat} {c : Cond}
    (h : step ext d st (.condAdv c sz) = .ok st1) :
    st1 = if evalCond st.vars c then { st with pos := satAdd st.pos sz } else st := by
  simp only [step] at h
  split at h <;> cases h <;> simp_all

theorem step_condRead_inv {ext : Ext} {d : Data} {st st1 : St} {x sz : Nat} {c : Cond}
    (h : step ext d st (.condRead c x sz) = .ok st1) :
    (evalCond st.vars c = true ∧ ∃ v, readAt d st.pos sz = some v ∧
        st1 = { st with pos := satAdd st.pos sz, vars := (x, v) :: st.vars }) ∨
    (evalCond st.vars c = false ∧ st1 = { st with vars := (x, 0) :: st.vars }) := by
  simp only [step] at h
  split at h
  · rename_i hc
    split at h
    · cases h
    · rename_i v hv; cases h; exact Or.inl ⟨hc, v, hv, rfl⟩
  · rename_i hc; cases h; exact Or.inr ⟨by simpa using hc, rfl⟩

theorem step_letLen_inv {ext : Ext} {d : Data} {st st1 : St} {f : Nat} {l : Len}
    (h : step ext d st (.letLen f l) = .ok st1) :
    ∃ n, evalLen ext d st.pos st.vars l = .ok n ∧
      st1 = { st with lens := (f, some n) :: st.lens } := by
  simp only [step] at h
  split at h
  · cases h
  · rename_i n hn; cases h; exact ⟨n, hn, rfl⟩

theorem step_advBy_inv {ext : Ext} {d : Data} {st st1 : St} {f : Nat}
    (h : step ext d st (.advBy f) = .ok st1) :
    ∃ n, st.lens.lookup f = some (some n) ∧ st1 = { st with pos := satAdd st.pos n } := by
  simp only [step] at h
  split at h
  · rename_i n hn; cases h; exact ⟨n, hn, rfl⟩
  · cases h

theorem step_letLenCond_inv {ext : Ext} {d : Data} {st st1 : St} {f : Nat} {c : Cond} {l : Len}
    (h : step ext d st (.letLenCond f c l) = .ok st1) :
    ∃ n, evalLen ext d st.pos st.vars l = .ok n ∧
      st1 = { st with lens := (f, if evalCond st.vars c then some n else none) :: st.lens } := by
  simp only [step] at h
  split at h
  · cases h
  · rename_i n hn; cases h; exact ⟨n, hn, rfl⟩

theorem step_advByCond_inv {ext : Ext} {d : Data} {st st1 : St} {f : Nat}
    (h : step ext d st (.advByCond f) = .ok st1) :
    (∃ n, st.lens.lookup f = some (some n) ∧ st1 = { st with pos := satAdd st.pos n }) ∨
    (st.lens.lookup f = some none ∧ st1 = st) := by
  simp only [step] at h
  split at h
  · rename_i n hn; cases h; exact Or.inl ⟨n, hn, rfl⟩
  · rename_i hn; cases h; exact Or.inr ⟨hn, rfl⟩
  · cases h

/-! ### what a successful read establishes about one field -/

/-- Facts about field `fp`, whose range fn is evaluated in marker `m` with the preceding fields
`rp` (most recent first). -/
def FieldGood (ext : Ext) (d : Data) (args : List Nat) (m : Marker) (rp : List FieldP) (fp : FieldP) : Prop :=
  match fieldRange m (rp.map fieldOf) (fieldOf fp) with
  | .panic => False
  | .absent => (fieldOf fp).cond = true
  | .range s e => s ≤ e ∧ e ≤ d.len ∧
    match fp.kind with
    | .scalar sz rd => e = s + sz ∧ ∀ x, rd = some x → readAt d s sz = some (getVar m.vars x)
    | .condScalar _ sz _ => e = s + sz
    | .computed l => ∃ vars0,
        (∀ x, x ∈ args ∨ x ∈ boundVars rp → getVar vars0 x = getVar m.vars x) ∧
        evalLen ext d s vars0 l = .ok (e - s)
    | .condComputed _ l => ∃ vars0,
        (∀ x, x ∈ args ∨ x ∈ boundVars rp → getVar vars0 x = getVar m.vars x) ∧
        evalLen ext d s vars0 l = .ok (e - s)

/-- adding an entry for a fresh field does not change the chain of the preceding fields -/
theorem prevEnd_fresh {m m' : Marker} (rp : List FieldP) (fid : Nat)
    (hfresh : ∀ f ∈ rp, f.id ≠ fid)
    (hs : ∀ id, id ≠ fid → m'.starts.lookup id = m.starts.lookup id)
    (hl : ∀ id, id ≠ fid → m'.lens.lookup id = m.lens.lookup id) :
    prevEnd m' (rp.map fieldOf) = prevEnd m (rp.map fieldOf) := by
  apply prevEnd_congr
  intro g hg
  rcases List.mem_map.mp hg with ⟨fp, hfp, rfl⟩
  have : (fieldOf fp).id = fp.id := by
    unfold fieldOf; split <;> rfl
  rw [this]
  exact ⟨hs _ (hfresh fp hfp), hl _ (hfresh fp hfp)⟩

theorem field_step {ext : Ext} {d : Data} (hL : d.len < MAXU) (args : List Nat)
    (fp : FieldP) (st st1 : St) (rp : List FieldP)
    (h : runSteps ext d (stepsOf fp) st = .ok st1) (hp1 : st1.pos ≤ d.len)
    (hfresh : ∀ f ∈ rp, f.id ≠ fp.id)
    (hinv : prevEnd st.marker (rp.map fieldOf) = some st.pos) :
    prevEnd st1.marker ((fp :: rp).map fieldOf) = some st1.pos ∧
    FieldGood ext d args st1.marker rp fp := by
  obtain ⟨fid, k⟩ := fp
  -- the chain of the preceding fields is unaffected by new entries for `fid`
  have hpe : ∀ (vars : Env) (starts lens : OEnv),
      (∀ id, id ≠ fid → starts.lookup id = st.starts.lookup id) →
      (∀ id, id ≠ fid → lens.lookup id = st.lens.lookup id) →
      prevEnd ⟨vars, starts, lens⟩ (rp.map fieldOf) = some st.pos := by
    intro vars starts lens hs hl
    rw [← hinv]
    exact prevEnd_fresh (m := st.marker) (m' := ⟨vars, starts, lens⟩) rp fid hfresh hs hl
  cases k with
  | scalar sz rd =>
    cases rd with
    | none =>
      simp only [stepsOf] at h
      obtain ⟨s1, h1, h2⟩ := runSteps_cons_inv h
      have e2 := runSteps_nil_inv h2
      have e1 := step_adv_inv h1
      subst e2; subst e1
      have hx := satAdd_exact hp1 hL
      simp only [] at hx hp1
      have hc : checkedAdd st.pos sz = some (st.pos + sz) := checkedAdd_of_le (by omega) hL
      have hpe' := hpe st.vars st.starts st.lens (fun _ _ => rfl) (fun _ _ => rfl)
      constructor
      · simp [prevEnd, fieldOf, St.marker]
        rw [hpe']; simp [hc, hx]
      · simp [FieldGood, fieldRange, fieldOf, St.marker]
        rw [hpe']; simp [hc]; omega
    | some x =>
      simp only [stepsOf] at h
      obtain ⟨s1, h1, h2⟩ := runSteps_cons_inv h
      have e2 := runSteps_nil_inv h2
      obtain ⟨v, hv, e1⟩ := step_readVar_inv h1
      subst e2; subst e1
      have hx := satAdd_exact hp1 hL
      simp only [] at hx hp1
      have hc : checkedAdd st.pos sz = some (st.pos + sz) := checkedAdd_of_le (by omega) hL
      have hpe' := hpe ((x, v) :: st.vars) st.starts st.lens (fun _ _ => rfl) (fun _ _ => rfl)
      constructor
      · simp [prevEnd, fieldOf, St.marker]
        rw [hpe']; simp [hc, hx]
      · simp [FieldGood, fieldRange, fieldOf, St.marker]
        rw [hpe']; simp [hc]
        refine ⟨by omega, ?_⟩
        simp [getVar, lookup_cons_self, hv]
  | computed l =>
    simp only [stepsOf] at h
    obtain ⟨s1, h1, h2⟩ := runSteps_cons_inv h
    obtain ⟨s2, h3, h4⟩ := runSteps_cons_inv h2
    have e4 := runSteps_nil_inv h4
    obtain ⟨n, hn, e1⟩ := step_letLen_inv h1
    subst e1
    obtain ⟨n', hn', e3⟩ := step_advBy_inv h3
    simp only [lookup_cons_self, Option.some.injEq] at hn'
    subst hn'; subst e4; subst e3
    have hx := satAdd_exact hp1 hL
    simp only [] at hx hp1
    have hc : checkedAdd st.pos n = some (st.pos + n) := checkedAdd_of_le (by omega) hL
    have hpe' := hpe st.vars st.starts ((fid, some n) :: st.lens) (fun _ _ => rfl)
      (fun id hid => lookup_cons_ne hid)
    constructor
    · simp [prevEnd, fieldOf, St.marker, Marker.len, lookup_cons_self]
      rw [hpe']; simp [hc, hx]
    · simp [FieldGood, fieldRange, fieldOf, St.marker, Marker.len, lookup_cons_self]
      rw [hpe']; simp [hc]
      refine ⟨by omega, st.vars, fun x _ => rfl, ?_⟩
      first | exact hn | (have : st.pos + n - st.pos = n := by omega
                          rw [this]; exact hn)
  | condScalar c sz rd =>
    cases rd with
    | none =>
      simp only [stepsOf] at h
      obtain ⟨s1, h1, h2⟩ := runSteps_cons_inv h
      obtain ⟨s2, h3, h4⟩ := runSteps_cons_inv h2
      have e4 := runSteps_nil_inv h4
      have e3 := step_condAdv_inv h3
      subst e4
      rcases step_markStart_inv h1 with ⟨hc1, hpos, e1⟩ | ⟨hc1, e1⟩
      · subst e1
        simp only [hc1, if_true] at e3
        subst e3
        have hx := satAdd_exact hp1 hL
        simp only [] at hx hp1
        have hc : checkedAdd st.pos sz = some (st.pos + sz) := checkedAdd_of_le (by omega) hL
        constructor
        · simp [prevEnd, fieldOf, St.marker, condRange, Marker.start, lookup_cons_self, hc, hx]
        · simp [FieldGood, fieldRange, fieldOf, St.marker, condRange, Marker.start, lookup_cons_self, hc]
          omega
      · subst e1
        simp only [hc1] at e3
        subst e3
        have hpe' := hpe st.vars ((fid, none) :: st.starts) st.lens
          (fun id hid => lookup_cons_ne hid) (fun _ _ => rfl)
        constructor
        · simp [prevEnd, fieldOf, St.marker, condRange, Marker.start, lookup_cons_self]
          exact hpe'
        · simp [FieldGood, fieldRange, fieldOf, St.marker, condRange, Marker.start, lookup_cons_self]
    | some x =>
      simp only [stepsOf] at h
      obtain ⟨s1, h1, h2⟩ := runSteps_cons_inv h
      obtain ⟨s2, h3, h4⟩ := runSteps_cons_inv h2
      have e4 := runSteps_nil_inv h4
      subst e4
      rcases step_markStart_inv h1 with ⟨hc1, hpos, e1⟩ | ⟨hc1, e1⟩
      · subst e1
        rcases step_condRead_inv h3 with ⟨hc3, v, hv, e3⟩ | ⟨hc3, e3⟩
        · subst e3
          have hx := satAdd_exact hp1 hL
          simp only [] at hx hp1
          have hc : checkedAdd st.pos sz = some (st.pos + sz) := checkedAdd_of_le (by omega) hL
          constructor
          · simp [prevEnd, fieldOf, St.marker, condRange, Marker.start, lookup_cons_self, hc, hx]
          · simp [FieldGood, fieldRange, fieldOf, St.marker, condRange, Marker.start, lookup_cons_self, hc]
            omega
        · simp only [] at hc3; rw [hc1] at hc3; cases hc3
      · subst e1
        rcases step_condRead_inv h3 with ⟨hc3, v, hv, e3⟩ | ⟨hc3, e3⟩
        · simp only [] at hc3; rw [hc1] at hc3; cases hc3
        · subst e3
          have hpe' := hpe ((x, 0) :: st.vars) ((fid, none) :: st.starts) st.lens
            (fun id hid => lookup_cons_ne hid) (fun _ _ => rfl)
          constructor
          · simp [prevEnd, fieldOf, St.marker, condRange, Marker.start, lookup_cons_self]
            exact hpe'
          · simp [FieldGood, fieldRange, fieldOf, St.marker, condRange, Marker.start, lookup_cons_self]
  | condComputed c l =>
    simp only [stepsOf] at h
    obtain ⟨s1, h1, h2⟩ := runSteps_cons_inv h
    obtain ⟨s2, h3, h4⟩ := runSteps_cons_inv h2
    obtain ⟨s3, h5, h6⟩ := runSteps_cons_inv h4
    have e6 := runSteps_nil_inv h6
    subst e6
    rcases step_markStart_inv h1 with ⟨hc1, hpos, e1⟩ | ⟨hc1, e1⟩
    · subst e1
      obtain ⟨n, hn, e3⟩ := step_letLenCond_inv h3
      simp only [hc1, if_true] at e3
      subst e3
      rcases step_advByCond_inv h5 with ⟨n', hn', e5⟩ | ⟨hn', e5⟩
      · simp only [lookup_cons_self, Option.some.injEq] at hn'
        subst hn'; subst e5
        have hx := satAdd_exact hp1 hL
        simp only [] at hx hp1
        have hc : checkedAdd st.pos n = some (st.pos + n) := checkedAdd_of_le (by omega) hL
        constructor
        · simp [prevEnd, fieldOf, St.marker, condRange, Marker.start, Marker.olen, lookup_cons_self, hc, hx]
        · simp [FieldGood, fieldRange, fieldOf, St.marker, condRange, Marker.start, Marker.olen,
            lookup_cons_self, hc]
          refine ⟨by omega, st.vars, fun x _ => rfl, ?_⟩
          first | exact hn | (have : st.pos + n - st.pos = n := by omega
                              rw [this]; exact hn)
      · simp [lookup_cons_self] at hn'
    · subst e1
      obtain ⟨n, hn, e3⟩ := step_letLenCond_inv h3
      simp only [hc1] at e3
      subst e3
      rcases step_advByCond_inv h5 with ⟨n', hn', e5⟩ | ⟨hn', e5⟩
      · simp [lookup_cons_self] at hn'
      · subst e5
        have hpe' := hpe st.vars ((fid, none) :: st.starts) ((fid, none) :: st.lens)
          (fun id hid => lookup_cons_ne hid) (fun id hid => lookup_cons_ne hid)
        constructor
        · simp [prevEnd, fieldOf, St.marker, condRange, Marker.start, lookup_cons_self]
          exact hpe'
        · simp [FieldGood, fieldRange, fieldOf, St.marker, condRange, Marker.start, lookup_cons_self]


theorem fieldOf_id (fp : FieldP) : (fieldOf fp).id = fp.id := by
  unfold fieldOf; split <;> rfl

theorem FieldGood_congr {ext : Ext} {d : Data} {args : List Nat} {m m' : Marker}
    {rp : List FieldP} {fp : FieldP}
    (hf : EntAgree m m' fp.id) (hr : ∀ g ∈ rp, EntAgree m m' g.id)
    (hv : ∀ x, (x ∈ args ∨ x ∈ boundVars rp ∨ fp.readsVar = some x) → getVar m.vars x = getVar m'.vars x)
    (h : FieldGood ext d args m rp fp) : FieldGood ext d args m' rp fp := by
  unfold FieldGood at h ⊢
  have hfr : fieldRange m (rp.map fieldOf) (fieldOf fp) = fieldRange m' (rp.map fieldOf) (fieldOf fp) := by
    apply fieldRange_congr
    · rw [fieldOf_id]; exact hf
    · intro g hg
      rcases List.mem_map.mp hg with ⟨gp, hgp, rfl⟩
      rw [fieldOf_id]; exact hr gp hgp
  rw [← hfr]
  cases hrr : fieldRange m (rp.map fieldOf) (fieldOf fp) with
  | panic => rw [hrr] at h; exact h
  | absent => rw [hrr] at h; exact h
  | range s e =>
    rw [hrr] at h
    simp only [] at h ⊢
    obtain ⟨h1, h2, h3⟩ := h
    refine ⟨h1, h2, ?_⟩
    obtain ⟨fid, k⟩ := fp
    cases k with
    | scalar sz rd =>
      simp only [] at h3 ⊢
      refine ⟨h3.1, ?_⟩
      intro x hx
      rw [← hv x (Or.inr (Or.inr (by simp [FieldP.readsVar, hx])))]
      exact h3.2 x hx
    | condScalar c sz rd => exact h3
    | computed l =>
      simp only [] at h3 ⊢
      obtain ⟨vars0, ha, hl⟩ := h3
      refine ⟨vars0, ?_, hl⟩
      intro x hx
      rw [ha x hx]
      rcases hx with hx | hx
      · exact hv x (Or.inl hx)
      · exact hv x (Or.inr (Or.inl hx))
    | condComputed c l =>
      simp only [] at h3 ⊢
      obtain ⟨vars0, ha, hl⟩ := h3
      refine ⟨vars0, ?_, hl⟩
      intro x hx
      rw [ha x hx]
      rcases hx with hx | hx
      · exact hv x (Or.inl hx)
      · exact hv x (Or.inr (Or.inl hx))

theorem boundVars_cons (fp : FieldP) (rest : List FieldP) :
    boundVars (fp :: rest) = (match fp.readsVar with | some x => x :: boundVars rest | none => boundVars rest) := by
  unfold boundVars
  rw [List.filterMap_cons]
  split <;> simp_all

/-- The generic induction: running the per-field statement groups `fps` from a state whose cursor
equals the chain end of the preceding fields `rp`, with a successful final bounds check, makes
every range fn exact and in bounds. -/
theorem core {ext : Ext} {d : Data} (hL : d.len < MAXU) (args : List Nat) :
    ∀ (fps : List FieldP) (st st' : St) (rp : List FieldP),
      runSteps ext d (fps.flatMap stepsOf) st = .ok st' → st'.pos ≤ d.len →
      (fps.map FieldP.id).Nodup → (∀ f ∈ rp, ∀ g ∈ fps, f.id ≠ g.id) →
      (boundVars fps).Nodup → (∀ x ∈ boundVars rp, x ∉ boundVars fps) →
      (∀ x ∈ args, x ∉ boundVars fps) →
      prevEnd st.marker (rp.map fieldOf) = some st.pos →
      prevEnd st'.marker ((fps.reverse ++ rp).map fieldOf) = some st'.pos ∧
      ∀ a fp b, fps = a ++ fp :: b → FieldGood ext d args st'.marker (a.reverse ++ rp) fp := by
  intro fps
  induction fps with
  | nil =>
    intro st st' rp h hp _ _ _ _ _ hinv
    simp only [List.flatMap_nil] at h
    have := runSteps_nil_inv h
    subst this
    refine ⟨by simpa using hinv, ?_⟩
    intro a fp b hab
    simp at hab
  | cons fp rest ih =>
    intro st st' rp h hp hnd hdisj hvnd hvdisj hargs hinv
    simp only [List.flatMap_cons] at h
    obtain ⟨st1, h1, h2⟩ := runSteps_append _ _ _ _ h
    have hp1 : st1.pos ≤ d.len := runSteps_pos_le hL _ _ _ h2 hp
    have hfresh : ∀ f ∈ rp, f.id ≠ fp.id := fun f hf => hdisj f hf fp (by simp)
    obtain ⟨hinv1, hgood1⟩ := field_step hL args fp st st1 rp h1 hp1 hfresh hinv
    simp only [List.map_cons, List.nodup_cons] at hnd
    rw [boundVars_cons] at hvnd hvdisj hargs
    have hvnd' : (boundVars rest).Nodup := by
      split at hvnd
      · exact (List.nodup_cons.mp hvnd).2
      · exact hvnd
    have hreads : ∀ x, fp.readsVar = some x → x ∉ boundVars rest := by
      intro x hx
      rw [hx] at hvnd
      exact (List.nodup_cons.mp hvnd).1
    have hsub : ∀ x, x ∈ boundVars rest →
        x ∈ (match fp.readsVar with | some x => x :: boundVars rest | none => boundVars rest) := by
      intro x hx
      split <;> simp [hx]
    have ih' := ih st1 st' (fp :: rp) h2 hp hnd.2
      (by
        intro f hf g hg
        rcases List.mem_cons.mp hf with rfl | hf
        · intro e
          exact hnd.1 (List.mem_map.mpr ⟨g, hg, e.symm⟩)
        · exact hdisj f hf g (by simp [hg]))
      hvnd'
      (by
        intro x hx
        rw [boundVars_cons] at hx
        split at hx
        · rename_i y hy
          rcases List.mem_cons.mp hx with rfl | hx
          · exact hreads _ hy
          · exact fun hin => hvdisj x hx (hsub x hin)
        · exact fun hin => hvdisj x hx (hsub x hin))
      (fun x hx hin => hargs x hx (hsub x hin))
      hinv1
    obtain ⟨hend, hall⟩ := ih'
    constructor
    · simpa [List.reverse_cons, List.append_assoc] using hend
    · intro a fp' b hab
      cases a with
      | nil =>
        simp only [List.nil_append, List.cons.injEq] at hab
        obtain ⟨rfl, rfl⟩ := hab
        simp only [List.reverse_nil, List.nil_append]
        have pres := prog_preserves rest st1 st' h2
        apply FieldGood_congr (m := st1.marker) _ _ _ hgood1
        · have := pres.1 fp.id hnd.1
          exact ⟨this.1.symm, this.2.symm⟩
        · intro g hg
          have hgid : g.id ∉ rest.map FieldP.id := by
            intro hin
            rcases List.mem_map.mp hin with ⟨g', hg', e⟩
            exact hdisj g hg g' (by simp [hg']) e.symm
          have := pres.1 g.id hgid
          exact ⟨this.1.symm, this.2.symm⟩
        · intro x hx
          have hnot : x ∉ boundVars rest := by
            rcases hx with hx | hx | hx
            · exact fun hin => hargs x hx (hsub x hin)
            · exact fun hin => hvdisj x hx (hsub x hin)
            · exact hreads x hx
          have := pres.2 x hnot
          simp only [getVar, St.marker]
          rw [this]
      | cons a0 a' =>
        simp only [List.cons_append, List.cons.injEq] at hab
        obtain ⟨rfl, hab⟩ := hab
        have := hall a' fp' b hab
        simpa [List.reverse_cons, List.append_assoc] using this


/-! ### locating a getter's field -/

theorem rangeById_split (m : Marker) : ∀ (a : List FieldP) (pre : List FieldP) (fp : FieldP) (b : List FieldP),
    (∀ f ∈ a, f.id ≠ fp.id) →
    rangeById m (pre.map fieldOf) ((a ++ fp :: b).map fieldOf) fp.id =
      some (fieldRange m ((a.reverse ++ pre).map fieldOf) (fieldOf fp)) := by
  intro a
  induction a with
  | nil =>
    intro pre fp b _
    simp [rangeById, fieldOf_id]
  | cons a0 a ih =>
    intro pre fp b hne
    have h0 : a0.id ≠ fp.id := hne a0 (by simp)
    simp only [List.cons_append, List.map_cons, rangeById, fieldOf_id, if_neg h0]
    have := ih (a0 :: pre) fp b (fun f hf => hne f (by simp [hf]))
    simpa [List.reverse_cons, List.append_assoc] using this

theorem getterWFAux_split (args : List Nat) (g : Getter) : ∀ (suf pre : List FieldP),
    getterWFAux args g pre suf = true →
    ∃ a fp b, suf = a ++ fp :: b ∧ fp.id = g.field ∧ (∀ f ∈ a, f.id ≠ g.field) ∧
      getterCompat args (a.reverse ++ pre) fp.kind g.kind = true := by
  intro suf
  induction suf with
  | nil => intro pre h; simp [getterWFAux] at h
  | cons fp rest ih =>
    intro pre h
    simp only [getterWFAux] at h
    split at h
    · rename_i hid
      exact ⟨[], fp, rest, rfl, hid, by simp, by simpa using h⟩
    · rename_i hid
      obtain ⟨a, fq, b, hsplit, hfq, hne, hc⟩ := ih (fp :: pre) h
      refine ⟨fp :: a, fq, b, by simp [hsplit], hfq, ?_, ?_⟩
      · intro f hf
        rcases List.mem_cons.mp hf with rfl | hf
        · exact hid
        · exact hne f hf
      · simpa [List.reverse_cons, List.append_assoc] using hc

theorem nodup_split_ne {a b : List FieldP} {fp : FieldP}
    (h : ((a ++ fp :: b).map FieldP.id).Nodup) : ∀ f ∈ a, f.id ≠ fp.id := by
  intro f hf e
  rw [List.map_append, List.map_cons] at h
  have := (List.nodup_append.mp h).2.2 f.id (List.mem_map.mpr ⟨f, hf, rfl⟩) fp.id (by simp)
  exact this e

theorem evalLen_elem {ext : Ext} {d : Data} {pos : Nat} {vars : Env} {l : Len} {elem n : Nat}
    (hk : lenElemOk elem l = true) (h : evalLen ext d pos vars l = .ok n) : n % elem = 0 := by
  cases l with
  | mul c sz =>
    cases sz with
    | const k =>
      simp [lenElemOk] at hk; subst hk
      simp only [evalLen, evalSize] at h
      split at h
      · cases h
      · rename_i v hv
        unfold checkedMul at hv
        split at hv
        · cases hv; cases h; exact Nat.mul_mod_left _ _
        · cases hv
    | compute r xs => simp [lenElemOk] at hk
  | one sz =>
    cases sz with
    | const k =>
      simp [lenElemOk] at hk; subst hk
      simp only [evalLen, evalSize] at h
      cases h; exact Nat.mod_self _
    | compute r xs => simp [lenElemOk] at hk
  | remFloor k =>
    simp [lenElemOk] at hk; subst hk
    simp only [evalLen] at h
    cases h; exact Nat.mul_mod_left _ _
  | rem => simp [lenElemOk] at hk
  | varLen k c => simp [lenElemOk] at hk


/-! ### getter arguments evaluate to the locals `read` used -/

theorem gargVal_ok {ext : Ext} {d : Data} {s : Shape} {m : Marker}
    (hfields : s.fields = s.prog.map fieldOf) (hnd : (s.prog.map FieldP.id).Nodup)
    (hall : ∀ a fp b, s.prog = a ++ fp :: b → FieldGood ext d s.args m (a.reverse ++ []) fp)
    (a : List FieldP) (fp : FieldP) (b : List FieldP) (hsplit : s.prog = a ++ fp :: b)
    (vars0 : Env)
    (hagree : ∀ x, x ∈ s.args ∨ x ∈ boundVars (a.reverse ++ []) → getVar vars0 x = getVar m.vars x)
    (ga : GArg) (x : Nat) (hm : gargMatches s.args (a.reverse ++ []) ga x = true) :
    gargVal s d m ga = some (getVar vars0 x) := by
  cases ga with
  | arg y =>
    simp [gargMatches] at hm
    obtain ⟨rfl, hx⟩ := hm
    simp [gargVal, hagree y (Or.inl hx)]
  | field f sz =>
    simp only [gargMatches, List.any_eq_true, Bool.and_eq_true, decide_eq_true_eq] at hm
    obtain ⟨fq, hfq, hfid, hkind⟩ := hm
    have hfqa : fq ∈ a := by simpa using hfq
    obtain ⟨a1, a2, ha⟩ := List.append_of_mem hfqa
    have hsplit' : s.prog = a1 ++ fq :: (a2 ++ fp :: b) := by
      rw [hsplit, ha]; simp
    have hgood := hall a1 fq (a2 ++ fp :: b) hsplit'
    have hne : ∀ g ∈ a1, g.id ≠ fq.id := nodup_split_ne (by rw [← hsplit']; exact hnd)
    have hrange := rangeById_split m a1 [] fq (a2 ++ fp :: b) hne
    simp only [List.map_nil] at hrange
    have hx : x ∈ boundVars (a.reverse ++ []) := by
      unfold boundVars
      apply List.mem_filterMap.mpr
      exact ⟨fq, hfq, by simp [FieldP.readsVar, hkind]⟩
    subst hfid
    simp only [gargVal]
    rw [hfields, hsplit', hrange]
    unfold FieldGood at hgood
    cases hr : fieldRange m ((a1.reverse ++ []).map fieldOf) (fieldOf fq) with
    | panic => rw [hr] at hgood; exact absurd hgood (by simp)
    | absent =>
      rw [hr] at hgood
      simp [fieldOf, hkind] at hgood
    | range s0 e0 =>
      rw [hr] at hgood
      simp only [hkind] at hgood
      obtain ⟨_, _, _, hread⟩ := hgood
      simp only []
      rw [hread x rfl, hagree x (Or.inr hx)]

theorem gargVals_ok {ext : Ext} {d : Data} {s : Shape} {m : Marker}
    (hfields : s.fields = s.prog.map fieldOf) (hnd : (s.prog.map FieldP.id).Nodup)
    (hall : ∀ a fp b, s.prog = a ++ fp :: b → FieldGood ext d s.args m (a.reverse ++ []) fp)
    (a : List FieldP) (fp : FieldP) (b : List FieldP) (hsplit : s.prog = a ++ fp :: b)
    (vars0 : Env)
    (hagree : ∀ x, x ∈ s.args ∨ x ∈ boundVars (a.reverse ++ []) → getVar vars0 x = getVar m.vars x) :
    ∀ (gas : List GArg) (xs : List Nat), gargsMatch s.args (a.reverse ++ []) gas xs = true →
      gargVals s d m gas = some (xs.map (getVar vars0)) := by
  intro gas
  induction gas with
  | nil =>
    intro xs h
    cases xs with
    | nil => rfl
    | cons x xs => simp [gargsMatch] at h
  | cons ga gas ih =>
    intro xs h
    cases xs with
    | nil => simp [gargsMatch] at h
    | cons x xs =>
      simp only [gargsMatch, Bool.and_eq_true] at h
      have h1 := gargVal_ok hfields hnd hall a fp b hsplit vars0 hagree ga x h.1
      have h2 := ih xs h.2
      simp [gargVals, h1, h2]

end FontVerif.Shape
