/-
Helper lemmas for the application of glyph variation deltas (Model/GvarApply.lean): the
run-at-a-time fast path `read_sparse_deltas` on every run structure, what `accumulate_sparse_deltas`
leaves in the working buffer, the fold of `Jiggler` calls, and the composition for one contour.
-/
import FontVerif.Model.GvarApply
import FontVerif.Lemmas.GvarData
import FontVerif.Lemmas.GvarApplyArith
import FontVerif.Lemmas.Iup
set_option linter.unusedVariables false
namespace FontVerif.GvarApply
open FontVerif FontVerif.PackedDeltas FontVerif.GvarData

/-! ### `read_sparse_deltas` over any sequence of valid runs -/

theorem takePts_list : ∀ (n : Nat) (pts : List Nat),
    takePts n (.list pts) = (pts.take n, .list (pts.drop n)) := by
  intro n
  induction n with
  | zero => intro pts; simp [takePts]
  | succ n ih =>
    intro pts
    cases pts with
    | nil => simp [takePts, PtIter.next]
    | cons p ps => simp [takePts, PtIter.next, ih]

theorem readArray_vals (ty : RunType) : ∀ (vals : List Int) (rest : List Nat),
    (∀ v ∈ vals, fits ty v) →
    readArray ty vals.length (vals.flatMap (valBytes ty) ++ rest) = some (vals, rest) := by
  intro vals
  induction vals with
  | nil => intro rest _; simp [readArray]
  | cons v vs ih =>
    intro rest hf
    have hv := readVal_valBytes ty v (vs.flatMap (valBytes ty) ++ rest) (hf v (by simp))
    simp only [List.length_cons, readArray, List.flatMap_cons, List.append_assoc, hv,
      ih rest (fun x hx => hf x (by simp [hx]))]

/-- the fast path over a list of valid runs whose values are matched by enough point numbers:
the calls are the point numbers zipped with the values, and the cursor ends behind the runs -/
theorem readSparse_runs : ∀ (runs : List Run) (fuel cur count : Nat) (pts : List Nat) (rest : List Nat),
    (∀ r ∈ runs, ValidRun r) → cur + total runs = count → total runs ≤ pts.length →
    runs.length + 1 ≤ fuel →
    readSparse fuel cur count (.list pts) (runs.flatMap serializeRun ++ rest)
      = some ((pts.take (total runs)).zip (runs.flatMap (·.2)), rest) := by
  intro runs
  induction runs with
  | nil =>
    intro fuel cur count pts rest _ hc _ hf
    obtain ⟨f, rfl⟩ : ∃ f, fuel = f + 1 := ⟨fuel - 1, by omega⟩
    have : ¬ cur < count := by simp [total] at hc; omega
    simp [readSparse, this, total]
  | cons r rs ih =>
    intro fuel cur count pts rest hv hc hp hf
    obtain ⟨f, rfl⟩ : ∃ f, fuel = f + 1 := ⟨fuel - 1, by omega⟩
    obtain ⟨h1, h2, hfit⟩ := hv r (by simp)
    have ht : total (r :: rs) = r.2.length + total rs := by simp [total]
    rw [ht] at hc hp
    have hlt : cur < count := by omega
    simp only [List.flatMap_cons, List.append_assoc, serializeRun, List.cons_append, readSparse, hlt,
      if_true, flag_count _ _ h1 h2, flag_type _ _ h1 h2]
    rw [readArray_vals r.1 r.2 _ hfit, takePts_list]
    simp only []
    have hlen : ¬ ((pts.take r.2.length).length < r.2.length) := by simp; omega
    have hcond : ¬ (r.1 = RunType.zero ∧ (pts.take r.2.length).length < r.2.length) := fun h => hlen h.2
    simp only [hcond, if_false]
    rw [ih f (cur + r.2.length) count (pts.drop r.2.length) rest (fun x hx => hv x (by simp [hx]))
      (by omega) (by simp; omega) (by simp at hf; omega)]
    simp only [Option.some.injEq, Prod.mk.injEq, and_true]
    rw [ht, List.take_add, List.zip_append (by simp; omega)]

/-- **fast path = slow iterator, every run structure.**  For any two sequences of valid runs
(the x stream and the y stream, `n` values each, any run types / lengths / splitting) and `n`
explicit point numbers: the two passes of `read_sparse_deltas` visit exactly
`(point, x)` and `(point, y)` in order. -/
theorem readSparse_xy (xr yr : List Run) (pts : List Nat) (rest : List Nat)
    (hx : ∀ r ∈ xr, ValidRun r) (hy : ∀ r ∈ yr, ValidRun r)
    (hnx : total xr = pts.length) (hny : total yr = pts.length) :
    readSparse (pts.length + 1) 0 pts.length (.list pts)
        (xr.flatMap serializeRun ++ (yr.flatMap serializeRun ++ rest))
      = some (pts.zip (xr.flatMap (·.2)), yr.flatMap serializeRun ++ rest) ∧
    readSparse (pts.length + 1) 0 pts.length (.list pts) (yr.flatMap serializeRun ++ rest)
      = some (pts.zip (yr.flatMap (·.2)), rest) := by
  have lx : xr.length ≤ total xr := by
    clear hnx
    induction xr with
    | nil => simp
    | cons r rs ih =>
      have := ih (fun x hx' => hx x (by simp [hx']))
      have h1 := (hx r (by simp)).1
      simp only [total, List.flatMap_cons, List.length_append, List.length_cons] at this ⊢; omega
  have ly : yr.length ≤ total yr := by
    clear hny
    induction yr with
    | nil => simp
    | cons r rs ih =>
      have := ih (fun x hx' => hy x (by simp [hx']))
      have h1 := (hy r (by simp)).1
      simp only [total, List.flatMap_cons, List.length_append, List.length_cons] at this ⊢; omega
  constructor
  · have := readSparse_runs xr (pts.length + 1) 0 pts.length pts (yr.flatMap serializeRun ++ rest) hx
      (by omega) (by omega) (by omega)
    rw [this, hnx, List.take_length]
  · have := readSparse_runs yr (pts.length + 1) 0 pts.length pts rest hy (by omega) (by omega) (by omega)
    rw [this, hny, List.take_length]

/-! ### what `accumulate_sparse_deltas` leaves in the working buffer -/

theorem addAt_length : ∀ (l : List Pt) (ix : Nat) (f : Pt → Pt), (addAt l ix f).length = l.length := by
  intro l
  induction l with
  | nil => intro ix f; rfl
  | cons p ps ih => intro ix f; cases ix <;> simp [addAt, ih]

theorem addAt_getD : ∀ (l : List Pt) (ix : Nat) (f : Pt → Pt) (k : Nat) (d : Pt),
    (addAt l ix f).getD k d = if k = ix ∧ k < l.length then f (l.getD k d) else l.getD k d := by
  intro l
  induction l with
  | nil => intro ix f k d; simp [addAt]
  | cons p ps ih =>
    intro ix f k d
    cases ix with
    | zero =>
      cases k with
      | zero => simp [addAt]
      | succ k => simp [addAt]
    | succ ix =>
      cases k with
      | zero => simp [addAt]
      | succ k =>
        simp only [addAt, List.getD_cons_succ, ih, List.length_cons]
        by_cases h : k = ix ∧ k < ps.length
        · have : k + 1 = ix + 1 ∧ k + 1 < ps.length + 1 := ⟨by omega, by omega⟩
          simp [h, this]
        · have : ¬ (k + 1 = ix + 1 ∧ k + 1 < ps.length + 1) := by
            intro hc; exact h ⟨by omega, by omega⟩
          simp [h, this]

theorem setAt_length : ∀ (l : List Bool) (ix : Nat), (setAt l ix).length = l.length := by
  intro l
  induction l with
  | nil => intro ix; rfl
  | cons p ps ih => intro ix; cases ix <;> simp [setAt, ih]

theorem setAt_getD : ∀ (l : List Bool) (ix k : Nat),
    (setAt l ix).getD k false = if k = ix ∧ k < l.length then true else l.getD k false := by
  intro l
  induction l with
  | nil => intro ix k; simp [setAt]
  | cons p ps ih =>
    intro ix k
    cases ix with
    | zero => cases k <;> simp [setAt]
    | succ ix =>
      cases k with
      | zero => simp [setAt]
      | succ k =>
        simp only [setAt, List.getD_cons_succ, ih, List.length_cons]
        by_cases h : k = ix ∧ k < ps.length
        · have : k + 1 = ix + 1 ∧ k + 1 < ps.length + 1 := ⟨by omega, by omega⟩
          simp [h, this]
        · have : ¬ (k + 1 = ix + 1 ∧ k + 1 < ps.length + 1) := by
            intro hc; exact h ⟨by omega, by omega⟩
          simp [h, this]

/-- value listed for point `k` in a list of calls `(point, value)` (first match) -/
def lookupV {α : Type} (calls : List (Nat × α)) (k : Nat) : Option α :=
  (calls.find? fun c => c.1 == k).map (·.2)

theorem lookupV_cons_ne {α : Type} (p : Nat) (v : α) (rest : List (Nat × α)) (k : Nat) (h : p ≠ k) :
    lookupV ((p, v) :: rest) k = lookupV rest k := by
  simp [lookupV, List.find?_cons, h]

theorem lookupV_cons_self {α : Type} (p : Nat) (v : α) (rest : List (Nat × α)) :
    lookupV ((p, v) :: rest) p = some v := by
  simp [lookupV, List.find?_cons]

theorem lookupV_none_of_not_mem {α : Type} (calls : List (Nat × α)) (k : Nat) (h : k ∉ calls.map (·.1)) :
    lookupV calls k = none := by
  unfold lookupV
  rw [List.find?_eq_none.mpr]
  · rfl
  · intro c hc
    simp only [beq_iff_eq]
    intro he
    exact h (List.mem_map.mpr ⟨c, hc, he⟩)

/-- folding "modify entry `c.1` with `g c.2`" over calls with distinct point numbers -/
theorem foldl_addAt_getD {α : Type} (g : α → Pt → Pt) (k : Nat) (d : Pt) :
    ∀ (calls : List (Nat × α)) (l : List Pt), (calls.map (·.1)).Nodup →
    (calls.foldl (fun b c => if c.1 < b.length then addAt b c.1 (g c.2) else b) l).length = l.length ∧
    (calls.foldl (fun b c => if c.1 < b.length then addAt b c.1 (g c.2) else b) l).getD k d
      = match lookupV calls k with
        | some v => if k < l.length then g v (l.getD k d) else l.getD k d
        | none => l.getD k d := by
  intro calls
  induction calls with
  | nil => intro l _; simp [lookupV]
  | cons c rest ih =>
    intro l hnd
    obtain ⟨p, v⟩ := c
    simp only [List.map_cons, List.nodup_cons] at hnd
    simp only [List.foldl_cons]
    have hl' : (if p < l.length then addAt l p (g v) else l).length = l.length := by
      split <;> simp [addAt_length]
    obtain ⟨i1, i2⟩ := ih (if p < l.length then addAt l p (g v) else l) hnd.2
    refine ⟨by rw [i1, hl'], ?_⟩
    rw [i2, hl']
    by_cases hk : p = k
    · subst hk
      rw [lookupV_none_of_not_mem rest p hnd.1]
      simp only [lookupV, List.find?_cons, beq_self_eq_true, Option.map_some]
      by_cases hp : p < l.length
      · rw [if_pos hp, if_pos hp, addAt_getD]; simp [hp]
      · simp [hp]
    · rw [lookupV_cons_ne p v rest k hk]
      have hget : (if p < l.length then addAt l p (g v) else l).getD k d = l.getD k d := by
        split
        · rw [addAt_getD]; simp [Ne.symm hk]
        · rfl
      rw [hget]

theorem foldl_setAt_getD {α : Type} (k : Nat) :
    ∀ (calls : List (Nat × α)) (l : List Bool),
    (calls.foldl (fun b c => if c.1 < b.length then setAt b c.1 else b) l).length = l.length ∧
    (calls.foldl (fun b c => if c.1 < b.length then setAt b c.1 else b) l).getD k false
      = if (lookupV calls k).isSome ∧ k < l.length then true else l.getD k false := by
  intro calls
  induction calls with
  | nil => intro l; simp [lookupV]
  | cons c rest ih =>
    intro l
    obtain ⟨p, v⟩ := c
    simp only [List.foldl_cons]
    have hl' : (if p < l.length then setAt l p else l).length = l.length := by
      split <;> simp [setAt_length]
    obtain ⟨i1, i2⟩ := ih (if p < l.length then setAt l p else l)
    refine ⟨by rw [i1, hl'], ?_⟩
    rw [i2, hl']
    by_cases hk : p = k
    · subst hk
      rw [lookupV_cons_self]
      by_cases hp : p < l.length
      · rw [if_pos hp, setAt_getD]
        have h1 : (p = p ∧ p < l.length) := ⟨rfl, hp⟩
        have h2 : ((some v).isSome = true ∧ p < l.length) := ⟨rfl, hp⟩
        rw [if_pos h1, if_pos h2, ite_self]
      · simp [hp]
    · rw [lookupV_cons_ne p v rest k hk]
      have hget : (if p < l.length then setAt l p else l).getD k false = l.getD k false := by
        split
        · rw [setAt_getD]; simp [Ne.symm hk]
        · rfl
      rw [hget]

/-- the x pass keeps buffer and flags at the same length and acts on them separately -/
theorem foldl_xStep (s : Int) : ∀ (calls : List (Nat × Int)) (st : List Pt × List Bool),
    st.1.length = st.2.length →
    (calls.foldl (xStep s) st).1
      = calls.foldl (fun b c => if c.1 < b.length then
          addAt b c.1 ((fun v p => (Iup.fxAdd p.1 (fxScaled s v), p.2)) c.2) else b) st.1 ∧
    (calls.foldl (xStep s) st).2
      = calls.foldl (fun b c => if c.1 < b.length then setAt b c.1 else b) st.2 := by
  intro calls
  induction calls with
  | nil => intro st _; simp
  | cons c rest ih =>
    intro st hl
    simp only [List.foldl_cons]
    have hstep : xStep s st c = (if c.1 < st.1.length then
        addAt st.1 c.1 (fun p => (Iup.fxAdd p.1 (fxScaled s c.2), p.2)) else st.1,
        if c.1 < st.2.length then setAt st.2 c.1 else st.2) := by
      unfold xStep
      by_cases h : c.1 < st.1.length
      · have h2 : c.1 < st.2.length := by omega
        simp [h, h2]
      · have h2 : ¬ c.1 < st.2.length := by omega
        simp [h, h2]
    rw [hstep]
    have hl' : (if c.1 < st.1.length then addAt st.1 c.1 (fun p => (Iup.fxAdd p.1 (fxScaled s c.2), p.2)) else st.1).length
        = (if c.1 < st.2.length then setAt st.2 c.1 else st.2).length := by
      split <;> split <;> simp [addAt_length, setAt_length, hl] <;> omega
    exact ih _ hl'

/-! ### folding the `Jiggler` calls -/

open FontVerif.Iup in
theorem getP_map_range (n : Nat) (f : Nat → Iup.Pt) (k : Nat) (hk : k < n) :
    getP ((List.range n).map f) k = f k := by
  unfold getP
  rw [List.getD_eq_getElem?_getD, List.getElem?_map, List.getElem?_range hk]
  rfl

open FontVerif.Iup in
theorem applyCall_length (pts out : List Iup.Pt) (c : Call) : (applyCall pts out c).length = out.length := by
  unfold applyCall
  split
  · rfl
  · simp only []
    split
    · split
      · rfl
      · simp
    · simp

open FontVerif.Iup in
/-- the value an `interpolate` call writes into point `k` -/
def interpValue (pts out : List Iup.Pt) (r1 r2 k : Nat) : Iup.Pt :=
  (fxInterpAxis (getP pts r1).1 (getP out r1).1 (getP pts r2).1 (getP out r2).1 (getP pts k).1 (getP out k).1,
   fxInterpAxis (getP pts r1).2 (getP out r1).2 (getP pts r2).2 (getP out r2).2 (getP pts k).2 (getP out k).2)

open FontVerif.Iup in
theorem applyCall_interp_getP (pts out : List Iup.Pt) (c : Call) (hs : c.shift = false) (k : Nat)
    (hk : k < out.length) :
    getP (applyCall pts out c) k = if covers c k then interpValue pts out c.r1 c.r2 k else getP out k := by
  unfold applyCall covers
  by_cases hhl : c.hi < c.lo
  · have : ¬ (c.lo ≤ k ∧ k ≤ c.hi) := by omega
    simp only [hhl, if_true, hs]
    have hcov : (decide (c.lo ≤ k) && decide (k ≤ c.hi) && !(false && decide (k = c.r1))) = false := by
      simp; omega
    rw [hcov]; simp
  · simp only [hhl, if_false, hs, Bool.false_eq_true]
    rw [getP_map_range _ _ k hk]
    by_cases hc : c.lo ≤ k ∧ k ≤ c.hi
    · simp [hc, interpValue]
    · have : (decide (c.lo ≤ k) && decide (k ≤ c.hi) && !(false && decide (k = c.r1))) = false := by
        simp; omega
      rw [this]; simp [hc]

open FontVerif.Iup in
theorem fxInterpAxis_idem (p1 o1 p2 o2 c old : Int) :
    fxInterpAxis p1 o1 p2 o2 c (fxInterpAxis p1 o1 p2 o2 c old) = fxInterpAxis p1 o1 p2 o2 c old := by
  unfold fxInterpAxis
  simp only []
  split <;> (split <;> simp_all)

open FontVerif.Iup in
/-- **fold of interpolate calls.**  If every call is an `interpolate` whose references carry explicit
deltas and which only writes points without one, and all calls that write a point `k` use the same
references `refs k`, then after all calls: explicit points are unchanged, a written point holds the
interpolation between its references' ORIGINAL working values, other points are unchanged. -/
theorem foldl_applyCall_interp (pts : List Iup.Pt) (has : List Bool) (refs : Nat → Nat × Nat)
    (out0 : List Iup.Pt) (hlen : has.length = out0.length) :
    ∀ (calls : List Call),
      (∀ c ∈ calls, c.shift = false ∧
        (c.lo ≤ c.hi → has.getD c.r1 false = true ∧ has.getD c.r2 false = true) ∧
        ∀ k, covers c k = true → has.getD k false = false ∧ refs k = (c.r1, c.r2)) →
      (calls.foldl (applyCall pts) out0).length = out0.length ∧
      ∀ k, k < out0.length →
        getP (calls.foldl (applyCall pts) out0) k =
          if has.getD k false then getP out0 k
          else if calls.any (covers · k) then interpValue pts out0 (refs k).1 (refs k).2 k
          else getP out0 k := by
  intro calls
  induction calls using List.reverseRecOn with
  | nil => intro _; simp
  | append_singleton calls c ih =>
    intro hall
    obtain ⟨ihl, ihv⟩ := ih (fun x hx => hall x (by simp [hx]))
    obtain ⟨hs, href, hcov⟩ := hall c (by simp)
    simp only [List.foldl_append, List.foldl_cons, List.foldl_nil]
    refine ⟨by rw [applyCall_length, ihl], ?_⟩
    intro k hk
    rw [applyCall_interp_getP pts _ c hs k (by rw [ihl]; exact hk)]
    simp only [List.any_append, List.any_cons, List.any_nil, Bool.or_false]
    by_cases hck : covers c k = true
    · obtain ⟨hk0, hrk⟩ := hcov k hck
      have hlohi : c.lo ≤ c.hi := by
        unfold covers at hck
        simp only [Bool.and_eq_true, decide_eq_true_eq] at hck
        omega
      obtain ⟨h1, h2⟩ := href hlohi
      have hr1 : c.r1 < out0.length := by
        by_contra hge
        have : has.getD c.r1 false = false := by
          rw [List.getD_eq_getElem?_getD, List.getElem?_eq_none (by omega)]; rfl
        rw [this] at h1; cases h1
      have hr2 : c.r2 < out0.length := by
        by_contra hge
        have : has.getD c.r2 false = false := by
          rw [List.getD_eq_getElem?_getD, List.getElem?_eq_none (by omega)]; rfl
        rw [this] at h2; cases h2
      simp only [hck, if_true, hk0, Bool.false_eq_true, if_false, Bool.or_true, hrk]
      -- the references still hold their original working values
      have e1 := ihv c.r1 hr1
      have e2 := ihv c.r2 hr2
      simp only [h1, h2, if_true] at e1 e2
      have ek := ihv k hk
      simp only [hk0, Bool.false_eq_true, if_false] at ek
      unfold interpValue
      rw [e1, e2, ek]
      by_cases hprev : calls.any (covers · k) = true
      · simp only [hprev, if_true, hrk, interpValue, fxInterpAxis_idem]
      · simp only [hprev, Bool.false_eq_true, if_false]
    · have hck' : covers c k = false := by simpa using hck
      simp only [hck', Bool.false_eq_true, if_false, Bool.or_false]
      exact ihv k hk

/-! ### shape of the calls for one contour -/

open FontVerif.Iup in
/-- the calls `interpolate_deltas` makes for a contour at points `0 ..= n-1`: none; or one `shift`
around the single explicit point; or only `interpolate` calls whose references are explicit -/
theorem readerContourCalls_shape (has : List Bool) (n np : Nat) (hn : 0 < n) (hnp : n ≤ np) :
    ∃ calls p', readerContourCalls has np 0 (n - 1) = some (calls, p') ∧
      (calls = [] ∨
       (∃ r, calls = [⟨0, n - 1, r, r, true⟩] ∧ r < n ∧ H has r = true) ∨
       (∀ c ∈ calls, c.shift = false ∧ H has c.r1 = true ∧ H has c.r2 = true ∧ c.r1 < n ∧ c.r2 < n ∧
          (c.lo ≤ c.hi → c.hi < n))) := by
  have hl : n - 1 < np := by omega
  unfold readerContourCalls
  obtain ⟨fd, e1, s1, s2, s3, s4⟩ := scanFirst_spec has np (n - 1) hl (n - 1 + 2 - 0) 0 (by omega) (by omega)
  rw [e1]
  simp only []
  by_cases hfd : fd > n - 1
  · simp only [hfd, if_true]
    exact ⟨[], fd, rfl, Or.inl rfl⟩
  · simp only [hfd, if_false]
    have hfdn : fd < n := by omega
    have hfdt : H has fd = true := s4 (by omega)
    obtain ⟨news, cur', e2, g1, g2, g3, g4, g5, g6⟩ :=
      innerLoop_spec has np (n - 1) hl (n - 1 + 1 - fd) (fd + 1) fd [] (by omega) (by omega) (by omega) hfdt
        (fun j a b => by omega)
    rw [e2]
    simp only [List.nil_append]
    by_cases hsingle : cur' = fd
    · subst hsingle
      simp only [if_true]
      have hnews : news = [] := by
        cases news with
        | nil => rfl
        | cons c cs =>
          obtain ⟨⟨_, ⟨_, _, m4, _⟩, _, _⟩, m8, m9⟩ := g5 c (List.mem_cons_self ..)
          omega
      subst hnews
      exact ⟨_, _, rfl, Or.inr (Or.inl ⟨cur', by simp, hfdn, hfdt⟩)⟩
    · simp only [hsingle, if_false]
      refine ⟨_, _, rfl, Or.inr (Or.inr ?_)⟩
      intro c hc
      simp only [List.mem_append, List.mem_singleton] at hc
      rcases hc with (hc | hc) | hc
      · obtain ⟨⟨m1, ⟨m2, m3, m4, _⟩, m6, m7⟩, m8, m9⟩ := g5 c hc
        exact ⟨m1, m2, m3, by omega, by omega, fun _ => by omega⟩
      · subst hc; exact ⟨rfl, g1, hfdt, by simp only; omega, hfdn, fun _ => by simp only; omega⟩
      · by_cases hfd0 : fd > 0
        · simp only [hfd0, if_true, List.mem_singleton] at hc
          subst hc; exact ⟨rfl, g1, hfdt, by simp only; omega, hfdn, fun _ => by simp only; omega⟩
        · simp only [hfd0, if_false, List.not_mem_nil] at hc

/-! ### one contour: the 16.16 working points after `interpolate_deltas` against the specification -/

open FontVerif.Iup in
/-- working points: the glyph's points in 16.16 plus the (already scaled) explicit deltas -/
def workOf (points ex : List Iup.Pt) : List Iup.Pt :=
  (List.range points.length).map fun k =>
    ((getP points k).1 * 65536 + (getP ex k).1, (getP points k).2 * 65536 + (getP ex k).2)

open FontVerif.Iup in
theorem getP_take (l : List Iup.Pt) (n k : Nat) (hk : k < n) : getP (l.take n) k = getP l k := by
  unfold getP
  rw [List.getD_eq_getElem?_getD, List.getD_eq_getElem?_getD, List.getElem?_take_of_lt hk]

open FontVerif.Iup in
theorem getP_workOf (points ex : List Iup.Pt) (k : Nat) (hk : k < points.length) :
    getP (workOf points ex) k =
      ((getP points k).1 * 65536 + (getP ex k).1, (getP points k).2 * 65536 + (getP ex k).2) := by
  unfold workOf; rw [getP_map_range _ _ k hk]

open FontVerif.Iup in
theorem applyCall_shift_getP (pts out : List Iup.Pt) (lo hi r : Nat) (hlh : lo ≤ hi) (k : Nat)
    (hk : k < out.length) :
    getP (applyCall pts out ⟨lo, hi, r, r, true⟩) k =
      if lo ≤ k ∧ k ≤ hi ∧ k ≠ r ∧
          ¬ (fxSub (getP out r).1 (fxFromI32 (getP pts r).1) = 0 ∧ fxSub (getP out r).2 (fxFromI32 (getP pts r).2) = 0)
      then (fxAdd (getP out k).1 (fxSub (getP out r).1 (fxFromI32 (getP pts r).1)),
            fxAdd (getP out k).2 (fxSub (getP out r).2 (fxFromI32 (getP pts r).2)))
      else getP out k := by
  unfold applyCall
  have h1 : ¬ hi < lo := by omega
  simp only [h1, if_false, if_true]
  by_cases hz : fxSub (getP out r).1 (fxFromI32 (getP pts r).1) = 0 ∧ fxSub (getP out r).2 (fxFromI32 (getP pts r).2) = 0
  · simp [hz]
  · simp only [hz, if_false, not_false_eq_true, and_true]
    rw [getP_map_range _ _ k hk]

open FontVerif.Iup in
/-- the six facts relating a 16.16 working value `o` of the point `p` to an inferred delta `I`:
positive denominators and `|den * (o - p * 65536) - num| ≤ den * (den - 1) / 2` on both axes -/
def Near (I : (Int × Int) × (Int × Int)) (o p : Iup.Pt) : Prop :=
  0 < I.1.2 ∧ 0 < I.2.2 ∧
  2 * (I.1.2 * (o.1 - p.1 * 65536) - I.1.1) ≤ I.1.2 * (I.1.2 - 1) ∧
  2 * (I.1.1 - I.1.2 * (o.1 - p.1 * 65536)) ≤ I.1.2 * (I.1.2 - 1) ∧
  2 * (I.2.2 * (o.2 - p.2 * 65536) - I.2.1) ≤ I.2.2 * (I.2.2 - 1) ∧
  2 * (I.2.1 - I.2.2 * (o.2 - p.2 * 65536)) ≤ I.2.2 * (I.2.2 - 1)

theorem Near_exact (a b : Int) (p : Iup.Pt) : Near ((a, 1), (b, 1)) (p.1 * 65536 + a, p.2 * 65536 + b) p := by
  unfold Near; simp only []; refine ⟨by omega, by omega, by omega, by omega, by omega, by omega⟩

open FontVerif.Iup in
/-- **one contour + phantom points.**  `points` = the `n` contour points followed by the four
phantom points, `ex` = the explicit deltas in 16.16 units (zero where `has` is false).  After
`interpolate_deltas` every contour point's working value, minus the point itself, is within
`(den - 1) / 2` units of 2⁻¹⁶ of the specification's inferred delta `num / den` (`inferSpec`, with
`den` = 1 for explicit / shifted / clamped points and the coordinate distance of the two reference
points for interpolated ones), and the phantom points are untouched. -/
theorem contour_contribution (n T : Nat) (hn : 0 < n) (points ex : List Iup.Pt) (has : List Bool)
    (hpl : points.length = n + T) (hhl : has.length = n + T) (hel : ex.length = n + T)
    (M E : Int) (hM : 0 ≤ M ∧ M ≤ 16383) (hE : 0 ≤ E) (hfit : 131072 * M + 4 * E + 65536 ≤ 2147483647)
    (hpts : ∀ k, (-M ≤ (getP points k).1 ∧ (getP points k).1 ≤ M) ∧ (-M ≤ (getP points k).2 ∧ (getP points k).2 ≤ M))
    (hex : ∀ k, (-E ≤ (getP ex k).1 ∧ (getP ex k).1 ≤ E) ∧ (-E ≤ (getP ex k).2 ∧ (getP ex k).2 ≤ E))
    (hex0 : ∀ k, has.getD k false = false → getP ex k = (0, 0)) :
    ∃ out, readerInterpolate points has [n - 1] (workOf points ex) = some out ∧ out.length = n + T ∧
      (∀ k, k < n → Near (inferSpec points (ex.take n) has k) (getP out k) (getP points k)) ∧
      (∀ k, n ≤ k → k < n + T → getP out k = getP (workOf points ex) k) := by
  have hwl : (workOf points ex).length = n + T := by simp [workOf, hpl]
  have hdl : (ex.take n).length = n := by simp [List.length_take, hel]
  obtain ⟨calls, p', ecalls, hA, hB, hC⟩ := readerContourCalls_spec has n (n + T) hn (by omega)
  obtain ⟨calls', p'', ecalls', hshape⟩ := readerContourCalls_shape has n (n + T) hn (by omega)
  rw [ecalls] at ecalls'
  simp only [Option.some.injEq, Prod.mk.injEq] at ecalls'
  obtain ⟨rfl, rfl⟩ := ecalls'
  have hri : readerInterpolate points has [n - 1] (workOf points ex)
      = some (calls.foldl (applyCall points) (workOf points ex)) := by
    simp [readerInterpolate, readerCalls, hpl, ecalls]
  rw [hri]
  have hw : ∀ k, k < n + T → getP (workOf points ex) k =
      ((getP points k).1 * 65536 + (getP ex k).1, (getP points k).2 * 65536 + (getP ex k).2) :=
    fun k hk => getP_workOf points ex k (by omega)
  -- an explicit point that keeps its working value
  have hexplicit : ∀ k, k < n → has.getD k false = true →
      Near (inferSpec points (ex.take n) has k) (getP (workOf points ex) k) (getP points k) := by
    intro k hk hh
    have : inferSpec points (ex.take n) has k = (((getP ex k).1, 1), ((getP ex k).2, 1)) := by
      unfold inferSpec; rw [if_pos hh, getP_take ex n k hk]
    rw [this, hw k (by omega)]
    exact Near_exact _ _ _
  -- an untouched point in a contour without any explicit delta
  have hzero : (∀ j, j < n → has.getD j false = false) → ∀ k, k < n →
      Near (inferSpec points (ex.take n) has k) (getP (workOf points ex) k) (getP points k) := by
    intro hnone k hk
    have hk0 := hnone k hk
    have : inferSpec points (ex.take n) has k = ((0, 1), (0, 1)) := by
      unfold inferSpec
      rw [if_neg (by rw [hk0]; simp), hdl]
      have hp : prevReq has n k = none := by
        unfold prevReq
        exact prevFrom_none' has n hnone n _ (by unfold predC; split <;> omega)
      rw [hp]
    rw [this, hw k (by omega), hex0 k hk0]
    have := Near_exact 0 0 (getP points k)
    simpa using this
  by_cases hany : ∃ j, j < n ∧ H has j = true
  swap
  · -- no explicit delta: no calls
    have hnone : ∀ j, j < n → has.getD j false = false := by
      intro j hj
      cases hh : has.getD j false with
      | false => rfl
      | true => exact absurd ⟨j, hj, hh⟩ hany
    have := hA hnone
    subst this
    exact ⟨_, rfl, hwl, fun k hk => hzero hnone k hk, fun k _ _ => rfl⟩
  rcases hshape with hnil | ⟨r, hshift, hrn, hrt⟩ | hinterp
  · -- explicit deltas but no calls: then every point is explicit
    subst hnil
    simp only [List.foldl_nil]
    refine ⟨_, rfl, hwl, fun k hk => ?_, fun k _ _ => rfl⟩
    cases hh : has.getD k false with
    | true => exact hexplicit k hk hh
    | false =>
      obtain ⟨c, hc, _⟩ := hC k hk hh hany
      simp at hc
  · -- a single explicit point: the contour is shifted
    subst hshift
    simp only [List.foldl_cons, List.foldl_nil]
    have hal : (applyCall points (workOf points ex) ⟨0, n - 1, r, r, true⟩).length = n + T := by
      rw [applyCall_length, hwl]
    obtain ⟨⟨a1, a2⟩, ⟨a3, a4⟩⟩ := hpts r
    obtain ⟨⟨c1, c2⟩, ⟨c3, c4⟩⟩ := hex r
    have hwr := hw r (by omega)
    have f1 : fxFromI32 (getP points r).1 = (getP points r).1 * 65536 := by
      unfold fxFromI32; exact wrapI32_of_in (by omega) (by omega)
    have f2 : fxFromI32 (getP points r).2 = (getP points r).2 * 65536 := by
      unfold fxFromI32; exact wrapI32_of_in (by omega) (by omega)
    have s1 : fxSub (getP (workOf points ex) r).1 (fxFromI32 (getP points r).1) = (getP ex r).1 := by
      rw [hwr, f1]; unfold fxSub; simp only []; rw [wrapI32_of_in (by omega) (by omega)]; ring
    have s2 : fxSub (getP (workOf points ex) r).2 (fxFromI32 (getP points r).2) = (getP ex r).2 := by
      rw [hwr, f2]; unfold fxSub; simp only []; rw [wrapI32_of_in (by omega) (by omega)]; ring
    refine ⟨_, rfl, hal, fun k hk => ?_, fun k hk1 hk2 => ?_⟩
    · rw [applyCall_shift_getP points (workOf points ex) 0 (n - 1) r (by omega) k (by rw [hwl]; omega), s1, s2]
      by_cases hkr : k = r
      · subst hkr
        have : ¬ (0 ≤ k ∧ k ≤ n - 1 ∧ k ≠ k ∧ ¬((getP ex k).1 = 0 ∧ (getP ex k).2 = 0)) := by
          intro h; exact h.2.2.1 rfl
        rw [if_neg this]
        exact hexplicit k hk hrt
      · have hcov : covers ⟨0, n - 1, r, r, true⟩ k = true := by
          rw [covers_iff]; exact ⟨Nat.zero_le _, by simp only; omega, fun ⟨_, h⟩ => hkr h⟩
        obtain ⟨g1, g2, g3, _⟩ := hB _ (by simp) k hk hcov
        simp only at g2 g3
        have g1' : has.getD k false = false := g1
        have hI : inferSpec points (ex.take n) has k = (((getP ex r).1, 1), ((getP ex r).2, 1)) := by
          unfold inferSpec
          rw [if_neg (by rw [g1']; simp), hdl, g2, g3]
          simp only [iupPoint, iupAxis, if_true, getP_take ex n r hrn]
        have hwk := hw k (by omega)
        have hek := hex0 k g1'
        obtain ⟨⟨b1, b2⟩, ⟨b3, b4⟩⟩ := hpts k
        rw [hI, hwk, hek]
        by_cases hz : (getP ex r).1 = 0 ∧ (getP ex r).2 = 0
        · have : ¬ (0 ≤ k ∧ k ≤ n - 1 ∧ k ≠ r ∧ ¬((getP ex r).1 = 0 ∧ (getP ex r).2 = 0)) := by
            intro h; exact h.2.2.2 hz
          rw [if_neg this, hz.1, hz.2]
          exact Near_exact 0 0 _
        · have : (0 ≤ k ∧ k ≤ n - 1 ∧ k ≠ r ∧ ¬((getP ex r).1 = 0 ∧ (getP ex r).2 = 0)) :=
            ⟨Nat.zero_le _, by omega, hkr, hz⟩
          rw [if_pos this]
          have x1 : fxAdd ((getP points k).1 * 65536 + 0) (getP ex r).1
              = (getP points k).1 * 65536 + (getP ex r).1 := by
            unfold fxAdd; rw [wrapI32_of_in (by omega) (by omega)]; ring
          have x2 : fxAdd ((getP points k).2 * 65536 + 0) (getP ex r).2
              = (getP points k).2 * 65536 + (getP ex r).2 := by
            unfold fxAdd; rw [wrapI32_of_in (by omega) (by omega)]; ring
          simp only [] at x1 x2 ⊢
          rw [x1, x2]
          exact Near_exact _ _ _
    · rw [applyCall_shift_getP points (workOf points ex) 0 (n - 1) r (by omega) k (by rw [hwl]; omega)]
      have : ¬ (0 ≤ k ∧ k ≤ n - 1 ∧ k ≠ r ∧
          ¬(fxSub (getP (workOf points ex) r).1 (fxFromI32 (getP points r).1) = 0 ∧
            fxSub (getP (workOf points ex) r).2 (fxFromI32 (getP points r).2) = 0)) := by
        intro h; omega
      rw [if_neg this]
  · -- interpolate calls only
    let refs : Nat → Nat × Nat := fun k => ((prevReq has n k).getD 0, (nextReq has n k).getD 0)
    have hgood : ∀ c ∈ calls, c.shift = false ∧
        (c.lo ≤ c.hi → has.getD c.r1 false = true ∧ has.getD c.r2 false = true) ∧
        ∀ k, covers c k = true → has.getD k false = false ∧ refs k = (c.r1, c.r2) := by
      intro c hc
      obtain ⟨m1, m2, m3, m4, m5, m6⟩ := hinterp c hc
      refine ⟨m1, fun _ => ⟨m2, m3⟩, fun k hcov => ?_⟩
      obtain ⟨c1, c2, _⟩ := (covers_iff c k).mp hcov
      have hkn : k < n := by have := m6 (by omega); omega
      obtain ⟨g1, g2, g3, _⟩ := hB c hc k hkn hcov
      exact ⟨g1, by simp only [refs, g2, g3, Option.getD_some]⟩
    obtain ⟨fl, fv⟩ := foldl_applyCall_interp points has refs (workOf points ex) (by rw [hhl, hwl]) calls hgood
    refine ⟨_, rfl, by rw [fl, hwl], fun k hk => ?_, fun k hk1 hk2 => ?_⟩
    · rw [fv k (by rw [hwl]; omega)]
      cases hh : has.getD k false with
      | true => simp only [if_true]; exact hexplicit k hk hh
      | false =>
        simp only [Bool.false_eq_true, if_false]
        obtain ⟨c, hc, hcov⟩ := hC k hk hh hany
        have hanyc : calls.any (covers · k) = true := List.any_eq_true.mpr ⟨c, hc, hcov⟩
        rw [if_pos hanyc]
        obtain ⟨m1, m2, m3, m4, m5, m6⟩ := hinterp c hc
        obtain ⟨g1, g2, g3, _⟩ := hB c hc k hk hcov
        have hrefs : refs k = (c.r1, c.r2) := by simp only [refs, g2, g3, Option.getD_some]
        rw [hrefs]
        have hI : inferSpec points (ex.take n) has k =
            (readerAxis (getP points c.r1).1 (getP ex c.r1).1 (getP points c.r2).1 (getP ex c.r2).1 (getP points k).1,
             readerAxis (getP points c.r1).2 (getP ex c.r1).2 (getP points c.r2).2 (getP ex c.r2).2 (getP points k).2) := by
          unfold inferSpec
          rw [if_neg (by rw [hh]; simp), hdl, g2, g3]
          simp only [iupPoint, getP_take ex n c.r1 m4, getP_take ex n c.r2 m5,
            C10.reader_infer_eq_writer_segment]
        rw [hI]
        unfold interpValue
        rw [hw c.r1 (by omega), hw c.r2 (by omega), hw k (by omega), hex0 k hh]
        simp only [Int.add_zero]
        obtain ⟨⟨p1a, p1b⟩, ⟨p1c, p1d⟩⟩ := hpts c.r1
        obtain ⟨⟨p2a, p2b⟩, ⟨p2c, p2d⟩⟩ := hpts c.r2
        obtain ⟨⟨pka, pkb⟩, ⟨pkc, pkd⟩⟩ := hpts k
        obtain ⟨⟨e1a, e1b⟩, ⟨e1c, e1d⟩⟩ := hex c.r1
        obtain ⟨⟨e2a, e2b⟩, ⟨e2c, e2d⟩⟩ := hex c.r2
        obtain ⟨bx0, bx1, bx2⟩ := fxInterpAxis_bound (getP points c.r1).1 (getP points c.r2).1 (getP points k).1
          (getP ex c.r1).1 (getP ex c.r2).1 M E ⟨p1a, p1b⟩ ⟨p2a, p2b⟩ ⟨pka, pkb⟩ ⟨e1a, e1b⟩ ⟨e2a, e2b⟩ hM hE hfit
        obtain ⟨by0, by1, by2⟩ := fxInterpAxis_bound (getP points c.r1).2 (getP points c.r2).2 (getP points k).2
          (getP ex c.r1).2 (getP ex c.r2).2 M E ⟨p1c, p1d⟩ ⟨p2c, p2d⟩ ⟨pkc, pkd⟩ ⟨e1c, e1d⟩ ⟨e2c, e2d⟩ hM hE hfit
        obtain ⟨dx0, dx1⟩ := interpDist_lt_den (getP points c.r1).1 (getP ex c.r1).1 (getP points c.r2).1
          (getP ex c.r2).1 (getP points k).1
        obtain ⟨dy0, dy1⟩ := interpDist_lt_den (getP points c.r1).2 (getP ex c.r1).2 (getP points c.r2).2
          (getP ex c.r2).2 (getP points k).2
        have mx := Int.mul_le_mul_of_nonneg_left dx1 (Int.le_of_lt bx0)
        have my := Int.mul_le_mul_of_nonneg_left dy1 (Int.le_of_lt by0)
        unfold Near
        simp only []
        exact ⟨bx0, by0, Int.le_trans bx1 mx, Int.le_trans bx2 mx, Int.le_trans by1 my, Int.le_trans by2 my⟩
    · rw [fv k (by rw [hwl]; omega)]
      have hnc : calls.any (covers · k) = false := by
        rw [List.any_eq_false]
        intro c hc hcov
        obtain ⟨m1, m2, m3, m4, m5, m6⟩ := hinterp c hc
        obtain ⟨c1, c2, _⟩ := (covers_iff c k).mp (by simpa using hcov)
        have := m6 (by omega); omega
      rw [hnc]
      simp

/-! ### inference is linear in the scalar -/

open FontVerif.Iup in
theorem iupAxis_scale (c1 d1 c2 d2 c s : Int) (hs : s ≠ 0) :
    iupAxis c1 (d1 * s) c2 (d2 * s) c = ((iupAxis c1 d1 c2 d2 c).1 * s, (iupAxis c1 d1 c2 d2 c).2) := by
  unfold iupAxis
  by_cases h : c1 = c2
  · simp only [h, if_true]
    by_cases hd : d1 = d2
    · simp [hd]
    · have : ¬ d1 * s = d2 * s := fun e => hd (Int.eq_of_mul_eq_mul_right hs e)
      simp [hd, this]
  · simp only [h, if_false]
    by_cases hgt : c1 > c2
    · simp only [hgt, if_true]
      split
      · rfl
      · split
        · rfl
        · simp only [Prod.mk.injEq, and_true]; ring
    · simp only [hgt, if_false]
      split
      · rfl
      · split
        · rfl
        · simp only [Prod.mk.injEq, and_true]; ring

open FontVerif.Iup in
/-- scaling every delta by `s ≠ 0` scales the inferred numerators and keeps the denominators -/
theorem inferSpec_scale (cs ds : List Iup.Pt) (enc : List Bool) (k : Nat) (s : Int) (hs : s ≠ 0) :
    inferSpec cs (ds.map fun d => (d.1 * s, d.2 * s)) enc k =
      (((inferSpec cs ds enc k).1.1 * s, (inferSpec cs ds enc k).1.2),
       ((inferSpec cs ds enc k).2.1 * s, (inferSpec cs ds enc k).2.2)) := by
  have hg : ∀ i, getP (ds.map fun d => (d.1 * s, d.2 * s)) i = ((getP ds i).1 * s, (getP ds i).2 * s) := by
    intro i
    unfold getP
    rw [List.getD_eq_getElem?_getD, List.getD_eq_getElem?_getD, List.getElem?_map]
    cases ds[i]? <;> simp
  unfold inferSpec
  simp only [List.length_map, hg]
  split
  · rfl
  · split
    · simp only [iupPoint, iupAxis_scale _ _ _ _ _ s hs]
    · simp

/-! ### `accumulate_sparse_deltas`, pointwise -/

theorem zip_map_fst {α : Type} (pts : List Nat) (vs : List α) (h : pts.length ≤ vs.length) :
    (pts.zip vs).map (·.1) = pts := List.map_fst_zip h

/-- **what `accumulate_sparse_deltas` does, point by point** (fast path, scalar applied): given the
calls the two passes make (`pts.zip xs`, `pts.zip ys`, distinct point numbers), entry `k` of the
buffer gets `fxScaled s x` / `fxScaled s y` added if `k` is listed, and its HAS_DELTA flag set;
everything else is untouched. -/
theorem accSparse_pointwise (pts : List Nat) (xs ys : List Int) (ptBytes dBytes bs rest : List Nat)
    (s : Int) (buf : List Pt) (flags : List Bool) (n : Nat) (hb : buf.length = n) (hf : flags.length = n)
    (hcount : (countAndCountBytes ptBytes).1 = pts.length) (hit : ptIterOf ptBytes = .list pts)
    (hx : readSparse (pts.length + 1) 0 pts.length (.list pts) dBytes = some (pts.zip xs, bs))
    (hy : readSparse (pts.length + 1) 0 pts.length (.list pts) bs = some (pts.zip ys, rest))
    (hnd : pts.Nodup) (hlx : xs.length = pts.length) (hly : ys.length = pts.length) :
    ∃ buf' has', accSparse ptBytes dBytes s buf flags = some (buf', has') ∧
      buf'.length = n ∧ has'.length = n ∧
      ∀ k, k < n →
        (buf'.getD k (0, 0)).1 = (match lookupV (pts.zip xs) k with
          | some x => Iup.fxAdd (buf.getD k (0, 0)).1 (fxScaled s x)
          | none => (buf.getD k (0, 0)).1) ∧
        (buf'.getD k (0, 0)).2 = (match lookupV (pts.zip ys) k with
          | some y => Iup.fxAdd (buf.getD k (0, 0)).2 (fxScaled s y)
          | none => (buf.getD k (0, 0)).2) ∧
        has'.getD k false = ((lookupV (pts.zip xs) k).isSome || flags.getD k false) := by
  unfold accSparse
  simp only [hcount, hit, hx, hy]
  obtain ⟨e1, e2⟩ := foldl_xStep s (pts.zip xs) (buf, flags) (by simp [hb, hf])
  have ndx : ((pts.zip xs).map (·.1)).Nodup := by rw [zip_map_fst pts xs (by omega)]; exact hnd
  have ndy : ((pts.zip ys).map (·.1)).Nodup := by rw [zip_map_fst pts ys (by omega)]; exact hnd
  refine ⟨_, _, rfl, ?_, ?_, ?_⟩
  · -- length of the buffer
    unfold yStep
    rw [(foldl_addAt_getD (fun v p => (p.1, Iup.fxAdd p.2 (fxScaled s v))) 0 (0, 0) (pts.zip ys) _ ndy).1,
      e1, (foldl_addAt_getD (fun v p => (Iup.fxAdd p.1 (fxScaled s v), p.2)) 0 (0, 0) (pts.zip xs) buf ndx).1, hb]
  · rw [e2, (foldl_setAt_getD 0 (pts.zip xs) flags).1, hf]
  · intro k hk
    have hxl := foldl_addAt_getD (fun v p => (Iup.fxAdd p.1 (fxScaled s v), p.2)) k (0, 0) (pts.zip xs) buf ndx
    have hyl := foldl_addAt_getD (fun v p => (p.1, Iup.fxAdd p.2 (fxScaled s v))) k (0, 0) (pts.zip ys)
      ((pts.zip xs).foldl (xStep s) (buf, flags)).1 ndy
    have hyl' : (List.foldl (yStep s) ((pts.zip xs).foldl (xStep s) (buf, flags)).1 (pts.zip ys)).getD k (0, 0)
        = _ := hyl.2
    rw [hyl']
    rw [e1] at *
    rw [hxl.2, hxl.1, hb]
    refine ⟨?_, ?_, ?_⟩
    · cases lookupV (pts.zip ys) k <;> cases lookupV (pts.zip xs) k <;> simp [hk]
    · cases lookupV (pts.zip ys) k <;> cases lookupV (pts.zip xs) k <;> simp [hk]
    · rw [e2, (foldl_setAt_getD k (pts.zip xs) flags).2, hf]
      cases hl : lookupV (pts.zip xs) k <;> simp [hk]

/-! ### `composite_glyph`: no inference, every listed delta is added scaled -/

/-- `compositeSparseTuple`, point by point: a listed component / phantom point gets
`(x * s, y * s)` (as `Fixed` products) added, the others are untouched. -/
theorem compositeSparseTuple_pointwise (t : RawTuple) (sp : Option (List Nat)) (s : Int)
    (deltas : List Pt) (hnd : ((t.deltas sp).map (·.1)).Nodup) (k : Nat) (hk : k < deltas.length) :
    (compositeSparseTuple t sp s deltas).length = deltas.length ∧
    (compositeSparseTuple t sp s deltas).getD k (0, 0) = (match lookupV (t.deltas sp) k with
      | some d => ptAdd (deltas.getD k (0, 0))
          (Fixed.mul (Fixed.fromI32 d.1) s, Fixed.mul (Fixed.fromI32 d.2) s)
      | none => deltas.getD k (0, 0)) := by
  unfold compositeSparseTuple
  have := foldl_addAt_getD (fun (d : Int × Int) p =>
    ptAdd p (Fixed.mul (Fixed.fromI32 d.1) s, Fixed.mul (Fixed.fromI32 d.2) s)) k (0, 0) (t.deltas sp) deltas hnd
  refine ⟨this.1, ?_⟩
  rw [this.2]
  cases lookupV (t.deltas sp) k <;> simp [hk]

/-! ### the slow iterator (`TupleDeltaIter`) over any run structure -/

/-- `TupleVariation::deltas()` for explicit points `p0 :: ps` and ANY valid runs for the x and the y
values: the listed points paired with their values -/
theorem tupleDeltas_runs (p0 : Nat) (ps : List Nat) (ptBytes : List Nat) (xr yr : List Run)
    (hvx : ∀ r ∈ xr, ValidRun r) (hvy : ∀ r ∈ yr, ValidRun r)
    (hnx : total xr = (p0 :: ps).length) (hny : total yr = (p0 :: ps).length)
    (hp0 : p0 ≤ 65535) (hasc : SAsc p0 ps)
    (hcc : (countAndCountBytes ptBytes).1 = (p0 :: ps).length)
    (hdec : decodePoints ptBytes = some (p0 :: ps)) :
    tupleDeltas ptBytes (xr.flatMap serializeRun ++ yr.flatMap serializeRun)
      = zipPts (p0 :: ps) (xr.flatMap (·.2)) (yr.flatMap (·.2)) := by
  have hb : ∀ p ∈ p0 :: ps, p ≤ 65535 := by
    intro p hp
    rcases List.mem_cons.mp hp with rfl | hp
    · exact hp0
    · exact (sasc_bound ps p0 hasc p hp).2
  have hlx : (xr.flatMap (·.2)).length = (p0 :: ps).length := by rw [← hnx]; rfl
  have hly : (yr.flatMap (·.2)).length = (p0 :: ps).length := by rw [← hny]; rfl
  have rx : xDeltas (xr.flatMap serializeRun ++ yr.flatMap serializeRun) (2 * (p0 :: ps).length)
      = xr.flatMap (·.2) := by
    unfold xDeltas
    have : 2 * (p0 :: ps).length / 2 = total xr := by omega
    rw [this, decNext_runs xr (total xr) .i8 _ hvx (Nat.le_refl _), Nat.sub_self]
    simp [decNext]
  have ry : yDeltas (xr.flatMap serializeRun ++ yr.flatMap serializeRun) (2 * (p0 :: ps).length)
      = yr.flatMap (·.2) := by
    have := yDeltas_runs xr yr [] hvx hvy (by omega)
    simp only [List.append_nil] at this
    rw [← hnx]; exact this
  unfold tupleDeltas
  have hne : ¬ ((p0 :: ps).length = 0) := by simp
  have hn2 : (p0 :: ps).length * 2 = 2 * (p0 :: ps).length := by omega
  have hit : ptIterOf ptBytes = .list (p0 :: ps) := by simp [ptIterOf, hdec]
  simp only [hcc, hne, if_false, hn2, rx, ry, hit, PtIter.next]
  generalize hxs : xr.flatMap (·.2) = xs at hlx ⊢
  generalize hys : yr.flatMap (·.2) = ys at hly ⊢
  cases xs with
  | nil => simp at hlx
  | cons x xs =>
    cases ys with
    | nil => simp at hly
    | cons y ys =>
      simp only [List.length_cons] at hlx hly
      have hf : 2 * ((x :: xs).length + ptIterLen (.list ps)) + 4 = (2 * xs.length + 2 * ps.length + 5) + 1 := by
        simp [ptIterLen]; omega
      rw [hf, sparseLoop_first _ 0 p0 _ x xs y ys (by omega)]
      rw [sparseLoop_list_tail ps _ p0 xs ys hasc (by omega) (by omega) (by omega)]
      have := zipPts_mod (p0 :: ps) (x :: xs) (y :: ys) hb
      simpa [zipPts] using this

end FontVerif.GvarApply
