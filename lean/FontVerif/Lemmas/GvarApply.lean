/-
Helper lemmas for the application of glyph variation deltas (Model/GvarApply.lean): the
run-at-a-time fast path `read_sparse_deltas` on every run structure, what `accumulate_sparse_deltas`
leaves in the working buffer, the fold of `Jiggler` calls, and the composition for one contour.
-/
import FontVerif.Model.GvarApply
import FontVerif.Lemmas.GvarData
import FontVerif.Lemmas.GvarApplyArith
set_option linter.unusedVariables false
namespace FontVerif.GvarApply
open FontVerif FontVerif.PackedDeltas FontVerif.GvarData

/-! ### `read_sparse_deltas` over any sequence of valid runs -/

theorem takePts_list : ∀ (n : Nat) (pts : List Nat),
    takePts n (.list pts) = (pts.take n, .list (pts.drop n)) := by
  intro n
  induction n with
  | zero => intro pts; simp [takePts]
  | succ n ih =>
    intro pts
    cases pts with
    | nil => simp [takePts, PtIter.next]
    | cons p ps => simp [takePts, PtIter.next, ih]

theorem readArray_vals (ty : RunType) : ∀ (vals : List Int) (rest : List Nat),
    (∀ v ∈ vals, fits ty v) →
    readArray ty vals.length (vals.flatMap (valBytes ty) ++ rest) = some (vals, rest) := by
  intro vals
  induction vals with
  | nil => intro rest _; simp [readArray]
  | cons v vs ih =>
    intro rest hf
    have hv := readVal_valBytes ty v (vs.flatMap (valBytes ty) ++ rest) (hf v (by simp))
    simp only [List.length_cons, readArray, List.flatMap_cons, List.append_assoc, hv,
      ih rest (fun x hx => hf x (by simp [hx]))]

/-- the fast path over a list of valid runs whose values are matched by enough point numbers:
the calls are the point numbers zipped with the values, and the cursor ends behind the runs -/
theorem readSparse_runs : ∀ (runs : List Run) (fuel cur count : Nat) (pts : List Nat) (rest : List Nat),
    (∀ r ∈ runs, ValidRun r) → cur + total runs = count → total runs ≤ pts.length →
    runs.length + 1 ≤ fuel →
    readSparse fuel cur count (.list pts) (runs.flatMap serializeRun ++ rest)
      = some ((pts.take (total runs)).zip (runs.flatMap (·.2)), rest) := by
  intro runs
  induction runs with
  | nil =>
    intro fuel cur count pts rest _ hc _ hf
    obtain ⟨f, rfl⟩ : ∃ f, fuel = f + 1 := ⟨fuel - 1, by omega⟩
    have : ¬ cur < count := by simp [total] at hc; omega
    simp [readSparse, this, total]
  | cons r rs ih =>
    intro fuel cur count pts rest hv hc hp hf
    obtain ⟨f, rfl⟩ : ∃ f, fuel = f + 1 := ⟨fuel - 1, by omega⟩
    obtain ⟨h1, h2, hfit⟩ := hv r (by simp)
    have ht : total (r :: rs) = r.2.length + total rs := by simp [total]
    rw [ht] at hc hp
    have hlt : cur < count := by omega
    simp only [List.flatMap_cons, List.append_assoc, serializeRun, List.cons_append, readSparse, hlt,
      if_true, flag_count _ _ h1 h2, flag_type _ _ h1 h2]
    rw [readArray_vals r.1 r.2 _ hfit, takePts_list]
    simp only []
    have hlen : ¬ ((pts.take r.2.length).length < r.2.length) := by simp; omega
    have hcond : ¬ (r.1 = RunType.zero ∧ (pts.take r.2.length).length < r.2.length) := fun h => hlen h.2
    simp only [hcond, if_false]
    rw [ih f (cur + r.2.length) count (pts.drop r.2.length) rest (fun x hx => hv x (by simp [hx]))
      (by omega) (by simp; omega) (by simp at hf; omega)]
    simp only [Option.some.injEq, Prod.mk.injEq, and_true]
    rw [ht, List.take_add, List.zip_append (by simp; omega)]

/-- **fast path = slow iterator, every run structure.**  For any two sequences of valid runs
(the x stream and the y stream, `n` values each, any run types / lengths / splitting) and `n`
explicit point numbers: the two passes of `read_sparse_deltas` visit exactly
`(point, x)` and `(point, y)` in order. -/
theorem readSparse_xy (xr yr : List Run) (pts : List Nat) (rest : List Nat)
    (hx : ∀ r ∈ xr, ValidRun r) (hy : ∀ r ∈ yr, ValidRun r)
    (hnx : total xr = pts.length) (hny : total yr = pts.length) :
    readSparse (pts.length + 1) 0 pts.length (.list pts)
        (xr.flatMap serializeRun ++ (yr.flatMap serializeRun ++ rest))
      = some (pts.zip (xr.flatMap (·.2)), yr.flatMap serializeRun ++ rest) ∧
    readSparse (pts.length + 1) 0 pts.length (.list pts) (yr.flatMap serializeRun ++ rest)
      = some (pts.zip (yr.flatMap (·.2)), rest) := by
  have lx : xr.length ≤ total xr := by
    clear hnx
    induction xr with
    | nil => simp
    | cons r rs ih =>
      have := ih (fun x hx' => hx x (by simp [hx']))
      have h1 := (hx r (by simp)).1
      simp only [total, List.flatMap_cons, List.length_append, List.length_cons] at this ⊢; omega
  have ly : yr.length ≤ total yr := by
    clear hny
    induction yr with
    | nil => simp
    | cons r rs ih =>
      have := ih (fun x hx' => hy x (by simp [hx']))
      have h1 := (hy r (by simp)).1
      simp only [total, List.flatMap_cons, List.length_append, List.length_cons] at this ⊢; omega
  constructor
  · have := readSparse_runs xr (pts.length + 1) 0 pts.length pts (yr.flatMap serializeRun ++ rest) hx
      (by omega) (by omega) (by omega)
    rw [this, hnx, List.take_length]
  · have := readSparse_runs yr (pts.length + 1) 0 pts.length pts rest hy (by omega) (by omega) (by omega)
    rw [this, hny, List.take_length]

/-! ### what `accumulate_sparse_deltas` leaves in the working buffer -/

theorem addAt_length : ∀ (l : List Pt) (ix : Nat) (f : Pt → Pt), (addAt l ix f).length = l.length := by
  intro l
  induction l with
  | nil => intro ix f; rfl
  | cons p ps ih => intro ix f; cases ix <;> simp [addAt, ih]

theorem addAt_getD : ∀ (l : List Pt) (ix : Nat) (f : Pt → Pt) (k : Nat) (d : Pt),
    (addAt l ix f).getD k d = if k = ix ∧ k < l.length then f (l.getD k d) else l.getD k d := by
  intro l
  induction l with
  | nil => intro ix f k d; simp [addAt]
  | cons p ps ih =>
    intro ix f k d
    cases ix with
    | zero =>
      cases k with
      | zero => simp [addAt]
      | succ k => simp [addAt]
    | succ ix =>
      cases k with
      | zero => simp [addAt]
      | succ k =>
        simp only [addAt, List.getD_cons_succ, ih, List.length_cons]
        by_cases h : k = ix ∧ k < ps.length
        · have : k + 1 = ix + 1 ∧ k + 1 < ps.length + 1 := ⟨by omega, by omega⟩
          simp [h, this]
        · have : ¬ (k + 1 = ix + 1 ∧ k + 1 < ps.length + 1) := by
            intro hc; exact h ⟨by omega, by omega⟩
          simp [h, this]

theorem setAt_length : ∀ (l : List Bool) (ix : Nat), (setAt l ix).length = l.length := by
  intro l
  induction l with
  | nil => intro ix; rfl
  | cons p ps ih => intro ix; cases ix <;> simp [setAt, ih]

theorem setAt_getD : ∀ (l : List Bool) (ix k : Nat),
    (setAt l ix).getD k false = if k = ix ∧ k < l.length then true else l.getD k false := by
  intro l
  induction l with
  | nil => intro ix k; simp [setAt]
  | cons p ps ih =>
    intro ix k
    cases ix with
    | zero => cases k <;> simp [setAt]
    | succ ix =>
      cases k with
      | zero => simp [setAt]
      | succ k =>
        simp only [setAt, List.getD_cons_succ, ih, List.length_cons]
        by_cases h : k = ix ∧ k < ps.length
        · have : k + 1 = ix + 1 ∧ k + 1 < ps.length + 1 := ⟨by omega, by omega⟩
          simp [h, this]
        · have : ¬ (k + 1 = ix + 1 ∧ k + 1 < ps.length + 1) := by
            intro hc; exact h ⟨by omega, by omega⟩
          simp [h, this]

/-- value listed for point `k` in a list of calls `(point, value)` (first match) -/
def lookupV (calls : List (Nat × Int)) (k : Nat) : Option Int :=
  (calls.find? fun c => c.1 == k).map (·.2)

theorem lookupV_cons_ne (p : Nat) (v : Int) (rest : List (Nat × Int)) (k : Nat) (h : p ≠ k) :
    lookupV ((p, v) :: rest) k = lookupV rest k := by
  simp [lookupV, List.find?_cons, h]

theorem lookupV_cons_self (p : Nat) (v : Int) (rest : List (Nat × Int)) :
    lookupV ((p, v) :: rest) p = some v := by
  simp [lookupV, List.find?_cons]

theorem lookupV_none_of_not_mem (calls : List (Nat × Int)) (k : Nat) (h : k ∉ calls.map (·.1)) :
    lookupV calls k = none := by
  unfold lookupV
  rw [List.find?_eq_none.mpr]
  · rfl
  · intro c hc
    simp only [beq_iff_eq]
    intro he
    exact h (List.mem_map.mpr ⟨c, hc, he⟩)

/-- folding "modify entry `c.1` with `g c.2`" over calls with distinct point numbers -/
theorem foldl_addAt_getD (g : Int → Pt → Pt) (k : Nat) (d : Pt) :
    ∀ (calls : List (Nat × Int)) (l : List Pt), (calls.map (·.1)).Nodup →
    (calls.foldl (fun b c => if c.1 < b.length then addAt b c.1 (g c.2) else b) l).length = l.length ∧
    (calls.foldl (fun b c => if c.1 < b.length then addAt b c.1 (g c.2) else b) l).getD k d
      = match lookupV calls k with
        | some v => if k < l.length then g v (l.getD k d) else l.getD k d
        | none => l.getD k d := by
  intro calls
  induction calls with
  | nil => intro l _; simp [lookupV]
  | cons c rest ih =>
    intro l hnd
    obtain ⟨p, v⟩ := c
    simp only [List.map_cons, List.nodup_cons] at hnd
    simp only [List.foldl_cons]
    have hl' : (if p < l.length then addAt l p (g v) else l).length = l.length := by
      split <;> simp [addAt_length]
    obtain ⟨i1, i2⟩ := ih (if p < l.length then addAt l p (g v) else l) hnd.2
    refine ⟨by rw [i1, hl'], ?_⟩
    rw [i2, hl']
    by_cases hk : p = k
    · subst hk
      rw [lookupV_none_of_not_mem rest p hnd.1]
      simp only [lookupV, List.find?_cons, beq_self_eq_true, Option.map_some]
      by_cases hp : p < l.length
      · rw [if_pos hp, if_pos hp, addAt_getD]; simp [hp]
      · simp [hp]
    · rw [lookupV_cons_ne p v rest k hk]
      have hget : (if p < l.length then addAt l p (g v) else l).getD k d = l.getD k d := by
        split
        · rw [addAt_getD]; simp [Ne.symm hk]
        · rfl
      rw [hget]

theorem foldl_setAt_getD (k : Nat) :
    ∀ (calls : List (Nat × Int)) (l : List Bool),
    (calls.foldl (fun b c => if c.1 < b.length then setAt b c.1 else b) l).length = l.length ∧
    (calls.foldl (fun b c => if c.1 < b.length then setAt b c.1 else b) l).getD k false
      = if (lookupV calls k).isSome ∧ k < l.length then true else l.getD k false := by
  intro calls
  induction calls with
  | nil => intro l; simp [lookupV]
  | cons c rest ih =>
    intro l
    obtain ⟨p, v⟩ := c
    simp only [List.foldl_cons]
    have hl' : (if p < l.length then setAt l p else l).length = l.length := by
      split <;> simp [setAt_length]
    obtain ⟨i1, i2⟩ := ih (if p < l.length then setAt l p else l)
    refine ⟨by rw [i1, hl'], ?_⟩
    rw [i2, hl']
    by_cases hk : p = k
    · subst hk
      rw [lookupV_cons_self]
      by_cases hp : p < l.length
      · rw [if_pos hp, setAt_getD]
        have h1 : (p = p ∧ p < l.length) := ⟨rfl, hp⟩
        have h2 : ((some v).isSome = true ∧ p < l.length) := ⟨rfl, hp⟩
        rw [if_pos h1, if_pos h2, ite_self]
      · simp [hp]
    · rw [lookupV_cons_ne p v rest k hk]
      have hget : (if p < l.length then setAt l p else l).getD k false = l.getD k false := by
        split
        · rw [setAt_getD]; simp [Ne.symm hk]
        · rfl
      rw [hget]

/-- the x pass keeps buffer and flags at the same length and acts on them separately -/
theorem foldl_xStep (s : Int) : ∀ (calls : List (Nat × Int)) (st : List Pt × List Bool),
    st.1.length = st.2.length →
    (calls.foldl (xStep s) st).1
      = calls.foldl (fun b c => if c.1 < b.length then
          addAt b c.1 ((fun v p => (Iup.fxAdd p.1 (fxScaled s v), p.2)) c.2) else b) st.1 ∧
    (calls.foldl (xStep s) st).2
      = calls.foldl (fun b c => if c.1 < b.length then setAt b c.1 else b) st.2 := by
  intro calls
  induction calls with
  | nil => intro st _; simp
  | cons c rest ih =>
    intro st hl
    simp only [List.foldl_cons]
    have hstep : xStep s st c = (if c.1 < st.1.length then
        addAt st.1 c.1 (fun p => (Iup.fxAdd p.1 (fxScaled s c.2), p.2)) else st.1,
        if c.1 < st.2.length then setAt st.2 c.1 else st.2) := by
      unfold xStep
      by_cases h : c.1 < st.1.length
      · have h2 : c.1 < st.2.length := by omega
        simp [h, h2]
      · have h2 : ¬ c.1 < st.2.length := by omega
        simp [h, h2]
    rw [hstep]
    have hl' : (if c.1 < st.1.length then addAt st.1 c.1 (fun p => (Iup.fxAdd p.1 (fxScaled s c.2), p.2)) else st.1).length
        = (if c.1 < st.2.length then setAt st.2 c.1 else st.2).length := by
      split <;> split <;> simp [addAt_length, setAt_length, hl] <;> omega
    exact ih _ hl'

/-! ### folding the `Jiggler` calls -/

open FontVerif.Iup in
theorem getP_map_range (n : Nat) (f : Nat → Iup.Pt) (k : Nat) (hk : k < n) :
    getP ((List.range n).map f) k = f k := by
  unfold getP
  rw [List.getD_eq_getElem?_getD, List.getElem?_map, List.getElem?_range hk]
  rfl

open FontVerif.Iup in
theorem applyCall_length (pts out : List Iup.Pt) (c : Call) : (applyCall pts out c).length = out.length := by
  unfold applyCall
  split
  · rfl
  · simp only []
    split
    · split
      · rfl
      · simp
    · simp

open FontVerif.Iup in
/-- the value an `interpolate` call writes into point `k` -/
def interpValue (pts out : List Iup.Pt) (r1 r2 k : Nat) : Iup.Pt :=
  (fxInterpAxis (getP pts r1).1 (getP out r1).1 (getP pts r2).1 (getP out r2).1 (getP pts k).1 (getP out k).1,
   fxInterpAxis (getP pts r1).2 (getP out r1).2 (getP pts r2).2 (getP out r2).2 (getP pts k).2 (getP out k).2)

open FontVerif.Iup in
theorem applyCall_interp_getP (pts out : List Iup.Pt) (c : Call) (hs : c.shift = false) (k : Nat)
    (hk : k < out.length) :
    getP (applyCall pts out c) k = if covers c k then interpValue pts out c.r1 c.r2 k else getP out k := by
  unfold applyCall covers
  by_cases hhl : c.hi < c.lo
  · have : ¬ (c.lo ≤ k ∧ k ≤ c.hi) := by omega
    simp only [hhl, if_true, hs]
    have hcov : (decide (c.lo ≤ k) && decide (k ≤ c.hi) && !(false && decide (k = c.r1))) = false := by
      simp; omega
    rw [hcov]; simp
  · simp only [hhl, if_false, hs, Bool.false_eq_true]
    rw [getP_map_range _ _ k hk]
    by_cases hc : c.lo ≤ k ∧ k ≤ c.hi
    · simp [hc, interpValue]
    · have : (decide (c.lo ≤ k) && decide (k ≤ c.hi) && !(false && decide (k = c.r1))) = false := by
        simp; omega
      rw [this]; simp [hc]

open FontVerif.Iup in
theorem fxInterpAxis_idem (p1 o1 p2 o2 c old : Int) :
    fxInterpAxis p1 o1 p2 o2 c (fxInterpAxis p1 o1 p2 o2 c old) = fxInterpAxis p1 o1 p2 o2 c old := by
  unfold fxInterpAxis
  simp only []
  split <;> (split <;> simp_all)

open FontVerif.Iup in
/-- **fold of interpolate calls.**  If every call is an `interpolate` whose references carry explicit
deltas and which only writes points without one, and all calls that write a point `k` use the same
references `refs k`, then after all calls: explicit points are unchanged, a written point holds the
interpolation between its references' ORIGINAL working values, other points are unchanged. -/
theorem foldl_applyCall_interp (pts : List Iup.Pt) (has : List Bool) (refs : Nat → Nat × Nat)
    (out0 : List Iup.Pt) (hlen : has.length = out0.length) :
    ∀ (calls : List Call),
      (∀ c ∈ calls, c.shift = false ∧
        (c.lo ≤ c.hi → has.getD c.r1 false = true ∧ has.getD c.r2 false = true) ∧
        ∀ k, covers c k = true → has.getD k false = false ∧ refs k = (c.r1, c.r2)) →
      (calls.foldl (applyCall pts) out0).length = out0.length ∧
      ∀ k, k < out0.length →
        getP (calls.foldl (applyCall pts) out0) k =
          if has.getD k false then getP out0 k
          else if calls.any (covers · k) then interpValue pts out0 (refs k).1 (refs k).2 k
          else getP out0 k := by
  intro calls
  induction calls using List.reverseRecOn with
  | nil => intro _; simp
  | append_singleton calls c ih =>
    intro hall
    obtain ⟨ihl, ihv⟩ := ih (fun x hx => hall x (by simp [hx]))
    obtain ⟨hs, href, hcov⟩ := hall c (by simp)
    simp only [List.foldl_append, List.foldl_cons, List.foldl_nil]
    refine ⟨by rw [applyCall_length, ihl], ?_⟩
    intro k hk
    rw [applyCall_interp_getP pts _ c hs k (by rw [ihl]; exact hk)]
    simp only [List.any_append, List.any_cons, List.any_nil, Bool.or_false]
    by_cases hck : covers c k = true
    · obtain ⟨hk0, hrk⟩ := hcov k hck
      have hlohi : c.lo ≤ c.hi := by
        unfold covers at hck
        simp only [Bool.and_eq_true, decide_eq_true_eq] at hck
        omega
      obtain ⟨h1, h2⟩ := href hlohi
      have hr1 : c.r1 < out0.length := by
        by_contra hge
        have : has.getD c.r1 false = false := by
          rw [List.getD_eq_getElem?_getD, List.getElem?_eq_none (by omega)]; rfl
        rw [this] at h1; cases h1
      have hr2 : c.r2 < out0.length := by
        by_contra hge
        have : has.getD c.r2 false = false := by
          rw [List.getD_eq_getElem?_getD, List.getElem?_eq_none (by omega)]; rfl
        rw [this] at h2; cases h2
      simp only [hck, if_true, hk0, Bool.false_eq_true, if_false, Bool.or_true, hrk]
      -- the references still hold their original working values
      have e1 := ihv c.r1 hr1
      have e2 := ihv c.r2 hr2
      simp only [h1, h2, if_true] at e1 e2
      have ek := ihv k hk
      simp only [hk0, Bool.false_eq_true, if_false] at ek
      unfold interpValue
      rw [e1, e2, ek]
      by_cases hprev : calls.any (covers · k) = true
      · simp only [hprev, if_true, hrk, interpValue, fxInterpAxis_idem]
      · simp only [hprev, Bool.false_eq_true, if_false]
    · have hck' : covers c k = false := by simpa using hck
      simp only [hck', Bool.false_eq_true, if_false, Bool.or_false]
      exact ihv k hk

end FontVerif.GvarApply
