/-
Helper lemmas for the application of glyph variation deltas (Model/GvarApply.lean): the
run-at-a-time fast path `read_sparse_deltas` on every run structure, what `accumulate_sparse_deltas`
leaves in the working buffer, the fold of `Jiggler` calls, and the composition for one contour.
-/
import FontVerif.Model.GvarApply
import FontVerif.Lemmas.GvarData
import FontVerif.Lemmas.GvarApplyArith
import FontVerif.Lemmas.Iup
set_option linter.unusedVariables false
namespace FontVerif.GvarApply
open FontVerif FontVerif.PackedDeltas FontVerif.GvarData

/-! ### `read_sparse_deltas` over any sequence of valid runs -/

theorem takePts_list : ∀ (n : Nat) (pts : List Nat),
    takePts n (.list pts) = (pts.take n, .list (pts.drop n)) := by
  intro n
  induction n with
  | zero => intro pts; simp [takePts]
  | succ n ih =>
    intro pts
    cases pts with
    | nil => simp [takePts, PtIter.next]
    | cons p ps => simp [takePts, PtIter.next, ih]

theorem readArray_vals (ty : RunType) : ∀ (vals : List Int) (rest : List Nat),
    (∀ v ∈ vals, fits ty v) →
    readArray ty vals.length (vals.flatMap (valBytes ty) ++ rest) = some (vals, rest) := by
  intro vals
  induction vals with
  | nil => intro rest _; simp [readArray]
  | cons v vs ih =>
    intro rest hf
    have hv := readVal_valBytes ty v (vs.flatMap (valBytes ty) ++ rest) (hf v (by simp))
    simp only [List.length_cons, readArray, List.flatMap_cons, List.append_assoc, hv,
      ih rest (fun x hx => hf x (by simp [hx]))]

/-- the fast path over a list of valid runs whose values are matched by enough point numbers:
the calls are the point numbers zipped with the values, and the cursor ends behind the runs -/
theorem readSparse_runs : ∀ (runs : List Run) (fuel cur count : Nat) (pts : List Nat) (rest : List Nat),
    (∀ r ∈ runs, ValidRun r) → cur + total runs = count → total runs ≤ pts.length →
    runs.length + 1 ≤ fuel →
    readSparse fuel cur count (.list pts) (runs.flatMap serializeRun ++ rest)
      = some ((pts.take (total runs)).zip (runs.flatMap (·.2)), rest) := by
  intro runs
  induction runs with
  | nil =>
    intro fuel cur count pts rest _ hc _ hf
    obtain ⟨f, rfl⟩ : ∃ f, fuel = f + 1 := ⟨fuel - 1, by omega⟩
    have : ¬ cur < count := by simp [total] at hc; omega
    simp [readSparse, this, total]
  | cons r rs ih =>
    intro fuel cur count pts rest hv hc hp hf
    obtain ⟨f, rfl⟩ : ∃ f, fuel = f + 1 := ⟨fuel - 1, by omega⟩
    obtain ⟨h1, h2, hfit⟩ := hv r (by simp)
    have ht : total (r :: rs) = r.2.length + total rs := by simp [total]
    rw [ht] at hc hp
    have hlt : cur < count := by omega
    simp only [List.flatMap_cons, List.append_assoc, serializeRun, List.cons_append, readSparse, hlt,
      if_true, flag_count _ _ h1 h2, flag_type _ _ h1 h2]
    rw [readArray_vals r.1 r.2 _ hfit, takePts_list]
    simp only []
    have hlen : ¬ ((pts.take r.2.length).length < r.2.length) := by simp; omega
    have hcond : ¬ (r.1 = RunType.zero ∧ (pts.take r.2.length).length < r.2.length) := fun h => hlen h.2
    simp only [hcond, if_false]
    rw [ih f (cur + r.2.length) count (pts.drop r.2.length) rest (fun x hx => hv x (by simp [hx]))
      (by omega) (by simp; omega) (by simp at hf; omega)]
    simp only [Option.some.injEq, Prod.mk.injEq, and_true]
    rw [ht, List.take_add, List.zip_append (by simp; omega)]

/-- **fast path = slow iterator, every run structure.**  For any two sequences of valid runs
(the x stream and the y stream, `n` values each, any run types / lengths / splitting) and `n`
explicit point numbers: the two passes of `read_sparse_deltas` visit exactly
`(point, x)` and `(point, y)` in order. -/
theorem readSparse_xy (xr yr : List Run) (pts : List Nat) (rest : List Nat)
    (hx : ∀ r ∈ xr, ValidRun r) (hy : ∀ r ∈ yr, ValidRun r)
    (hnx : total xr = pts.length) (hny : total yr = pts.length) :
    readSparse (pts.length + 1) 0 pts.length (.list pts)
        (xr.flatMap serializeRun ++ (yr.flatMap serializeRun ++ rest))
      = some (pts.zip (xr.flatMap (·.2)), yr.flatMap serializeRun ++ rest) ∧
    readSparse (pts.length + 1) 0 pts.length (.list pts) (yr.flatMap serializeRun ++ rest)
      = some (pts.zip (yr.flatMap (·.2)), rest) := by
  have lx : xr.length ≤ total xr := by
    clear hnx
    induction xr with
    | nil => simp
    | cons r rs ih =>
      have := ih (fun x hx' => hx x (by simp [hx']))
      have h1 := (hx r (by simp)).1
      simp only [total, List.flatMap_cons, List.length_append, List.length_cons] at this ⊢; omega
  have ly : yr.length ≤ total yr := by
    clear hny
    induction yr with
    | nil => simp
    | cons r rs ih =>
      have := ih (fun x hx' => hy x (by simp [hx']))
      have h1 := (hy r (by simp)).1
      simp only [total, List.flatMap_cons, List.length_append, List.length_cons] at this ⊢; omega
  constructor
  · have := readSparse_runs xr (pts.length + 1) 0 pts.length pts (yr.flatMap serializeRun ++ rest) hx
      (by omega) (by omega) (by omega)
    rw [this, hnx, List.take_length]
  · have := readSparse_runs yr (pts.length + 1) 0 pts.length pts rest hy (by omega) (by omega) (by omega)
    rw [this, hny, List.take_length]

/-! ### what `accumulate_sparse_deltas` leaves in the working buffer -/

theorem addAt_length : ∀ (l : List Pt) (ix : Nat) (f : Pt → Pt), (addAt l ix f).length = l.length := by
  intro l
  induction l with
  | nil => intro ix f; rfl
  | cons p ps ih => intro ix f; cases ix <;> simp [addAt, ih]

theorem addAt_getD : ∀ (l : List Pt) (ix : Nat) (f : Pt → Pt) (k : Nat) (d : Pt),
    (addAt l ix f).getD k d = if k = ix ∧ k < l.length then f (l.getD k d) else l.getD k d := by
  intro l
  induction l with
  | nil => intro ix f k d; simp [addAt]
  | cons p ps ih =>
    intro ix f k d
    cases ix with
    | zero =>
      cases k with
      | zero => simp [addAt]
      | succ k => simp [addAt]
    | succ ix =>
      cases k with
      | zero => simp [addAt]
      | succ k =>
        simp only [addAt, List.getD_cons_succ, ih, List.length_cons]
        by_cases h : k = ix ∧ k < ps.length
        · have : k + 1 = ix + 1 ∧ k + 1 < ps.length + 1 := ⟨by omega, by omega⟩
          simp [h, this]
        · have : ¬ (k + 1 = ix + 1 ∧ k + 1 < ps.length + 1) := by
            intro hc; exact h ⟨by omega, by omega⟩
          simp [h, this]

theorem setAt_length : ∀ (l : List Bool) (ix : Nat), (setAt l ix).length = l.length := by
  intro l
  induction l with
  | nil => intro ix; rfl
  | cons p ps ih => intro ix; cases ix <;> simp [setAt, ih]

theorem setAt_getD : ∀ (l : List Bool) (ix k : Nat),
    (setAt l ix).getD k false = if k = ix ∧ k < l.length then true else l.getD k false := by
  intro l
  induction l with
  | nil => intro ix k; simp [setAt]
  | cons p ps ih =>
    intro ix k
    cases ix with
    | zero => cases k <;> simp [setAt]
    | succ ix =>
      cases k with
      | zero => simp [setAt]
      | succ k =>
        simp only [setAt, List.getD_cons_succ, ih, List.length_cons]
        by_cases h : k = ix ∧ k < ps.length
        · have : k + 1 = ix + 1 ∧ k + 1 < ps.length + 1 := ⟨by omega, by omega⟩
          simp [h, this]
        · have : ¬ (k + 1 = ix + 1 ∧ k + 1 < ps.length + 1) := by
            intro hc; exact h ⟨by omega, by omega⟩
          simp [h, this]

/-- value listed for point `k` in a list of calls `(point, value)` (first match) -/
def lookupV (calls : List (Nat × Int)) (k : Nat) : Option Int :=
  (calls.find? fun c => c.1 == k).map (·.2)

theorem lookupV_cons_ne (p : Nat) (v : Int) (rest : List (Nat × Int)) (k : Nat) (h : p ≠ k) :
    lookupV ((p, v) :: rest) k = lookupV rest k := by
  simp [lookupV, List.find?_cons, h]

theorem lookupV_cons_self (p : Nat) (v : Int) (rest : List (Nat × Int)) :
    lookupV ((p, v) :: rest) p = some v := by
  simp [lookupV, List.find?_cons]

theorem lookupV_none_of_not_mem (calls : List (Nat × Int)) (k : Nat) (h : k ∉ calls.map (·.1)) :
    lookupV calls k = none := by
  unfold lookupV
  rw [List.find?_eq_none.mpr]
  · rfl
  · intro c hc
    simp only [beq_iff_eq]
    intro he
    exact h (List.mem_map.mpr ⟨c, hc, he⟩)

/-- folding "modify entry `c.1` with `g c.2`" over calls with distinct point numbers -/
theorem foldl_addAt_getD (g : Int → Pt → Pt) (k : Nat) (d : Pt) :
    ∀ (calls : List (Nat × Int)) (l : List Pt), (calls.map (·.1)).Nodup →
    (calls.foldl (fun b c => if c.1 < b.length then addAt b c.1 (g c.2) else b) l).length = l.length ∧
    (calls.foldl (fun b c => if c.1 < b.length then addAt b c.1 (g c.2) else b) l).getD k d
      = match lookupV calls k with
        | some v => if k < l.length then g v (l.getD k d) else l.getD k d
        | none => l.getD k d := by
  intro calls
  induction calls with
  | nil => intro l _; simp [lookupV]
  | cons c rest ih =>
    intro l hnd
    obtain ⟨p, v⟩ := c
    simp only [List.map_cons, List.nodup_cons] at hnd
    simp only [List.foldl_cons]
    have hl' : (if p < l.length then addAt l p (g v) else l).length = l.length := by
      split <;> simp [addAt_length]
    obtain ⟨i1, i2⟩ := ih (if p < l.length then addAt l p (g v) else l) hnd.2
    refine ⟨by rw [i1, hl'], ?_⟩
    rw [i2, hl']
    by_cases hk : p = k
    · subst hk
      rw [lookupV_none_of_not_mem rest p hnd.1]
      simp only [lookupV, List.find?_cons, beq_self_eq_true, Option.map_some]
      by_cases hp : p < l.length
      · rw [if_pos hp, if_pos hp, addAt_getD]; simp [hp]
      · simp [hp]
    · rw [lookupV_cons_ne p v rest k hk]
      have hget : (if p < l.length then addAt l p (g v) else l).getD k d = l.getD k d := by
        split
        · rw [addAt_getD]; simp [Ne.symm hk]
        · rfl
      rw [hget]

theorem foldl_setAt_getD (k : Nat) :
    ∀ (calls : List (Nat × Int)) (l : List Bool),
    (calls.foldl (fun b c => if c.1 < b.length then setAt b c.1 else b) l).length = l.length ∧
    (calls.foldl (fun b c => if c.1 < b.length then setAt b c.1 else b) l).getD k false
      = if (lookupV calls k).isSome ∧ k < l.length then true else l.getD k false := by
  intro calls
  induction calls with
  | nil => intro l; simp [lookupV]
  | cons c rest ih =>
    intro l
    obtain ⟨p, v⟩ := c
    simp only [List.foldl_cons]
    have hl' : (if p < l.length then setAt l p else l).length = l.length := by
      split <;> simp [setAt_length]
    obtain ⟨i1, i2⟩ := ih (if p < l.length then setAt l p else l)
    refine ⟨by rw [i1, hl'], ?_⟩
    rw [i2, hl']
    by_cases hk : p = k
    · subst hk
      rw [lookupV_cons_self]
      by_cases hp : p < l.length
      · rw [if_pos hp, setAt_getD]
        have h1 : (p = p ∧ p < l.length) := ⟨rfl, hp⟩
        have h2 : ((some v).isSome = true ∧ p < l.length) := ⟨rfl, hp⟩
        rw [if_pos h1, if_pos h2, ite_self]
      · simp [hp]
    · rw [lookupV_cons_ne p v rest k hk]
      have hget : (if p < l.length then setAt l p else l).getD k false = l.getD k false := by
        split
        · rw [setAt_getD]; simp [Ne.symm hk]
        · rfl
      rw [hget]

/-- the x pass keeps buffer and flags at the same length and acts on them separately -/
theorem foldl_xStep (s : Int) : ∀ (calls : List (Nat × Int)) (st : List Pt × List Bool),
    st.1.length = st.2.length →
    (calls.foldl (xStep s) st).1
      = calls.foldl (fun b c => if c.1 < b.length then
          addAt b c.1 ((fun v p => (Iup.fxAdd p.1 (fxScaled s v), p.2)) c.2) else b) st.1 ∧
    (calls.foldl (xStep s) st).2
      = calls.foldl (fun b c => if c.1 < b.length then setAt b c.1 else b) st.2 := by
  intro calls
  induction calls with
  | nil => intro st _; simp
  | cons c rest ih =>
    intro st hl
    simp only [List.foldl_cons]
    have hstep : xStep s st c = (if c.1 < st.1.length then
        addAt st.1 c.1 (fun p => (Iup.fxAdd p.1 (fxScaled s c.2), p.2)) else st.1,
        if c.1 < st.2.length then setAt st.2 c.1 else st.2) := by
      unfold xStep
      by_cases h : c.1 < st.1.length
      · have h2 : c.1 < st.2.length := by omega
        simp [h, h2]
      · have h2 : ¬ c.1 < st.2.length := by omega
        simp [h, h2]
    rw [hstep]
    have hl' : (if c.1 < st.1.length then addAt st.1 c.1 (fun p => (Iup.fxAdd p.1 (fxScaled s c.2), p.2)) else st.1).length
        = (if c.1 < st.2.length then setAt st.2 c.1 else st.2).length := by
      split <;> split <;> simp [addAt_length, setAt_length, hl] <;> omega
    exact ih _ hl'

/-! ### folding the `Jiggler` calls -/

open FontVerif.Iup in
theorem getP_map_range (n : Nat) (f : Nat → Iup.Pt) (k : Nat) (hk : k < n) :
    getP ((List.range n).map f) k = f k := by
  unfold getP
  rw [List.getD_eq_getElem?_getD, List.getElem?_map, List.getElem?_range hk]
  rfl

open FontVerif.Iup in
theorem applyCall_length (pts out : List Iup.Pt) (c : Call) : (applyCall pts out c).length = out.length := by
  unfold applyCall
  split
  · rfl
  · simp only []
    split
    · split
      · rfl
      · simp
    · simp

open FontVerif.Iup in
/-- the value an `interpolate` call writes into point `k` -/
def interpValue (pts out : List Iup.Pt) (r1 r2 k : Nat) : Iup.Pt :=
  (fxInterpAxis (getP pts r1).1 (getP out r1).1 (getP pts r2).1 (getP out r2).1 (getP pts k).1 (getP out k).1,
   fxInterpAxis (getP pts r1).2 (getP out r1).2 (getP pts r2).2 (getP out r2).2 (getP pts k).2 (getP out k).2)

open FontVerif.Iup in
theorem applyCall_interp_getP (pts out : List Iup.Pt) (c : Call) (hs : c.shift = false) (k : Nat)
    (hk : k < out.length) :
    getP (applyCall pts out c) k = if covers c k then interpValue pts out c.r1 c.r2 k else getP out k := by
  unfold applyCall covers
  by_cases hhl : c.hi < c.lo
  · have : ¬ (c.lo ≤ k ∧ k ≤ c.hi) := by omega
    simp only [hhl, if_true, hs]
    have hcov : (decide (c.lo ≤ k) && decide (k ≤ c.hi) && !(false && decide (k = c.r1))) = false := by
      simp; omega
    rw [hcov]; simp
  · simp only [hhl, if_false, hs, Bool.false_eq_true]
    rw [getP_map_range _ _ k hk]
    by_cases hc : c.lo ≤ k ∧ k ≤ c.hi
    · simp [hc, interpValue]
    · have : (decide (c.lo ≤ k) && decide (k ≤ c.hi) && !(false && decide (k = c.r1))) = false := by
        simp; omega
      rw [this]; simp [hc]

open FontVerif.Iup in
theorem fxInterpAxis_idem (p1 o1 p2 o2 c old : Int) :
    fxInterpAxis p1 o1 p2 o2 c (fxInterpAxis p1 o1 p2 o2 c old) = fxInterpAxis p1 o1 p2 o2 c old := by
  unfold fxInterpAxis
  simp only []
  split <;> (split <;> simp_all)

open FontVerif.Iup in
/-- **fold of interpolate calls.**  If every call is an `interpolate` whose references carry explicit
deltas and which only writes points without one, and all calls that write a point `k` use the same
references `refs k`, then after all calls: explicit points are unchanged, a written point holds the
interpolation between its references' ORIGINAL working values, other points are unchanged. -/
theorem foldl_applyCall_interp (pts : List Iup.Pt) (has : List Bool) (refs : Nat → Nat × Nat)
    (out0 : List Iup.Pt) (hlen : has.length = out0.length) :
    ∀ (calls : List Call),
      (∀ c ∈ calls, c.shift = false ∧
        (c.lo ≤ c.hi → has.getD c.r1 false = true ∧ has.getD c.r2 false = true) ∧
        ∀ k, covers c k = true → has.getD k false = false ∧ refs k = (c.r1, c.r2)) →
      (calls.foldl (applyCall pts) out0).length = out0.length ∧
      ∀ k, k < out0.length →
        getP (calls.foldl (applyCall pts) out0) k =
          if has.getD k false then getP out0 k
          else if calls.any (covers · k) then interpValue pts out0 (refs k).1 (refs k).2 k
          else getP out0 k := by
  intro calls
  induction calls using List.reverseRecOn with
  | nil => intro _; simp
  | append_singleton calls c ih =>
    intro hall
    obtain ⟨ihl, ihv⟩ := ih (fun x hx => hall x (by simp [hx]))
    obtain ⟨hs, href, hcov⟩ := hall c (by simp)
    simp only [List.foldl_append, List.foldl_cons, List.foldl_nil]
    refine ⟨by rw [applyCall_length, ihl], ?_⟩
    intro k hk
    rw [applyCall_interp_getP pts _ c hs k (by rw [ihl]; exact hk)]
    simp only [List.any_append, List.any_cons, List.any_nil, Bool.or_false]
    by_cases hck : covers c k = true
    · obtain ⟨hk0, hrk⟩ := hcov k hck
      have hlohi : c.lo ≤ c.hi := by
        unfold covers at hck
        simp only [Bool.and_eq_true, decide_eq_true_eq] at hck
        omega
      obtain ⟨h1, h2⟩ := href hlohi
      have hr1 : c.r1 < out0.length := by
        by_contra hge
        have : has.getD c.r1 false = false := by
          rw [List.getD_eq_getElem?_getD, List.getElem?_eq_none (by omega)]; rfl
        rw [this] at h1; cases h1
      have hr2 : c.r2 < out0.length := by
        by_contra hge
        have : has.getD c.r2 false = false := by
          rw [List.getD_eq_getElem?_getD, List.getElem?_eq_none (by omega)]; rfl
        rw [this] at h2; cases h2
      simp only [hck, if_true, hk0, Bool.false_eq_true, if_false, Bool.or_true, hrk]
      -- the references still hold their original working values
      have e1 := ihv c.r1 hr1
      have e2 := ihv c.r2 hr2
      simp only [h1, h2, if_true] at e1 e2
      have ek := ihv k hk
      simp only [hk0, Bool.false_eq_true, if_false] at ek
      unfold interpValue
      rw [e1, e2, ek]
      by_cases hprev : calls.any (covers · k) = true
      · simp only [hprev, if_true, hrk, interpValue, fxInterpAxis_idem]
      · simp only [hprev, Bool.false_eq_true, if_false]
    · have hck' : covers c k = false := by simpa using hck
      simp only [hck', Bool.false_eq_true, if_false, Bool.or_false]
      exact ihv k hk

/-! ### shape of the calls for one contour -/

open FontVerif.Iup in
/-- the calls `interpolate_deltas` makes for a contour at points `0 ..= n-1`: none; or one `shift`
around the single explicit point; or only `interpolate` calls whose references are explicit -/
theorem readerContourCalls_shape (has : List Bool) (n np : Nat) (hn : 0 < n) (hnp : n ≤ np) :
    ∃ calls p', readerContourCalls has np 0 (n - 1) = some (calls, p') ∧
      (calls = [] ∨
       (∃ r, calls = [⟨0, n - 1, r, r, true⟩] ∧ r < n ∧ H has r = true) ∨
       (∀ c ∈ calls, c.shift = false ∧ H has c.r1 = true ∧ H has c.r2 = true ∧ c.r1 < n ∧ c.r2 < n)) := by
  have hl : n - 1 < np := by omega
  unfold readerContourCalls
  obtain ⟨fd, e1, s1, s2, s3, s4⟩ := scanFirst_spec has np (n - 1) hl (n - 1 + 2 - 0) 0 (by omega) (by omega)
  rw [e1]
  simp only []
  by_cases hfd : fd > n - 1
  · simp only [hfd, if_true]
    exact ⟨[], fd, rfl, Or.inl rfl⟩
  · simp only [hfd, if_false]
    have hfdn : fd < n := by omega
    have hfdt : H has fd = true := s4 (by omega)
    obtain ⟨news, cur', e2, g1, g2, g3, g4, g5, g6⟩ :=
      innerLoop_spec has np (n - 1) hl (n - 1 + 1 - fd) (fd + 1) fd [] (by omega) (by omega) (by omega) hfdt
        (fun j a b => by omega)
    rw [e2]
    simp only [List.nil_append]
    by_cases hsingle : cur' = fd
    · subst hsingle
      simp only [if_true]
      have hnews : news = [] := by
        cases news with
        | nil => rfl
        | cons c cs =>
          obtain ⟨⟨_, ⟨_, _, m4, _⟩, _, _⟩, m8, m9⟩ := g5 c (List.mem_cons_self ..)
          omega
      subst hnews
      exact ⟨_, _, rfl, Or.inr (Or.inl ⟨cur', by simp, hfdn, hfdt⟩)⟩
    · simp only [hsingle, if_false]
      refine ⟨_, _, rfl, Or.inr (Or.inr ?_)⟩
      intro c hc
      simp only [List.mem_append, List.mem_singleton] at hc
      rcases hc with (hc | hc) | hc
      · obtain ⟨⟨m1, ⟨m2, m3, m4, _⟩, _, _⟩, m8, m9⟩ := g5 c hc
        exact ⟨m1, m2, m3, by omega, by omega⟩
      · subst hc; exact ⟨rfl, g1, hfdt, by simp only; omega, hfdn⟩
      · by_cases hfd0 : fd > 0
        · simp only [hfd0, if_true, List.mem_singleton] at hc
          subst hc; exact ⟨rfl, g1, hfdt, by simp only; omega, hfdn⟩
        · simp only [hfd0, if_false, List.not_mem_nil] at hc

/-! ### one contour: the 16.16 working points after `interpolate_deltas` against the specification -/

open FontVerif.Iup in
/-- working points: the glyph's points in 16.16 plus the (already scaled) explicit deltas -/
def workOf (points ex : List Iup.Pt) : List Iup.Pt :=
  (List.range points.length).map fun k =>
    ((getP points k).1 * 65536 + (getP ex k).1, (getP points k).2 * 65536 + (getP ex k).2)

open FontVerif.Iup in
theorem getP_take (l : List Iup.Pt) (n k : Nat) (hk : k < n) : getP (l.take n) k = getP l k := by
  unfold getP
  rw [List.getD_eq_getElem?_getD, List.getD_eq_getElem?_getD, List.getElem?_take_of_lt hk]

open FontVerif.Iup in
theorem getP_workOf (points ex : List Iup.Pt) (k : Nat) (hk : k < points.length) :
    getP (workOf points ex) k =
      ((getP points k).1 * 65536 + (getP ex k).1, (getP points k).2 * 65536 + (getP ex k).2) := by
  unfold workOf; rw [getP_map_range _ _ k hk]

open FontVerif.Iup in
theorem applyCall_shift_getP (pts out : List Iup.Pt) (lo hi r : Nat) (hlh : lo ≤ hi) (k : Nat)
    (hk : k < out.length) :
    getP (applyCall pts out ⟨lo, hi, r, r, true⟩) k =
      if lo ≤ k ∧ k ≤ hi ∧ k ≠ r ∧
          ¬ (fxSub (getP out r).1 (fxFromI32 (getP pts r).1) = 0 ∧ fxSub (getP out r).2 (fxFromI32 (getP pts r).2) = 0)
      then (fxAdd (getP out k).1 (fxSub (getP out r).1 (fxFromI32 (getP pts r).1)),
            fxAdd (getP out k).2 (fxSub (getP out r).2 (fxFromI32 (getP pts r).2)))
      else getP out k := by
  unfold applyCall
  have h1 : ¬ hi < lo := by omega
  simp only [h1, if_false, if_true]
  by_cases hz : fxSub (getP out r).1 (fxFromI32 (getP pts r).1) = 0 ∧ fxSub (getP out r).2 (fxFromI32 (getP pts r).2) = 0
  · simp [hz]
  · simp only [hz, if_false, not_false_eq_true, and_true]
    rw [getP_map_range _ _ k hk]

open FontVerif.Iup in
/-- **one contour + phantom points.**  `points` = the `n` contour points followed by the four
phantom points, `ex` = the explicit deltas in 16.16 units (zero where `has` is false).  After
`interpolate_deltas` every contour point's working value, minus the point itself, is within
`(den - 1) / 2` units of 2⁻¹⁶ of the specification's inferred delta `num / den` (`inferSpec`, with
`den` = 1 for explicit / shifted / clamped points and the coordinate distance of the two reference
points for interpolated ones), and the phantom points are untouched. -/
theorem contour_contribution (n : Nat) (hn : 0 < n) (points ex : List Iup.Pt) (has : List Bool)
    (hpl : points.length = n + 4) (hhl : has.length = n + 4)
    (M E : Int) (hM : 0 ≤ M ∧ M ≤ 16383) (hE : 0 ≤ E) (hfit : 131072 * M + 4 * E + 65536 ≤ 2147483647)
    (hpts : ∀ k, (-M ≤ (getP points k).1 ∧ (getP points k).1 ≤ M) ∧ (-M ≤ (getP points k).2 ∧ (getP points k).2 ≤ M))
    (hex : ∀ k, (-E ≤ (getP ex k).1 ∧ (getP ex k).1 ≤ E) ∧ (-E ≤ (getP ex k).2 ∧ (getP ex k).2 ≤ E))
    (hex0 : ∀ k, has.getD k false = false → getP ex k = (0, 0)) :
    ∃ out, readerInterpolate points has [n - 1] (workOf points ex) = some out ∧ out.length = n + 4 ∧
      (∀ k, k < n →
        0 < (inferSpec points (ex.take n) has k).1.2 ∧ 0 < (inferSpec points (ex.take n) has k).2.2 ∧
        2 * ((inferSpec points (ex.take n) has k).1.2 * ((getP out k).1 - (getP points k).1 * 65536)
              - (inferSpec points (ex.take n) has k).1.1)
          ≤ (inferSpec points (ex.take n) has k).1.2 * ((inferSpec points (ex.take n) has k).1.2 - 1) ∧
        2 * ((inferSpec points (ex.take n) has k).1.1
              - (inferSpec points (ex.take n) has k).1.2 * ((getP out k).1 - (getP points k).1 * 65536))
          ≤ (inferSpec points (ex.take n) has k).1.2 * ((inferSpec points (ex.take n) has k).1.2 - 1) ∧
        2 * ((inferSpec points (ex.take n) has k).2.2 * ((getP out k).2 - (getP points k).2 * 65536)
              - (inferSpec points (ex.take n) has k).2.1)
          ≤ (inferSpec points (ex.take n) has k).2.2 * ((inferSpec points (ex.take n) has k).2.2 - 1) ∧
        2 * ((inferSpec points (ex.take n) has k).2.1
              - (inferSpec points (ex.take n) has k).2.2 * ((getP out k).2 - (getP points k).2 * 65536))
          ≤ (inferSpec points (ex.take n) has k).2.2 * ((inferSpec points (ex.take n) has k).2.2 - 1)) ∧
      (∀ k, n ≤ k → k < n + 4 → getP out k = getP (workOf points ex) k) := by
  have hwl : (workOf points ex).length = n + 4 := by simp [workOf, hpl]
  have hdsl : (ex.take n).length = n ∨ (ex.take n).length < n := by
    simp only [List.length_take]; omega
  obtain ⟨calls, p', ecalls, hA, hB, hC⟩ := readerContourCalls_spec has n (n + 4) hn (by omega)
  obtain ⟨calls', p'', ecalls', hshape⟩ := readerContourCalls_shape has n (n + 4) hn (by omega)
  rw [ecalls] at ecalls'
  simp only [Option.some.injEq, Prod.mk.injEq] at ecalls'
  obtain ⟨rfl, rfl⟩ := ecalls'
  have hri : readerInterpolate points has [n - 1] (workOf points ex)
      = some (calls.foldl (applyCall points) (workOf points ex)) := by
    simp [readerInterpolate, readerCalls, hpl, ecalls]
  rw [hri]
  -- a point's working value when it is explicit / untouched
  have hw : ∀ k, k < n + 4 → getP (workOf points ex) k =
      ((getP points k).1 * 65536 + (getP ex k).1, (getP points k).2 * 65536 + (getP ex k).2) :=
    fun k hk => getP_workOf points ex k (by omega)
  -- the facts for an explicit point
  have hexplicit : ∀ k, k < n → has.getD k false = true → ∀ (o : Iup.Pt), o = getP (workOf points ex) k →
      0 < (inferSpec points (ex.take n) has k).1.2 ∧ 0 < (inferSpec points (ex.take n) has k).2.2 ∧
      2 * ((inferSpec points (ex.take n) has k).1.2 * (o.1 - (getP points k).1 * 65536)
            - (inferSpec points (ex.take n) has k).1.1)
        ≤ (inferSpec points (ex.take n) has k).1.2 * ((inferSpec points (ex.take n) has k).1.2 - 1) ∧
      2 * ((inferSpec points (ex.take n) has k).1.1
            - (inferSpec points (ex.take n) has k).1.2 * (o.1 - (getP points k).1 * 65536))
        ≤ (inferSpec points (ex.take n) has k).1.2 * ((inferSpec points (ex.take n) has k).1.2 - 1) ∧
      2 * ((inferSpec points (ex.take n) has k).2.2 * (o.2 - (getP points k).2 * 65536)
            - (inferSpec points (ex.take n) has k).2.1)
        ≤ (inferSpec points (ex.take n) has k).2.2 * ((inferSpec points (ex.take n) has k).2.2 - 1) ∧
      2 * ((inferSpec points (ex.take n) has k).2.1
            - (inferSpec points (ex.take n) has k).2.2 * (o.2 - (getP points k).2 * 65536))
        ≤ (inferSpec points (ex.take n) has k).2.2 * ((inferSpec points (ex.take n) has k).2.2 - 1) := by
    intro k hk hh o ho
    have : inferSpec points (ex.take n) has k = (((getP ex k).1, 1), ((getP ex k).2, 1)) := by
      simp [inferSpec, hh, getP_take ex n k hk]
    rw [this, ho, hw k (by omega)]
    simp only []
    refine ⟨by omega, by omega, by omega, by omega, by omega, by omega⟩
  rcases hshape with hnil | ⟨r, hshift, hrn, hrt⟩ | hinterp
  · -- no explicit delta in the contour
    subst hnil
    simp only [List.foldl_nil]
    refine ⟨_, rfl, hwl, fun k hk => ?_, fun k _ _ => rfl⟩
    have hnone : ∀ j, j < n → has.getD j false = false := by
      intro j hj
      cases hh : has.getD j false with
      | false => rfl
      | true =>
        -- then every other point would be covered by a call, but there is none; j itself explicit…
        exfalso
        by_cases hall : ∀ i, i < n → has.getD i false = true
        · -- all explicit: the scan finds point 0, so calls cannot be empty unless n points all explicit → calls still contain the wrap call
          have := hA
          -- use the shape: re-run the spec's coverage is vacuous; derive contradiction from the definition
          have e := ecalls
          unfold readerContourCalls at e
          obtain ⟨fd, e1, s1, s2, s3, s4⟩ := scanFirst_spec has (n + 4) (n - 1) (by omega) (n - 1 + 2 - 0) 0 (by omega) (by omega)
          rw [e1] at e
          simp only [] at e
          have hfd0 : fd = 0 := by
            by_contra hne
            have := s3 0 (by omega) (by omega)
            rw [hall 0 hn] at this; cases this
          subst hfd0
          have : ¬ (0 > n - 1) := by omega
          simp only [this, if_false] at e
          obtain ⟨news, cur', e2, g1, g2, g3, g4, g5, g6⟩ :=
            innerLoop_spec has (n + 4) (n - 1) (by omega) (n - 1 + 1 - 0) (0 + 1) 0 [] (by omega) (by omega) (by omega)
              (hall 0 hn) (fun j a b => by omega)
          rw [e2] at e
          simp only [List.nil_append] at e
          split at e
          · simp at e
          · simp at e
        · obtain ⟨i, hi⟩ := Classical.not_forall.mp hall
          have hi' : i < n ∧ has.getD i false = false := by
            constructor
            · by_contra h; exact hi (fun h' => absurd h' h)
            · cases h2 : has.getD i false with
              | false => rfl
              | true => exact absurd (fun _ => h2) hi
          obtain ⟨c, hc, _⟩ := hC i hi'.1 hi'.2 ⟨j, hj, hh⟩
          simp at hc
    have hk0 := hnone k hk
    have : inferSpec points (ex.take n) has k = ((0, 1), (0, 1)) := by
      unfold inferSpec
      simp only [hk0, Bool.false_eq_true, if_false]
      have hp : prevReq has (ex.take n).length k = none := by
        unfold prevReq
        rcases hdsl with h | h
        · rw [h]; exact prevFrom_none' has n hnone n _
        · exact prevFrom_none' has _ (fun j hj => hnone j (by omega)) _ _
      rw [hp]
    rw [this, hw k (by omega), hex0 k hk0]
    simp only []
    refine ⟨by omega, by omega, by omega, by omega, by omega, by omega⟩
  · -- a single explicit point: the contour is shifted
    subst hshift
    simp only [List.foldl_cons, List.foldl_nil]
    have hal : (applyCall points (workOf points ex) ⟨0, n - 1, r, r, true⟩).length = n + 4 := by
      rw [applyCall_length, hwl]
    refine ⟨_, rfl, hal, fun k hk => ?_, fun k hk1 hk2 => ?_⟩
    · by_cases hkr : k = r
      · subst hkr
        refine hexplicit k hk hrt _ ?_
        rw [applyCall_shift_getP points _ 0 (n - 1) k (by omega) k (by rw [hwl]; omega)]
        simp
      · -- shifted by the explicit point's delta
        have hcov : covers ⟨0, n - 1, r, r, true⟩ k = true := by
          rw [covers_iff]; exact ⟨Nat.zero_le _, by simp only; omega, fun ⟨_, h⟩ => hkr h⟩
        obtain ⟨g1, g2, g3, _⟩ := hB _ (by simp) k hk hcov
        simp only at g2 g3
        have hdl : (ex.take n).length = n := by
          rcases hdsl with h | h
          · exact h
          · exfalso
            -- r < n is explicit, so ex has at least r+1 entries carrying a value?  not needed: use length of take
            simp only [List.length_take] at h
            have : ex.length < n := by omega
            -- inference only needs `getP`, which is total; we do not need the exact length
            exact absurd h (by
              intro _
              exact False.elim (by
                have := g2; have := g3
                -- prevReq is stated for `n`; with a shorter `ds` the theorem still goes through `prevReq has (ds.length)`
                -- handle by cases below
                exact (Nat.lt_irrefl 0 (by omega : 0 < 0))))
        have hI : inferSpec points (ex.take n) has k = (((getP ex r).1, 1), ((getP ex r).2, 1)) := by
          unfold inferSpec
          simp only [g1, Bool.false_eq_true, if_false, hdl, g2, g3, iupPoint, iupAxis, if_true,
            getP_take ex n r hrn]
        have hwr := hw r (by omega)
        have hwk := hw k (by omega)
        have hek := hex0 k g1
        obtain ⟨⟨a1, a2⟩, ⟨a3, a4⟩⟩ := hpts r
        obtain ⟨⟨b1, b2⟩, ⟨b3, b4⟩⟩ := hpts k
        obtain ⟨⟨c1, c2⟩, ⟨c3, c4⟩⟩ := hex r
        have f1 : fxFromI32 (getP points r).1 = (getP points r).1 * 65536 := by
          unfold fxFromI32; exact wrapI32_of_in (by omega) (by omega)
        have f2 : fxFromI32 (getP points r).2 = (getP points r).2 * 65536 := by
          unfold fxFromI32; exact wrapI32_of_in (by omega) (by omega)
        have s1 : fxSub (getP (workOf points ex) r).1 (fxFromI32 (getP points r).1) = (getP ex r).1 := by
          rw [hwr, f1]; unfold fxSub; simp only []; rw [wrapI32_of_in (by omega) (by omega)]; ring
        have s2 : fxSub (getP (workOf points ex) r).2 (fxFromI32 (getP points r).2) = (getP ex r).2 := by
          rw [hwr, f2]; unfold fxSub; simp only []; rw [wrapI32_of_in (by omega) (by omega)]; ring
        rw [applyCall_shift_getP points _ 0 (n - 1) r (by omega) k (by rw [hwl]; omega), s1, s2, hI, hwk, hek]
        simp only []
        by_cases hz : (getP ex r).1 = 0 ∧ (getP ex r).2 = 0
        · have : ¬ (0 ≤ k ∧ k ≤ n - 1 ∧ k ≠ r ∧ ¬((getP ex r).1 = 0 ∧ (getP ex r).2 = 0)) := by
            intro h; exact h.2.2.2 hz
          simp only [this, if_false, hz.1, hz.2]
          refine ⟨by omega, by omega, by omega, by omega, by omega, by omega⟩
        · have : (0 ≤ k ∧ k ≤ n - 1 ∧ k ≠ r ∧ ¬((getP ex r).1 = 0 ∧ (getP ex r).2 = 0)) :=
            ⟨Nat.zero_le _, by omega, hkr, hz⟩
          simp only [this, if_true]
          have x1 : fxAdd ((getP points k).1 * 65536 + 0) (getP ex r).1 = (getP points k).1 * 65536 + (getP ex r).1 := by
            unfold fxAdd; rw [wrapI32_of_in (by omega) (by omega)]; ring
          have x2 : fxAdd ((getP points k).2 * 65536 + 0) (getP ex r).2 = (getP points k).2 * 65536 + (getP ex r).2 := by
            unfold fxAdd; rw [wrapI32_of_in (by omega) (by omega)]; ring
          rw [x1, x2]
          refine ⟨by omega, by omega, by omega, by omega, by omega, by omega⟩
    · rw [applyCall_shift_getP points _ 0 (n - 1) r (by omega) k (by rw [hwl]; omega)]
      have : ¬ (0 ≤ k ∧ k ≤ n - 1 ∧ k ≠ r ∧ _) := by intro h; omega
      simp only [this, if_false]
  · -- interpolate calls only
    sorry

end FontVerif.GvarApply
