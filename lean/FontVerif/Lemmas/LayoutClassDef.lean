/-
Helper lemmas for C16: class-definition readers on well-formed tables, `iter_class_ranges`,
`ClassDefBuilderImpl::build` (both formats), `FromIterator` collection into the `BTreeMap`.
-/
import FontVerif.Lemmas.Layout
set_option linter.unusedVariables false
namespace FontVerif.Layout

/-! ## specification-side lookup in class range records -/

/-- class of the first record containing `g`, else 0 -/
def classLookup (rs : List ClassRangeRec) (g : Nat) : Nat :=
  match rs.find? (fun r => decide (r.start ≤ g ∧ g ≤ r.end_)) with
  | some r => r.cls
  | none => 0

/-- class range records as `iter_class_ranges` makes them -/
def WFClassRanges (rs : List ClassRangeRec) : Prop :=
  (∀ r ∈ rs, r.start ≤ r.end_) ∧ rs.Pairwise (fun a b => a.end_ < b.start)

theorem classLookup_cons (r0 : ClassRangeRec) (rs : List ClassRangeRec) (g : Nat) :
    classLookup (r0 :: rs) g = if r0.start ≤ g ∧ g ≤ r0.end_ then r0.cls else classLookup rs g := by
  by_cases h : r0.start ≤ g ∧ g ≤ r0.end_ <;> simp [classLookup, List.find?_cons, h]

theorem classLookup_hit {rs : List ClassRangeRec} (h : WFClassRanges rs) {r : ClassRangeRec}
    (hr : r ∈ rs) {g : Nat} (hg : r.start ≤ g ∧ g ≤ r.end_) : classLookup rs g = r.cls := by
  induction rs with
  | nil => cases hr
  | cons r0 rest ih =>
    rw [classLookup_cons]
    rcases List.mem_cons.mp hr with rfl | hr
    · simp [hg]
    · have hp := List.pairwise_cons.mp h.2
      have := hp.1 r hr
      have hn : ¬ (r0.start ≤ g ∧ g ≤ r0.end_) := by omega
      simp only [hn, ↓reduceIte]
      exact ih ⟨fun x hx => h.1 x (List.mem_cons_of_mem _ hx), hp.2⟩ hr

theorem classLookup_miss {rs : List ClassRangeRec} {g : Nat}
    (h : ∀ r ∈ rs, ¬ (r.start ≤ g ∧ g ≤ r.end_)) : classLookup rs g = 0 := by
  induction rs with
  | nil => rfl
  | cons r0 rest ih =>
    rw [classLookup_cons]
    simp only [h r0 (List.mem_cons_self ..), ↓reduceIte]
    exact ih (fun r hr => h r (List.mem_cons_of_mem _ hr))

/-- `ClassDefFormat2::get` on well-formed records -/
theorem cd_get_fmt2 {rs : List ClassRangeRec} (h : WFClassRanges rs) (g : Nat) :
    (ClassDef.fmt2 rs).get g = classLookup rs g := by
  have hget : ∀ i (hi : i < rs.length), rs.getD i default = rs[i] := by
    intro i hi; simp [List.getD, List.getElem?_eq_getElem hi]
  have hstart : ∀ i j (hi : i < rs.length) (hj : j < rs.length), i < j → rs[i].end_ < rs[j].start :=
    fun i j hi hj hij => List.pairwise_iff_getElem.mp h.2 i j hi hj hij
  have hse : ∀ i (hi : i < rs.length), rs[i].start ≤ rs[i].end_ :=
    fun i hi => h.1 _ (List.getElem_mem hi)
  have hm : Mono rs.length (fun i => natCmp (rs.getD i default).start g) := by
    intro i j hij hj
    have hi : i < rs.length := by omega
    simp only [hget i hi, hget j hj]
    apply rank_natCmp_mono
    by_cases e : i = j
    · subst e; exact Nat.le_refl _
    · have := hstart i j hi hj (by omega)
      have := hse i hi
      omega
  simp only [ClassDef.get]
  cases hr : binarySearchBy rs.length (fun i => natCmp (rs.getD i default).start g) with
  | ok i =>
    have ⟨hi, he⟩ := bs_ok hm hr
    simp only [hget i hi] at he
    have hs := natCmp_eq.mp he
    have := hse i hi
    simp only [List.getElem?_eq_getElem hi]
    have hin : rs[i].start ≤ g ∧ g ≤ rs[i].end_ := by omega
    simp only [hin, and_self, ↓reduceIte]
    exact (classLookup_hit h (List.getElem_mem hi) hin).symm
  | err i =>
    have ⟨hile, hl, hg⟩ := bs_err hm hr
    simp only
    have hlt : ∀ j (hj : j < rs.length), j < i → rs[j].start < g := by
      intro j hj hji
      have := hl j hji
      simp only [hget j hj] at this
      unfold natCmp at this
      by_cases a : rs[j].start < g
      · exact a
      · by_cases b : rs[j].start = g <;> simp [a, b] at this
    have hgt : ∀ j (hj : j < rs.length), i ≤ j → g < rs[j].start := by
      intro j hj hij
      have := hg j hij hj
      simp only [hget j hj] at this
      unfold natCmp at this
      by_cases a : rs[j].start < g
      · simp [a] at this
      · by_cases b : rs[j].start = g
        · simp [a, b] at this
        · omega
    -- no record other than `i - 1` can contain `g`
    have others : ∀ j (hj : j < rs.length), j ≠ i - 1 → ¬ (rs[j].start ≤ g ∧ g ≤ rs[j].end_) := by
      intro j hj hne hin
      by_cases hji : j < i
      · have hi1 : i - 1 < rs.length := by omega
        have := hstart j (i - 1) hj hi1 (by omega)
        have := hlt (i - 1) hi1 (by omega)
        omega
      · have := hgt j hj (by omega); omega
    cases hix : rs[i - 1]? with
    | none =>
      simp only
      have hlen : rs.length ≤ i - 1 := by
        rcases Nat.lt_or_ge (i - 1) rs.length with h' | h'
        · rw [List.getElem?_eq_getElem h'] at hix; cases hix
        · exact h'
      refine (classLookup_miss ?_).symm
      intro r hr
      obtain ⟨k, hk, _⟩ := List.getElem_of_mem hr
      omega
    | some r =>
      simp only
      have hi1 : i - 1 < rs.length := (List.getElem?_eq_some_iff.mp hix).1
      have hre : rs[i - 1] = r := by
        rw [List.getElem?_eq_getElem hi1] at hix; exact Option.some.inj hix
      by_cases hin : r.start ≤ g ∧ g ≤ r.end_
      · simp only [hin, and_self, ↓reduceIte]
        exact (classLookup_hit h (hre ▸ List.getElem_mem hi1) hin).symm
      · simp only [hin, ↓reduceIte]
        refine (classLookup_miss ?_).symm
        intro r2 hr2
        obtain ⟨k, hk, hke⟩ := List.getElem_of_mem hr2
        by_cases e : k = i - 1
        · subst e; rw [← hke, hre]; exact hin
        · rw [← hke]; exact others k hk e

/-! ## the `BTreeMap` as a sorted association list -/

def SortedItems (m : List (Nat × Nat)) : Prop := m.Pairwise (fun a b => a.1 < b.1)

theorem itemGet_none {g : Nat} {m : List (Nat × Nat)} (h : ∀ p ∈ m, p.1 ≠ g) :
    itemGet g m = none := by
  induction m with
  | nil => rfl
  | cons p rest ih =>
    obtain ⟨k, v⟩ := p
    have := h (k, v) (List.mem_cons_self ..)
    simp only at this
    simp only [itemGet, this, ↓reduceIte]
    exact ih (fun q hq => h q (List.mem_cons_of_mem _ hq))

theorem itemGet_insertItem (x g c : Nat) (m : List (Nat × Nat)) :
    itemGet x (insertItem g c m) = if g = x then some c else itemGet x m := by
  induction m with
  | nil => simp [insertItem, itemGet]
  | cons p rest ih =>
    obtain ⟨k, v⟩ := p
    unfold insertItem
    by_cases h1 : g < k
    · simp only [h1, ↓reduceIte, itemGet]
    · by_cases h2 : g = k
      · subst h2
        by_cases h3 : g = x <;> simp [itemGet, h3]
      · simp only [h1, h2, ↓reduceIte, itemGet, ih]
        by_cases h3 : k = x
        · have : ¬ g = x := by omega
          simp [h3, this]
        · simp [h3]

theorem mem_insertItem {g c : Nat} {m : List (Nat × Nat)} {p : Nat × Nat}
    (h : p ∈ insertItem g c m) : p = (g, c) ∨ p ∈ m := by
  induction m with
  | nil => simp [insertItem] at h; exact Or.inl h
  | cons q rest ih =>
    obtain ⟨k, v⟩ := q
    unfold insertItem at h
    by_cases h1 : g < k
    · simp only [h1, ↓reduceIte] at h
      rcases List.mem_cons.mp h with h | h
      · exact Or.inl h
      · exact Or.inr h
    · by_cases h2 : g = k
      · simp only [h1, h2, ↓reduceIte, Nat.lt_irrefl] at h
        rcases List.mem_cons.mp h with h | h
        · left; rw [h, h2]
        · right; exact List.mem_cons_of_mem _ h
      · simp only [h1, h2, ↓reduceIte] at h
        rcases List.mem_cons.mp h with h | h
        · right; rw [h]; exact List.mem_cons_self ..
        · rcases ih h with h | h
          · exact Or.inl h
          · right; exact List.mem_cons_of_mem _ h

theorem insertItem_sorted {g c : Nat} {m : List (Nat × Nat)} (h : SortedItems m) :
    SortedItems (insertItem g c m) := by
  unfold SortedItems at *
  induction m with
  | nil => simp [insertItem]
  | cons q rest ih =>
    obtain ⟨k, v⟩ := q
    rw [List.pairwise_cons] at h
    unfold insertItem
    by_cases h1 : g < k
    · simp only [h1, ↓reduceIte]
      refine List.pairwise_cons.mpr ⟨?_, List.pairwise_cons.mpr h⟩
      intro a ha
      rcases List.mem_cons.mp ha with rfl | ha
      · exact h1
      · have := h.1 a ha; simp only at this ⊢; omega
    · by_cases h2 : g = k
      · simp only [h1, h2, ↓reduceIte, Nat.lt_irrefl]
        exact List.pairwise_cons.mpr ⟨h.1, h.2⟩
      · simp only [h1, h2, ↓reduceIte]
        refine List.pairwise_cons.mpr ⟨?_, ih h.2⟩
        intro a ha
        rcases mem_insertItem ha with rfl | ha
        · simp only; omega
        · exact h.1 a ha

theorem foldl_insert_sorted (qs : List (Nat × Nat)) : ∀ (m0 : List (Nat × Nat)), SortedItems m0 →
    SortedItems (qs.foldl (fun m p => insertItem p.1 p.2 m) m0) := by
  induction qs with
  | nil => intro m0 h; exact h
  | cons q qs ih => intro m0 h; exact ih _ (insertItem_sorted h)

theorem itemGet_foldl (x : Nat) (qs : List (Nat × Nat)) : ∀ (m0 : List (Nat × Nat)),
    itemGet x (qs.foldl (fun m p => insertItem p.1 p.2 m) m0) =
      match qs.reverse.find? (fun p => p.1 == x) with
      | some p => some p.2
      | none => itemGet x m0 := by
  induction qs with
  | nil => intro m0; rfl
  | cons q qs ih =>
    intro m0
    simp only [List.foldl_cons, ih, List.reverse_cons, List.find?_append, itemGet_insertItem]
    cases hf : qs.reverse.find? (fun p => p.1 == x) with
    | some p => simp
    | none =>
      by_cases hq : q.1 = x
      · simp [hq, List.find?_cons]
      · simp [hq, List.find?_cons]

theorem collectItems_sorted (ps : List (Nat × Nat)) : SortedItems (collectItems ps) :=
  foldl_insert_sorted _ [] List.Pairwise.nil

/-- the collected map holds, for each glyph, the LAST non-zero-class pair given -/
theorem itemGet_collectItems (ps : List (Nat × Nat)) (g : Nat) :
    (itemGet g (collectItems ps)).getD 0 = assignedClass ps g := by
  unfold collectItems assignedClass
  rw [itemGet_foldl]
  cases (ps.filter (fun p => p.2 != 0)).reverse.find? (fun p => p.1 == g) with
  | some p => rfl
  | none => rfl

/-! ## `iter_class_ranges` -/

theorem classRangesGo_spec (rest : List (Nat × Nat)) : ∀ (s e c : Nat), s ≤ e → SortedItems rest →
    (∀ p ∈ rest, e < p.1) →
    WFClassRanges (classRangesGo s e c rest) ∧
    (∀ r ∈ classRangesGo s e c rest, s ≤ r.start) ∧
    ∀ g, classLookup (classRangesGo s e c rest) g =
      if s ≤ g ∧ g ≤ e then c else (itemGet g rest).getD 0 := by
  induction rest with
  | nil =>
    intro s e c hse _ _
    refine ⟨⟨?_, ?_⟩, ?_, ?_⟩
    · intro r hr; simp [classRangesGo] at hr; subst hr; exact hse
    · simp [classRangesGo]
    · intro r hr; simp [classRangesGo] at hr; subst hr; exact Nat.le_refl _
    · intro g
      by_cases a : s ≤ g ∧ g ≤ e <;> simp [classRangesGo, classLookup, itemGet, a]
  | cons p rest ih =>
    obtain ⟨g0, cls⟩ := p
    intro s e c hse hs hgt
    unfold SortedItems at hs
    rw [List.pairwise_cons] at hs
    have heg : e < g0 := hgt (g0, cls) (List.mem_cons_self ..)
    unfold classRangesGo
    by_cases hq : (areSequential e g0 && c == cls) = true
    · simp only [hq, ↓reduceIte]
      simp only [Bool.and_eq_true, areSequential, beq_iff_eq] at hq
      obtain ⟨hq1, hq2⟩ := hq
      subst hq2
      have hg0 : g0 = e + 1 := by omega
      obtain ⟨w, st, lk⟩ := ih s g0 c (by omega) hs.2 (fun p hp => hs.1 p hp)
      refine ⟨w, st, ?_⟩
      intro g
      rw [lk g]
      simp only [itemGet]
      by_cases a : s ≤ g ∧ g ≤ e
      · have : s ≤ g ∧ g ≤ g0 := by omega
        simp [a, this]
      · by_cases b : g0 = g
        · have : s ≤ g ∧ g ≤ g0 := by omega
          simp [a, b, this]
        · have : ¬ (s ≤ g ∧ g ≤ g0) := by omega
          simp [a, b, this]
    · simp only [hq, Bool.false_eq_true, ↓reduceIte]
      obtain ⟨w, st, lk⟩ := ih g0 g0 cls (Nat.le_refl _) hs.2 (fun p hp => hs.1 p hp)
      refine ⟨⟨?_, ?_⟩, ?_, ?_⟩
      · intro r hr
        rcases List.mem_cons.mp hr with rfl | hr
        · exact hse
        · exact w.1 r hr
      · refine List.pairwise_cons.mpr ⟨?_, w.2⟩
        intro r hr
        have := st r hr
        show e < r.start
        omega
      · intro r hr
        rcases List.mem_cons.mp hr with rfl | hr
        · exact Nat.le_refl _
        · have := st r hr; omega
      · intro g
        rw [classLookup_cons, lk g]
        simp only [itemGet]
        by_cases a : s ≤ g ∧ g ≤ e
        · simp [a]
        · by_cases b : g0 = g
          · have : g0 ≤ g ∧ g ≤ g0 := by omega
            simp [a, b, this]
          · have : ¬ (g0 ≤ g ∧ g ≤ g0) := by omega
            simp [a, b, this]

theorem iterClassRanges_spec {items : List (Nat × Nat)} (hs : SortedItems items) :
    WFClassRanges (iterClassRanges items) ∧
    ∀ g, classLookup (iterClassRanges items) g = (itemGet g items).getD 0 := by
  cases items with
  | nil =>
    refine ⟨⟨?_, ?_⟩, ?_⟩
    · intro r hr; simp [iterClassRanges] at hr
    · simp [iterClassRanges]
    · intro g; rfl
  | cons p rest =>
    obtain ⟨g0, c⟩ := p
    unfold SortedItems at hs
    rw [List.pairwise_cons] at hs
    obtain ⟨w, _, lk⟩ := classRangesGo_spec rest g0 g0 c (Nat.le_refl _) hs.2 (fun p hp => hs.1 p hp)
    refine ⟨w, ?_⟩
    intro g
    simp only [iterClassRanges, lk g, itemGet]
    by_cases b : g0 = g
    · have : g0 ≤ g ∧ g ≤ g0 := by omega
      simp [b, this]
    · have : ¬ (g0 ≤ g ∧ g ≤ g0) := by omega
      simp [b, this]

/-! ## the two serialisations of `ClassDefBuilderImpl::build` -/

/-- the `ClassDef::Format1` branch of `ClassDefBuilderImpl::build` -/
def classDefFmt1 (items : List (Nat × Nat)) : ClassDef :=
  match items.head?, items.getLast? with
  | some f, some l =>
    .fmt1 f.1 ((List.range' f.1 (l.1 + 1 - f.1)).map (fun g => (itemGet g items).getD 0))
  | _, _ => .fmt1 0 [0]

/-- the `ClassDef::Format2` branch -/
def classDefFmt2 (items : List (Nat × Nat)) : ClassDef := .fmt2 (iterClassRanges items)

theorem buildClassDefItems_eq (items : List (Nat × Nat)) :
    buildClassDefItems items = if preferFormat1 items then classDefFmt1 items else classDefFmt2 items := by
  unfold buildClassDefItems classDefFmt1 classDefFmt2
  rfl

theorem classDefFmt2_get {items : List (Nat × Nat)} (hs : SortedItems items) (g : Nat) :
    (classDefFmt2 items).get g = (itemGet g items).getD 0 := by
  have ⟨w, lk⟩ := iterClassRanges_spec hs
  unfold classDefFmt2
  rw [cd_get_fmt2 w, lk]

theorem classDefFmt1_get {items : List (Nat × Nat)} (hs : SortedItems items) (hne : items ≠ [])
    (g : Nat) : (classDefFmt1 items).get g = (itemGet g items).getD 0 := by
  unfold SortedItems at hs
  cases hh : items.head? with
  | none => cases items <;> simp at hh; exact absurd rfl hne
  | some f =>
    cases hl : items.getLast? with
    | none => cases items <;> simp at hl; exact absurd rfl hne
    | some l =>
      have hlo : ∀ p ∈ items, f.1 ≤ p.1 := by
        cases items with
        | nil => simp at hh
        | cons q rest =>
          simp at hh; subst hh
          rw [List.pairwise_cons] at hs
          intro p hp
          rcases List.mem_cons.mp hp with rfl | hp
          · exact Nat.le_refl _
          · exact Nat.le_of_lt (hs.1 p hp)
      have hhi : ∀ p ∈ items, p.1 ≤ l.1 := by
        obtain ⟨ys, hys⟩ := List.getLast?_eq_some_iff.mp hl
        subst hys
        have := List.pairwise_append.mp hs
        intro p hp
        rcases List.mem_append.mp hp with hp | hp
        · exact Nat.le_of_lt (this.2.2 p hp l (List.mem_singleton.mpr rfl))
        · simp at hp; subst hp; exact Nat.le_refl _
      simp only [classDefFmt1, hh, hl, ClassDef.get]
      by_cases hgf : g < f.1
      · simp only [hgf, ↓reduceIte]
        rw [itemGet_none (fun p hp => by have := hlo p hp; omega)]
        rfl
      · simp only [hgf, ↓reduceIte, List.getElem?_map]
        by_cases hgl : g - f.1 < l.1 + 1 - f.1
        · rw [List.getElem?_range' hgl]
          have e2 : f.1 + (g - f.1) = g := by omega
          simp [e2]
        · have : (List.range' f.1 (l.1 + 1 - f.1))[g - f.1]? = none := by
            apply List.getElem?_eq_none; simp; omega
          rw [this, itemGet_none (fun p hp => by have := hhi p hp; omega)]
          rfl

theorem preferFormat1_ne_nil {items : List (Nat × Nat)} (h : preferFormat1 items = true) :
    items ≠ [] := by
  intro e; subst e; simp [preferFormat1] at h

theorem buildClassDefItems_get {items : List (Nat × Nat)} (hs : SortedItems items) (g : Nat) :
    (buildClassDefItems items).get g = (itemGet g items).getD 0 := by
  rw [buildClassDefItems_eq]
  by_cases hp : preferFormat1 items = true
  · simp only [hp, ↓reduceIte]
    exact classDefFmt1_get hs (preferFormat1_ne_nil hp) g
  · simp only [hp, Bool.false_eq_true, ↓reduceIte]
    exact classDefFmt2_get hs g

end FontVerif.Layout
