/- C14 / IntSet helper lemmas, part 9: `PartialEq`, `Hash` key and `Ord` of `BitSet` / `IntSet`
agree with the mathematical set. -/
import FontVerif.Lemmas.IntSetRanges
set_option linter.unusedVariables false
set_option linter.unusedSimpArgs false
namespace FontVerif.IntSet

/-! ### `impl PartialEq for BitSet`: the list of non-empty `(major, storage)` pairs -/

/-- membership read off a list of `(major, storage)` pairs -/
def NEMem (l : List (Nat × Nat)) (x : Nat) : Prop :=
  ∃ kb ∈ l, kb.1 = majorOf x ∧ kb.2.testBit (x % 512) = true

/-- keys strictly ascending, storage 512 bits wide and non-empty -/
def NEInv (l : List (Nat × Nat)) : Prop :=
  l.Pairwise (fun a b => a.1 < b.1) ∧
  ∀ kb ∈ l, kb.2 < 2 ^ 512 ∧ ∃ i, i < 512 ∧ kb.2.testBit i = true

theorem mem_nonEmptyPages {s : BitSet} {kb : Nat × Nat} :
    kb ∈ s.nonEmptyPages ↔ ∃ kp ∈ s.pages, kp.2.len ≠ 0 ∧ kb = (kp.1, kp.2.bits) := by
  unfold BitSet.nonEmptyPages
  simp only [List.mem_map, List.mem_filter, decide_eq_true_eq]
  constructor
  · rintro ⟨kp, ⟨h1, h2⟩, rfl⟩; exact ⟨kp, h1, h2, rfl⟩
  · rintro ⟨kp, h1, h2, rfl⟩; exact ⟨kp, ⟨h1, h2⟩, rfl⟩

theorem page_nonempty_of_bit {p : Page} (hp : PageOk p) {i : Nat} (hi : i < 512)
    (hb : p.bits.testBit i = true) : p.len ≠ 0 := by
  intro h0
  rw [hp.2, popCount_eq_zero_iff] at h0
  have := h0 i hi
  rw [hb] at this; simp at this

theorem page_bit_of_nonempty {p : Page} (hp : PageOk p) (h : p.len ≠ 0) :
    ∃ i, i < 512 ∧ p.bits.testBit i = true := by
  apply Classical.byContradiction
  intro hne
  apply h
  rw [hp.2, popCount_eq_zero_iff]
  intro i hi
  cases hb : p.bits.testBit i
  · rfl
  · exact absurd ⟨i, hi, hb⟩ hne

theorem nonEmptyPages_inv (s : BitSet) (h : BInv s) : NEInv s.nonEmptyPages := by
  refine ⟨?_, ?_⟩
  · unfold BitSet.nonEmptyPages
    rw [List.pairwise_map]
    exact List.Pairwise.filter _ h.1.1
  · intro kb hkb
    rw [mem_nonEmptyPages] at hkb
    obtain ⟨kp, h1, h2, rfl⟩ := hkb
    have hp := h.1.2 kp h1
    exact ⟨hp.1, page_bit_of_nonempty hp h2⟩

theorem nemem_nonEmptyPages (s : BitSet) (h : BInv s) (x : Nat) :
    NEMem s.nonEmptyPages x ↔ s.contains x = true := by
  unfold NEMem
  constructor
  · rintro ⟨kb, hkb, h1, h2⟩
    rw [mem_nonEmptyPages] at hkb
    obtain ⟨kp, hkp, _, rfl⟩ := hkb
    simp only at h1 h2
    unfold BitSet.contains
    rw [← h1, lookup_of_mem h.1.1 (show (kp.1, kp.2) ∈ s.pages from hkp)]
    exact h2
  · intro hc
    unfold BitSet.contains at hc
    split at hc
    · rename_i p hl
      have hmem := lookup_some_mem hl
      have hp := h.1.2 _ hmem
      refine ⟨(majorOf x, p.bits), ?_, rfl, hc⟩
      rw [mem_nonEmptyPages]
      exact ⟨(majorOf x, p), hmem, page_nonempty_of_bit hp (Nat.mod_lt _ (by omega)) hc, rfl⟩
    · simp at hc

theorem nemem_cons_iff {k b : Nat} {l : List (Nat × Nat)} {x : Nat} :
    NEMem ((k, b) :: l) x ↔ (k = majorOf x ∧ b.testBit (x % 512) = true) ∨ NEMem l x := by
  simp [NEMem]

theorem neinv_cons {kb : Nat × Nat} {l : List (Nat × Nat)} :
    NEInv (kb :: l) ↔ (∀ q ∈ l, kb.1 < q.1) ∧ (kb.2 < 2 ^ 512 ∧ ∃ i, i < 512 ∧ kb.2.testBit i = true)
      ∧ NEInv l := by
  simp only [NEInv, List.pairwise_cons, List.mem_cons, forall_eq_or_imp]
  constructor
  · rintro ⟨⟨h1, h2⟩, h3, h4⟩; exact ⟨h1, h3, h2, h4⟩
  · rintro ⟨h1, h3, h2, h4⟩; exact ⟨⟨h1, h2⟩, h3, h4⟩

/-- every member of a list lies at or after its first key -/
theorem nemem_key_ge {kb : Nat × Nat} {l : List (Nat × Nat)} (h : NEInv (kb :: l)) {x : Nat}
    (hx : NEMem (kb :: l) x) : kb.1 ≤ majorOf x := by
  obtain ⟨q, hq, h1, _⟩ := hx
  simp only [List.mem_cons] at hq
  rcases hq with rfl | hq
  · omega
  · have := (neinv_cons.1 h).1 q hq; omega

theorem major_minor_of (k i : Nat) (hi : i < 512) :
    majorOf (k * 512 + i) = k ∧ (k * 512 + i) % 512 = i := by
  unfold majorOf; omega

/-- canonical form: equal members ⇒ equal lists of non-empty pages -/
theorem neinv_ext {l1 l2 : List (Nat × Nat)} (h1 : NEInv l1) (h2 : NEInv l2)
    (h : ∀ x, NEMem l1 x ↔ NEMem l2 x) : l1 = l2 := by
  induction l1 generalizing l2 with
  | nil =>
    cases l2 with
    | nil => rfl
    | cons kb l2 =>
      obtain ⟨k, b⟩ := kb
      obtain ⟨i, hi, hb⟩ := (neinv_cons.1 h2).2.1.2
      have hm := major_minor_of k i hi
      have : NEMem ((k, b) :: l2) (k * 512 + i) :=
        nemem_cons_iff.2 (Or.inl ⟨hm.1.symm, by rw [hm.2]; exact hb⟩)
      have := (h _).2 this
      simp [NEMem] at this
  | cons kb1 l1 ih =>
    cases l2 with
    | nil =>
      obtain ⟨k, b⟩ := kb1
      obtain ⟨i, hi, hb⟩ := (neinv_cons.1 h1).2.1.2
      have hm := major_minor_of k i hi
      have : NEMem ((k, b) :: l1) (k * 512 + i) :=
        nemem_cons_iff.2 (Or.inl ⟨hm.1.symm, by rw [hm.2]; exact hb⟩)
      have := (h _).1 this
      simp [NEMem] at this
    | cons kb2 l2 =>
      obtain ⟨k1, b1⟩ := kb1
      obtain ⟨k2, b2⟩ := kb2
      have c1 := neinv_cons.1 h1
      have c2 := neinv_cons.1 h2
      simp only at c1 c2
      -- keys agree
      have hk : k1 = k2 := by
        obtain ⟨i, hi, hb⟩ := c1.2.1.2
        obtain ⟨j, hj, hbj⟩ := c2.2.1.2
        have hm1 := major_minor_of k1 i hi
        have hm2 := major_minor_of k2 j hj
        have m1 : NEMem ((k1, b1) :: l1) (k1 * 512 + i) :=
          nemem_cons_iff.2 (Or.inl ⟨hm1.1.symm, by rw [hm1.2]; exact hb⟩)
        have m2 : NEMem ((k2, b2) :: l2) (k2 * 512 + j) :=
          nemem_cons_iff.2 (Or.inl ⟨hm2.1.symm, by rw [hm2.2]; exact hbj⟩)
        have g1 := nemem_key_ge h2 ((h _).1 m1)
        have g2 := nemem_key_ge h1 ((h _).2 m2)
        simp only at g1 g2
        rw [hm1.1] at g1
        rw [hm2.1] at g2
        omega
      subst hk
      -- membership in the page `k1` is read from the head
      have head_iff : ∀ (b : Nat) (l : List (Nat × Nat)), (∀ q ∈ l, k1 < q.1) → ∀ i, i < 512 →
          (NEMem ((k1, b) :: l) (k1 * 512 + i) ↔ b.testBit i = true) := by
        intro b l hl i hi
        have hm := major_minor_of k1 i hi
        rw [nemem_cons_iff, hm.1, hm.2]
        constructor
        · rintro (hx | ⟨q, hq, hq1, _⟩)
          · exact hx.2
          · have := hl q hq; rw [hm.1] at hq1; omega
        · exact fun hx => Or.inl ⟨rfl, hx⟩
      have hb : b1 = b2 := by
        apply Nat.eq_of_testBit_eq
        intro i
        by_cases hi : i < 512
        · have e1 := head_iff b1 l1 c1.1 i hi
          have e2 := head_iff b2 l2 c2.1 i hi
          have := h (k1 * 512 + i)
          rw [e1, e2] at this
          cases hb1 : b1.testBit i <;> cases hb2 : b2.testBit i <;> simp_all
        · have hge : 2 ^ 512 ≤ 2 ^ i := Nat.pow_le_pow_right (by omega) (by omega)
          rw [Nat.testBit_lt_two_pow (Nat.lt_of_lt_of_le c1.2.1.1 hge),
            Nat.testBit_lt_two_pow (Nat.lt_of_lt_of_le c2.2.1.1 hge)]
      subst hb
      congr 1
      apply ih c1.2.2 c2.2.2
      intro x
      constructor
      · intro hx
        obtain ⟨q, hq, hq1, hq2⟩ := hx
        have hgt := c1.1 q hq
        rcases nemem_cons_iff.1 ((h x).1 (nemem_cons_iff.2 (Or.inr ⟨q, hq, hq1, hq2⟩))) with hy | hy
        · omega
        · exact hy
      · intro hx
        obtain ⟨q, hq, hq1, hq2⟩ := hx
        have hgt := c2.1 q hq
        rcases nemem_cons_iff.1 ((h x).2 (nemem_cons_iff.2 (Or.inr ⟨q, hq, hq1, hq2⟩))) with hy | hy
        · omega
        · exact hy

/-- `BitSet == BitSet` iff the two sets have the same members (empty pages are ignored) -/
theorem BitSet.beq_spec (a b : BitSet) (ha : BInv a) (hb : BInv b) :
    a.beq b = true ↔ ∀ x, a.contains x = b.contains x := by
  unfold BitSet.beq
  rw [beq_iff_eq]
  constructor
  · intro heq x
    have h1 := nemem_nonEmptyPages a ha x
    have h2 := nemem_nonEmptyPages b hb x
    rw [heq] at h1
    cases hx : a.contains x <;> cases hy : b.contains x <;> simp_all
  · intro hx
    apply neinv_ext (nonEmptyPages_inv a ha) (nonEmptyPages_inv b hb)
    intro x
    rw [nemem_nonEmptyPages a ha, nemem_nonEmptyPages b hb, hx x]

/-! ### lexicographic order on member sequences -/

/-- the lexicographic order on (ascending) member sequences — the specification of `Ord` -/
def lexOrd : List Nat → List Nat → Ordering
  | [], [] => .eq
  | [], _ :: _ => .lt
  | _ :: _, [] => .gt
  | x :: xs, y :: ys => if x < y then .lt else if x > y then .gt else lexOrd xs ys

theorem lexOrd_eq_iff (xs ys : List Nat) : lexOrd xs ys = .eq ↔ xs = ys := by
  induction xs generalizing ys with
  | nil => cases ys <;> simp [lexOrd]
  | cons x xs ih =>
    cases ys with
    | nil => simp [lexOrd]
    | cons y ys =>
      simp only [lexOrd]
      split
      · simp; omega
      · split
        · simp; omega
        · rw [ih ys]
          have : x = y := by omega
          simp [this]

theorem lexOrd_append (p xs ys : List Nat) : lexOrd (p ++ xs) (p ++ ys) = lexOrd xs ys := by
  induction p with
  | nil => rfl
  | cons a p ih => simp [lexOrd, ih]

theorem lexCmp_eq (xs ys : List Nat) (n : Nat) :
    lexCmp xs ys (n + xs.length) (n + ys.length) = lexOrd xs ys := by
  induction xs generalizing ys n with
  | nil =>
    cases ys with
    | nil => simp [lexCmp, lexOrd]
    | cons y ys =>
      simp only [lexCmp, lexOrd, List.length_nil, List.length_cons]
      rw [Nat.compare_eq_lt]; omega
  | cons x xs ih =>
    cases ys with
    | nil =>
      simp only [lexCmp, lexOrd, List.length_nil, List.length_cons]
      rw [Nat.compare_eq_gt]; omega
    | cons y ys =>
      simp only [lexCmp, lexOrd, List.length_cons]
      split
      · rfl
      · split
        · rfl
        · have := ih ys (n + 1)
          have e1 : n + (xs.length + 1) = n + 1 + xs.length := by omega
          have e2 : n + (ys.length + 1) = n + 1 + ys.length := by omega
          rw [e1, e2]; exact this

/-- `impl Ord for BitSet` is the lexicographic order on the member sequences -/
theorem BitSet.cmp_spec (a b : BitSet) (ha : BInv a) (hb : BInv b) :
    a.cmp b = lexOrd a.members b.members := by
  unfold BitSet.cmp
  rw [BitSet.len_eq a ha, BitSet.len_eq b hb]
  have := lexCmp_eq a.members b.members 0
  simpa using this

/-! ### `cmpRanges` (the range walk of `impl Ord for IntSet`) -/

theorem expand_head_lt {rs : List (Nat × Nat)} (h : NRInv rs) {b : Nat} (hb : ∀ q ∈ rs, b < q.1) :
    ∀ x ∈ expand rs, b < x := by
  intro x hx
  rw [mem_expand] at hx
  obtain ⟨q, hq, h1, _⟩ := hx
  have := hb q hq; omega

/-- an interval as a list -/
def iv (s e : Nat) : List Nat := (List.range (e + 1 - s)).map (· + s)

theorem iv_split (s m e : Nat) (h1 : s ≤ m) (h2 : m < e) : iv s e = iv s m ++ iv (m + 1) e := by
  unfold iv
  have : e + 1 - s = (m + 1 - s) + (e + 1 - (m + 1)) := by omega
  rw [this, List.range_add, List.map_append, List.map_map]
  congr 1
  apply List.map_congr_left
  intro i _
  simp only [Function.comp]
  omega

theorem iv_cons (s e : Nat) (h : s ≤ e) : iv s e = s :: iv (s + 1) e := by
  unfold iv
  have : e + 1 - s = (e + 1 - (s + 1)) + 1 := by omega
  rw [this, List.range_succ_eq_map]
  simp only [List.map_cons, List.map_map, Nat.zero_add]
  congr 1
  apply List.map_congr_left
  intro i _
  simp only [Function.comp]
  omega

theorem lexOrd_nil_left (ys : List Nat) : lexOrd [] ys = if ys = [] then .eq else .lt := by
  cases ys <;> simp [lexOrd]

theorem expand_ne_nil {r : Nat × Nat} {rs : List (Nat × Nat)} (h : r.1 ≤ r.2) :
    ∃ t, expand (r :: rs) = r.1 :: t := by
  rw [expand_cons]
  have : (List.range (r.2 + 1 - r.1)).map (· + r.1) = iv r.1 r.2 := rfl
  rw [this, iv_cons _ _ h]
  exact ⟨_, rfl⟩

theorem cmpRanges_eq (ra rb : List (Nat × Nat)) (ha : NRInv ra) (hb : NRInv rb) :
    cmpRanges ra rb = lexOrd (expand ra) (expand rb) := by
  induction ra generalizing rb with
  | nil =>
    cases rb with
    | nil => rfl
    | cons b rb =>
      obtain ⟨t, ht⟩ := expand_ne_nil (rs := rb) (nrinv_cons.1 hb).2.1
      rw [ht]; rfl
  | cons a ra ih =>
    cases rb with
    | nil =>
      obtain ⟨t, ht⟩ := expand_ne_nil (rs := ra) (nrinv_cons.1 ha).2.1
      rw [ht]; rfl
    | cons b rb =>
      obtain ⟨as, ae⟩ := a
      obtain ⟨bs, be⟩ := b
      have ca := nrinv_cons.1 ha
      have cb := nrinv_cons.1 hb
      simp only at ca cb
      have ea : expand ((as, ae) :: ra) = iv as ae ++ expand ra := rfl
      have eb : expand ((bs, be) :: rb) = iv bs be ++ expand rb := rfl
      simp only [cmpRanges]
      split
      · rename_i hlt
        rw [ea, eb, iv_cons _ _ ca.2.1, iv_cons _ _ cb.2.1]
        simp [lexOrd, hlt]
      · split
        · rename_i hnlt hgt
          rw [ea, eb, iv_cons _ _ ca.2.1, iv_cons _ _ cb.2.1]
          simp [lexOrd, hnlt, hgt]
        · rename_i hnlt hngt
          have hs : as = bs := by omega
          subst hs
          split
          · rename_i hee
            subst hee
            rw [ea, eb, lexOrd_append]
            exact ih rb ca.2.2 cb.2.2
          · rename_i hne
            split
            · rename_i hlt
              -- a's first range is shorter: b continues with ae + 1
              rw [ea, eb, iv_split as ae be ca.2.1 hlt, List.append_assoc, lexOrd_append,
                iv_cons _ _ (by omega : ae + 1 ≤ be)]
              cases ra with
              | nil => simp [expand_nil, lexOrd]
              | cons r ra' =>
                obtain ⟨t, ht⟩ := expand_ne_nil (rs := ra') (nrinv_cons.1 ca.2.2).2.1
                rw [ht]
                have := ca.1 r (by simp)
                have h1 : ¬ r.1 < ae + 1 := by omega
                have h2 : r.1 > ae + 1 := by omega
                simp [lexOrd, h1, h2]
            · rename_i hnlt2
              have hgt : be < ae := by omega
              rw [ea, eb, iv_split as be ae cb.2.1 hgt, List.append_assoc, lexOrd_append,
                iv_cons _ _ (by omega : be + 1 ≤ ae)]
              cases rb with
              | nil => simp [expand_nil, lexOrd]
              | cons r rb' =>
                obtain ⟨t, ht⟩ := expand_ne_nil (rs := rb') (nrinv_cons.1 cb.2.2).2.1
                rw [ht]
                have := cb.1 r (by simp)
                have h1 : be + 1 < r.1 := by omega
                simp [lexOrd, h1]

/-! ### `IntSet`: Eq / Hash key / Ord -/

theorem elems_eq_iff {d : Domain} (hd : DomWF d) (a b : IntSet) :
    a.elems d = b.elems d ↔ ∀ x, d.contains x = true → a.contains x = b.contains x := by
  constructor
  · intro he x hx
    have h1 := mem_elems (d := d) (s := a) (x := x)
    have h2 := mem_elems (d := d) (s := b) (x := x)
    rw [he] at h1
    cases ha : a.contains x <;> cases hb : b.contains x <;> simp_all
  · intro h
    apply asc_ext (elems_asc hd a) (elems_asc hd b)
    intro x
    rw [mem_elems, mem_elems]
    constructor
    · rintro ⟨h1, h2⟩; exact ⟨h1, by rw [← h x h1]; exact h2⟩
    · rintro ⟨h1, h2⟩; exact ⟨h1, by rw [h x h1]; exact h2⟩

/-- same hash key ⇔ same members -/
theorem IntSet.hashKey_spec {d : Domain} (hd : DomWF d) (hc : d.continuous = true)
    {a b : IntSet} (ha : IInvD d a) (hb : IInvD d b) :
    a.hashKey d = b.hashKey d ↔ ∀ x, d.contains x = true → a.contains x = b.contains x := by
  unfold IntSet.hashKey
  obtain ⟨a1, a2, a3⟩ := IntSet.ranges_spec hd hc ha
  obtain ⟨b1, b2, b3⟩ := IntSet.ranges_spec hd hc hb
  rw [← elems_eq_iff hd]
  constructor
  · intro h; rw [← a3, ← b3, h]
  · intro h
    apply nrinv_ext a1 b1
    intro x
    rw [← mem_expand_iff_nmem, ← mem_expand_iff_nmem, a3, b3, h]

theorem same_mode_set_eq {d : Domain} {a b : IntSet} (ha : IInvD d a) (hb : IInvD d b)
    (hm : a.inverted = b.inverted) :
    (∀ x, a.set.contains x = b.set.contains x) ↔
      ∀ x, d.contains x = true → a.contains x = b.contains x := by
  constructor
  · intro h x _
    rw [IntSet.contains_eq, IntSet.contains_eq, hm, h x]
  · intro h x
    by_cases hx : d.contains x = true
    · have := h x hx
      rw [IntSet.contains_eq, IntSet.contains_eq, hm] at this
      cases h1 : a.set.contains x <;> cases h2 : b.set.contains x <;>
        cases h3 : b.inverted <;> simp_all
    · have h1 : a.set.contains x = false := by
        cases h1 : a.set.contains x
        · rfl
        · exact absurd (ha.2 x h1) hx
      have h2 : b.set.contains x = false := by
        cases h2 : b.set.contains x
        · rfl
        · exact absurd (hb.2 x h2) hx
      rw [h1, h2]

/-- `IntSet == IntSet` ⇔ same members, all four mode combinations (continuous domain) -/
theorem IntSet.beq_spec {d : Domain} (hd : DomWF d) (hc : d.continuous = true)
    {a b : IntSet} (ha : IInvD d a) (hb : IInvD d b) :
    a.beq d b = true ↔ ∀ x, d.contains x = true → a.contains x = b.contains x := by
  unfold IntSet.beq
  split
  · rename_i hm
    rw [BitSet.beq_spec _ _ ha.1 hb.1, same_mode_set_eq ha hb hm]
  · rename_i hm
    rw [← IntSet.hashKey_spec hd hc ha hb]
    unfold IntSet.hashKey
    obtain ⟨_, _, a3⟩ := IntSet.ranges_spec hd hc ha
    obtain ⟨_, _, b3⟩ := IntSet.ranges_spec hd hc hb
    rw [IntSet.len_spec hd ha, IntSet.len_spec hd hb]
    split
    · exact beq_iff_eq
    · rename_i hlen
      simp only [Bool.false_eq_true, false_iff]
      intro he
      apply hlen
      rw [← a3, ← b3, he]

/-- same-mode `==` needs no continuity -/
theorem IntSet.beq_spec_same_mode {d : Domain} {a b : IntSet} (ha : IInvD d a) (hb : IInvD d b)
    (hm : a.inverted = b.inverted) :
    a.beq d b = true ↔ ∀ x, d.contains x = true → a.contains x = b.contains x := by
  unfold IntSet.beq
  rw [if_pos hm, BitSet.beq_spec _ _ ha.1 hb.1, same_mode_set_eq ha hb hm]

/-- `impl Ord for IntSet` is the lexicographic order on the ascending member sequences, in all
four mode combinations (continuous domain) -/
theorem IntSet.cmp_spec {d : Domain} (hd : DomWF d) (hc : d.continuous = true)
    {a b : IntSet} (ha : IInvD d a) (hb : IInvD d b) :
    a.cmp d b = lexOrd (a.elems d) (b.elems d) := by
  unfold IntSet.cmp
  split
  · rename_i hm
    simp only [Bool.and_eq_true, Bool.not_eq_true'] at hm
    rw [BitSet.cmp_spec _ _ ha.1 hb.1, elems_inclusive hd ha hm.1, elems_inclusive hd hb hm.2]
  · obtain ⟨a1, _, a3⟩ := IntSet.ranges_spec hd hc ha
    obtain ⟨b1, _, b3⟩ := IntSet.ranges_spec hd hc hb
    rw [cmpRanges_eq _ _ a1 b1, a3, b3]

/-- inclusive sets: no continuity needed -/
theorem IntSet.cmp_spec_inclusive {d : Domain} (hd : DomWF d)
    {a b : IntSet} (ha : IInvD d a) (hb : IInvD d b) (h1 : a.inverted = false)
    (h2 : b.inverted = false) :
    a.cmp d b = lexOrd (a.elems d) (b.elems d) := by
  unfold IntSet.cmp
  rw [if_pos (by simp [h1, h2])]
  rw [BitSet.cmp_spec _ _ ha.1 hb.1, elems_inclusive hd ha h1, elems_inclusive hd hb h2]

end FontVerif.IntSet
