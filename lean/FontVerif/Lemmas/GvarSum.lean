/-
The fold over tuples of `simple_glyph` (Model/GvarApply.lean `simpleGlyph`): every active tuple adds
its contribution to the running 16.16 deltas with wrapping addition, in tuple order.  Closed formula
(sum of the contributions mod 2^32, the plain sum when nothing wraps, independent of the order) and
the rational error bound of a sum of per-tuple contributions.
-/
import FontVerif.Model.GvarApply
import FontVerif.Lemmas.GvarApply
import FontVerif.Lemmas.IupRat
set_option linter.unusedVariables false
namespace FontVerif.GvarApply
open FontVerif FontVerif.PackedDeltas FontVerif.GvarData

/-- one accumulation step: `delta += contribution` for every entry (wrapping 16.16) -/
def stepAdd (acc c : List Pt) : List Pt :=
  (List.range acc.length).map fun k => ptAdd (acc.getD k (0, 0)) (c.getD k (0, 0))

theorem stepAdd_length (acc c : List Pt) : (stepAdd acc c).length = acc.length := by simp [stepAdd]

theorem stepAdd_getD (acc c : List Pt) (k : Nat) (hk : k < acc.length) :
    (stepAdd acc c).getD k (0, 0) = ptAdd (acc.getD k (0, 0)) (c.getD k (0, 0)) := by
  unfold stepAdd
  rw [List.getD_eq_getElem?_getD, List.getElem?_map, List.getElem?_range hk]
  rfl

theorem foldl_stepAdd_length : ∀ (cs : List (List Pt)) (acc : List Pt),
    (cs.foldl stepAdd acc).length = acc.length := by
  intro cs
  induction cs with
  | nil => intro acc; rfl
  | cons c cs ih => intro acc; simp only [List.foldl_cons]; rw [ih, stepAdd_length]

def colX (cs : List (List Pt)) (k : Nat) : Int := (cs.map fun c => (c.getD k (0, 0)).1).sum
def colY (cs : List (List Pt)) (k : Nat) : Int := (cs.map fun c => (c.getD k (0, 0)).2).sum

theorem wrapI32_wrap_add (a b : Int) : wrapI32 (wrapI32 a + b) = wrapI32 (a + b) := by
  unfold wrapI32; simp only []; split <;> split <;> split <;> omega

theorem wrapI32_idem (a : Int) : wrapI32 (wrapI32 a) = wrapI32 a := by
  have := wrapI32_wrap_add a 0; simpa using this

/-- the fold, entry `k`: the running value plus the column sum, mod 2^32 -/
theorem foldl_stepAdd_getD : ∀ (cs : List (List Pt)) (acc : List Pt) (k : Nat), k < acc.length →
    wrapI32 ((cs.foldl stepAdd acc).getD k (0, 0)).1 = wrapI32 ((acc.getD k (0, 0)).1 + colX cs k) ∧
    wrapI32 ((cs.foldl stepAdd acc).getD k (0, 0)).2 = wrapI32 ((acc.getD k (0, 0)).2 + colY cs k) := by
  intro cs
  induction cs with
  | nil => intro acc k _; simp [colX, colY]
  | cons c cs ih =>
    intro acc k hk
    simp only [List.foldl_cons]
    obtain ⟨h1, h2⟩ := ih (stepAdd acc c) k (by rw [stepAdd_length]; exact hk)
    rw [h1, h2, stepAdd_getD acc c k hk]
    simp only [ptAdd, Iup.fxAdd, colX, colY, List.map_cons, List.sum_cons]
    rw [wrapI32_wrap_add, wrapI32_wrap_add]
    constructor <;> (congr 1; omega)

theorem wrapI32_range (a : Int) : -2147483648 ≤ wrapI32 a ∧ wrapI32 a < 2147483648 := by
  unfold wrapI32; simp only []; split <;> omega

/-- starting from zero deltas: entry `k` is the column sum mod 2^32 -/
theorem accumulate_closed (cs : List (List Pt)) (np k : Nat) (hk : k < np) (hne : cs ≠ []) :
    ((cs.foldl stepAdd ((List.range np).map fun _ => ((0 : Int), (0 : Int)))).getD k (0, 0))
      = (wrapI32 (colX cs k), wrapI32 (colY cs k)) := by
  cases cs with
  | nil => exact absurd rfl hne
  | cons c cs =>
    have hz : ((List.range np).map fun _ => ((0 : Int), (0 : Int))).length = np := by simp
    obtain ⟨h1, h2⟩ := foldl_stepAdd_getD (c :: cs) _ k (by rw [hz]; exact hk)
    have hz0 : ((List.range np).map fun _ => ((0 : Int), (0 : Int))).getD k (0, 0) = (0, 0) := by
      rw [List.getD_eq_getElem?_getD, List.getElem?_map, List.getElem?_range hk]; rfl
    rw [hz0] at h1 h2
    simp only [Int.zero_add] at h1 h2
    -- the value is already wrapped: it is the output of a wrapping addition
    have hr : ∀ (cs : List (List Pt)) (acc : List Pt), k < acc.length →
        (∃ a b, (acc.getD k (0, 0)) = (wrapI32 a, wrapI32 b)) →
        ∃ a b, ((cs.foldl stepAdd acc).getD k (0, 0)) = (wrapI32 a, wrapI32 b) := by
      intro cs
      induction cs with
      | nil => intro acc _ h; exact h
      | cons c cs ih =>
        intro acc hk' _
        simp only [List.foldl_cons]
        apply ih (stepAdd acc c) (by rw [stepAdd_length]; exact hk')
        rw [stepAdd_getD acc c k hk']
        exact ⟨_, _, rfl⟩
    obtain ⟨a, b, hab⟩ := hr (c :: cs) _ (by rw [hz]; exact hk) ⟨0, 0, by rw [hz0]; rfl⟩
    rw [hab] at h1 h2 ⊢
    simp only [wrapI32_idem] at h1 h2
    rw [h1, h2]

/-- the column sums do not depend on the order of the tuples -/
theorem colX_perm (cs cs' : List (List Pt)) (h : cs.Perm cs') (k : Nat) : colX cs k = colX cs' k :=
  List.Perm.sum_eq (h.map _)
theorem colY_perm (cs cs' : List (List Pt)) (h : cs.Perm cs') (k : Nat) : colY cs k = colY cs' k :=
  List.Perm.sum_eq (h.map _)

/-! ### the fold of the model is such an accumulation -/

theorem foldl_none {α : Type} (step : List Pt → α → Option (List Pt)) : ∀ (l : List α),
    l.foldl (fun (o : Option (List Pt)) a => match o with | none => none | some d => step d a) none = none := by
  intro l; induction l with
  | nil => rfl
  | cons a l ih => simpa using ih

/-- a fold of partial steps, each of which adds a characterised contribution -/
theorem foldl_steps {α : Type} (np : Nat) (step : List Pt → α → Option (List Pt)) (Char : α → List Pt → Prop)
    (hstep : ∀ acc a acc', acc.length = np → step acc a = some acc' →
      ∃ c, acc' = stepAdd acc c ∧ Char a c) :
    ∀ (l : List α) (acc res : List Pt), acc.length = np →
      l.foldl (fun (o : Option (List Pt)) a => match o with | none => none | some d => step d a) (some acc) = some res →
      ∃ cs : List (List Pt), cs.length = l.length ∧ (∀ p ∈ l.zip cs, Char p.1 p.2) ∧ res = cs.foldl stepAdd acc := by
  intro l
  induction l with
  | nil => intro acc res _ h; simp at h; exact ⟨[], rfl, by simp, by simp [h]⟩
  | cons a l ih =>
    intro acc res hl h
    simp only [List.foldl_cons] at h
    cases hs : step acc a with
    | none => rw [hs, foldl_none] at h; cases h
    | some acc' =>
      rw [hs] at h
      obtain ⟨c, e, hc⟩ := hstep acc a acc' hl hs
      obtain ⟨cs, l1, l2, l3⟩ := ih acc' res (by rw [e, stepAdd_length]; exact hl) h
      refine ⟨c :: cs, by simp [l1], ?_, by simp only [List.foldl_cons]; rw [← e]; exact l3⟩
      intro p hp
      simp only [List.zip_cons_cons, List.mem_cons] at hp
      rcases hp with rfl | hp
      · exact hc
      · exact l2 p hp

/-- what one active tuple contributes (model level): an all-points tuple adds the scaled listed
deltas; a tuple with explicit points adds `working − point` after `accumulate_sparse_deltas` and
`interpolate_deltas` on a fresh working buffer with cleared flags -/
def TupleContribution (points : List Pt) (ends : List Nat) (sp : Option (List Nat))
    (ts : RawTuple × Int) (c : List Pt) : Prop :=
  if ts.1.allPoints sp then
    ∃ xs ys bs rest, readDense (points.length + 1) 0 points.length (ts.1.ptsAndDeltas sp).2 = some (xs, bs) ∧
      readDense (points.length + 1) 0 points.length bs = some (ys, rest) ∧
      c = (List.range points.length).map fun k => (fxScaled ts.2 (xs.getD k 0), fxScaled ts.2 (ys.getD k 0))
  else
    ∃ buf has out, accSparse (ts.1.ptsAndDeltas sp).1 (ts.1.ptsAndDeltas sp).2 ts.2
        (points.map ptFromI32) (points.map fun _ => false) = some (buf, has) ∧
      Iup.readerInterpolate points has ends buf = some out ∧
      c = (List.range points.length).map fun k => ptSub (out.getD k (0, 0)) (ptFromI32 (points.getD k (0, 0)))

theorem step_contribution (points : List Pt) (ends : List Nat) (sp : Option (List Nat))
    (acc : List Pt) (ts : RawTuple × Int) (acc' : List Pt) (hl : acc.length = points.length)
    (h : (if ts.1.allPoints sp then accDense (ts.1.ptsAndDeltas sp).2 ts.2 acc
          else simpleSparseTuple points ends ts.1 sp ts.2 acc) = some acc') :
    ∃ c, acc' = stepAdd acc c ∧ TupleContribution points ends sp ts c := by
  unfold TupleContribution
  by_cases ha : ts.1.allPoints sp = true
  · simp only [ha, if_true] at h ⊢
    unfold accDense at h
    simp only [hl] at h
    split at h
    · cases h
    · rename_i xs bs hx
      split at h
      · cases h
      · rename_i ys rest hy
        injection h with h
        refine ⟨_, ?_, xs, ys, bs, rest, hx, hy, rfl⟩
        rw [← h]
        unfold stepAdd
        rw [hl]
        apply List.map_congr_left
        intro k hk
        have hk' : k < points.length := by simpa using hk
        have : ((List.range points.length).map fun k => (fxScaled ts.2 (xs.getD k 0), fxScaled ts.2 (ys.getD k 0))).getD k (0, 0)
            = (fxScaled ts.2 (xs.getD k 0), fxScaled ts.2 (ys.getD k 0)) := by
          rw [List.getD_eq_getElem?_getD, List.getElem?_map, List.getElem?_range hk']; rfl
        rw [this]; rfl
  · simp only [ha, Bool.false_eq_true, if_false] at h ⊢
    unfold simpleSparseTuple at h
    simp only [] at h
    split at h
    · cases h
    · rename_i buf has hacc
      split at h
      · cases h
      · rename_i out hout
        injection h with h
        refine ⟨_, ?_, buf, has, out, hacc, hout, rfl⟩
        rw [← h]
        unfold stepAdd
        apply List.map_congr_left
        intro k hk
        have hk' : k < points.length := by rw [← hl]; simpa using hk
        have : ((List.range points.length).map fun k => ptSub (out.getD k (0, 0)) (ptFromI32 (points.getD k (0, 0)))).getD k (0, 0)
            = ptSub (out.getD k (0, 0)) (ptFromI32 (points.getD k (0, 0))) := by
          rw [List.getD_eq_getElem?_getD, List.getElem?_map, List.getElem?_range hk']; rfl
        rw [this]
        simp [hk']

/-! ### error of a sum of contributions -/

/-- one contribution `δ` against `s · num / den` -/
theorem near_rat (δ s num den : Int) (hd : 0 < den) (h1 : 2 * (den * δ - num * s) ≤ den * (den - 1))
    (h2 : 2 * (num * s - den * δ) ≤ den * (den - 1)) :
    |(δ : ℚ) - (s : ℚ) * ((num : ℚ) / den)| ≤ ((den : ℚ) - 1) / 2 := by
  have hdq : (0 : ℚ) < den := by exact_mod_cast hd
  have e : (δ : ℚ) - (s : ℚ) * ((num : ℚ) / den) = ((den : ℚ) * δ - num * s) / den := by field_simp
  have h1q : 2 * ((den : ℚ) * δ - num * s) ≤ den * (den - 1) := by exact_mod_cast h1
  have h2q : 2 * ((num : ℚ) * s - den * δ) ≤ den * (den - 1) := by exact_mod_cast h2
  rw [e, abs_le]
  constructor
  · rw [le_div_iff₀ hdq]; nlinarith
  · rw [div_le_iff₀ hdq]; nlinarith

/-- per-tuple record: contribution `δ`, scalar `s`, inferred delta `num / den` -/
structure Term where
  δ : Int
  s : Int
  num : Int
  den : Int

def Term.Ok (t : Term) : Prop :=
  0 < t.den ∧ 2 * (t.den * t.δ - t.num * t.s) ≤ t.den * (t.den - 1) ∧
    2 * (t.num * t.s - t.den * t.δ) ≤ t.den * (t.den - 1)

theorem sum_near_rat : ∀ (ts : List Term), (∀ t ∈ ts, t.Ok) →
    |(((ts.map (·.δ)).sum : Int) : ℚ) - (ts.map fun t => (t.s : ℚ) * ((t.num : ℚ) / t.den)).sum|
      ≤ (ts.map fun t => ((t.den : ℚ) - 1) / 2).sum := by
  intro ts
  induction ts with
  | nil => intro _; simp
  | cons t ts ih =>
    intro h
    obtain ⟨h0, h1, h2⟩ := h t (by simp)
    have ht := near_rat t.δ t.s t.num t.den h0 h1 h2
    have hr := ih (fun x hx => h x (by simp [hx]))
    simp only [List.map_cons, List.sum_cons]
    push_cast
    have e : ((t.δ : ℚ) + ((ts.map (·.δ)).sum : Int)) - ((t.s : ℚ) * ((t.num : ℚ) / t.den) +
          (ts.map fun t => (t.s : ℚ) * ((t.num : ℚ) / t.den)).sum)
        = ((t.δ : ℚ) - (t.s : ℚ) * ((t.num : ℚ) / t.den)) +
          ((((ts.map (·.δ)).sum : Int) : ℚ) - (ts.map fun t => (t.s : ℚ) * ((t.num : ℚ) / t.den)).sum) := by ring
    rw [e]
    exact le_trans (abs_add_le _ _) (add_le_add ht hr)


/-- weighted sums of values that are pairwise within `τ` differ by at most the weighted `τ` -/
theorem sum_weighted_tol {α : Type} (τ : ℚ) (w f g : α → ℚ) : ∀ (l : List α),
    (∀ a ∈ l, 0 ≤ w a ∧ |f a - g a| ≤ τ) →
    |(l.map fun a => w a * f a).sum - (l.map fun a => w a * g a).sum| ≤ (l.map fun a => w a * τ).sum := by
  intro l
  induction l with
  | nil => intro _; simp
  | cons a l ih =>
    intro h
    obtain ⟨h0, h1⟩ := h a (by simp)
    have hr := ih (fun x hx => h x (by simp [hx]))
    simp only [List.map_cons, List.sum_cons]
    have e : w a * f a + (l.map fun a => w a * f a).sum - (w a * g a + (l.map fun a => w a * g a).sum)
        = w a * (f a - g a) + ((l.map fun a => w a * f a).sum - (l.map fun a => w a * g a).sum) := by ring
    rw [e]
    have h2 : |w a * (f a - g a)| ≤ w a * τ := by
      rw [abs_mul, abs_of_nonneg h0]; exact mul_le_mul_of_nonneg_left h1 h0
    exact le_trans (abs_add_le _ _) (add_le_add h2 hr)

/-- the writer's explicit point numbers are distinct (strictly ascending) -/
theorem sasc_nodup : ∀ (ps : List Nat) (np : Nat), SAsc np ps → (np :: ps).Nodup := by
  intro ps
  induction ps with
  | nil => intro np _; simp
  | cons q ps ih =>
    intro np ⟨h1, h2, h3⟩
    have := ih q h3
    rw [List.nodup_cons]
    refine ⟨?_, this⟩
    intro hm
    rcases List.mem_cons.mp hm with h | h
    · omega
    · have := (sasc_bound ps q h3 np h).1; omega

end FontVerif.GvarApply
