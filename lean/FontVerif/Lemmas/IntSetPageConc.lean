/- C14 / concrete BitPage: the element-level page (`[u64; 8]` + cached length, Model/BitPageConc.lean)
refines the 512-bit page of Model/IntSet.lean.  Every operation of bitpage.rs commutes with the
abstraction function `CPage.abs` (pack the eight words little-endian) and keeps `CPageOk`. -/
import FontVerif.Lemmas.IntSetConcInv
set_option linter.unusedVariables false
set_option linter.unusedSimpArgs false
set_option exponentiation.threshold 600
namespace FontVerif.IntSet

/-! ### lists of words -/

theorem getD_lt {es : List Nat} (h : ∀ e ∈ es, e < 2 ^ 64) (i : Nat) : es.getD i 0 < 2 ^ 64 := by
  rw [List.getD_eq_getElem?_getD]
  cases hi : es[i]? with
  | none => exact Nat.two_pow_pos 64
  | some x => exact h x (List.mem_of_getElem? hi)

theorem getD_set_eq (es : List Nat) (i j a : Nat) :
    (es.set i a).getD j 0 = if i = j ∧ i < es.length then a else es.getD j 0 := by
  simp only [List.getD_eq_getElem?_getD, List.getElem?_set]
  by_cases h1 : i = j
  · by_cases h2 : i < es.length
    · subst h1; simp [h2]
    · subst h1
      have : es[i]? = none := List.getElem?_eq_none (by omega)
      simp [h2, this]
  · simp [h1]

theorem getD_of_length_le {es : List Nat} {i : Nat} (h : es.length ≤ i) : es.getD i 0 = 0 := by
  rw [List.getD_eq_getElem?_getD, List.getElem?_eq_none h]; rfl

theorem mem_set_lt {es : List Nat} (h : ∀ e ∈ es, e < 2 ^ 64) (i a : Nat) (ha : a < 2 ^ 64) :
    ∀ e ∈ es.set i a, e < 2 ^ 64 := by
  intro e he
  rcases List.mem_or_eq_of_mem_set he with h1 | h1
  · exact h e h1
  · exact h1 ▸ ha

/-! ### `pack` -/

theorem testBit_pack (es : List Nat) (h : ∀ e ∈ es, e < 2 ^ 64) (j : Nat) :
    (pack es).testBit j = (es.getD (j / 64) 0).testBit (j % 64) := by
  induction es generalizing j with
  | nil => simp [pack]
  | cons e es ih =>
    have he : e < 2 ^ 64 := h e (List.mem_cons_self)
    have hes : ∀ x ∈ es, x < 2 ^ 64 := fun x hx => h x (List.mem_cons_of_mem _ hx)
    unfold pack
    rw [Nat.add_comm, Nat.testBit_two_pow_mul_add _ he]
    by_cases hj : j < 64
    · have h0 : j / 64 = 0 := by omega
      have h1 : j % 64 = j := by omega
      simp [hj, h0, h1]
    · have h0 : j / 64 = (j - 64) / 64 + 1 := by omega
      have h1 : j % 64 = (j - 64) % 64 := by omega
      rw [if_neg hj, ih hes, h0, h1]
      simp

theorem pack_lt (es : List Nat) (h : ∀ e ∈ es, e < 2 ^ 64) : pack es < 2 ^ (64 * es.length) := by
  apply Nat.lt_pow_two_of_testBit
  intro i hi
  rw [testBit_pack es h, getD_of_length_le (by omega)]
  simp

theorem pack_elem (es : List Nat) (h : ∀ e ∈ es, e < 2 ^ 64) (i : Nat) :
    pack es / 2 ^ (i * 64) % 2 ^ 64 = es.getD i 0 := by
  apply Nat.eq_of_testBit_eq
  intro j
  rw [Nat.testBit_mod_two_pow, Nat.testBit_div_two_pow, testBit_pack es h]
  by_cases hj : j < 64
  · have h0 : (j + i * 64) / 64 = i := by omega
    have h1 : (j + i * 64) % 64 = j := by omega
    simp [hj, h0, h1]
  · have : (es.getD i 0).testBit j = false :=
      Nat.testBit_lt_two_pow (Nat.lt_of_lt_of_le (getD_lt h i) (Nat.pow_le_pow_right (by omega) (by omega)))
    rw [this]; simp [hj]

theorem elemMembers_length (base e : Nat) : (elemMembers base e).length = countOnes e := by
  rw [elemMembers_eq, List.length_map]; rfl

theorem recomputeLength_eq_popCount (es : List Nat) (hl : es.length = 8) (h : ∀ e ∈ es, e < 2 ^ 64) :
    recomputeLength es = popCount (pack es) := by
  unfold popCount pageMembers
  rw [List.length_flatMap]
  have : (fun a => (elemMembers (a * 64) (pack es / 2 ^ (a * 64) % 2 ^ 64)).length) =
      fun a => countOnes (es.getD a 0) := by
    funext a; rw [elemMembers_length, pack_elem es h]
  rw [this]
  match es, hl with
  | [a, b, c, d, e, f, g, i], _ =>
    simp [recomputeLength, List.range, List.range.loop]
    omega

/-! ### the abstraction function -/

theorem CPage.testBit_abs (p : CPage) (h : CPageOk p) (j : Nat) :
    p.abs.bits.testBit j = (p.elems.getD (j / 64) 0).testBit (j % 64) :=
  testBit_pack p.elems h.2.1 j

theorem CPage.abs_ok (p : CPage) (h : CPageOk p) : PageOk p.abs := by
  refine ⟨?_, ?_⟩
  · have := pack_lt p.elems h.2.1
    rw [h.1] at this
    exact this
  · show p.len = popCount (pack p.elems)
    rw [h.2.2, recomputeLength_eq_popCount _ h.1 h.2.1]

theorem cpageOk_zero : CPageOk CPage.zero := by
  refine ⟨rfl, ?_, by decide⟩
  intro e he
  simp [CPage.zero] at he
  omega

theorem CPage.abs_zero : CPage.zero.abs = Page.zero := by
  simp [CPage.zero, CPage.abs, Page.zero, pack, List.replicate]

/-- a page whose abstraction has the right bits and whose words are `u64`s is well formed as soon
as its cached length is the abstract (exact) one -/
theorem cpageOk_of_abs {q : CPage} (hl : q.elems.length = 8) (hb : ∀ e ∈ q.elems, e < 2 ^ 64)
    (hlen : q.len = popCount (pack q.elems)) : CPageOk q :=
  ⟨hl, hb, by rw [hlen, recomputeLength_eq_popCount _ hl hb]⟩

theorem elementIndex_lt (v : Nat) : elementIndex v < 8 := by
  unfold elementIndex; omega

theorem and_two_pow_eq_zero (x i : Nat) : ((x &&& 2 ^ i) == 0) = !x.testBit i := by
  cases hb : x.testBit i
  · have : x &&& 2 ^ i = 0 := by
      apply Nat.eq_of_testBit_eq
      intro j
      rw [Nat.testBit_and, Nat.testBit_two_pow]
      by_cases hj : i = j
      · subst hj; simp [hb]
      · simp [hj]
    simp [this]
  · have : (x &&& 2 ^ i).testBit i = true := by
      rw [Nat.testBit_and, Nat.testBit_two_pow]; simp [hb]
    have hne : x &&& 2 ^ i ≠ 0 := by
      intro h0; rw [h0] at this; simp at this
    simp [hne]

theorem CPage.element_bit (p : CPage) (v : Nat) (h : CPageOk p) :
    (p.element v).testBit (v % 64) = p.abs.bits.testBit (v % 512) := by
  rw [CPage.testBit_abs p h]
  have h1 : v % 512 % 64 = v % 64 := by omega
  rw [h1]; rfl

theorem CPage.insert_isNew (p : CPage) (v : Nat) (h : CPageOk p) :
    (p.insert v).2 = (pageInsert p.abs v).2 := by
  show ((p.element v &&& elemIndexBitMask v) == 0) = !p.abs.bits.testBit (v % 512)
  unfold elemIndexBitMask
  rw [and_two_pow_eq_zero, CPage.element_bit p v h]

theorem CPage.insert_elems_lt (p : CPage) (v : Nat) (h : CPageOk p) :
    ∀ e ∈ (p.insert v).1.elems, e < 2 ^ 64 := by
  apply mem_set_lt h.2.1
  apply Nat.or_lt_two_pow (getD_lt h.2.1 _)
  unfold elemIndexBitMask
  exact Nat.pow_lt_pow_right (by omega) (Nat.mod_lt _ (by omega))

theorem CPage.insert_abs (p : CPage) (v : Nat) (h : CPageOk p) :
    (p.insert v).1.abs = (pageInsert p.abs v).1 ∧ (p.insert v).2 = (pageInsert p.abs v).2 := by
  refine ⟨?_, CPage.insert_isNew p v h⟩
  have hbits : (p.insert v).1.abs.bits = (pageInsert p.abs v).1.bits := by
    apply Nat.eq_of_testBit_eq
    intro j
    rw [pageInsert_bits, CPage.testBit_abs p h]
    show (pack (p.insert v).1.elems).testBit j = _
    rw [testBit_pack _ (CPage.insert_elems_lt p v h)]
    show ((p.elems.set (elementIndex v) (p.element v ||| elemIndexBitMask v)).getD (j / 64) 0).testBit
      (j % 64) = _
    rw [getD_set_eq]
    have hk := elementIndex_lt v
    unfold elementIndex at hk ⊢
    by_cases hj : v % 512 / 64 = j / 64
    · rw [if_pos ⟨hj, by rw [h.1]; exact hk⟩, Nat.testBit_or]
      unfold CPage.element elemIndexBitMask elementIndex
      rw [Nat.testBit_two_pow, hj]
      congr 1
      apply decide_eq_decide.mpr
      omega
    · rw [if_neg (fun hc => hj hc.1)]
      have : ¬ (v % 512 = j) := by omega
      simp [this]
  have hlen : (p.insert v).1.abs.len = (pageInsert p.abs v).1.len := by
    rw [pageInsert_len, ← CPage.insert_isNew p v h]
    rfl
  cases hq : (p.insert v).1.abs with
  | mk qb ql =>
    cases hr : (pageInsert p.abs v).1 with
    | mk rb rl =>
      rw [hq, hr] at hbits hlen
      simp only at hbits hlen
      rw [hbits, hlen]

theorem CPage.insert_ok (p : CPage) (v : Nat) (h : CPageOk p) : CPageOk (p.insert v).1 := by
  have habs := (CPage.insert_abs p v h).1
  have hok := pageInsert_ok p.abs v (CPage.abs_ok p h)
  apply cpageOk_of_abs
  · show (p.elems.set _ _).length = 8
    rw [List.length_set]; exact h.1
  · exact CPage.insert_elems_lt p v h
  · rw [← habs] at hok
    exact hok.2

theorem testBit_not64 (x t : Nat) (ht : t < 64) : (not64 x).testBit t = !x.testBit t := by
  unfold not64 U64_MAX
  rw [Nat.testBit_xor, Nat.testBit_two_pow_sub_one, Nat.testBit_mod_two_pow]
  simp [ht]

theorem not64_lt (x : Nat) : not64 x < 2 ^ 64 := by
  unfold not64 U64_MAX
  exact Nat.xor_lt_two_pow (by omega) (Nat.mod_lt _ (Nat.two_pow_pos 64))

theorem CPage.contains_abs (p : CPage) (v : Nat) (h : CPageOk p) :
    p.contains v = pageContains p.abs v := by
  unfold CPage.contains pageContains elemIndexBitMask
  rw [← CPage.element_bit p v h]
  have := and_two_pow_eq_zero (p.element v) (v % 64)
  cases hb : (p.element v).testBit (v % 64) <;> simp [hb] at this ⊢ <;> exact this

theorem CPage.remove_elems_lt (p : CPage) (v : Nat) (h : CPageOk p) :
    ∀ e ∈ (p.remove v).1.elems, e < 2 ^ 64 := by
  apply mem_set_lt h.2.1
  exact Nat.and_lt_two_pow _ (not64_lt _)

theorem CPage.remove_snd (p : CPage) (v : Nat) (h : CPageOk p) :
    (p.remove v).2 = (pageRemove p.abs v).2 := by
  show p.contains v = p.abs.bits.testBit (v % 512)
  rw [CPage.contains_abs p v h]; rfl

theorem CPage.remove_abs (p : CPage) (v : Nat) (h : CPageOk p) :
    (p.remove v).1.abs = (pageRemove p.abs v).1 ∧ (p.remove v).2 = (pageRemove p.abs v).2 := by
  refine ⟨?_, CPage.remove_snd p v h⟩
  have hbits : (p.remove v).1.abs.bits = (pageRemove p.abs v).1.bits := by
    apply Nat.eq_of_testBit_eq
    intro j
    rw [pageRemove_bits, CPage.testBit_abs p h]
    show (pack (p.remove v).1.elems).testBit j = _
    rw [testBit_pack _ (CPage.remove_elems_lt p v h)]
    show ((p.elems.set (elementIndex v) (p.element v &&& not64 (elemIndexBitMask v))).getD (j / 64) 0).testBit
      (j % 64) = _
    rw [getD_set_eq]
    have hk := elementIndex_lt v
    unfold elementIndex at hk ⊢
    by_cases hj : v % 512 / 64 = j / 64
    · rw [if_pos ⟨hj, by rw [h.1]; exact hk⟩, Nat.testBit_and,
        testBit_not64 _ _ (Nat.mod_lt _ (by omega))]
      unfold CPage.element elemIndexBitMask elementIndex
      rw [Nat.testBit_two_pow, hj]
      congr 2
      apply decide_eq_decide.mpr
      omega
    · rw [if_neg (fun hc => hj hc.1)]
      have : ¬ (v % 512 = j) := by omega
      simp [this]
  have hlen : (p.remove v).1.abs.len = (pageRemove p.abs v).1.len := by
    rw [pageRemove_len, ← CPage.remove_snd p v h]
    rfl
  cases hq : (p.remove v).1.abs with
  | mk qb ql =>
    cases hr : (pageRemove p.abs v).1 with
    | mk rb rl =>
      rw [hq, hr] at hbits hlen
      simp only at hbits hlen
      rw [hbits, hlen]

theorem CPage.remove_ok (p : CPage) (v : Nat) (h : CPageOk p) : CPageOk (p.remove v).1 := by
  have habs := (CPage.remove_abs p v h).1
  have hok := pageRemove_ok p.abs v (CPage.abs_ok p h)
  apply cpageOk_of_abs
  · show (p.elems.set _ _).length = 8
    rw [List.length_set]; exact h.1
  · exact CPage.remove_elems_lt p v h
  · rw [← habs] at hok
    exact hok.2

/-! ### `insert_range` / `remove_range`: the per-element loop -/

theorem foldl_set_length (g : Nat → Nat → Nat) (fi n : Nat) (es : List Nat) :
    ((List.range n).foldl (fun es i => es.set (fi + i) (g (fi + i) (es.getD (fi + i) 0))) es).length
      = es.length := by
  induction n with
  | zero => rfl
  | succ m ihm =>
    rw [List.range_succ, List.foldl_append]
    simp only [List.foldl_cons, List.foldl_nil, List.length_set]
    exact ihm

/-- the loop `for idx in fi .. fi + n { es[idx] = g idx es[idx] }` touches exactly those words -/
theorem foldl_set_getD (g : Nat → Nat → Nat) (fi n : Nat) (es : List Nat) (k : Nat) :
    ((List.range n).foldl (fun es i => es.set (fi + i) (g (fi + i) (es.getD (fi + i) 0))) es).getD k 0
      = if fi ≤ k ∧ k < fi + n ∧ k < es.length then g k (es.getD k 0) else es.getD k 0 := by
  induction n with
  | zero => simp; omega
  | succ n ih =>
    rw [List.range_succ, List.foldl_append]
    simp only [List.foldl_cons, List.foldl_nil]
    rw [getD_set_eq, foldl_set_length]
    by_cases hk : fi + n = k
    · subst hk
      by_cases hl : fi + n < es.length
      · rw [if_pos ⟨rfl, hl⟩, if_pos ⟨by omega, by omega, hl⟩, ih, if_neg (by omega)]
      · rw [if_neg (by omega), if_neg (by omega), ih, if_neg (by omega)]
    · rw [if_neg (fun hc => hk hc.1), ih]
      by_cases hc : fi ≤ k ∧ k < fi + n ∧ k < es.length
      · rw [if_pos hc, if_pos ⟨hc.1, by omega, hc.2.2⟩]
      · rw [if_neg hc, if_neg (by omega)]

theorem foldl_set_lt (g : Nat → Nat → Nat) (hg : ∀ i x, x < 2 ^ 64 → g i x < 2 ^ 64) (fi n : Nat)
    (es : List Nat) (h : ∀ e ∈ es, e < 2 ^ 64) :
    ∀ e ∈ (List.range n).foldl (fun es i => es.set (fi + i) (g (fi + i) (es.getD (fi + i) 0))) es,
      e < 2 ^ 64 := by
  induction n with
  | zero => exact h
  | succ m ihm =>
    rw [List.range_succ, List.foldl_append]
    simp only [List.foldl_cons, List.foldl_nil]
    exact mem_set_lt ihm _ _ (hg _ _ (getD_lt ihm _))

theorem shl64_lt (x n : Nat) : shl64 x n < 2 ^ 64 := Nat.mod_lt _ (Nat.two_pow_pos 64)

theorem elemRangeMask_lt (f l idx : Nat) : elemRangeMask f l idx < 2 ^ 64 := by
  unfold elemRangeMask
  simp only []
  rw [Nat.shiftRight_eq_div_pow]
  exact Nat.lt_of_le_of_lt (Nat.div_le_self _ _) (shl64_lt _ _)

/-- the mask of element `idx` selects exactly the positions `64 idx + t` inside `[f, l]` -/
theorem testBit_elemRangeMask (f l idx t : Nat) (hfl : f ≤ l) (h1 : f / 64 ≤ idx) (h2 : idx ≤ l / 64)
    (ht : t < 64) :
    (elemRangeMask f l idx).testBit t = (decide (f ≤ 64 * idx + t) && decide (64 * idx + t ≤ l)) := by
  unfold elemRangeMask shl64 U64_MAX
  simp only []
  rw [Nat.testBit_shiftRight, Nat.testBit_mod_two_pow, Nat.testBit_shiftLeft,
    Nat.testBit_two_pow_sub_one]
  generalize hs : max f (idx * 64) % 64 = s
  generalize he : min l ((idx + 1) * 64 - 1) % 64 = e
  have hs' : (s = f % 64 ∧ idx * 64 ≤ f) ∨ (s = 0 ∧ f ≤ idx * 64) := by
    rcases Nat.le_total f (idx * 64) with hc | hc
    · right; rw [Nat.max_eq_right hc] at hs; omega
    · left; rw [Nat.max_eq_left hc] at hs; omega
  have he' : (e = l % 64 ∧ l ≤ (idx + 1) * 64 - 1) ∨ (e = 63 ∧ (idx + 1) * 64 - 1 ≤ l) := by
    rcases Nat.le_total l ((idx + 1) * 64 - 1) with hc | hc
    · left; rw [Nat.min_eq_left hc] at he; omega
    · right; rw [Nat.min_eq_right hc] at he; omega
  have he64 : e < 64 := by omega
  by_cases ha : f ≤ 64 * idx + t <;> by_cases hb : 64 * idx + t ≤ l <;> simp [ha, hb] <;> omega

theorem CPage.insertRange_getD (p : CPage) (a b k : Nat) :
    (p.insertRange a b).elems.getD k 0 =
      if a % 512 / 64 ≤ k ∧ k < a % 512 / 64 + (b % 512 / 64 + 1 - a % 512 / 64) ∧ k < p.elems.length
      then p.elems.getD k 0 ||| elemRangeMask (a % 512) (b % 512) k else p.elems.getD k 0 :=
  foldl_set_getD (fun idx old => old ||| elemRangeMask (a % 512) (b % 512) idx) _ _ _ _

theorem CPage.removeRange_getD (p : CPage) (a b k : Nat) :
    (p.removeRange a b).elems.getD k 0 =
      if a % 512 / 64 ≤ k ∧ k < a % 512 / 64 + (b % 512 / 64 + 1 - a % 512 / 64) ∧ k < p.elems.length
      then p.elems.getD k 0 &&& not64 (elemRangeMask (a % 512) (b % 512) k) else p.elems.getD k 0 :=
  foldl_set_getD (fun idx old => old &&& not64 (elemRangeMask (a % 512) (b % 512) idx)) _ _ _ _

theorem CPage.insertRange_length (p : CPage) (a b : Nat) :
    (p.insertRange a b).elems.length = p.elems.length :=
  foldl_set_length (fun idx old => old ||| elemRangeMask (a % 512) (b % 512) idx) _ _ _

theorem CPage.removeRange_length (p : CPage) (a b : Nat) :
    (p.removeRange a b).elems.length = p.elems.length :=
  foldl_set_length (fun idx old => old &&& not64 (elemRangeMask (a % 512) (b % 512) idx)) _ _ _

theorem CPage.insertRange_lt (p : CPage) (a b : Nat) (h : ∀ e ∈ p.elems, e < 2 ^ 64) :
    ∀ e ∈ (p.insertRange a b).elems, e < 2 ^ 64 :=
  foldl_set_lt (fun idx old => old ||| elemRangeMask (a % 512) (b % 512) idx)
    (fun i x hx => Nat.or_lt_two_pow hx (elemRangeMask_lt _ _ _)) _ _ _ h

theorem CPage.removeRange_lt (p : CPage) (a b : Nat) (h : ∀ e ∈ p.elems, e < 2 ^ 64) :
    ∀ e ∈ (p.removeRange a b).elems, e < 2 ^ 64 :=
  foldl_set_lt (fun idx old => old &&& not64 (elemRangeMask (a % 512) (b % 512) idx))
    (fun i x hx => Nat.and_lt_two_pow _ (not64_lt _)) _ _ _ h

theorem CPage.insertRange_len (p : CPage) (a b : Nat) :
    (p.insertRange a b).len = recomputeLength (p.insertRange a b).elems := rfl

theorem CPage.removeRange_len (p : CPage) (a b : Nat) :
    (p.removeRange a b).len = recomputeLength (p.removeRange a b).elems := rfl

theorem CPage.insertRange_ok (p : CPage) (a b : Nat) (h : CPageOk p) : CPageOk (p.insertRange a b) := by
  refine ⟨?_, ?_, CPage.insertRange_len p a b⟩
  · rw [CPage.insertRange_length]; exact h.1
  · exact CPage.insertRange_lt p a b h.2.1

theorem CPage.removeRange_ok (p : CPage) (a b : Nat) (h : CPageOk p) : CPageOk (p.removeRange a b) := by
  refine ⟨?_, ?_, CPage.removeRange_len p a b⟩
  · rw [CPage.removeRange_length]; exact h.1
  · exact CPage.removeRange_lt p a b h.2.1

theorem page_ext {p q : Page} (hb : p.bits = q.bits) (hl : p.len = q.len) : p = q := by
  cases p; cases q; simp only at hb hl; rw [hb, hl]

theorem CPage.insertRange_abs (p : CPage) (a b : Nat) (h : CPageOk p) (hab : a % 512 ≤ b % 512) :
    (p.insertRange a b).abs = pageInsertRange p.abs a b := by
  have hok := CPage.insertRange_ok p a b h
  have hbits : (p.insertRange a b).abs.bits = (pageInsertRange p.abs a b).bits := by
    apply Nat.eq_of_testBit_eq
    intro j
    rw [pageInsertRange_bits _ _ _ _ hab, CPage.testBit_abs _ hok, CPage.testBit_abs _ h,
      CPage.insertRange_getD, h.1]
    have hb512 : b % 512 < 512 := Nat.mod_lt _ (by omega)
    by_cases hc : a % 512 / 64 ≤ j / 64 ∧ j / 64 < a % 512 / 64 + (b % 512 / 64 + 1 - a % 512 / 64) ∧ j / 64 < 8
    · rw [if_pos hc, Nat.testBit_or,
        testBit_elemRangeMask _ _ _ _ hab hc.1 (by omega) (Nat.mod_lt _ (by omega))]
      have : 64 * (j / 64) + j % 64 = j := by omega
      rw [this]
    · rw [if_neg hc]
      have : ¬ (a % 512 ≤ j ∧ j ≤ b % 512) := by omega
      by_cases h1 : a % 512 ≤ j <;> by_cases h2 : j ≤ b % 512 <;> simp [h1, h2] <;> omega
  apply page_ext hbits
  show recomputeLength (p.insertRange a b).elems = popCount (pageInsertRange p.abs a b).bits
  rw [recomputeLength_eq_popCount _ hok.1 hok.2.1, ← hbits]; rfl

theorem CPage.removeRange_abs (p : CPage) (a b : Nat) (h : CPageOk p) (hab : a % 512 ≤ b % 512) :
    (p.removeRange a b).abs = pageRemoveRange p.abs a b := by
  have hok := CPage.removeRange_ok p a b h
  have hbits : (p.removeRange a b).abs.bits = (pageRemoveRange p.abs a b).bits := by
    apply Nat.eq_of_testBit_eq
    intro j
    rw [pageRemoveRange_bits _ _ _ _ hab, CPage.testBit_abs _ hok, CPage.testBit_abs _ h,
      CPage.removeRange_getD, h.1]
    have hb512 : b % 512 < 512 := Nat.mod_lt _ (by omega)
    by_cases hc : a % 512 / 64 ≤ j / 64 ∧ j / 64 < a % 512 / 64 + (b % 512 / 64 + 1 - a % 512 / 64) ∧ j / 64 < 8
    · rw [if_pos hc, Nat.testBit_and, testBit_not64 _ _ (Nat.mod_lt _ (by omega)),
        testBit_elemRangeMask _ _ _ _ hab hc.1 (by omega) (Nat.mod_lt _ (by omega))]
      have : 64 * (j / 64) + j % 64 = j := by omega
      rw [this]
    · rw [if_neg hc]
      have : ¬ (a % 512 ≤ j ∧ j ≤ b % 512) := by omega
      by_cases h1 : a % 512 ≤ j <;> by_cases h2 : j ≤ b % 512 <;> simp [h1, h2] <;> omega
  apply page_ext hbits
  show recomputeLength (p.removeRange a b).elems = popCount (pageRemoveRange p.abs a b).bits
  rw [recomputeLength_eq_popCount _ hok.1 hok.2.1, ← hbits]; rfl

/-! ### `clear` -/

theorem CPage.clear_elems (p : CPage) (h : CPageOk p) : p.clear.elems = List.replicate 8 0 := by
  show p.elems.map (fun _ => 0) = _
  rw [List.map_const', h.1]

theorem CPage.clear_eq_zero (p : CPage) (h : CPageOk p) : p.clear = CPage.zero := by
  have := CPage.clear_elems p h
  unfold CPage.clear at this ⊢
  simp only at this
  rw [this]; rfl

theorem CPage.clear_ok (p : CPage) (h : CPageOk p) : CPageOk p.clear := by
  rw [CPage.clear_eq_zero p h]; exact cpageOk_zero

theorem CPage.clear_abs (p : CPage) (h : CPageOk p) : p.clear.abs = Page.zero := by
  rw [CPage.clear_eq_zero p h]; exact CPage.abs_zero

/-! ### `process` and the three element operators -/

theorem getD_map_range (g : Nat → Nat) (n k : Nat) :
    ((List.range n).map g).getD k 0 = if k < n then g k else 0 := by
  by_cases h : k < n
  · simp [List.getD_eq_getElem?_getD, h]
  · simp [List.getD_eq_getElem?_getD, h]

theorem CPage.process_refines {eop : Nat → Nat → Nat} {op : Nat → Nat → Nat} {f : Bool → Bool → Bool}
    (he : ElemOp eop f) (ho : BitwiseOp op f) : PageOpRefines (CPage.process eop) op := by
  have hok : ∀ a b, CPageOk a → CPageOk b → CPageOk (CPage.process eop a b) := by
    intro a b ha hb
    refine ⟨by simp [CPage.process], ?_, rfl⟩
    intro e hmem
    simp only [CPage.process, List.mem_map, List.mem_range] at hmem
    obtain ⟨i, _, rfl⟩ := hmem
    exact he.lt _ _ (getD_lt ha.2.1 _) (getD_lt hb.2.1 _)
  refine ⟨hok, ?_⟩
  intro a b ha hb
  have hokab := hok a b ha hb
  have hbits : (CPage.process eop a b).abs.bits = op a.abs.bits b.abs.bits := by
    apply Nat.eq_of_testBit_eq
    intro j
    rw [ho.bit, CPage.testBit_abs _ hokab, CPage.testBit_abs _ ha, CPage.testBit_abs _ hb]
    show (((List.range 8).map (fun i => eop (a.elems.getD i 0) (b.elems.getD i 0))).getD (j / 64) 0).testBit
      (j % 64) = _
    rw [getD_map_range]
    by_cases hj : j / 64 < 8
    · rw [if_pos hj]
      exact he.bit _ _ _ (getD_lt ha.2.1 _) (getD_lt hb.2.1 _) (Nat.mod_lt _ (by omega))
    · rw [if_neg hj, getD_of_length_le (by rw [ha.1]; omega), getD_of_length_le (by rw [hb.1]; omega)]
      simp [ho.ff]
  apply page_ext hbits
  show recomputeLength (CPage.process eop a b).elems = popCount (op a.abs.bits b.abs.bits)
  rw [recomputeLength_eq_popCount _ hokab.1 hokab.2.1, ← hbits]; rfl

theorem elemOp_union : ElemOp elemUnion (fun a b => a || b) :=
  ⟨fun a b i _ _ _ => Nat.testBit_or a b i, fun a b ha hb => Nat.or_lt_two_pow ha hb⟩

theorem elemOp_intersect : ElemOp elemIntersect (fun a b => a && b) :=
  ⟨fun a b i _ _ _ => Nat.testBit_and a b i, fun a b ha hb => Nat.and_lt_two_pow _ hb⟩

theorem elemOp_subtract : ElemOp elemSubtract (fun a b => a && !b) := by
  refine ⟨?_, fun a b ha hb => Nat.and_lt_two_pow _ (not64_lt _)⟩
  intro a b i _ _ hi
  unfold elemSubtract
  rw [Nat.testBit_and, testBit_not64 _ _ hi]

theorem refines_union : PageOpRefines CPage.union opUnion :=
  CPage.process_refines elemOp_union bitwise_union

theorem refines_intersect : PageOpRefines CPage.intersect opIntersect :=
  CPage.process_refines elemOp_intersect bitwise_intersect

theorem refines_subtract : PageOpRefines CPage.subtract opSubtract :=
  CPage.process_refines elemOp_subtract bitwise_subtract

theorem refines_revSubtract : PageOpRefines CPage.revSubtract opRevSubtract :=
  ⟨fun a b ha hb => refines_subtract.ok b a hb ha, fun a b ha hb => refines_subtract.abs b a hb ha⟩

/-! ### `PartialEq for BitPage` compares the storage: the abstraction is injective -/

theorem pack_injective (es es' : List Nat) (hl : es.length = es'.length)
    (h : ∀ e ∈ es, e < 2 ^ 64) (h' : ∀ e ∈ es', e < 2 ^ 64) (hp : pack es = pack es') : es = es' := by
  apply List.ext_getElem hl
  intro i h1 h2
  have a1 := pack_elem es h i
  have a2 := pack_elem es' h' i
  rw [hp, a2] at a1
  simpa [List.getD_eq_getElem?_getD, h1, h2] using a1.symm

end FontVerif.IntSet
