/-
C02 core 2b — the memory metrics `Outlines::outline_rec` accumulates (Model/Composite.lean): bounds in terms of the
number of activations, and the shape invariant the HarfBuzz-style carve relies on.
-/
import FontVerif.Model.Composite
import FontVerif.Lemmas.Carve
namespace FontVerif.CompositeMemLemmas
open FontVerif FontVerif.Composite
set_option linter.unusedVariables false

/-- per-glyph limits of the glyph table: a simple glyph has at most `P` points and `P` contours, a composite at most
    `C` components (in a font: `P ≤ 65536`, `C` below the glyph's byte length / 6) -/
def GOk (P C : Nat) : GlyphInfo → Prop
  | .simple p c _ => p ≤ P ∧ c ≤ P
  | .composite cs _ => cs.length ≤ C
  | _ => True

/-- what holds of the accumulated counters at every moment -/
structure Bnd (P : Nat) (o : Out) : Prop where
  pts : o.points ≤ P * o.visits
  ctr : o.contours ≤ P * o.visits
  ms : o.maxSimple ≤ P + 4
  mo : o.maxOther ≤ o.points + 4
  inv : o.maxOther = 0 → o.points = 0 ∧ o.contours = 0 ∧ o.maxSimple = 0

theorem bnd_init (P : Nat) : Bnd P {} := ⟨by simp, by simp, by simp, by simp, fun _ => ⟨rfl, rfl, rfl⟩⟩

/-- what one activation (and everything below it) does to the counters -/
def Grow (P C f cd : Nat) (o o' : Out) : Prop :=
  Bnd P o' ∧ o.visits ≤ o'.visits ∧ o.points ≤ o'.points ∧
  o'.maxDeltaStack ≤ max o.maxDeltaStack (cd + f * (C + 4))

theorem loop_grow (G : Nat → GlyphInfo) (P C f : Nat) (prev : Rec) (hG : ∀ i, GOk P C (G i))
    (hprev : ∀ g o cd o', GOk P C g → Bnd P o → prev g o cd = .ok o' → Grow P C f cd o o') :
    ∀ (cs : List Nat) (o : Out) (cd : Nat) (o' : Out), Bnd P o → loop G prev cs o cd = .ok o' →
      Grow P C f cd o o' := by
  intro cs
  induction cs with
  | nil =>
    intro o cd o' hb h
    simp [loop] at h; subst h
    exact ⟨hb, Nat.le_refl _, Nat.le_refl _, Nat.le_max_left _ _⟩
  | cons c rest ih =>
    intro o cd o' hb h
    unfold loop at h
    split at h
    · cases h
    · exact ih _ _ _ hb h
    · rename_i g hne1 hne2
      split at h
      · cases h
      · rename_i o1 hp
        have hg : GOk P C (G c) := hG c
        obtain ⟨b1, v1, p1, m1⟩ := hprev _ _ _ _ hg hb hp
        obtain ⟨b2, v2, p2, m2⟩ := ih _ _ _ b1 h
        refine ⟨b2, Nat.le_trans v1 v2, Nat.le_trans p1 p2, ?_⟩
        omega

theorem recF_grow (G : Nat → GlyphInfo) (P C : Nat) (hG : ∀ i, GOk P C (G i)) :
    ∀ (f : Nat) (g : GlyphInfo) (o : Out) (cd : Nat) (o' : Out), GOk P C g → Bnd P o →
      recF G f g o cd = .ok o' → Grow P C f cd o o' := by
  intro f
  induction f with
  | zero => intro g o cd o' _ _ h; simp [recF] at h
  | succ f ih =>
    intro g o cd o' hg hb h
    unfold recF level at h
    cases g with
    | readErr =>
      simp only [] at h
      have := Except.ok.inj h; subst this
      exact ⟨hb, Nat.le_refl _, Nat.le_refl _, Nat.le_max_left _ _⟩
    | empty =>
      simp only [] at h
      have := Except.ok.inj h; subst this
      exact ⟨hb, Nat.le_refl _, Nat.le_refl _, Nat.le_max_left _ _⟩
    | simple p c hh =>
      simp only [] at h
      have := Except.ok.inj h; subst this
      obtain ⟨hp, hc⟩ := hg
      obtain ⟨b1, b2, b3, b4, b5⟩ := hb
      refine ⟨⟨?_, ?_, ?_, ?_, ?_⟩, ?_, ?_, ?_⟩
      · simp only [PHANTOM]; rw [Nat.mul_add]; omega
      · simp only [PHANTOM]; rw [Nat.mul_add]; omega
      · simp only [PHANTOM]; omega
      · simp only [PHANTOM]; omega
      · simp only [PHANTOM]; intro h0; omega
      · simp only []; omega
      · simp only []; omega
      · simp only []; exact Nat.le_max_left _ _
    | composite cs hh =>
      simp only [] at h
      split at h
      · cases h
      · rename_i o1 hl
        have hlen : cs.length ≤ C := hg
        have hb1 : Bnd P { o with visits := o.visits + 1 } := by
          obtain ⟨b1, b2, b3, b4, b5⟩ := hb
          refine ⟨?_, ?_, b3, b4, b5⟩
          · simp only []; rw [Nat.mul_add]; omega
          · simp only []; rw [Nat.mul_add]; omega
        obtain ⟨c1, c2, c3, c4⟩ := loop_grow G P C f (recF G f) hG ih cs _ _ _ hb1 hl
        simp only [] at c2 c3 c4
        have := Except.ok.inj h; subst this
        have hmul : (f + 1) * (C + 4) = f * (C + 4) + (C + 4) := by rw [Nat.add_mul]; omega
        simp only [PHANTOM] at c4
        obtain ⟨b1, b2, b3, b4, b5⟩ := c1
        cases hh
        · -- no instructions: only the delta stack depth is updated
          simp only [Bool.false_eq_true, if_false, Bool.or_false, PHANTOM]
          refine ⟨⟨b1, b2, b3, b4, b5⟩, ?_, c3, ?_⟩
          · simp only []; omega
          · simp only []; omega
        · simp only [if_true, Bool.or_true, PHANTOM]
          refine ⟨⟨b1, b2, b3, ?_, ?_⟩, ?_, c3, ?_⟩
          · simp only []; omega
          · simp only []; intro h0; omega
          · simp only []; omega
          · simp only []; omega

/-- **the metrics of `Outlines::outline`**: points and contours at most `P` per activation, `max_simple_points ≤ P + 4`,
    `max_other_points ≤ points + 4`, `max_component_delta_stack ≤ 33 · (C + 4)`, and either a simple glyph was reached
    (`max_other_points ≥ 1`) or nothing was counted -/
theorem outline_bnd (G : Nat → GlyphInfo) (P C : Nat) (hG : ∀ i, GOk P C (G i)) (gid : Nat) (o : Out)
    (h : Composite.outline G gid = .ok o) : Bnd P o ∧ o.maxDeltaStack ≤ 33 * (C + 4) := by
  unfold Composite.outline at h
  have hg := hG gid
  cases hgi : G gid with
  | readErr => rw [hgi] at h; cases h
  | empty =>
    rw [hgi] at h
    have := Except.ok.inj h; subst this
    exact ⟨bnd_init P, by simp⟩
  | simple p c hh =>
    rw [hgi] at h hg
    simp only [] at h
    have := recF_grow G P C hG _ _ _ _ _ hg (bnd_init P) h
    refine ⟨this.1, ?_⟩
    have := this.2.2.2
    simp only [RECURSION_LIMIT] at this
    omega
  | composite cs hh =>
    rw [hgi] at h hg
    simp only [] at h
    have := recF_grow G P C hG _ _ _ _ _ hg (bnd_init P) h
    refine ⟨this.1, ?_⟩
    have := this.2.2.2
    simp only [RECURSION_LIMIT] at this
    omega

/-! ### the shape invariant alone (no limits on the glyph table needed) -/

/-- as soon as anything has been counted, `max_other_points` is non-zero -/
def Shape (o : Out) : Prop := o.maxOther = 0 → o.points = 0 ∧ o.contours = 0 ∧ o.maxSimple = 0

theorem loop_shape (G : Nat → GlyphInfo) (prev : Rec)
    (hprev : ∀ g o cd o', Shape o → prev g o cd = .ok o' → Shape o') :
    ∀ (cs : List Nat) (o : Out) (cd : Nat) (o' : Out), Shape o → loop G prev cs o cd = .ok o' → Shape o' := by
  intro cs
  induction cs with
  | nil => intro o cd o' hb h; simp [loop] at h; subst h; exact hb
  | cons c rest ih =>
    intro o cd o' hb h
    unfold loop at h
    split at h
    · cases h
    · exact ih _ _ _ hb h
    · split at h
      · cases h
      · rename_i o1 hp
        exact ih _ _ _ (hprev _ _ _ _ hb hp) h

theorem recF_shape (G : Nat → GlyphInfo) :
    ∀ (f : Nat) (g : GlyphInfo) (o : Out) (cd : Nat) (o' : Out), Shape o → recF G f g o cd = .ok o' → Shape o' := by
  intro f
  induction f with
  | zero => intro g o cd o' _ h; simp [recF] at h
  | succ f ih =>
    intro g o cd o' hb h
    unfold recF level at h
    cases g with
    | readErr => simp only [] at h; have := Except.ok.inj h; subst this; exact hb
    | empty => simp only [] at h; have := Except.ok.inj h; subst this; exact hb
    | simple p c hh =>
      simp only [] at h
      have := Except.ok.inj h; subst this
      intro h0; simp only [PHANTOM] at h0; omega
    | composite cs hh =>
      simp only [] at h
      split at h
      · cases h
      · rename_i o1 hl
        have hs1 : Shape { o with visits := o.visits + 1 } := hb
        have c1 := loop_shape G (recF G f) ih cs _ _ _ hs1 hl
        have := Except.ok.inj h; subst this
        cases hh
        · simp only [Bool.false_eq_true, if_false, Bool.or_false]; exact c1
        · simp only [if_true, Bool.or_true, PHANTOM]
          intro h0; simp only [] at h0; omega

theorem outline_shape (G : Nat → GlyphInfo) (gid : Nat) (o : Out) (h : Composite.outline G gid = .ok o) : Shape o := by
  unfold Composite.outline at h
  have h0 : Shape {} := fun _ => ⟨rfl, rfl, rfl⟩
  cases hgi : G gid with
  | readErr => rw [hgi] at h; cases h
  | empty => rw [hgi] at h; have := Except.ok.inj h; subst this; exact h0
  | simple p c hh => rw [hgi] at h; exact recF_shape G _ _ _ _ _ h0 h
  | composite cs hh => rw [hgi] at h; exact recF_shape G _ _ _ _ _ h0 h

/-! ### payload ≤ bytes needed -/

open FontVerif.Carve in
theorem total_le_need : ∀ (prog : List Entry) (a : Nat), total prog ≤ need prog a := by
  intro prog
  induction prog with
  | nil => intro a; simp [total, need]
  | cons e es ih =>
    intro a
    unfold total need
    split
    · rename_i h0; rw [h0]; have := ih a; omega
    · have := ih (a + pad a e.align + e.count * e.size); omega

end FontVerif.CompositeMemLemmas
