/-
C18 — glyph-keyed splice: what `OffsetArrayBuilder::build` / `patch_offset_array` produce.

Spec vocabulary (used in the statements of Props/C18.lean):
  `glyphAt offsets data g`  the bytes between offsets g and g+1
  `padTo t d`               patch data followed by the padding the code adds (len % divisor zero bytes)
  `chunkFor a t repl g`     new bytes of glyph g: padded replacement if `repl` lists g, else the old bytes
  `startsFrom w chunks`     running start offsets of consecutive chunks, the first at `w`
  `encodeOffs t os`         the offset array bytes: each o stored as (o / divisor + bias) in `width` bytes
Main result: `patchOffsetArray_eq` — on success
  data = concatenation of the chunks of gids 0..=maxGid, offsets = their running starts ++ [total].
-/
import FontVerif.Model.PatchRound
set_option linter.unusedVariables false
namespace FontVerif.Ift

/-! ## spec vocabulary -/

def glyphAt (offsets : List Nat) (data : Bytes) (g : Nat) : Bytes :=
  sliceLen data (offsets.getD g 0) (offsets.getD (g + 1) 0 - offsets.getD g 0)

def padTo (t : OffsetType) (d : Bytes) : Bytes := d ++ List.replicate (d.length % t.divisor) 0

def chunkFor (a : OffsetArray) (t : OffsetType) (repl : List (Nat × Bytes)) (g : Nat) : Bytes :=
  match repl.lookup g with
  | some d => padTo t d
  | none => glyphAt a.offsets a.data g

def startsFrom : Nat → List Bytes → List Nat
  | _, [] => []
  | w, c :: cs => w :: startsFrom (w + c.length) cs

def encodeOffs (t : OffsetType) (os : List Nat) : Bytes :=
  os.flatMap (fun o => beBytes t.width (o / t.divisor + t.bias))

def SortedGids (l : List (Nat × Bytes)) : Prop := l.Pairwise (fun x y => x.1 < y.1)

/-! ## small list facts -/

theorem startsFrom_append (w : Nat) (xs ys : List Bytes) :
    startsFrom w (xs ++ ys) = startsFrom w xs ++ startsFrom (w + xs.flatten.length) ys := by
  induction xs generalizing w with
  | nil => simp [startsFrom]
  | cons x xs ih =>
    simp only [List.cons_append, startsFrom, List.flatten_cons, List.length_append]
    rw [ih]; simp [Nat.add_assoc]

theorem startsFrom_length (w : Nat) (xs : List Bytes) : (startsFrom w xs).length = xs.length := by
  induction xs generalizing w with
  | nil => rfl
  | cons x xs ih => simp [startsFrom, ih]

theorem encodeOffs_append (t : OffsetType) (xs ys : List Nat) :
    encodeOffs t (xs ++ ys) = encodeOffs t xs ++ encodeOffs t ys := by
  simp [encodeOffs]

theorem lookup_append_of_not_mem (pre cur : List (Nat × Bytes)) (g : Nat)
    (h : ∀ x ∈ pre, x.1 ≠ g) : (pre ++ cur).lookup g = cur.lookup g := by
  induction pre with
  | nil => rfl
  | cons x xs ih =>
    obtain ⟨k, v⟩ := x
    have hk : (g == k) = false := by
      have := h (k, v) (by simp); simp only [ne_eq] at this
      simp only [beq_eq_false_iff_ne, ne_eq]; exact fun e => this e.symm
    simp only [List.cons_append, List.lookup, hk]
    exact ih (fun x hx => h x (List.mem_cons_of_mem _ hx))

theorem isReplaced_false_lookup (repl : List (Nat × Bytes)) (g : Nat) (h : isReplaced repl g = false) :
    repl.lookup g = none := by
  induction repl with
  | nil => rfl
  | cons x xs ih =>
    obtain ⟨k, v⟩ := x
    simp only [isReplaced, List.any_cons, Bool.or_eq_false_iff, beq_eq_false_iff_ne, ne_eq] at h
    have hk : (g == k) = false := by
      simp only [beq_eq_false_iff_ne, ne_eq]; exact fun e => h.1 e.symm
    simp only [List.lookup, hk]
    exact ih (by simpa [isReplaced] using h.2)

theorem isReplaced_true_mem (repl : List (Nat × Bytes)) (g : Nat) (h : isReplaced repl g = true) :
    ∃ x ∈ repl, x.1 = g := by
  simp only [isReplaced, List.any_eq_true, beq_iff_eq] at h
  exact h

/-! ## the replacement iterator as a suffix of the sorted replacement list -/

/-- `cur` is what is left of `repl` once all gids below `g` have been consumed -/
def SuffixAt (repl cur : List (Nat × Bytes)) (g : Nat) : Prop :=
  ∃ pre, repl = pre ++ cur ∧ (∀ x ∈ pre, x.1 < g) ∧ (∀ x ∈ cur, g ≤ x.1)

theorem suffixAt_start (repl : List (Nat × Bytes)) : SuffixAt repl repl 0 :=
  ⟨[], rfl, by simp, by simp⟩

theorem suffix_kept (repl cur : List (Nat × Bytes)) (g : Nat) (hs : SuffixAt repl cur g)
    (hr : isReplaced repl g = false) : SuffixAt repl cur (g + 1) := by
  obtain ⟨pre, he, hp, hc⟩ := hs
  refine ⟨pre, he, fun x hx => Nat.lt_succ_of_lt (hp x hx), ?_⟩
  intro x hx
  have hge := hc x hx
  have hne : x.1 ≠ g := by
    intro e
    have : isReplaced repl g = true := by
      simp only [isReplaced, List.any_eq_true, beq_iff_eq]
      exact ⟨x, by rw [he]; exact List.mem_append_right _ hx, e⟩
    rw [hr] at this; cases this
  omega

theorem suffix_replaced (repl cur : List (Nat × Bytes)) (g : Nat) (hsort : SortedGids repl)
    (hs : SuffixAt repl cur g) (hr : isReplaced repl g = true) :
    ∃ d rest, cur = (g, d) :: rest ∧ repl.lookup g = some d ∧ SuffixAt repl rest (g + 1) := by
  obtain ⟨pre, he, hp, hc⟩ := hs
  obtain ⟨x, hx, hxg⟩ := isReplaced_true_mem repl g hr
  have hcs : SortedGids cur := by
    unfold SortedGids at *; rw [he] at hsort; exact (List.pairwise_append.mp hsort).2.1
  have hxc : x ∈ cur := by
    rw [he] at hx
    rcases List.mem_append.mp hx with h | h
    · have := hp x h; omega
    · exact h
  cases cur with
  | nil => cases hxc
  | cons y rest =>
    have hy : y.1 = g := by
      have hge := hc y (by simp)
      rcases List.mem_cons.mp hxc with h | h
      · rw [← h]; exact hxg
      · have := (List.pairwise_cons.mp hcs).1 x h; omega
    obtain ⟨yk, yd⟩ := y
    simp only at hy
    subst hy
    refine ⟨yd, rest, rfl, ?_, ?_⟩
    · rw [he, lookup_append_of_not_mem pre _ yk (fun x hx => by have := hp x hx; omega)]
      simp [List.lookup]
    · refine ⟨pre ++ [(yk, yd)], by simp [he], ?_, ?_⟩
      · intro x hx
        rcases List.mem_append.mp hx with h | h
        · exact Nat.lt_succ_of_lt (hp x h)
        · simp only [List.mem_singleton] at h; subst h; exact Nat.lt_succ_self _
      · intro x hx
        have := (List.pairwise_cons.mp hcs).1 x hx
        simp only at this; omega

/-! ## runs -/

def runsCount : List (Bool × Nat × Nat) → Nat
  | [] => 0
  | (_, _, c) :: rest => c + runsCount rest

/-- the runs tile the gids from `g` upwards and each run is constant in `f` -/
def RunsOK (f : Nat → Bool) : Nat → List (Bool × Nat × Nat) → Prop
  | _, [] => True
  | g, (b, s, c) :: rest => s = g ∧ (∀ i, i < c → f (g + i) = b) ∧ RunsOK f (g + c) rest

theorem groupRuns_ok (f : Nat → Bool) (n s : Nat) :
    RunsOK f s (groupRuns s ((List.range' s n).map f)) ∧
    runsCount (groupRuns s ((List.range' s n).map f)) = n := by
  induction n generalizing s with
  | zero => simp [groupRuns, RunsOK, runsCount]
  | succ n ih =>
    have ih' := ih (s + 1)
    simp only [List.range'_succ, List.map_cons, groupRuns]
    generalize groupRuns (s + 1) ((List.range' (s + 1) n).map f) = r at ih'
    cases r with
    | nil =>
      simp only [runsCount] at ih'
      refine ⟨⟨rfl, ?_, trivial⟩, by simp [runsCount]; omega⟩
      intro i hi
      have : i = 0 := by omega
      subst this; rfl
    | cons hd rest =>
      obtain ⟨b', s', c⟩ := hd
      obtain ⟨⟨hs', hconst, hrest⟩, hcount⟩ := ih'
      simp only [runsCount] at hcount
      by_cases hb : f s = b'
      · simp only [hb, if_true]
        refine ⟨⟨rfl, ?_, ?_⟩, by simp only [runsCount]; omega⟩
        · intro i hi
          cases i with
          | zero => exact hb
          | succ i =>
            have := hconst i (by omega)
            rw [show s + (i + 1) = s + 1 + i by omega]; exact this
        · rw [show s + (c + 1) = s + 1 + c by omega]; exact hrest
      · simp only [hb, if_false]
        refine ⟨⟨rfl, ?_, ?_⟩, by simp only [runsCount]; omega⟩
        · intro i hi
          have : i = 0 := by omega
          subst this; rfl
        · exact ⟨hs', hconst, hrest⟩

/-! ## serializer steps -/

theorem embedBytes_ok (cap : Nat) (buf d buf' : Bytes) (h : embedBytes cap buf d = .ok buf') :
    buf' = buf ++ d := by
  unfold embedBytes at h
  split at h
  · cases h
  · cases h; rfl

theorem embedOffset_ok (t : OffsetType) (cap : Nat) (buf buf' : Bytes) (i : Nat)
    (h : embedOffset t cap buf i = .ok buf') :
    buf' = buf ++ encodeOffs t [i] ∧ i / t.divisor + t.bias < 2 ^ (t.width * 8) := by
  unfold embedOffset at h
  simp only at h
  split at h
  · cases h
  · rename_i hlt
    have := embedBytes_ok _ _ _ _ h
    exact ⟨by simpa [encodeOffs] using this, by omega⟩

theorem padTo_length (t : OffsetType) (d : Bytes) : (padTo t d).length = paddedLen t d := by
  simp [padTo, paddedLen]

theorem replaceOne_ok (t : OffsetType) (dc oc : Nat) (st st' : BuildState) (g : Nat) (d : Bytes)
    (more : List (Nat × Bytes)) (hr : st.repl = (g, d) :: more)
    (h : replaceOne t dc oc st = .ok st') :
    st'.data = st.data ++ padTo t d ∧ st'.offs = st.offs ++ encodeOffs t [st.writeIndex] ∧
    st'.writeIndex = st.writeIndex + (padTo t d).length ∧ st'.repl = more := by
  unfold replaceOne at h
  rw [hr] at h
  simp only at h
  split at h
  · cases h
  · rename_i data1 h1
    split at h
    · cases h
    · rename_i offs1 h2
      have e1 := embedBytes_ok _ _ _ _ h1
      have e2 := (embedOffset_ok _ _ _ _ _ h2).1
      split at h
      · rename_i hdiv
        split at h
        · cases h
        · rename_i data2 h3
          have e3 := embedBytes_ok _ _ _ _ h3
          cases h
          refine ⟨?_, e2, ?_, rfl⟩
          · simp only [e3, e1, padTo, List.append_assoc]
          · simp only [padTo, List.length_append, List.length_replicate]; omega
      · rename_i hdiv
        cases h
        have hd : t.divisor = 1 := by cases t <;> simp [OffsetType.divisor] at hdiv ⊢
        refine ⟨?_, e2, ?_, rfl⟩
        · simp [e1, padTo, hd, Nat.mod_one]
        · simp [padTo, hd, Nat.mod_one]

theorem replaceRun_spec (a : OffsetArray) (t : OffsetType) (dc oc : Nat) (repl : List (Nat × Bytes))
    (hsort : SortedGids repl) (c g : Nat) (st st' : BuildState)
    (hsuf : SuffixAt repl st.repl g) (hf : ∀ i, i < c → isReplaced repl (g + i) = true)
    (h : replaceRun t dc oc c st = .ok st') :
    st'.data = st.data ++ ((List.range' g c).map (chunkFor a t repl)).flatten ∧
    st'.offs = st.offs ++ encodeOffs t (startsFrom st.writeIndex ((List.range' g c).map (chunkFor a t repl))) ∧
    st'.writeIndex = st.writeIndex + (((List.range' g c).map (chunkFor a t repl)).flatten).length ∧
    SuffixAt repl st'.repl (g + c) := by
  induction c generalizing g st with
  | zero =>
    simp only [replaceRun] at h; cases h
    simp [startsFrom, encodeOffs]; exact hsuf
  | succ c ih =>
    simp only [replaceRun] at h
    split at h
    · cases h
    · rename_i st1 h1
      obtain ⟨d, rest, hcur, hlk, hsuf1⟩ := suffix_replaced repl st.repl g hsort hsuf (by simpa using hf 0 (by omega))
      obtain ⟨e1, e2, e3, e4⟩ := replaceOne_ok t dc oc st st1 g d rest hcur h1
      have hch : chunkFor a t repl g = padTo t d := by simp [chunkFor, hlk]
      obtain ⟨r1, r2, r3, r4⟩ := ih (g + 1) st1 (by rw [e4]; exact hsuf1)
        (fun i hi => by rw [show g + 1 + i = g + (i + 1) by omega]; exact hf (i + 1) (by omega)) h
      refine ⟨?_, ?_, ?_, ?_⟩
      · rw [r1, e1, List.range'_succ]; simp [hch]
      · rw [r2, e2, e3, List.range'_succ]
        simp only [List.map_cons, startsFrom, hch, encodeOffs, List.flatMap_cons, List.flatMap_nil,
          List.append_nil, List.append_assoc]
      · rw [r3, e3, List.range'_succ]; simp [hch]; omega
      · rw [show g + (c + 1) = g + 1 + c by omega]; exact r4

/-! ## kept ranges -/

theorem ascending_pairwise (l : List Nat) (h : ascending l = true) : l.Pairwise (· ≤ ·) := by
  induction l with
  | nil => exact List.Pairwise.nil
  | cons a rest ih =>
    cases rest with
    | nil => simp
    | cons b rest =>
      simp only [ascending, Bool.and_eq_true, decide_eq_true_eq] at h
      have hp := ih h.2
      refine List.pairwise_cons.mpr ⟨?_, hp⟩
      intro x hx
      rcases List.mem_cons.mp hx with e | e
      · rw [e]; exact h.1
      · have := (List.pairwise_cons.mp hp).1 x e; omega

theorem getD_mono (l : List Nat) (hp : l.Pairwise (· ≤ ·)) (i j : Nat) (hij : i ≤ j) (hj : j < l.length) :
    l.getD i 0 ≤ l.getD j 0 := by
  rcases Nat.lt_or_eq_of_le hij with h | h
  · have := (List.pairwise_iff_getElem.mp hp) i j (by omega) hj h
    simpa [List.getD, List.getElem?_eq_getElem, hj, show i < l.length by omega] using this
  · subst h; exact Nat.le_refl _

theorem offsetFor_ok (a : OffsetArray) (g o : Nat) (h : a.offsetFor g = .ok o) :
    g < a.offsets.length ∧ a.offsets.getD g 0 = o := by
  unfold OffsetArray.offsetFor at h
  split at h
  · rename_i o' ho
    split at h
    · cases h
    · cases h
      have := List.getElem?_eq_some_iff.mp ho
      obtain ⟨hl, he⟩ := this
      exact ⟨hl, by simp [List.getD, ho]⟩
  · cases h

theorem sliceLen_add (b : Bytes) (s m n : Nat) :
    sliceLen b s (m + n) = sliceLen b s m ++ sliceLen b (s + m) n := by
  unfold sliceLen
  rw [List.take_add, List.drop_drop]

theorem sliceLen_length (b : Bytes) (s n : Nat) (h : s + n ≤ b.length) : (sliceLen b s n).length = n := by
  unfold sliceLen; simp; omega

theorem glyphAt_length (offs : List Nat) (data : Bytes) (hp : offs.Pairwise (· ≤ ·)) (g : Nat)
    (hg : g + 1 < offs.length) (hend : offs.getD (g + 1) 0 ≤ data.length) :
    (glyphAt offs data g).length = offs.getD (g + 1) 0 - offs.getD g 0 := by
  have := getD_mono offs hp g (g + 1) (by omega) hg
  unfold glyphAt
  exact sliceLen_length _ _ _ (by omega)

/-- a kept range is the concatenation of its glyphs -/
theorem slice_range (offs : List Nat) (data : Bytes) (hp : offs.Pairwise (· ≤ ·)) (c s : Nat)
    (hl : s + c < offs.length) (hend : offs.getD (s + c) 0 ≤ data.length) :
    sliceLen data (offs.getD s 0) (offs.getD (s + c) 0 - offs.getD s 0)
      = ((List.range' s c).map (glyphAt offs data)).flatten := by
  induction c generalizing s with
  | zero => simp [sliceLen]
  | succ c ih =>
    have h1 := getD_mono offs hp s (s + 1) (by omega) (by omega)
    have h2 := getD_mono offs hp (s + 1) (s + (c + 1)) (by omega) hl
    have := ih (s + 1) (by omega) (by rw [show s + 1 + c = s + (c + 1) by omega]; exact hend)
    rw [show s + 1 + c = s + (c + 1) by omega] at this
    rw [List.range'_succ, List.map_cons, List.flatten_cons, ← this]
    have hsplit : offs.getD (s + (c + 1)) 0 - offs.getD s 0
        = (offs.getD (s + 1) 0 - offs.getD s 0) + (offs.getD (s + (c + 1)) 0 - offs.getD (s + 1) 0) := by omega
    rw [hsplit, sliceLen_add]
    congr 2
    omega

/-- the new offsets written for a kept range are the running starts of its glyphs -/
theorem starts_range (offs : List Nat) (data : Bytes) (hp : offs.Pairwise (· ≤ ·)) (s w n k top : Nat)
    (hk : s ≤ k) (hkn : k + n ≤ top) (hl : top < offs.length) (hend : offs.getD top 0 ≤ data.length) :
    (List.range' k n).map (fun i => offs.getD i 0 - offs.getD s 0 + w)
      = startsFrom (offs.getD k 0 - offs.getD s 0 + w) ((List.range' k n).map (glyphAt offs data)) := by
  induction n generalizing k with
  | zero => simp [startsFrom]
  | succ n ih =>
    have h0 := getD_mono offs hp s k hk (by omega)
    have h1 := getD_mono offs hp k (k + 1) (by omega) (by omega)
    have h2 := getD_mono offs hp (k + 1) top (by omega) hl
    have hlen := glyphAt_length offs data hp k (by omega) (by omega)
    rw [List.range'_succ, List.map_cons, List.map_cons, startsFrom, ih (k + 1) (by omega) (by omega)]
    congr 2
    rw [hlen]; omega

theorem keepOffsets_ok (a : OffsetArray) (t : OffsetType) (oc startOff w : Nat) (n g : Nat)
    (buf buf' : Bytes) (h : keepOffsets a t oc startOff w g n buf = .ok buf') :
    buf' = buf ++ encodeOffs t ((List.range' g n).map (fun i => a.offsets.getD i 0 - startOff + w)) := by
  induction n generalizing g buf with
  | zero => simp only [keepOffsets] at h; cases h; simp [encodeOffs]
  | succ n ih =>
    simp only [keepOffsets] at h
    split at h
    · cases h
    · rename_i cur hcur
      split at h
      · cases h
      · rename_i buf1 hb
        have e1 := (embedOffset_ok _ _ _ _ _ hb).1
        have e0 := (offsetFor_ok a g cur hcur).2
        rw [ih (g + 1) buf1 h, e1, List.range'_succ]
        simp only [List.getD] at e0
        simp [encodeOffs, e0]

theorem chunkFor_kept (a : OffsetArray) (t : OffsetType) (repl : List (Nat × Bytes)) (s c : Nat)
    (hf : ∀ i, i < c → isReplaced repl (s + i) = false) :
    (List.range' s c).map (chunkFor a t repl) = (List.range' s c).map (glyphAt a.offsets a.data) := by
  apply List.map_congr_left
  intro g hg
  have := List.mem_range'_1.mp hg
  have hr := hf (g - s) (by omega)
  rw [show s + (g - s) = g by omega] at hr
  simp [chunkFor, isReplaced_false_lookup repl g hr]

theorem suffix_kept_run (repl cur : List (Nat × Bytes)) (s c : Nat) (hs : SuffixAt repl cur s)
    (hf : ∀ i, i < c → isReplaced repl (s + i) = false) : SuffixAt repl cur (s + c) := by
  induction c with
  | zero => exact hs
  | succ c ih =>
    have := suffix_kept repl cur (s + c) (ih (fun i hi => hf i (by omega))) (hf c (by omega))
    exact this

theorem keepRun_spec (a : OffsetArray) (t : OffsetType) (dc oc : Nat) (repl : List (Nat × Bytes))
    (hasc : ascending a.offsets = true) (s c : Nat) (st st' : BuildState)
    (hsuf : SuffixAt repl st.repl s) (hf : ∀ i, i < c → isReplaced repl (s + i) = false)
    (h : keepRun a t dc oc s c st = .ok st') :
    st'.data = st.data ++ ((List.range' s c).map (chunkFor a t repl)).flatten ∧
    st'.offs = st.offs ++ encodeOffs t (startsFrom st.writeIndex ((List.range' s c).map (chunkFor a t repl))) ∧
    st'.writeIndex = st.writeIndex + (((List.range' s c).map (chunkFor a t repl)).flatten).length ∧
    SuffixAt repl st'.repl (s + c) := by
  have hp := ascending_pairwise _ hasc
  unfold keepRun at h
  split at h
  · cases h
  · rename_i startOff hso
    split at h
    · cases h
    · rename_i endOff heo
      obtain ⟨hl0, hs0⟩ := offsetFor_ok a s startOff hso
      obtain ⟨hl1, hs1⟩ := offsetFor_ok a (s + c) endOff heo
      split at h
      · cases h
      · split at h
        · cases h
        · rename_i hle hbound
          split at h
          · cases h
          · rename_i data1 hd
            split at h
            · cases h
            · rename_i offs1 ho
              cases h
              have e1 := embedBytes_ok _ _ _ _ hd
              have e2 := keepOffsets_ok _ _ _ _ _ _ _ _ _ ho
              have hend : a.offsets.getD (s + c) 0 ≤ a.data.length := by rw [hs1]; omega
              have hslice := slice_range a.offsets a.data hp c s hl1 hend
              rw [hs0, hs1] at hslice
              have hstarts := starts_range a.offsets a.data hp s st.writeIndex c s (s + c)
                (Nat.le_refl _) (Nat.le_refl _) hl1 hend
              rw [hs0] at hstarts
              simp only [Nat.sub_self, Nat.zero_add] at hstarts
              rw [chunkFor_kept a t repl s c hf]
              refine ⟨?_, ?_, ?_, suffix_kept_run repl _ s c hsuf hf⟩
              · simp only [e1, hslice]
              · simp only [e2, hstarts]
              · simp only [← hslice]
                rw [sliceLen_length _ _ _ (by omega)]

/-! ## the whole merge loop -/

theorem buildRuns_spec (a : OffsetArray) (t : OffsetType) (dc oc : Nat) (repl : List (Nat × Bytes))
    (hsort : SortedGids repl) (hasc : ascending a.offsets = true)
    (runs : List (Bool × Nat × Nat)) (g : Nat) (st st' : BuildState)
    (hruns : RunsOK (isReplaced repl) g runs) (hsuf : SuffixAt repl st.repl g)
    (h : buildRuns a t dc oc runs st = .ok st') :
    st'.data = st.data ++ ((List.range' g (runsCount runs)).map (chunkFor a t repl)).flatten ∧
    st'.offs = st.offs ++ encodeOffs t
      (startsFrom st.writeIndex ((List.range' g (runsCount runs)).map (chunkFor a t repl))) ∧
    st'.writeIndex = st.writeIndex + (((List.range' g (runsCount runs)).map (chunkFor a t repl)).flatten).length ∧
    SuffixAt repl st'.repl (g + runsCount runs) := by
  induction runs generalizing g st with
  | nil =>
    simp only [buildRuns] at h; cases h
    simp [runsCount, startsFrom, encodeOffs]; exact hsuf
  | cons r rest ih =>
    obtain ⟨b, s, c⟩ := r
    obtain ⟨hs, hconst, hrest⟩ := hruns
    subst hs
    have key : ∀ st1 : BuildState,
        (st1.data = st.data ++ ((List.range' s c).map (chunkFor a t repl)).flatten ∧
         st1.offs = st.offs ++ encodeOffs t (startsFrom st.writeIndex ((List.range' s c).map (chunkFor a t repl))) ∧
         st1.writeIndex = st.writeIndex + (((List.range' s c).map (chunkFor a t repl)).flatten).length ∧
         SuffixAt repl st1.repl (s + c)) →
        buildRuns a t dc oc rest st1 = .ok st' →
        (st'.data = st.data ++ ((List.range' s (runsCount ((b, s, c) :: rest))).map (chunkFor a t repl)).flatten ∧
         st'.offs = st.offs ++ encodeOffs t
           (startsFrom st.writeIndex ((List.range' s (runsCount ((b, s, c) :: rest))).map (chunkFor a t repl))) ∧
         st'.writeIndex = st.writeIndex + (((List.range' s (runsCount ((b, s, c) :: rest))).map (chunkFor a t repl)).flatten).length ∧
         SuffixAt repl st'.repl (s + runsCount ((b, s, c) :: rest))) := by
      intro st1 ⟨e1, e2, e3, e4⟩ h1
      obtain ⟨r1, r2, r3, r4⟩ := ih (s + c) st1 hrest e4 h1
      have hrc : runsCount ((b, s, c) :: rest) = c + runsCount rest := rfl
      have hsplit : List.range' s (c + runsCount rest)
          = List.range' s c ++ List.range' (s + c) (runsCount rest) := by
        rw [List.range'_append_1]
      rw [hrc, hsplit]
      refine ⟨?_, ?_, ?_, ?_⟩
      · rw [r1, e1]; simp only [List.map_append, List.flatten_append, List.append_assoc]
      · rw [r2, e2, e3, List.map_append, startsFrom_append, encodeOffs_append]
        simp only [List.append_assoc]
      · rw [r3, e3, List.map_append, List.flatten_append, List.length_append]; omega
      · rw [← Nat.add_assoc]; exact r4
    cases b with
    | true =>
      simp only [buildRuns] at h
      split at h
      · cases h
      · rename_i st1 h1
        exact key st1 (replaceRun_spec a t dc oc repl hsort c s st st1 hsuf hconst h1) h
    | false =>
      simp only [buildRuns] at h
      split at h
      · cases h
      · rename_i st1 h1
        exact key st1 (keepRun_spec a t dc oc repl hasc s c st st1 hsuf hconst h1) h

theorem keepRun_bounds (a : OffsetArray) (t : OffsetType) (dc oc : Nat) (hasc : ascending a.offsets = true)
    (s c : Nat) (st st' : BuildState) (h : keepRun a t dc oc s c st = .ok st') :
    ∀ i, i < c → s + i + 1 < a.offsets.length ∧ a.offsets.getD (s + i + 1) 0 ≤ a.data.length := by
  have hp := ascending_pairwise _ hasc
  unfold keepRun at h
  split at h
  · cases h
  · rename_i startOff hso
    split at h
    · cases h
    · rename_i endOff heo
      obtain ⟨hl1, hs1⟩ := offsetFor_ok a (s + c) endOff heo
      split at h
      · cases h
      · split at h
        · cases h
        · rename_i hle hbound
          intro i hi
          have := getD_mono a.offsets hp (s + i + 1) (s + c) (by omega) hl1
          exact ⟨by omega, by omega⟩

theorem buildRuns_bounds (a : OffsetArray) (t : OffsetType) (dc oc : Nat) (hasc : ascending a.offsets = true)
    (f : Nat → Bool) (runs : List (Bool × Nat × Nat)) (g : Nat) (st st' : BuildState)
    (hruns : RunsOK f g runs) (h : buildRuns a t dc oc runs st = .ok st') :
    ∀ i, i < runsCount runs → f (g + i) = false →
      g + i + 1 < a.offsets.length ∧ a.offsets.getD (g + i + 1) 0 ≤ a.data.length := by
  induction runs generalizing g st with
  | nil => intro i hi; simp [runsCount] at hi
  | cons r rest ih =>
    obtain ⟨b, s, c⟩ := r
    obtain ⟨hs, hconst, hrest⟩ := hruns
    subst hs
    intro i hi hf
    simp only [runsCount] at hi
    cases b with
    | true =>
      simp only [buildRuns] at h
      split at h
      · cases h
      · rename_i st1 h1
        by_cases hic : i < c
        · rw [hconst i hic] at hf; cases hf
        · have := ih (s + c) st1 hrest h (i - c) (by omega) (by rw [show s + c + (i - c) = s + i by omega]; exact hf)
          rw [show s + c + (i - c) = s + i by omega] at this
          exact this
    | false =>
      simp only [buildRuns] at h
      split at h
      · cases h
      · rename_i st1 h1
        by_cases hic : i < c
        · exact keepRun_bounds a t dc oc hasc s c st st1 h1 i hic
        · have := ih (s + c) st1 hrest h (i - c) (by omega) (by rw [show s + c + (i - c) = s + i by omega]; exact hf)
          rw [show s + c + (i - c) = s + i by omega] at this
          exact this

/-- every glyph that is kept lies inside the old data -/
def KeptInBounds (a : OffsetArray) (repl : List (Nat × Bytes)) (maxGid : Nat) : Prop :=
  ∀ g, g ≤ maxGid → repl.lookup g = none →
    g + 1 < a.offsets.length ∧ a.offsets.getD (g + 1) 0 ≤ a.data.length

theorem lookup_none_isReplaced (repl : List (Nat × Bytes)) (g : Nat) (h : repl.lookup g = none) :
    isReplaced repl g = false := by
  cases hr : isReplaced repl g with
  | false => rfl
  | true =>
    obtain ⟨x, hx, hxg⟩ := isReplaced_true_mem repl g hr
    exfalso
    induction repl with
    | nil => cases hx
    | cons y ys ih =>
      obtain ⟨k, v⟩ := y
      by_cases hk : g = k
      · subst hk; simp [List.lookup] at h
      · have hne : (g == k) = false := by simp only [beq_eq_false_iff_ne, ne_eq]; exact hk
        simp only [List.lookup, hne] at h
        rcases List.mem_cons.mp hx with e | e
        · subst e; exact hk hxg.symm
        · exact ih h (by simp only [isReplaced, List.any_eq_true, beq_iff_eq]; exact ⟨x, e, hxg⟩) e

/-- all chunks of the new table -/
def chunks (a : OffsetArray) (t : OffsetType) (repl : List (Nat × Bytes)) (maxGid : Nat) : List Bytes :=
  (List.range' 0 (maxGid + 1)).map (chunkFor a t repl)

/-- the array's own `all_offsets_are_ascending()` is at least as strict as `ascending` over the whole
offset list: by definition for glyf/loca and gvar; the CFF INDEX implementation skips the last entry,
there it is a well-formedness condition on the base table (`cffArray_ascSound`, Lemmas/IftCff.lean). -/
def OffsetArray.AscSound (a : OffsetArray) : Prop := a.ascOk = true → ascending a.offsets = true

/-- **`OffsetArrayBuilder::build`**: on success the data is the concatenation of the per-glyph chunks
and the offset array encodes their running starts followed by the total length. -/
theorem buildOffsets_eq (a : OffsetArray) (t : OffsetType) (repl : List (Nat × Bytes)) (maxGid dc oc : Nat)
    (hA : a.AscSound) (hsort : SortedGids repl) (data offs : Bytes)
    (h : buildOffsets a t repl maxGid dc oc = .ok (data, offs)) :
    data = (chunks a t repl maxGid).flatten ∧
    offs = encodeOffs t (startsFrom 0 (chunks a t repl maxGid) ++ [(chunks a t repl maxGid).flatten.length]) ∧
    ascending a.offsets = true ∧
    (chunks a t repl maxGid).flatten.length / t.divisor + t.bias < 2 ^ (t.width * 8) ∧
    KeptInBounds a repl maxGid := by
  unfold buildOffsets at h
  split at h
  · cases h
  · rename_i hasc
    have hasc' : ascending a.offsets = true := hA (by simpa using hasc)
    split at h
    · cases h
    · rename_i st hb
      split at h
      · cases h
      · rename_i offs1 ho
        cases h
        have hr := groupRuns_ok (isReplaced repl) (maxGid + 1) 0
        have hrange : runsFor repl maxGid = groupRuns 0 ((List.range' 0 (maxGid + 1)).map (isReplaced repl)) := by
          simp [runsFor, List.range_eq_range']
        rw [hrange] at hb
        obtain ⟨r1, r2, r3, _⟩ := buildRuns_spec a t dc oc repl hsort hasc' _ 0 _ st hr.1
          (suffixAt_start repl) hb
        rw [hr.2] at r1 r2 r3
        simp only [List.nil_append, Nat.zero_add] at r1 r2 r3
        obtain ⟨e, ebound⟩ := embedOffset_ok _ _ _ _ _ ho
        rw [r3] at ebound
        refine ⟨r1, ?_, hasc', ebound, ?_⟩
        · rw [e, r2, r3, encodeOffs_append]
          rfl
        · intro g hg hl
          have := buildRuns_bounds a t dc oc hasc' (isReplaced repl) _ 0 _ st hr.1 hb g (by rw [hr.2]; omega)
            (by rw [Nat.zero_add]; exact lookup_none_isReplaced repl g hl)
          simpa using this

/-- the offsets of the new table: running starts of the chunks, then the total length -/
def newOffsets (cs : List Bytes) : List Nat := startsFrom 0 cs ++ [cs.flatten.length]

theorem starts_getD (w : Nat) (cs : List Bytes) (g : Nat) (hg : g ≤ cs.length) :
    (startsFrom w cs ++ [w + cs.flatten.length]).getD g 0 = w + (cs.take g).flatten.length := by
  induction cs generalizing w g with
  | nil =>
    have : g = 0 := by simpa using hg
    subst this; simp [startsFrom]
  | cons c cs ih =>
    cases g with
    | zero => simp [startsFrom]
    | succ g =>
      have := ih (w + c.length) g (by simpa using hg)
      simp only [startsFrom, List.cons_append, List.getD_cons_succ, List.take_succ_cons,
        List.flatten_cons, List.length_append]
      rw [show w + (c.length + cs.flatten.length) = w + c.length + cs.flatten.length by omega, this]
      omega

theorem newOffsets_length (cs : List Bytes) : (newOffsets cs).length = cs.length + 1 := by
  simp [newOffsets, startsFrom_length]

theorem newOffsets_getD (cs : List Bytes) (g : Nat) (hg : g ≤ cs.length) :
    (newOffsets cs).getD g 0 = (cs.take g).flatten.length := by
  have := starts_getD 0 cs g hg
  simpa [newOffsets] using this

theorem newOffsets_first (cs : List Bytes) : (newOffsets cs).getD 0 0 = 0 := by
  rw [newOffsets_getD cs 0 (Nat.zero_le _)]; simp

theorem newOffsets_last (cs : List Bytes) : (newOffsets cs).getD cs.length 0 = cs.flatten.length := by
  rw [newOffsets_getD cs cs.length (Nat.le_refl _)]; simp

theorem take_succ_flatten (cs : List Bytes) (g : Nat) (hg : g < cs.length) :
    (cs.take (g + 1)).flatten = (cs.take g).flatten ++ cs[g] := by
  rw [List.take_succ_eq_append_getElem hg, List.flatten_append]; simp

theorem newOffsets_step (cs : List Bytes) (g : Nat) (hg : g < cs.length) :
    (newOffsets cs).getD (g + 1) 0 = (newOffsets cs).getD g 0 + cs[g].length := by
  rw [newOffsets_getD cs (g + 1) hg, newOffsets_getD cs g (by omega), take_succ_flatten cs g hg]
  simp

theorem newOffsets_pairwise (cs : List Bytes) : (newOffsets cs).Pairwise (· ≤ ·) := by
  rw [List.pairwise_iff_getElem]
  intro i j hi hj hij
  rw [newOffsets_length] at hi hj
  have hi' : (newOffsets cs)[i] = (newOffsets cs).getD i 0 := by
    simp [List.getD, newOffsets_length, hi]
  have hj' : (newOffsets cs)[j] = (newOffsets cs).getD j 0 := by
    simp [List.getD, newOffsets_length, hj]
  rw [hi', hj', newOffsets_getD cs i (by omega), newOffsets_getD cs j (by omega)]
  have : cs.take j = cs.take i ++ (cs.take j).drop i := by
    have := List.take_append_drop i (cs.take j)
    rw [List.take_take, Nat.min_eq_left (by omega)] at this
    exact this.symm
  rw [this]; simp

/-- glyph `g` of the new table is chunk `g` -/
theorem newOffsets_glyphAt (cs : List Bytes) (g : Nat) (hg : g < cs.length) :
    glyphAt (newOffsets cs) cs.flatten g = cs[g] := by
  unfold glyphAt
  rw [newOffsets_step cs g hg, newOffsets_getD cs g (by omega)]
  have hsplit : cs.flatten = (cs.take g).flatten ++ (cs[g] ++ (cs.drop (g + 1)).flatten) := by
    conv => lhs; rw [← List.take_append_drop g cs]
    rw [List.flatten_append, List.drop_eq_getElem_cons hg, List.flatten_cons]
  unfold sliceLen
  rw [Nat.add_sub_cancel_left]
  conv => lhs; rw [hsplit]
  rw [List.drop_left' rfl, List.take_left' rfl]

/-! ## patch_offset_array -/

theorem patchOffsetArray_ok (a : OffsetArray) (repl : List (Nat × Bytes)) (maxGid : Nat)
    (t : OffsetType) (data offs : Bytes) (h : patchOffsetArray a repl maxGid = .ok (t, data, offs)) :
    ∃ total, totalDataSize a repl maxGid = .ok total ∧ chooseOffsetType a total = .ok t ∧
      (match repl.getLast? with | some gd => gd.1 | none => 0) ≤ maxGid ∧
      buildOffsets a t repl maxGid total ((maxGid + 2) * t.width) = .ok (data, offs) := by
  unfold patchOffsetArray at h
  cases ht : totalDataSize a repl maxGid with
  | error e => rw [ht] at h; cases h
  | ok total =>
    rw [ht] at h
    simp only at h
    cases hc : chooseOffsetType a total with
    | error e => rw [hc] at h; cases h
    | ok t' =>
      rw [hc] at h
      simp only at h
      have fin : ∀ lastGid : Nat,
          (if lastGid > maxGid then
              (Except.error (PErr.invalidPatch "Patch would add a glyph beyond this fonts maximum.") :
                Except PErr (OffsetType × Bytes × Bytes))
            else
              match buildOffsets a t' repl maxGid total ((maxGid + 2) * t'.width) with
              | .error e => .error e
              | .ok (data, offs) => .ok (t', data, offs)) = .ok (t, data, offs) →
          lastGid ≤ maxGid ∧ t' = t ∧
            buildOffsets a t' repl maxGid total ((maxGid + 2) * t'.width) = .ok (data, offs) := by
        intro lastGid h
        by_cases hlast : lastGid > maxGid
        · rw [if_pos hlast] at h; cases h
        · rw [if_neg hlast] at h
          cases hb : buildOffsets a t' repl maxGid total ((maxGid + 2) * t'.width) with
          | error e => rw [hb] at h; cases h
          | ok r =>
            obtain ⟨d, o⟩ := r
            rw [hb] at h
            simp only [Except.ok.injEq, Prod.mk.injEq] at h
            obtain ⟨h1, h2, h3⟩ := h
            subst h1 h2 h3
            exact ⟨by omega, rfl, rfl⟩
      cases hgl : repl.getLast? with
      | none =>
        rw [hgl] at h
        obtain ⟨h1, h2, h3⟩ := fin 0 h
        subst h2
        exact ⟨total, rfl, hc, h1, h3⟩
      | some gd =>
        rw [hgl] at h
        obtain ⟨h1, h2, h3⟩ := fin gd.1 h
        subst h2
        exact ⟨total, rfl, hc, h1, h3⟩

/-- **`patch_offset_array`** (steps 0–2): on success the new data is the concatenation of the
per-glyph chunks (padded replacement, or the old bytes) for gids `0..=maxGid`, and the new offset
array encodes `newOffsets` of these chunks in the chosen offset type. -/
theorem patchOffsetArray_eq (a : OffsetArray) (repl : List (Nat × Bytes)) (maxGid : Nat)
    (hA : a.AscSound) (hsort : SortedGids repl) (t : OffsetType) (data offs : Bytes)
    (h : patchOffsetArray a repl maxGid = .ok (t, data, offs)) :
    data = (chunks a t repl maxGid).flatten ∧
    offs = encodeOffs t (newOffsets (chunks a t repl maxGid)) := by
  obtain ⟨total, _, _, _, hb⟩ := patchOffsetArray_ok a repl maxGid t data offs h
  obtain ⟨h1, h2, _⟩ := buildOffsets_eq a t repl maxGid _ _ hA hsort data offs hb
  exact ⟨h1, h2⟩

theorem patchOffsetArray_facts (a : OffsetArray) (repl : List (Nat × Bytes)) (maxGid : Nat)
    (hA : a.AscSound) (hsort : SortedGids repl) (t : OffsetType) (data offs : Bytes)
    (h : patchOffsetArray a repl maxGid = .ok (t, data, offs)) :
    ascending a.offsets = true ∧
    (chunks a t repl maxGid).flatten.length / t.divisor + t.bias < 2 ^ (t.width * 8) ∧
    KeptInBounds a repl maxGid ∧
    (∀ x ∈ repl, x.1 ≤ maxGid) := by
  obtain ⟨total, _, _, hlast, hb⟩ := patchOffsetArray_ok a repl maxGid t data offs h
  obtain ⟨_, _, h3, h4, h5⟩ := buildOffsets_eq a t repl maxGid _ _ hA hsort data offs hb
  refine ⟨h3, h4, h5, ?_⟩
  intro x hx
  cases hgl : repl.getLast? with
  | none => rw [List.getLast?_eq_none_iff] at hgl; subst hgl; cases hx
  | some y =>
    rw [hgl] at hlast
    simp only at hlast
    obtain ⟨pre, hpre⟩ := List.getLast?_eq_some_iff.mp hgl
    subst hpre
    rcases List.mem_append.mp hx with e | e
    · have := (List.pairwise_append.mp hsort).2.2 x e y (by simp)
      omega
    · simp only [List.mem_singleton] at e; subst e; exact hlast

/-- on success no replacement lies beyond `maxGid` (needs no assumption on the offsets) -/
theorem patchOffsetArray_gids_le (a : OffsetArray) (repl : List (Nat × Bytes)) (maxGid : Nat)
    (hsort : SortedGids repl) (t : OffsetType) (data offs : Bytes)
    (h : patchOffsetArray a repl maxGid = .ok (t, data, offs)) : ∀ x ∈ repl, x.1 ≤ maxGid := by
  obtain ⟨total, _, _, hlast, _⟩ := patchOffsetArray_ok a repl maxGid t data offs h
  intro x hx
  cases hgl : repl.getLast? with
  | none => rw [List.getLast?_eq_none_iff] at hgl; subst hgl; cases hx
  | some y =>
    rw [hgl] at hlast
    simp only at hlast
    obtain ⟨pre, hpre⟩ := List.getLast?_eq_some_iff.mp hgl
    subst hpre
    rcases List.mem_append.mp hx with e | e
    · have := (List.pairwise_append.mp hsort).2.2 x e y (by simp)
      omega
    · simp only [List.mem_singleton] at e; subst e; exact hlast

theorem chunks_length (a : OffsetArray) (t : OffsetType) (repl : List (Nat × Bytes)) (maxGid : Nat) :
    (chunks a t repl maxGid).length = maxGid + 1 := by simp [chunks]

theorem chunks_getElem (a : OffsetArray) (t : OffsetType) (repl : List (Nat × Bytes)) (maxGid g : Nat)
    (hg : g < (chunks a t repl maxGid).length) : (chunks a t repl maxGid)[g] = chunkFor a t repl g := by
  simp [chunks]

end FontVerif.Ift
