/-
Helper lemmas for C07 (Props/C07.lean): permutation-invariant folds, strictly ascending lists as canonical forms,
commutation of ordered-map / ordered-set updates.
-/
import FontVerif.Model.Determinism
namespace FontVerif.Determinism
set_option linter.unusedSimpArgs false
set_option linter.unusedVariables false


/-- folding a list with an operation that commutes on compatible elements (while an invariant holds) gives the same
    result for every permutation of the list -/
theorem foldl_perm_inv {α β : Type} (f : β → α → β) (P : β → Prop) (C : α → α → Prop)
    (hsymm : ∀ x y, C x y → C y x) (hP : ∀ z x, P z → P (f z x))
    (hc : ∀ z x y, P z → C x y → f (f z x) y = f (f z y) x)
    {l₁ l₂ : List α} (hp : l₁.Perm l₂) : ∀ z, P z → l₁.Pairwise C → l₁.foldl f z = l₂.foldl f z := by
  induction hp with
  | nil => intros; rfl
  | cons x _ ih =>
    intro z hz hpw
    rw [List.pairwise_cons] at hpw
    simp only [List.foldl_cons]
    exact ih (f z x) (hP z x hz) hpw.2
  | swap x y l =>
    intro z hz hpw
    simp only [List.foldl_cons]
    rw [List.pairwise_cons] at hpw
    rw [hc z y x hz (hpw.1 x (by simp))]
  | trans h₁ h₂ ih₁ ih₂ =>
    intro z hz hpw
    rw [ih₁ z hz hpw]
    exact ih₂ z hz ((h₁.pairwise_iff (fun h => hsymm _ _ h)).mp hpw)

theorem nodup_map_pairwise {α β : Type} (f : α → β) (l : List α) (h : (l.map f).Nodup) :
    l.Pairwise (fun a b => f a ≠ f b) := by
  rw [List.Nodup, List.pairwise_map] at h
  exact h

def SortedSet (s : List Nat) : Prop := s.Pairwise (· < ·)

theorem sorted_ext : ∀ (l₁ l₂ : List Nat), SortedSet l₁ → SortedSet l₂ → (∀ x, x ∈ l₁ ↔ x ∈ l₂) → l₁ = l₂ := by
  intro l₁
  induction l₁ with
  | nil =>
    intro l₂ _ _ h
    cases l₂ with
    | nil => rfl
    | cons b bs => have := (h b).mpr (by simp); simp at this
  | cons a as ih =>
    intro l₂ h₁ h₂ h
    cases l₂ with
    | nil => have := (h a).mp (by simp); simp at this
    | cons b bs =>
      unfold SortedSet at h₁ h₂
      rw [List.pairwise_cons] at h₁ h₂
      have hab : a = b := by
        have h1 := (h a).mp (by simp)
        have h2 := (h b).mpr (by simp)
        simp only [List.mem_cons] at h1 h2
        rcases h1 with h1 | h1
        · exact h1
        · rcases h2 with h2 | h2
          · exact h2.symm
          · have := h₁.1 b h2; have := h₂.1 a h1; omega
      subst hab
      congr 1
      apply ih bs h₁.2 h₂.2
      intro x
      constructor
      · intro hx
        have := (h x).mp (by simp [hx])
        simp only [List.mem_cons] at this
        rcases this with rfl | this
        · have := h₁.1 x hx; omega
        · exact this
      · intro hx
        have := (h x).mpr (by simp [hx])
        simp only [List.mem_cons] at this
        rcases this with rfl | this
        · have := h₂.1 x hx; omega
        · exact this

theorem oset_mem_insert (k x : Nat) (s : List Nat) : x ∈ OSet.insert k s ↔ x = k ∨ x ∈ s := by
  induction s with
  | nil => simp [OSet.insert]
  | cons y ys ih =>
    simp only [OSet.insert]
    split
    · simp
    · split
      · subst_vars; simp
      · simp [ih]; constructor <;> (intro h; rcases h with h | h | h <;> simp [h])

theorem oset_insert_sorted (k : Nat) (s : List Nat) (h : SortedSet s) : SortedSet (OSet.insert k s) := by
  induction s with
  | nil => simp [OSet.insert, SortedSet]
  | cons y ys ih =>
    unfold SortedSet at h ⊢
    rw [List.pairwise_cons] at h
    simp only [OSet.insert]
    split
    · rw [List.pairwise_cons]; refine ⟨?_, List.pairwise_cons.mpr h⟩
      intro a ha; simp only [List.mem_cons] at ha
      rcases ha with rfl | ha
      · assumption
      · have := h.1 a ha; omega
    · split
      · exact List.pairwise_cons.mpr h
      · rw [List.pairwise_cons]; refine ⟨?_, ih h.2⟩
        intro a ha
        rw [oset_mem_insert] at ha
        rcases ha with rfl | ha
        · omega
        · exact h.1 a ha

theorem oset_mem_erase (k x : Nat) (s : List Nat) (h : SortedSet s) : x ∈ OSet.erase k s ↔ x ≠ k ∧ x ∈ s := by
  induction s with
  | nil => simp [OSet.erase]
  | cons y ys ih =>
    unfold SortedSet at h
    rw [List.pairwise_cons] at h
    simp only [OSet.erase]
    split
    · subst_vars
      constructor
      · intro hx; have := h.1 x hx; exact ⟨by omega, by simp [hx]⟩
      · intro ⟨hne, hx⟩; simp only [List.mem_cons] at hx; rcases hx with hx | hx
        · exact absurd hx hne
        · exact hx
    · simp only [List.mem_cons, ih h.2]
      constructor
      · intro hx; rcases hx with rfl | hx
        · exact ⟨by omega, Or.inl rfl⟩
        · exact ⟨hx.1, Or.inr hx.2⟩
      · intro ⟨hne, hx⟩; rcases hx with hx | hx
        · exact Or.inl hx
        · exact Or.inr ⟨hne, hx⟩

theorem oset_erase_sorted (k : Nat) (s : List Nat) (h : SortedSet s) : SortedSet (OSet.erase k s) := by
  induction s with
  | nil => simp [OSet.erase, SortedSet]
  | cons y ys ih =>
    unfold SortedSet at h ⊢
    rw [List.pairwise_cons] at h
    simp only [OSet.erase]
    split
    · exact h.2
    · rw [List.pairwise_cons]; refine ⟨?_, ih h.2⟩
      intro a ha
      rw [oset_mem_erase _ _ _ h.2] at ha
      exact h.1 a ha.2
def stepRoots (r : List Nat) (e : Nat × Nat) : List Nat :=
  if r.contains e.1 then OSet.insert e.2 (OSet.erase e.1 r) else r

theorem renameRoots_eq (m : List (Nat × Nat)) (r : List Nat) : renameRoots m r = m.foldl stepRoots r := rfl

theorem stepRoots_sorted (r : List Nat) (e : Nat × Nat) (h : SortedSet r) : SortedSet (stepRoots r e) := by
  unfold stepRoots; split
  · exact oset_insert_sorted _ _ (oset_erase_sorted _ _ h)
  · exact h

theorem mem_stepRoots (r : List Nat) (e : Nat × Nat) (h : SortedSet r) (x : Nat) :
    x ∈ stepRoots r e ↔ (e.1 ∈ r ∧ (x = e.2 ∨ (x ≠ e.1 ∧ x ∈ r))) ∨ (e.1 ∉ r ∧ x ∈ r) := by
  unfold stepRoots
  by_cases hc : e.1 ∈ r
  · have : r.contains e.1 = true := by simpa using hc
    simp [this, oset_mem_insert, oset_mem_erase _ _ _ h, hc]
  · have : r.contains e.1 = false := by simpa using hc
    simp [this, hc]

/-- compatibility of two `(old, new)` entries of `id_map`: different keys, different fresh ids, and no fresh id is
    an old id -/
def Compat (e e' : Nat × Nat) : Prop := e.1 ≠ e'.1 ∧ e.2 ≠ e'.2 ∧ e.2 ≠ e'.1 ∧ e'.2 ≠ e.1

theorem stepRoots_comm (r : List Nat) (e e' : Nat × Nat) (h : SortedSet r) (hc : Compat e e') :
    stepRoots (stepRoots r e) e' = stepRoots (stepRoots r e') e := by
  apply sorted_ext _ _ (stepRoots_sorted _ _ (stepRoots_sorted _ _ h)) (stepRoots_sorted _ _ (stepRoots_sorted _ _ h))
  intro x
  obtain ⟨h1, h2, h3, h4⟩ := hc
  rw [mem_stepRoots _ _ (stepRoots_sorted _ _ h), mem_stepRoots _ _ (stepRoots_sorted _ _ h),
    mem_stepRoots _ _ h, mem_stepRoots _ _ h, mem_stepRoots _ _ h, mem_stepRoots _ _ h]
  by_cases a : e.1 ∈ r <;> by_cases b : e'.1 ∈ r <;> by_cases c : x = e.2 <;> by_cases d : x = e'.2 <;>
    by_cases f : x = e.1 <;> by_cases g : x = e'.1 <;> by_cases i : x ∈ r <;> simp_all <;> omega

theorem insert_comm {α : Type} (k₁ k₂ : Nat) (v₁ v₂ : α) (h : k₁ ≠ k₂) (m : OMap α) :
    OMap.insert k₁ v₁ (OMap.insert k₂ v₂ m) = OMap.insert k₂ v₂ (OMap.insert k₁ v₁ m) := by
  induction m with
  | nil => 
    simp only [OMap.insert]
    by_cases h1 : k₁ < k₂
    · have : ¬ k₂ < k₁ := by omega
      have h' : k₂ ≠ k₁ := by omega
      simp [h1, this, h']
    · have : k₂ < k₁ := by omega
      simp [h1, this, h]
  | cons e rest ih =>
    obtain ⟨k', v'⟩ := e
    simp only [OMap.insert]
    by_cases a1 : k₁ < k' <;> by_cases a2 : k₂ < k' <;> by_cases b1 : k₁ = k' <;> by_cases b2 : k₂ = k' <;>
      by_cases c : k₁ < k₂ <;> simp [OMap.insert, *] <;> (try (repeat' split)) <;>
      first | rfl | omega | (exfalso; omega) | skip

theorem erase_comm {α : Type} (k₁ k₂ : Nat) (m : OMap α) :
    OMap.erase k₁ (OMap.erase k₂ m) = OMap.erase k₂ (OMap.erase k₁ m) := by
  induction m with
  | nil => rfl
  | cons e rest ih =>
    obtain ⟨k', v'⟩ := e
    by_cases b1 : k₁ = k' <;> by_cases b2 : k₂ = k' <;> simp [OMap.erase, *]

/-! ## insertion sort by an injective key -/

theorem insertByKey_comm {α : Type} (key : α → Nat) (x y : α) (h : key x ≠ key y) (l : List α) :
    insertByKey key x (insertByKey key y l) = insertByKey key y (insertByKey key x l) := by
  induction l with
  | nil =>
    simp only [insertByKey]
    by_cases c : key x ≤ key y
    · have : ¬ key y ≤ key x := by omega
      simp [c, this]
    · have : key y ≤ key x := by omega
      simp [c, this]
  | cons z zs ih =>
    simp only [insertByKey]
    by_cases a : key x ≤ key z <;> by_cases b : key y ≤ key z <;> by_cases c : key x ≤ key y <;>
      simp [insertByKey, *] <;> (try (repeat' split)) <;> first | rfl | omega | (exfalso; omega) | skip

theorem foldr_perm_comm {α β : Type} (f : α → β → β) (C : α → α → Prop) (hsymm : ∀ x y, C x y → C y x)
    (hc : ∀ z x y, C x y → f x (f y z) = f y (f x z))
    {l₁ l₂ : List α} (hp : l₁.Perm l₂) : ∀ z, l₁.Pairwise C → l₁.foldr f z = l₂.foldr f z := by
  induction hp with
  | nil => intros; rfl
  | cons x _ ih =>
    intro z hpw
    rw [List.pairwise_cons] at hpw
    simp only [List.foldr_cons]
    rw [ih z hpw.2]
  | swap x y l =>
    intro z hpw
    simp only [List.foldr_cons]
    rw [List.pairwise_cons] at hpw
    exact hc _ y x (hpw.1 x (by simp))
  | trans h₁ h₂ ih₁ ih₂ =>
    intro z hpw
    rw [ih₁ z hpw]
    exact ih₂ z ((h₁.pairwise_iff (fun h => hsymm _ _ h)).mp hpw)

/-! ## max_by_key -/

theorem maxByKey_spec {α : Type} (key : α → Nat) (l : List α) (hne : l ≠ []) :
    ∃ m, maxByKey key l = some m ∧ m ∈ l ∧ ∀ x ∈ l, key x ≤ key m := by
  induction l with
  | nil => exact absurd rfl hne
  | cons x xs ih =>
    cases xs with
    | nil => exact ⟨x, by simp [maxByKey], by simp, by simp⟩
    | cons y ys =>
      obtain ⟨m, hm, hmem, hmax⟩ := ih (by simp)
      simp only [maxByKey] at hm ⊢
      rw [hm]
      by_cases c : key x > key m
      · refine ⟨x, by simp [c], by simp, ?_⟩
        intro z hz
        simp only [List.mem_cons] at hz
        rcases hz with rfl | hz
        · omega
        · have := hmax z (by simpa using hz); omega
      · refine ⟨m, by simp [c], by simp only [List.mem_cons] at hmem ⊢; exact Or.inr hmem, ?_⟩
        intro z hz
        simp only [List.mem_cons] at hz
        rcases hz with rfl | hz
        · omega
        · exact hmax z (by simpa using hz)

end FontVerif.Determinism
