/-
C18 — `dedup_gid_replacement_data`: first patch wins, result sorted by gid; reading the glyph data
of one patch (`GlyphDataIterator`).

Spec vocabulary:
  `patchData tag gp`        the (gid, data) list patch `gp` carries for table `tag` ([] if it does not name it)
  `firstWins tag gps g`     data of the FIRST patch in `gps` that lists gid `g` for `tag`
-/
import FontVerif.Lemmas.IftSplice
set_option linter.unusedVariables false
namespace FontVerif.Ift

/-! ## sorted association lists -/

theorem sorted_lookup_below (k : Nat) (v : Bytes) (t : List (Nat × Bytes))
    (hs : SortedGids ((k, v) :: t)) (j : Nat) (hj : j ≤ k) : t.lookup j = none := by
  have h1 := (List.pairwise_cons.mp hs).1
  induction t with
  | nil => rfl
  | cons x xs ih =>
    obtain ⟨k', v'⟩ := x
    have hk := h1 (k', v') (by simp)
    simp only at hk
    have hne : (j == k') = false := by simp only [beq_eq_false_iff_ne, ne_eq]; omega
    simp only [List.lookup, hne]
    apply ih
    · unfold SortedGids at *
      have := List.pairwise_cons.mp hs
      exact List.pairwise_cons.mpr ⟨fun y hy => this.1 y (List.mem_cons_of_mem _ hy),
        (List.pairwise_cons.mp this.2).2⟩
    · intro y hy; exact h1 y (List.mem_cons_of_mem _ hy)

theorem sorted_tail {x : Nat × Bytes} {t : List (Nat × Bytes)} (hs : SortedGids (x :: t)) : SortedGids t :=
  (List.pairwise_cons.mp hs).2

/-- two gid-sorted association lists with the same lookups are equal -/
theorem sorted_lookup_ext (l1 l2 : List (Nat × Bytes)) (h1 : SortedGids l1) (h2 : SortedGids l2)
    (h : ∀ k, l1.lookup k = l2.lookup k) : l1 = l2 := by
  induction l1 generalizing l2 with
  | nil =>
    cases l2 with
    | nil => rfl
    | cons y ys =>
      obtain ⟨k, v⟩ := y
      have := h k; simp [List.lookup] at this
  | cons x xs ih =>
    obtain ⟨k1, v1⟩ := x
    cases l2 with
    | nil => have := h k1; simp [List.lookup] at this
    | cons y ys =>
      obtain ⟨k2, v2⟩ := y
      have hx := sorted_lookup_below k1 v1 xs h1
      have hy := sorted_lookup_below k2 v2 ys h2
      have hk : k1 = k2 := by
        rcases Nat.lt_trichotomy k1 k2 with hlt | heq | hgt
        · have := h k1
          have hne : (k1 == k2) = false := by simp only [beq_eq_false_iff_ne, ne_eq]; omega
          simp [List.lookup, hne, hy k1 (by omega)] at this
        · exact heq
        · have := h k2
          have hne : (k2 == k1) = false := by simp only [beq_eq_false_iff_ne, ne_eq]; omega
          simp [List.lookup, hne, hx k2 (by omega)] at this
      subst hk
      have hv : v1 = v2 := by have := h k1; simpa [List.lookup] using this
      subst hv
      congr 1
      apply ih ys (sorted_tail h1) (sorted_tail h2)
      intro k
      by_cases hkk : k = k1
      · subst hkk; rw [hx k (Nat.le_refl _), hy k (Nat.le_refl _)]
      · have := h k
        have hne : (k == k1) = false := by simp only [beq_eq_false_iff_ne, ne_eq]; exact hkk
        simpa [List.lookup, hne] using this

theorem lookup_some_mem (l : List (Nat × Bytes)) (k : Nat) (v : Bytes) (h : l.lookup k = some v) :
    (k, v) ∈ l := by
  induction l with
  | nil => simp [List.lookup] at h
  | cons x xs ih =>
    obtain ⟨k', v'⟩ := x
    by_cases hk : k = k'
    · subst hk; simp [List.lookup] at h; subst h; simp
    · have hne : (k == k') = false := by simp only [beq_eq_false_iff_ne, ne_eq]; exact hk
      simp only [List.lookup, hne] at h
      exact List.mem_cons_of_mem _ (ih h)

theorem lookup_isSome_of_mem (l : List (Nat × Bytes)) (k : Nat) (v : Bytes) (h : (k, v) ∈ l) :
    ∃ v', l.lookup k = some v' := by
  induction l with
  | nil => cases h
  | cons x xs ih =>
    obtain ⟨k', v'⟩ := x
    by_cases hk : k = k'
    · subst hk; exact ⟨v', by simp [List.lookup]⟩
    · have hne : (k == k') = false := by simp only [beq_eq_false_iff_ne, ne_eq]; exact hk
      rcases List.mem_cons.mp h with e | e
      · cases e; exact absurd rfl hk
      · simpa [List.lookup, hne] using ih e

theorem lookup_append (l1 l2 : List (Nat × Bytes)) (k : Nat) :
    (l1 ++ l2).lookup k = (l1.lookup k).or (l2.lookup k) := by
  induction l1 with
  | nil => rfl
  | cons x xs ih =>
    obtain ⟨k', v'⟩ := x
    by_cases hk : k = k'
    · subst hk; simp [List.lookup]
    · have hne : (k == k') = false := by simp only [beq_eq_false_iff_ne, ne_eq]; exact hk
      simp only [List.cons_append, List.lookup, hne, ih]

/-! ## insertFirst -/

theorem insertFirst_spec (g : Nat) (d : Bytes) (l : List (Nat × Bytes)) (hs : SortedGids l) :
    SortedGids (insertFirst g d l) ∧
    (∀ x ∈ insertFirst g d l, x ∈ l ∨ x = (g, d)) ∧
    ∀ k, (insertFirst g d l).lookup k = (l.lookup k).or (if k = g then some d else none) := by
  induction l with
  | nil =>
    refine ⟨by simp [insertFirst, SortedGids], by simp [insertFirst], ?_⟩
    intro k
    by_cases hk : k = g
    · subst hk; simp [insertFirst, List.lookup]
    · have hne : (k == g) = false := by simp only [beq_eq_false_iff_ne, ne_eq]; exact hk
      simp [insertFirst, List.lookup, hne, hk]
  | cons x xs ih =>
    obtain ⟨g', d'⟩ := x
    obtain ⟨ihs, ihm, ihl⟩ := ih (sorted_tail hs)
    unfold insertFirst
    by_cases h1 : g < g'
    · simp only [h1, if_true]
      refine ⟨?_, ?_, ?_⟩
      · refine List.pairwise_cons.mpr ⟨?_, hs⟩
        intro y hy
        rcases List.mem_cons.mp hy with e | e
        · rw [e]; exact h1
        · have := (List.pairwise_cons.mp hs).1 y e; simp only at this ⊢; omega
      · intro y hy
        rcases List.mem_cons.mp hy with e | e
        · exact Or.inr e
        · exact Or.inl e
      · intro k
        by_cases hk : k = g
        · subst hk
          have hne : (k == g') = false := by simp only [beq_eq_false_iff_ne, ne_eq]; omega
          have := sorted_lookup_below g' d' xs hs k (by omega)
          simp [List.lookup, hne, this]
        · have hne : (k == g) = false := by simp only [beq_eq_false_iff_ne, ne_eq]; exact hk
          simp only [List.lookup, hne, hk, if_false, Option.or_none]
    · by_cases h2 : g = g'
      · subst h2
        simp only [Nat.lt_irrefl, if_false, if_true]
        refine ⟨hs, fun y hy => Or.inl hy, ?_⟩
        intro k
        by_cases hk : k = g
        · subst hk; simp [List.lookup]
        · simp only [hk, if_false, Option.or_none]
      · simp only [h1, h2, if_false]
        refine ⟨?_, ?_, ?_⟩
        · refine List.pairwise_cons.mpr ⟨?_, ihs⟩
          intro y hy
          rcases ihm y hy with e | e
          · exact (List.pairwise_cons.mp hs).1 y e
          · rw [e]; simp only; omega
        · intro y hy
          rcases List.mem_cons.mp hy with e | e
          · exact Or.inl (by rw [e]; simp)
          · rcases ihm y e with e' | e'
            · exact Or.inl (List.mem_cons_of_mem _ e')
            · exact Or.inr e'
        · intro k
          by_cases hk : k = g'
          · subst hk; simp [List.lookup]
          · have hne : (k == g') = false := by simp only [beq_eq_false_iff_ne, ne_eq]; exact hk
            simp only [List.lookup, hne]
            exact ihl k

theorem foldl_insertFirst_spec (items acc : List (Nat × Bytes)) (hs : SortedGids acc) :
    SortedGids (items.foldl (fun a gd => insertFirst gd.1 gd.2 a) acc) ∧
    ∀ k, (items.foldl (fun a gd => insertFirst gd.1 gd.2 a) acc).lookup k =
      (acc.lookup k).or (items.lookup k) := by
  induction items generalizing acc with
  | nil => exact ⟨hs, fun k => by simp [List.lookup]⟩
  | cons x xs ih =>
    obtain ⟨g, d⟩ := x
    obtain ⟨s1, _, l1⟩ := insertFirst_spec g d acc hs
    obtain ⟨s2, l2⟩ := ih (insertFirst g d acc) s1
    refine ⟨s2, ?_⟩
    intro k
    simp only [List.foldl_cons]
    rw [l2 k, l1 k]
    by_cases hk : k = g
    · subst hk; cases acc.lookup k <;> simp [List.lookup]
    · have hne : (k == g) = false := by simp only [beq_eq_false_iff_ne, ne_eq]; exact hk
      cases acc.lookup k <;> simp [List.lookup, hne, hk]

/-! ## dedup -/

/-- what patch `gp` carries for table `tag` (empty if it does not name the table or is malformed) -/
def patchData (tag : Tag) (gp : GlyphPatches) : List (Nat × Bytes) :=
  match indexOfTag tag gp.tables 0 with
  | none => []
  | some ti =>
    match glyphDataForTable gp ti with
    | .ok items => items
    | .error _ => []

/-- the per-patch reads `dedup_gid_replacement_data` performs all succeed -/
def PatchReadable (tag : Tag) (gp : GlyphPatches) : Prop :=
  ∀ ti, indexOfTag tag gp.tables 0 = some ti → ∃ items, glyphDataForTable gp ti = .ok items

/-- data of the first patch (in application order) that lists `g` for `tag` -/
def firstWins (tag : Tag) (gps : List GlyphPatches) (g : Nat) : Option Bytes :=
  (gps.flatMap (patchData tag)).lookup g

theorem dedupFrom_spec (tag : Tag) (gps : List GlyphPatches) (acc r : List (Nat × Bytes))
    (hs : SortedGids acc) (h : dedupFrom tag gps acc = .ok r) :
    SortedGids r ∧ (∀ gp ∈ gps, PatchReadable tag gp) ∧
    ∀ k, r.lookup k = (acc.lookup k).or (firstWins tag gps k) := by
  induction gps generalizing acc with
  | nil =>
    simp only [dedupFrom] at h; cases h
    exact ⟨hs, by simp, fun k => by simp [firstWins, List.lookup]⟩
  | cons gp rest ih =>
    unfold dedupFrom at h
    cases hi : indexOfTag tag gp.tables 0 with
    | none =>
      rw [hi] at h
      obtain ⟨s, pr, l⟩ := ih acc hs h
      refine ⟨s, ?_, ?_⟩
      · intro q hq
        rcases List.mem_cons.mp hq with e | e
        · subst e; intro ti hti; rw [hi] at hti; cases hti
        · exact pr q e
      · intro k; rw [l k]
        simp [firstWins, patchData, hi]
    | some ti =>
      rw [hi] at h
      simp only at h
      cases hd : glyphDataForTable gp ti with
      | error e => rw [hd] at h; cases h
      | ok items =>
        rw [hd] at h
        simp only at h
        obtain ⟨s1, l1⟩ := foldl_insertFirst_spec items acc hs
        obtain ⟨s, pr, l⟩ := ih _ s1 h
        refine ⟨s, ?_, ?_⟩
        · intro q hq
          rcases List.mem_cons.mp hq with e | e
          · subst e; intro ti' hti; rw [hi] at hti; cases hti; exact ⟨items, hd⟩
          · exact pr q e
        · intro k; rw [l k, l1 k]
          have hpd : patchData tag gp = items := by simp [patchData, hi, hd]
          simp only [firstWins, List.flatMap_cons, hpd, lookup_append]
          cases acc.lookup k <;> simp

theorem dedup_spec (tag : Tag) (gps : List GlyphPatches) (r : List (Nat × Bytes))
    (h : dedup tag gps = .ok r) :
    SortedGids r ∧ (∀ gp ∈ gps, PatchReadable tag gp) ∧ ∀ k, r.lookup k = firstWins tag gps k := by
  obtain ⟨s, pr, l⟩ := dedupFrom_spec tag gps [] r (by simp [SortedGids]) h
  exact ⟨s, pr, fun k => by rw [l k]; simp [List.lookup]⟩

theorem dedupFrom_ok_of_readable (tag : Tag) (gps : List GlyphPatches) (acc : List (Nat × Bytes))
    (h : ∀ gp ∈ gps, PatchReadable tag gp) : ∃ r, dedupFrom tag gps acc = .ok r := by
  induction gps generalizing acc with
  | nil => exact ⟨acc, rfl⟩
  | cons gp rest ih =>
    unfold dedupFrom
    cases hi : indexOfTag tag gp.tables 0 with
    | none => exact ih acc (fun q hq => h q (List.mem_cons_of_mem _ hq))
    | some ti =>
      obtain ⟨items, hit⟩ := h gp (by simp) ti hi
      simp only [hit]
      exact ih _ (fun q hq => h q (List.mem_cons_of_mem _ hq))

/-! ## GlyphDataIterator -/

/-- a successful read of one patch's glyph data: gids strictly ascending (after `prev`), every
offset pair non-null, ascending and inside the payload, and the data are exactly those slices. -/
theorem glyphData_ok (raw : Bytes) (prev : Option Nat) (items : List (Nat × Nat × Nat))
    (r : List (Nat × Bytes)) (h : glyphData raw prev items = .ok r) :
    r = items.map (fun x => (x.1, sliceLen raw x.2.1 (x.2.2 - x.2.1))) ∧
    (∀ x ∈ items, 0 < x.2.1 ∧ x.2.1 ≤ x.2.2 ∧ x.2.2 ≤ raw.length) ∧
    (∀ p, prev = some p → ∀ x ∈ items, p < x.1) ∧
    items.Pairwise (fun x y => x.1 < y.1) := by
  induction items generalizing prev r with
  | nil => simp only [glyphData] at h; cases h; simp
  | cons x xs ih =>
    obtain ⟨g, s, e⟩ := x
    simp only [glyphData] at h
    split at h
    · cases h
    · rename_i hna
      split at h
      · cases h
      · rename_i hes
        split at h
        · cases h
        · rename_i hs0
          split at h
          · cases h
          · rename_i hls
            split at h
            · cases h
            · rename_i hle
              split at h
              · cases h
              · rename_i r' hr
                cases h
                obtain ⟨e1, e2, e3, e4⟩ := ih (some g) r' hr
                refine ⟨by simp [e1], ?_, ?_, ?_⟩
                · intro y hy
                  rcases List.mem_cons.mp hy with e | e
                  · subst e; simp only; omega
                  · exact e2 y e
                · intro p hp y hy
                  subst hp
                  have hpg : p < g := by simpa [notAfter] using hna
                  rcases List.mem_cons.mp hy with e | e
                  · subst e; exact hpg
                  · have := e3 g rfl y e; omega
                · exact List.pairwise_cons.mpr ⟨fun y hy => e3 g rfl y hy, e4⟩

theorem glyphData_sorted (raw : Bytes) (prev : Option Nat) (items : List (Nat × Nat × Nat))
    (r : List (Nat × Bytes)) (h : glyphData raw prev items = .ok r) : SortedGids r := by
  obtain ⟨e1, _, _, e4⟩ := glyphData_ok raw prev items r h
  subst e1
  unfold SortedGids
  rw [List.pairwise_map]
  exact e4

end FontVerif.Ift
