/-
C02 core 1c — lemmas for the whole-run composition (Props/C02Run.lean): what ONE dispatch does to the value stack,
the data state and the definition tables; the skip loops decode at most `fuel` instructions.
-/
import FontVerif.Lemmas.Interp
import FontVerif.Model.InterpCost
namespace FontVerif.InterpRunLemmas
open FontVerif FontVerif.Interp FontVerif.InterpLemmas FontVerif.InterpLoops FontVerif.InterpCost
set_option linter.unusedVariables false

/-! ### the counting twins of the skip loops are bounded by their fuel -/

theorem scanIfSteps_le (code : Array Nat) : ∀ (fuel pc d : Nat), scanIfSteps code fuel pc d ≤ fuel := by
  intro fuel
  induction fuel with
  | zero => intro pc d; simp [scanIfSteps]
  | succ n ih =>
    intro pc d
    unfold scanIfSteps
    split
    · omega
    · omega
    · repeat' split
      all_goals first | omega | (have := ih ‹Nat› (d + 1); omega) | (have := ih ‹Nat› d; omega) | (have := ih ‹Nat› (d - 1); omega)

theorem scanElseSteps_le (code : Array Nat) : ∀ (fuel pc d : Nat), scanElseSteps code fuel pc d ≤ fuel := by
  intro fuel
  induction fuel with
  | zero => intro pc d; simp [scanElseSteps]
  | succ n ih =>
    intro pc d
    unfold scanElseSteps
    split
    · omega
    · omega
    · repeat' split
      all_goals first | omega | (have := ih ‹Nat› (d + 1); omega) | (have := ih ‹Nat› d; omega) | (have := ih ‹Nat› (d - 1); omega)

theorem scanDefSteps_le (code : Array Nat) : ∀ (fuel pc : Nat), scanDefSteps code fuel pc ≤ fuel := by
  intro fuel
  induction fuel with
  | zero => intro pc; simp [scanDefSteps]
  | succ n ih =>
    intro pc
    unfold scanDefSteps
    split
    · omega
    · omega
    · repeat' split
      all_goals first | omega | (have := ih ‹Nat›; omega)

theorem code_size_le {D} (c : Cfg D) (p : Nat) : (c.code p).size ≤ c.maxCode := by
  unfold Cfg.code Cfg.maxCode
  repeat' split
  all_goals omega

/-! ### what a control operation does to stack, data and definition tables -/

/-- a CONTROL operation: the data state is untouched, the value stack does not grow, the definition tables keep
    their lengths -/
def Ctl {D} (s s2 : St D) : Prop :=
  s2.data = s.data ∧ s2.vs.length ≤ s.vs.length ∧ s2.funcs.length = s.funcs.length ∧
  s2.idefs.length = s.idefs.length

theorem Ctl.refl {D} (s : St D) : Ctl s s := ⟨rfl, Nat.le_refl _, rfl, rfl⟩
theorem Ctl.trans {D} {a b d : St D} (h1 : Ctl a b) (h2 : Ctl b d) : Ctl a d :=
  ⟨h2.1.trans h1.1, Nat.le_trans h2.2.1 h1.2.1, h2.2.2.1.trans h1.2.2.1, h2.2.2.2.trans h1.2.2.2⟩

theorem pop_length_le {ped : Bool} {vs vs' : List Int} {v : Int} (h : pop ped vs = .ok (v, vs')) :
    vs'.length ≤ vs.length := by
  unfold pop at h
  split at h
  · simp at h; obtain ⟨_, h2⟩ := h; subst h2; simp
  · split at h <;> simp at h
    obtain ⟨_, h2⟩ := h; subst h2; simp

theorem Ctl.pop {D} (s : St D) {ped : Bool} {v : Int} {vs : List Int} (h : pop ped s.vs = .ok (v, vs)) :
    Ctl s { s with vs := vs } := ⟨rfl, pop_length_le h, rfl, rfl⟩

theorem doJump_ctl {D} {c : Cfg D} {s s2 : St D} {t : Bool} (h : doJump c s t = .ok s2) : Ctl s s2 := by
  unfold doJump at h
  simp only [] at h
  split at h
  · simp at h
  · rename_i v vs hp
    have := pop_length_le hp
    iterate 4 (all_goals try split at h)
    all_goals try (simp at h)
    all_goals subst h
    all_goals exact ⟨rfl, this, rfl, rfl⟩

theorem enter_ctl {D} {s s2 : St D} {d : Def} {n : Nat} (h : enter s d n = .ok s2) : Ctl s s2 := by
  unfold enter at h
  split at h
  · simp at h; subst h; exact ⟨rfl, Nat.le_refl _, rfl, rfl⟩
  · simp at h

theorem doCall_ctl {D} {s s2 : St D} {f : Bool} {n : Nat} {k : Int} (h : doCall s f n k = .ok s2) : Ctl s s2 := by
  unfold doCall at h
  split at h
  · simp at h; subst h; exact Ctl.refl _
  · split at h
    · simp at h
    · exact enter_ctl h

theorem leave_ctl {D} {s s2 : St D} (h : leave s = .ok s2) : Ctl s s2 := by
  unfold leave at h
  split at h
  · simp at h
  · split at h <;> (simp at h; subst h; exact ⟨rfl, Nat.le_refl _, rfl, rfl⟩)

theorem allocate_len {defs defs' : List Def} {key : Int} {i : Nat} (h : allocate defs key = .ok (i, defs')) :
    defs'.length = defs.length := by
  unfold allocate at h
  simp only [] at h
  split at h
  · simp at h
  · split at h
    · simp at h; obtain ⟨_, h2⟩ := h; subst h2; simp
    · simp at h

theorem doDef_ctl {D} {c : Cfg D} {s s2 : St D} {f : Bool} {k : Int} (h : doDef c s f k = some (.ok s2)) :
    Ctl s s2 := by
  unfold doDef at h
  simp only [] at h
  split at h
  · simp at h
  · split at h
    · simp at h
    · rename_i ix defs ha
      have hl := allocate_len ha
      iterate 4 (all_goals try split at h)
      all_goals try (simp at h)
      all_goals subst h
      all_goals cases f
      all_goals simp_all [Ctl]

theorem opIf_ctl {D} {c : Cfg D} {s s2 : St D} (h : opIf c s = some (.ok s2)) : Ctl s s2 := by
  unfold opIf at h
  simp only [] at h
  split at h
  · simp at h
  · rename_i v vs hp
    have := pop_length_le hp
    iterate 3 (all_goals try split at h)
    all_goals try (simp at h)
    all_goals (subst h; exact ⟨rfl, this, rfl, rfl⟩)

theorem opElse_ctl {D} {c : Cfg D} {s s2 : St D} (h : opElse c s = some (.ok s2)) : Ctl s s2 := by
  unfold opElse at h
  simp only [] at h
  iterate 2 (all_goals try split at h)
  all_goals try (simp at h)
  all_goals (subst h; exact ⟨rfl, Nat.le_refl _, rfl, rfl⟩)

theorem opJr_ctl {D} {c : Cfg D} {s s2 : St D} {t : Bool} (h : opJr c s t = .ok s2) : Ctl s s2 := by
  unfold opJr at h
  split at h
  · simp at h
  · rename_i hp; exact (Ctl.pop s hp).trans (doJump_ctl h)

theorem opCall_ctl {D} {c : Cfg D} {s s2 : St D} (h : opCall c s = .ok s2) : Ctl s s2 := by
  unfold opCall at h
  split at h
  · simp at h
  · rename_i hp; exact (Ctl.pop s hp).trans (doCall_ctl h)

theorem opLoopcall_ctl {D} {c : Cfg D} {s s2 : St D} (h : opLoopcall c s = .ok s2) : Ctl s s2 := by
  unfold opLoopcall at h
  simp only [] at h
  split at h
  · simp at h
  · rename_i f vs1 hp1
    split at h
    · simp at h
    · rename_i n vs2 hp2
      have h1 := pop_length_le hp1
      have h2 := pop_length_le hp2
      split at h
      · split at h
        · simp at h
        · refine Ctl.trans ?_ (doCall_ctl h)
          exact ⟨rfl, by simp only []; omega, rfl, rfl⟩
      · simp at h; subst h; exact ⟨rfl, by simp only []; omega, rfl, rfl⟩

theorem opDef_ctl {D} {c : Cfg D} {s s2 : St D} {f : Bool} (h : opDef c s f = some (.ok s2)) : Ctl s s2 := by
  unfold opDef at h
  split at h
  · simp at h
  · rename_i hp; exact (Ctl.pop s hp).trans (doDef_ctl h)

/-- **the shape of one dispatch**: either a control operation (`Ctl`) or exactly one call of the data semantics on
    the current (value stack, data state), whose result becomes the new stack and data state -/
theorem dispatch_shape {D} {c : Cfg D} {s s2 : St D} {op : Nat} {ops : List Nat}
    (h : dispatch c s op ops = some (.ok s2)) :
    Ctl s s2 ∨ (c.sem op ops (s.vs, s.data) = .ok (s2.vs, s2.data) ∧ s2.funcs = s.funcs ∧ s2.idefs = s.idefs ∧
                ctlCost c s op = 0) := by
  unfold dispatch at h
  by_cases h1 : op = 0x58
  · rw [if_pos h1] at h; exact Or.inl (opIf_ctl h)
  rw [if_neg h1] at h
  by_cases h2 : op = 0x1B
  · rw [if_pos h2] at h; exact Or.inl (opElse_ctl h)
  rw [if_neg h2] at h
  by_cases h3 : op = 0x59
  · rw [if_pos h3] at h
    have := Except.ok.inj (Option.some.inj h); subst this; exact Or.inl (Ctl.refl _)
  rw [if_neg h3] at h
  by_cases h4 : op = 0x1C
  · rw [if_pos h4] at h; exact Or.inl (doJump_ctl (Option.some.inj h))
  rw [if_neg h4] at h
  by_cases h5 : op = 0x78
  · rw [if_pos h5] at h; exact Or.inl (opJr_ctl (Option.some.inj h))
  rw [if_neg h5] at h
  by_cases h6 : op = 0x79
  · rw [if_pos h6] at h; exact Or.inl (opJr_ctl (Option.some.inj h))
  rw [if_neg h6] at h
  by_cases h7 : op = 0x2B
  · rw [if_pos h7] at h; exact Or.inl (opCall_ctl (Option.some.inj h))
  rw [if_neg h7] at h
  by_cases h8 : op = 0x2A
  · rw [if_pos h8] at h; exact Or.inl (opLoopcall_ctl (Option.some.inj h))
  rw [if_neg h8] at h
  by_cases h9 : op = 0x2C
  · rw [if_pos h9] at h; exact Or.inl (opDef_ctl h)
  rw [if_neg h9] at h
  by_cases h10 : op = 0x89
  · rw [if_pos h10] at h; exact Or.inl (opDef_ctl h)
  rw [if_neg h10] at h
  by_cases h11 : op = 0x2D
  · rw [if_pos h11] at h; exact Or.inl (leave_ctl (Option.some.inj h))
  rw [if_neg h11] at h
  by_cases h12 : isUnknownFor c.axisCount op = true
  · rw [if_pos h12] at h; exact Or.inl (doCall_ctl (Option.some.inj h))
  rw [if_neg h12] at h
  right
  have h := Option.some.inj h
  unfold opData at h
  split at h
  · simp at h
  · rename_i vs d hs
    simp at h; subst h
    refine ⟨hs, rfl, rfl, ?_⟩
    unfold ctlCost
    simp only []
    rw [if_neg h1, if_neg h2, if_neg h9, if_neg h10, if_neg (by omega), if_neg h12]

/-- the control part of one dispatch costs at most the code length + 1 plus the longer definition table -/
theorem ctlCost_le {D} (c : Cfg D) (s : St D) (op : Nat) :
    ctlCost c s op ≤ (c.maxCode + 1) + (s.funcs.length + s.idefs.length) := by
  have hc := code_size_le c s.current
  unfold ctlCost
  simp only []
  repeat' split
  all_goals first
    | omega
    | (have := scanIfSteps_le (c.code s.current) ((c.code s.current).size + 1) s.pc 1; omega)
    | (have := scanElseSteps_le (c.code s.current) ((c.code s.current).size + 1) s.pc 1; omega)
    | (have := scanDefSteps_le (c.code s.current) ((c.code s.current).size + 1) s.pc; omega)

/-! ### the errors of the control operations are the named control errors, never an `Err.data` code -/

/-- not a data-opcode error code -/
def CtlErr (e : Err) : Prop := ∀ n, e ≠ .data n

theorem ctlErr_lit {e : Err} (h : ∀ n, e ≠ .data n := by intro n; decide) : CtlErr e := h

theorem pop_ctlErr {ped : Bool} {vs : List Int} {e : Err} (h : pop ped vs = .error e) : CtlErr e := by
  unfold pop at h
  split at h
  · cases h
  · split at h
    · rw [← Except.error.inj h]; intro n hn; cases hn
    · cases h

theorem doJump_ctlErr {D} {c : Cfg D} {s : St D} {t : Bool} {e : Err} (h : doJump c s t = .error e) : CtlErr e := by
  unfold doJump at h
  simp only [] at h
  split at h
  · rename_i e1 hp; rw [← Except.error.inj h]; exact pop_ctlErr hp
  · iterate 4 (all_goals try split at h)
    all_goals first | (cases h; done) | (rw [← Except.error.inj h]; intro n hn; cases hn)

theorem enter_ctlErr {D} {s : St D} {d : Def} {n : Nat} {e : Err} (h : enter s d n = .error e) : CtlErr e := by
  unfold enter at h
  split at h
  · cases h
  · rw [← Except.error.inj h]; intro n hn; cases hn

theorem doCall_ctlErr {D} {s : St D} {f : Bool} {n : Nat} {k : Int} {e : Err} (h : doCall s f n k = .error e) :
    CtlErr e := by
  unfold doCall at h
  split at h
  · cases h
  · split at h
    · rw [← Except.error.inj h]; intro n hn; split at hn <;> cases hn
    · exact enter_ctlErr h

theorem leave_ctlErr {D} {s : St D} {e : Err} (h : leave s = .error e) : CtlErr e := by
  unfold leave at h
  split at h
  · rw [← Except.error.inj h]; intro n hn; cases hn
  · split at h <;> cases h

theorem scanIf_ctlErr (code : Array Nat) : ∀ (fuel pc d : Nat) (e : Err), scanIf code fuel pc d = some (.error e) →
    CtlErr e := by
  intro fuel
  induction fuel with
  | zero => intro pc d e h; simp [scanIf] at h
  | succ n ih =>
    intro pc d e h
    unfold scanIf at h
    split at h
    · rw [← Except.error.inj (Option.some.inj h)]; intro n hn; cases hn
    · rw [← Except.error.inj (Option.some.inj h)]; intro n hn; cases hn
    · iterate 6 (all_goals try split at h)
      all_goals first | exact ih _ _ _ h | (simp at h)

theorem scanElse_ctlErr (code : Array Nat) : ∀ (fuel pc d : Nat) (e : Err), scanElse code fuel pc d = some (.error e) →
    CtlErr e := by
  intro fuel
  induction fuel with
  | zero => intro pc d e h; simp [scanElse] at h
  | succ n ih =>
    intro pc d e h
    unfold scanElse at h
    split at h
    · rw [← Except.error.inj (Option.some.inj h)]; intro n hn; cases hn
    · rw [← Except.error.inj (Option.some.inj h)]; intro n hn; cases hn
    · iterate 6 (all_goals try split at h)
      all_goals first | exact ih _ _ _ h | (simp at h)

theorem scanDef_ctlErr (code : Array Nat) : ∀ (fuel pc : Nat) (e : Err), scanDef code fuel pc = some (.error e) →
    CtlErr e := by
  intro fuel
  induction fuel with
  | zero => intro pc e h; simp [scanDef] at h
  | succ n ih =>
    intro pc e h
    unfold scanDef at h
    split at h
    · rw [← Except.error.inj (Option.some.inj h)]; intro n hn; cases hn
    · rw [← Except.error.inj (Option.some.inj h)]; intro n hn; cases hn
    · iterate 3 (all_goals try split at h)
      all_goals first
        | exact ih _ _ h
        | (rw [← Except.error.inj (Option.some.inj h)]; intro n hn; cases hn)
        | (simp at h)

theorem allocate_ctlErr {defs : List Def} {key : Int} {e : Err} (h : allocate defs key = .error e) : CtlErr e := by
  unfold allocate at h
  simp only [] at h
  split at h
  · rw [← Except.error.inj h]; intro n hn; cases hn
  · split at h
    · cases h
    · rw [← Except.error.inj h]; intro n hn; cases hn

theorem doDef_ctlErr {D} {c : Cfg D} {s : St D} {f : Bool} {k : Int} {e : Err}
    (h : doDef c s f k = some (.error e)) : CtlErr e := by
  unfold doDef at h
  simp only [] at h
  split at h
  · rw [← Except.error.inj (Option.some.inj h)]; intro n hn; cases hn
  · split at h
    · rename_i e1 ha; rw [← Except.error.inj (Option.some.inj h)]; exact allocate_ctlErr ha
    · iterate 5 (all_goals try split at h)
      all_goals first
        | (cases h; done)
        | (cases Option.some.inj h; done)
        | (rw [← Except.error.inj (Option.some.inj h)]; exact scanDef_ctlErr _ _ _ _ (by assumption))
        | (rw [← Except.error.inj (Option.some.inj h)]; intro n hn; cases hn)

theorem opIf_ctlErr {D} {c : Cfg D} {s : St D} {e : Err} (h : opIf c s = some (.error e)) : CtlErr e := by
  unfold opIf at h
  simp only [] at h
  split at h
  · rename_i e1 hp; rw [← Except.error.inj (Option.some.inj h)]; exact pop_ctlErr hp
  · split at h
    · split at h
      · cases h
      · rename_i e1 hs; rw [← Except.error.inj (Option.some.inj h)]; exact scanIf_ctlErr _ _ _ _ _ hs
      · cases Option.some.inj h
    · cases Option.some.inj h

theorem opElse_ctlErr {D} {c : Cfg D} {s : St D} {e : Err} (h : opElse c s = some (.error e)) : CtlErr e := by
  unfold opElse at h
  simp only [] at h
  split at h
  · cases h
  · rename_i e1 hs; rw [← Except.error.inj (Option.some.inj h)]; exact scanElse_ctlErr _ _ _ _ _ hs
  · cases Option.some.inj h

theorem opJr_ctlErr {D} {c : Cfg D} {s : St D} {t : Bool} {e : Err} (h : opJr c s t = .error e) : CtlErr e := by
  unfold opJr at h
  split at h
  · rename_i e1 hp; rw [← Except.error.inj h]; exact pop_ctlErr hp
  · exact doJump_ctlErr h

theorem opCall_ctlErr {D} {c : Cfg D} {s : St D} {e : Err} (h : opCall c s = .error e) : CtlErr e := by
  unfold opCall at h
  split at h
  · rename_i e1 hp; rw [← Except.error.inj h]; exact pop_ctlErr hp
  · exact doCall_ctlErr h

theorem opLoopcall_ctlErr {D} {c : Cfg D} {s : St D} {e : Err} (h : opLoopcall c s = .error e) : CtlErr e := by
  unfold opLoopcall at h
  simp only [] at h
  split at h
  · rename_i e1 hp; rw [← Except.error.inj h]; exact pop_ctlErr hp
  · split at h
    · rename_i e1 hp; rw [← Except.error.inj h]; exact pop_ctlErr hp
    · split at h
      · split at h
        · rw [← Except.error.inj h]; intro n hn; cases hn
        · exact doCall_ctlErr h
      · cases h

theorem opDef_ctlErr {D} {c : Cfg D} {s : St D} {f : Bool} {e : Err} (h : opDef c s f = some (.error e)) :
    CtlErr e := by
  unfold opDef at h
  split at h
  · rename_i e1 hp; rw [← Except.error.inj (Option.some.inj h)]; exact pop_ctlErr hp
  · exact doDef_ctlErr h

/-- **where the error of a dispatch comes from**: a control error, or the error the data semantics returned for this
    opcode on the current (value stack, data state) -/
theorem dispatch_err {D} {c : Cfg D} {s : St D} {op : Nat} {ops : List Nat} {e : Err}
    (h : dispatch c s op ops = some (.error e)) : CtlErr e ∨ c.sem op ops (s.vs, s.data) = .error e := by
  unfold dispatch at h
  by_cases h1 : op = 0x58
  · rw [if_pos h1] at h; exact Or.inl (opIf_ctlErr h)
  rw [if_neg h1] at h
  by_cases h2 : op = 0x1B
  · rw [if_pos h2] at h; exact Or.inl (opElse_ctlErr h)
  rw [if_neg h2] at h
  by_cases h3 : op = 0x59
  · rw [if_pos h3] at h; cases Option.some.inj h
  rw [if_neg h3] at h
  by_cases h4 : op = 0x1C
  · rw [if_pos h4] at h; exact Or.inl (doJump_ctlErr (Option.some.inj h))
  rw [if_neg h4] at h
  by_cases h5 : op = 0x78
  · rw [if_pos h5] at h; exact Or.inl (opJr_ctlErr (Option.some.inj h))
  rw [if_neg h5] at h
  by_cases h6 : op = 0x79
  · rw [if_pos h6] at h; exact Or.inl (opJr_ctlErr (Option.some.inj h))
  rw [if_neg h6] at h
  by_cases h7 : op = 0x2B
  · rw [if_pos h7] at h; exact Or.inl (opCall_ctlErr (Option.some.inj h))
  rw [if_neg h7] at h
  by_cases h8 : op = 0x2A
  · rw [if_pos h8] at h; exact Or.inl (opLoopcall_ctlErr (Option.some.inj h))
  rw [if_neg h8] at h
  by_cases h9 : op = 0x2C
  · rw [if_pos h9] at h; exact Or.inl (opDef_ctlErr h)
  rw [if_neg h9] at h
  by_cases h10 : op = 0x89
  · rw [if_pos h10] at h; exact Or.inl (opDef_ctlErr h)
  rw [if_neg h10] at h
  by_cases h11 : op = 0x2D
  · rw [if_pos h11] at h; exact Or.inl (leave_ctlErr (Option.some.inj h))
  rw [if_neg h11] at h
  by_cases h12 : isUnknownFor c.axisCount op = true
  · rw [if_pos h12] at h; exact Or.inl (doCall_ctlErr (Option.some.inj h))
  rw [if_neg h12] at h
  right
  have h := Option.some.inj h
  unfold opData at h
  split at h
  · rename_i e1 hs; rw [← Except.error.inj h]; exact hs
  · cases h

/-- a decoded opcode is a byte when the program is a byte string -/
theorem decode_op_lt {code : Array Nat} {pc op ipc next : Nat} {ops : List Nat}
    (hb : ∀ i (h : i < code.size), code[i] < 256) (h : decode code pc = .ins op ops ipc next) : op < 256 := by
  unfold decode at h
  split at h
  · cases h
  · rename_i o ho
    split at h
    · cases h
    · simp only [] at h
      split at h
      · have h0 := Decoded.ins.inj h
        rw [← h0.1]
        have hlt : pc < code.size := by
          by_cases hlt : pc < code.size
          · exact hlt
          · rw [Array.getElem?_eq_none (by omega)] at ho; cases ho
        have := hb pc hlt
        rw [Array.getElem?_eq_getElem hlt] at ho
        rw [← Option.some.inj ho]; exact this
      · cases h

/-! ### `step` / `stepCost` on a decoded instruction; the stack subset stays within capacity -/

/-- `step` on a running state whose next instruction decodes -/
theorem step_ins {D} (c : Cfg D) (s : St D) (hr : s.status = .running) {op ipc next : Nat} {operands : List Nat}
    (hd : decode (c.code s.current) s.pc = .ins op operands ipc next) :
    step c s =
      match dispatch c { s with pc := next } op operands with
      | none => { s with status := .stuck }
      | some (.error e) => { s with status := .failed e }
      | some (.ok s2) =>
        if s2.count + 1 > MAX_RUN_INSTRUCTIONS then { s2 with count := s2.count + 1, pc := ipc, status := .failed .budget }
        else { s2 with count := s2.count + 1 } := by
  obtain ⟨ini, cur, pc, calls, funcs, idefs, bj, lc, cnt, vs, data, status⟩ := s
  simp only [] at hr hd ⊢
  subst hr
  unfold step
  simp only [hd]
  rfl

theorem stepCost_ins {D} (c : Cfg D) (proj : D → G) (s : St D) (hr : s.status = .running) {op ipc next : Nat}
    {operands : List Nat} (hd : decode (c.code s.current) s.pc = .ins op operands ipc next) :
    stepCost c proj s = 1 + ctlCost c { s with pc := next } op + ((proj (step c s).data).iters - (proj s.data).iters) := by
  obtain ⟨ini, cur, pc, calls, funcs, idefs, bj, lc, cnt, vs, data, status⟩ := s
  simp only [] at hr hd ⊢
  subst hr
  unfold stepCost
  simp only [hd]

theorem stepCost_noins {D} (c : Cfg D) (proj : D → G) (s : St D) (hr : s.status = .running)
    (hd : decode (c.code s.current) s.pc = .eof ∨ decode (c.code s.current) s.pc = .bad) : stepCost c proj s = 1 := by
  unfold stepCost
  simp only [hr]
  rcases hd with hd | hd <;> rw [hd]

theorem push_len {cap : Nat} {vs vs' : List Int} {v : Int} (h : push cap vs v = .ok vs') : vs'.length ≤ cap := by
  unfold push at h
  split at h
  · simp at h; subst h; simp; omega
  · simp at h

theorem applyBinary_len {ped : Bool} {cap : Nat} {vs vs' : List Int} {f : Int → Int → Int}
    (h : applyBinary ped cap vs f = .ok vs') : vs'.length ≤ cap := by
  unfold applyBinary at h
  split at h
  · simp at h
  · split at h
    · simp at h
    · exact push_len h

theorem applyUnary_len {ped : Bool} {cap : Nat} {vs vs' : List Int} {f : Int → Int}
    (h : applyUnary ped cap vs f = .ok vs') : vs'.length ≤ cap := by
  unfold applyUnary at h
  split at h
  · simp at h
  · exact push_len h

/-- every opcode of `semSubset` leaves the stack within the capacity it was given -/
theorem semSubset_len (ped : Bool) (op : Nat) (bytes : List Nat) (vs vs' : List Int) (cap cap' : Nat)
    (hl : vs.length ≤ cap) (h : semSubset ped op bytes (vs, cap) = .ok (vs', cap')) : vs'.length ≤ cap ∧ cap' = cap := by
  unfold semSubset at h
  simp only [] at h
  have hret : ∀ (r : Except Err (List Int)),
      (match r with | .ok vs => (Except.ok (vs, cap) : Except Err (List Int × Nat)) | .error e => .error e) = .ok (vs', cap') →
      r = .ok vs' ∧ cap' = cap := by
    intro r hr
    cases r with
    | error e => cases hr
    | ok v => have h0 := Prod.mk.inj (Except.ok.inj hr); exact ⟨by rw [h0.1], h0.2.symm⟩
  by_cases c0 : op = 0x40 ∨ op = 0x41 ∨ (0xB0 ≤ op ∧ op ≤ 0xBF)
  · rw [if_pos c0] at h
    split at h
    · have h0 := Prod.mk.inj (Except.ok.inj h)
      obtain ⟨h1, h2⟩ := h0; subst h1; simp only [List.length_append, List.length_reverse]; omega
    · cases h
  rw [if_neg c0] at h
  by_cases c1 : op = 0x20
  · rw [if_pos c1] at h
    split at h
    · have ⟨h1, h2⟩ := hret _ h; exact ⟨push_len h1, h2⟩
    · split at h
      · cases h
      · have ⟨h1, h2⟩ := hret _ h; exact ⟨push_len h1, h2⟩
  rw [if_neg c1] at h
  by_cases c2 : op = 0x21
  · rw [if_pos c2] at h
    have ⟨h1, h2⟩ := hret _ h
    cases hp : pop ped vs with
    | error e => rw [hp] at h1; cases h1
    | ok r =>
      rw [hp] at h1
      have h3 : r.2 = vs' := Except.ok.inj h1
      subst h3
      exact ⟨Nat.le_trans (pop_length_le (v := r.1) (vs' := r.2) hp) hl, h2⟩
  rw [if_neg c2] at h
  by_cases c3 : op = 0x22
  · rw [if_pos c3] at h
    have h0 := Prod.mk.inj (Except.ok.inj h); obtain ⟨h1, h2⟩ := h0; subst h1; exact ⟨by simp, h2.symm⟩
  rw [if_neg c3] at h
  by_cases c4 : op = 0x23
  · rw [if_pos c4] at h
    split at h
    · cases h
    · split at h
      · cases h
      · split at h
        · cases h
        · have ⟨h1, h2⟩ := hret _ h; exact ⟨push_len h1, h2⟩
  rw [if_neg c4] at h
  by_cases c5 : op = 0x24
  · rw [if_pos c5] at h
    have ⟨h1, h2⟩ := hret _ h; exact ⟨push_len h1, h2⟩
  rw [if_neg c5] at h
  by_cases c6 : op = 0x60
  · rw [if_pos c6] at h
    have ⟨h1, h2⟩ := hret _ h; exact ⟨applyBinary_len h1, h2⟩
  rw [if_neg c6] at h
  by_cases c7 : op = 0x61
  · rw [if_pos c7] at h
    have ⟨h1, h2⟩ := hret _ h; exact ⟨applyBinary_len h1, h2⟩
  rw [if_neg c7] at h
  by_cases c8 : op = 0x65
  · rw [if_pos c8] at h
    have ⟨h1, h2⟩ := hret _ h; exact ⟨applyUnary_len h1, h2⟩
  rw [if_neg c8] at h
  by_cases c9 : op = 0x50
  · rw [if_pos c9] at h
    have ⟨h1, h2⟩ := hret _ h; exact ⟨applyBinary_len h1, h2⟩
  rw [if_neg c9] at h
  by_cases c10 : op = 0x53
  · rw [if_pos c10] at h
    have ⟨h1, h2⟩ := hret _ h; exact ⟨applyBinary_len h1, h2⟩
  rw [if_neg c10] at h
  by_cases c11 : op = 0x54
  · rw [if_pos c11] at h
    have ⟨h1, h2⟩ := hret _ h; exact ⟨applyBinary_len h1, h2⟩
  rw [if_neg c11] at h
  by_cases c12 : op = 0x5A
  · rw [if_pos c12] at h
    have ⟨h1, h2⟩ := hret _ h; exact ⟨applyBinary_len h1, h2⟩
  rw [if_neg c12] at h
  by_cases c13 : op = 0x5B
  · rw [if_pos c13] at h
    have ⟨h1, h2⟩ := hret _ h; exact ⟨applyBinary_len h1, h2⟩
  rw [if_neg c13] at h
  by_cases c14 : op = 0x5C
  · rw [if_pos c14] at h
    have ⟨h1, h2⟩ := hret _ h; exact ⟨applyUnary_len h1, h2⟩
  rw [if_neg c14] at h
  by_cases c15 : op = 0x4F ∨ op = 0x7F
  · rw [if_pos c15] at h
    have ⟨h1, h2⟩ := hret _ h
    cases hp : pop ped vs with
    | error e => rw [hp] at h1; cases h1
    | ok r =>
      rw [hp] at h1
      have h3 : r.2 = vs' := Except.ok.inj h1
      subst h3
      exact ⟨Nat.le_trans (pop_length_le (v := r.1) (vs' := r.2) hp) hl, h2⟩
  rw [if_neg c15] at h
  split at h
  · have h0 := Prod.mk.inj (Except.ok.inj h); obtain ⟨h1, h2⟩ := h0; subst h1; exact ⟨hl, h2.symm⟩
  · cases h

end FontVerif.InterpRunLemmas
