/-
Sparse-bit-set codec, input bit stream: the stream position as one number of bits (`pos`),
`nextNode` / `readNodes` / `skipNodes` / `bytesConsumed` in terms of it.
-/
import FontVerif.Model.SparseBitSet
set_option linter.unusedVariables false
namespace FontVerif.SparseBitSet

/-- the four branch factors -/
def BfOk (bf : Nat) : Prop := bf = 2 ∨ bf = 4 ∨ bf = 8 ∨ bf = 32

/-- the sub-byte index is a multiple of the node size and inside the byte -/
def StOk (bf : Nat) (st : BitIn) : Prop := st.subIndex % bf = 0 ∧ st.subIndex < 8

/-- stream position in bits -/
def pos (st : BitIn) : Nat := 8 * st.byteIndex + st.subIndex

theorem bfOk_bfOfBits (b : Nat) : BfOk (bfOfBits b) := by
  unfold bfOfBits BfOk
  split <;> simp

theorem stOk_start (bf : Nat) (h : BfOk bf) : StOk bf BitIn.start := by
  rcases h with h | h | h | h <;> subst h <;> simp [StOk, BitIn.start]

theorem pos_start : pos BitIn.start = 8 := by simp [pos, BitIn.start]

theorem bitIn_eq_of_pos {bf : Nat} {a b : BitIn} (ha : StOk bf a) (hb : StOk bf b)
    (h : pos a = pos b) : a = b := by
  cases a with | mk ai as => cases b with | mk bi bs =>
  simp only [StOk, pos] at *
  have h1 : ai = bi := by omega
  have h2 : as = bs := by omega
  subst h1; subst h2; rfl

theorem bytesConsumed_eq {bf : Nat} {st : BitIn} (h : StOk bf st) :
    bytesConsumed st = (pos st + 7) / 8 := by
  simp only [bytesConsumed, pos, StOk] at *
  split <;> omega

theorem bytesConsumed_le_iff {bf : Nat} {st : BitIn} (h : StOk bf st) (n : Nat) :
    bytesConsumed st ≤ n ↔ pos st ≤ 8 * n := by
  rw [bytesConsumed_eq h]; omega

/-- a successful read advances the position by `bf` bits and stays inside the data -/
theorem nextNode_some {bf : Nat} (hbf : BfOk bf) {data : List Nat} {st st' : BitIn} {v : Nat}
    (hst : StOk bf st) (h : nextNode bf data st = some (v, st')) :
    StOk bf st' ∧ pos st' = pos st + bf ∧ pos st + bf ≤ 8 * data.length := by
  rcases hbf with hb | hb | hb | hb <;> subst hb <;>
    simp only [nextNode, StOk, pos] at * <;> simp at h
  · split at h
    · simp at h
    · rename_i byte hbyte
      have hlt := (List.getElem?_eq_some_iff.mp hbyte).1
      simp at h
      obtain ⟨_, rfl⟩ := h
      simp only []
      split <;> omega
  · split at h
    · simp at h
    · rename_i byte hbyte
      have hlt := (List.getElem?_eq_some_iff.mp hbyte).1
      simp at h
      obtain ⟨_, rfl⟩ := h
      simp only []
      split <;> omega
  · split at h
    · simp at h
    · rename_i byte hbyte
      have hlt := (List.getElem?_eq_some_iff.mp hbyte).1
      simp at h
      obtain ⟨_, rfl⟩ := h
      simp only []
      omega
  · split at h
    · rename_i b1 b2 b3 b4 h1 h2 h3 h4
      have hlt := (List.getElem?_eq_some_iff.mp h4).1
      simp at h
      obtain ⟨_, rfl⟩ := h
      simp only []
      omega
    · simp at h

/-- a read fails exactly when fewer than `bf` bits are left -/
theorem nextNode_none_iff {bf : Nat} (hbf : BfOk bf) {data : List Nat} {st : BitIn}
    (hst : StOk bf st) : nextNode bf data st = none ↔ 8 * data.length < pos st + bf := by
  rcases hbf with hb | hb | hb | hb <;> subst hb <;>
    simp only [nextNode, StOk, pos] at * <;> simp
  · split
    · rename_i hn
      have := List.getElem?_eq_none_iff.mp hn
      simp; omega
    · rename_i byte hbyte
      have hlt := (List.getElem?_eq_some_iff.mp hbyte).1
      simp; omega
  · split
    · rename_i hn
      have := List.getElem?_eq_none_iff.mp hn
      simp; omega
    · rename_i byte hbyte
      have hlt := (List.getElem?_eq_some_iff.mp hbyte).1
      simp; omega
  · split
    · rename_i hn
      have := List.getElem?_eq_none_iff.mp hn
      simp; omega
    · rename_i byte hbyte
      have hlt := (List.getElem?_eq_some_iff.mp hbyte).1
      simp; omega
  · split
    · rename_i b1 b2 b3 b4 h1 h2 h3 h4
      have hlt := (List.getElem?_eq_some_iff.mp h4).1
      simp; omega
    · rename_i hn
      simp
      by_cases hlt : st.byteIndex + 3 < data.length
      · exfalso
        have e0 : data[st.byteIndex]? = some data[st.byteIndex] :=
          List.getElem?_eq_getElem (by omega)
        have e1 : data[st.byteIndex + 1]? = some data[st.byteIndex + 1] :=
          List.getElem?_eq_getElem (by omega)
        have e2 : data[st.byteIndex + 2]? = some data[st.byteIndex + 2] :=
          List.getElem?_eq_getElem (by omega)
        have e3 : data[st.byteIndex + 3]? = some data[st.byteIndex + 3] :=
          List.getElem?_eq_getElem (by omega)
        exact hn _ _ _ _ e0 e1 e2 e3
      · omega

/-- node values fit in `bf` bits when the data are bytes -/
theorem nextNode_lt {bf : Nat} (hbf : BfOk bf) {data : List Nat} (hbytes : ∀ b ∈ data, b < 256)
    {st st' : BitIn} {v : Nat} (h : nextNode bf data st = some (v, st')) : v < 2 ^ bf := by
  rcases hbf with hb | hb | hb | hb <;> subst hb <;> simp only [nextNode] at * <;> simp at h
  · split at h
    · simp at h
    · simp at h; obtain ⟨rfl, _⟩ := h; exact Nat.mod_lt _ (by decide)
  · split at h
    · simp at h
    · simp at h; obtain ⟨rfl, _⟩ := h; exact Nat.mod_lt _ (by decide)
  · split at h
    · simp at h
    · rename_i byte hbyte
      have hm := List.mem_of_getElem? hbyte
      simp at h; obtain ⟨rfl, _⟩ := h
      exact hbytes _ hm
  · split at h
    · rename_i b1 b2 b3 b4 h1 h2 h3 h4
      have m1 := hbytes _ (List.mem_of_getElem? h1)
      have m2 := hbytes _ (List.mem_of_getElem? h2)
      have m3 := hbytes _ (List.mem_of_getElem? h3)
      have m4 := hbytes _ (List.mem_of_getElem? h4)
      simp at h; obtain ⟨rfl, _⟩ := h
      omega
    · simp at h

/-! ### readNodes -/

theorem readNodes_some {bf : Nat} (hbf : BfOk bf) {data : List Nat} :
    ∀ (n : Nat) {st st' : BitIn} {vs : List Nat}, StOk bf st →
      readNodes bf data n st = some (vs, st') →
      StOk bf st' ∧ pos st' = pos st + n * bf ∧ vs.length = n ∧
        (0 < n → pos st + n * bf ≤ 8 * data.length)
  | 0, st, st', vs, hst, h => by
    simp [readNodes] at h
    obtain ⟨rfl, rfl⟩ := h
    simp [hst]
  | n + 1, st, st', vs, hst, h => by
    simp only [readNodes] at h
    split at h
    · simp at h
    · rename_i v st1 h1
      split at h
      · simp at h
      · rename_i vs' st2 h2
        simp at h
        obtain ⟨rfl, rfl⟩ := h
        have a := nextNode_some hbf hst h1
        have b := readNodes_some hbf n a.1 h2
        refine ⟨b.1, ?_, by simp [b.2.2.1], ?_⟩
        · rw [b.2.1, a.2.1, Nat.add_mul]; omega
        · intro _
          rw [Nat.add_mul]
          rcases Nat.eq_zero_or_pos n with hn | hn
          · subst hn; have := a.2.2; omega
          · have := b.2.2.2 hn; rw [a.2.1] at this; omega

theorem readNodes_none_iff {bf : Nat} (hbf : BfOk bf) {data : List Nat} :
    ∀ (n : Nat) {st : BitIn}, StOk bf st → pos st ≤ 8 * data.length →
      (readNodes bf data n st = none ↔ 8 * data.length < pos st + n * bf)
  | 0, st, hst, hle => by simp [readNodes]; omega
  | n + 1, st, hst, hle => by
    simp only [readNodes]
    split
    · rename_i h1
      have := (nextNode_none_iff hbf hst).mp h1
      simp; rw [Nat.add_mul]; have : 0 ≤ n * bf := Nat.zero_le _; omega
    · rename_i v st1 h1
      have a := nextNode_some hbf hst h1
      have ih := readNodes_none_iff hbf n (data := data) a.1 (by omega)
      split
      · rename_i h2
        have := ih.mp h2
        simp; rw [Nat.add_mul]; omega
      · rename_i vs st2 h2
        simp
        have : ¬ (8 * data.length < pos st1 + n * bf) := by
          intro hc; have := ih.mpr hc; simp [h2] at this
        rw [Nat.add_mul]; omega

theorem readNodes_lt {bf : Nat} (hbf : BfOk bf) {data : List Nat} (hbytes : ∀ b ∈ data, b < 256) :
    ∀ (n : Nat) {st st' : BitIn} {vs : List Nat},
      readNodes bf data n st = some (vs, st') → ∀ v ∈ vs, v < 2 ^ bf
  | 0, st, st', vs, h => by
    simp [readNodes] at h
    obtain ⟨rfl, rfl⟩ := h
    simp
  | n + 1, st, st', vs, h => by
    simp only [readNodes] at h
    split at h
    · simp at h
    · rename_i v st1 h1
      split at h
      · simp at h
      · rename_i vs' st2 h2
        simp at h
        obtain ⟨rfl, rfl⟩ := h
        intro w hw
        simp only [List.mem_cons] at hw
        rcases hw with rfl | hw
        · exact nextNode_lt hbf hbytes h1
        · exact readNodes_lt hbf hbytes n h2 w hw

/-! ### skipNodes -/

theorem skipNodes_spec {bf : Nat} (hbf : BfOk bf) (len : Nat) {st : BitIn} (hst : StOk bf st)
    (n : Nat) :
    StOk bf (skipNodes bf len st n).1 ∧ pos (skipNodes bf len st n).1 = pos st + n * bf ∧
      ((skipNodes bf len st n).2 = true ↔ pos st + n * bf ≤ 8 * len) := by
  have key : ∀ st' : BitIn, StOk bf st' → pos st' = pos st + n * bf →
      (decide (bytesConsumed st' ≤ len) = true ↔ pos st + n * bf ≤ 8 * len) := by
    intro st' h1 h2
    rw [decide_eq_true_iff, bytesConsumed_le_iff h1, h2]
  rcases hbf with hb | hb | hb | hb <;> subst hb
  · have h1 : StOk 2 (skipNodes 2 len st n).1 := by
      simp only [skipNodes, StOk] at *; simp; omega
    have h2 : pos (skipNodes 2 len st n).1 = pos st + n * 2 := by
      simp only [skipNodes, StOk, pos] at *; simp; omega
    exact ⟨h1, h2, key _ h1 h2⟩
  · have h1 : StOk 4 (skipNodes 4 len st n).1 := by
      simp only [skipNodes, StOk] at *; simp; omega
    have h2 : pos (skipNodes 4 len st n).1 = pos st + n * 4 := by
      simp only [skipNodes, StOk, pos] at *; simp; omega
    exact ⟨h1, h2, key _ h1 h2⟩
  · have h1 : StOk 8 (skipNodes 8 len st n).1 := by
      simp only [skipNodes, StOk] at *; simp; omega
    have h2 : pos (skipNodes 8 len st n).1 = pos st + n * 8 := by
      simp only [skipNodes, StOk, pos] at *; simp; omega
    exact ⟨h1, h2, key _ h1 h2⟩
  · have h1 : StOk 32 (skipNodes 32 len st n).1 := by
      simp only [skipNodes, StOk] at *; simp; omega
    have h2 : pos (skipNodes 32 len st n).1 = pos st + n * 32 := by
      simp only [skipNodes, StOk, pos] at *; simp; omega
    exact ⟨h1, h2, key _ h1 h2⟩

/-- skipping `n` nodes lands where reading `n` nodes lands -/
theorem skipNodes_of_readNodes {bf : Nat} (hbf : BfOk bf) {data : List Nat} {n : Nat}
    {st st' : BitIn} {vs : List Nat} (hst : StOk bf st) (hle : pos st ≤ 8 * data.length)
    (h : readNodes bf data n st = some (vs, st')) :
    skipNodes bf data.length st n = (st', true) := by
  have a := readNodes_some hbf n hst h
  have b := skipNodes_spec hbf data.length hst n
  have hn : ¬ (8 * data.length < pos st + n * bf) := by
    intro hc
    have := (readNodes_none_iff hbf n hst hle).mpr hc
    simp [h] at this
  have e1 : (skipNodes bf data.length st n).1 = st' :=
    bitIn_eq_of_pos b.1 a.1 (by rw [b.2.1, a.2.1])
  have e2 : (skipNodes bf data.length st n).2 = true := b.2.2.mpr (by omega)
  exact Prod.ext e1 e2

theorem skipNodes_of_readNodes_none {bf : Nat} (hbf : BfOk bf) {data : List Nat} {n : Nat}
    {st : BitIn} (hst : StOk bf st) (hle : pos st ≤ 8 * data.length)
    (h : readNodes bf data n st = none) :
    (skipNodes bf data.length st n).2 = false := by
  have b := skipNodes_spec hbf data.length hst n
  have := (readNodes_none_iff hbf n hst hle).mp h
  cases hf : (skipNodes bf data.length st n).2
  · rfl
  · have := b.2.2.mp hf; omega

end FontVerif.SparseBitSet
