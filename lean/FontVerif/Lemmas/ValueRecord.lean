/- helper lemmas for the GPOS ValueRecord model (Model/ValueRecord.lean) -/
import FontVerif.Model.ValueRecord
import FontVerif.Lemmas.Field

namespace FontVerif.ValueRecord
open FontVerif.Field

theorem writeSlots_length (sl : List (Bool × Nat)) :
    (writeSlots sl).length = 2 * (sl.filter (·.1)).length := by
  induction sl with
  | nil => simp [writeSlots]
  | cons e r ih =>
    obtain ⟨p, v⟩ := e
    cases p <;> simp [writeSlots, ih, be_length] <;> omega

/-- reading the slots back: every present slot yields its value, every absent one `none`, the rest is untouched -/
theorem readSlots_writeSlots (sl : List (Bool × Nat)) (rest : Bytes) (h : ∀ e ∈ sl, e.2 < 65536) :
    readSlots (sl.map (·.1)) (writeSlots sl ++ rest)
      = some (sl.map (fun e => if e.1 then some e.2 else none), rest) := by
  induction sl with
  | nil => simp [readSlots, writeSlots]
  | cons e r ih =>
    obtain ⟨p, v⟩ := e
    have hv : v < 65536 := h (p, v) (by simp)
    have hr : ∀ e ∈ r, e.2 < 65536 := fun e he => h e (by simp [he])
    cases p with
    | false => simp [readSlots, writeSlots, ih hr]
    | true =>
      have hlen : ¬ (be 2 v ++ (writeSlots r ++ rest)).length < 2 := by
        simp [be_length]
      have hdrop : (be 2 v ++ (writeSlots r ++ rest)).drop 2 = writeSlots r ++ rest := drop_be_append 2 v _
      have htake : (be 2 v ++ (writeSlots r ++ rest)).take 2 = be 2 v := take_be_append 2 v _
      have hval : beVal (be 2 v) = v := beVal_be 2 v (by simpa using hv)
      simp only [List.map_cons, readSlots, writeSlots, if_true, List.append_assoc, hlen, if_false, hdrop, htake,
        hval, ih hr]

theorem fmtBits_eq (f : Nat) :
    fmtBits f = [hasBit f 0, hasBit f 1, hasBit f 2, hasBit f 3, hasBit f 4, hasBit f 5, hasBit f 6, hasBit f 7] := by
  simp [fmtBits, List.range, List.range.loop]

theorem slots_bits (o : Owned) : (slots o).map (·.1) = fmtBits (format o) := by
  simp [slots, fmtBits_eq]

theorem resolve_devOff (x : Option Nat) (h : devOk x) : resolve (devOff x) = x := by
  cases x with
  | none => simp [resolve, devOff]
  | some v =>
    have hv : v ≠ 0 := by have := h v rfl; omega
    simp [resolve, devOff, hv]

theorem devOff_lt (x : Option Nat) (h : devOk x) : devOff x < 65536 := by
  cases x with
  | none => simp [devOff]
  | some v => exact (h v rfl).2

theorem getD_lt (x : Option Nat) (h : optLt x 65536) : x.getD 0 < 65536 := by
  cases x with
  | none => simp
  | some v => exact h v rfl

theorem read_write_normalize (o : Owned) (rest : Bytes) (h : WellSized o) :
    ∃ p, read (format o) (write o ++ rest) = some (p, rest) ∧ toOwned p = normalize o := by
  obtain ⟨h0, h1, h2, h3, h4, h5, h6, h7⟩ := h
  have hs : ∀ e ∈ slots o, e.2 < 65536 := by
    intro e he
    simp only [slots, List.mem_cons, List.mem_nil_iff, or_false] at he
    rcases he with rfl | rfl | rfl | rfl | rfl | rfl | rfl | rfl
    · exact getD_lt _ h0
    · exact getD_lt _ h1
    · exact getD_lt _ h2
    · exact getD_lt _ h3
    · exact devOff_lt _ h4
    · exact devOff_lt _ h5
    · exact devOff_lt _ h6
    · exact devOff_lt _ h7
  have hr := readSlots_writeSlots (slots o) rest hs
  rw [slots_bits] at hr
  unfold ValueRecord.read ValueRecord.write
  rw [hr]
  simp only [slots, List.map_cons, List.map_nil]
  refine ⟨_, rfl, ?_⟩
  simp only [toOwned, normalize]
  have r4 := resolve_devOff _ h4
  have r5 := resolve_devOff _ h5
  have r6 := resolve_devOff _ h6
  have r7 := resolve_devOff _ h7
  have r0 : resolve 0 = none := by simp [resolve]
  cases hasBit (format o) 0 <;> cases hasBit (format o) 1 <;> cases hasBit (format o) 2 <;>
    cases hasBit (format o) 3 <;> cases hasBit (format o) 4 <;> cases hasBit (format o) 5 <;>
    cases hasBit (format o) 6 <;> cases hasBit (format o) 7 <;>
    simp [r4, r5, r6, r7, r0]

theorem write_length (o : Owned) : (write o).length = encodedSize (format o) := by
  unfold ValueRecord.write
  rw [writeSlots_length]
  have h1 : ((slots o).filter (·.1)).length = (((slots o).map (·.1)).filter id).length := by
    rw [List.filter_map]; simp [Function.comp_def]
  rw [h1, slots_bits]
  simp [encodedSize, fmtBits, List.filter_map, Function.comp_def]

/-! ### arrays of records of one format -/

theorem readMany_writeMany (f : Nat) (rs : List Owned) (rest : Bytes)
    (h : ∀ r ∈ rs, WellSized r ∧ format r = f) :
    ∃ ps, readMany f rs.length (writeMany rs ++ rest) = some (ps, rest) ∧ ps.map toOwned = rs.map normalize := by
  induction rs with
  | nil => exact ⟨[], by simp [readMany, writeMany], rfl⟩
  | cons r rs ih =>
    obtain ⟨hw, hf⟩ := h r (by simp)
    obtain ⟨ps, hps, hmap⟩ := ih (fun r hr => h r (by simp [hr]))
    obtain ⟨p, hp, ho⟩ := read_write_normalize r (writeMany rs ++ rest) hw
    rw [hf] at hp
    refine ⟨p :: ps, ?_, by simp [ho, hmap]⟩
    simp only [List.length_cons, readMany, writeMany, List.flatMap_cons, List.append_assoc]
    simp only [writeMany] at hp hps
    rw [hp]
    simp only [hps]

theorem writeMany_length (f : Nat) (rs : List Owned) (h : ∀ r ∈ rs, format r = f) :
    (writeMany rs).length = rs.length * encodedSize f := by
  induction rs with
  | nil => simp [writeMany]
  | cons r rs ih =>
    have hr := h r (by simp)
    simp only [writeMany, List.flatMap_cons, List.length_append, List.length_cons] at ih ⊢
    rw [ih (fun r hr => h r (by simp [hr])), write_length, hr, Nat.add_mul]
    omega

/-- the computed array returns every written record when records have a non-zero size -/
theorem readComputed_writeMany (f : Nat) (rs : List Owned) (rest : Bytes)
    (h : ∀ r ∈ rs, WellSized r ∧ format r = f) (hz : encodedSize f ≠ 0) :
    ∃ ps, readComputed f rs.length (writeMany rs ++ rest) = some (ps, rest) ∧ ps.map toOwned = rs.map normalize := by
  have hl := writeMany_length f rs (fun r hr => (h r hr).2)
  obtain ⟨ps, hps, hmap⟩ := readMany_writeMany f rs [] h
  refine ⟨ps, ?_, hmap⟩
  unfold readComputed
  simp only []
  have h1 : ¬ (writeMany rs ++ rest).length < rs.length * encodedSize f := by
    rw [List.length_append, hl]; omega
  have h2 : (writeMany rs ++ rest).take (rs.length * encodedSize f) = writeMany rs := by
    rw [← hl, List.take_left']; rfl
  have h3 : (writeMany rs ++ rest).drop (rs.length * encodedSize f) = rest := by
    rw [← hl, List.drop_left']; rfl
  have h4 : rs.length * encodedSize f / encodedSize f = rs.length := Nat.mul_div_cancel _ (by omega)
  simp only [h1, if_false, hz, h2, h3, h4]
  rw [List.append_nil] at hps
  rw [hps]

/-- ... and NO record at all when the format is empty (known finding C04-empty-value-records) -/
theorem readComputed_zero_size (f n : Nat) (bs : Bytes) (hz : encodedSize f = 0) :
    readComputed f n bs = some ([], bs) := by
  simp [readComputed, hz, readMany]

theorem readU16_be (v : Nat) (rest : Bytes) (h : v < 65536) : readU16 (be 2 v ++ rest) = some (v, rest) := by
  have hlen : ¬ (be 2 v ++ rest).length < 2 := by simp [be_length]
  simp only [readU16, hlen, if_false, take_be_append, drop_be_append, beVal_be 2 v (by simpa using h)]

end FontVerif.ValueRecord
