/- helper lemmas for the GPOS ValueRecord model (Model/ValueRecord.lean) -/
import FontVerif.Model.ValueRecord
import FontVerif.Lemmas.Field

namespace FontVerif.ValueRecord
open FontVerif.Field

theorem writeSlots_length (sl : List (Bool × Nat)) :
    (writeSlots sl).length = 2 * (sl.filter (·.1)).length := by
  induction sl with
  | nil => simp [writeSlots]
  | cons e r ih =>
    obtain ⟨p, v⟩ := e
    cases p <;> simp [writeSlots, ih, be_length] <;> omega

/-- reading the slots back: every present slot yields its value, every absent one `none`, the rest is untouched -/
theorem readSlots_writeSlots (sl : List (Bool × Nat)) (rest : Bytes) (h : ∀ e ∈ sl, e.2 < 65536) :
    readSlots (sl.map (·.1)) (writeSlots sl ++ rest)
      = some (sl.map (fun e => if e.1 then some e.2 else none), rest) := by
  induction sl with
  | nil => simp [readSlots, writeSlots]
  | cons e r ih =>
    obtain ⟨p, v⟩ := e
    have hv : v < 65536 := h (p, v) (by simp)
    have hr : ∀ e ∈ r, e.2 < 65536 := fun e he => h e (by simp [he])
    cases p with
    | false => simp [readSlots, writeSlots, ih hr]
    | true =>
      have hlen : ¬ (be 2 v ++ (writeSlots r ++ rest)).length < 2 := by
        simp [be_length]
      have hdrop : (be 2 v ++ (writeSlots r ++ rest)).drop 2 = writeSlots r ++ rest := drop_be_append 2 v _
      have htake : (be 2 v ++ (writeSlots r ++ rest)).take 2 = be 2 v := take_be_append 2 v _
      have hval : beVal (be 2 v) = v := beVal_be 2 v (by simpa using hv)
      simp only [List.map_cons, readSlots, writeSlots, if_true, List.append_assoc, hlen, if_false, hdrop, htake,
        hval, ih hr]

theorem fmtBits_eq (f : Nat) :
    fmtBits f = [hasBit f 0, hasBit f 1, hasBit f 2, hasBit f 3, hasBit f 4, hasBit f 5, hasBit f 6, hasBit f 7] := by
  simp [fmtBits, List.range, List.range.loop]

theorem slots_bits (o : Owned) : (slots o).map (·.1) = fmtBits (format o) := by
  simp [slots, fmtBits_eq]

theorem resolve_devOff (x : Option Nat) (h : devOk x) : resolve (devOff x) = x := by
  cases x with
  | none => simp [resolve, devOff]
  | some v =>
    have hv : v ≠ 0 := by have := h v rfl; omega
    simp [resolve, devOff, hv]

theorem devOff_lt (x : Option Nat) (h : devOk x) : devOff x < 65536 := by
  cases x with
  | none => simp [devOff]
  | some v => exact (h v rfl).2

theorem getD_lt (x : Option Nat) (h : optLt x 65536) : x.getD 0 < 65536 := by
  cases x with
  | none => simp
  | some v => exact h v rfl

end FontVerif.ValueRecord
