/- C14 / concrete BitSet: `process_refines` at the level of the abstraction function, the
`IntSet` mode tables over the concrete `BitSet`, and operation histories run on the concrete
representation. -/
import FontVerif.Lemmas.IntSetConcProcess
import FontVerif.Lemmas.IntSetOps
set_option linter.unusedVariables false
set_option linter.unusedSimpArgs false
namespace FontVerif.IntSet

theorem aview_eq_absView (pm : PMap) (pages : List CPage) : aview pm pages = absView (cview pm pages) := by
  simp [aview, absView, cview, List.map_map, Function.comp_def]

theorem one_abs_bits : (CPage.zero.insert 0).1.abs.bits = 1 := by decide

/-- `passthrough_behavior` computed on concrete pages agrees with the abstract one -/
theorem cPassthrough_eq {cop op} (hr : PageOpRefines cop op) : cPassthrough cop = passthrough op := by
  have hz := cpageOk_zero
  have h1 := CPage.insert_ok CPage.zero 0 hz
  unfold cPassthrough passthrough
  simp only
  rw [CPage.contains_abs _ _ (hr.ok _ _ h1 hz), CPage.contains_abs _ _ (hr.ok _ _ hz h1),
    hr.abs _ _ h1 hz, hr.abs _ _ hz h1, one_abs_bits, CPage.abs_zero]
  rfl

/-- **refinement square of `BitSet::process`** for any bitwise page operator -/
theorem CBitSet.process_refines {cop op f} (hr : PageOpRefines cop op) (hop : BitwiseOp op f)
    (s o : CBitSet) (hs : CInv s) (ho : CInv o) (hsz : s.pages.length < USIZE_MAX) :
    CInv (s.process cop o) ∧ (s.process cop o).abs = BitSet.process op s.abs o.abs := by
  obtain ⟨hS, hv, hl⟩ := CBitSet.process_spec hr s o hs ho hsz
  have habs : (s.process cop o).abs = BitSet.process op s.abs o.abs := by
    rw [CBitSet.abs_eq (s.process cop o)]
    unfold BitSet.process
    simp only
    have hp : aview (s.process cop o).pageMap (s.process cop o).pages =
        processPages op (passthrough op).1 (passthrough op).2 s.abs.pages o.abs.pages := by
      rw [aview_eq_absView, hv, cPassthrough_eq hr,
        absView_cmerge hr _ _ _ _ (cview_ok hs.idxLt hs.pagesOk) (cview_ok ho.idxLt ho.pagesOk)]
      rfl
    rw [hl, ← sumLens_aview _ _ hS, hp]
  refine ⟨cInv_of_struct hS ?_, habs⟩
  rw [habs]
  exact BitSet.process_inv hop _ _ (CBitSet.abs_inv s hs) (CBitSet.abs_inv o ho)

theorem CBitSet.union_refines (s o : CBitSet) (hs : CInv s) (ho : CInv o) (hsz : s.pages.length < USIZE_MAX) :
    CInv (s.union o) ∧ (s.union o).abs = s.abs.union o.abs :=
  CBitSet.process_refines refines_union bitwise_union s o hs ho hsz
theorem CBitSet.intersect_refines (s o : CBitSet) (hs : CInv s) (ho : CInv o)
    (hsz : s.pages.length < USIZE_MAX) :
    CInv (s.intersect o) ∧ (s.intersect o).abs = s.abs.intersect o.abs :=
  CBitSet.process_refines refines_intersect bitwise_intersect s o hs ho hsz
theorem CBitSet.subtract_refines (s o : CBitSet) (hs : CInv s) (ho : CInv o)
    (hsz : s.pages.length < USIZE_MAX) :
    CInv (s.subtract o) ∧ (s.subtract o).abs = s.abs.subtract o.abs :=
  CBitSet.process_refines refines_subtract bitwise_subtract s o hs ho hsz
theorem CBitSet.reversedSubtract_refines (s o : CBitSet) (hs : CInv s) (ho : CInv o)
    (hsz : s.pages.length < USIZE_MAX) :
    CInv (s.reversedSubtract o) ∧ (s.reversedSubtract o).abs = s.abs.reversedSubtract o.abs :=
  CBitSet.process_refines refines_revSubtract bitwise_revSubtract s o hs ho hsz

theorem CBitSet.abs_numPages (s : CBitSet) (h : CInv s) : s.abs.pages.length = s.numPages := by
  simp [CBitSet.abs, cview, CBitSet.numPages, h.lenEq]

/-! ### `IntSet` over the concrete `BitSet` -/

def CIInv (s : CIntSet) : Prop := CInv s.set

/-- run a history on the concrete representation -/
def Hist.runC (d : Domain) : Hist → CIntSet
  | .empty => CIntSet.empty
  | .all => CIntSet.all
  | .insert h v => ((h.runC d).insert v).1
  | .remove h v => ((h.runC d).remove v).1
  | .insertRange h a b => (h.runC d).insertRange d a b
  | .removeRange h a b => (h.runC d).removeRange d a b
  | .extend h vs => (h.runC d).extend vs
  | .removeAll h vs => (h.runC d).removeAll vs
  | .invert h => (h.runC d).invert
  | .clear h => (h.runC d).clear
  | .union h o => (h.runC d).union (o.runC d)
  | .intersect h o => (h.runC d).intersect (o.runC d)
  | .subtract h o => (h.runC d).subtract (o.runC d)

/-- the machine-size side conditions of a history: iterator arguments are `u32` values (the
page-index caches start from the sentinel major `u32::MAX >> 9`-unreachable `u32::MAX`), and the
left operand of every `process` has fewer than `usize::MAX` pages (`compact` uses `usize::MAX`
as a sentinel) — both hold for every `IntSet<T>` that fits in memory. -/
def Hist.Fits (d : Domain) : Hist → Prop
  | .empty => True
  | .all => True
  | .insert h _ => h.Fits d
  | .remove h _ => h.Fits d
  | .insertRange h a b => h.Fits d ∧ ∀ v ∈ expand (d.rangeValues a b), v < 2 ^ 32
  | .removeRange h a b => h.Fits d ∧ ∀ v ∈ expand (d.rangeValues a b), v < 2 ^ 32
  | .extend h vs => h.Fits d ∧ ∀ v ∈ vs, v < 2 ^ 32
  | .removeAll h vs => h.Fits d ∧ ∀ v ∈ vs, v < 2 ^ 32
  | .invert h => h.Fits d
  | .clear h => h.Fits d
  | .union h o => h.Fits d ∧ o.Fits d ∧ (h.run d).set.pages.length < USIZE_MAX
  | .intersect h o => h.Fits d ∧ o.Fits d ∧ (h.run d).set.pages.length < USIZE_MAX
  | .subtract h o => h.Fits d ∧ o.Fits d ∧ (h.run d).set.pages.length < USIZE_MAX

theorem CIntSet.abs_mk (i : Bool) (s : CBitSet) : (CIntSet.mk i s).abs = ⟨i, s.abs⟩ := rfl

theorem CIntSet.insert_refines (s : CIntSet) (v : Nat) (h : CIInv s) :
    CIInv (s.insert v).1 ∧ (s.insert v).1.abs = (s.abs.insert v).1 ∧ (s.insert v).2 = (s.abs.insert v).2 := by
  obtain ⟨i, b⟩ := s
  cases i
  · exact ⟨CBitSet.insert_inv b v h, by
      simp [CIntSet.insert, IntSet.insert, CIntSet.abs, (CBitSet.insert_abs b v h).1],
      by simp [CIntSet.insert, IntSet.insert, CIntSet.abs, (CBitSet.insert_abs b v h).2]⟩
  · exact ⟨CBitSet.remove_inv b v h, by
      simp [CIntSet.insert, IntSet.insert, CIntSet.abs, (CBitSet.remove_abs b v h).1],
      by simp [CIntSet.insert, IntSet.insert, CIntSet.abs, (CBitSet.remove_abs b v h).2]⟩

theorem CIntSet.remove_refines (s : CIntSet) (v : Nat) (h : CIInv s) :
    CIInv (s.remove v).1 ∧ (s.remove v).1.abs = (s.abs.remove v).1 ∧ (s.remove v).2 = (s.abs.remove v).2 := by
  obtain ⟨i, b⟩ := s
  cases i
  · exact ⟨CBitSet.remove_inv b v h, by
      simp [CIntSet.remove, IntSet.remove, CIntSet.abs, (CBitSet.remove_abs b v h).1],
      by simp [CIntSet.remove, IntSet.remove, CIntSet.abs, (CBitSet.remove_abs b v h).2]⟩
  · exact ⟨CBitSet.insert_inv b v h, by
      simp [CIntSet.remove, IntSet.remove, CIntSet.abs, (CBitSet.insert_abs b v h).1],
      by simp [CIntSet.remove, IntSet.remove, CIntSet.abs, (CBitSet.insert_abs b v h).2]⟩

theorem CIntSet.extend_refines (s : CIntSet) (vs : List Nat) (h : CIInv s) (hv : ∀ v ∈ vs, v < 2 ^ 32) :
    CIInv (s.extend vs) ∧ (s.extend vs).abs = s.abs.extend vs := by
  obtain ⟨i, b⟩ := s
  cases i
  · exact ⟨CBitSet.extend_inv b vs h hv, by
      simp [CIntSet.extend, IntSet.extend, CIntSet.abs, CBitSet.extend_abs b vs h hv]⟩
  · exact ⟨CBitSet.removeAll_inv b vs h hv, by
      simp [CIntSet.extend, IntSet.extend, CIntSet.abs, CBitSet.removeAll_abs b vs h hv]⟩

theorem CIntSet.extendUnsorted_refines (s : CIntSet) (vs : List Nat) (h : CIInv s)
    (hv : ∀ v ∈ vs, v < 2 ^ 32) :
    CIInv (s.extendUnsorted vs) ∧ (s.extendUnsorted vs).abs = s.abs.extend vs := by
  obtain ⟨i, b⟩ := s
  cases i
  · exact ⟨CBitSet.extendUnsorted_inv b vs h, by
      simp [CIntSet.extendUnsorted, IntSet.extend, CIntSet.abs, CBitSet.extendUnsorted_abs b vs h]⟩
  · exact ⟨CBitSet.removeAll_inv b vs h hv, by
      simp [CIntSet.extendUnsorted, IntSet.extend, CIntSet.abs, CBitSet.removeAll_abs b vs h hv]⟩

theorem CIntSet.removeAll_refines (s : CIntSet) (vs : List Nat) (h : CIInv s) (hv : ∀ v ∈ vs, v < 2 ^ 32) :
    CIInv (s.removeAll vs) ∧ (s.removeAll vs).abs = s.abs.removeAll vs := by
  obtain ⟨i, b⟩ := s
  cases i
  · exact ⟨CBitSet.removeAll_inv b vs h hv, by
      simp [CIntSet.removeAll, IntSet.removeAll, CIntSet.abs, CBitSet.removeAll_abs b vs h hv]⟩
  · exact ⟨CBitSet.extend_inv b vs h hv, by
      simp [CIntSet.removeAll, IntSet.removeAll, CIntSet.abs, CBitSet.extend_abs b vs h hv]⟩

theorem CIntSet.insertRange_refines (d : Domain) (s : CIntSet) (a b : Nat) (h : CIInv s)
    (hv : ∀ v ∈ expand (d.rangeValues a b), v < 2 ^ 32) :
    CIInv (s.insertRange d a b) ∧ (s.insertRange d a b).abs = s.abs.insertRange d a b := by
  obtain ⟨i, bs⟩ := s
  cases hc : d.continuous <;> cases i
  · exact ⟨by simp [CIntSet.insertRange, hc, CIInv]; exact CBitSet.extend_inv bs _ h hv, by
      simp [CIntSet.insertRange, IntSet.insertRange, CIntSet.abs, hc, CBitSet.extend_abs bs _ h hv]⟩
  · exact ⟨by simp [CIntSet.insertRange, hc, CIInv]; exact CBitSet.removeAll_inv bs _ h hv, by
      simp [CIntSet.insertRange, IntSet.insertRange, CIntSet.abs, hc, CBitSet.removeAll_abs bs _ h hv]⟩
  · exact ⟨by simp [CIntSet.insertRange, hc, CIInv]; exact CBitSet.insertRange_inv bs a b h, by
      simp [CIntSet.insertRange, IntSet.insertRange, CIntSet.abs, hc, CBitSet.insertRange_abs bs a b h]⟩
  · exact ⟨by simp [CIntSet.insertRange, hc, CIInv]; exact CBitSet.removeRange_inv bs a b h, by
      simp [CIntSet.insertRange, IntSet.insertRange, CIntSet.abs, hc, CBitSet.removeRange_abs bs a b h]⟩

theorem CIntSet.removeRange_refines (d : Domain) (s : CIntSet) (a b : Nat) (h : CIInv s)
    (hv : ∀ v ∈ expand (d.rangeValues a b), v < 2 ^ 32) :
    CIInv (s.removeRange d a b) ∧ (s.removeRange d a b).abs = s.abs.removeRange d a b := by
  obtain ⟨i, bs⟩ := s
  cases hc : d.continuous <;> cases i
  · exact ⟨by simp [CIntSet.removeRange, hc, CIInv]; exact CBitSet.removeAll_inv bs _ h hv, by
      simp [CIntSet.removeRange, IntSet.removeRange, CIntSet.abs, hc, CBitSet.removeAll_abs bs _ h hv]⟩
  · exact ⟨by simp [CIntSet.removeRange, hc, CIInv]; exact CBitSet.extend_inv bs _ h hv, by
      simp [CIntSet.removeRange, IntSet.removeRange, CIntSet.abs, hc, CBitSet.extend_abs bs _ h hv]⟩
  · exact ⟨by simp [CIntSet.removeRange, hc, CIInv]; exact CBitSet.removeRange_inv bs a b h, by
      simp [CIntSet.removeRange, IntSet.removeRange, CIntSet.abs, hc, CBitSet.removeRange_abs bs a b h]⟩
  · exact ⟨by simp [CIntSet.removeRange, hc, CIInv]; exact CBitSet.insertRange_inv bs a b h, by
      simp [CIntSet.removeRange, IntSet.removeRange, CIntSet.abs, hc, CBitSet.insertRange_abs bs a b h]⟩

theorem CIntSet.union_refines (a b : CIntSet) (ha : CIInv a) (hb : CIInv b)
    (hsz : a.set.pages.length < USIZE_MAX) :
    CIInv (a.union b) ∧ (a.union b).abs = a.abs.union b.abs := by
  obtain ⟨i, x⟩ := a
  obtain ⟨j, y⟩ := b
  cases i <;> cases j
  · have := CBitSet.union_refines x y ha hb hsz
    exact ⟨this.1, by simp [CIntSet.union, IntSet.union, CIntSet.abs, this.2]⟩
  · have := CBitSet.reversedSubtract_refines x y ha hb hsz
    exact ⟨this.1, by simp [CIntSet.union, IntSet.union, CIntSet.abs, CIntSet.invert, IntSet.invert, this.2]⟩
  · have := CBitSet.subtract_refines x y ha hb hsz
    exact ⟨this.1, by simp [CIntSet.union, IntSet.union, CIntSet.abs, this.2]⟩
  · have := CBitSet.intersect_refines x y ha hb hsz
    exact ⟨this.1, by simp [CIntSet.union, IntSet.union, CIntSet.abs, this.2]⟩

theorem CIntSet.intersect_refines (a b : CIntSet) (ha : CIInv a) (hb : CIInv b)
    (hsz : a.set.pages.length < USIZE_MAX) :
    CIInv (a.intersect b) ∧ (a.intersect b).abs = a.abs.intersect b.abs := by
  obtain ⟨i, x⟩ := a
  obtain ⟨j, y⟩ := b
  cases i <;> cases j
  · have := CBitSet.intersect_refines x y ha hb hsz
    exact ⟨this.1, by simp [CIntSet.intersect, IntSet.intersect, CIntSet.abs, this.2]⟩
  · have := CBitSet.subtract_refines x y ha hb hsz
    exact ⟨this.1, by simp [CIntSet.intersect, IntSet.intersect, CIntSet.abs, this.2]⟩
  · have := CBitSet.reversedSubtract_refines x y ha hb hsz
    exact ⟨this.1, by
      simp [CIntSet.intersect, IntSet.intersect, CIntSet.abs, CIntSet.invert, IntSet.invert, this.2]⟩
  · have := CBitSet.union_refines x y ha hb hsz
    exact ⟨this.1, by simp [CIntSet.intersect, IntSet.intersect, CIntSet.abs, this.2]⟩

theorem CIntSet.subtract_refines (a b : CIntSet) (ha : CIInv a) (hb : CIInv b)
    (hsz : a.set.pages.length < USIZE_MAX) :
    CIInv (a.subtract b) ∧ (a.subtract b).abs = a.abs.subtract b.abs := by
  obtain ⟨i, x⟩ := a
  obtain ⟨j, y⟩ := b
  cases i <;> cases j
  · have := CBitSet.subtract_refines x y ha hb hsz
    exact ⟨this.1, by simp [CIntSet.subtract, IntSet.subtract, CIntSet.abs, this.2]⟩
  · have := CBitSet.intersect_refines x y ha hb hsz
    exact ⟨this.1, by simp [CIntSet.subtract, IntSet.subtract, CIntSet.abs, this.2]⟩
  · have := CBitSet.union_refines x y ha hb hsz
    exact ⟨this.1, by simp [CIntSet.subtract, IntSet.subtract, CIntSet.abs, this.2]⟩
  · have := CBitSet.reversedSubtract_refines x y ha hb hsz
    exact ⟨this.1, by
      simp [CIntSet.subtract, IntSet.subtract, CIntSet.abs, CIntSet.invert, IntSet.invert, this.2]⟩

theorem CIntSet.contains_refines (s : CIntSet) (v : Nat) (h : CIInv s) : s.contains v = s.abs.contains v := by
  unfold CIntSet.contains IntSet.contains CIntSet.abs
  rw [CBitSet.contains_abs s.set v h]

/-- any history, run on the concrete representation, keeps the representation invariant and
abstracts to the run on the abstract model -/
theorem Hist.runC_refines (d : Domain) (h : Hist) (hf : h.Fits d) :
    CIInv (h.runC d) ∧ (h.runC d).abs = h.run d := by
  induction h with
  | empty => exact ⟨cInv_empty, rfl⟩
  | all => exact ⟨cInv_empty, rfl⟩
  | insert h v ih =>
    obtain ⟨i1, i2⟩ := ih hf
    have := CIntSet.insert_refines _ v i1
    exact ⟨this.1, by simp only [Hist.runC, Hist.run]; rw [this.2.1, i2]⟩
  | remove h v ih =>
    obtain ⟨i1, i2⟩ := ih hf
    have := CIntSet.remove_refines _ v i1
    exact ⟨this.1, by simp only [Hist.runC, Hist.run]; rw [this.2.1, i2]⟩
  | insertRange h a b ih =>
    obtain ⟨i1, i2⟩ := ih hf.1
    have := CIntSet.insertRange_refines d _ a b i1 hf.2
    exact ⟨this.1, by simp only [Hist.runC, Hist.run]; rw [this.2, i2]⟩
  | removeRange h a b ih =>
    obtain ⟨i1, i2⟩ := ih hf.1
    have := CIntSet.removeRange_refines d _ a b i1 hf.2
    exact ⟨this.1, by simp only [Hist.runC, Hist.run]; rw [this.2, i2]⟩
  | extend h vs ih =>
    obtain ⟨i1, i2⟩ := ih hf.1
    have := CIntSet.extend_refines _ vs i1 hf.2
    exact ⟨this.1, by simp only [Hist.runC, Hist.run]; rw [this.2, i2]⟩
  | removeAll h vs ih =>
    obtain ⟨i1, i2⟩ := ih hf.1
    have := CIntSet.removeAll_refines _ vs i1 hf.2
    exact ⟨this.1, by simp only [Hist.runC, Hist.run]; rw [this.2, i2]⟩
  | invert h ih =>
    obtain ⟨i1, i2⟩ := ih hf
    exact ⟨i1, by simp only [Hist.runC, Hist.run, CIntSet.invert, IntSet.invert, CIntSet.abs] at i2 ⊢; rw [← i2]⟩
  | clear h ih => exact ⟨cInv_empty, rfl⟩
  | union h o ih1 ih2 =>
    obtain ⟨i1, i2⟩ := ih1 hf.1
    obtain ⟨j1, j2⟩ := ih2 hf.2.1
    have hsz : (h.runC d).set.pages.length < USIZE_MAX := by
      have := CBitSet.abs_numPages _ i1
      have h3 := hf.2.2
      rw [← i2] at h3
      simp only [CIntSet.abs, CBitSet.numPages] at this h3
      omega
    have := CIntSet.union_refines _ _ i1 j1 hsz
    exact ⟨this.1, by simp only [Hist.runC, Hist.run]; rw [this.2, i2, j2]⟩
  | intersect h o ih1 ih2 =>
    obtain ⟨i1, i2⟩ := ih1 hf.1
    obtain ⟨j1, j2⟩ := ih2 hf.2.1
    have hsz : (h.runC d).set.pages.length < USIZE_MAX := by
      have := CBitSet.abs_numPages _ i1
      have h3 := hf.2.2
      rw [← i2] at h3
      simp only [CIntSet.abs, CBitSet.numPages] at this h3
      omega
    have := CIntSet.intersect_refines _ _ i1 j1 hsz
    exact ⟨this.1, by simp only [Hist.runC, Hist.run]; rw [this.2, i2, j2]⟩
  | subtract h o ih1 ih2 =>
    obtain ⟨i1, i2⟩ := ih1 hf.1
    obtain ⟨j1, j2⟩ := ih2 hf.2.1
    have hsz : (h.runC d).set.pages.length < USIZE_MAX := by
      have := CBitSet.abs_numPages _ i1
      have h3 := hf.2.2
      rw [← i2] at h3
      simp only [CIntSet.abs, CBitSet.numPages] at this h3
      omega
    have := CIntSet.subtract_refines _ _ i1 j1 hsz
    exact ⟨this.1, by simp only [Hist.runC, Hist.run]; rw [this.2, i2, j2]⟩

end FontVerif.IntSet
