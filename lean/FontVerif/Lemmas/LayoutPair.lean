/-
Helper lemmas for C16: well-formed coverage tables (either format), `split_coverage` on them,
`split_off_ppf1` and the PairPos format 1 split loop, the split-point heuristic.
-/
import FontVerif.Lemmas.LayoutCov
set_option linter.unusedVariables false
namespace FontVerif.Layout

/-! ## well-formed coverage tables -/

/-- a coverage table as the builders / the splitter produce it -/
def Coverage.WF : Coverage → Prop
  | .fmt1 xs => xs.Pairwise (· < ·) ∧ ∀ x ∈ xs, x < 65536
  | .fmt2 rs => WFRanges 0 rs ∧ ∀ r ∈ rs, r.end_ < 65536

theorem Coverage.get_eq_indexIn {c : Coverage} (h : c.WF) (g : Nat) :
    c.get g = indexIn g c.glyphs := by
  cases c with
  | fmt1 xs => exact get_fmt1 h.1 h.2 g
  | fmt2 rs => exact get_fmt2 h.1 h.2 g

theorem Coverage.get_lt_length {c : Coverage} (h : c.WF) {g i : Nat} (hg : c.get g = some i) :
    i < c.glyphs.length := by
  rw [Coverage.get_eq_indexIn h] at hg
  exact (List.getElem?_eq_some_iff.mp (indexIn_some_mem hg)).1

theorem buildCoverageSorted_wf {xs : List Nat} (hs : xs.Pairwise (· < ·))
    (hb : ∀ x ∈ xs, x < 65536) :
    (buildCoverageSorted xs).WF ∧ (buildCoverageSorted xs).glyphs = xs := by
  unfold buildCoverageSorted
  have ⟨w, e, en⟩ := iterForGlyphs_spec hs
  by_cases h : shouldChooseFormat2 xs = true
  · simp only [h, ↓reduceIte]
    exact ⟨⟨w, fun r hr => hb _ (en r hr)⟩, e⟩
  · simp only [h, Bool.false_eq_true, ↓reduceIte]
    exact ⟨⟨hs, hb⟩, rfl⟩

theorem sortDedup_bound {gs : List Nat} (hb : ∀ g ∈ gs, g < 65536) :
    ∀ x ∈ sortDedup gs, x < 65536 := fun x hx => hb x (mem_sortDedup.mp hx)

/-! ## `split_coverage` -/

theorem splitCoverage_fmt1 {xs : List Nat} (hs : xs.Pairwise (· < ·)) (hb : ∀ x ∈ xs, x < 65536)
    {s e : Nat} (hse : s ≤ e) (he : e ≤ xs.length) :
    splitCoverage (.fmt1 xs) s e = some (.fmt1 ((xs.drop s).take (e - s))) ∧
    (Coverage.fmt1 ((xs.drop s).take (e - s))).WF ∧
    ∀ g, (Coverage.fmt1 ((xs.drop s).take (e - s))).get g =
      (((Coverage.fmt1 xs).get g).filter (fun i => decide (s ≤ i ∧ i < e))).map (· - s) := by
  have hsub : ((xs.drop s).take (e - s)).Sublist xs :=
    (List.take_sublist _ _).trans (List.drop_sublist s xs)
  have hs' := hs.sublist hsub
  have hb' : ∀ x ∈ (xs.drop s).take (e - s), x < 65536 := fun x hx => hb x (hsub.mem hx)
  refine ⟨?_, ⟨hs', hb'⟩, ?_⟩
  · unfold splitCoverage
    have h1 : ¬ s > e := by omega
    have h2 : ¬ e > xs.length := by omega
    simp [h1, h2]
  · intro g
    rw [get_fmt1 hs' hb', get_fmt1 hs hb, indexIn_slice (pairwise_lt_ne hs)]

/-- **split specification, either format** -/
theorem splitCoverage_spec {c : Coverage} (h : c.WF) {s e : Nat} (hse : s ≤ e)
    (he : e ≤ c.glyphs.length) :
    ∃ c', splitCoverage c s e = some c' ∧ c'.WF ∧
      ∀ g, c'.get g = ((c.get g).filter (fun i => decide (s ≤ i ∧ i < e))).map (· - s) := by
  cases c with
  | fmt1 xs =>
    have ⟨a, b, d⟩ := splitCoverage_fmt1 h.1 h.2 hse he
    exact ⟨_, a, b, d⟩
  | fmt2 rs =>
    by_cases hlt : s < e
    · obtain ⟨rs', a, b, b', d⟩ := split_fmt2_get h.1 h.2 hlt
      exact ⟨_, a, ⟨b, b'⟩, d⟩
    · have : s = e := by omega
      subst this
      have ⟨a, d⟩ := split_fmt2_empty rs s
      refine ⟨_, a, ⟨trivial, fun r hr => by cases hr⟩, fun g => ?_⟩
      rw [d g]
      cases (Coverage.fmt2 rs).get g with
      | none => rfl
      | some i =>
        have : decide (s ≤ i ∧ i < s) = false := by simp
        simp [Option.filter, this]

/-! ## PairPos format 1 -/

/-- lookup restricted to first glyphs whose coverage index lies in `[lo, hi)` -/
def PairPos1.lookupIn {V : Type} (t : PairPos1 V) (lo hi g1 g2 : Nat) : Option V :=
  match t.cov.get g1 with
  | none => none
  | some i =>
    if lo ≤ i ∧ i < hi then
      match t.pairSets[i]? with
      | none => none
      | some ps => (ps.find? (fun p => p.1 == g2)).map (·.2)
    else none

theorem splitOff_lookup {V : Type} (t : PairPos1 V) (hwf : t.cov.WF) {lo hi : Nat} (hlh : lo ≤ hi)
    (hhi : hi ≤ t.cov.glyphs.length) :
    ∃ t', splitOffPpf1 t lo hi = some t' ∧ ∀ g1 g2, t'.lookup g1 g2 = t.lookupIn lo hi g1 g2 := by
  obtain ⟨c', hc, _, hget⟩ := splitCoverage_spec hwf hlh hhi
  refine ⟨⟨c', (t.pairSets.drop lo).take (hi - lo)⟩, ?_, ?_⟩
  · unfold splitOffPpf1
    have : ¬ hi < lo := by omega
    simp [this, hc]
  · intro g1 g2
    simp only [PairPos1.lookup, PairPos1.lookupIn, hget]
    cases hg : t.cov.get g1 with
    | none => rfl
    | some i =>
      by_cases hin : lo ≤ i ∧ i < hi
      · have hf : Option.map (fun x => x - lo)
            (Option.filter (fun i => decide (lo ≤ i ∧ i < hi)) (some i)) = some (i - lo) := by
          simp [Option.filter, hin]
        have : ((t.pairSets.drop lo).take (hi - lo))[i - lo]? = t.pairSets[i]? := by
          rw [List.getElem?_take]
          have h1 : i - lo < hi - lo := by omega
          simp only [h1, ↓reduceIte, List.getElem?_drop]
          congr 1; omega
        rw [hf]
        simp only [hin, and_self, ↓reduceIte, this]
        cases t.pairSets[i]? <;> rfl
      · have hf : Option.map (fun x => x - lo)
            (Option.filter (fun i => decide (lo ≤ i ∧ i < hi)) (some i)) = none := by
          simp [Option.filter, hin]
        rw [hf]
        simp only [hin, ↓reduceIte]

/-- the last element of `prev :: pts` -/
def lastOr (prev : Nat) : List Nat → Nat
  | [] => prev
  | p :: ps => lastOr p ps

theorem le_lastOr : ∀ (pts : List Nat) (prev : Nat), (prev :: pts).Pairwise (· ≤ ·) →
    prev ≤ lastOr prev pts ∧ ∀ p ∈ pts, p ≤ lastOr prev pts := by
  intro pts
  induction pts with
  | nil => intro prev _; exact ⟨Nat.le_refl _, fun p hp => by cases hp⟩
  | cons q qs ih =>
    intro prev h
    rw [List.pairwise_cons] at h
    have ⟨a, b⟩ := ih q h.2
    have : prev ≤ q := h.1 q (List.mem_cons_self ..)
    refine ⟨by simp only [lastOr]; omega, ?_⟩
    intro p hp
    rcases List.mem_cons.mp hp with rfl | hp
    · exact a
    · exact b p hp

theorem lastOr_of_getLast? : ∀ (pts : List Nat) (prev n : Nat), pts.getLast? = some n →
    lastOr prev pts = n := by
  intro pts
  induction pts with
  | nil => intro prev n h; simp at h
  | cons q qs ih =>
    intro prev n h
    cases qs with
    | nil => simp at h; simp [lastOr, h]
    | cons r rs =>
      rw [List.getLast?_cons_cons] at h
      simp only [lastOr]
      have := ih q n h
      simpa [lastOr] using this

theorem lookupIn_split {V : Type} (t : PairPos1 V) {lo mid hi : Nat} (h1 : lo ≤ mid) (h2 : mid ≤ hi)
    (g1 g2 : Nat) :
    t.lookupIn lo hi g1 g2 =
      match t.lookupIn lo mid g1 g2 with
      | some v => some v
      | none => t.lookupIn mid hi g1 g2 := by
  simp only [PairPos1.lookupIn]
  cases hg : t.cov.get g1 with
  | none => rfl
  | some i =>
    simp only
    by_cases a : lo ≤ i ∧ i < mid
    · have b : lo ≤ i ∧ i < hi := by omega
      have c : ¬ (mid ≤ i ∧ i < hi) := by omega
      have c' : ¬ mid ≤ i := by omega
      simp only [a, b, and_self, ↓reduceIte]
      cases hps : t.pairSets[i]? with
      | none => simp [c']
      | some ps => cases hf : (ps.find? (fun p => p.1 == g2)) <;> simp [c', hf]
    · simp only [a, ↓reduceIte]
      by_cases c : mid ≤ i ∧ i < hi
      · have b : lo ≤ i ∧ i < hi := by omega
        simp [b, c]
      · have b : ¬ (lo ≤ i ∧ i < hi) := by omega
        simp [b, c]

theorem splitPpf1Go_lookup {V : Type} (t : PairPos1 V) (hwf : t.cov.WF) :
    ∀ (pts : List Nat) (prev : Nat), (prev :: pts).Pairwise (· ≤ ·) →
      lastOr prev pts ≤ t.cov.glyphs.length →
      ∃ ts, splitPpf1Go t prev pts = some ts ∧ ts.length = pts.length ∧
        ∀ g1 g2, firstMatch ts g1 g2 = t.lookupIn prev (lastOr prev pts) g1 g2 := by
  intro pts
  induction pts with
  | nil =>
    intro prev _ _
    refine ⟨[], rfl, rfl, ?_⟩
    intro g1 g2
    simp only [firstMatch, List.findSome?_nil, lastOr, PairPos1.lookupIn]
    cases t.cov.get g1 with
    | none => rfl
    | some i =>
      have : ¬ (prev ≤ i ∧ i < prev) := by omega
      simp [this]
  | cons p ps ih =>
    intro prev hpw hle
    have hpw' := (List.pairwise_cons.mp hpw)
    have hlt : prev ≤ p := hpw'.1 p (List.mem_cons_self ..)
    have ⟨hp_le, _⟩ := le_lastOr ps p hpw'.2
    simp only [lastOr] at hle ⊢
    obtain ⟨a, ha, hla⟩ := splitOff_lookup t hwf hlt (by omega)
    obtain ⟨rest, hr, hlen, hlr⟩ := ih p hpw'.2 hle
    refine ⟨a :: rest, ?_, by simp [hlen], ?_⟩
    · simp [splitPpf1Go, ha, hr]
    · intro g1 g2
      rw [lookupIn_split t hlt hp_le g1 g2]
      simp only [firstMatch, List.findSome?_cons, hla]
      cases t.lookupIn prev p g1 g2 with
      | some v => rfl
      | none => exact hlr g1 g2

theorem lookupIn_full {V : Type} (t : PairPos1 V) (hwf : t.cov.WF) (g1 g2 : Nat) :
    t.lookupIn 0 t.cov.glyphs.length g1 g2 = t.lookup g1 g2 := by
  simp only [PairPos1.lookupIn, PairPos1.lookup]
  cases hg : t.cov.get g1 with
  | none => rfl
  | some i =>
    have := Coverage.get_lt_length hwf hg
    simp only [Nat.zero_le, this, and_self, ↓reduceIte]
    cases t.pairSets[i]? <;> rfl

/-! ## the split-point heuristic -/

/-- invariant of the size loop: recorded points are strictly decreasing (the list is reversed) and
all lie before the current index -/
def PointsInv (st : Ppf1Acc) (i : Nat) : Prop :=
  st.points.Pairwise (· > ·) ∧ ∀ p ∈ st.points, p < i

theorem ppf1Step_points (cs : Nat) (st : Ppf1Acc) (i : Nat) (ps : Nat × Nat) :
    (ppf1Step cs st i ps).points = st.points ∨ (ppf1Step cs st i ps).points = i :: st.points := by
  unfold ppf1Step
  simp only [apply_ite Ppf1Acc.points]
  split <;> simp <;> omega

theorem ppf1Step_inv {cs : Nat} {st : Ppf1Acc} {i : Nat} {ps : Nat × Nat} (h : PointsInv st i) :
    PointsInv (ppf1Step cs st i ps) (i + 1) := by
  unfold PointsInv
  rcases ppf1Step_points cs st i ps with e | e <;> rw [e]
  · exact ⟨h.1, fun p hp => by have := h.2 p hp; omega⟩
  · refine ⟨List.pairwise_cons.mpr ⟨fun a ha => h.2 a ha, h.1⟩, ?_⟩
    intro p hp
    rcases List.mem_cons.mp hp with rfl | hp
    · omega
    · have := h.2 p hp; omega

theorem ppf1Loop_inv {cs : Nat} : ∀ (sizes : List (Nat × Nat)) (st : Ppf1Acc) (i : Nat),
    PointsInv st i → PointsInv (ppf1Loop cs st i sizes) (i + sizes.length) := by
  intro sizes
  induction sizes with
  | nil => intro st i h; simpa [ppf1Loop] using h
  | cons ps rest ih =>
    intro st i h
    have := ih _ (i + 1) (ppf1Step_inv (cs := cs) (ps := ps) h)
    simp only [ppf1Loop, List.length_cons]
    have e : i + 1 + rest.length = i + (rest.length + 1) := by omega
    rw [← e]; exact this

/-- points only ever get added at the current index or later -/
theorem ppf1Loop_points_ge {cs : Nat} : ∀ (sizes : List (Nat × Nat)) (st : Ppf1Acc) (i : Nat),
    ∀ p ∈ (ppf1Loop cs st i sizes).points, p ∈ st.points ∨ i ≤ p := by
  intro sizes
  induction sizes with
  | nil => intro st i p hp; exact Or.inl hp
  | cons ps rest ih =>
    intro st i p hp
    simp only [ppf1Loop] at hp
    rcases ih _ (i + 1) p hp with h | h
    · rcases ppf1Step_points cs st i ps with e | e <;> rw [e] at h
      · exact Or.inl h
      · rcases List.mem_cons.mp h with rfl | h
        · exact Or.inr (Nat.le_refl _)
        · exact Or.inl h
    · exact Or.inr (by omega)

end FontVerif.Layout
