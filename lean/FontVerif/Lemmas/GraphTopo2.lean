/-
Helper lemmas for C05 (Model/Graph.lean): on an acyclic graph all of whose objects are reachable
from the root, `sort_kahn` returns (the loop's fuel suffices and the final "cycle or something?"
check passes).
-/
import FontVerif.Model.Graph
import FontVerif.Lemmas.GraphTopo
import FontVerif.Lemmas.GraphIso3
set_option linter.unusedVariables false
set_option linter.unusedSimpArgs false
namespace FontVerif.Graph
open FontVerif

/-! ### the `removed_edges` map: counts are positive, keys sorted -/

theorem Map.keys_insert_mem {α : Type} (m : Map α) (k : Nat) (v : α) (x : Nat) (h : x ∈ (Map.insert m k v).keys) :
    x = k ∨ x ∈ m.keys := by
  obtain ⟨kv, hkv, rfl⟩ := List.mem_map.mp h
  rcases Map.mem_insert m k v kv hkv with h1 | h1
  · left; rw [h1]
  · right; exact List.mem_map.mpr ⟨kv, h1, rfl⟩

theorem Map.insert_sorted {α : Type} (m : Map α) (k : Nat) (v : α) (h : m.keys.Pairwise (· < ·)) :
    (Map.insert m k v).keys.Pairwise (· < ·) := by
  induction m with
  | nil => simp [Map.insert, Map.keys]
  | cons e rest ih =>
    obtain ⟨k', v'⟩ := e
    simp only [Map.keys, List.map_cons, List.pairwise_cons] at h
    simp only [Map.insert]
    split
    · rename_i hlt
      simp only [Map.keys, List.map_cons, List.pairwise_cons, List.mem_cons, forall_eq_or_imp]
      refine ⟨⟨hlt, fun a ha => Nat.lt_trans hlt (h.1 a ha)⟩, h.1, h.2⟩
    · split
      · rename_i heq
        subst heq
        simp only [Map.keys, List.map_cons, List.pairwise_cons]
        exact h
      · rename_i hnlt hne
        simp only [Map.keys, List.map_cons, List.pairwise_cons]
        refine ⟨?_, ih h.2⟩
        intro a ha
        rcases Map.keys_insert_mem rest k v a ha with h1 | h1
        · omega
        · exact h.1 a h1

structure RemInv (removed : Map Nat) : Prop where
  pos : ∀ c k, removed.find? c = some k → 1 ≤ k
  srt : removed.keys.Pairwise (· < ·)

theorem remInv_insert (removed : Map Nat) (t : Nat) (h : RemInv removed) :
    RemInv (removed.insert t ((removed.find? t).getD 0 + 1)) := by
  constructor
  · intro c k hk
    rw [Map.find?_insert] at hk
    split at hk
    · simp only [Option.some.injEq] at hk; omega
    · exact h.pos c k hk
  · exact Map.insert_sorted _ _ _ h.srt

theorem kahnFold_rem (G : Graph) (links : List Link) (acc : List Nat × Map Nat) (h : RemInv acc.2) :
    RemInv (links.foldl (kahnVisitLink G) acc).2 := by
  induction links generalizing acc with
  | nil => exact h
  | cons l rest ih =>
    simp only [List.foldl_cons]
    apply ih
    unfold kahnVisitLink
    simp only []
    split <;> exact remInv_insert _ _ h

theorem kahnLoop_rem (G : Graph) (fuel : Nat) (st st' : SortSt) (h : kahnLoop G fuel st = some st')
    (hinv : RemInv st.removed) : RemInv st'.removed := by
  induction fuel generalizing st with
  | zero => simp [kahnLoop] at h
  | succ n ih =>
    unfold kahnLoop at h
    split at h
    · simp only [Option.some.injEq] at h; subst h; exact hinv
    · rename_i id rest hq
      simp only [] at h
      have := kahnFold_rem G (G.obj id).links (rest, st.removed) hinv
      generalize hf : (G.obj id).links.foldl (kahnVisitLink G) (rest, st.removed) = res at h this
      obtain ⟨q, r⟩ := res
      exact ih _ h this

theorem remInv_mem_find (removed : Map Nat) (h : RemInv removed) (kv : Nat × Nat) (hm : kv ∈ removed) :
    removed.find? kv.1 = some kv.2 := by
  apply Map.find?_of_mem_nodup removed ?_ kv hm
  exact h.srt.imp (fun hlt => Nat.ne_of_lt hlt)

/-! ### the loop's fuel suffices -/

theorem nodup_subset_length (L M : List Nat) (hL : L.Nodup) (hsub : ∀ x ∈ L, x ∈ M) : L.length ≤ M.length := by
  induction L generalizing M with
  | nil => simp
  | cons x xs ih =>
    rw [List.nodup_cons] at hL
    have hx := hsub x List.mem_cons_self
    have := ih (M.erase x) hL.2 (fun y hy => by
      rw [List.mem_erase_of_ne]
      · exact hsub y (List.mem_cons_of_mem _ hy)
      · intro e; rw [e] at hy; exact hL.1 hy)
    rw [List.length_erase_of_mem hx] at this
    have hpos : 0 < M.length := List.length_pos_of_mem hx
    simp only [List.length_cons]
    omega

theorem le_sum_of_mem (xs : List Nat) (x : Nat) (h : x ∈ xs) : x ≤ xs.sum := by
  induction xs with
  | nil => simp at h
  | cons y ys ih =>
    simp only [List.sum_cons]
    rcases List.mem_cons.mp h with rfl | h
    · omega
    · have := ih h; omega

/-- everything reachable is the root or has a node (closure of the graph under its links) -/
def LinksHaveNodes (G : Graph) : Prop := ∀ x, ∀ l ∈ (G.obj x).links, hasKey G.nodes l.target = true

theorem reach_root_or_node (G : Graph) (hcl : LinksHaveNodes G) (x : Nat) (h : Reach G G.root x) :
    x = G.root ∨ hasKey G.nodes x = true := by
  cases h with
  | refl => left; rfl
  | step l _ hl => right; exact hcl _ l hl

theorem hasKey_mem_keys (ns : Map Node) (c : Nat) (h : hasKey ns c = true) : c ∈ ns.keys := by
  unfold hasKey at h
  cases hf : ns.find? c with
  | none => rw [hf] at h; simp at h
  | some v => exact Map.find?_some_mem_keys ns c v hf

theorem enum_bound (G : Graph) (hcl : LinksHaveNodes G) (queue : List Nat) (removed : Map Nat) (orderRev : List Nat)
    (h : EnumInv G queue removed orderRev) : (queue ++ orderRev).length ≤ G.nodes.length + 1 := by
  have := nodup_subset_length (queue ++ orderRev) (G.root :: G.nodes.keys) h.nodup (by
    intro x hx
    rcases reach_root_or_node G hcl x (h.reach x (List.mem_append.mp hx)) with h1 | h1
    · rw [h1]; exact List.mem_cons_self
    · exact List.mem_cons_of_mem _ (hasKey_mem_keys _ _ h1))
  simpa [Map.keys] using this

theorem kahnLoop_fuel (G : Graph) (hcl : LinksHaveNodes G) (hroot : G.indeg G.root = 0) (fuel : Nat) (st : SortSt)
    (hinv : EnumInv G st.queue st.removed st.orderRev) (hf : G.nodes.length + 2 ≤ fuel + st.orderRev.length) :
    ∃ st', kahnLoop G fuel st = some st' := by
  induction fuel generalizing st with
  | zero =>
    have := enum_bound G hcl _ _ _ hinv
    simp only [List.length_append] at this
    omega
  | succ n ih =>
    unfold kahnLoop
    split
    · exact ⟨st, rfl⟩
    · rename_i id rest hq
      simp only []
      rw [hq] at hinv
      have hsrc : Reach G G.root id := hinv.reach id (Or.inl List.mem_cons_self)
      have hstep := kahnFold_enum G (G.obj id).links (rest, st.removed) id (id :: st.orderRev) hroot
        (fun l hl => hl) hsrc (enum_pop G id rest st.removed st.orderRev hinv)
      generalize hfold : (G.obj id).links.foldl (kahnVisitLink G) (rest, st.removed) = res at hstep
      obtain ⟨queue, removed⟩ := res
      simp only []
      apply ih _ hstep
      simp only [List.length_cons]
      omega

/-! ### on an acyclic graph whose objects are all reachable, everything reachable gets processed -/

structure Acyclic (G : Graph) : Prop where
  rank : ∃ rank : Nat → Nat, ∀ x, ∀ l ∈ (G.obj x).links, rank x < rank l.target

/-- exact in-degrees -/
structure DegExact (G : Graph) : Prop where
  keys : G.objects.keys.Nodup
  deg : ∀ c, G.indeg c = if hasKey G.nodes c = true then Lto G c G.objects.keys else 0

theorem DegExact.ok {G : Graph} (h : DegExact G) : DegOK G :=
  ⟨h.keys, fun c => by rw [h.deg c]; split; left; rfl; right; rfl⟩

theorem all_processed (G : Graph) (hd : DegExact G) (hcl : LinksHaveNodes G)
    (hall : ∀ k ∈ G.objects.keys, Reach G G.root k) (rank : Nat → Nat)
    (hrank : ∀ x, ∀ l ∈ (G.obj x).links, rank x < rank l.target)
    (removed : Map Nat) (orderRev : List Nat)
    (hroot : G.root ∈ orderRev) (hnd : orderRev.Nodup)
    (hcnt : ∀ c, (removed.find? c).getD 0 = Lto G c orderRev)
    (hfull : FullIn G removed (fun x => x ∈ orderRev)) :
    ∀ n u, rank u ≤ n → Reach G G.root u → u ∈ orderRev := by
  intro n
  induction n with
  | zero =>
    intro u hr hreach
    cases hreach with
    | refl => exact hroot
    | step l _ hl => have := hrank _ l hl; omega
  | succ n ih =>
    intro u hr hreach
    cases hreach with
    | refl => exact hroot
    | @step a l hreachA hl =>
      -- all parents of the target are processed
      have hpar : ∀ p, IsParent G p l.target → p ∈ orderRev := by
        intro p hp
        obtain ⟨l', hl', ht⟩ := hp
        have hlt := hrank p l' hl'
        rw [ht] at hlt
        exact ih p (by omega) (hall p (isParent_key G p l.target ⟨l', hl', ht⟩))
      have hlto := lto_all G l.target orderRev hnd hd.keys hpar
      have hkey : hasKey G.nodes l.target = true := hcl a l hl
      have hdeg : G.indeg l.target = Lto G l.target G.objects.keys := by rw [hd.deg, if_pos hkey]
      have hpos : 1 ≤ Lto G l.target orderRev := by
        have ha := hpar a ⟨l, hl, rfl⟩
        have : linksTo G l.target a ≠ 0 := (linksTo_pos_iff G l.target a).mpr ⟨l, hl, rfl⟩
        have hle : linksTo G l.target a ≤ Lto G l.target orderRev := by
          unfold Lto
          exact le_sum_of_mem _ _ (List.mem_map.mpr ⟨a, ha, rfl⟩)
        omega
      have hc := hcnt l.target
      cases hf : removed.find? l.target with
      | none => rw [hf] at hc; simp at hc; omega
      | some k =>
        rw [hf] at hc
        simp only [Option.getD_some] at hc
        exact hfull l.target k hf (by omega)

/-! ### `sort_kahn` returns -/

theorem kahnLoop_keeps (G : Graph) (fuel : Nat) (st st' : SortSt) (h : kahnLoop G fuel st = some st')
    (hinv : KahnInv G st.queue st.removed st.orderRev) (x : Nat) (hx : x ∈ st.queue ∨ x ∈ st.orderRev) :
    x ∈ st'.orderRev := by
  induction fuel generalizing st with
  | zero => simp [kahnLoop] at h
  | succ n ih =>
    unfold kahnLoop at h
    split at h
    · rename_i hq
      simp only [Option.some.injEq] at h
      subst h
      rw [hq] at hx
      simpa using hx
    · rename_i id rest hq
      simp only [] at h
      rw [hq] at hinv hx
      have hstep := kahnStep_inv G id rest st.removed st.orderRev hinv
      have hfull0 : FullIn G (rest, st.removed).2 (fun y => y ∈ (rest, st.removed).1 ∨ (y ∈ id :: st.orderRev)) := by
        intro y c hc hci
        rcases hinv.full y c hc hci with hy | hy
        · rcases List.mem_cons.mp hy with rfl | hy
          · right; exact List.mem_cons_self
          · left; exact hy
        · right; exact List.mem_cons_of_mem _ hy
      obtain ⟨f1, _, _, _⟩ := kahnFold_spec G (G.obj id).links (rest, st.removed) (fun y => y ∈ id :: st.orderRev) hfull0
      generalize hfold : (G.obj id).links.foldl (kahnVisitLink G) (rest, st.removed) = res at h hstep f1
      obtain ⟨queue, removed⟩ := res
      simp only [] at h
      apply ih _ h hstep
      simp only [] at f1 ⊢
      rcases hx with hx | hx
      · rcases List.mem_cons.mp hx with rfl | hx
        · right; exact List.mem_cons_self
        · left; exact f1 x hx
      · right; exact List.mem_cons_of_mem _ hx

theorem exists_of_sum_pos (xs : List Nat) (h : 1 ≤ xs.sum) : ∃ x ∈ xs, x ≠ 0 := by
  induction xs with
  | nil => simp at h
  | cons y ys ih =>
    simp only [List.sum_cons] at h
    by_cases hy : y = 0
    · obtain ⟨x, hx, hne⟩ := ih (by omega)
      exact ⟨x, List.mem_cons_of_mem _ hx, hne⟩
    · exact ⟨y, List.mem_cons_self, hy⟩

theorem hasKey_updateParents (g : Graph) (c : Nat) : hasKey (updateParents g).nodes c = hasKey g.nodes c := by
  unfold updateParents
  split
  · rfl
  · simp only []
    rw [(updParents_outer_len g.objects _ c).1]
    unfold hasKey
    rw [Map.find?_mapVal g.nodes (fun n => { n with parents := [] })]
    cases g.nodes.find? c <;> rfl

/-- the loop of `sort_kahn` on a graph with exact in-degrees, closed under links, acyclic, all of
whose objects are reachable: it terminates within its fuel and the cycle check passes -/
theorem kahn_returns_core (G : Graph) (hd : DegExact G) (hcl : LinksHaveNodes G) (hroot : G.indeg G.root = 0)
    (hnop : ∀ p, ¬ IsParent G p G.root)
    (hall : ∀ k ∈ G.objects.keys, Reach G G.root k) (hac : Acyclic G) :
    ∃ st, kahnLoop G (G.nodes.length + 2)
        { queue := [G.root], removed := [], orderRev := [], nodes := G.nodes, pos := 0 } = some st ∧
      cycleCheck G st.removed = true := by
  obtain ⟨rank, hrank⟩ := hac.rank
  obtain ⟨st, hloop⟩ := kahnLoop_fuel G hcl hroot (G.nodes.length + 2)
    { queue := [G.root], removed := [], orderRev := [], nodes := G.nodes, pos := 0 } (enum_init G []) (by simp)
  refine ⟨st, hloop, ?_⟩
  have hinv0 : KahnInv G [G.root] [] [] := by
    constructor
    · intro id c hc; simp [Map.find?] at hc
    · intro id hid; simp at hid
  obtain ⟨hk, hq, _⟩ := kahnLoop_inv G _ _ _ hloop hinv0
  have ht := kahnLoop_topo G hd.ok hroot _ _ _ hloop (topo_init G hroot hd.ok hnop)
  have hr := kahnLoop_rem G _ _ _ hloop ⟨by intro c k h; simp [Map.find?] at h, by simp [Map.keys]⟩
  have hrootin := kahnLoop_keeps G _ _ _ hloop hinv0 G.root (Or.inl List.mem_cons_self)
  have hnd : st.orderRev.Nodup := (List.nodup_append.mp ht.enum.nodup).2.1
  have hfull : FullIn G st.removed (fun x => x ∈ st.orderRev) := by
    intro x c hc hci
    rcases hk.full x c hc hci with h | h
    · rw [hq] at h; simp at h
    · exact h
  have hproc := all_processed G hd hcl hall rank hrank st.removed st.orderRev hrootin hnd ht.cnt hfull
  unfold cycleCheck
  rw [List.all_eq_true]
  intro kv hkv
  simp only [decide_eq_true_eq]
  have hfind := remInv_mem_find st.removed hr kv hkv
  have hpos := hr.pos kv.1 kv.2 hfind
  have hc := ht.cnt kv.1
  rw [hfind] at hc
  simp only [Option.getD_some] at hc
  -- kv.1 has a processed parent, hence a node
  have hpos' : 1 ≤ (st.orderRev.map (linksTo G kv.1)).sum := by
    have : Lto G kv.1 st.orderRev = (st.orderRev.map (linksTo G kv.1)).sum := rfl
    omega
  obtain ⟨y, hy, hyne⟩ := exists_of_sum_pos _ hpos'
  obtain ⟨a, ha, rfl⟩ := List.mem_map.mp hy
  obtain ⟨l, hl, hlt⟩ := (linksTo_pos_iff G kv.1 a).mp hyne
  have hkey : hasKey G.nodes kv.1 = true := by rw [← hlt]; exact hcl a l hl
  have hpar : ∀ p, IsParent G p kv.1 → p ∈ st.orderRev :=
    fun p hp => hproc (rank p) p (Nat.le_refl _) (hall p (isParent_key G p kv.1 hp))
  rw [hd.deg, if_pos hkey, hc]
  exact lto_all G kv.1 st.orderRev hnd hd.keys hpar

/-! ### inputs: acyclic object maps, every object reachable -/

/-- what `TableWriter`/`ObjectStore` hand to `Graph::from_objects`: distinct ids, every link target
is an object, the link relation is acyclic (there is a rank that strictly increases along every
link), and every object is reachable from the root -/
structure GoodInput (objs : Map Obj) (root : Nat) : Prop where
  keys : objs.keys.Nodup
  closed : ∀ kv ∈ objs, ∀ l ∈ kv.2.links, l.target ∈ objs.keys
  reach : ∀ k ∈ objs.keys, Reach (Graph.fromObjects objs root) root k
  acyclic : ∃ rank : Nat → Nat, ∀ kv ∈ objs, ∀ l ∈ kv.2.links, rank kv.1 < rank l.target

theorem obj_links_mem (objs : Map Obj) (root x : Nat) (l : Link)
    (hl : l ∈ ((Graph.fromObjects objs root).obj x).links) : ∃ o, (x, o) ∈ objs ∧ l ∈ o.links := by
  unfold Graph.obj at hl
  cases hf : (Graph.fromObjects objs root).objects.find? x with
  | none => rw [hf] at hl; exact absurd hl List.not_mem_nil
  | some o => rw [hf] at hl; exact ⟨o, Map.find?_mem objs x o hf, hl⟩

theorem reach_rank (G : Graph) (rank : Nat → Nat) (hrank : ∀ x, ∀ l ∈ (G.obj x).links, rank x < rank l.target)
    (a b : Nat) (h : Reach G a b) : rank a ≤ rank b := by
  induction h with
  | refl => exact Nat.le_refl _
  | step l _ hl ih => have := hrank _ l hl; omega

theorem GoodInput.noroot {objs : Map Obj} {root : Nat} (h : GoodInput objs root) :
    ∀ kv ∈ objs, ∀ l ∈ kv.2.links, l.target ≠ root := by
  obtain ⟨rank, hrank⟩ := h.acyclic
  intro kv hkv l hl he
  have hrank' : ∀ x, ∀ l ∈ ((Graph.fromObjects objs root).obj x).links, rank x < rank l.target := by
    intro x l hl
    obtain ⟨o, ho, hlo⟩ := obj_links_mem objs root x l hl
    exact hrank (x, o) ho l hlo
  have h1 := reach_rank _ rank hrank' root kv.1 (h.reach kv.1 (List.mem_map.mpr ⟨kv, hkv, rfl⟩))
  have h2 := hrank kv hkv l hl
  rw [he] at h2
  omega

theorem hasKey_fromObjects (objs : Map Obj) (root c : Nat) (h : c ∈ objs.keys) :
    hasKey (Graph.fromObjects objs root).nodes c = true := by
  unfold hasKey Graph.fromObjects
  simp only []
  rw [Map.find?_mapVal2 objs (fun o => Node.new o.size)]
  obtain ⟨kv, hkv, rfl⟩ := List.mem_map.mp h
  have := Map.mem_find?_isSome objs kv hkv
  cases hf : objs.find? kv.1 with
  | none => exact absurd hf this
  | some o => rfl

/-- the facts the loops need, for any graph with the objects, root, node ids and in-degrees of
`update_parents (from_objects objs root)` -/
theorem good_facts (objs : Map Obj) (root : Nat) (h : GoodInput objs root) (G : Graph)
    (hobj : G.objects = objs) (hr : G.root = root)
    (hkeys : ∀ c, hasKey G.nodes c = hasKey (Graph.fromObjects objs root).nodes c)
    (hdeg : ∀ c, G.indeg c = (updateParents (Graph.fromObjects objs root)).indeg c) :
    DegExact G ∧ LinksHaveNodes G ∧ G.indeg G.root = 0 ∧ (∀ p, ¬ IsParent G p G.root) ∧
      (∀ k ∈ G.objects.keys, Reach G G.root k) ∧ Acyclic G := by
  have hobj' : G.objects = (Graph.fromObjects objs root).objects := hobj
  have hlinks : ∀ x l, l ∈ (G.obj x).links → ∃ o, (x, o) ∈ objs ∧ l ∈ o.links := by
    intro x l hl
    rw [obj_congr _ G hobj'] at hl
    exact obj_links_mem objs root x l hl
  refine ⟨⟨by rw [hobj]; exact h.keys, ?_⟩, ?_, ?_, ?_, ?_, ?_⟩
  · intro c
    rw [hdeg c, updateParents_indeg _ rfl h.keys c, hkeys c, hobj', lto_congr _ G hobj']
  · intro x l hl
    obtain ⟨o, ho, hlo⟩ := hlinks x l hl
    rw [hkeys]
    exact hasKey_fromObjects objs root _ (h.closed (x, o) ho l hlo)
  · rw [hdeg, hr]
    exact updateParents_indeg_zero _ root rfl h.noroot
  · intro p hp
    obtain ⟨l, hl, ht⟩ := hp
    obtain ⟨o, ho, hlo⟩ := hlinks p l hl
    rw [hr] at ht
    exact h.noroot (p, o) ho l hlo ht
  · intro k hk
    rw [hobj] at hk
    rw [hr]
    exact reach_congr G (Graph.fromObjects objs root) hobj'.symm root k (h.reach k hk)
  · obtain ⟨rank, hrank⟩ := h.acyclic
    refine ⟨rank, ?_⟩
    intro x l hl
    obtain ⟨o, ho, hlo⟩ := hlinks x l hl
    exact hrank (x, o) ho l hlo

/-- **`sort_kahn` returns on every acyclic input all of whose objects are reachable** -/
theorem sortKahn_returns (objs : Map Obj) (root : Nat) (h : GoodInput objs root) :
    ∃ g', sortKahn (Graph.fromObjects objs root) = some g' := by
  unfold sortKahn
  split
  · exact ⟨_, rfl⟩
  · simp only []
    obtain ⟨f1, f2, f3, f4, f5, f6⟩ := good_facts objs root h (updateParents (Graph.fromObjects objs root))
      (updateParents_objects _) (updateParents_root _) (hasKey_updateParents _) (fun c => rfl)
    obtain ⟨st, hloop, hcyc⟩ := kahn_returns_core _ f1 f2 f3 f4 f5 f6
    rw [hloop]
    simp only [hcyc, ↓reduceIte]
    exact ⟨_, rfl⟩

end FontVerif.Graph
