/- C14 / IntSet helper lemmas: the iterator state machines of `Model/IntSetIterMod.lean`
(`struct Iter`, `enum RangeIter` of int_set/mod.rs) refine the sequence-level abstract model of
`Model/IntSet.lean`. -/
import FontVerif.Model.IntSetIterMod
import FontVerif.Lemmas.IntSetDisc
set_option linter.unusedVariables false
namespace FontVerif.IntSet

/-! ### unfolding `discontinuousRuns` -/

theorem dRuns_cons_in {f : Nat → Bool} {v : Nat} (vs : List Nat) (h : f v = true) :
    discontinuousRuns f (v :: vs) = discontinuousRuns f vs := by
  conv => lhs; unfold discontinuousRuns
  simp only [h, if_true]

theorem dRuns_single {f : Nat → Bool} {v : Nat} (h : f v = false) :
    discontinuousRuns f [v] = [(v, v)] := by
  conv => lhs; unfold discontinuousRuns
  simp only [h, Bool.false_eq_true, if_false]
  split
  · rename_i heq; simp at heq
  · rfl

theorem dRuns_cons_out_in {f : Nat → Bool} {v w : Nat} (t : List Nat) (h : f v = false)
    (hw : f w = true) :
    discontinuousRuns f (v :: w :: t) = (v, v) :: discontinuousRuns f (w :: t) := by
  conv => lhs; unfold discontinuousRuns
  simp only [h, Bool.false_eq_true, if_false]
  split
  · rename_i s e rest w' t' heq1 heq2
    injection heq2 with h1 h2; subst h1
    simp [hw, heq1]
  · rfl

theorem dRuns_cons_out_out {f : Nat → Bool} {v w : Nat} (t : List Nat) (h : f v = false)
    (hw : f w = false) {s e : Nat} {rest : List (Nat × Nat)}
    (hr : discontinuousRuns f (w :: t) = (s, e) :: rest) :
    discontinuousRuns f (v :: w :: t) = (v, e) :: rest := by
  conv => lhs; unfold discontinuousRuns
  simp only [h, Bool.false_eq_true, if_false]
  split
  · rename_i s' e' rest' w' t' heq1 heq2
    injection heq2 with h1 h2; subst h1
    rw [hr] at heq1
    injection heq1 with h3 h4
    injection h3 with h5 h6
    subst h6; subst h4
    simp [hw]
  · rename_i hno
    exact absurd hr (fun hr => hno s e rest w t hr rfl)

theorem dRuns_head {f : Nat → Bool} {w : Nat} (t : List Nat) (hw : f w = false) :
    ∃ e rest, discontinuousRuns f (w :: t) = (w, e) :: rest := by
  induction t generalizing w with
  | nil => exact ⟨w, [], dRuns_single hw⟩
  | cons x t ih =>
    cases hx : f x with
    | true => exact ⟨w, _, dRuns_cons_out_in t hw hx⟩
    | false =>
      obtain ⟨e, rest, he⟩ := ih hx
      exact ⟨e, rest, dRuns_cons_out_out t hw hx he⟩


/-! ### `next_discontinuous` -/

/-- what the rest of the output looks like when a call is in the middle of a run `(a, e)` -/
def extendRun (f : Nat → Bool) (cur : Nat × Nat) (L : List Nat) : List (Nat × Nat) :=
  match L with
  | [] => [cur]
  | w :: _ =>
    if f w then cur :: discontinuousRuns f L
    else match discontinuousRuns f L with
      | (_, e') :: rest => (cur.1, e') :: rest
      | [] => [cur]

theorem extendRun_nil (f : Nat → Bool) (cur : Nat × Nat) : extendRun f cur [] = [cur] := rfl

theorem extendRun_in {f : Nat → Bool} (cur : Nat × Nat) {w : Nat} (t : List Nat)
    (hw : f w = true) : extendRun f cur (w :: t) = cur :: discontinuousRuns f (w :: t) := by
  simp [extendRun, hw]

theorem extendRun_out {f : Nat → Bool} (cur : Nat × Nat) {w : Nat} (t : List Nat)
    (hw : f w = false) {s e : Nat} {rest : List (Nat × Nat)}
    (hr : discontinuousRuns f (w :: t) = (s, e) :: rest) :
    extendRun f cur (w :: t) = (cur.1, e) :: rest := by
  simp [extendRun, hw, hr]

theorem dRuns_eq_extendRun {f : Nat → Bool} {v : Nat} (L : List Nat) (h : f v = false) :
    discontinuousRuns f (v :: L) = extendRun f (v, v) L := by
  cases L with
  | nil => exact dRuns_single h
  | cons w t =>
    cases hw : f w with
    | true => rw [extendRun_in _ t hw]; exact dRuns_cons_out_in t h hw
    | false =>
      obtain ⟨e, rest, he⟩ := dRuns_head t hw
      rw [extendRun_out _ t hw he]; exact dRuns_cons_out_out t h hw he

theorem nextDiscLoop_some (f : Nat → Bool) (L : List Nat) (cur : Nat × Nat) :
    ∃ x, (nextDiscontinuousLoop f L (some cur)).1 = some x ∧
      x :: discontinuousRuns f (nextDiscontinuousLoop f L (some cur)).2 = extendRun f cur L ∧
      (nextDiscontinuousLoop f L (some cur)).2.length ≤ L.length := by
  induction L generalizing cur with
  | nil => exact ⟨cur, rfl, rfl, Nat.le_refl _⟩
  | cons w t ih =>
    cases hw : f w with
    | true =>
      refine ⟨cur, ?_, ?_, ?_⟩ <;>
        simp [nextDiscontinuousLoop, hw, extendRun_in _ t hw, dRuns_cons_in t hw]
    | false =>
      obtain ⟨x, h1, h2, h3⟩ := ih (cur.1, w)
      have hstep : nextDiscontinuousLoop f (w :: t) (some cur) =
          nextDiscontinuousLoop f t (some (cur.1, w)) := by
        simp [nextDiscontinuousLoop, hw]
      rw [hstep]
      refine ⟨x, h1, ?_, by simp; omega⟩
      rw [h2]
      -- extendRun (cur.1, w) t = extendRun cur (w :: t)
      obtain ⟨e, rest, he⟩ := dRuns_head t hw
      rw [extendRun_out cur t hw he]
      cases t with
      | nil =>
        rw [dRuns_single hw] at he
        injection he with h4 h5; injection h4 with h6 h7
        subst h7; subst h5; rfl
      | cons w' t' =>
        cases hw' : f w' with
        | true =>
          rw [dRuns_cons_out_in t' hw hw'] at he
          injection he with h4 h5; injection h4 with h6 h7
          subst h7; subst h5
          exact extendRun_in _ t' hw'
        | false =>
          obtain ⟨e', rest', he'⟩ := dRuns_head t' hw'
          rw [dRuns_cons_out_out t' hw hw' he'] at he
          injection he with h4 h5; injection h4 with h6 h7
          subst h7; subst h5
          exact extendRun_out _ t' hw' he'

theorem nextDiscLoop_none (f : Nat → Bool) (L : List Nat) :
    (discontinuousRuns f L = match (nextDiscontinuousLoop f L none).1 with
      | none => []
      | some x => x :: discontinuousRuns f (nextDiscontinuousLoop f L none).2) ∧
    ((nextDiscontinuousLoop f L none).1.isSome →
      (nextDiscontinuousLoop f L none).2.length < L.length) := by
  induction L with
  | nil => simp [nextDiscontinuousLoop, discontinuousRuns]
  | cons v t ih =>
    cases hv : f v with
    | true =>
      have hstep : nextDiscontinuousLoop f (v :: t) none = nextDiscontinuousLoop f t none := by
        simp [nextDiscontinuousLoop, hv]
      rw [hstep, dRuns_cons_in t hv]
      exact ⟨ih.1, fun h => by have := ih.2 h; simp; omega⟩
    | false =>
      have hstep : nextDiscontinuousLoop f (v :: t) none =
          nextDiscontinuousLoop f t (some (v, v)) := by
        simp [nextDiscontinuousLoop, hv]
      obtain ⟨x, h1, h2, h3⟩ := nextDiscLoop_some f t (v, v)
      rw [hstep, h1, dRuns_eq_extendRun t hv, ← h2]
      exact ⟨rfl, fun _ => by simp; omega⟩


/-! ### `InclusiveDiscontinuous` -/

/-- the items still to come from an `InclusiveDiscontinuous` state -/
def denoteInclDisc (d : Domain) (R : List (Nat × Nat)) : Option (Nat × Nat) → List (Nat × Nat)
  | none => mergeDomainAdjacent d R
  | some c => mergeDomainAdjacent.go d c R

theorem mergeDomainAdjacent_cons (d : Domain) (r : Nat × Nat) (rest : List (Nat × Nat)) :
    mergeDomainAdjacent d (r :: rest) = mergeDomainAdjacent.go d r rest := rfl

theorem nextInclDisc_spec (d : Domain) (R : List (Nat × Nat)) (cur : Option (Nat × Nat)) :
    (denoteInclDisc d R cur = match (nextInclusiveDiscontinuous d R cur).1 with
      | none => []
      | some x => x :: denoteInclDisc d (nextInclusiveDiscontinuous d R cur).2.1
          (nextInclusiveDiscontinuous d R cur).2.2) ∧
    ((nextInclusiveDiscontinuous d R cur).1.isSome →
      (nextInclusiveDiscontinuous d R cur).2.1.length +
        (nextInclusiveDiscontinuous d R cur).2.2.toList.length < R.length + cur.toList.length) := by
  induction R generalizing cur with
  | nil =>
    cases cur with
    | none => simp [nextInclusiveDiscontinuous, denoteInclDisc, mergeDomainAdjacent]
    | some c => simp [nextInclusiveDiscontinuous, denoteInclDisc, mergeGo_nil, mergeDomainAdjacent]
  | cons n rest ih =>
    cases cur with
    | none =>
      have hstep : nextInclusiveDiscontinuous d (n :: rest) none =
          nextInclusiveDiscontinuous d rest (some n) := by simp [nextInclusiveDiscontinuous]
      rw [hstep]
      have := ih (some n)
      refine ⟨?_, fun h => ?_⟩
      · rw [← this.1]; rfl
      · have := this.2 h; simp at this ⊢; omega
    | some c =>
      by_cases hadj : d.adjacent c.2 n.1 = true
      · have hstep : nextInclusiveDiscontinuous d (n :: rest) (some c) =
            nextInclusiveDiscontinuous d rest (some (c.1, n.2)) := by
          simp [nextInclusiveDiscontinuous, hadj]
        rw [hstep]
        have := ih (some (c.1, n.2))
        refine ⟨?_, fun h => ?_⟩
        · rw [← this.1]; simp [denoteInclDisc, mergeGo_cons, hadj]
        · have := this.2 h; simp at this ⊢; omega
      · have hstep : nextInclusiveDiscontinuous d (n :: rest) (some c) =
            (some c, (rest, some n)) := by
          simp [nextInclusiveDiscontinuous, hadj]
        rw [hstep]
        simp [denoteInclDisc, mergeGo_cons, hadj]

/-! ### `next_exclusive` -/

/-- no `start - 1` underflow can happen from here: the ranges are sorted and disjoint, and a range
starting at `0` does not lie entirely below `min` -/
def ExclOk (min : Nat) (R : List (Nat × Nat)) : Prop :=
  R.Pairwise (fun p q => p.2 < q.1) ∧ ∀ r ∈ R, 1 ≤ r.1 ∨ min ≤ r.2

theorem exclOk_tail {min min' : Nat} {r : Nat × Nat} {rest : List (Nat × Nat)}
    (h : ExclOk min (r :: rest)) : ExclOk min' rest := by
  obtain ⟨h1, h2⟩ := h
  rw [List.pairwise_cons] at h1
  exact ⟨h1.2, fun q hq => Or.inl (by have := h1.1 q hq; omega)⟩

theorem nextExclusiveLoop_spec (max : Nat) (R : List (Nat × Nat)) (min : Nat)
    (h : ExclOk min R) :
    ∃ item R' min' done', nextExclusiveLoop max R min = some (item, (R', min', done')) ∧
      complementRanges min max R = (match item with
        | none => []
        | some x => x :: (if done' then [] else complementRanges min' max R')) ∧
      (item = none → done' = true) ∧
      (done' = false → ExclOk min' R' ∧ R'.length < R.length) := by
  induction R generalizing min with
  | nil =>
    exact ⟨some (min, max), [], min, true, rfl, by simp [complementRanges], by simp, by simp⟩
  | cons r rest ih =>
    obtain ⟨s, e⟩ := r
    by_cases hc : s ≤ min ∧ min ≤ e
    · by_cases hm : e ≥ max
      · refine ⟨none, rest, min, true, ?_, ?_, by simp, by simp⟩
        · simp [nextExclusiveLoop, hc, hm]
        · simp [complementRanges, hc, hm]
      · obtain ⟨item, R', min', done', i1, i2, i3, i4⟩ := ih (e + 1) (exclOk_tail h)
        refine ⟨item, R', min', done', ?_, ?_, i3, fun hd => ?_⟩
        · simp only [nextExclusiveLoop, hc, hm, and_self, if_true, if_false]; exact i1
        · simp only [complementRanges, hc, hm, and_self, if_true, if_false]; exact i2
        · have := i4 hd; exact ⟨this.1, by simp; omega⟩
    · have hs : s ≠ 0 := by
        have := h.2 (s, e) (by simp)
        simp only at this
        omega
      by_cases hm : e < max
      · refine ⟨some (min, s - 1), rest, e + 1, false, ?_, ?_, by simp,
          fun _ => ⟨exclOk_tail h, by simp⟩⟩
        · simp [nextExclusiveLoop, hc, hs, hm]
        · simp [complementRanges, hc, hm]
      · refine ⟨some (min, s - 1), rest, min, true, ?_, ?_, by simp, by simp⟩
        · simp [nextExclusiveLoop, hc, hs, hm]
        · simp [complementRanges, hc, hm]


theorem nextInclDisc_none (d : Domain) (R : List (Nat × Nat)) (cur : Option (Nat × Nat))
    (h : (nextInclusiveDiscontinuous d R cur).1 = none) :
    (nextInclusiveDiscontinuous d R cur).2 = ([], none) := by
  induction R generalizing cur with
  | nil => simp [nextInclusiveDiscontinuous]
  | cons n rest ih =>
    cases cur with
    | none =>
      simp only [nextInclusiveDiscontinuous] at h ⊢
      exact ih _ h
    | some c =>
      by_cases hadj : d.adjacent c.2 n.1 = true
      · simp only [nextInclusiveDiscontinuous, hadj, if_true] at h ⊢
        exact ih _ h
      · simp [nextInclusiveDiscontinuous, hadj] at h

theorem nextDiscLoop_none_rest (f : Nat → Bool) (L : List Nat) (cur : Option (Nat × Nat))
    (h : (nextDiscontinuousLoop f L cur).1 = none) : (nextDiscontinuousLoop f L cur).2 = [] := by
  induction L generalizing cur with
  | nil => simp [nextDiscontinuousLoop]
  | cons w t ih =>
    cases hw : f w <;> cases cur <;> simp only [nextDiscontinuousLoop, hw, if_true,
      Bool.false_eq_true, if_false] at h ⊢
    · exact ih _ h
    · exact ih _ h
    · exact ih _ h
    · simp at h

/-! ### the four variants together -/

/-- the items a `RangeIter` state still has to deliver, in terms of the abstract model -/
def RangeIter.denote (d : Domain) : RangeIter → List (Nat × Nat)
  | .inclusive R => R
  | .inclusiveDiscontinuous R cur => denoteInclDisc d R cur
  | .exclusive R min max done => if done then [] else complementRanges min max R
  | .exclusiveDiscontinuous all set nv => discontinuousRuns set (nv.toList ++ all)

/-- side condition under which `next_exclusive` cannot hit the `start - 1` underflow -/
def RangeIter.Ok : RangeIter → Prop
  | .exclusive R min _ done => done = false → ExclOk min R
  | _ => True

/-- one call of `RangeIter::next`: it does not trap, delivers the head of what the state denotes
(`None` iff nothing is left), leaves a state denoting the tail, strictly decreases `size` when it
delivers, and is fused (after `None` the new state denotes nothing) -/
theorem RangeIter.next_spec (d : Domain) (it : RangeIter) (h : it.Ok) :
    ∃ item it', it.next d = some (item, it') ∧ it'.Ok ∧
      it.denote d = (match item with
        | none => []
        | some x => x :: it'.denote d) ∧
      (item.isSome → it'.size < it.size) ∧ (item = none → it'.denote d = []) := by
  cases it with
  | inclusive R =>
    cases R with
    | nil => exact ⟨none, .inclusive [], rfl, trivial, rfl, by simp, fun _ => rfl⟩
    | cons r rest =>
      exact ⟨some r, .inclusive rest, rfl, trivial, rfl, by simp [RangeIter.size], by simp⟩
  | inclusiveDiscontinuous R cur =>
    have hs := nextInclDisc_spec d R cur
    refine ⟨(nextInclusiveDiscontinuous d R cur).1, _, rfl, trivial, hs.1, hs.2, fun hn => ?_⟩
    simp only [RangeIter.denote]
    rw [nextInclDisc_none d R cur hn]
    rfl
  | exclusive R min max done =>
    cases done with
    | true =>
      exact ⟨none, .exclusive R min max true, rfl, by simp [RangeIter.Ok], rfl, by simp,
        fun _ => rfl⟩
    | false =>
      obtain ⟨item, R', min', done', i1, i2, i3, i4⟩ := nextExclusiveLoop_spec max R min (h rfl)
      refine ⟨item, .exclusive R' min' max done', ?_, ?_, ?_, ?_, ?_⟩
      · simp [RangeIter.next, i1]
      · intro hd; exact (i4 hd).1
      · simp only [RangeIter.denote, Bool.false_eq_true, if_false]; exact i2
      · intro _
        cases done' with
        | true => simp [RangeIter.size]
        | false => have := (i4 rfl).2; simp [RangeIter.size]; omega
      · intro hn; simp [RangeIter.denote, i3 hn]
  | exclusiveDiscontinuous all set nv =>
    have hs := nextDiscLoop_none set (nv.toList ++ all)
    refine ⟨(nextDiscontinuousLoop set (nv.toList ++ all) none).1, _, rfl, trivial, ?_, ?_,
      fun hn => ?_⟩
    · simpa [RangeIter.denote] using hs.1
    · intro hi; have := hs.2 hi; simp [RangeIter.size] at this ⊢; omega
    · simp only [RangeIter.denote, Option.toList_none, List.nil_append]
      rw [nextDiscLoop_none_rest set _ none hn]; rfl

/-- running a `RangeIter` until `None` (enough fuel) delivers exactly what its state denotes -/
theorem RangeIter.collectFuel_eq (d : Domain) (fuel : Nat) (it : RangeIter) (h : it.Ok)
    (hf : it.size < fuel) : RangeIter.collectFuel d fuel it = some (it.denote d) := by
  induction fuel generalizing it with
  | zero => omega
  | succ n ih =>
    obtain ⟨item, it', h1, h2, h3, h4, _⟩ := RangeIter.next_spec d it h
    cases item with
    | none => simp [RangeIter.collectFuel, h1, h3]
    | some r =>
      have := h4 rfl
      simp [RangeIter.collectFuel, h1, h3, ih it' h2 (by omega)]

theorem RangeIter.collect_eq (d : Domain) (it : RangeIter) (h : it.Ok) :
    it.collect d = some (it.denote d) :=
  RangeIter.collectFuel_eq d _ it h (Nat.lt_succ_self _)


/-! ### `iter_ranges_invertible` -/

theorem exclOk_of_rsorted {lo : Nat} {R : List (Nat × Nat)} (h : RSorted R)
    (hlo : ∀ r ∈ R, lo ≤ r.1) : ExclOk lo R :=
  ⟨h.1, fun r hr => Or.inr (by have := h.2 r hr; have := hlo r hr; omega)⟩

/-- the `RangeIter` built by `iter_ranges_invertible(inv)` exists (no `unwrap` panic), never traps
and, run to exhaustion, yields exactly `IntSet.rangesInvertible d s inv` -/
theorem IntSet.rangeIterMachine_collect {d : Domain} (hd : DomWF d) {s : IntSet} (h : IInvD d s)
    (inv : Bool) :
    ∃ it, s.rangeIterMachine d inv = some it ∧ it.Ok ∧ it.denote d = s.rangesInvertible d inv ∧
      it.collect d = some (s.rangesInvertible d inv) := by
  unfold IntSet.rangeIterMachine IntSet.rangesInvertible
  by_cases hm : s.inverted = inv
  · by_cases hc : d.continuous = true
    · simp only [hm, hc, if_true]
      exact ⟨_, rfl, trivial, rfl, RangeIter.collect_eq d _ trivial⟩
    · simp only [hm, hc, if_true, Bool.false_eq_true, if_false]
      exact ⟨_, rfl, trivial, rfl, RangeIter.collect_eq d _ trivial⟩
  · by_cases hc : d.continuous = true
    · obtain ⟨lo, hi, hr⟩ := hd.cont hc
      have hmin : d.min? = some lo := by simp [Domain.min?, hr]
      have hmax : d.max? = some hi := by simp [Domain.max?, hr]
      obtain ⟨r1, r2⟩ := BitSet.ranges_spec _ h.1
      have hb : ∀ p ∈ s.set.ranges, lo ≤ p.1 := by
        intro p hp
        have hp' := r1.2 p hp
        have h1 := h.2 p.1 ((r2 p.1).1 ⟨p, hp, Nat.le_refl _, hp'⟩)
        rw [contains_single hr] at h1
        exact h1.1
      have hok : (RangeIter.exclusive s.set.ranges lo hi false).Ok :=
        fun _ => exclOk_of_rsorted r1.rsorted hb
      simp only [hm, hc, if_true, if_false, hmin, hmax]
      exact ⟨_, rfl, hok, rfl, RangeIter.collect_eq d _ hok⟩
    · simp only [hm, hc, if_false, Bool.false_eq_true]
      exact ⟨_, rfl, trivial, rfl, RangeIter.collect_eq d _ trivial⟩

end FontVerif.IntSet
