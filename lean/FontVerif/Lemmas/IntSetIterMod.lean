/- C14 / IntSet helper lemmas: the iterator state machines of `Model/IntSetIterMod.lean`
(`struct Iter`, `enum RangeIter` of int_set/mod.rs) refine the sequence-level abstract model of
`Model/IntSet.lean`. -/
import FontVerif.Model.IntSetIterMod
import FontVerif.Lemmas.IntSetDisc
set_option linter.unusedVariables false
set_option linter.unusedSimpArgs false
namespace FontVerif.IntSet

/-! ### unfolding `discontinuousRuns` -/

theorem dRuns_cons_in {f : Nat → Bool} {v : Nat} (vs : List Nat) (h : f v = true) :
    discontinuousRuns f (v :: vs) = discontinuousRuns f vs := by
  conv => lhs; unfold discontinuousRuns
  simp only [h, if_true]

theorem dRuns_single {f : Nat → Bool} {v : Nat} (h : f v = false) :
    discontinuousRuns f [v] = [(v, v)] := by
  conv => lhs; unfold discontinuousRuns
  simp only [h, Bool.false_eq_true, if_false]
  split
  · rename_i heq; simp at heq
  · rfl

theorem dRuns_cons_out_in {f : Nat → Bool} {v w : Nat} (t : List Nat) (h : f v = false)
    (hw : f w = true) :
    discontinuousRuns f (v :: w :: t) = (v, v) :: discontinuousRuns f (w :: t) := by
  conv => lhs; unfold discontinuousRuns
  simp only [h, Bool.false_eq_true, if_false]
  split
  · rename_i s e rest w' t' heq1 heq2
    injection heq2 with h1 h2; subst h1
    simp [hw, heq1]
  · rfl

theorem dRuns_cons_out_out {f : Nat → Bool} {v w : Nat} (t : List Nat) (h : f v = false)
    (hw : f w = false) {s e : Nat} {rest : List (Nat × Nat)}
    (hr : discontinuousRuns f (w :: t) = (s, e) :: rest) :
    discontinuousRuns f (v :: w :: t) = (v, e) :: rest := by
  conv => lhs; unfold discontinuousRuns
  simp only [h, Bool.false_eq_true, if_false]
  split
  · rename_i s' e' rest' w' t' heq1 heq2
    injection heq2 with h1 h2; subst h1
    rw [hr] at heq1
    injection heq1 with h3 h4
    injection h3 with h5 h6
    subst h6; subst h4
    simp [hw]
  · rename_i hno
    exact absurd hr (fun hr => hno s e rest w t hr rfl)

theorem dRuns_head {f : Nat → Bool} {w : Nat} (t : List Nat) (hw : f w = false) :
    ∃ e rest, discontinuousRuns f (w :: t) = (w, e) :: rest := by
  induction t generalizing w with
  | nil => exact ⟨w, [], dRuns_single hw⟩
  | cons x t ih =>
    cases hx : f x with
    | true => exact ⟨w, _, dRuns_cons_out_in t hw hx⟩
    | false =>
      obtain ⟨e, rest, he⟩ := ih hx
      exact ⟨e, rest, dRuns_cons_out_out t hw hx he⟩


/-! ### `next_discontinuous` -/

/-- what the rest of the output looks like when a call is in the middle of a run `(a, e)` -/
def extendRun (f : Nat → Bool) (cur : Nat × Nat) (L : List Nat) : List (Nat × Nat) :=
  match L with
  | [] => [cur]
  | w :: _ =>
    if f w then cur :: discontinuousRuns f L
    else match discontinuousRuns f L with
      | (_, e') :: rest => (cur.1, e') :: rest
      | [] => [cur]

theorem extendRun_nil (f : Nat → Bool) (cur : Nat × Nat) : extendRun f cur [] = [cur] := rfl

theorem extendRun_in {f : Nat → Bool} (cur : Nat × Nat) {w : Nat} (t : List Nat)
    (hw : f w = true) : extendRun f cur (w :: t) = cur :: discontinuousRuns f (w :: t) := by
  simp [extendRun, hw]

theorem extendRun_out {f : Nat → Bool} (cur : Nat × Nat) {w : Nat} (t : List Nat)
    (hw : f w = false) {s e : Nat} {rest : List (Nat × Nat)}
    (hr : discontinuousRuns f (w :: t) = (s, e) :: rest) :
    extendRun f cur (w :: t) = (cur.1, e) :: rest := by
  simp [extendRun, hw, hr]

theorem dRuns_eq_extendRun {f : Nat → Bool} {v : Nat} (L : List Nat) (h : f v = false) :
    discontinuousRuns f (v :: L) = extendRun f (v, v) L := by
  cases L with
  | nil => exact dRuns_single h
  | cons w t =>
    cases hw : f w with
    | true => rw [extendRun_in _ t hw]; exact dRuns_cons_out_in t h hw
    | false =>
      obtain ⟨e, rest, he⟩ := dRuns_head t hw
      rw [extendRun_out _ t hw he]; exact dRuns_cons_out_out t h hw he

theorem nextDiscLoop_some (f : Nat → Bool) (L : List Nat) (cur : Nat × Nat) :
    ∃ x, (nextDiscontinuousLoop f L (some cur)).1 = some x ∧
      x :: discontinuousRuns f (nextDiscontinuousLoop f L (some cur)).2 = extendRun f cur L ∧
      (nextDiscontinuousLoop f L (some cur)).2.length ≤ L.length := by
  induction L generalizing cur with
  | nil => exact ⟨cur, rfl, rfl, Nat.le_refl _⟩
  | cons w t ih =>
    cases hw : f w with
    | true =>
      refine ⟨cur, ?_, ?_, ?_⟩ <;>
        simp [nextDiscontinuousLoop, hw, extendRun_in _ t hw, dRuns_cons_in t hw]
    | false =>
      obtain ⟨x, h1, h2, h3⟩ := ih (cur.1, w)
      have hstep : nextDiscontinuousLoop f (w :: t) (some cur) =
          nextDiscontinuousLoop f t (some (cur.1, w)) := by
        simp [nextDiscontinuousLoop, hw]
      rw [hstep]
      refine ⟨x, h1, ?_, by simp; omega⟩
      rw [h2]
      -- extendRun (cur.1, w) t = extendRun cur (w :: t)
      obtain ⟨e, rest, he⟩ := dRuns_head t hw
      rw [extendRun_out cur t hw he]
      cases t with
      | nil =>
        rw [dRuns_single hw] at he
        injection he with h4 h5; injection h4 with h6 h7
        subst h7; subst h5; rfl
      | cons w' t' =>
        cases hw' : f w' with
        | true =>
          rw [dRuns_cons_out_in t' hw hw'] at he
          injection he with h4 h5; injection h4 with h6 h7
          subst h7; subst h5
          exact extendRun_in _ t' hw'
        | false =>
          obtain ⟨e', rest', he'⟩ := dRuns_head t' hw'
          rw [dRuns_cons_out_out t' hw hw' he'] at he
          injection he with h4 h5; injection h4 with h6 h7
          subst h7; subst h5
          exact extendRun_out _ t' hw' he'

theorem nextDiscLoop_none (f : Nat → Bool) (L : List Nat) :
    (discontinuousRuns f L = match (nextDiscontinuousLoop f L none).1 with
      | none => []
      | some x => x :: discontinuousRuns f (nextDiscontinuousLoop f L none).2) ∧
    ((nextDiscontinuousLoop f L none).1.isSome →
      (nextDiscontinuousLoop f L none).2.length < L.length) := by
  induction L with
  | nil => simp [nextDiscontinuousLoop, discontinuousRuns]
  | cons v t ih =>
    cases hv : f v with
    | true =>
      have hstep : nextDiscontinuousLoop f (v :: t) none = nextDiscontinuousLoop f t none := by
        simp [nextDiscontinuousLoop, hv]
      rw [hstep, dRuns_cons_in t hv]
      exact ⟨ih.1, fun h => by have := ih.2 h; simp; omega⟩
    | false =>
      have hstep : nextDiscontinuousLoop f (v :: t) none =
          nextDiscontinuousLoop f t (some (v, v)) := by
        simp [nextDiscontinuousLoop, hv]
      obtain ⟨x, h1, h2, h3⟩ := nextDiscLoop_some f t (v, v)
      rw [hstep, h1, dRuns_eq_extendRun t hv, ← h2]
      exact ⟨rfl, fun _ => by simp; omega⟩


/-! ### `InclusiveDiscontinuous` -/

/-- the items still to come from an `InclusiveDiscontinuous` state -/
def denoteInclDisc (d : Domain) (R : List (Nat × Nat)) : Option (Nat × Nat) → List (Nat × Nat)
  | none => mergeDomainAdjacent d R
  | some c => mergeDomainAdjacent.go d c R

theorem mergeDomainAdjacent_cons (d : Domain) (r : Nat × Nat) (rest : List (Nat × Nat)) :
    mergeDomainAdjacent d (r :: rest) = mergeDomainAdjacent.go d r rest := rfl

theorem nextInclDisc_spec (d : Domain) (R : List (Nat × Nat)) (cur : Option (Nat × Nat)) :
    (denoteInclDisc d R cur = match (nextInclusiveDiscontinuous d R cur).1 with
      | none => []
      | some x => x :: denoteInclDisc d (nextInclusiveDiscontinuous d R cur).2.1
          (nextInclusiveDiscontinuous d R cur).2.2) ∧
    ((nextInclusiveDiscontinuous d R cur).1.isSome →
      (nextInclusiveDiscontinuous d R cur).2.1.length +
        (nextInclusiveDiscontinuous d R cur).2.2.toList.length < R.length + cur.toList.length) := by
  induction R generalizing cur with
  | nil =>
    cases cur with
    | none => simp [nextInclusiveDiscontinuous, denoteInclDisc, mergeDomainAdjacent]
    | some c => simp [nextInclusiveDiscontinuous, denoteInclDisc, mergeGo_nil, mergeDomainAdjacent]
  | cons n rest ih =>
    cases cur with
    | none =>
      have hstep : nextInclusiveDiscontinuous d (n :: rest) none =
          nextInclusiveDiscontinuous d rest (some n) := by simp [nextInclusiveDiscontinuous]
      rw [hstep]
      have := ih (some n)
      refine ⟨?_, fun h => ?_⟩
      · rw [← this.1]; rfl
      · have := this.2 h; simp at this ⊢; omega
    | some c =>
      by_cases hadj : d.adjacent c.2 n.1 = true
      · have hstep : nextInclusiveDiscontinuous d (n :: rest) (some c) =
            nextInclusiveDiscontinuous d rest (some (c.1, n.2)) := by
          simp [nextInclusiveDiscontinuous, hadj]
        rw [hstep]
        have := ih (some (c.1, n.2))
        refine ⟨?_, fun h => ?_⟩
        · rw [← this.1]; simp [denoteInclDisc, mergeGo_cons, hadj]
        · have := this.2 h; simp at this ⊢; omega
      · have hstep : nextInclusiveDiscontinuous d (n :: rest) (some c) =
            (some c, (rest, some n)) := by
          simp [nextInclusiveDiscontinuous, hadj]
        rw [hstep]
        simp [denoteInclDisc, mergeGo_cons, hadj]

/-! ### `next_exclusive` -/

/-- no `start - 1` underflow can happen from here: the ranges are sorted and disjoint, and a range
starting at `0` does not lie entirely below `min` -/
def ExclOk (min : Nat) (R : List (Nat × Nat)) : Prop :=
  R.Pairwise (fun p q => p.2 < q.1) ∧ ∀ r ∈ R, 1 ≤ r.1 ∨ min ≤ r.2

theorem exclOk_tail {min min' : Nat} {r : Nat × Nat} {rest : List (Nat × Nat)}
    (h : ExclOk min (r :: rest)) : ExclOk min' rest := by
  obtain ⟨h1, h2⟩ := h
  rw [List.pairwise_cons] at h1
  exact ⟨h1.2, fun q hq => Or.inl (by have := h1.1 q hq; omega)⟩

theorem nextExclusiveLoop_spec (max : Nat) (R : List (Nat × Nat)) (min : Nat)
    (h : ExclOk min R) :
    ∃ item R' min' done', nextExclusiveLoop max R min = some (item, (R', min', done')) ∧
      complementRanges min max R = (match item with
        | none => []
        | some x => x :: (if done' then [] else complementRanges min' max R')) ∧
      (item = none → done' = true) ∧
      (done' = false → ExclOk min' R' ∧ R'.length < R.length) := by
  induction R generalizing min with
  | nil =>
    exact ⟨some (min, max), [], min, true, rfl, by simp [complementRanges], by simp, by simp⟩
  | cons r rest ih =>
    obtain ⟨s, e⟩ := r
    by_cases hc : s ≤ min ∧ min ≤ e
    · by_cases hm : e ≥ max
      · refine ⟨none, rest, min, true, ?_, ?_, by simp, by simp⟩
        · simp [nextExclusiveLoop, hc, hm]
        · simp [complementRanges, hc, hm]
      · obtain ⟨item, R', min', done', i1, i2, i3, i4⟩ := ih (e + 1) (exclOk_tail h)
        refine ⟨item, R', min', done', ?_, ?_, i3, fun hd => ?_⟩
        · simp only [nextExclusiveLoop, hc, hm, and_self, if_true, if_false]; exact i1
        · simp only [complementRanges, hc, hm, and_self, if_true, if_false]; exact i2
        · have := i4 hd; exact ⟨this.1, by simp; omega⟩
    · have hs : s ≠ 0 := by
        have := h.2 (s, e) (by simp)
        simp only at this
        omega
      by_cases hm : e < max
      · refine ⟨some (min, s - 1), rest, e + 1, false, ?_, ?_, by simp,
          fun _ => ⟨exclOk_tail h, by simp⟩⟩
        · simp [nextExclusiveLoop, hc, hs, hm]
        · simp [complementRanges, hc, hm]
      · refine ⟨some (min, s - 1), rest, min, true, ?_, ?_, by simp, by simp⟩
        · simp [nextExclusiveLoop, hc, hs, hm]
        · simp [complementRanges, hc, hm]


theorem nextInclDisc_none (d : Domain) (R : List (Nat × Nat)) (cur : Option (Nat × Nat))
    (h : (nextInclusiveDiscontinuous d R cur).1 = none) :
    (nextInclusiveDiscontinuous d R cur).2 = ([], none) := by
  induction R generalizing cur with
  | nil => simp [nextInclusiveDiscontinuous]
  | cons n rest ih =>
    cases cur with
    | none =>
      simp only [nextInclusiveDiscontinuous] at h ⊢
      exact ih _ h
    | some c =>
      by_cases hadj : d.adjacent c.2 n.1 = true
      · simp only [nextInclusiveDiscontinuous, hadj, if_true] at h ⊢
        exact ih _ h
      · simp [nextInclusiveDiscontinuous, hadj] at h

theorem nextDiscLoop_none_rest (f : Nat → Bool) (L : List Nat) (cur : Option (Nat × Nat))
    (h : (nextDiscontinuousLoop f L cur).1 = none) : (nextDiscontinuousLoop f L cur).2 = [] := by
  induction L generalizing cur with
  | nil => simp [nextDiscontinuousLoop]
  | cons w t ih =>
    cases hw : f w <;> cases cur <;> simp only [nextDiscontinuousLoop, hw, if_true,
      Bool.false_eq_true, if_false] at h ⊢
    · exact ih _ h
    · exact ih _ h
    · exact ih _ h
    · simp at h

/-! ### the four variants together -/

/-- the items a `RangeIter` state still has to deliver, in terms of the abstract model -/
def RangeIter.denote (d : Domain) : RangeIter → List (Nat × Nat)
  | .inclusive R => R
  | .inclusiveDiscontinuous R cur => denoteInclDisc d R cur
  | .exclusive R min max done => if done then [] else complementRanges min max R
  | .exclusiveDiscontinuous all set nv => discontinuousRuns set (nv.toList ++ all)

/-- side condition under which `next_exclusive` cannot hit the `start - 1` underflow -/
def RangeIter.Ok : RangeIter → Prop
  | .exclusive R min _ done => done = false → ExclOk min R
  | _ => True

/-- one call of `RangeIter::next`: it does not trap, delivers the head of what the state denotes
(`None` iff nothing is left), leaves a state denoting the tail, strictly decreases `size` when it
delivers, and is fused (after `None` the new state denotes nothing) -/
theorem RangeIter.next_spec (d : Domain) (it : RangeIter) (h : it.Ok) :
    ∃ item it', it.next d = some (item, it') ∧ it'.Ok ∧
      it.denote d = (match item with
        | none => []
        | some x => x :: it'.denote d) ∧
      (item.isSome → it'.size < it.size) ∧ (item = none → it'.denote d = []) := by
  cases it with
  | inclusive R =>
    cases R with
    | nil => exact ⟨none, .inclusive [], rfl, trivial, rfl, by simp, fun _ => rfl⟩
    | cons r rest =>
      exact ⟨some r, .inclusive rest, rfl, trivial, rfl, by simp [RangeIter.size], by simp⟩
  | inclusiveDiscontinuous R cur =>
    have hs := nextInclDisc_spec d R cur
    refine ⟨(nextInclusiveDiscontinuous d R cur).1, _, rfl, trivial, hs.1, hs.2, fun hn => ?_⟩
    simp only [RangeIter.denote]
    rw [nextInclDisc_none d R cur hn]
    rfl
  | exclusive R min max done =>
    cases done with
    | true =>
      exact ⟨none, .exclusive R min max true, rfl, by simp [RangeIter.Ok], rfl, by simp,
        fun _ => rfl⟩
    | false =>
      obtain ⟨item, R', min', done', i1, i2, i3, i4⟩ := nextExclusiveLoop_spec max R min (h rfl)
      refine ⟨item, .exclusive R' min' max done', ?_, ?_, ?_, ?_, ?_⟩
      · simp [RangeIter.next, i1]
      · intro hd; exact (i4 hd).1
      · simp only [RangeIter.denote, Bool.false_eq_true, if_false]; exact i2
      · intro _
        cases done' with
        | true => simp [RangeIter.size]
        | false => have := (i4 rfl).2; simp [RangeIter.size]; omega
      · intro hn; simp [RangeIter.denote, i3 hn]
  | exclusiveDiscontinuous all set nv =>
    have hs := nextDiscLoop_none set (nv.toList ++ all)
    refine ⟨(nextDiscontinuousLoop set (nv.toList ++ all) none).1, _, rfl, trivial, ?_, ?_,
      fun hn => ?_⟩
    · simpa [RangeIter.denote] using hs.1
    · intro hi; have := hs.2 hi; simp [RangeIter.size] at this ⊢; omega
    · simp only [RangeIter.denote, Option.toList_none, List.nil_append]
      rw [nextDiscLoop_none_rest set _ none hn]; rfl

/-- running a `RangeIter` until `None` (enough fuel) delivers exactly what its state denotes -/
theorem RangeIter.collectFuel_eq (d : Domain) (fuel : Nat) (it : RangeIter) (h : it.Ok)
    (hf : it.size < fuel) : RangeIter.collectFuel d fuel it = some (it.denote d) := by
  induction fuel generalizing it with
  | zero => omega
  | succ n ih =>
    obtain ⟨item, it', h1, h2, h3, h4, _⟩ := RangeIter.next_spec d it h
    cases item with
    | none => simp [RangeIter.collectFuel, h1, h3]
    | some r =>
      have := h4 rfl
      simp [RangeIter.collectFuel, h1, h3, ih it' h2 (by omega)]

theorem RangeIter.collect_eq (d : Domain) (it : RangeIter) (h : it.Ok) :
    it.collect d = some (it.denote d) :=
  RangeIter.collectFuel_eq d _ it h (Nat.lt_succ_self _)


/-! ### `iter_ranges_invertible` -/

theorem exclOk_of_rsorted {lo : Nat} {R : List (Nat × Nat)} (h : RSorted R)
    (hlo : ∀ r ∈ R, lo ≤ r.1) : ExclOk lo R :=
  ⟨h.1, fun r hr => Or.inr (by have := h.2 r hr; have := hlo r hr; omega)⟩

/-- the `RangeIter` built by `iter_ranges_invertible(inv)` exists (no `unwrap` panic), never traps
and, run to exhaustion, yields exactly `IntSet.rangesInvertible d s inv` -/
theorem IntSet.rangeIterMachine_collect {d : Domain} (hd : DomWF d) {s : IntSet} (h : IInvD d s)
    (inv : Bool) :
    ∃ it, s.rangeIterMachine d inv = some it ∧ it.Ok ∧ it.denote d = s.rangesInvertible d inv ∧
      it.collect d = some (s.rangesInvertible d inv) := by
  unfold IntSet.rangeIterMachine IntSet.rangesInvertible
  by_cases hm : s.inverted = inv
  · by_cases hc : d.continuous = true
    · simp only [hm, hc, if_true]
      exact ⟨_, rfl, trivial, rfl, RangeIter.collect_eq d _ trivial⟩
    · simp only [hm, hc, if_true, Bool.false_eq_true, if_false]
      exact ⟨_, rfl, trivial, rfl, RangeIter.collect_eq d _ trivial⟩
  · by_cases hc : d.continuous = true
    · obtain ⟨lo, hi, hr⟩ := hd.cont hc
      have hmin : d.min? = some lo := by simp [Domain.min?, hr]
      have hmax : d.max? = some hi := by simp [Domain.max?, hr]
      obtain ⟨r1, r2⟩ := BitSet.ranges_spec _ h.1
      have hb : ∀ p ∈ s.set.ranges, lo ≤ p.1 := by
        intro p hp
        have hp' := r1.2 p hp
        have h1 := h.2 p.1 ((r2 p.1).1 ⟨p, hp, Nat.le_refl _, hp'⟩)
        rw [contains_single hr] at h1
        exact h1.1
      have hok : (RangeIter.exclusive s.set.ranges lo hi false).Ok :=
        fun _ => exclOk_of_rsorted r1.rsorted hb
      simp only [hm, hc, if_true, if_false, hmin, hmax]
      exact ⟨_, rfl, hok, rfl, RangeIter.collect_eq d _ hok⟩
    · simp only [hm, hc, if_false, Bool.false_eq_true]
      exact ⟨_, rfl, trivial, rfl, RangeIter.collect_eq d _ trivial⟩

/-! ## (A) `struct Iter` -/

/-! ### the direction-generic skip loop -/

/-- `Iter::next` / `Iter::next_back` loop with the comparison abstracted: `lt index skip` means
"`index` comes before `skip` in the direction of travel" -/
def genLoop (lt : Nat → Nat → Bool) (opp : Option Nat) :
    List Nat → List Nat → Option Nat → Option Nat × (List Nat × List Nat × Option Nat)
  | [], sv, f => (none, ([], sv, f))
  | index :: all, sv, none =>
    if opp = some index then genLoop lt opp all sv none
    else (some index, (all, sv, none))
  | index :: all, sv, some skip =>
    if lt index skip then (some index, (all, sv, some skip))
    else
      if lt skip index then genLoop lt opp (index :: all) sv.tail sv.head?
      else genLoop lt opp all sv.tail sv.head?
termination_by all sv f => (all.length, sv.length + (if f.isSome then 1 else 0))
decreasing_by
  · simp_wf; exact Prod.Lex.left _ _ (by omega)
  · simp_wf
    apply Prod.Lex.right
    cases sv <;> simp
  · simp_wf; exact Prod.Lex.left _ _ (by omega)

theorem nextLoop_eq_genLoop (bwd : Option Nat) (all sv : List Nat) (f : Option Nat) :
    Iter.nextLoop bwd all sv f = genLoop (fun a b => decide (a < b)) bwd all sv f := by
  fun_induction Iter.nextLoop bwd all sv f <;> rw [genLoop]
  case case5 ih =>
    simp only [decide_eq_true_eq]
    rw [if_neg (by omega), if_pos (by omega)]; exact ih
  case case6 ih =>
    simp only [decide_eq_true_eq]
    rw [if_neg (by omega), if_neg (by omega)]; exact ih
  all_goals simp_all

theorem nextBackLoop_eq_genLoop (fwd : Option Nat) (all sv : List Nat) (b : Option Nat) :
    Iter.nextBackLoop fwd all sv b = genLoop (fun a b => decide (a > b)) fwd all sv b := by
  fun_induction Iter.nextBackLoop fwd all sv b <;> rw [genLoop]
  case case5 ih =>
    simp only [decide_eq_true_eq]
    rw [if_neg (by omega), if_pos (by omega)]; exact ih
  case case6 ih =>
    simp only [decide_eq_true_eq]
    rw [if_neg (by omega), if_neg (by omega)]; exact ih
  all_goals simp_all


/-- `lt` is a strict total order (as a `Bool` relation) -/
structure STO (lt : Nat → Nat → Bool) : Prop where
  irrefl : ∀ a, lt a a = false
  trans : ∀ a b c, lt a b = true → lt b c = true → lt a c = true
  tri : ∀ a b, lt a b = false → lt b a = false → a = b

theorem sto_lt : STO (fun a b => decide (a < b)) :=
  ⟨by simp, by simp; omega, by simp; omega⟩
theorem sto_gt : STO (fun a b => decide (a > b)) :=
  ⟨by simp, by simp; omega, by simp; omega⟩

/-- the values still to be skipped, in the direction of travel: the pending skip of this
direction, the unread `set_values`, the pending skip of the opposite direction -/
def pend (f : Option Nat) (sv : List Nat) (opp : Option Nat) : List Nat :=
  f.toList ++ (sv ++ opp.toList)

abbrev PW (lt : Nat → Nat → Bool) (l : List Nat) : Prop := l.Pairwise (fun a b => lt a b = true)

/-- the values of `all` that are not to be skipped -/
def live (P all : List Nat) : List Nat := all.filter (fun x => decide (x ∉ P))

theorem live_cons_mem {P : List Nat} {x : Nat} (all : List Nat) (h : x ∈ P) :
    live P (x :: all) = live P all := by simp [live, h]
theorem live_cons_nmem {P : List Nat} {x : Nat} (all : List Nat) (h : x ∉ P) :
    live P (x :: all) = x :: live P all := by simp [live, h]

theorem live_drop_head {lt : Nat → Nat → Bool} (h : STO lt) {skip : Nat} {P all : List Nat}
    (hlt : ∀ x ∈ all, lt skip x = true) : live (skip :: P) all = live P all := by
  unfold live
  apply List.filter_congr
  intro x hx
  have : x ≠ skip := by
    intro he; subst he
    have := hlt x hx; rw [h.irrefl] at this; exact absurd this (by simp)
  simp [this]

theorem head_tail_toList (sv : List Nat) : sv.head?.toList ++ sv.tail = sv := by
  cases sv <;> rfl

theorem pend_refill (sv : List Nat) (opp : Option Nat) :
    pend sv.head? sv.tail opp = sv ++ opp.toList := by
  unfold pend; rw [← List.append_assoc, head_tail_toList]

theorem genLoop_spec {lt : Nat → Nat → Bool} (h : STO lt) (opp : Option Nat)
    (all sv : List Nat) (f : Option Nat)
    (hall : PW lt all) (hP : PW lt (pend f sv opp)) (hf : f = none → sv = []) :
    (genLoop lt opp all sv f).1 = (live (pend f sv opp) all).head? ∧
    live (pend (genLoop lt opp all sv f).2.2.2 (genLoop lt opp all sv f).2.2.1 opp)
      (genLoop lt opp all sv f).2.1 = (live (pend f sv opp) all).tail ∧
    PW lt (genLoop lt opp all sv f).2.1 ∧
    PW lt (pend (genLoop lt opp all sv f).2.2.2 (genLoop lt opp all sv f).2.2.1 opp) ∧
    ((genLoop lt opp all sv f).2.2.2 = none → (genLoop lt opp all sv f).2.2.1 = []) ∧
    (sv = [] → (genLoop lt opp all sv f).2.2.1 = []) := by
  fun_induction genLoop lt opp all sv f
  case case1 sv f =>
    exact ⟨rfl, rfl, hall, hP, hf, id⟩
  case case2 index all sv hopp ih =>
    have hsv := hf rfl
    have hmem : index ∈ pend none sv opp := by simp [pend, hopp]
    rw [live_cons_mem all hmem]
    exact ih (List.Pairwise.of_cons hall) hP hf
  case case3 index all sv hopp =>
    have hsv := hf rfl
    have hmem : index ∉ pend none sv opp := by
      subst hsv
      cases opp with
      | none => simp [pend]
      | some o => simp [pend]; intro he; exact hopp (by rw [he])
    rw [live_cons_nmem all hmem]
    exact ⟨rfl, rfl, List.Pairwise.of_cons hall, hP, hf, id⟩
  case case4 index all sv skip hlt =>
    have hmem : index ∉ pend (some skip) sv opp := by
      intro hm
      have hP' : PW lt (skip :: (sv ++ opp.toList)) := hP
      replace hP' := List.pairwise_cons.1 hP'
      have hm' : index ∈ skip :: (sv ++ opp.toList) := hm
      rcases List.mem_cons.1 hm' with he | hm''
      · subst he; rw [h.irrefl] at hlt; exact absurd hlt (by simp)
      · have := h.trans _ _ _ hlt (hP'.1 index hm'')
        rw [h.irrefl] at this; exact absurd this (by simp)
    rw [live_cons_nmem all hmem]
    exact ⟨rfl, rfl, List.Pairwise.of_cons hall, hP, hf, id⟩
  case case5 index all sv skip hnlt hgt ih =>
    have hP' : PW lt (skip :: (sv ++ opp.toList)) := hP
    have hP2 : PW lt (pend sv.head? sv.tail opp) := by
      rw [pend_refill]; exact List.Pairwise.of_cons hP'
    have hf2 : sv.head? = none → sv.tail = [] := by cases sv <;> simp
    have ih' := ih hall hP2 hf2
    have hdrop : live (pend (some skip) sv opp) (index :: all) =
        live (pend sv.head? sv.tail opp) (index :: all) := by
      rw [pend_refill]
      apply live_drop_head h
      intro x hx
      rcases List.mem_cons.1 hx with he | hx'
      · subst he; exact hgt
      · exact h.trans _ _ _ hgt ((List.pairwise_cons.1 hall).1 x hx')
    rw [hdrop]
    exact ⟨ih'.1, ih'.2.1, ih'.2.2.1, ih'.2.2.2.1, ih'.2.2.2.2.1,
      fun hs => ih'.2.2.2.2.2 (by rw [hs]; rfl)⟩
  case case6 index all sv skip hnlt hngt ih =>
    have heq : index = skip := h.tri _ _ (by simpa using hnlt) (by simpa using hngt)
    subst heq
    have hP' : PW lt (index :: (sv ++ opp.toList)) := hP
    have hP2 : PW lt (pend sv.head? sv.tail opp) := by
      rw [pend_refill]; exact List.Pairwise.of_cons hP'
    have hf2 : sv.head? = none → sv.tail = [] := by cases sv <;> simp
    have ih' := ih (List.Pairwise.of_cons hall) hP2 hf2
    have hmem : index ∈ pend (some index) sv opp := by simp [pend]
    have hdrop : live (pend (some index) sv opp) all = live (pend sv.head? sv.tail opp) all := by
      rw [pend_refill]
      exact live_drop_head h (List.pairwise_cons.1 hall).1
    rw [live_cons_mem all hmem, hdrop]
    exact ⟨ih'.1, ih'.2.1, ih'.2.2.1, ih'.2.2.2.1, ih'.2.2.2.2.1,
      fun hs => ih'.2.2.2.2.2 (by rw [hs]; rfl)⟩


/-! ### the simulation relation: machine state ⇄ the members it still owes -/

theorem pw_lt_iff (l : List Nat) : PW (fun a b => decide (a < b)) l ↔ Asc l := by
  simp only [PW, Asc, decide_eq_true_eq]

theorem pw_gt_reverse_iff (l : List Nat) : PW (fun a b => decide (a > b)) l.reverse ↔ Asc l := by
  simp only [PW, Asc, decide_eq_true_eq, List.pairwise_reverse]

theorem option_toList_reverse (o : Option Nat) : o.toList.reverse = o.toList := by
  cases o <;> rfl

theorem pend_reverse (f : Option Nat) (sv : List Nat) (b : Option Nat) :
    pend b sv.reverse f = (pend f sv b).reverse := by
  simp [pend, option_toList_reverse]

theorem live_reverse (P all : List Nat) : live P.reverse all.reverse = (live P all).reverse := by
  simp [live, List.filter_reverse]

/-- forward-only simulation: in exclusive mode the remaining domain values and the pending skips
are ascending, the forward skip slot is only empty when `set_values` is, and the domain values
that are not pending skips are exactly `L`; in inclusive mode `set_values = L` -/
def Iter.SimF (it : Iter) (L : List Nat) : Prop :=
  match it.allValues with
  | none => it.setValues = L
  | some all => Asc all ∧ Asc (pend it.nextSkippedForward it.setValues it.nextSkippedBackward) ∧
      (it.nextSkippedForward = none → it.setValues = []) ∧
      live (pend it.nextSkippedForward it.setValues it.nextSkippedBackward) all = L

/-- two-sided simulation: additionally the backward skip slot is only empty when `set_values` is -/
def Iter.Sim (it : Iter) (L : List Nat) : Prop :=
  it.SimF L ∧ (it.allValues.isSome → it.nextSkippedBackward = none → it.setValues = [])

theorem Iter.next_simF {it : Iter} {L : List Nat} (h : it.SimF L) :
    it.next.1 = L.head? ∧ it.next.2.SimF L.tail ∧
    it.next.2.allValues.isSome = it.allValues.isSome ∧
    it.next.2.nextSkippedBackward = it.nextSkippedBackward ∧
    (it.setValues = [] → it.next.2.setValues = []) := by
  unfold Iter.SimF at h
  unfold Iter.next Iter.SimF
  cases ha : it.allValues with
  | none =>
    rw [ha] at h
    simp only at h ⊢
    subst h
    simp [popFront]
    intro h; rw [h]; rfl
  | some all =>
    rw [ha] at h
    simp only at h ⊢
    obtain ⟨h1, h2, h3, h4⟩ := h
    rw [nextLoop_eq_genLoop]
    have := genLoop_spec sto_lt it.nextSkippedBackward all it.setValues it.nextSkippedForward
      ((pw_lt_iff _).2 h1) ((pw_lt_iff _).2 h2) h3
    obtain ⟨g1, g2, g3, g4, g5, g6⟩ := this
    rw [h4] at g1 g2
    exact ⟨g1, ⟨(pw_lt_iff _).1 g3, (pw_lt_iff _).1 g4, g5, g2⟩, by simp, by simp, g6⟩

theorem Iter.next_sim {it : Iter} {L : List Nat} (h : it.Sim L) :
    it.next.1 = L.head? ∧ it.next.2.Sim L.tail := by
  obtain ⟨h1, h2, h3, h4, h5⟩ := Iter.next_simF h.1
  refine ⟨h1, h2, ?_⟩
  rw [h3, h4]
  exact fun ha hb => h5 (h.2 ha hb)

theorem Iter.nextBack_sim {it : Iter} {L : List Nat} (h : it.Sim L) :
    it.nextBack.1 = L.getLast? ∧ it.nextBack.2.Sim L.dropLast := by
  obtain ⟨h, hb⟩ := h
  unfold Iter.SimF at h
  unfold Iter.nextBack Iter.Sim Iter.SimF
  cases ha : it.allValues with
  | none =>
    rw [ha] at h
    simp only at h ⊢
    subst h
    simp [popBack]
  | some all =>
    rw [ha] at h hb
    simp only at h ⊢
    obtain ⟨h1, h2, h3, h4⟩ := h
    rw [nextBackLoop_eq_genLoop]
    have hb' : it.nextSkippedBackward = none → it.setValues.reverse = [] := by
      intro hn; rw [hb rfl hn]; rfl
    have := genLoop_spec sto_gt it.nextSkippedForward all.reverse it.setValues.reverse
      it.nextSkippedBackward ((pw_gt_reverse_iff _).2 h1)
      (by rw [pend_reverse]; exact (pw_gt_reverse_iff _).2 h2) hb'
    obtain ⟨g1, g2, g3, g4, g5, g6⟩ := this
    rw [pend_reverse, live_reverse, h4] at g1 g2
    refine ⟨by rw [g1, List.head?_reverse], ⟨?_, ?_, ?_, ?_⟩, ?_⟩
    · rw [← pw_gt_reverse_iff, List.reverse_reverse]; exact g3
    · rw [← pw_gt_reverse_iff, ← pend_reverse, List.reverse_reverse]; exact g4
    · intro hn; rw [g6 (by rw [h3 hn]; rfl)]; rfl
    · have := congrArg List.reverse g2
      rw [← live_reverse, ← pend_reverse] at this
      rw [this, List.tail_reverse, List.reverse_reverse]
    · intro _ hn; rw [g5 hn]; rfl


/-! ### constructors establish the simulation -/

theorem dropLast_append_of_getLast? {l : List Nat} {x : Nat} (h : l.getLast? = some x) :
    l.dropLast ++ [x] = l := by
  obtain ⟨ys, rfl⟩ := List.getLast?_eq_some_iff.1 h
  simp

theorem dropLast_append_getLast?_toList (l : List Nat) : l.dropLast ++ l.getLast?.toList = l := by
  cases hl : l.getLast? with
  | none => rw [List.getLast?_eq_none_iff] at hl; subst hl; rfl
  | some x =>
    simp only [Option.toList_some]
    exact dropLast_append_of_getLast? hl

theorem pend_new (S : List Nat) : pend S.head? S.tail none = S := by
  unfold pend; simp [head_tail_toList]

theorem pend_newBidirectional (S : List Nat) :
    pend S.head? S.tail.dropLast S.tail.getLast? = S := by
  unfold pend
  rw [dropLast_append_getLast?_toList, head_tail_toList]

/-- `Iter::new(S, Some(D))` owes the values of `D` that are not in `S` -/
theorem Iter.new_simF {S D : List Nat} (hS : Asc S) (hD : Asc D) :
    (Iter.new S (some D)).SimF (D.filter (fun x => decide (x ∉ S))) := by
  simp only [Iter.new, Iter.SimF, popFront, pend_new]
  exact ⟨hD, hS, by cases S <;> simp, rfl⟩

theorem Iter.new_simF_none (S : List Nat) : (Iter.new S none).SimF S := rfl

/-- `Iter::new_bidirectional(S, Some(D))` owes the values of `D` that are not in `S` -/
theorem Iter.newBidirectional_sim {S D : List Nat} (hS : Asc S) (hD : Asc D) :
    (Iter.newBidirectional S (some D)).Sim (D.filter (fun x => decide (x ∉ S))) := by
  simp only [Iter.newBidirectional, Iter.Sim, Iter.SimF, popFront, popBack, pend_newBidirectional]
  refine ⟨⟨hD, hS, by cases S <;> simp, rfl⟩, fun _ h => ?_⟩
  rw [List.getLast?_eq_none_iff] at h
  rw [h]; rfl

theorem Iter.newBidirectional_sim_none (S : List Nat) :
    (Iter.newBidirectional S none).Sim S := ⟨rfl, by simp [Iter.newBidirectional]⟩

/-! ### `take`, `rev().take`, exhaustion -/

theorem Iter.take_simF (k : Nat) {it : Iter} {L : List Nat} (h : it.SimF L) :
    Iter.take k it = L.take k := by
  induction k generalizing it L with
  | zero => rfl
  | succ k ih =>
    obtain ⟨h1, h2, _⟩ := Iter.next_simF h
    unfold Iter.take
    cases L with
    | nil =>
      have : it.next = (none, it.next.2) := Prod.ext h1 rfl
      rw [this]; rfl
    | cons x t =>
      have : it.next = (some x, it.next.2) := Prod.ext h1 rfl
      rw [this]
      simp only [List.take_succ_cons]
      rw [ih h2]; rfl

theorem Iter.takeBack_sim (k : Nat) {it : Iter} {L : List Nat} (h : it.Sim L) :
    Iter.takeBack k it = L.reverse.take k := by
  induction k generalizing it L with
  | zero => rfl
  | succ k ih =>
    obtain ⟨h1, h2⟩ := Iter.nextBack_sim h
    unfold Iter.takeBack
    cases hl : L.getLast? with
    | none =>
      rw [List.getLast?_eq_none_iff] at hl; subst hl
      have : it.nextBack = (none, it.nextBack.2) := Prod.ext h1 rfl
      rw [this]; rfl
    | some x =>
      have : it.nextBack = (some x, it.nextBack.2) := Prod.ext (h1.trans hl) rfl
      rw [this]
      simp only
      rw [ih h2]
      have hL := dropLast_append_of_getLast? hl
      conv => rhs; rw [← hL]
      simp

theorem Iter.afterNexts_simF (k : Nat) {it : Iter} {L : List Nat} (h : it.SimF L) :
    (Iter.afterNexts k it).SimF (L.drop k) := by
  induction k generalizing it L with
  | zero => exact h
  | succ k ih =>
    have := ih (Iter.next_simF h).2.1
    simpa [Iter.afterNexts, List.drop_tail] using this

/-- once all members have been delivered, `next` returns `None` (and keeps doing so) -/
theorem Iter.next_exhausted (k : Nat) {it : Iter} {L : List Nat} (h : it.SimF L)
    (hk : L.length ≤ k) : (Iter.afterNexts k it).next.1 = none := by
  rw [(Iter.next_simF (Iter.afterNexts_simF k h)).1, List.drop_eq_nil_of_le hk]; rfl

/-! ### arbitrary interleavings of `next` / `next_back` -/

/-- the reference double-ended queue: `next` pops the head, `next_back` pops the last -/
def dequeRun : List Bool → List Nat → List (Bool × Option Nat)
  | [], _ => []
  | true :: r, L => (true, L.head?) :: dequeRun r L.tail
  | false :: r, L => (false, L.getLast?) :: dequeRun r L.dropLast

/-- what the reference queue still holds after the schedule -/
def dequeRest : List Bool → List Nat → List Nat
  | [], L => L
  | true :: r, L => dequeRest r L.tail
  | false :: r, L => dequeRest r L.dropLast

/-- the values returned by the `next` calls, in call order -/
def fronts (o : List (Bool × Option Nat)) : List Nat :=
  o.filterMap (fun p => if p.1 then p.2 else none)
/-- the values returned by the `next_back` calls, in call order -/
def backs (o : List (Bool × Option Nat)) : List Nat :=
  o.filterMap (fun p => if p.1 then none else p.2)

theorem Iter.runSchedule_sim (sched : List Bool) {it : Iter} {L : List Nat} (h : it.Sim L) :
    it.runSchedule sched = dequeRun sched L := by
  induction sched generalizing it L with
  | nil => rfl
  | cons b r ih =>
    cases b with
    | true =>
      obtain ⟨h1, h2⟩ := Iter.next_sim h
      simp only [Iter.runSchedule, dequeRun, h1, ih h2]
    | false =>
      obtain ⟨h1, h2⟩ := Iter.nextBack_sim h
      simp only [Iter.runSchedule, dequeRun, h1, ih h2]

theorem dequeRun_calls (sched : List Bool) (L : List Nat) :
    (dequeRun sched L).map (·.1) = sched := by
  induction sched generalizing L with
  | nil => rfl
  | cons b r ih => cases b <;> simp [dequeRun, ih]

theorem dequeRun_split (sched : List Bool) (L : List Nat) :
    fronts (dequeRun sched L) ++ dequeRest sched L ++ (backs (dequeRun sched L)).reverse = L := by
  induction sched generalizing L with
  | nil => simp [dequeRun, dequeRest, fronts, backs]
  | cons b r ih =>
    cases b with
    | true =>
      cases L with
      | nil => simpa [dequeRun, dequeRest, fronts, backs] using ih []
      | cons x t => simpa [dequeRun, dequeRest, fronts, backs] using ih t
    | false =>
      cases hl : L.getLast? with
      | none =>
        rw [List.getLast?_eq_none_iff] at hl; subst hl
        simpa [dequeRun, dequeRest, fronts, backs] using ih []
      | some x =>
        have hL := dropLast_append_of_getLast? hl
        have := ih L.dropLast
        simp only [dequeRun, dequeRest, fronts, backs, hl, List.filterMap_cons,
          Bool.false_eq_true, if_false, List.reverse_cons] at this ⊢
        rw [← List.append_assoc, this, hL]

/-- call number `i` delivers a value iff `i <` the number of members: the first
`min |sched| |L|` calls return `Some`, all later ones `None` -/
theorem dequeRun_isSome (sched : List Bool) (L : List Nat) :
    (dequeRun sched L).map (fun p => p.2.isSome) =
      List.replicate (min sched.length L.length) true ++
        List.replicate (sched.length - L.length) false := by
  induction sched generalizing L with
  | nil => simp [dequeRun]
  | cons b r ih =>
    cases b with
    | true =>
      cases L with
      | nil => simpa [dequeRun, List.replicate_succ] using ih []
      | cons x t =>
        simp only [dequeRun, List.map_cons, ih t, List.head?_cons, Option.isSome_some,
          List.tail_cons, List.length_cons, Nat.add_sub_add_right, Nat.add_min_add_right,
          List.replicate_succ, List.cons_append]
    | false =>
      cases hl : L.getLast? with
      | none =>
        rw [List.getLast?_eq_none_iff] at hl; subst hl
        simpa [dequeRun, List.replicate_succ] using ih []
      | some x =>
        have hL := dropLast_append_of_getLast? hl
        have hlen : L.length = L.dropLast.length + 1 := by
          conv => lhs; rw [← hL]
          simp
        simp only [dequeRun, List.map_cons, ih L.dropLast, hl, Option.isSome_some,
          List.length_cons]
        rw [hlen, Nat.add_sub_add_right, Nat.add_min_add_right, List.replicate_succ]
        simp

/-! ### connection with the sequence-level model -/

theorem nmem_members_eq_contains {s : IntSet} (h : BInv s.set) (hi : s.inverted = true) (x : Nat) :
    decide (x ∉ s.set.members) = s.contains x := by
  rw [IntSet.contains, if_pos hi]
  cases hc : s.set.contains x with
  | true => simp [(BitSet.mem_members _ h x).2 hc]
  | false =>
    have : x ∉ s.set.members := fun hm => by
      rw [BitSet.mem_members _ h x, hc] at hm; exact absurd hm (by simp)
    simp [this]

/-- the machine built by `IntSet::iter` owes exactly the mathematical member sequence -/
theorem IntSet.iterMachine_sim {d : Domain} (hd : DomWF d) {s : IntSet} (h : IInvD d s) :
    (s.iterMachine d).Sim (s.elems d) := by
  unfold IntSet.iterMachine
  by_cases hi : s.inverted = true
  · rw [if_pos hi]
    have := Iter.newBidirectional_sim (BitSet.members_asc _ h.1) (expand_asc hd.sorted)
    have heq : (expand d.ranges).filter (fun x => decide (x ∉ s.set.members)) = s.elems d := by
      unfold IntSet.elems
      exact List.filter_congr (fun x _ => nmem_members_eq_contains h.1 hi x)
    rw [heq] at this; exact this
  · rw [if_neg hi]
    simp only [Bool.not_eq_true] at hi
    rw [elems_inclusive hd h hi]
    exact Iter.newBidirectional_sim_none _

theorem filter_ge_of_mem {D : List Nat} (hD : Asc D) {v : Nat} (hv : v ∈ D) :
    D.filter (fun x => decide (v ≤ x)) = v :: D.filter (fun x => decide (x > v)) := by
  induction D with
  | nil => simp at hv
  | cons a t ih =>
    have hD' := asc_cons.1 hD
    rcases List.mem_cons.1 hv with he | hv'
    · subst he
      simp only [List.filter_cons, Nat.le_refl, decide_true, if_true, gt_iff_lt, Nat.lt_irrefl,
        decide_false, Bool.false_eq_true, if_false]
      congr 1
      apply List.filter_congr
      intro x hx
      have := hD'.1 x hx
      simp; omega
    · have := hD'.1 v hv'
      have h1 : ¬ v ≤ a := by omega
      have h2 : ¬ a > v := by omega
      simp only [List.filter_cons, h1, h2, decide_false, Bool.false_eq_true, if_false]
      exact ih hD'.2 hv'

/-- the machine built by `IntSet::iter_after(v)` (for a domain value `v`) owes exactly the members
greater than `v` -/
theorem IntSet.iterAfterMachine_simF {d : Domain} (hd : DomWF d) {s : IntSet} (h : IInvD d s)
    {v : Nat} (hv : d.contains v = true) :
    (s.iterAfterMachine d v).SimF ((s.elems d).filter (fun x => decide (x > v))) := by
  unfold IntSet.iterAfterMachine
  by_cases hi : s.inverted = true
  · simp only [hi, if_true]
    have hD := expand_asc hd.sorted
    have hvD : v ∈ expand d.ranges := Domain.contains_iff_mem.1 hv
    cases hmx : d.max? with
    | none =>
      have := Domain.ranges_nil_of_max hmx
      rw [this] at hvD; simp [expand] at hvD
    | some hi' =>
      have hle : ∀ x ∈ expand d.ranges, x ≤ hi' :=
        fun x hx => Domain.le_max hd hmx (Domain.contains_iff_mem.2 hx)
      have hrange : ∀ a, orderedValuesRange (expand d.ranges) a hi' =
          (expand d.ranges).filter (fun x => decide (a ≤ x)) := by
        intro a
        unfold orderedValuesRange
        apply List.filter_congr
        intro x hx
        have := hle x hx
        simp [this]
      simp only [Option.map_some, Option.bind_some, popFront, hrange, filter_ge_of_mem hD hvD,
        List.tail_cons]
      -- the target, with the two filters commuted
      have htarget : (s.elems d).filter (fun x => decide (x > v)) =
          ((expand d.ranges).filter (fun x => decide (x > v))).filter
            (fun x => decide (x ∉ s.set.members.filter (fun x => decide (x > v)))) := by
        unfold IntSet.elems
        rw [List.filter_filter, List.filter_filter]
        apply List.filter_congr
        intro x hx
        rw [← nmem_members_eq_contains h.1 hi x]
        by_cases hxv : x > v <;> simp [hxv]
      cases hT : (expand d.ranges).filter (fun x => decide (x > v)) with
      | nil =>
        simp only [List.head?_nil]
        rw [htarget, hT]
        exact Iter.new_simF_none []
      | cons mn T =>
        simp only [List.head?_cons]
        have hTasc : Asc (mn :: T) := by rw [← hT]; exact hD.filter _
        have hmn : mn ∈ (expand d.ranges).filter (fun x => decide (x > v)) := by rw [hT]; simp
        have hmnv : mn > v := by simpa using (List.mem_filter.1 hmn).2
        have hsame : (expand d.ranges).filter (fun x => decide (mn ≤ x)) =
            (expand d.ranges).filter (fun x => decide (x > v)) := by
          apply List.filter_congr
          intro x hx
          by_cases hxv : x > v
          · have hxT : x ∈ mn :: T := by rw [← hT]; exact List.mem_filter.2 ⟨hx, by simpa using hxv⟩
            rcases List.mem_cons.1 hxT with he | hxT'
            · simp [he]; omega
            · have := (asc_cons.1 hTasc).1 x hxT'
              simp [hxv]; omega
          · simp [hxv]; omega
        rw [hrange, hsame, htarget]
        exact Iter.new_simF ((BitSet.members_asc _ h.1).filter _) (hD.filter _)
  · simp only [hi, if_false, Bool.false_eq_true]
    simp only [Bool.not_eq_true] at hi
    rw [elems_inclusive hd h hi]
    exact Iter.new_simF_none _


/-- `IntSet::iter()`, `.rev()`, `iter_after(v)` as machines yield, item by item, the sequences of
the abstract model — for every `k`, not only at exhaustion -/
theorem IntSet.iterMachine_take {d : Domain} (hd : DomWF d) {s : IntSet} (h : IInvD d s) (k : Nat) :
    Iter.take k (s.iterMachine d) = s.iterTake d k := by
  rw [Iter.take_simF k (IntSet.iterMachine_sim hd h).1, IntSet.iterTake_eq hd h]

theorem IntSet.iterMachine_takeBack {d : Domain} (hd : DomWF d) {s : IntSet} (h : IInvD d s)
    (k : Nat) : Iter.takeBack k (s.iterMachine d) = s.iterBackTake d k := by
  rw [Iter.takeBack_sim k (IntSet.iterMachine_sim hd h), IntSet.iterBackTake_eq hd h]

theorem IntSet.iterAfterMachine_take {d : Domain} (hd : DomWF d) {s : IntSet} (h : IInvD d s)
    {v : Nat} (hv : d.contains v = true) (k : Nat) :
    Iter.take k (s.iterAfterMachine d v) = s.iterAfterTake d v k := by
  rw [Iter.take_simF k (IntSet.iterAfterMachine_simF hd h hv), IntSet.iterAfterTake_eq hd h]

/-- the `iter_after` construction at list level -/
theorem Iter.new_after_simF {S D : List Nat} (hS : Asc S) (hD : Asc D) (v : Nat) :
    (Iter.new (S.filter (fun x => decide (x > v))) (some (D.filter (fun x => decide (x > v))))).SimF
      (D.filter (fun x => decide (x > v) && decide (x ∉ S))) := by
  have := Iter.new_simF (hS.filter (fun x => decide (x > v))) (hD.filter (fun x => decide (x > v)))
  have heq : (D.filter (fun x => decide (x > v))).filter
        (fun x => decide (x ∉ S.filter (fun x => decide (x > v)))) =
      D.filter (fun x => decide (x > v) && decide (x ∉ S)) := by
    rw [List.filter_filter]
    apply List.filter_congr
    intro x _
    by_cases hxv : x > v <;> simp [hxv]
  rw [heq] at this; exact this

/-! ### double-ended consistency -/

theorem asc_nodup {l : List Nat} (h : Asc l) : l.Nodup :=
  List.Pairwise.imp (fun hab => Nat.ne_of_lt hab) h

/-- any interleaving of `next` / `next_back` on a machine that owes `L` behaves like the reference
deque on `L`; spelled out: (1) the calls are answered in order; (2) what the `next` calls returned,
what is still owed, and what the `next_back` calls returned (reversed) partition `L` in order;
(3) the first `min |sched| |L|` calls return `Some`, every later call returns `None` -/
theorem Iter.schedule_consistent {it : Iter} {L : List Nat} (h : it.Sim L) (sched : List Bool) :
    it.runSchedule sched = dequeRun sched L ∧
    (it.runSchedule sched).map (·.1) = sched ∧
    fronts (it.runSchedule sched) ++ dequeRest sched L ++ (backs (it.runSchedule sched)).reverse
      = L ∧
    (it.runSchedule sched).map (fun p => p.2.isSome) =
      List.replicate (min sched.length L.length) true ++
        List.replicate (sched.length - L.length) false := by
  rw [Iter.runSchedule_sim sched h]
  exact ⟨rfl, dequeRun_calls _ _, dequeRun_split _ _, dequeRun_isSome _ _⟩

/-- consequences: forward results are a prefix of the members ascending, backward results a prefix
of the members descending, and no value is ever returned twice -/
theorem Iter.schedule_prefixes {it : Iter} {L : List Nat} (h : it.Sim L) (hL : Asc L)
    (sched : List Bool) :
    fronts (it.runSchedule sched) <+: L ∧ backs (it.runSchedule sched) <+: L.reverse ∧
    (fronts (it.runSchedule sched) ++ backs (it.runSchedule sched)).Nodup ∧
    (fronts (it.runSchedule sched)).length + (backs (it.runSchedule sched)).length ≤ L.length := by
  have hs := (Iter.schedule_consistent h sched).2.2.1
  generalize fronts (it.runSchedule sched) = A at hs ⊢
  generalize backs (it.runSchedule sched) = C at hs ⊢
  generalize dequeRest sched L = B at hs
  refine ⟨⟨B ++ C.reverse, by rw [← List.append_assoc]; exact hs⟩, ⟨B.reverse ++ A.reverse, ?_⟩,
    ?_, ?_⟩
  · rw [← hs]; simp
  · have hN : (A ++ B ++ C.reverse).Nodup := by rw [hs]; exact asc_nodup hL
    have hsub : (A ++ C.reverse).Sublist (A ++ B ++ C.reverse) := by
      rw [List.append_assoc]
      exact (List.Sublist.refl A).append (List.sublist_append_right B C.reverse)
    have := hN.sublist hsub
    rw [List.nodup_append] at this ⊢
    refine ⟨this.1, ?_, fun a ha b hb => this.2.2 a ha b (by simpa using hb)⟩
    exact List.pairwise_reverse.1 (List.Pairwise.imp (fun hab => Ne.symm hab) this.2.1)
  · have := congrArg List.length hs
    simp at this; omega

end FontVerif.IntSet
