/- helper lemmas for the name-string model (Model/NameStr.lean) -/
import FontVerif.Model.NameStr
import FontVerif.Lemmas.Field

namespace FontVerif.NameStr
open FontVerif.Field

theorem be2_eq (n : Nat) : be 2 n = [n / 256 % 256, n % 256] := by
  simp [be]

/-- bytes of one char -/
def charBytes (c : Nat) : Bytes := (encodeUtf16 c).flatMap (be 2)

theorem charBytes_length (c : Nat) : (charBytes c).length = lenUtf16 c * 2 := by
  unfold charBytes encodeUtf16 lenUtf16
  split <;> simp [be2_eq]

theorem decodeUtf16_single (b0 b1 : Nat) (rest : Bytes) (h : ¬ (0xD800 ≤ b0 * 256 + b1 ∧ b0 * 256 + b1 < 0xDC00)) :
    decodeUtf16 (b0 :: b1 :: rest)
      = (if isChar (b0 * 256 + b1) then b0 * 256 + b1 else 0xFFFD) :: decodeUtf16 rest := by
  rcases rest with _ | ⟨b2, _ | ⟨b3, rest'⟩⟩ <;> simp [decodeUtf16, h]

theorem decodeUtf16_pair (b0 b1 b2 b3 : Nat) (rest : Bytes) (h : 0xD800 ≤ b0 * 256 + b1 ∧ b0 * 256 + b1 < 0xDC00) :
    decodeUtf16 (b0 :: b1 :: b2 :: b3 :: rest)
      = (if isChar ((b0 * 256 + b1) % 1024 * 1024 + (b2 * 256 + b3) % 1024 + 0x10000)
          then (b0 * 256 + b1) % 1024 * 1024 + (b2 * 256 + b3) % 1024 + 0x10000 else 0xFFFD) :: decodeUtf16 rest := by
  simp [decodeUtf16, h]

set_option maxRecDepth 4096 in
/-- the decoder undoes the encoder on one char and continues with the rest -/
theorem decodeUtf16_charBytes (c : Nat) (bs : Bytes) (h : isChar c = true) :
    decodeUtf16 (charBytes c ++ bs) = c :: decodeUtf16 bs := by
  unfold charBytes encodeUtf16
  have hch := h
  simp only [isChar, Bool.or_eq_true, Bool.and_eq_true, decide_eq_true_eq] at h
  by_cases hc : c < 0x10000
  · simp only [hc, if_true, List.flatMap_cons, List.flatMap_nil, be2_eq, List.append_nil, List.cons_append,
      List.nil_append]
    have e : c / 256 % 256 * 256 + c % 256 = c := by omega
    rw [decodeUtf16_single (c / 256 % 256) (c % 256) bs (by rw [e]; omega), e, hch]
    simp
  · simp only [hc, if_false, List.flatMap_cons, List.flatMap_nil, be2_eq, List.append_nil, List.cons_append,
      List.nil_append]
    obtain ⟨q, r, hq, hr, hcq⟩ : ∃ q r, q < 1024 ∧ r < 1024 ∧ c = 0x10000 + q * 1024 + r :=
      ⟨(c - 0x10000) / 1024, (c - 0x10000) % 1024, by omega, by omega, by omega⟩
    have d1 : (c - 0x10000) / 1024 = q := by omega
    have d2 : (c - 0x10000) % 1024 = r := by omega
    rw [d1, d2]
    generalize hu1 : 0xD800 + q = u1
    generalize hu2 : 0xDC00 + r = u2
    have e1 : u1 / 256 % 256 * 256 + u1 % 256 = u1 := by omega
    have e2 : u2 / 256 % 256 * 256 + u2 % 256 = u2 := by omega
    rw [decodeUtf16_pair (u1 / 256 % 256) (u1 % 256) (u2 / 256 % 256) (u2 % 256) bs (by rw [e1]; omega), e1, e2]
    have e3 : u1 % 1024 * 1024 + u2 % 1024 + 0x10000 = c := by omega
    rw [e3, hch]
    simp

theorem decodeUtf16_encode (s : List Nat) (h : ∀ c ∈ s, isChar c = true) :
    decodeUtf16 (s.flatMap charBytes) = s := by
  induction s with
  | nil => simp [decodeUtf16]
  | cons c r ih =>
    rw [List.flatMap_cons, decodeUtf16_charBytes c _ (h c (by simp)), ih (fun c hc => h c (by simp [hc]))]

theorem utf16_bytes_length (s : List Nat) :
    (s.flatMap charBytes).length = (s.map fun c => lenUtf16 c * 2).sum := by
  induction s with
  | nil => simp
  | cons c r ih => simp [List.flatMap_cons, charBytes_length, ih]

theorem sumU16_eq (xs : List Nat) (a : Nat) (ha : a < 65536) :
    sumU16 xs (some a) = if a + xs.sum < 65536 then some (a + xs.sum) else none := by
  induction xs generalizing a with
  | nil => simp [sumU16, ha]
  | cons x r ih =>
    have hs : (x :: r).sum = x + r.sum := by simp
    simp only [sumU16]
    by_cases hx : a + x < 65536
    · rw [if_pos hx, ih _ hx]
      by_cases h2 : a + x + r.sum < 65536
      · rw [if_pos h2, if_pos (by rw [hs]; omega)]; congr 1; rw [hs]; omega
      · rw [if_neg h2, if_neg (by rw [hs]; omega)]
    · rw [if_neg hx, if_neg (by rw [hs]; omega)]

/-- every entry of the encode table is inverted by the decode table -/
theorem macTable_inverse : ∀ e ∈ macEncodeTable, macDecode e.2 = e.1 := by decide +kernel

theorem macDecode_encode (c b : Nat) (h : macEncode c = some b) : macDecode b = c := by
  unfold macEncode at h
  by_cases h1 : 65536 ≤ c
  · simp [h1] at h
  · by_cases h2 : c < 128
    · simp [h1, h2] at h; subst h; simp [macDecode, h2]
    · simp only [h1, h2, if_false, Option.map_eq_some_iff] at h
      obtain ⟨e, he, hb⟩ := h
      have hm := List.mem_of_find?_eq_some he
      have hp := List.find?_some he
      simp only [beq_iff_eq] at hp
      rw [← hb, macTable_inverse e hm, hp]

theorem mapM_macEncode (s : List Nat) (bs : Bytes) (h : s.mapM macEncode = some bs) :
    bs.length = s.length ∧ decodeMac bs = s := by
  induction s generalizing bs with
  | nil => simp at h; subst h; simp [decodeMac]
  | cons c r ih =>
    rw [List.mapM_cons] at h
    cases hc : macEncode c with
    | none => simp [hc] at h
    | some b =>
      cases hr : r.mapM macEncode with
      | none => simp [hc, hr] at h
      | some bs' =>
        simp [hc, hr] at h
        subst h
        obtain ⟨l, d⟩ := ih bs' hr
        refine ⟨by simp [l], ?_⟩
        simp only [decodeMac, List.map_cons] at d ⊢
        rw [d, macDecode_encode c b hc]

theorem sum_len_double (s : List Nat) : (s.map fun c => lenUtf16 c * 2).sum = 2 * (s.map lenUtf16).sum := by
  induction s with
  | nil => simp
  | cons c r ih => simp only [List.map_cons, List.sum_cons, ih]; omega

theorem mapM_macEncode_some (s : List Nat) (h : s.all (fun c => (macEncode c).isSome) = true) :
    ∃ bs, s.mapM macEncode = some bs := by
  induction s with
  | nil => exact ⟨[], by simp⟩
  | cons c r ih =>
    simp only [List.all_cons, Bool.and_eq_true] at h
    obtain ⟨bs, hb⟩ := ih h.2
    obtain ⟨b, hc⟩ := Option.isSome_iff_exists.mp h.1
    exact ⟨b :: bs, by rw [List.mapM_cons]; simp [hc, hb]⟩

end FontVerif.NameStr
