/-
The value stack and `read_points_fast` read only what they have written
(Model/ScratchModels.lean).
-/
import FontVerif.Model.ScratchModels
namespace FontVerif.ScratchModels

/-! ## ValueStack: two stacks on different backing contents stay in step -/

/-- same shape, and equal contents below `len` -/
def Sim (a b : VS) : Prop :=
  a.cap = b.cap ∧ a.len = b.len ∧ a.pedantic = b.pedantic ∧ a.len ≤ a.cap ∧ ∀ j, j < a.len → a.vals j = b.vals j

theorem push_sim (a b : VS) (v : Int) (h : Sim a b) :
    (a.push v).2 = (b.push v).2 ∧ Sim (a.push v).1 (b.push v).1 := by
  obtain ⟨av, ac, al, ap⟩ := a
  obtain ⟨bv, bc, bl, bp⟩ := b
  simp only [Sim] at h
  obtain ⟨rfl, rfl, rfl, hle, hv⟩ := h
  simp only [VS.push]
  split
  · refine ⟨rfl, rfl, rfl, rfl, by simp only; omega, ?_⟩
    intro j hj
    simp only at hj
    simp only [upd]
    split
    · rfl
    · exact hv j (by omega)
  · exact ⟨rfl, rfl, rfl, rfl, hle, hv⟩

theorem writeMany_spec : ∀ (vs : List Int) (f : Nat → Int) (base j : Nat),
    writeMany f base vs j = if base ≤ j ∧ j < base + vs.length then vs.getD (j - base) 0 else f j
  | [], f, base, j => by
    simp only [writeMany, List.length_nil, Nat.add_zero]
    split
    · omega
    · rfl
  | v :: vs, f, base, j => by
    simp only [writeMany, writeMany_spec vs, List.length_cons, upd]
    by_cases h1 : j = base
    · subst h1
      have : ¬ (j + 1 ≤ j ∧ j < j + 1 + vs.length) := by omega
      simp [this]
    · by_cases h2 : base + 1 ≤ j ∧ j < base + 1 + vs.length
      · have h3 : base ≤ j ∧ j < base + (vs.length + 1) := by omega
        simp only [h2, h3, and_self, if_true]
        have : j - base = (j - (base + 1)) + 1 := by omega
        rw [this]; simp
      · have h3 : ¬ (base ≤ j ∧ j < base + (vs.length + 1)) := by omega
        simp [h2, h3, h1]

theorem pushMany_sim (a b : VS) (vs : List Int) (h : Sim a b) :
    (a.pushMany vs).2 = (b.pushMany vs).2 ∧ Sim (a.pushMany vs).1 (b.pushMany vs).1 := by
  obtain ⟨av, ac, al, ap⟩ := a
  obtain ⟨bv, bc, bl, bp⟩ := b
  simp only [Sim] at h
  obtain ⟨rfl, rfl, rfl, hle, hv⟩ := h
  simp only [VS.pushMany]
  split
  · refine ⟨rfl, rfl, rfl, rfl, by simp only; omega, ?_⟩
    intro j hj
    simp only at hj
    simp only [writeMany_spec]
    split
    · rfl
    · exact hv j (by omega)
  · exact ⟨rfl, rfl, rfl, rfl, hle, hv⟩

theorem peek_sim (a b : VS) (h : Sim a b) : a.peek = b.peek := by
  obtain ⟨hc, hl, hp, hle, hv⟩ := h
  unfold VS.peek
  rw [← hl]
  split
  · rw [hv _ (by omega)]
  · rfl

theorem pop_sim (a b : VS) (h : Sim a b) : a.pop.2 = b.pop.2 ∧ Sim a.pop.1 b.pop.1 := by
  have hpk := peek_sim a b h
  obtain ⟨hc, hl, hp, hle, hv⟩ := h
  unfold VS.pop
  rw [← hpk]
  cases hk : a.peek with
  | some v =>
    refine ⟨rfl, hc, by simp [hl], hp, by simp; omega, ?_⟩
    intro j hj
    exact hv j (by simp at hj; omega)
  | none =>
    simp only [← hp]
    split <;> exact ⟨rfl, hc, hl, hp, hle, hv⟩

theorem dup_sim (a b : VS) (h : Sim a b) : a.dup.2 = b.dup.2 ∧ Sim a.dup.1 b.dup.1 := by
  have hpk := peek_sim a b h
  unfold VS.dup
  rw [← hpk]
  cases hk : a.peek with
  | some v => exact push_sim a b v h
  | none =>
    simp only [← h.2.2.1]
    split
    · exact ⟨rfl, h⟩
    · exact push_sim a b 0 h

theorem swap_sim (a b : VS) (h : Sim a b) : a.swap.2 = b.swap.2 ∧ Sim a.swap.1 b.swap.1 := by
  unfold VS.swap
  have h1 := pop_sim a b h
  rcases ha : a.pop with ⟨a1, ra⟩
  rcases hb : b.pop with ⟨b1, rb⟩
  rw [ha, hb] at h1
  simp only at h1
  obtain ⟨hr, hs⟩ := h1
  subst hr
  cases ra with
  | error e => exact ⟨rfl, hs⟩
  | ok x =>
    simp only
    have h2 := pop_sim a1 b1 hs
    rcases ha2 : a1.pop with ⟨a2, ra2⟩
    rcases hb2 : b1.pop with ⟨b2, rb2⟩
    rw [ha2, hb2] at h2
    simp only at h2
    obtain ⟨hr2, hs2⟩ := h2
    subst hr2
    cases ra2 with
    | error e => exact ⟨rfl, hs2⟩
    | ok y =>
      simp only
      have h3 := push_sim a2 b2 x hs2
      rcases ha3 : a2.push x with ⟨a3, ra3⟩
      rcases hb3 : b2.push x with ⟨b3, rb3⟩
      rw [ha3, hb3] at h3
      simp only at h3
      obtain ⟨hr3, hs3⟩ := h3
      subst hr3
      cases ra3 with
      | some e => exact ⟨rfl, hs3⟩
      | none => exact push_sim a3 b3 y hs3

theorem roll_sim (a b : VS) (h : Sim a b) : a.roll.2 = b.roll.2 ∧ Sim a.roll.1 b.roll.1 := by
  unfold VS.roll
  have h1 := pop_sim a b h
  rcases ha : a.pop with ⟨a1, ra⟩
  rcases hb : b.pop with ⟨b1, rb⟩
  rw [ha, hb] at h1
  simp only at h1
  obtain ⟨hr, hs⟩ := h1
  subst hr
  cases ra with
  | error e => exact ⟨rfl, hs⟩
  | ok x =>
    simp only
    have h2 := pop_sim a1 b1 hs
    rcases ha2 : a1.pop with ⟨a2, ra2⟩
    rcases hb2 : b1.pop with ⟨b2, rb2⟩
    rw [ha2, hb2] at h2
    simp only at h2
    obtain ⟨hr2, hs2⟩ := h2
    subst hr2
    cases ra2 with
    | error e => exact ⟨rfl, hs2⟩
    | ok y =>
      simp only
      have h3 := pop_sim a2 b2 hs2
      rcases ha3 : a2.pop with ⟨a3, ra3⟩
      rcases hb3 : b2.pop with ⟨b3, rb3⟩
      rw [ha3, hb3] at h3
      simp only at h3
      obtain ⟨hr3, hs3⟩ := h3
      subst hr3
      cases ra3 with
      | error e => exact ⟨rfl, hs3⟩
      | ok z =>
        simp only
        have h4 := push_sim a3 b3 y hs3
        rcases ha4 : a3.push y with ⟨a4, ra4⟩
        rcases hb4 : b3.push y with ⟨b4, rb4⟩
        rw [ha4, hb4] at h4
        simp only at h4
        obtain ⟨hr4, hs4⟩ := h4
        subst hr4
        cases ra4 with
        | some e => exact ⟨rfl, hs4⟩
        | none =>
          simp only
          have h5 := push_sim a4 b4 x hs4
          rcases ha5 : a4.push x with ⟨a5, ra5⟩
          rcases hb5 : b4.push x with ⟨b5, rb5⟩
          rw [ha5, hb5] at h5
          simp only at h5
          obtain ⟨hr5, hs5⟩ := h5
          subst hr5
          cases ra5 with
          | some e => exact ⟨rfl, hs5⟩
          | none => exact push_sim a5 b5 z hs5

theorem copyIndex_sim (a b : VS) (h : Sim a b) :
    a.copyIndex.2 = b.copyIndex.2 ∧ Sim a.copyIndex.1 b.copyIndex.1 := by
  obtain ⟨av, ac, al, ap⟩ := a
  obtain ⟨bv, bc, bl, bp⟩ := b
  simp only [Sim] at h
  obtain ⟨rfl, rfl, rfl, hle, hv⟩ := h
  simp only [VS.copyIndex]
  split
  · exact ⟨rfl, rfl, rfl, rfl, hle, hv⟩
  · rename_i hne
    have htop := hv (al - 1) (by omega)
    simp only [← htop]
    split
    · exact ⟨rfl, rfl, rfl, rfl, hle, hv⟩
    · rename_i hidx
      refine ⟨rfl, rfl, rfl, rfl, hle, ?_⟩
      intro j hj
      simp only at hj
      simp only [upd]
      split
      · exact hv _ (by omega)
      · exact hv j hj

theorem moveIndex_sim (a b : VS) (h : Sim a b) :
    a.moveIndex.2 = b.moveIndex.2 ∧ Sim a.moveIndex.1 b.moveIndex.1 := by
  obtain ⟨av, ac, al, ap⟩ := a
  obtain ⟨bv, bc, bl, bp⟩ := b
  simp only [Sim] at h
  obtain ⟨rfl, rfl, rfl, hle, hv⟩ := h
  simp only [VS.moveIndex]
  split
  · exact ⟨rfl, rfl, rfl, rfl, hle, hv⟩
  · rename_i hne
    have htop := hv (al - 1) (by omega)
    simp only [← htop]
    split
    · exact ⟨rfl, rfl, rfl, rfl, hle, hv⟩
    · rename_i hidx
      split
      · exact ⟨rfl, rfl, rfl, rfl, hle, hv⟩
      · rename_i htz
        refine ⟨rfl, rfl, rfl, rfl, by simp only at hle ⊢; omega, ?_⟩
        intro j hj
        simp only at hj hne
        simp only [upd]
        split
        · exact hv _ (by omega)
        · split
          · exact hv _ (by omega)
          · exact hv j (by omega)

theorem step_sim (a b : VS) (op : VOp) (h : Sim a b) : (a.step op).2 = (b.step op).2 ∧ Sim (a.step op).1 (b.step op).1 := by
  cases op with
  | push v => have := push_sim a b v h; simp only [VS.step]; exact ⟨by rw [this.1], this.2⟩
  | pushMany vs => have := pushMany_sim a b vs h; simp only [VS.step]; exact ⟨by rw [this.1], this.2⟩
  | pop =>
    have := pop_sim a b h
    simp only [VS.step]
    rcases ha : a.pop with ⟨a1, ra⟩
    rcases hb : b.pop with ⟨b1, rb⟩
    rw [ha, hb] at this
    simp only at this
    obtain ⟨hr, hs⟩ := this
    subst hr
    cases ra <;> exact ⟨rfl, hs⟩
  | peek => simp only [VS.step, peek_sim a b h]; exact ⟨trivial, h⟩
  | dup => have := dup_sim a b h; simp only [VS.step]; exact ⟨by rw [this.1], this.2⟩
  | swap => have := swap_sim a b h; simp only [VS.step]; exact ⟨by rw [this.1], this.2⟩
  | clear =>
    simp only [VS.step]
    exact ⟨trivial, h.1, rfl, h.2.2.1, Nat.zero_le _, fun j hj => absurd hj (Nat.not_lt_zero _)⟩
  | copyIndex => have := copyIndex_sim a b h; simp only [VS.step]; exact ⟨by rw [this.1], this.2⟩
  | moveIndex => have := moveIndex_sim a b h; simp only [VS.step]; exact ⟨by rw [this.1], this.2⟩
  | roll => have := roll_sim a b h; simp only [VS.step]; exact ⟨by rw [this.1], this.2⟩
  | len => simp only [VS.step, h.2.1]; exact ⟨trivial, h⟩
  | values =>
    simp only [VS.step]
    refine ⟨?_, h⟩
    rw [← h.2.1]
    congr 1
    apply List.map_congr_left
    intro j hj
    exact h.2.2.2.2 j (List.mem_range.mp hj)

theorem run_sim : ∀ (ops : List VOp) (a b : VS), Sim a b → a.run ops = b.run ops
  | [], _, _, _ => rfl
  | op :: ops, a, b, h => by
    have := step_sim a b op h
    simp only [VS.run, this.1, run_sim ops _ _ this.2]

/-! ## read_points_fast -/

theorem fastFlagsBuf_indep (n : Nat) : ∀ (bytes : List Nat) (rfb i : Nat) (b1 b2 : List Nat),
    b1.length = n → b2.length = n → i ≤ n → (bytes ≠ [] → i < n) → b1.take i = b2.take i →
    fastFlagsBuf n bytes rfb i b1 = fastFlagsBuf n bytes rfb i b2
  | [], rfb, i, b1, b2, h1, h2, hi, _, ht => by
    simp only [fastFlagsBuf]
    split
    · rename_i h
      have e1 : b1.take i = b1 := List.take_of_length_le (by omega)
      have e2 : b2.take i = b2 := List.take_of_length_le (by omega)
      rw [e1, e2] at ht
      rw [ht]
    · rfl
  | f :: rest, rfb, i, b1, b2, h1, h2, hi, hlt, ht => by
    have hi' : i < n := hlt (by simp)
    rw [fastFlagsBuf.eq_def n (f :: rest) rfb i b1, fastFlagsBuf.eq_def n (f :: rest) rfb i b2]
    simp only
    split
    · cases rest with
      | nil => rfl
      | cons r rest' =>
        simp only
        have hcount : i + min (r + 1) (n - i) ≤ n := by omega
        split
        · rename_i he
          have d1 : b1.drop (i + min (r + 1) (n - i)) = [] := by rw [he]; exact List.drop_of_length_le (by omega)
          have d2 : b2.drop (i + min (r + 1) (n - i)) = [] := by rw [he]; exact List.drop_of_length_le (by omega)
          rw [d1, d2, ht]
        · rename_i hen
          apply fastFlagsBuf_indep n rest' _ _ _ _ (by simp; omega) (by simp; omega) hcount (fun _ => by omega)
          have t1 : ∀ (b : List Nat), b.length = n →
              (b.take i ++ List.replicate (min (r + 1) (n - i)) f ++ b.drop (i + min (r + 1) (n - i))).take (i + min (r + 1) (n - i))
                = b.take i ++ List.replicate (min (r + 1) (n - i)) f := by
            intro b hb
            rw [List.take_append_of_le_length (by simp; omega)]
            rw [List.take_of_length_le (by simp; omega)]
          rw [t1 b1 h1, t1 b2 h2, ht]
    · split
      · rename_i he
        have : ∀ (b : List Nat), b.length = n → b.set i f = b.take i ++ [f] := by
          intro b hb
          apply List.ext_getElem?
          intro j
          rw [List.getElem?_set]
          by_cases hj : j < i
          · rw [List.getElem?_append_left (by simp; omega)]
            simp [hj]; omega
          · by_cases hj2 : j = i
            · subst hj2
              rw [List.getElem?_append_right (by simp; omega)]
              have hz : j - min j n = 0 := by omega
              simp [hb, hi', hz]
            · rw [List.getElem?_append_right (by simp; omega)]
              have : i ≠ j := fun h => hj2 h.symm
              simp only [this, if_false]
              rw [List.getElem?_eq_none (by omega)]
              rw [List.getElem?_eq_none (by simp; omega)]
        rw [this b1 h1, this b2 h2, ht]
      · rename_i hne
        apply fastFlagsBuf_indep n rest _ _ _ _ (by simp [h1]) (by simp [h2]) (by omega) (fun _ => by omega)
        apply List.ext_getElem?
        intro j
        simp only [List.getElem?_take, List.getElem?_set]
        by_cases hj : j < i + 1
        · simp only [hj, if_true]
          by_cases hj2 : i = j
          · subst hj2; simp [h1, h2, hi']
          · simp only [hj2, if_false]
            have : j < i := by omega
            have e1 : (b1.take i)[j]? = (b2.take i)[j]? := by rw [ht]
            simpa [List.getElem?_take, this] using e1
        · simp [hj]

theorem zipWrite_indep : ∀ (p1 p2 : List (Int × Int)) (xs ys : List Int), p1.length = p2.length →
    zipWrite (zipWrite p1 xs true) ys false = zipWrite (zipWrite p2 xs true) ys false
  | [], [], _, _, _ => rfl
  | [], _ :: _, _, _, h => by simp at h
  | _ :: _, [], _, _, h => by simp at h
  | a :: p1, b :: p2, xs, ys, h => by
    cases xs with
    | nil => simp [zipWrite]
    | cons x xs =>
      cases ys with
      | nil => simp [zipWrite]
      | cons y ys =>
        have := zipWrite_indep p1 p2 xs ys (by simpa using h)
        simp only [zipWrite, if_true, Bool.false_eq_true, if_false] at this ⊢
        simp only [List.zip_cons_cons, List.map_cons, List.cons.injEq, true_and]
        exact this

/-- **`read_points_fast` overwrites both buffers completely before it reads them**: the result does
not depend on what the caller's point and flag buffers held. -/
theorem readPointsBuf_indep (gd : List Nat) (n : Nat) (p1 p2 : List (Int × Int)) (f1 f2 : List Nat)
    (hp1 : p1.length = n) (hp2 : p2.length = n) (hf1 : f1.length = n) (hf2 : f2.length = n) :
    readPointsBuf gd n p1 f1 = readPointsBuf gd n p2 f2 := by
  unfold readPointsBuf
  simp only [hp1, hp2, hf1, hf2, ne_eq, not_true_eq_false, or_self, if_false]
  rw [fastFlagsBuf_indep n _ 0 0 f1 f2 hf1 hf2 (Nat.zero_le _) (by
    intro hne
    rcases Nat.eq_zero_or_pos n with h0 | h0
    · subst h0; simp at hne
    · exact h0) (by simp)]
  cases fastFlagsBuf n (gd.take (min (2 * n) gd.length)) 0 0 f2 with
  | none => rfl
  | some r =>
    obtain ⟨rfb, buf⟩ := r
    simp only
    cases hx : fastCoords X_SHORT X_SAME buf (gd.drop rfb) 0 with
    | none => rfl
    | some rx =>
      obtain ⟨xs, cur⟩ := rx
      simp only
      cases hy : fastCoords Y_SHORT Y_SAME buf cur 0 with
      | none => rfl
      | some ry =>
        obtain ⟨ys, _⟩ := ry
        simp only [Option.some.injEq, Prod.mk.injEq, and_true]
        exact zipWrite_indep p1 p2 xs ys (hp1.trans hp2.symm)

end FontVerif.ScratchModels
