/- helper lemmas about Model/Carve.lean -/
import FontVerif.Model.Carve
namespace FontVerif.Carve

/-- the alignments that occur (`align_of` of `u8`, `u16`, `i32`/`f32`/`Point<_>`) -/
def IsAlign (a : Nat) : Prop := a = 1 ∨ a = 2 ∨ a = 4

/-- bytes skipped to reach the next multiple of `al` -/
def pad (a al : Nat) : Nat := (al - a % al) % al

theorem land1 (x : Nat) : x &&& 1 = x % 2 := Nat.and_two_pow_sub_one_eq_mod x 1
theorem land3 (x : Nat) : x &&& 3 = x % 4 := Nat.and_two_pow_sub_one_eq_mod x 2
theorem land0 (x : Nat) : x &&& 0 = 0 := by simp

/-- `align_up` is "round up to the next multiple" for every address and the alignments in use -/
theorem alignUp_spec (a al : Nat) (ha : a < 18446744073709551616) (hal : IsAlign al) :
    alignUp a al = a + pad a al := by
  unfold alignUp wrapNeg64 pad
  rcases hal with rfl | rfl | rfl
  · simp; omega
  · rw [show (2 - 1 : Nat) = 1 from rfl, land1]; omega
  · rw [show (4 - 1 : Nat) = 3 from rfl, land3]; omega

theorem pad_lt (a al : Nat) (hal : IsAlign al) : pad a al < al := by
  unfold pad; rcases hal with rfl | rfl | rfl <;> omega

theorem pad_aligned (a al : Nat) (hal : IsAlign al) : (a + pad a al) % al = 0 := by
  unfold pad; rcases hal with rfl | rfl | rfl <;> omega

theorem pad_zero (a al : Nat) (hal : IsAlign al) (h : a % al = 0) : pad a al = 0 := by
  unfold pad; rcases hal with rfl | rfl | rfl <;> omega

/-- exact number of bytes `carve prog` consumes from a buffer starting at address `a` -/
def need : List Entry → Nat → Nat
  | [], _ => 0
  | e :: es, a =>
    if e.count = 0 then need es a
    else pad a e.align + e.count * e.size + need es (a + pad a e.align + e.count * e.size)

def AllAlign (prog : List Entry) : Prop := ∀ e ∈ prog, IsAlign e.align

/-- `carve` succeeds exactly when the buffer holds `need` bytes -/
theorem carve_isSome_iff : ∀ (prog : List Entry) (b : Buf), AllAlign prog →
    b.addr + b.len < 18446744073709551616 →
    ((carve prog b).isSome = true ↔ need prog b.addr ≤ b.len) := by
  intro prog
  induction prog with
  | nil => intro b _ _; simp [carve, need]
  | cons e es ih =>
    intro b hal hb
    have he : IsAlign e.align := hal e (by simp)
    have hes : AllAlign es := fun x hx => hal x (by simp [hx])
    unfold carve allocSlice need
    by_cases hc : e.count = 0
    · simp only [hc, if_true]
      have := ih b hes hb
      cases hcar : carve es b with
      | none => rw [hcar] at this; simpa using this
      | some ss => rw [hcar] at this; simpa using this
    · simp only [hc, if_false]
      rw [alignUp_spec b.addr e.align (by omega) he]
      have hoff : b.addr + pad b.addr e.align - b.addr = pad b.addr e.align := by omega
      simp only [hoff]
      by_cases h1 : pad b.addr e.align > b.len
      · simp only [h1, if_true]; simp; omega
      · simp only [h1, if_false]
        by_cases h2 : e.count * e.size > b.len - pad b.addr e.align
        · simp only [h2, if_true]; simp; omega
        · simp only [h2, if_false]
          have := ih { addr := b.addr + pad b.addr e.align + e.count * e.size,
                       len := b.len - pad b.addr e.align - e.count * e.size } hes (by simp only []; omega)
          simp only [] at this
          cases hcar : carve es (Buf.mk (b.addr + pad b.addr e.align + e.count * e.size)
                       (b.len - pad b.addr e.align - e.count * e.size)) with
          | none => rw [hcar] at this; simp at this ⊢; omega
          | some ss => rw [hcar] at this; simp at this ⊢; omega

/-- what a successful carve looks like: per entry a slice with the entry's name/count/size; the
non-empty ones are aligned, lie in `[lo, hi)` and follow each other without overlap -/
def Laid (lo hi : Nat) : List Entry → List Slice → Prop
  | [], [] => True
  | e :: es, s :: ss =>
    s.name = e.name ∧ s.count = e.count ∧ s.size = e.size ∧
    (if e.count = 0 then Laid lo hi es ss
     else lo ≤ s.addr ∧ s.addr % e.align = 0 ∧ s.addr + e.count * e.size ≤ hi ∧
          Laid (s.addr + e.count * e.size) hi es ss)
  | _, _ => False

theorem carve_laid : ∀ (prog : List Entry) (b : Buf) (ss : List Slice), AllAlign prog →
    b.addr + b.len < 18446744073709551616 → carve prog b = some ss →
    Laid b.addr (b.addr + b.len) prog ss := by
  intro prog
  induction prog with
  | nil => intro b ss _ _ h; simp [carve] at h; subst h; trivial
  | cons e es ih =>
    intro b ss hal hb h
    have he : IsAlign e.align := hal e (by simp)
    have hes : AllAlign es := fun x hx => hal x (by simp [hx])
    unfold carve allocSlice at h
    by_cases hc : e.count = 0
    · simp only [hc, if_true] at h
      cases hcar : carve es b with
      | none => rw [hcar] at h; simp at h
      | some ss' =>
        rw [hcar] at h; simp only [Option.some.injEq] at h; subst h
        exact ⟨rfl, hc.symm ▸ rfl, rfl, by simp only [hc, if_true]; exact ih b ss' hes hb hcar⟩
    · simp only [hc, if_false] at h
      rw [alignUp_spec b.addr e.align (by omega) he] at h
      have hoff : b.addr + pad b.addr e.align - b.addr = pad b.addr e.align := by omega
      simp only [hoff] at h
      by_cases h1 : pad b.addr e.align > b.len
      · simp [h1] at h
      · simp only [h1, if_false] at h
        by_cases h2 : e.count * e.size > b.len - pad b.addr e.align
        · simp [h2] at h
        · simp only [h2, if_false] at h
          cases hcar : carve es (Buf.mk (b.addr + pad b.addr e.align + e.count * e.size)
                       (b.len - pad b.addr e.align - e.count * e.size)) with
          | none => rw [hcar] at h; simp at h
          | some ss' =>
            rw [hcar] at h; simp only [Option.some.injEq] at h; subst h
            have hl := ih _ ss' hes (by simp only []; omega) hcar
            simp only [] at hl
            refine ⟨rfl, rfl, rfl, ?_⟩
            simp only [hc, if_false]
            refine ⟨by omega, pad_aligned _ _ he, by omega, ?_⟩
            have heq : b.addr + pad b.addr e.align + e.count * e.size +
                (b.len - pad b.addr e.align - e.count * e.size) = b.addr + b.len := by omega
            rw [heq] at hl
            exact hl

theorem laid_mono : ∀ (prog : List Entry) (ss : List Slice) (lo lo' hi : Nat), lo' ≤ lo →
    Laid lo hi prog ss → Laid lo' hi prog ss := by
  intro prog
  induction prog with
  | nil => intro ss lo lo' hi _ h; cases ss <;> simp_all [Laid]
  | cons e es ih =>
    intro ss lo lo' hi hle h
    cases ss with
    | nil => simp [Laid] at h
    | cons s ss =>
      obtain ⟨h1, h2, h3, h4⟩ := h
      refine ⟨h1, h2, h3, ?_⟩
      by_cases hc : e.count = 0
      · simp only [hc, if_true] at h4 ⊢; exact ih ss lo lo' hi hle h4
      · simp only [hc, if_false] at h4 ⊢
        exact ⟨by omega, h4.2.1, h4.2.2.1, h4.2.2.2⟩

/-- bytes occupied by a slice -/
def Slice.bytes (s : Slice) : Nat := s.count * s.size

theorem laid_length : ∀ (prog : List Entry) (ss : List Slice) (lo hi : Nat),
    Laid lo hi prog ss → ss.length = prog.length := by
  intro prog
  induction prog with
  | nil => intro ss lo hi h; cases ss <;> simp_all [Laid]
  | cons e es ih =>
    intro ss lo hi h
    cases ss with
    | nil => simp [Laid] at h
    | cons s ss =>
      obtain ⟨_, _, _, h4⟩ := h
      by_cases hc : e.count = 0
      · simp only [hc, if_true] at h4; simp [ih ss lo hi h4]
      · simp only [hc, if_false] at h4; simp [ih ss _ hi h4.2.2.2]

theorem laid_meta : ∀ (prog : List Entry) (ss : List Slice) (lo hi : Nat),
    Laid lo hi prog ss →
    ss.map (fun s => (s.name, s.count, s.size)) = prog.map (fun e => (e.name, e.count, e.size)) := by
  intro prog
  induction prog with
  | nil => intro ss lo hi h; cases ss <;> simp_all [Laid]
  | cons e es ih =>
    intro ss lo hi h
    cases ss with
    | nil => simp [Laid] at h
    | cons s ss =>
      obtain ⟨h1, h2, h3, h4⟩ := h
      by_cases hc : e.count = 0
      · simp only [hc, if_true] at h4; simp [ih ss lo hi h4, h1, h2, h3]
      · simp only [hc, if_false] at h4; simp [ih ss _ hi h4.2.2.2, h1, h2, h3]

/-- every non-empty slice lies inside `[lo, hi)` -/
theorem laid_within : ∀ (prog : List Entry) (ss : List Slice) (lo hi : Nat),
    Laid lo hi prog ss → ∀ s ∈ ss, s.count ≠ 0 → lo ≤ s.addr ∧ s.addr + s.bytes ≤ hi := by
  intro prog
  induction prog with
  | nil => intro ss lo hi h; cases ss <;> simp_all [Laid]
  | cons e es ih =>
    intro ss lo hi h
    cases ss with
    | nil => simp [Laid] at h
    | cons s ss =>
      obtain ⟨h1, h2, h3, h4⟩ := h
      intro t ht htc
      by_cases hc : e.count = 0
      · simp only [hc, if_true] at h4
        rcases List.mem_cons.mp ht with rfl | ht
        · omega
        · exact ih ss lo hi h4 t ht htc
      · simp only [hc, if_false] at h4
        rcases List.mem_cons.mp ht with rfl | ht
        · unfold Slice.bytes; rw [h2, h3]; exact ⟨h4.1, h4.2.2.1⟩
        · have := ih ss _ hi h4.2.2.2 t ht htc
          have hnn : 0 ≤ e.count * e.size := Nat.zero_le _
          omega

/-- non-empty slices are pairwise disjoint (in carve order, each ends before the next begins) -/
theorem laid_disjoint : ∀ (prog : List Entry) (ss : List Slice) (lo hi : Nat),
    Laid lo hi prog ss →
    ss.Pairwise (fun s t => s.count ≠ 0 → t.count ≠ 0 → s.addr + s.bytes ≤ t.addr) := by
  intro prog
  induction prog with
  | nil => intro ss lo hi h; cases ss <;> simp_all [Laid]
  | cons e es ih =>
    intro ss lo hi h
    cases ss with
    | nil => simp [Laid] at h
    | cons s ss =>
      obtain ⟨h1, h2, h3, h4⟩ := h
      by_cases hc : e.count = 0
      · simp only [hc, if_true] at h4
        refine List.Pairwise.cons ?_ (ih ss lo hi h4)
        intro t _ hs; omega
      · simp only [hc, if_false] at h4
        refine List.Pairwise.cons ?_ (ih ss _ hi h4.2.2.2)
        intro t ht _ htc
        have := laid_within es ss _ hi h4.2.2.2 t ht htc
        unfold Slice.bytes; rw [h2, h3]; exact this.1

/-- every non-empty slice is aligned for its element type -/
theorem laid_aligned : ∀ (prog : List Entry) (ss : List Slice) (lo hi : Nat),
    Laid lo hi prog ss → ∀ p ∈ prog.zip ss, p.2.count ≠ 0 → p.2.addr % p.1.align = 0 := by
  intro prog
  induction prog with
  | nil => intro ss lo hi h p hp; simp at hp
  | cons e es ih =>
    intro ss lo hi h
    cases ss with
    | nil => simp [Laid] at h
    | cons s ss =>
      obtain ⟨h1, h2, h3, h4⟩ := h
      intro p hp hpc
      simp only [List.zip_cons_cons, List.mem_cons] at hp
      by_cases hc : e.count = 0
      · simp only [hc, if_true] at h4
        rcases hp with rfl | hp
        · simp only [] at hpc; omega
        · exact ih ss lo hi h4 p hp hpc
      · simp only [hc, if_false] at h4
        rcases hp with rfl | hp
        · exact h4.2.1
        · exact ih ss _ hi h4.2.2.2 p hp hpc

/-! ### how many bytes are needed -/

/-- payload bytes of a program -/
def total : List Entry → Nat
  | [] => 0
  | e :: es => e.count * e.size + total es

/-- alignments descend along a divisibility chain starting below `A`, and each element size is a
multiple of its alignment: after the first padding no further padding is needed -/
def Chain (A : Nat) : List Entry → Prop
  | [] => True
  | e :: es => e.align ∣ A ∧ e.align ∣ e.size ∧ IsAlign e.align ∧ Chain e.align es

theorem mod_of_dvd_of_mod (a d A : Nat) (hd : d ∣ A) (h : a % A = 0) : a % d = 0 :=
  Nat.mod_eq_zero_of_dvd (Nat.dvd_trans hd (Nat.dvd_of_mod_eq_zero h))

theorem need_aligned : ∀ (prog : List Entry) (a A : Nat), Chain A prog → a % A = 0 →
    need prog a = total prog := by
  intro prog
  induction prog with
  | nil => intro a A _ _; rfl
  | cons e es ih =>
    intro a A hch ha
    obtain ⟨h1, h2, h3, h4⟩ := hch
    have hae : a % e.align = 0 := mod_of_dvd_of_mod a e.align A h1 ha
    unfold need total
    by_cases hc : e.count = 0
    · simp only [hc, if_true, Nat.zero_mul, Nat.zero_add]
      exact ih a e.align h4 hae
    · simp only [hc, if_false]
      rw [pad_zero a e.align h3 hae]
      have hnext : (a + 0 + e.count * e.size) % e.align = 0 := by
        apply Nat.mod_eq_zero_of_dvd
        rw [Nat.add_zero]
        exact Nat.dvd_add (Nat.dvd_of_mod_eq_zero hae) (Nat.dvd_mul_left_of_dvd h2 _)
      rw [ih _ e.align h4 hnext]; omega

theorem isAlign_pos {a : Nat} (h : IsAlign a) : 0 < a := by rcases h with rfl | rfl | rfl <;> omega

theorem need_le : ∀ (prog : List Entry) (a A : Nat), 0 < A → Chain A prog →
    need prog a ≤ total prog + (A - 1) := by
  intro prog
  induction prog with
  | nil => intro a A _ _; simp [need, total]
  | cons e es ih =>
    intro a A hA hch
    obtain ⟨h1, h2, h3, h4⟩ := hch
    have hle : e.align ≤ A := Nat.le_of_dvd hA h1
    unfold need total
    by_cases hc : e.count = 0
    · simp only [hc, if_true, Nat.zero_mul, Nat.zero_add]
      have := ih a e.align (isAlign_pos h3) h4
      omega
    · simp only [hc, if_false]
      have hp := pad_lt a e.align h3
      have hnext : (a + pad a e.align + e.count * e.size) % e.align = 0 := by
        apply Nat.mod_eq_zero_of_dvd
        exact Nat.dvd_add (Nat.dvd_of_mod_eq_zero (pad_aligned a e.align h3)) (Nat.dvd_mul_left_of_dvd h2 _)
      rw [need_aligned es _ e.align h4 hnext]; omega

theorem need_zero : ∀ (prog : List Entry) (a : Nat), (∀ e ∈ prog, e.count = 0) → need prog a = 0 := by
  intro prog
  induction prog with
  | nil => intro a _; rfl
  | cons e es ih =>
    intro a h
    unfold need
    simp only [h e (by simp), if_true]
    exact ih a (fun x hx => h x (by simp [hx]))

theorem need_append : ∀ (p q : List Entry) (a : Nat),
    need (p ++ q) a = need p a + need q (a + need p a) := by
  intro p
  induction p with
  | nil => intro q a; simp [need]
  | cons e es ih =>
    intro q a
    simp only [List.cons_append, need]
    by_cases hc : e.count = 0
    · simp only [hc, if_true]; exact ih q a
    · simp only [hc, if_false]
      rw [ih]
      have : a + pad a e.align + e.count * e.size + need es (a + pad a e.align + e.count * e.size)
          = a + (pad a e.align + e.count * e.size + need es (a + pad a e.align + e.count * e.size)) := by omega
      rw [this]; omega

theorem chain_allAlign : ∀ (prog : List Entry) (A : Nat), Chain A prog → AllAlign prog := by
  intro prog
  induction prog with
  | nil => intro A _ e he; simp at he
  | cons e es ih =>
    intro A h x hx
    rcases List.mem_cons.mp hx with rfl | hx
    · exact h.2.2.1
    · exact ih e.align h.2.2.2 x hx

/-! ### the two concrete programs -/

theorem ft_chain (c : Counts) (emb : Bool) : Chain 4 (ftProgram c emb) := by
  simp only [ftProgram, Chain, IsAlign]
  repeat' (apply And.intro)
  all_goals first | trivial | decide

theorem ft_total (c : Counts) (emb : Bool) :
    requiredBufferSize c emb =
      if total (ftProgram c emb) = 0 then 0 else total (ftProgram c emb) + 4 := by
  unfold requiredBufferSize
  simp only [ftProgram, total, cond]
  cases (c.hasHinting && emb) <;> cases c.hasVariations <;> simp <;> (repeat' split) <;> omega

theorem total_zero_counts : ∀ (prog : List Entry), (∀ e ∈ prog, 0 < e.size) → total prog = 0 →
    ∀ e ∈ prog, e.count = 0 := by
  intro prog
  induction prog with
  | nil => intro _ _ e he; simp at he
  | cons e es ih =>
    intro hs ht x hx
    unfold total at ht
    have h1 : e.count * e.size = 0 := by omega
    have h2 : total es = 0 := by omega
    rcases List.mem_cons.mp hx with rfl | hx
    · have := hs x (by simp)
      rcases Nat.mul_eq_zero.mp h1 with h | h <;> omega
    · exact ih (fun y hy => hs y (by simp [hy])) h2 x hx

theorem ft_sizes_pos (c : Counts) (emb : Bool) : ∀ e ∈ ftProgram c emb, 0 < e.size := by
  intro e he
  simp only [ftProgram, List.mem_cons, List.mem_nil_iff, or_false] at he
  rcases he with rfl | rfl | rfl | rfl | rfl | rfl | rfl | rfl | rfl | rfl | rfl | rfl | rfl | rfl <;> simp

theorem ft_need_le (c : Counts) (emb : Bool) (a : Nat) :
    need (ftProgram c emb) a ≤ requiredBufferSize c emb := by
  rw [ft_total]
  split
  · rename_i h
    rw [need_zero _ a (total_zero_counts _ (ft_sizes_pos c emb) h)]; omega
  · have := need_le (ftProgram c emb) a 4 (by omega) (ft_chain c emb)
    omega

/-- first half of `hbProgram` -/
def hbHead (c : Counts) : List Entry :=
  [ ⟨"points", 8, 4, c.points⟩, ⟨"contours", 2, 2, c.contours⟩, ⟨"flags", 1, 1, c.points⟩ ]
/-- second half of `hbProgram` (the variation buffers) -/
def hbTail (c : Counts) : List Entry :=
  [ ⟨"deltas", 8, 4, cond c.hasVariations c.maxSimplePoints⟩,
    ⟨"iup_buffer", 8, 4, cond c.hasVariations c.maxSimplePoints⟩,
    ⟨"composite_deltas", 8, 4, cond c.hasVariations c.maxComponentDeltaStack⟩ ]

theorem hb_split (c : Counts) : hbProgram c = hbHead c ++ hbTail c := rfl

theorem hbHead_chain (c : Counts) : Chain 4 (hbHead c) := by
  simp only [hbHead, Chain, IsAlign]
  repeat' (apply And.intro)
  all_goals first | trivial | decide

theorem hbTail_chain (c : Counts) : Chain 4 (hbTail c) := by
  simp only [hbTail, Chain, IsAlign]
  repeat' (apply And.intro)
  all_goals first | trivial | decide

theorem hb_allAlign (c : Counts) : AllAlign (hbProgram c) := by
  rw [hb_split]
  intro e he
  rcases List.mem_append.mp he with h | h
  · exact chain_allAlign _ 4 (hbHead_chain c) e h
  · exact chain_allAlign _ 4 (hbTail_chain c) e h

/-- `HarfBuzzOutlineMemory::new` needs at most the payload plus two paddings -/
theorem hb_need_le (c : Counts) (a : Nat) :
    need (hbProgram c) a ≤ total (hbHead c) + total (hbTail c) + 6 := by
  rw [hb_split, need_append]
  have h1 := need_le (hbHead c) a 4 (by omega) (hbHead_chain c)
  have h2 := need_le (hbTail c) (a + need (hbHead c) a) 4 (by omega) (hbTail_chain c)
  omega

/-! ### the metric records `Outlines::outline` produces -/

/-- as soon as any point, contour or simple glyph has been accounted for, `max_other_points` is
non-zero (every simple glyph sets it to at least its point count + 4 phantom points) -/
def AccInv (a : Acc) : Prop :=
  a.maxOtherPoints = 0 → a.points = 0 ∧ a.contours = 0 ∧ a.maxSimplePoints = 0

theorem outline_inv_both :
    (∀ (g : Glyph) (acc : Acc) (cd rd : Nat), AccInv acc → ∀ acc', outlineRec g acc cd rd = some acc' → AccInv acc') ∧
    (∀ (cs : List (Option Glyph)) (acc : Acc) (cd rd : Nat), AccInv acc → ∀ acc', outlineComps cs acc cd rd = some acc' → AccInv acc') := by
  apply outlineRec.mutual_induct
    (motive_1 := fun g acc cd rd => AccInv acc → ∀ acc', outlineRec g acc cd rd = some acc' → AccInv acc')
    (motive_2 := fun cs acc cd rd => AccInv acc → ∀ acc', outlineComps cs acc cd rd = some acc' → AccInv acc')
  · intro g acc cd rd hgt _ acc' h
    unfold outlineRec at h; simp [hgt] at h
  · intro acc cd rd hle np nc instr _ acc' h
    unfold outlineRec at h; simp only [hle, if_false, Option.some.injEq] at h
    subst h
    intro h0; simp only [] at h0; omega
  · intro acc cd rd hle comps instr count hnone _ _ acc' h
    unfold outlineRec at h; simp only [hle, if_false] at h
    rw [hnone] at h; simp at h
  · intro acc cd rd hle comps instr count acc1 hsome ih hinv acc' h
    unfold outlineRec at h; simp only [hle, if_false] at h
    rw [hsome] at h
    simp only [Option.some.injEq] at h
    have h1 := ih hinv acc1 hsome
    subst h
    cases instr
    · simpa [AccInv] using h1
    · intro h0; simp only [if_true] at h0; omega
  · intro acc cd rd hinv acc' h
    unfold outlineComps at h; simp only [Option.some.injEq] at h; subst h; exact hinv
  · intro rest acc cd rd ih hinv acc' h
    unfold outlineComps at h; exact ih hinv acc' h
  · intro g rest acc cd rd hnone _ _ acc' h
    unfold outlineComps at h; rw [hnone] at h; simp at h
  · intro g rest acc cd rd acc1 hsome ih1 ih2 hinv acc' h
    unfold outlineComps at h; rw [hsome] at h
    exact ih2 (ih1 hinv acc1 hsome) acc' h

/-- every record `Outlines::outline` returns has `max_other_points ≥ 1`, or describes an outline
with only the four phantom points (no contours, no simple glyph reached) -/
theorem outlineCounts_inv (f : FontLimits) (g : Option Glyph) (c : Counts)
    (h : outlineCounts f g = some c) :
    1 ≤ c.maxOtherPoints ∨ (c.points = 4 ∧ c.contours = 0 ∧ c.maxSimplePoints = 0) := by
  unfold outlineCounts at h
  have hinv0 : AccInv {} := by intro _; exact ⟨rfl, rfl, rfl⟩
  cases g with
  | none =>
    simp only [Option.some.injEq] at h; subst h; right; exact ⟨rfl, rfl, rfl⟩
  | some g =>
    simp only [] at h
    cases hr : outlineRec g {} 0 0 with
    | none => rw [hr] at h; simp at h
    | some a =>
      rw [hr] at h; simp only [Option.some.injEq] at h; subst h
      have := outline_inv_both.1 g {} 0 0 hinv0 a hr
      by_cases h0 : a.maxOtherPoints = 0
      · right; have := this h0; simp only []; omega
      · left; simp only []; omega

/-! ### the layout depends only on the counts and the base address modulo 4 -/

/-- the slices a successful carve yields, as a function of the base address only -/
def layoutAt : List Entry → Nat → List Slice
  | [], _ => []
  | e :: es, a =>
    if e.count = 0 then ⟨e.name, 0, 0, e.size⟩ :: layoutAt es a
    else ⟨e.name, a + pad a e.align, e.count, e.size⟩ :: layoutAt es (a + pad a e.align + e.count * e.size)

theorem carve_eq_layoutAt : ∀ (prog : List Entry) (b : Buf) (ss : List Slice), AllAlign prog →
    b.addr + b.len < 18446744073709551616 → carve prog b = some ss → ss = layoutAt prog b.addr := by
  intro prog
  induction prog with
  | nil => intro b ss _ _ h; simp [carve] at h; subst h; rfl
  | cons e es ih =>
    intro b ss hal hb h
    have he : IsAlign e.align := hal e (by simp)
    have hes : AllAlign es := fun x hx => hal x (by simp [hx])
    unfold carve allocSlice at h
    unfold layoutAt
    by_cases hc : e.count = 0
    · simp only [hc, if_true] at h ⊢
      cases hcar : carve es b with
      | none => rw [hcar] at h; simp at h
      | some ss' =>
        rw [hcar] at h; simp only [Option.some.injEq] at h; subst h
        rw [ih b ss' hes hb hcar]
    · simp only [hc, if_false] at h ⊢
      rw [alignUp_spec b.addr e.align (by omega) he] at h
      have hoff : b.addr + pad b.addr e.align - b.addr = pad b.addr e.align := by omega
      simp only [hoff] at h
      by_cases h1 : pad b.addr e.align > b.len
      · simp [h1] at h
      · simp only [h1, if_false] at h
        by_cases h2 : e.count * e.size > b.len - pad b.addr e.align
        · simp [h2] at h
        · simp only [h2, if_false] at h
          cases hcar : carve es (Buf.mk (b.addr + pad b.addr e.align + e.count * e.size)
                       (b.len - pad b.addr e.align - e.count * e.size)) with
          | none => rw [hcar] at h; simp at h
          | some ss' =>
            rw [hcar] at h; simp only [Option.some.injEq] at h; subst h
            have := ih _ ss' hes (by simp only []; omega) hcar
            simp only [] at this
            rw [this]

theorem pad_shift (a k al : Nat) (hal : IsAlign al) : pad (a + 4 * k) al = pad a al := by
  unfold pad; rcases hal with rfl | rfl | rfl <;> omega

/-- moving the base by a multiple of 4 moves every non-empty slice by the same amount -/
theorem layoutAt_shift : ∀ (prog : List Entry) (a k : Nat), AllAlign prog →
    layoutAt prog (a + 4 * k) =
      (layoutAt prog a).map (fun s => if s.count = 0 then s else { s with addr := s.addr + 4 * k }) := by
  intro prog
  induction prog with
  | nil => intro a k _; rfl
  | cons e es ih =>
    intro a k hal
    have he : IsAlign e.align := hal e (by simp)
    have hes : AllAlign es := fun x hx => hal x (by simp [hx])
    unfold layoutAt
    by_cases hc : e.count = 0
    · simp only [hc, if_true, List.map_cons]
      rw [ih a k hes]
    · simp only [hc, if_false, List.map_cons]
      rw [pad_shift a k e.align he]
      have : a + 4 * k + pad a e.align + e.count * e.size = a + pad a e.align + e.count * e.size + 4 * k := by omega
      rw [this, ih _ k hes]
      congr 1
      have : a + 4 * k + pad a e.align = a + pad a e.align + 4 * k := by omega
      rw [this]

end FontVerif.Carve
