/-
Helper lemmas for C03 (skrifa fixed-point / round-state kernels = FreeType's): machine-integer wrap
identities, bitwise-AND facts for the masks that occur (`& -64`, `& -32`), the option plumbing of the
overflow-checked skrifa model, and the 256-row SROUND/S45ROUND selector table.
-/
import FontVerif.Model.Fixed
import FontVerif.Model.FtCalc
import FontVerif.Model.FtRound
import FontVerif.Model.HintMath
import FontVerif.Model.HintRound
set_option linter.unusedVariables false
set_option linter.unusedSimpArgs false
namespace FontVerif.C03
open FontVerif

theorem wrapI32_id {x : Int} (h : inI32 x) : wrapI32 x = x := by
  unfold wrapI32 inI32 at *; simp only []; split <;> omega

theorem wrapI64_id {x : Int} (h : inI64 x) : wrapI64 x = x := by
  unfold wrapI64 inI64 at *; simp only []; split <;> omega

theorem moveSign_abs {x : Int} (h : inI64 x) : FtCalc.moveSign x = iabs x := by
  unfold FtCalc.moveSign iabs wrapU64 inI64 at *; split <;> omega

theorem i32_i64 {x : Int} (h : inI32 x) : inI64 x := by unfold inI32 inI64 at *; omega

theorem iabs_bound {x : Int} (h : inI32 x) : 0 ≤ iabs x ∧ iabs x ≤ 2147483648 := by
  unfold iabs inI32 at *; split <;> omega

theorem mul_bound {a b : Int} (ha : 0 ≤ a ∧ a ≤ 2147483648) (hb : 0 ≤ b ∧ b ≤ 2147483648) :
    0 ≤ a * b ∧ a * b ≤ 4611686018427387904 := by
  have h1 := Int.mul_nonneg ha.1 hb.1
  have h2 := Int.mul_le_mul ha.2 hb.2 hb.1 (by omega)
  omega

theorem landN_neg_one (n : Nat) : ∀ a : Int, -(2:Int)^n ≤ a → a < (2:Int)^n → landN n a (-1) = a := by
  induction n with
  | zero => intro a h1 h2; simp [landN] at *; omega
  | succ n ih =>
    intro a h1 h2
    rw [landN]
    have e1 : (-1 : Int) % 2 = 1 := by decide
    have e2 : (-1 : Int) / 2 = -1 := by decide
    rw [e1, e2, ih (a / 2) (by rw [Int.pow_succ] at h1; omega) (by rw [Int.pow_succ] at h2; omega)]
    omega

theorem landN_even (n : Nat) (x c : Int) : landN (n + 1) x (2 * c) = 2 * landN n (x / 2) c := by
  rw [landN]
  have e1 : (2 * c) % 2 = 0 := by omega
  have e2 : (2 * c) / 2 = c := by omega
  rw [e1, e2]; omega

theorem land_neg64 (x : Int) (h : inI64 x) : landInt x (-64) = x - x % 64 := by
  unfold landInt inI64 at *
  rw [show (64 : Nat) = 58 + 1 + 1 + 1 + 1 + 1 + 1 from rfl,
      show (-64 : Int) = 2 * (2 * (2 * (2 * (2 * (2 * (-1)))))) from by decide]
  rw [landN_even, landN_even, landN_even, landN_even, landN_even, landN_even]
  have e : (2 : Int) ^ 58 = 288230376151711744 := by decide
  rw [landN_neg_one 58 _ (by rw [e]; omega) (by rw [e]; omega)]
  omega

theorem land_neg32 (x : Int) (h : inI64 x) : landInt x (-32) = x - x % 32 := by
  unfold landInt inI64 at *
  rw [show (64 : Nat) = 59 + 1 + 1 + 1 + 1 + 1 from rfl,
      show (-32 : Int) = 2 * (2 * (2 * (2 * (2 * (-1))))) from by decide]
  rw [landN_even, landN_even, landN_even, landN_even, landN_even]
  have e : (2 : Int) ^ 59 = 576460752303423488 := by decide
  rw [landN_neg_one 59 _ (by rw [e]; omega) (by rw [e]; omega)]
  omega

theorem chk_some {x r : Int} (h : HintMath.chk x = some r) : r = x ∧ inI32 x := by
  unfold HintMath.chk at h; unfold inI32; split at h <;> simp at h; omega

theorem chk64_some {x r : Int} (h : HintMath.chk64 x = some r) : r = x ∧ inI64 x := by
  unfold HintMath.chk64 at h; unfold inI64; split at h <;> simp at h; omega

theorem chk_bind_iff {x : Int} {f : Int → Option Int} {r : Int} :
    (HintMath.chk x).bind f = some r ↔ (inI32 x ∧ f x = some r) := by
  unfold HintMath.chk inI32
  split
  · simp; omega
  · simp; omega

theorem chk_map_iff {x : Int} {f : Int → Int} {r : Int} :
    (HintMath.chk x).map f = some r ↔ (inI32 x ∧ f x = r) := by
  unfold HintMath.chk inI32
  split
  · simp; omega
  · simp; omega

theorem chk_iff {x r : Int} : HintMath.chk x = some r ↔ (inI32 x ∧ x = r) := by
  unfold HintMath.chk inI32
  split
  · simp; omega
  · simp; omega

theorem wI64 {x : Int} (h1 : -9223372036854775808 ≤ x) (h2 : x < 9223372036854775808) :
    wrapI64 x = x := by
  unfold wrapI64; simp only []; split <;> omega

theorem super_round_byte (g sel : Int) :
    HintRound.superRound g sel = HintRound.superRound g (sel % 256) ∧
    FtRound.setSuperRound g sel = FtRound.setSuperRound g (sel % 256) := by
  unfold HintRound.superRound FtRound.setSuperRound
  have e1 : sel % 256 / 64 % 4 = sel / 64 % 4 := by omega
  have e2 : sel % 256 / 16 % 4 = sel / 16 % 4 := by omega
  have e3 : sel % 256 % 16 = sel % 16 := by omega
  simp only [e1, e2, e3, and_self]

theorem super_round_table :
    ∀ k : Fin 256, HintRound.superRound 16384 k.val = some (FtRound.setSuperRound 16384 k.val) ∧
      HintRound.superRound 11585 k.val = some (FtRound.setSuperRound 11585 k.val) := by
  decide +kernel

theorem land_neg32' (x : Int) (h1 : -9223372036854775808 ≤ x) (h2 : x < 9223372036854775808) :
    landInt x (-32) = x - x % 32 := land_neg32 x ⟨h1, h2⟩

theorem wI32 {x : Int} (h1 : -2147483648 ≤ x) (h2 : x < 2147483648) : wrapI32 x = x := by
  unfold wrapI32; simp only []; split <;> omega

theorem landN_zero_left (n : Nat) (b : Int) : landN n 0 b = 0 := by
  induction n generalizing b with
  | zero => simp [landN]
  | succ n ih => rw [landN]; simp [ih]
theorem landN_zero_right (n : Nat) (a : Int) : landN n a 0 = 0 := by
  induction n generalizing a with
  | zero => simp [landN]
  | succ n ih => rw [landN]; simp [ih]
theorem landN_neg1_neg1 (n : Nat) : landN n (-1) (-1) = -1 := by
  induction n with
  | zero => simp [landN]
  | succ n ih =>
    rw [landN, show (-1 : Int) / 2 = -1 from by decide, show (-1 : Int) % 2 = 1 from by decide, ih]
    decide

/-- AND with a non-negative left operand clears bits: `0 ≤ a & b ≤ a`. -/
theorem landN_nonneg_left (n : Nat) : ∀ a b : Int, 0 ≤ a → 0 ≤ landN n a b ∧ landN n a b ≤ a := by
  induction n with
  | zero => intro a b h; simp [landN]; split <;> omega
  | succ n ih =>
    intro a b h
    rw [landN]
    have := ih (a / 2) (b / 2) (by omega)
    have hb : 0 ≤ b % 2 ∧ b % 2 ≤ 1 := by omega
    have ha : 0 ≤ a % 2 ∧ a % 2 ≤ 1 := by omega
    have hm : 0 ≤ a % 2 * (b % 2) ∧ a % 2 * (b % 2) ≤ a % 2 := by
      rcases (show b % 2 = 0 ∨ b % 2 = 1 by omega) with e | e <;> rw [e] <;> omega
    generalize a % 2 * (b % 2) = m at *
    omega

/-- two's-complement AND stays within the operands' width. -/
theorem landN_bound (n : Nat) : ∀ (k : Nat) (a b : Int), -(2:Int)^k ≤ a → a < (2:Int)^k →
    -(2:Int)^k ≤ b → b < (2:Int)^k → -(2:Int)^k ≤ landN n a b ∧ landN n a b < (2:Int)^k := by
  induction n with
  | zero =>
    intro k a b _ _ _ _
    have : (0:Int) < 2 ^ k := Int.pow_pos (by decide)
    simp [landN]; split <;> omega
  | succ n ih =>
    intro k a b ha1 ha2 hb1 hb2
    cases k with
    | zero =>
      simp at ha1 ha2 hb1 hb2
      rcases (show a = 0 ∨ a = -1 by omega) with e | e
      · subst e; rw [landN_zero_left]; simp
      · rcases (show b = 0 ∨ b = -1 by omega) with e' | e'
        · subst e'; rw [landN_zero_right]; simp
        · subst e; subst e'; rw [landN_neg1_neg1]; simp
    | succ k =>
      rw [landN]
      rw [Int.pow_succ] at ha1 ha2 hb1 hb2 ⊢
      have := ih k (a / 2) (b / 2) (by omega) (by omega) (by omega) (by omega)
      have hm : 0 ≤ a % 2 * (b % 2) ∧ a % 2 * (b % 2) ≤ 1 := by
        rcases (show b % 2 = 0 ∨ b % 2 = 1 by omega) with e | e <;> rw [e] <;> omega
      generalize a % 2 * (b % 2) = m at *
      omega

/-- the AND in `Round_Super` for a state and distance in the stated ranges. -/
theorem land_super_bound (s m : Int) (hs : -4194304 ≤ s ∧ s ≤ 1077936128)
    (hm : -4194304 ≤ m ∧ m < 4194304) :
    -4194304 ≤ landInt s m ∧ landInt s m ≤ 1077936128 := by
  unfold landInt
  by_cases h0 : 0 ≤ s
  · have := landN_nonneg_left 64 s m h0; omega
  · have e : (2:Int)^22 = 4194304 := by decide
    have := landN_bound 64 22 s m (by rw [e]; omega) (by rw [e]; omega) (by rw [e]; omega) (by rw [e]; omega)
    rw [e] at this; omega

/-- truncating division by a positive period, then multiplying back, stays between 0 and the dividend. -/
theorem tdiv_mul_bound (s per : Int) (hp : 0 < per) :
    (0 ≤ s → 0 ≤ Int.tdiv s per ∧ Int.tdiv s per ≤ s ∧ 0 ≤ Int.tdiv s per * per ∧ Int.tdiv s per * per ≤ s) ∧
    (s < 0 → s ≤ Int.tdiv s per ∧ Int.tdiv s per ≤ 0 ∧ s ≤ Int.tdiv s per * per ∧ Int.tdiv s per * per ≤ 0) := by
  constructor
  · intro h
    rw [Int.tdiv_eq_ediv_of_nonneg h]
    have h1 := Int.ediv_mul_le s (Int.ne_of_gt hp)
    have h2 : 0 ≤ s / per := Int.ediv_nonneg h (Int.le_of_lt hp)
    have h3 : s / per ≤ s := Int.ediv_le_self _ h
    have h4 := Int.mul_nonneg h2 (Int.le_of_lt hp)
    exact ⟨h2, h3, h4, h1⟩
  · intro h
    have e : Int.tdiv s per = -((-s) / per) := by
      rw [show s = -(-s) from by omega, Int.neg_tdiv, Int.tdiv_eq_ediv_of_nonneg (by omega)]; simp
    rw [e]
    have h1 := Int.ediv_mul_le (-s) (Int.ne_of_gt hp)
    have h2 : 0 ≤ (-s) / per := Int.ediv_nonneg (by omega) (Int.le_of_lt hp)
    have h3 : (-s) / per ≤ -s := Int.ediv_le_self _ (by omega)
    have h4 := Int.mul_nonneg h2 (Int.le_of_lt hp)
    have e2 : -(-s / per) * per = -((-s / per) * per) := Int.neg_mul _ _
    rw [e2]
    generalize (-s / per) * per = m at *
    omega

/-- `FT_MulFix` looks at the low 32 bits of its operands only. -/
theorem mulFix_wrap_right (a b : Int) : FtCalc.mulFix a b = FtCalc.mulFix a (wrapI32 b) := by
  unfold FtCalc.mulFix FtCalc.mulFixX8664
  have : wrapI32 (wrapI32 b) = wrapI32 b := by unfold wrapI32; simp only []; split <;> split <;> omega
  simp only [this]

theorem mul_small (c s : Int) (hc : -131072 ≤ c ∧ c ≤ 131072) (hs : 0 ≤ s ∧ s ≤ 4194304) :
    -8388608 ≤ Fixed.mul c s ∧ Fixed.mul c s ≤ 8388608 := by
  unfold Fixed.mul
  have h1 : c * s ≤ 131072 * 4194304 := by
    have := Int.mul_le_mul hc.2 hs.2 hs.1 (by omega); omega
  have h2 : -(131072 * 4194304) ≤ c * s := by
    have := Int.mul_le_mul (show -c ≤ 131072 by omega) hs.2 hs.1 (by omega)
    rw [Int.neg_mul] at this; omega
  generalize c * s = q at *
  simp only []
  unfold wrapI32; simp only []
  split <;> split <;> omega

end FontVerif.C03
