/-
C04 ⇄ C05 bridge, part 1: the invariant of `TableWriter` / `ObjectStore` (Model/TableWriter.lean) and what
`writeFields` leaves in the store (`RepLinks`).
-/
import FontVerif.Lemmas.TableWriterDefs
set_option linter.unusedVariables false
set_option linter.unusedSimpArgs false
namespace FontVerif.TableWriter
open FontVerif FontVerif.Graph

/-! ### the store -/

theorem find?_some (s : Store) (d : TData) (id : Nat) (h : s.find? d = some id) :
    ∃ d', (d', id) ∈ s ∧ d'.bytes = d.bytes ∧ d'.offsets = d.offsets := by
  induction s with
  | nil => simp [Store.find?] at h
  | cons e rest ih =>
    obtain ⟨d', id'⟩ := e
    simp only [Store.find?] at h
    split at h
    · rename_i hs
      simp only [Option.some.injEq] at h
      subst h
      simp only [TData.same, Bool.and_eq_true, decide_eq_true_eq] at hs
      exact ⟨d', List.mem_cons_self, hs.1, hs.2⟩
    · obtain ⟨d'', hm, hb⟩ := ih h
      exact ⟨d'', List.mem_cons_of_mem _ hm, hb⟩

theorem find?_none (s : Store) (d : TData) (h : s.find? d = none) : ∀ e ∈ s, e.1.same d = false := by
  induction s with
  | nil => intro e he; cases he
  | cons e rest ih =>
    obtain ⟨d', id'⟩ := e
    simp only [Store.find?] at h
    split at h
    · simp at h
    · rename_i hs
      intro e he
      rcases List.mem_cons.mp he with rfl | he
      · simpa using hs
      · exact ih h e he

theorem find?_isSome_of_mem (s : Store) (d : TData) (e : TData × Nat) (he : e ∈ s) (hs : e.1.same d = true) :
    s.find? d ≠ none := by
  intro hn
  have := find?_none s d hn e he
  rw [hs] at this
  cases this

/-- what `TableData` guarantees while it is being written, relative to the writer state: every recorded offset has
width 2/3/4, lies inside the bytes written so far, the fields are pairwise disjoint, and every target is an id that has
been drawn and is in the store -/
structure CurOK (ids : Nat → Nat) (cur : TData) (w : Writer) : Prop where
  inside : ∀ l ∈ cur.offsets, (l.width = 2 ∨ l.width = 3 ∨ l.width = 4) ∧ l.pos + l.width ≤ cur.bytes.length
  disj : cur.offsets.Pairwise Disjoint
  targets : ∀ l ∈ cur.offsets, ∃ j, j < w.next ∧ l.target = ids j ∧ ∃ e ∈ w.tables, e.2 = l.target

/-- the invariant of the object store -/
structure Inv (ids : Nat → Nat) (w : Writer) : Prop where
  drawn : ∀ e ∈ w.tables, ∃ j, j < w.next ∧ e.2 = ids j
  nodup : (w.tables.map (·.2)).Nodup
  /-- every offset of a stored object points to an object that is in the store and whose id was drawn EARLIER -/
  ranked : ∀ e ∈ w.tables, ∀ j, e.2 = ids j → ∀ l ∈ e.1.offsets,
    ∃ j', j' < j ∧ l.target = ids j' ∧ ∃ e' ∈ w.tables, e'.2 = l.target
  wf : ∀ e ∈ w.tables, ObjWF (toObj e.1)
  /-- the association list is a `HashMap`: no two keys are equal under `TableData`'s `Eq` -/
  distinct : w.tables.Pairwise (fun a b => a.1.same b.1 = false)

/-- `w'` extends `w`: nothing is removed or changed, the id counter only grows -/
structure Ext (w w' : Writer) : Prop where
  sub : ∀ e ∈ w.tables, e ∈ w'.tables
  next : w.next ≤ w'.next

theorem Ext.refl (w : Writer) : Ext w w := ⟨fun _ h => h, Nat.le_refl _⟩

theorem Ext.trans {a b c : Writer} (h1 : Ext a b) (h2 : Ext b c) : Ext a c :=
  ⟨fun e he => h2.sub e (h1.sub e he), Nat.le_trans h1.next h2.next⟩

theorem CurOK.mono {ids : Nat → Nat} {cur : TData} {w w' : Writer} (h : CurOK ids cur w) (he : Ext w w') :
    CurOK ids cur w' :=
  ⟨h.inside, h.disj, fun l hl => by
    obtain ⟨j, hj, ht, e, hem, hee⟩ := h.targets l hl
    exact ⟨j, Nat.lt_of_lt_of_le hj he.next, ht, e, he.sub e hem, hee⟩⟩

theorem same_symm (a b : TData) : a.same b = b.same a := by
  unfold TData.same
  by_cases h1 : a.bytes = b.bytes <;> by_cases h2 : a.offsets = b.offsets <;> simp [h1, h2, eq_comm]

theorem add_found (ids : Nat → Nat) (w : Writer) (d : TData) (id : Nat) (h : w.tables.find? d = some id) :
    w.add ids d = (id, w) := by
  simp [Writer.add, h]

theorem add_new (ids : Nat → Nat) (w : Writer) (d : TData) (h : w.tables.find? d = none) :
    w.add ids d = (ids w.next, { w with tables := w.tables ++ [(d, ids w.next)], next := w.next + 1 }) := by
  simp [Writer.add, h]

/-- **`ObjectStore::add`**: the returned id names an object with exactly the bytes and offset records that were added;
the store is only extended; the invariant is kept. -/
theorem add_spec (ids : Nat → Nat) (hinj : Function.Injective ids) (w : Writer) (d : TData)
    (hinv : Inv ids w) (hd : CurOK ids d w) :
    Inv ids (w.add ids d).2 ∧ Ext w (w.add ids d).2 ∧ (w.add ids d).2.adj = w.adj ∧
    (∃ j, j < (w.add ids d).2.next ∧ (w.add ids d).1 = ids j) ∧
    ∃ d', (d', (w.add ids d).1) ∈ (w.add ids d).2.tables ∧ d'.bytes = d.bytes ∧ d'.offsets = d.offsets := by
  cases hf : w.tables.find? d with
  | some id =>
    rw [add_found ids w d id hf]
    obtain ⟨d', hm, hb, ho⟩ := find?_some w.tables d id hf
    obtain ⟨j, hj, hid⟩ := hinv.drawn (d', id) hm
    exact ⟨hinv, Ext.refl w, rfl, ⟨j, hj, hid⟩, d', hm, hb, ho⟩
  | none =>
    rw [add_new ids w d hf]
    have hnone := find?_none w.tables d hf
    have hfresh : ∀ e ∈ w.tables, e.2 ≠ ids w.next := by
      intro e he heq
      obtain ⟨j, hj, hid⟩ := hinv.drawn e he
      rw [heq] at hid
      have := hinj hid
      omega
    refine ⟨?_, ⟨fun e he => List.mem_append_left _ he, Nat.le_succ _⟩, rfl, ⟨w.next, Nat.lt_succ_self _, rfl⟩,
      d, List.mem_append_right _ List.mem_cons_self, rfl, rfl⟩
    constructor
    · intro e he
      rcases List.mem_append.mp he with he | he
      · obtain ⟨j, hj, hid⟩ := hinv.drawn e he
        exact ⟨j, Nat.lt_succ_of_lt hj, hid⟩
      · simp only [List.mem_singleton] at he
        subst he
        exact ⟨w.next, Nat.lt_succ_self _, rfl⟩
    · simp only [List.map_append, List.map_cons, List.map_nil]
      rw [List.nodup_append]
      refine ⟨hinv.nodup, by simp, ?_⟩
      intro a ha b hb
      simp only [List.mem_singleton] at hb
      subst hb
      obtain ⟨e, he, rfl⟩ := List.mem_map.mp ha
      exact hfresh e he
    · intro e he j hj l hl
      rcases List.mem_append.mp he with he | he
      · obtain ⟨j', hj', ht, e', he', hee⟩ := hinv.ranked e he j hj l hl
        exact ⟨j', hj', ht, e', List.mem_append_left _ he', hee⟩
      · simp only [List.mem_singleton] at he
        subst he
        simp only [] at hj hl
        have hjj : j = w.next := (hinj hj).symm
        obtain ⟨j', hj', ht, e', he', hee⟩ := hd.targets l hl
        exact ⟨j', by omega, ht, e', List.mem_append_left _ he', hee⟩
    · intro e he
      rcases List.mem_append.mp he with he | he
      · exact hinv.wf e he
      · simp only [List.mem_singleton] at he
        subst he
        exact ⟨hd.inside, hd.disj⟩
    · rw [List.pairwise_append]
      refine ⟨hinv.distinct, by simp, ?_⟩
      intro a ha b hb
      simp only [List.mem_singleton] at hb
      subst hb
      exact hnone a ha

/-! ### what the writer leaves in the store -/

/-- `ls` are the offset records the calls `fs` append to a `TableData` of `len` bytes under adjustment `a`, as found in
the store `s`: in slot order, each at the byte where its placeholder starts, with the recorded width and the adjustment
in force, and its target is a stored object whose bytes are the child's and whose records are, recursively, the child's -/
def RepLinks (s : Store) : Fields → Nat → Nat → List Link → Prop
  | .nil, _, _, ls => ls = []
  | .bytes bs rest, len, a, ls => RepLinks s rest (len + bs.length) a ls
  | .null w rest, len, a, ls => RepLinks s rest (len + w) a ls
  | .link w _ child rest, len, a, ls =>
    ∃ l ls', ls = l :: ls' ∧ l.pos = len % U32 ∧ l.width = lenOf w ∧ l.adj = adjAfter child a ∧
      (∃ d, (d, l.target) ∈ s ∧ d.bytes = flat child 0 ∧ RepLinks s child 0 a d.offsets) ∧
      RepLinks s rest (len + min w 4) (adjAfter child a) ls'
  | .adjust n body rest, len, _, ls =>
    ∃ l1 l2, ls = l1 ++ l2 ∧ RepLinks s body len n l1 ∧ RepLinks s rest (len + (flat body len).length) 0 l2
  | .pad2 rest, len, a, ls => RepLinks s rest (len + (if len % 2 ≠ 0 then 1 else 0)) a ls

theorem RepLinks.mono (s s' : Store) (hs : ∀ e ∈ s, e ∈ s') (fs : Fields) :
    ∀ len a ls, RepLinks s fs len a ls → RepLinks s' fs len a ls := by
  induction fs with
  | nil => intro len a ls h; exact h
  | bytes bs rest ih => intro len a ls h; exact ih _ _ _ h
  | null w rest ih => intro len a ls h; exact ih _ _ _ h
  | link w ty child rest ihc ihr =>
    intro len a ls h
    obtain ⟨l, ls', h1, h2, h3, h4, ⟨d, hm, hb, hc⟩, hr⟩ := h
    exact ⟨l, ls', h1, h2, h3, h4, ⟨d, hs _ hm, hb, ihc _ _ _ hc⟩, ihr _ _ _ hr⟩
  | adjust n body rest ihb ihr =>
    intro len a ls h
    obtain ⟨l1, l2, h1, hb, hr⟩ := h
    exact ⟨l1, l2, h1, ihb _ _ _ hb, ihr _ _ _ hr⟩
  | pad2 rest ih => intro len a ls h; exact ih _ _ _ h

/-- the static side conditions on a value tree: every offset slot is at least 2 bytes wide (`OffsetMarker<T, N>` is only
instantiated with `N` = 2, 3, 4) and every child table is shorter than 4 GiB -/
def Fields.Ok : Fields → Prop
  | .nil => True
  | .bytes _ rest => rest.Ok
  | .null _ rest => rest.Ok
  | .link w _ child rest => 2 ≤ w ∧ (flat child 0).length < U32 ∧ child.Ok ∧ rest.Ok
  | .adjust _ body rest => body.Ok ∧ rest.Ok
  | .pad2 rest => rest.Ok

def Table.Ok (t : Table) : Prop := (flat t.fields 0).length < U32 ∧ t.fields.Ok

theorem lenOf_cases (w : Nat) : lenOf w = 2 ∨ lenOf w = 3 ∨ lenOf w = 4 := by
  unfold lenOf
  split
  · exact Or.inl rfl
  · split
    · exact Or.inr (Or.inl rfl)
    · exact Or.inr (Or.inr rfl)

theorem lenOf_le (w : Nat) (h : 2 ≤ w) : lenOf w ≤ min w 4 := by
  unfold lenOf
  split
  · omega
  · split <;> omega

theorem curOK_writeBytes (ids : Nat → Nat) (cur : TData) (w : Writer) (bs : List Nat) (h : CurOK ids cur w) :
    CurOK ids (cur.writeBytes bs) w :=
  ⟨fun l hl => by
    have := h.inside l hl
    simp only [TData.writeBytes, List.length_append]
    exact ⟨this.1, by omega⟩, h.disj, h.targets⟩

theorem curOK_empty (ids : Nat → Nat) (w : Writer) : CurOK ids TData.empty w :=
  ⟨fun l hl => (by cases hl), List.Pairwise.nil, fun l hl => (by cases hl)⟩

theorem curOK_addOffset (ids : Nat → Nat) (cur : TData) (w : Writer) (id width adj : Nat) (h : CurOK ids cur w)
    (hw : 2 ≤ width) (hlen : cur.bytes.length < U32)
    (hid : ∃ j, j < w.next ∧ id = ids j ∧ ∃ e ∈ w.tables, e.2 = id) :
    CurOK ids (cur.addOffset id width adj) w := by
  have hmod : cur.bytes.length % U32 = cur.bytes.length := Nat.mod_eq_of_lt hlen
  have hle := lenOf_le width hw
  constructor
  · intro l hl
    simp only [TData.addOffset, List.mem_append, List.mem_singleton] at hl
    simp only [TData.addOffset, List.length_append, List.length_replicate]
    rcases hl with hl | rfl
    · have := h.inside l hl
      exact ⟨this.1, by omega⟩
    · simp only []
      exact ⟨lenOf_cases width, by omega⟩
  · simp only [TData.addOffset]
    rw [List.pairwise_append]
    refine ⟨h.disj, by simp, ?_⟩
    intro a ha b hb
    simp only [List.mem_singleton] at hb
    subst hb
    have := (h.inside a ha).2
    unfold Disjoint
    simp only []
    omega
  · intro l hl
    simp only [TData.addOffset, List.mem_append, List.mem_singleton] at hl
    rcases hl with hl | rfl
    · exact h.targets l hl
    · exact hid

@[simp] theorem empty_bytes : TData.empty.bytes = [] := rfl
@[simp] theorem empty_offsets : TData.empty.offsets = [] := rfl
@[simp] theorem empty_ty : TData.empty.ty = TType.other := rfl

theorem Inv.setAdj {ids : Nat → Nat} {w : Writer} (h : Inv ids w) (a : Nat) : Inv ids { w with adj := a } :=
  ⟨h.drawn, h.nodup, h.ranked, h.wf, h.distinct⟩

theorem CurOK.setAdj {ids : Nat → Nat} {cur : TData} {w : Writer} (h : CurOK ids cur w) (a : Nat) :
    CurOK ids cur { w with adj := a } :=
  ⟨h.inside, h.disj, h.targets⟩

/-- what one run of `writeFields` establishes -/
structure Spec (ids : Nat → Nat) (fs : Fields) (cur : TData) (w : Writer) (r : TData × Writer) : Prop where
  inv : Inv ids r.2
  ext : Ext w r.2
  adj : r.2.adj = adjAfter fs w.adj
  ty : r.1.ty = cur.ty
  bytes : r.1.bytes = cur.bytes ++ flat fs cur.bytes.length
  curOk : CurOK ids r.1 r.2
  links : ∃ ls, r.1.offsets = cur.offsets ++ ls ∧ RepLinks r.2.tables fs cur.bytes.length w.adj ls

/-- **`write_into` on a `TableWriter`**: whatever the store held before (so: with any amount of sharing), the calls `fs`
append exactly `flat fs` to the current table, record exactly the offsets of the non-null slots of `fs` (in order, at
their placeholders, with the adjustment in force), each pointing at a stored object that is the child; the store is only
extended and stays well formed. -/
theorem writeFields_spec (ids : Nat → Nat) (hinj : Function.Injective ids) (fs : Fields) :
    ∀ (cur : TData) (w : Writer), Inv ids w → CurOK ids cur w → fs.Ok →
      cur.bytes.length + (flat fs cur.bytes.length).length < U32 →
      Spec ids fs cur w (writeFields ids fs cur w) := by
  induction fs with
  | nil =>
    intro cur w hinv hcur hok hlen
    exact ⟨hinv, Ext.refl w, rfl, rfl, by simp [writeFields, flat], hcur, [], by simp [writeFields], rfl⟩
  | bytes bs rest ih =>
    intro cur w hinv hcur hok hlen
    simp only [flat, List.length_append] at hlen
    have h := ih (cur.writeBytes bs) w hinv (curOK_writeBytes ids cur w bs hcur) hok
      (by simp only [TData.writeBytes, List.length_append]; omega)
    simp only [writeFields]
    obtain ⟨h1, h2, h3, h4, h5, h6, ls, h7, h8⟩ := h
    refine ⟨h1, h2, h3, h4, ?_, h6, ls, h7, ?_⟩
    · rw [h5]; simp [TData.writeBytes, flat]
    · simpa [TData.writeBytes, RepLinks] using h8
  | null wd rest ih =>
    intro cur w hinv hcur hok hlen
    simp only [flat, List.length_append, List.length_replicate] at hlen
    have h := ih (cur.writeBytes (List.replicate wd 0)) w hinv (curOK_writeBytes ids cur w _ hcur) hok
      (by simp only [TData.writeBytes, List.length_append, List.length_replicate]; omega)
    simp only [writeFields]
    obtain ⟨h1, h2, h3, h4, h5, h6, ls, h7, h8⟩ := h
    refine ⟨h1, h2, h3, h4, ?_, h6, ls, h7, ?_⟩
    · rw [h5]; simp [TData.writeBytes, flat]
    · simpa [TData.writeBytes, RepLinks] using h8
  | pad2 rest ih =>
    intro cur w hinv hcur hok hlen
    simp only [writeFields]
    by_cases hp : cur.bytes.length % 2 ≠ 0
    · simp only [flat, if_pos hp, List.length_append, List.length_cons, List.length_nil, Nat.zero_add] at hlen
      have h := ih (cur.writeBytes [0]) w hinv (curOK_writeBytes ids cur w _ hcur) hok
        (by simp only [TData.writeBytes, List.length_append, List.length_cons, List.length_nil, Nat.zero_add]; omega)
      rw [if_pos hp]
      obtain ⟨h1, h2, h3, h4, h5, h6, ls, h7, h8⟩ := h
      refine ⟨h1, h2, h3, h4, ?_, h6, ls, h7, ?_⟩
      · rw [h5]; simp [TData.writeBytes, flat, hp]
      · simpa [TData.writeBytes, RepLinks, hp] using h8
    · simp only [flat, if_neg hp, List.nil_append, Nat.add_zero] at hlen
      have h := ih cur w hinv hcur hok hlen
      rw [if_neg hp]
      obtain ⟨h1, h2, h3, h4, h5, h6, ls, h7, h8⟩ := h
      refine ⟨h1, h2, h3, h4, ?_, h6, ls, h7, ?_⟩
      · rw [h5]; simp [flat, hp]
      · simpa [RepLinks, hp] using h8
  | adjust n body rest ihb ihr =>
    intro cur w hinv hcur hok hlen
    simp only [flat, List.length_append] at hlen
    have hb := ihb cur { w with adj := n } (hinv.setAdj n) (hcur.setAdj n) hok.1 (by omega)
    obtain ⟨b1, b2, b3, b4, b5, b6, l1, b7, b8⟩ := hb
    have hlen1 : (writeFields ids body cur { w with adj := n }).1.bytes.length
        = cur.bytes.length + (flat body cur.bytes.length).length := by rw [b5]; simp
    have hr := ihr (writeFields ids body cur { w with adj := n }).1
      { (writeFields ids body cur { w with adj := n }).2 with adj := 0 } (b1.setAdj 0) (b6.setAdj 0) hok.2
      (by rw [hlen1]; omega)
    obtain ⟨r1, r2, r3, r4, r5, r6, l2, r7, r8⟩ := hr
    simp only [writeFields]
    refine ⟨r1, ⟨fun e he => r2.sub e (b2.sub e he), Nat.le_trans b2.next r2.next⟩, ?_, r4.trans b4, ?_, r6,
      l1 ++ l2, ?_, ?_⟩
    · rw [r3]; simp [adjAfter]
    · rw [r5, hlen1, b5]; simp [flat]
    · rw [r7, b7]; simp
    · refine ⟨l1, l2, rfl, ?_, ?_⟩
      · exact RepLinks.mono _ _ (fun e he => r2.sub e he) body _ _ _ b8
      · rw [hlen1] at r8; exact r8
  | link wd ty child rest ihc ihr =>
    intro cur w hinv hcur hok hlen
    obtain ⟨hw2, hclen, hokc, hokr⟩ := hok
    simp only [flat, List.length_append, List.length_replicate] at hlen
    have hc := ihc TData.empty w hinv (curOK_empty ids w) hokc (by simpa [TData.empty] using hclen)
    simp only [writeFields]
    generalize writeFields ids child TData.empty w = rc at hc ⊢
    obtain ⟨c1, c2, c3, c4, c5, c6, lc, c7, c8⟩ := hc
    simp only [empty_bytes, empty_offsets, List.nil_append, List.length_nil] at c5 c7 c8
    -- the child is added to the store
    have hd : CurOK ids { rc.1 with ty := ty } rc.2 := ⟨c6.inside, c6.disj, c6.targets⟩
    have ha := add_spec ids hinj rc.2 { rc.1 with ty := ty } c1 hd
    generalize rc.2.add ids { rc.1 with ty := ty } = ra at ha ⊢
    obtain ⟨a1, a2, a3, ⟨j, hj, hidj⟩, d', hm, hdb, hdo⟩ := ha
    simp only [] at hdb hdo
    -- the offset is recorded in the parent
    have hcur2 := curOK_addOffset ids cur ra.2 ra.1 wd ra.2.adj
      (hcur.mono (c2.trans a2)) hw2 (by omega) ⟨j, hj, hidj, (d', ra.1), hm, rfl⟩
    have hr := ihr (cur.addOffset ra.1 wd ra.2.adj) ra.2 a1 hcur2 hokr
      (by simp only [TData.addOffset, List.length_append, List.length_replicate]; omega)
    generalize writeFields ids rest (cur.addOffset ra.1 wd ra.2.adj) ra.2 = rr at hr ⊢
    obtain ⟨r1, r2, r3, r4, r5, r6, lr, r7, r8⟩ := hr
    have hadj : ra.2.adj = adjAfter child w.adj := by rw [a3, c3]
    refine ⟨r1, (c2.trans a2).trans r2, ?_, ?_, ?_, r6,
      (⟨cur.bytes.length % U32, lenOf wd, ra.1, ra.2.adj⟩ : Link) :: lr, ?_, ?_⟩
    · rw [r3, hadj]; simp [adjAfter]
    · rw [r4]; simp [TData.addOffset]
    · rw [r5]; simp [TData.addOffset, flat]
    · rw [r7]; simp [TData.addOffset]
    · refine ⟨_, lr, rfl, rfl, rfl, hadj, ⟨d', r2.sub _ hm, ?_, ?_⟩, ?_⟩
      · rw [hdb, c5]
      · rw [hdo, c7]
        exact RepLinks.mono _ _ (fun e he => r2.sub e (a2.sub e he)) child _ _ _ c8
      · simp only [TData.addOffset, List.length_append, List.length_replicate] at r8
        rw [hadj] at r8
        exact r8

end FontVerif.TableWriter
