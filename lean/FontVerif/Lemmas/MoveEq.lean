/- helper lemmas for the MIRP / MIAP / MDRP equalities of Props/C03.lean:
   sign of the two's-complement XOR, a bound on FreeType's rounded distance. -/
import FontVerif.Lemmas.FtEq
import FontVerif.Model.HintMove
import FontVerif.Model.FtMove
set_option linter.unusedVariables false
set_option linter.unusedSimpArgs false
set_option maxRecDepth 8000
namespace FontVerif.C03
open FontVerif

/-- `(a ^ b) < 0` iff the signs differ (any width). -/
theorem lxorN_neg_iff (n : Nat) : ∀ a b : Int,
    (lxorN n a b < 0 ↔ ((a < 0 ∧ 0 ≤ b) ∨ (0 ≤ a ∧ b < 0))) := by
  induction n with
  | zero => intro a b; simp only [lxorN]; split <;> omega
  | succ n ih =>
    intro a b
    simp only [lxorN]
    have h := ih (a / 2) (b / 2)
    have hb : 0 ≤ (a % 2 + b % 2) % 2 ∧ (a % 2 + b % 2) % 2 ≤ 1 := by omega
    generalize (a % 2 + b % 2) % 2 = m at hb
    generalize lxorN n (a / 2) (b / 2) = r at h
    omega

theorem lxor_neg_iff (a b : Int) :
    (lxorInt a b < 0 ↔ ((a < 0 ∧ 0 ≤ b) ∨ (0 ≤ a ∧ b < 0))) := lxorN_neg_iff 64 a b

/-- FreeType's rounded distance stays within 2^23 of the range of the distance, for every round
state in the ranges of `round_state_eq`. -/
theorem ft_round_bound (mode thr ph per d : Int) (hm : 0 ≤ mode ∧ mode ≤ 7)
    (ht : -1048576 ≤ thr ∧ thr ≤ 1048576) (hph : -1048576 ≤ ph ∧ ph ≤ 1048576)
    (hper : 0 < per ∧ per ≤ 1048576) (hd : -1073741824 ≤ d ∧ d ≤ 1073741824) :
    -1082130432 ≤ FtRound.round mode thr ph per 0 d ∧ FtRound.round mode thr ph per 0 d ≤ 1082130432 := by
  have hm' : mode = 0 ∨ mode = 1 ∨ mode = 2 ∨ mode = 3 ∨ mode = 4 ∨ mode = 5 ∨ mode = 6 ∨ mode = 7 := by omega
  unfold FtRound.round
  rcases hm' with e | e | e | e | e | e | e | e <;> subst e <;>
    simp only [show ((0:Int) = 1) = False from by decide, show ((2:Int) = 1) = False from by decide,
      show ((2:Int) = 0) = False from by decide,
      show ((3:Int) = 1) = False from by decide, show ((3:Int) = 0) = False from by decide,
      show ((3:Int) = 2) = False from by decide,
      show ((1:Int) = 0) = False from by decide,
      show ((4:Int) = 0) = False from by decide, show ((4:Int) = 1) = False from by decide,
      show ((4:Int) = 2) = False from by decide, show ((4:Int) = 3) = False from by decide,
      show ((5:Int) = 0) = False from by decide, show ((5:Int) = 1) = False from by decide,
      show ((5:Int) = 2) = False from by decide, show ((5:Int) = 3) = False from by decide,
      show ((5:Int) = 4) = False from by decide,
      show ((6:Int) = 0) = False from by decide, show ((6:Int) = 1) = False from by decide,
      show ((6:Int) = 2) = False from by decide, show ((6:Int) = 3) = False from by decide,
      show ((6:Int) = 4) = False from by decide, show ((6:Int) = 5) = False from by decide,
      show ((7:Int) = 0) = False from by decide, show ((7:Int) = 1) = False from by decide,
      show ((7:Int) = 2) = False from by decide, show ((7:Int) = 3) = False from by decide,
      show ((7:Int) = 4) = False from by decide, show ((7:Int) = 5) = False from by decide,
      show ((7:Int) = 6) = False from by decide,
      if_false, if_true]
  -- modes 0‥5
  iterate 6
    simp only [FtRound.roundToGrid, FtRound.roundToHalfGrid, FtRound.roundToDoubleGrid,
      FtRound.roundDownToGrid, FtRound.roundUpToGrid, FtRound.roundNone,
      FtCalc.pixRoundLong, FtCalc.pixCeilLong, FtCalc.padRoundLong32, FtCalc.pixFloor,
      FtCalc.addLong, FtCalc.subLong, FtCalc.negLong]
    by_cases hp : d ≥ 0 <;> simp only [hp, if_false, if_true] <;>
      simp (disch := omega) only [wI64, land_neg32'] <;> (repeat' split) <;> omega
  -- Super
  · simp only [FtRound.roundSuper, FtCalc.addLong, FtCalc.subLong, FtCalc.negLong, Int.add_zero]
    by_cases hp : d ≥ 0 <;> simp only [hp, if_false, if_true]
    · have hL := land_super_bound (d + (thr - ph)) (-per) (by omega) (by omega)
      have e1 : wrapI64 (d + (thr - ph)) = d + (thr - ph) := wI64 (by omega) (by omega)
      rw [e1]
      have hL2 : 0 ≤ d + (thr - ph) → landInt (d + (thr - ph)) (-per) ≤ d + (thr - ph) := by
        intro h0; unfold landInt; exact (landN_nonneg_left 64 _ _ h0).2
      generalize landInt (d + (thr - ph)) (-per) = L at *
      have e2 : wrapI64 (L + ph) = L + ph := wI64 (by omega) (by omega)
      rw [e2]
      split <;> omega
    · have hL := land_super_bound (thr - ph - d) (-per) (by omega) (by omega)
      have e1 : wrapI64 (thr - ph - d) = thr - ph - d := wI64 (by omega) (by omega)
      rw [e1]
      have hL2 : 0 ≤ thr - ph - d → landInt (thr - ph - d) (-per) ≤ thr - ph - d := by
        intro h0; unfold landInt; exact (landN_nonneg_left 64 _ _ h0).2
      generalize landInt (thr - ph - d) (-per) = L at *
      have e2 : wrapI64 (-L) = -L := wI64 (by omega) (by omega)
      rw [e2]
      have e3 : wrapI64 (-L - ph) = -L - ph := wI64 (by omega) (by omega)
      rw [e3]
      split <;> omega
  -- Super45
  · simp only [FtRound.roundSuper45, FtCalc.addLong, FtCalc.subLong, FtCalc.negLong, Int.add_zero]
    by_cases hp : d ≥ 0 <;> simp only [hp, if_false, if_true]
    · have hb := tdiv_mul_bound (d + (thr - ph)) per hper.1
      have e1 : wrapI64 (d + (thr - ph)) = d + (thr - ph) := wI64 (by omega) (by omega)
      rw [e1]
      generalize (d + (thr - ph)).tdiv per * per = M at *
      have e2 : wrapI64 (M + ph) = M + ph := wI64 (by omega) (by omega)
      rw [e2]
      split <;> omega
    · have hb := tdiv_mul_bound (thr - ph - d) per hper.1
      have e1 : wrapI64 (thr - ph - d) = thr - ph - d := wI64 (by omega) (by omega)
      rw [e1]
      generalize (thr - ph - d).tdiv per * per = M at *
      have e2 : wrapI64 (-M) = -M := wI64 (by omega) (by omega)
      rw [e2]
      have e3 : wrapI64 (-M - ph) = -M - ph := wI64 (by omega) (by omega)
      rw [e3]
      split <;> omega

end FontVerif.C03

namespace FontVerif.C03
open FontVerif

/-- ranges of the graphics-state fields for the MIRP / MIAP / MDRP equalities: a round state as in
`round_state_eq` (everything SROUND/S45ROUND/RTG… can produce lies far inside), cut-ins anywhere in
i32, single width and minimum distance within ±2^29 26.6 units (8.4 million pixels). -/
def MoveRange (g : HintMove.Gs) : Prop :=
  (0 ≤ g.mode ∧ g.mode ≤ 7) ∧ (-1048576 ≤ g.thr ∧ g.thr ≤ 1048576) ∧
  (-1048576 ≤ g.ph ∧ g.ph ≤ 1048576) ∧ (0 < g.per ∧ g.per ≤ 1048576) ∧
  inI32 g.cutin ∧ inI32 g.swci ∧
  (-536870912 ≤ g.sw ∧ g.sw ≤ 536870912) ∧ (-536870912 ≤ g.md ∧ g.md ≤ 536870912)

/-- a distance operand within ±2^29. -/
def Dist29 (x : Int) : Prop := -536870912 ≤ x ∧ x ≤ 536870912

theorem wabs_wsub {a b : Int} (ha : Dist29 a) (hb : Dist29 b) :
    HintMove.wabs (HintMove.wsub a b) = FtMove.absLong (FtCalc.subLong a b) ∧
    FtMove.absLong (FtCalc.subLong a b) = iabs (a - b) := by
  unfold Dist29 at *
  unfold HintMove.wabs HintMove.wsub FtMove.absLong FtCalc.subLong FtCalc.negLong iabs
  rw [wI32 (by omega) (by omega), wI64 (by omega) (by omega)]
  constructor <;> split <;> simp (disch := omega) only [wI32, wI64]

theorem minDist_eq {md org d : Int} (hmd : Dist29 md) :
    HintMove.minDist md org d = FtMove.minDist md org d := by
  unfold Dist29 at *
  unfold HintMove.minDist FtMove.minDist HintRound.wneg FtCalc.negLong
  rw [wI32 (by omega) (by omega), wI64 (by omega) (by omega)]

theorem minDist_bound {md org d : Int} (hmd : Dist29 md)
    (hd : -1082130432 ≤ d ∧ d ≤ 1082130432) :
    -1082130432 ≤ FtMove.minDist md org d ∧ FtMove.minDist md org d ≤ 1082130432 := by
  unfold Dist29 at *
  unfold FtMove.minDist FtCalc.negLong
  rw [wI64 (by omega) (by omega)]
  repeat' split
  all_goals omega

end FontVerif.C03
