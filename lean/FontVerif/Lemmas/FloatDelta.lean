/-
Lemmas for the f32 tent scalar (Model/FloatDelta.lean): F2Dot14 values as floats (`Val14`), exact
differences, comparisons on the raw integers, and the case analysis of one loop iteration of
`compute_scalar_f32`.
-/
import FontVerif.Model.FloatDelta
import FontVerif.Lemmas.IeeeArith
import FontVerif.Lemmas.FixedConv
import FontVerif.Lemmas.TentLemmas
set_option linter.unusedVariables false
namespace FontVerif.FloatDelta
open FontVerif FontVerif.Ieee

/-- `x` is a finite f32 with exponent in `[-14, 16]`, at most 24 significant bits, canonical zero
(`+0`), whose value is `v / 2^14`. -/
def Val14 (x : FVal) (v : Int) : Prop :=
  ∃ s m e, x = .fin s m e ∧ m < 2 ^ 24 ∧ -14 ≤ e ∧ e ≤ 16 ∧ (m = 0 → s = false) ∧
    (if s then -1 else 1) * ((m : Int) * 2 ^ (e + 14).toNat) = v

theorem f2dot14_ok : FixedConv.F2Dot14.Ok := by constructor <;> decide

theorem val14_f2 (raw : Int) (h : inI16 raw) : Val14 (f2ToF32 raw) raw := by
  unfold f2ToF32
  unfold inI16 at h
  have hr : FixedConv.F2Dot14.lo ≤ raw ∧ raw ≤ FixedConv.F2Dot14.hi := by
    show (-32768 : Int) ≤ raw ∧ raw ≤ 32767
    omega
  rw [FixedConv.toFloat_form FixedConv.F2Dot14 f2dot14_ok raw hr]
  have hk : FixedConv.F2Dot14.k = 14 := rfl
  simp only [hk]
  by_cases h0 : raw % 2 ^ 14 = 0
  · simp only [h0, if_true]
    refine ⟨_, _, _, rfl, ?_, by omega, by omega, ?_, ?_⟩
    · have : (raw / 2 ^ 14).natAbs ≤ 2 := by omega
      omega
    · intro hz; simp; omega
    · simp only [show ((0 : Int) + 14).toNat = 14 by rfl]
      by_cases hneg : raw / 2 ^ 14 < 0
      · simp only [hneg, decide_true, if_true]; omega
      · simp only [hneg, decide_false, Bool.false_eq_true, if_false]; omega
  · simp only [h0, if_false]
    refine ⟨_, _, _, rfl, by omega, by omega, by omega, ?_, ?_⟩
    · intro hz; have : raw = 0 := by omega
      subst this; simp at h0
    · simp only [show (-((14 : Nat) : Int) + 14).toNat = 0 by rfl, Int.pow_zero, Int.mul_one]
      by_cases hneg : raw < 0
      · simp only [hneg, decide_true, if_true]; omega
      · simp only [hneg, decide_false, Bool.false_eq_true, if_false]; omega

theorem val14_zero : Val14 zero 0 := ⟨false, 0, 0, rfl, by decide, by decide, by decide, fun _ => rfl, by simp⟩

/-- comparisons of such floats are comparisons of the integers. -/
theorem val14_le {x y : FVal} {a b : Int} (hx : Val14 x a) (hy : Val14 y b) :
    le x y = true ↔ a ≤ b := by
  obtain ⟨s, m, e, rfl, _, he, _, _, hv⟩ := hx
  obtain ⟨t, n, g, rfl, _, hg, _, _, hw⟩ := hy
  rw [FixedConv.le_fin_scaled 14 s m e t n g (by omega) (by omega)]
  have e1 : (e + ((14 : Nat) : Int)).toNat = (e + 14).toNat := rfl
  have e2 : (g + ((14 : Nat) : Int)).toNat = (g + 14).toNat := rfl
  rw [e1, e2, hv, hw]

theorem val14_lt {x y : FVal} {a b : Int} (hx : Val14 x a) (hy : Val14 y b) :
    lt x y = true ↔ a < b := by
  have h := val14_le hy hx
  obtain ⟨s, m, e, rfl, _⟩ := hx
  obtain ⟨t, n, g, rfl, _⟩ := hy
  simp only [lt, Bool.not_eq_true']
  constructor
  · intro hl
    apply Classical.byContradiction; intro hc
    have := h.mpr (by omega); simp [this] at hl
  · intro hl
    cases hle : le (FVal.fin t n g) (FVal.fin s m e) with
    | false => rfl
    | true => have := h.mp hle; omega

theorem val14_gt {x y : FVal} {a b : Int} (hx : Val14 x a) (hy : Val14 y b) :
    gt x y = true ↔ a > b := by
  unfold gt; rw [val14_lt hy hx]

theorem val14_feq {x y : FVal} {a b : Int} (hx : Val14 x a) (hy : Val14 y b) :
    feq x y = true ↔ a = b := by
  unfold feq
  rw [Bool.and_eq_true, val14_le hx hy, val14_le hy hx]
  omega

theorem int_pow_split (x y : Nat) : (2 : Int) ^ (x + y) = 2 ^ x * 2 ^ y := Int.pow_add 2 x y

/-- an exact sum `A · 2^e0` that is small enough is returned unrounded. -/
theorem val14_of_sum (A : Int) (e0 : Int) (sgn0 : Bool) (v : Int)
    (hv : A * 2 ^ (e0 + 14).toNat = v) (h1 : -14 ≤ e0) (h2 : e0 ≤ 16)
    (hsmall : v.natAbs < 2 ^ 24) (hz : A = 0 → sgn0 = false) :
    Val14 (if A = 0 then .fin sgn0 0 0 else roundNE f32 (decide (A < 0)) A.natAbs e0) v := by
  have hP : (0 : Int) < 2 ^ (e0 + 14).toNat := FixedConv.int_pow_pos _
  generalize hPv : (2 : Int) ^ (e0 + 14).toNat = P at *
  by_cases hA0 : A = 0
  · simp only [hA0, if_true]
    have hv0 : v = 0 := by rw [← hv, hA0]; simp
    exact ⟨_, 0, 0, rfl, by decide, by decide, by decide, fun _ => hz hA0, by simp [hv0]⟩
  · simp only [hA0, if_false]
    have hAabs : A.natAbs * P.natAbs = v.natAbs := by rw [← Int.natAbs_mul, hv]
    have hPn : 1 ≤ P.natAbs := by omega
    have hAlt : A.natAbs < 2 ^ 24 := by
      have : A.natAbs ≤ A.natAbs * P.natAbs := Nat.le_mul_of_pos_right _ hPn
      omega
    have hbl : bitLen A.natAbs ≤ 24 := bitLen_le_of_lt hAlt
    rw [roundNE_exact f32 _ A.natAbs e0 hAlt (by show (-149 : Int) ≤ e0; omega)
      (by show e0 + (bitLen A.natAbs : Int) ≤ 128; omega)]
    have hAn : A.natAbs ≠ 0 := by omega
    simp only [hAn, if_false]
    refine ⟨_, _, _, rfl, hAlt, h1, h2, fun h => absurd h hAn, ?_⟩
    rw [hPv, ← hv]
    by_cases hneg : A < 0
    · simp only [hneg, decide_true, if_true]
      have : (A.natAbs : Int) = -A := by omega
      rw [this]; simp [Int.neg_mul]
    · simp only [hneg, decide_false, Bool.false_eq_true, if_false]
      have : (A.natAbs : Int) = A := by omega
      rw [this]; simp

/-- the difference of two such floats is exact (the magnitudes stay far below `2^24`). -/
theorem val14_sub {x y : FVal} {a b : Int} (hx : Val14 x a) (hy : Val14 y b)
    (hab : (a - b).natAbs < 2 ^ 24) : Val14 (sub f32 x y) (a - b) := by
  obtain ⟨s, m, e, rfl, hm, he, he2, hz, hv⟩ := hx
  obtain ⟨t, n, g, rfl, hn, hg, hg2, hz', hw⟩ := hy
  simp only [sub, FVal.neg, add]
  unfold exactSum
  simp only []
  generalize he0 : (if e ≤ g then e else g) = e0
  have h1 : e0 ≤ e ∧ e0 ≤ g ∧ -14 ≤ e0 ∧ e0 ≤ 16 := by rw [← he0]; split <;> omega
  apply val14_of_sum _ e0 _ (a - b) ?_ h1.2.2.1 h1.2.2.2 hab ?_
  · -- value
    have x1 : (e + 14).toNat = (e - e0).toNat + (e0 + 14).toNat := by omega
    have x2 : (g + 14).toNat = (g - e0).toNat + (e0 + 14).toNat := by omega
    rw [x1, int_pow_split, ← Int.mul_assoc (m : Int)] at hv
    rw [x2, int_pow_split, ← Int.mul_assoc (n : Int)] at hw
    rw [← hv, ← hw]
    generalize (2 : Int) ^ (e0 + 14).toNat = P
    generalize (m : Int) * 2 ^ (e - e0).toNat = X
    generalize (n : Int) * 2 ^ (g - e0).toNat = Y
    cases s <;> cases t <;> simp [Int.add_mul, Int.neg_mul] <;> omega
  · -- sign of an exact zero
    intro hA
    by_cases hm0 : m = 0
    · simp [hz hm0]
    · have hXpos : 0 < (m : Int) * 2 ^ (e - e0).toNat :=
        Int.mul_pos (by omega) (FixedConv.int_pow_pos _)
      have hYnn : 0 ≤ (n : Int) * 2 ^ (g - e0).toNat :=
        Int.mul_nonneg (by omega) (Int.le_of_lt (FixedConv.int_pow_pos _))
      generalize (m : Int) * 2 ^ (e - e0).toNat = X at *
      generalize (n : Int) * 2 ^ (g - e0).toNat = Y at *
      cases s <;> cases t <;> simp at hA ⊢ <;> omega

/-- a `Val14` with non-negative value is a non-negative float `m · 2^e`; the order of two of them
is `dle`. -/
theorem val14_nonneg {x : FVal} {a : Int} (hx : Val14 x a) (ha : 0 ≤ a) :
    ∃ m e, x = .fin false m e ∧ m < 2 ^ 24 ∧ -14 ≤ e ∧ e ≤ 16 ∧ (m : Int) * 2 ^ (e + 14).toNat = a := by
  obtain ⟨s, m, e, rfl, hm, he, he2, hz, hv⟩ := hx
  cases s with
  | false => exact ⟨m, e, rfl, hm, he, he2, by simpa using hv⟩
  | true =>
    by_cases hm0 : m = 0
    · exact absurd (hz hm0) (by simp)
    · have : 0 < (m : Int) * 2 ^ (e + 14).toNat := Int.mul_pos (by omega) (FixedConv.int_pow_pos _)
      simp at hv; omega

theorem dle_of_scaled {m : Nat} {e : Int} {n : Nat} {g : Int} (he : -14 ≤ e) (hg : -14 ≤ g)
    (h : (m : Int) * 2 ^ (e + 14).toNat ≤ (n : Int) * 2 ^ (g + 14).toNat) : dle m e n g := by
  rw [dle_common (-14) he hg]
  have e1 : (e - -14).toNat = (e + 14).toNat := by rw [show e - -14 = e + 14 by omega]
  have e2 : (g - -14).toNat = (g + 14).toNat := by rw [show g - -14 = g + 14 by omega]
  rw [e1, e2]
  have := h
  rw [FixedConv.int_two_pow, FixedConv.int_two_pow] at this
  exact_mod_cast this

theorem natAbs_i16_diff {a b : Int} (ha : inI16 a) (hb : inI16 b) : (a - b).natAbs < 2 ^ 24 := by
  unfold inI16 at *; omega

/-- every way one iteration of `compute_scalar_f32` can go (operands: floats of F2Dot14 values). -/
theorem axisStepF_cases (sc C S P E : FVal) (c s p e : Int)
    (hC : Val14 C c) (hS : Val14 S s) (hP : Val14 P p) (hE : Val14 E e) :
    (Tent.Ignored s p e ∧ axisStepF sc C S P E = some sc) ∨
    (¬ Tent.Ignored s p e ∧ (c < s ∨ c > e) ∧ axisStepF sc C S P E = none) ∨
    (¬ Tent.Ignored s p e ∧ c = p ∧ axisStepF sc C S P E = some sc) ∨
    (¬ Tent.Ignored s p e ∧ s ≤ c ∧ c < p ∧
      axisStepF sc C S P E = some (div f32 (mul f32 sc (sub f32 C S)) (sub f32 P S))) ∨
    (¬ Tent.Ignored s p e ∧ p < c ∧ c ≤ e ∧
      axisStepF sc C S P E = some (div f32 (mul f32 sc (sub f32 E C)) (sub f32 E P))) := by
  have g1 := val14_gt hS hP
  have g2 := val14_gt hP hE
  have g3 := val14_feq hP val14_zero
  have g4 := val14_lt hS val14_zero
  have g5 := val14_gt hE val14_zero
  have g6 := val14_lt hC hS
  have g7 := val14_gt hC hE
  have g8 := val14_feq hC hP
  have g9 := val14_lt hC hP
  unfold axisStepF
  by_cases hi : Tent.Ignored s p e
  · left
    refine ⟨hi, ?_⟩
    have : (gt S P || gt P E || feq P zero || lt S zero && gt E zero) = true := by
      unfold Tent.Ignored at hi
      simp only [Bool.or_eq_true, Bool.and_eq_true, g1, g2, g3, g4, g5]
      omega
    simp [this]
  · right
    have hni : (gt S P || gt P E || feq P zero || lt S zero && gt E zero) = false := by
      unfold Tent.Ignored at hi
      cases h : (gt S P || gt P E || feq P zero || lt S zero && gt E zero) with
      | false => rfl
      | true =>
        simp only [Bool.or_eq_true, Bool.and_eq_true, g1, g2, g3, g4, g5] at h
        exact absurd h (by omega)
    simp only [hni, Bool.false_eq_true, if_false]
    by_cases ho : c < s ∨ c > e
    · left
      refine ⟨hi, ho, ?_⟩
      have : (lt C S || gt C E) = true := by simp only [Bool.or_eq_true, g6, g7]; exact ho
      simp [this]
    · right
      have hno : (lt C S || gt C E) = false := by
        cases h : (lt C S || gt C E) with
        | false => rfl
        | true => simp only [Bool.or_eq_true, g6, g7] at h; exact absurd h ho
      simp only [hno, Bool.false_eq_true, if_false]
      by_cases hpk : c = p
      · left
        have : feq C P = true := g8.mpr hpk
        exact ⟨hi, hpk, by simp [this]⟩
      · right
        have hnp : feq C P = false := by
          cases h : feq C P with
          | false => rfl
          | true => exact absurd (g8.mp h) hpk
        simp only [hnp, Bool.false_eq_true, if_false]
        by_cases hlt : c < p
        · left
          have : lt C P = true := g9.mpr hlt
          exact ⟨hi, by omega, hlt, by simp [this]⟩
        · right
          have : lt C P = false := by
            cases h : lt C P with
            | false => rfl
            | true => exact absurd (g9.mp h) hlt
          exact ⟨hi, by omega, by omega, by simp [this]⟩

/-- a tent factor applied to a scalar in `[0, 1]`: `((scalar · A) / B)` with `0 ≤ A ≤ B`, `0 < B`
(differences of F2Dot14 floats) stays in `[0, 1]`. -/
theorem tent_factor_inUnit (sc A B : FVal) (a b : Int) (hsc : InUnit f32 sc)
    (hA : Val14 A a) (hB : Val14 B b) (ha : 0 ≤ a) (hab : a ≤ b) (hb : 0 < b) :
    InUnit f32 (div f32 (mul f32 sc A) B) := by
  obtain ⟨n, q, rfl, hn⟩ := hsc
  obtain ⟨mA, eA, rfl, hmA, heA1, heA2, hvA⟩ := val14_nonneg hA ha
  obtain ⟨mB, eB, rfl, hmB, heB1, heB2, hvB⟩ := val14_nonneg hB (by omega)
  have hAB : dle mA eA mB eB := dle_of_scaled heA1 heB1 (by rw [hvA, hvB]; exact hab)
  have hbl : bitLen mA ≤ 24 := bitLen_le_of_lt hmA
  obtain ⟨n2, q2, hmul, hd2⟩ := mul_unit_le f32 (by decide) n q mA eA hn hmA
    (by show (-149 : Int) ≤ eA; omega) (by show eA + (bitLen mA : Int) ≤ 128; omega)
  rw [hmul]
  have hmB0 : mB ≠ 0 := by
    intro h; rw [h] at hvB; simp at hvB; omega
  exact div_le_one f32 (by decide) (by decide) (by decide) n2 q2 mB eB hmB0 (dle_trans hd2 hAB)

theorem f2ToF32_zero : f2ToF32 0 = zero := by decide

/-- the coordinate the loop uses for an axis: `coords.get(i).map(to_f32).unwrap_or(0.0)`. -/
theorem coord_val14 (coords : List Int) (hc : ∀ c ∈ coords, inI16 c) :
    Val14 (coordF coords) (coords.headD 0) := by
  cases coords with
  | nil => exact val14_zero
  | cons c rest => exact val14_f2 c (hc c (by simp))

theorem scalarGoF_inUnit (axes : List (Int × Int × Int)) :
    ∀ (coords : List Int) (sc : FVal),
      (∀ a ∈ axes, inI16 a.1 ∧ inI16 a.2.1 ∧ inI16 a.2.2) → (∀ c ∈ coords, inI16 c) →
      InUnit f32 sc → InUnit f32 (scalarGoF sc axes coords) := by
  induction axes with
  | nil => intro coords sc _ _ h; exact h
  | cons ax rest ih =>
    intro coords sc ha hc hsc
    obtain ⟨s, p, e⟩ := ax
    have hh := ha (s, p, e) (by simp)
    have hC := coord_val14 coords hc
    have hS := val14_f2 s hh.1
    have hP := val14_f2 p hh.2.1
    have hE := val14_f2 e hh.2.2
    have hc0 : inI16 (coords.headD 0) := by
      cases coords with
      | nil => simp [inI16]
      | cons c r => exact hc c (by simp)
    have hct : ∀ c ∈ coords.tail, inI16 c := fun c h => hc c (List.mem_of_mem_tail h)
    have har : ∀ a ∈ rest, inI16 a.1 ∧ inI16 a.2.1 ∧ inI16 a.2.2 := fun a h => ha a (by simp [h])
    simp only [scalarGoF]
    rcases axisStepF_cases sc _ _ _ _ _ s p e hC hS hP hE with h | h | h | h | h
    · rw [h.2]; exact ih _ _ har hct hsc
    · rw [h.2.2]; exact inUnit_zero f32
    · rw [h.2.2]; exact ih _ _ har hct hsc
    · rw [h.2.2.2]
      apply ih _ _ har hct
      exact tent_factor_inUnit sc _ _ (coords.headD 0 - s) (p - s) hsc
        (val14_sub hC hS (natAbs_i16_diff hc0 hh.1)) (val14_sub hP hS (natAbs_i16_diff hh.2.1 hh.1))
        (by omega) (by omega) (by omega)
    · rw [h.2.2.2]
      apply ih _ _ har hct
      exact tent_factor_inUnit sc _ _ (e - coords.headD 0) (e - p) hsc
        (val14_sub hE hC (natAbs_i16_diff hh.2.2 hc0)) (val14_sub hE hP (natAbs_i16_diff hh.2.2 hh.2.1))
        (by omega) (by omega) (by omega)

def AxesI16 (axes : List (Int × Int × Int)) : Prop := ∀ a ∈ axes, inI16 a.1 ∧ inI16 a.2.1 ∧ inI16 a.2.2
def CoordsI16 (coords : List Int) : Prop := ∀ c ∈ coords, inI16 c

theorem coordsI16_tail {coords : List Int} (h : CoordsI16 coords) : CoordsI16 coords.tail :=
  fun c hc => h c (List.mem_of_mem_tail hc)

theorem axesI16_tail {a : Int × Int × Int} {rest : List (Int × Int × Int)} (h : AxesI16 (a :: rest)) :
    AxesI16 rest := fun x hx => h x (by simp [hx])

/-- the step on one axis of the region, with everything instantiated. -/
theorem step_cases (sc : FVal) (coords : List Int) (s p e : Int)
    (hc : CoordsI16 coords) (hs : inI16 s) (hp : inI16 p) (he : inI16 e) :
    (Tent.Ignored s p e ∧ axisStepF sc (coordF coords) (f2ToF32 s) (f2ToF32 p) (f2ToF32 e) = some sc) ∨
    (¬ Tent.Ignored s p e ∧ (coords.headD 0 < s ∨ coords.headD 0 > e) ∧
      axisStepF sc (coordF coords) (f2ToF32 s) (f2ToF32 p) (f2ToF32 e) = none) ∨
    (¬ Tent.Ignored s p e ∧ coords.headD 0 = p ∧
      axisStepF sc (coordF coords) (f2ToF32 s) (f2ToF32 p) (f2ToF32 e) = some sc) ∨
    (¬ Tent.Ignored s p e ∧ s ≤ coords.headD 0 ∧ coords.headD 0 < p ∧
      axisStepF sc (coordF coords) (f2ToF32 s) (f2ToF32 p) (f2ToF32 e) =
        some (div f32 (mul f32 sc (sub f32 (coordF coords) (f2ToF32 s))) (sub f32 (f2ToF32 p) (f2ToF32 s)))) ∨
    (¬ Tent.Ignored s p e ∧ p < coords.headD 0 ∧ coords.headD 0 ≤ e ∧
      axisStepF sc (coordF coords) (f2ToF32 s) (f2ToF32 p) (f2ToF32 e) =
        some (div f32 (mul f32 sc (sub f32 (f2ToF32 e) (coordF coords))) (sub f32 (f2ToF32 e) (f2ToF32 p)))) :=
  axisStepF_cases sc (coordF coords) (f2ToF32 s) (f2ToF32 p) (f2ToF32 e) (coords.headD 0) s p e
    (coord_val14 coords hc) (val14_f2 s hs) (val14_f2 p hp) (val14_f2 e he)

theorem scalarGoF_outside (axes : List (Int × Int × Int)) :
    ∀ (coords : List Int) (sc : FVal) (i : Nat) (a : Int × Int × Int), AxesI16 axes → CoordsI16 coords →
      axes[i]? = some a → ¬ Tent.Ignored a.1 a.2.1 a.2.2 →
      (coords.getD i 0 < a.1 ∨ coords.getD i 0 > a.2.2) → scalarGoF sc axes coords = zero := by
  induction axes with
  | nil => intro coords sc i a _ _ h; simp at h
  | cons b rest ih =>
    intro coords sc i a hax hco hget hi ho
    obtain ⟨s, p, e⟩ := b
    have hh := hax (s, p, e) (by simp)
    simp only [scalarGoF]
    cases i with
    | zero =>
      simp at hget; subst hget
      have hc0 : coords.getD 0 0 = coords.headD 0 := by cases coords <;> rfl
      rw [hc0] at ho
      rcases step_cases sc coords s p e hco hh.1 hh.2.1 hh.2.2 with h | h | h | h | h
      · exact absurd h.1 hi
      · rw [h.2.2]
      · have := h.2.1; unfold Tent.Ignored at hi; simp only at ho hi; omega
      · have := h.2.1; have := h.2.2.1; unfold Tent.Ignored at hi; simp only at ho hi; omega
      · have := h.2.1; have := h.2.2.1; unfold Tent.Ignored at hi; simp only at ho hi; omega
    | succ j =>
      have hct : coords.tail.getD j 0 = coords.getD (j + 1) 0 := by cases coords <;> simp
      split
      · rfl
      · rename_i sc' _
        exact ih coords.tail sc' j a (axesI16_tail hax) (coordsI16_tail hco) (by simpa using hget) hi
          (by rw [hct]; exact ho)

theorem scalarGoF_peaks (axes : List (Int × Int × Int)) :
    ∀ (coords : List Int) (sc : FVal), AxesI16 axes → CoordsI16 coords →
      (∀ i a, axes[i]? = some a → Tent.Ignored a.1 a.2.1 a.2.2 ∨ coords.getD i 0 = a.2.1) →
      scalarGoF sc axes coords = sc := by
  induction axes with
  | nil => intro coords sc _ _ _; rfl
  | cons b rest ih =>
    intro coords sc hax hco h
    obtain ⟨s, p, e⟩ := b
    have hh := hax (s, p, e) (by simp)
    simp only [scalarGoF]
    have h0 := h 0 (s, p, e) (by simp)
    have hc0 : coords.getD 0 0 = coords.headD 0 := by cases coords <;> rfl
    rw [hc0] at h0
    have hstep : axisStepF sc (coordF coords) (f2ToF32 s) (f2ToF32 p) (f2ToF32 e) = some sc := by
      rcases step_cases sc coords s p e hco hh.1 hh.2.1 hh.2.2 with g | g | g | g | g
      · exact g.2
      · rcases h0 with h0 | h0
        · exact absurd h0 g.1
        · have := g.2.1; have := g.1; unfold Tent.Ignored at this; simp only at h0; omega
      · exact g.2.2
      · rcases h0 with h0 | h0
        · exact absurd h0 g.1
        · have := g.2.2.1; simp only at h0; omega
      · rcases h0 with h0 | h0
        · exact absurd h0 g.1
        · have := g.2.1; simp only at h0; omega
    rw [hstep]
    apply ih _ _ (axesI16_tail hax) (coordsI16_tail hco)
    intro i a hget
    have hct : coords.tail.getD i 0 = coords.getD (i + 1) 0 := by cases coords <;> simp
    rw [hct]
    exact h (i + 1) a (by simpa using hget)

/-! accumulation of `compute_float_delta` -/

theorem ofInt_zero (f : Fmt) : ofInt f 0 = .fin false 0 0 := by simp [ofInt, roundNE]

theorem cvt_inUnit_fin {x : FVal} (h : InUnit f32 x) : ∃ s m e, cvt f64 x = .fin s m e := by
  obtain ⟨n, q, rfl, _⟩ := h
  simp only [cvt]
  rcases roundNE_shape f64 false n q with h | ⟨m, e, h⟩
  · -- a value ≤ 1 cannot overflow f64
    rename_i hd
    have := roundNE_le_repr f64 (by decide) false n q 1 0 (by decide) (by decide) (by decide) hd
    obtain ⟨n', q', h', _⟩ := this
    rw [h'] at h; cases h
  · exact ⟨false, m, e, h⟩

/-- a zero delta contributes nothing: `acc + 0.0 · scalar = acc` for `acc = +0`. -/
theorem zero_term (x : FVal) (h : InUnit f32 x) :
    add f64 zero (mul f64 (ofInt f64 0) (cvt f64 x)) = zero := by
  obtain ⟨s, m, e, hx⟩ := cvt_inUnit_fin h
  rw [hx, ofInt_zero]
  simp [mul, roundNE, add, exactSum, zero]

/-- the sum of two such floats is exact when it stays below `2^24` units. -/
theorem val14_add {x y : FVal} {a b : Int} (hx : Val14 x a) (hy : Val14 y b)
    (hab : (a + b).natAbs < 2 ^ 24) : Val14 (add f32 x y) (a + b) := by
  obtain ⟨s, m, e, rfl, hm, he, he2, hz, hv⟩ := hx
  obtain ⟨t, n, g, rfl, hn, hg, hg2, hz', hw⟩ := hy
  simp only [add]
  unfold exactSum
  simp only []
  generalize he0 : (if e ≤ g then e else g) = e0
  have h1 : e0 ≤ e ∧ e0 ≤ g ∧ -14 ≤ e0 ∧ e0 ≤ 16 := by rw [← he0]; split <;> omega
  apply val14_of_sum _ e0 _ (a + b) ?_ h1.2.2.1 h1.2.2.2 hab ?_
  · have x1 : (e + 14).toNat = (e - e0).toNat + (e0 + 14).toNat := by omega
    have x2 : (g + 14).toNat = (g - e0).toNat + (e0 + 14).toNat := by omega
    rw [x1, int_pow_split, ← Int.mul_assoc (m : Int)] at hv
    rw [x2, int_pow_split, ← Int.mul_assoc (n : Int)] at hw
    rw [← hv, ← hw]
    generalize (2 : Int) ^ (e0 + 14).toNat = P
    generalize (m : Int) * 2 ^ (e - e0).toNat = X
    generalize (n : Int) * 2 ^ (g - e0).toNat = Y
    cases s <;> cases t <;> simp [Int.add_mul, Int.neg_mul] <;> omega
  · intro hA
    by_cases hm0 : m = 0
    · simp [hz hm0]
    · by_cases hn0 : n = 0
      · simp [hz' hn0]
      · have hXpos : 0 < (m : Int) * 2 ^ (e - e0).toNat :=
          Int.mul_pos (by omega) (FixedConv.int_pow_pos _)
        have hYpos : 0 < (n : Int) * 2 ^ (g - e0).toNat :=
          Int.mul_pos (by omega) (FixedConv.int_pow_pos _)
        generalize (m : Int) * 2 ^ (e - e0).toNat = X at *
        generalize (n : Int) * 2 ^ (g - e0).toNat = Y at *
        cases s <;> cases t <;> simp at hA ⊢ <;> omega

/-- `F2Dot14::from_f32` of such a float: the value itself, saturated to `i16`. -/
theorem fromFloat_val14 {x : FVal} {v : Int} (hx : Val14 x v) :
    FixedConv.fromFloat FixedConv.F2Dot14 x = FixedConv.clampI (-32768) 32767 v := by
  obtain ⟨s, m, e, rfl, hm, he, he2, hz, hv⟩ := hx
  rw [FixedConv.fromFloat_finite FixedConv.F2Dot14 f2dot14_ok s m e hm (by show (-149 : Int) ≤ e; omega)]
  unfold FixedConv.fromFloatSpec FixedConv.rhaMag
  have hk : FixedConv.F2Dot14.k = 14 := rfl
  have hlo : FixedConv.F2Dot14.lo = -32768 := rfl
  have hhi : FixedConv.F2Dot14.hi = 32767 := rfl
  rw [hk, hlo, hhi]
  have : e + ((14 : Nat) : Int) ≥ 0 := by omega
  simp only [this, if_true]
  have e1 : (e + ((14 : Nat) : Int)).toNat = (e + 14).toNat := rfl
  rw [e1, hv]

/-- an integer delta `D` (as `f64`), scaled by `2⁻¹⁴` and narrowed to `f32`, is exactly `D / 2¹⁴`. -/
theorem delta_term_val14 (D : Int) (hD : D.natAbs < 2 ^ 24) :
    Val14 (cvt f32 (mul f64 (ofInt f64 D) (.fin false 1 (-14)))) D := by
  have h53 : D.natAbs < 2 ^ 53 := Nat.lt_of_lt_of_le hD (by decide)
  rw [ofInt_exact f64 D (by decide) (by decide) h53]
  simp only [mul, Bool.bne_false, Nat.mul_one, Int.zero_add]
  have hbl : bitLen D.natAbs ≤ 24 := bitLen_le_of_lt hD
  rw [roundNE_exact f64 _ D.natAbs (-14) h53 (by decide) (by
    show (-14 : Int) + (bitLen D.natAbs : Int) ≤ 1024; omega)]
  by_cases h0 : D.natAbs = 0
  · have : D = 0 := by omega
    subst this
    simp only [Int.natAbs_zero, if_true, cvt, roundNE]
    exact ⟨false, 0, 0, by simp, by decide, by decide, by decide, fun _ => rfl, by simp⟩
  · simp only [h0, if_false, cvt]
    rw [roundNE_exact f32 _ D.natAbs (-14) hD (by decide) (by
      show (-14 : Int) + (bitLen D.natAbs : Int) ≤ 128; omega)]
    simp only [h0, if_false]
    refine ⟨_, _, _, rfl, hD, by decide, by decide, fun h => absurd h h0, ?_⟩
    simp only [show ((-14 : Int) + 14).toNat = 0 by rfl, Int.pow_zero, Int.mul_one]
    by_cases hneg : D < 0
    · simp only [hneg, decide_true, if_true]; omega
    · simp only [hneg, decide_false, Bool.false_eq_true, if_false]; omega

/-- integer accumulation in `f64`: adding `d · 1.0` to an integer accumulator is exact. -/
theorem acc_int_step (S d : Int) (hS : S.natAbs < 2 ^ 52) (hd : d.natAbs < 2 ^ 52) :
    add f64 (ofInt f64 S) (mul f64 (ofInt f64 d) (cvt f64 one)) = ofInt f64 (S + d) := by
  have hS53 : S.natAbs < 2 ^ 53 := Nat.lt_of_lt_of_le hS (by decide)
  have hd53 : d.natAbs < 2 ^ 53 := Nat.lt_of_lt_of_le hd (by decide)
  have hsum : (S + d).natAbs < 2 ^ 53 := by
    have : (2 : Nat) ^ 53 = 2 ^ 52 + 2 ^ 52 := by decide
    omega
  have hone : cvt f64 one = .fin false 1 0 := by decide
  rw [hone, ofInt_exact f64 S (by decide) (by decide) hS53, ofInt_exact f64 d (by decide) (by decide) hd53,
    ofInt_exact f64 (S + d) (by decide) (by decide) hsum]
  simp only [mul, Bool.bne_false, Nat.mul_one, Int.add_zero]
  have hbd : bitLen d.natAbs ≤ 53 := bitLen_le_of_lt hd53
  rw [roundNE_exact f64 _ d.natAbs 0 hd53 (by decide) (by show (0 : Int) + (bitLen d.natAbs : Int) ≤ 1024; omega)]
  have hfin : (if d.natAbs = 0 then FVal.fin (decide (d < 0)) 0 0 else FVal.fin (decide (d < 0)) d.natAbs 0) =
      FVal.fin (decide (d < 0)) d.natAbs 0 := by
    split
    · rename_i h; rw [h]
    · rfl
  rw [hfin]
  simp only [add, exactSum, Int.le_refl, if_true, Int.sub_self, Int.toNat_zero, Int.pow_zero, Int.mul_one]
  have hA : (if decide (S < 0) = true then (-1 : Int) else 1) * (S.natAbs : Int) +
      (if decide (d < 0) = true then (-1 : Int) else 1) * (d.natAbs : Int) = S + d := by
    by_cases h1 : S < 0 <;> by_cases h2 : d < 0 <;> simp [h1, h2] <;> omega
  rw [hA]
  by_cases h0 : S + d = 0
  · simp only [h0, if_true, Int.natAbs_zero]
    congr 1
    by_cases h1 : S < 0 <;> by_cases h2 : d < 0 <;> simp [h1, h2] <;> omega
  · simp only [h0, if_false]
    have hbl : bitLen (S + d).natAbs ≤ 53 := bitLen_le_of_lt hsum
    rw [roundNE_exact f64 _ (S + d).natAbs 0 hsum (by decide)
      (by show (0 : Int) + (bitLen (S + d).natAbs : Int) ≤ 1024; omega)]
    have : (S + d).natAbs ≠ 0 := by omega
    simp [this]

/-- a term whose region scalar is `0.0` leaves an integer accumulator unchanged. -/
theorem acc_zero_step (S d : Int) (hS : S.natAbs < 2 ^ 53) (hd : d.natAbs < 2 ^ 53) :
    add f64 (ofInt f64 S) (mul f64 (ofInt f64 d) (cvt f64 zero)) = ofInt f64 S := by
  have hz : cvt f64 zero = .fin false 0 0 := by decide
  rw [hz, ofInt_exact f64 S (by decide) (by decide) hS, ofInt_exact f64 d (by decide) (by decide) hd]
  simp only [mul, Bool.bne_false, Nat.mul_zero, Int.add_zero, roundNE, if_true]
  simp only [add, exactSum, Int.le_refl, if_true, Int.sub_self, Int.toNat_zero, Int.pow_zero, Int.mul_one,
    Int.natCast_zero, Int.mul_zero, Int.add_zero]
  by_cases h0 : S = 0
  · subst h0; simp
  · have hA : (if decide (S < 0) = true then (-1 : Int) else 1) * (S.natAbs : Int) = S := by
      by_cases h1 : S < 0 <;> simp [h1] <;> omega
    rw [hA]
    simp only [h0, if_false]
    have hbl : bitLen S.natAbs ≤ 53 := bitLen_le_of_lt hS
    have e : (if S = 0 then (0 : Int) else 0) = 0 := by split <;> rfl
    rw [roundNE_exact f64 _ S.natAbs 0 hS (by decide)
      (by show (0 : Int) + (bitLen S.natAbs : Int) ≤ 1024; omega)]
    have : S.natAbs ≠ 0 := by omega
    simp [this]

/-- rescaling the half-ulp bound of a quotient of two `Val14`-style floats to their integer values
`a = mA·2^(eA+14)`, `b = mB·2^(eB+14)`: `2·|n·b − a·2^(−q)| ≤ b`. -/
theorem half_ulp_rescale (n mA mB k : Nat) (q eA eB : Int) (hq : q ≤ 0) (hA : -14 ≤ eA) (hB : -14 ≤ eB)
    (hE : eA - eB - (k : Int) - 1 + 2 ≤ q)
    (h1 : n * 2 ^ (q - (eA - eB - (k : Int) - 1)).toNat * mB ≤
      2 * mA * 2 ^ k + 2 ^ (q - (eA - eB - (k : Int) - 1) - 1).toNat * mB)
    (h2 : 2 * mA * 2 ^ k ≤ n * 2 ^ (q - (eA - eB - (k : Int) - 1)).toNat * mB +
      2 ^ (q - (eA - eB - (k : Int) - 1) - 1).toNat * mB) :
    2 * (n * (mB * 2 ^ (eB + 14).toNat)) ≤ 2 * (mA * 2 ^ (eA + 14).toNat * 2 ^ (-q).toNat) + mB * 2 ^ (eB + 14).toNat ∧
    2 * (mA * 2 ^ (eA + 14).toNat * 2 ^ (-q).toNat) ≤ 2 * (n * (mB * 2 ^ (eB + 14).toNat)) + mB * 2 ^ (eB + 14).toNat := by
  generalize hs : (q - (eA - eB - (k : Int) - 1)).toNat = s at *
  have hs1 : (q - (eA - eB - (k : Int) - 1) - 1).toNat = s - 1 := by omega
  rw [hs1] at h1 h2
  have hs2 : 2 ≤ s := by omega
  -- exponents as naturals
  generalize ha : (eA + 14).toNat = a at *
  generalize hb : (eB + 14).toNat = b at *
  generalize hu : (-q).toNat = u at *
  have hexp : a + u + s = 1 + k + b := by omega
  have hS : 2 ^ s = 2 * 2 ^ (s - 1) := by
    have : s = (s - 1) + 1 := by omega
    rw [this, Nat.pow_succ]; simp; omega
  -- multiply the hypotheses by 2^b, the goals by 2^s, and compare
  have hpos : 0 < 2 ^ (s - 1) := two_pow_pos _
  have key : mA * 2 ^ a * 2 ^ u * 2 ^ s = 2 * mA * 2 ^ k * 2 ^ b := by
    rw [Nat.mul_assoc, Nat.mul_assoc, ← Nat.pow_add, ← Nat.pow_add, Nat.mul_assoc 2, Nat.mul_assoc 2,
      Nat.mul_assoc mA, ← Nat.pow_add, Nat.mul_left_comm 2 mA, ← Nat.pow_succ']
    congr 2; omega
  constructor
  · apply Nat.le_of_mul_le_mul_right _ hpos
    have e1 : 2 * (n * (mB * 2 ^ b)) * 2 ^ (s - 1) = n * 2 ^ s * mB * 2 ^ b := by
      rw [hS]; simp only [Nat.mul_assoc, Nat.mul_left_comm, Nat.mul_comm]
    have e2 : (2 * (mA * 2 ^ a * 2 ^ u) + mB * 2 ^ b) * 2 ^ (s - 1) =
        mA * 2 ^ a * 2 ^ u * 2 ^ s + 2 ^ (s - 1) * mB * 2 ^ b := by
      rw [hS, Nat.add_mul]; simp only [Nat.mul_assoc, Nat.mul_left_comm, Nat.mul_comm]
    rw [e1, e2, key]
    have := Nat.mul_le_mul_right (2 ^ b) h1
    rw [Nat.add_mul] at this
    exact this
  · apply Nat.le_of_mul_le_mul_right _ hpos
    have e1 : (2 * (n * (mB * 2 ^ b)) + mB * 2 ^ b) * 2 ^ (s - 1) =
        n * 2 ^ s * mB * 2 ^ b + 2 ^ (s - 1) * mB * 2 ^ b := by
      rw [hS, Nat.add_mul]; simp only [Nat.mul_assoc, Nat.mul_left_comm, Nat.mul_comm]
    have e2 : 2 * (mA * 2 ^ a * 2 ^ u) * 2 ^ (s - 1) = mA * 2 ^ a * 2 ^ u * 2 ^ s := by
      rw [hS]; simp only [Nat.mul_assoc, Nat.mul_left_comm, Nat.mul_comm]
    rw [e1, e2, key]
    have := Nat.mul_le_mul_right (2 ^ b) h2
    rw [Nat.add_mul] at this
    exact this

end FontVerif.FloatDelta
