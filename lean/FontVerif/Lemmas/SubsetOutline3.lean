/-
Lemmas for C17 drawn-outline preservation, part 3: assembly for simple glyphs (`simple_decodes_equal`).
-/
import FontVerif.Lemmas.SubsetOutline2
set_option linter.unusedVariables false
set_option linter.unusedSimpArgs false
namespace FontVerif.SubsetOutline
open FontVerif FontVerif.Subset

theorem counts_256_of_bytes : ∀ (R : List (Nat × Nat)), (∀ r ∈ R, runOk r) → (∀ b ∈ encRuns R, b < 256) → ∀ r ∈ R, r.2 ≤ 256
  | [], _, _ => by simp
  | (f, n) :: rs, hok, hb => by
    intro r hr
    rw [encRuns_cons] at hb
    rcases List.mem_cons.mp hr with h | h
    · subst h
      have hk := hok (f, n) (List.mem_cons_self ..)
      unfold runOk at hk
      simp only at hk ⊢
      split at hk
      · rename_i hrep
        have : n - 1 < 256 := hb (n - 1) (by simp [encRun, hrep])
        omega
      · omega
    · exact counts_256_of_bytes rs (fun r hr => hok r (List.mem_cons_of_mem _ hr))
        (fun b hb' => hb b (List.mem_append_right _ hb')) r h

theorem getLast_map_range (n : Nat) (f : Nat → Nat) (h : n ≠ 0) : ((List.range n).map f).getLast? = some (f (n - 1)) := by
  cases n with
  | zero => exact absurd rfl h
  | succ k => simp [List.range_succ]

theorem gu16_eq (d : Bytes) (p : Nat) (h : p + 2 ≤ d.length) : Glyf.u16At d p = some (u16At d p) := by
  unfold Glyf.u16At u16At; simp [h]

theorem getD_take (d : Bytes) (m j : Nat) (h : j < m) : (d.take m).getD j 0 = d.getD j 0 := by
  simp [List.getD_eq_getElem?_getD, List.getElem?_take, h]

theorem u16At_take (d : Bytes) (m p : Nat) (h : p + 2 ≤ m) : u16At (d.take m) p = u16At d p := by
  unfold u16At; rw [getD_take d m p (by omega), getD_take d m (p + 1) (by omega)]

theorem coordSize_eq (f : Nat) : coordSize f = xSz f + ySz f := rfl

theorem coordTot_eq : ∀ (R : List (Nat × Nat)), (R.map (fun r => coordSize r.1 * r.2)).sum = xTot R + yTot R
  | [] => rfl
  | (f, n) :: rs => by
    have := coordTot_eq rs
    simp only [xTot, yTot, List.map_cons, List.sum_cons, coordSize_eq, Nat.add_mul] at *
    omega

/-- **the rewritten simple glyph decodes to the same outline** (see Props/C17Outline.lean) -/
theorem simple_decodes_equal (flags : Nat) (gmap : Nat → Option Nat) (d out pad : Bytes)
    (hb : ∀ b ∈ d, b < 256) (hs : u16At d 0 < 32768)
    (h : subsetGlyphBytes flags gmap d = .bytes out) (hne : out ≠ []) :
    ∃ v v', Glyf.readSimple d = some v ∧ Glyf.readSimple (out ++ pad) = some v' ∧
      v'.nContours = v.nContours ∧ v'.xMin = v.xMin ∧ v'.yMin = v.yMin ∧ v'.xMax = v.xMax ∧ v'.yMax = v.yMax ∧
      v'.endPts = v.endPts ∧
      v'.instructions = (if hasFlag flags F_NO_HINTING then [] else v.instructions) ∧
      v'.points = v.points ∧
      v'.readPointsFast = v.readPointsFast ∧
      (∀ j, j < 10 → out.getD j 0 = d.getD j 0) := by
  unfold subsetGlyphBytes at h
  split at h
  · cases h
  simp only [hs, if_true] at h
  split at h
  · cases h
  split at h
  · cases h
  rename_i hl2 hl12 hlil
  generalize hnc : u16At d 0 = nc at *
  generalize hil : u16At d (10 + 2 * nc) = il at *
  have hlen : 12 + 2 * nc + il ≤ d.length := by omega
  obtain ⟨hnc0, k, hk, hk0, hkl, hout⟩ := subsetSimple_parts flags d nc il out hil.symm hlen h hne
  have hrec := record_parts d nc il hil.symm hlen
  -- names for the parts
  generalize hhdr : d.take (10 + 2 * nc) = hdr at *
  generalize hx : d.getD (10 + 2 * nc) 0 = x at *
  generalize hy : d.getD (11 + 2 * nc) 0 = y at *
  generalize hins : (d.drop (12 + 2 * nc)).take il = instr at *
  generalize hgd : d.drop (12 + 2 * nc + il) = gd at *
  have hhl : hdr.length = 10 + 2 * nc := by rw [← hhdr]; simp; omega
  have hh0 : Glyf.u16At hdr 0 = some nc := by
    rw [gu16_eq hdr 0 (by omega), ← hhdr, u16At_take d _ 0 (by omega), hnc]
  have hilxy : il = x * 256 + y := by
    rw [← hil, ← hx, ← hy]; unfold u16At
    have : 10 + 2 * nc + 1 = 11 + 2 * nc := by omega
    rw [this]
  have hinsl : instr.length = x * 256 + y := by
    rw [← hins, ← hilxy]; simp; omega
  have hv := readSimple_parts hdr instr gd nc x y hhl hh0 hs hinsl
  rw [← hrec] at hv
  -- the flag runs certified by the trim
  obtain ⟨R, hok, hpre, hcnt, hkk⟩ := trimGo_spec _ gd 0 0 0 k hk.symm hk0
  obtain ⟨M, hM⟩ := hpre
  rw [coordTot_eq] at hkk
  have hkk : k = (encRuns R).length + (xTot R + yTot R) := by omega
  have hcnt' : counts R = u16At d (10 + 2 * (nc - 1)) + 1 := by unfold counts; omega
  have hRne : R ≠ [] := by intro h0; subst h0; simp [counts] at hcnt'
  have hMl : xTot R + yTot R ≤ M.length := by
    have : gd.length = (encRuns R).length + M.length := by rw [← hM]; simp
    omega
  have htk : gd.take k = encRuns R ++ M.take (xTot R + yTot R) := by
    rw [← hM, hkk, List.take_append]
    have : (encRuns R).take ((encRuns R).length + (xTot R + yTot R)) = encRuns R :=
      List.take_of_length_le (by omega)
    rw [this]
    congr 2
    omega
  have hCl : (M.take (xTot R + yTot R)).length = xTot R + yTot R := by simp; omega
  have hgd2 : gd = encRuns R ++ (M.take (xTot R + yTot R) ++ M.drop (xTot R + yTot R)) := by
    rw [List.take_append_drop]; exact hM.symm
  have hgd' : ovl flags (gd.take k) ++ pad = encRuns (ovlRuns flags R) ++ (M.take (xTot R + yTot R) ++ pad) := by
    rw [htk, ovl_runs flags R _ hRne, List.append_assoc]
  have hbgd : ∀ b ∈ encRuns R, b < 256 := by
    intro b hbm
    apply hb
    rw [hrec]
    apply List.mem_append_right
    apply List.mem_cons_of_mem
    apply List.mem_cons_of_mem
    apply List.mem_append_right
    rw [← hM]
    exact List.mem_append_left _ hbm
  have h256 := counts_256_of_bytes R hok hbgd
  -- the subset's view
  have hv' : ∃ instr', Glyf.readSimple (out ++ pad) = some (viewOf hdr instr' (ovl flags (gd.take k) ++ pad) nc) ∧
      instr' = (if hasFlag flags F_NO_HINTING then [] else instr) := by
    by_cases hnh : hasFlag flags F_NO_HINTING = true
    · refine ⟨[], ?_, by simp [hnh]⟩
      rw [hout]; simp only [hnh, if_true]
      have := readSimple_parts hdr [] (ovl flags (gd.take k) ++ pad) nc 0 0 hhl hh0 hs (by simp)
      simpa [List.append_assoc] using this
    · refine ⟨instr, ?_, by simp [hnh]⟩
      rw [hout]; simp only [hnh]
      have := readSimple_parts hdr instr (ovl flags (gd.take k) ++ pad) nc x y hhl hh0 hs hinsl
      simpa [List.append_assoc] using this
  obtain ⟨instr', hv', hinstr'⟩ := hv'
  have hlast : ∀ (i g : Bytes), (viewOf hdr i g nc).endPts.getLast? = some (u16At d (10 + 2 * (nc - 1))) := by
    intro i g
    simp only [viewOf]
    rw [getLast_map_range nc _ hnc0, gu16_eq hdr _ (by omega), ← hhdr, u16At_take d _ _ (by omega)]
    rfl
  refine ⟨_, _, hv, hv', rfl, rfl, rfl, rfl, rfl, rfl, hinstr', ?_, ?_, ?_⟩
  rotate_left 2
  · intro j hj
    have e1 : d.getD j 0 = hdr.getD j 0 := by
      rw [hrec, List.getD_eq_getElem?_getD, List.getElem?_append_left (by omega), ← List.getD_eq_getElem?_getD]
    have e2 : out.getD j 0 = hdr.getD j 0 := by
      rw [hout, List.getD_eq_getElem?_getD, List.getElem?_append_left (by omega), ← List.getD_eq_getElem?_getD]
    rw [e1, e2]
  · have e1 := points_of_runs _ _ R _ _ (hlast instr gd) hgd2 hok hcnt' h256 hCl
    have e2 := points_of_runs _ _ (ovlRuns flags R) _ _ (hlast instr' (ovl flags (gd.take k) ++ pad)) hgd' (ovlRuns_ok flags R hok)
          (by rw [ovlRuns_counts]; exact hcnt') (ovlRuns_256 flags R h256)
          (by rw [ovlRuns_xTot, ovlRuns_yTot]; exact hCl)
    rw [e1, e2, ptsOfRuns_ovl]
  · have e1 := fast_of_runs _ _ R _ _ (hlast instr gd) hgd2 hok hcnt' hCl
    have e2 := fast_of_runs _ _ (ovlRuns flags R) _ _ (hlast instr' (ovl flags (gd.take k) ++ pad)) hgd' (ovlRuns_ok flags R hok)
          (by rw [ovlRuns_counts]; exact hcnt')
          (by rw [ovlRuns_xTot, ovlRuns_yTot]; exact hCl)
    rw [e1, e2, fastOfRuns_ovl]

end FontVerif.SubsetOutline
