/-
Lemmas for C19 (intersection sizes): canonical range lists (`Canon`), `RangeSet::insert` keeps a list
canonical and adds exactly the inserted members, `rInter` is THE canonical list of the set
intersection, `rCount` of a canonical list is the cardinality of its member set, canonical lists are
unique for a member set, the wrapping `Fixed` sum of `design_space_size`.
-/
import FontVerif.Lemmas.PatchMap
set_option linter.unusedVariables false
namespace FontVerif.PatchMap
open FontVerif

/-! ## canonical lists -/

/-- sorted, non-degenerate, neither overlapping nor adjacent (what `IntSet::iter_ranges` /
`RangeSet::iter` yield) -/
def Canon (s : Ranges) : Prop :=
  (∀ r, r ∈ s → r.1 ≤ r.2) ∧ s.Pairwise (fun r q => r.2 + 1 < q.1)

theorem Canon.nil : Canon [] := ⟨fun _ h => (by cases h), List.Pairwise.nil⟩

theorem canon_cons {r : Int × Int} {s : Ranges} :
    Canon (r :: s) ↔ r.1 ≤ r.2 ∧ (∀ q, q ∈ s → r.2 + 1 < q.1) ∧ Canon s := by
  unfold Canon
  rw [List.pairwise_cons]
  constructor
  · rintro ⟨h1, h2, h3⟩
    exact ⟨h1 r (List.mem_cons_self ..), h2, fun q hq => h1 q (List.mem_cons_of_mem _ hq), h3⟩
  · rintro ⟨h1, h2, h3, h4⟩
    refine ⟨?_, h2, h4⟩
    intro q hq
    rcases List.mem_cons.1 hq with rfl | hq
    · exact h1
    · exact h3 q hq

theorem rsCanonical_iff : ∀ s : Ranges, rsCanonical s = true ↔ Canon s
  | [] => by simp [rsCanonical, Canon.nil]
  | [r] => by
    simp only [rsCanonical, decide_eq_true_eq, canon_cons]
    constructor
    · intro h; exact ⟨h, fun q hq => (by cases hq), Canon.nil⟩
    · intro h; exact h.1
  | r :: s :: rest => by
    have ih := rsCanonical_iff (s :: rest)
    simp only [rsCanonical, Bool.and_eq_true, decide_eq_true_eq]
    rw [ih, canon_cons (r := r)]
    constructor
    · rintro ⟨⟨h1, h2⟩, h3⟩
      refine ⟨h1, ?_, h3⟩
      intro q hq
      rcases List.mem_cons.1 hq with rfl | hq
      · exact h2
      · have hc := canon_cons.1 h3
        have := hc.2.1 q hq
        have := hc.1
        omega
    · rintro ⟨h1, h2, h3⟩
      exact ⟨⟨h1, h2 s (List.mem_cons_self ..)⟩, h3⟩

theorem rMem_nil (c : Int) : rMem c [] = false := by simp [rMem]

theorem rMem_cons (c : Int) (x : Int × Int) (xs : Ranges) :
    rMem c (x :: xs) = true ↔ (x.1 ≤ c ∧ c ≤ x.2) ∨ rMem c xs = true := by
  simp [rMem, List.any_cons]

theorem rMem_append (c : Int) (a b : Ranges) :
    rMem c (a ++ b) = true ↔ rMem c a = true ∨ rMem c b = true := by
  simp [rMem, List.any_append]

/-! ## `RangeSet::insert` -/

theorem rsInsert_mem : ∀ (s : Ranges) (r : Int × Int), r.1 ≤ r.2 → (∀ q, q ∈ s → q.1 ≤ q.2) →
    ∀ c, rMem c (rsInsert r s) = true ↔ (r.1 ≤ c ∧ c ≤ r.2) ∨ rMem c s = true
  | [], r, _, _, c => by simp [rsInsert, rMem_cons]
  | s :: rest, r, hr, hs, c => by
    have hs1 := hs s (List.mem_cons_self ..)
    have hrest : ∀ q, q ∈ rest → q.1 ≤ q.2 := fun q hq => hs q (List.mem_cons_of_mem _ hq)
    unfold rsInsert
    split
    · rw [rMem_cons]
    · split
      · rw [rMem_cons, rsInsert_mem rest r hr hrest c, rMem_cons]
        by_cases hm : rMem c rest = true <;> simp [hm] <;> omega
      · have hmm : (min r.1 s.1, max r.2 s.2).1 ≤ (min r.1 s.1, max r.2 s.2).2 := by
          simp only []; omega
        rw [rsInsert_mem rest _ hmm hrest c, rMem_cons]
        simp only []
        by_cases hm : rMem c rest = true <;> simp [hm] <;> omega

theorem rsInsert_lb (x : Int) : ∀ (s : Ranges) (r : Int × Int), x < r.1 → (∀ q, q ∈ s → x < q.1) →
    ∀ q, q ∈ rsInsert r s → x < q.1
  | [], r, hr, _, q, hq => by
    simp only [rsInsert, List.mem_singleton] at hq; subst hq; exact hr
  | s :: rest, r, hr, hs, q, hq => by
    have hs1 := hs s (List.mem_cons_self ..)
    have hrest : ∀ q, q ∈ rest → x < q.1 := fun q hq => hs q (List.mem_cons_of_mem _ hq)
    unfold rsInsert at hq
    split at hq
    · rcases List.mem_cons.1 hq with rfl | hq
      · exact hr
      · exact hs q hq
    · split at hq
      · rcases List.mem_cons.1 hq with rfl | hq
        · exact hs1
        · exact rsInsert_lb x rest r hr hrest q hq
      · exact rsInsert_lb x rest _ (by simp only []; omega) hrest q hq

theorem rsInsert_canon : ∀ (s : Ranges) (r : Int × Int), r.1 ≤ r.2 → Canon s → Canon (rsInsert r s)
  | [], r, hr, _ => by
    simp only [rsInsert]
    exact canon_cons.2 ⟨hr, fun q hq => (by cases hq), Canon.nil⟩
  | s :: rest, r, hr, hc => by
    obtain ⟨hs1, hs2, hs3⟩ := canon_cons.1 hc
    unfold rsInsert
    split
    · next h1 =>
      refine canon_cons.2 ⟨hr, ?_, hc⟩
      intro q hq
      rcases List.mem_cons.1 hq with rfl | hq
      · exact h1
      · have := hs2 q hq; omega
    · split
      · next h1 h2 =>
        refine canon_cons.2 ⟨hs1, ?_, rsInsert_canon rest r hr hs3⟩
        exact rsInsert_lb (s.2 + 1) rest r h2 hs2
      · exact rsInsert_canon rest _ (by simp only []; omega) hs3

theorem rsAdd_spec (s : Ranges) (r : Int × Int) (hc : Canon s) :
    Canon (rsAdd s r) ∧ ∀ c, rMem c (rsAdd s r) = true ↔ rMem c s = true ∨ (r.1 ≤ c ∧ c ≤ r.2) := by
  unfold rsAdd
  split
  · next h =>
    refine ⟨hc, fun c => ?_⟩
    constructor
    · exact Or.inl
    · rintro (h1 | h1)
      · exact h1
      · omega
  · next h =>
    have hr : r.1 ≤ r.2 := by omega
    refine ⟨rsInsert_canon s r hr hc, fun c => ?_⟩
    rw [rsInsert_mem s r hr hc.1 c]
    exact Or.comm

theorem foldl_rsAdd_spec : ∀ (l : Ranges) (acc : Ranges), Canon acc →
    Canon (l.foldl rsAdd acc) ∧
      ∀ c, rMem c (l.foldl rsAdd acc) = true ↔ rMem c acc = true ∨ rMem c l = true
  | [], acc, hc => ⟨hc, fun c => by simp [rMem_nil]⟩
  | r :: rest, acc, hc => by
    obtain ⟨h1, h2⟩ := rsAdd_spec acc r hc
    obtain ⟨h3, h4⟩ := foldl_rsAdd_spec rest (rsAdd acc r) h1
    refine ⟨h3, fun c => ?_⟩
    rw [List.foldl_cons, h4 c, h2 c, rMem_cons, or_assoc]

theorem rsNorm_spec (l : Ranges) :
    Canon (rsNorm l) ∧ ∀ c, rMem c (rsNorm l) = true ↔ rMem c l = true := by
  obtain ⟨h1, h2⟩ := foldl_rsAdd_spec l [] Canon.nil
  exact ⟨h1, fun c => by rw [rsNorm, h2 c]; simp [rMem_nil]⟩

theorem rsUnion_spec (a b : Ranges) (ha : Canon a) :
    Canon (rsUnion a b) ∧ ∀ c, rMem c (rsUnion a b) = true ↔ rMem c a = true ∨ rMem c b = true :=
  foldl_rsAdd_spec b a ha

/-! ## intersection -/

theorem rInterRaw_mem (a b : Ranges) (c : Int) :
    rMem c (rInterRaw a b) = true ↔ rMem c a = true ∧ rMem c b = true := by
  simp only [rMem_iff, rInterRaw, List.mem_flatMap, List.mem_filterMap]
  constructor
  · rintro ⟨x, ⟨r, hr, s, hs, hx⟩, h1, h2⟩
    split at hx
    · next ho =>
      cases hx
      simp only [] at h1 h2
      exact ⟨⟨r, hr, by omega, by omega⟩, ⟨s, hs, by omega, by omega⟩⟩
    · cases hx
  · rintro ⟨⟨r, hr, h1, h2⟩, ⟨s, hs, h3, h4⟩⟩
    refine ⟨(max r.1 s.1, min r.2 s.2), ⟨r, hr, s, hs, ?_⟩, by simp only []; omega, by simp only []; omega⟩
    have : rangesOverlap r s = true := (rangesOverlap_iff r s).2 ⟨c, ⟨h1, h2⟩, ⟨h3, h4⟩⟩
    simp [this]

/-- `IntSet::intersect` / `a.intersection(b).collect::<RangeSet>()`: a canonical list whose members
are exactly the common members -/
theorem rInter_spec (a b : Ranges) :
    Canon (rInter a b) ∧ ∀ c, rMem c (rInter a b) = true ↔ rMem c a = true ∧ rMem c b = true := by
  obtain ⟨h1, h2⟩ := rsNorm_spec (rInterRaw a b)
  exact ⟨h1, fun c => by rw [rInter, h2 c, rInterRaw_mem]⟩

/-! ## counting -/

/-- `lo, lo + 1, …` (`n` values) -/
def enumFrom (lo : Int) : Nat → List Int
  | 0 => []
  | n + 1 => lo :: enumFrom (lo + 1) n

theorem enumFrom_length (lo : Int) (n : Nat) : (enumFrom lo n).length = n := by
  induction n generalizing lo with
  | zero => rfl
  | succ n ih => simp [enumFrom, ih]

theorem mem_enumFrom (c lo : Int) (n : Nat) : c ∈ enumFrom lo n ↔ lo ≤ c ∧ c < lo + n := by
  induction n generalizing lo with
  | zero => simp [enumFrom]
  | succ n ih =>
    simp only [enumFrom, List.mem_cons, ih]
    omega

theorem enumFrom_nodup (lo : Int) (n : Nat) : (enumFrom lo n).Nodup := by
  induction n generalizing lo with
  | zero => simp [enumFrom]
  | succ n ih =>
    simp only [enumFrom, List.nodup_cons]
    refine ⟨?_, ih _⟩
    rw [mem_enumFrom]; omega

/-- all members of a range list, range by range -/
def rEnum : Ranges → List Int
  | [] => []
  | r :: rest => enumFrom r.1 (r.2 - r.1 + 1).toNat ++ rEnum rest

theorem mem_rEnum (c : Int) : ∀ s : Ranges, c ∈ rEnum s ↔ rMem c s = true
  | [] => by simp [rEnum, rMem_nil]
  | r :: rest => by
    rw [rEnum, List.mem_append, mem_rEnum c rest, rMem_cons, mem_enumFrom]
    by_cases hm : rMem c rest = true <;> simp [hm] <;> omega

theorem rCount_shift (l : Ranges) (acc : Int) :
    l.foldl (fun acc r => acc + (r.2 - r.1 + 1)) acc
      = acc + l.foldl (fun acc r => acc + (r.2 - r.1 + 1)) 0 := by
  induction l generalizing acc with
  | nil => simp
  | cons r rest ih =>
    simp only [List.foldl_cons]
    rw [ih, ih (0 + _)]
    omega

theorem rCount_cons (r : Int × Int) (rest : Ranges) :
    rCount (r :: rest) = (r.2 - r.1 + 1) + rCount rest := by
  unfold rCount
  rw [List.foldl_cons, rCount_shift]
  omega

theorem rEnum_spec : ∀ s : Ranges, Canon s → (rEnum s).Nodup ∧ ((rEnum s).length : Int) = rCount s
  | [], _ => by simp [rEnum, rCount]
  | r :: rest, hc => by
    obtain ⟨h1, h2, h3⟩ := canon_cons.1 hc
    obtain ⟨ih1, ih2⟩ := rEnum_spec rest h3
    constructor
    · rw [rEnum, List.nodup_append]
      refine ⟨enumFrom_nodup _ _, ih1, ?_⟩
      intro a ha b hb hab
      subst hab
      rw [mem_enumFrom] at ha
      obtain ⟨q, hq, hq1, hq2⟩ := (rMem_iff a rest).1 ((mem_rEnum a rest).1 hb)
      have := h2 q hq
      omega
    · rw [rEnum, List.length_append, enumFrom_length, rCount_cons]
      omega

theorem rCount_nonneg (s : Ranges) (hc : Canon s) : 0 ≤ rCount s := by
  rw [← (rEnum_spec s hc).2]; omega

/-- **cardinality**: for a canonical list, `IntSet::len` is the length of EVERY duplicate-free
enumeration of the member set -/
theorem rCount_card (s : Ranges) (hc : Canon s) (l : List Int) (hn : l.Nodup)
    (hm : ∀ c, c ∈ l ↔ rMem c s = true) : (rCount s).toNat = l.length := by
  obtain ⟨h1, h2⟩ := rEnum_spec s hc
  have hp : l.Perm (rEnum s) :=
    (List.perm_ext_iff_of_nodup hn h1).2 (fun a => by rw [hm a, mem_rEnum])
  rw [hp.length_eq, ← h2]
  omega

/-! ## a member set has one canonical list -/

theorem canon_no_member_below {r : Int × Int} {s : Ranges} (hc : Canon (r :: s)) (c : Int)
    (h : rMem c (r :: s) = true) : r.1 ≤ c := by
  obtain ⟨h1, h2, _⟩ := canon_cons.1 hc
  rcases (rMem_cons c r s).1 h with h | h
  · exact h.1
  · obtain ⟨q, hq, hq1, _⟩ := (rMem_iff c s).1 h
    have := h2 q hq; omega

theorem canon_unique : ∀ (a b : Ranges), Canon a → Canon b →
    (∀ c, rMem c a = true ↔ rMem c b = true) → a = b
  | [], [], _, _, _ => rfl
  | [], q :: bs, _, hb, h => by
    have := (h q.1).2 ((rMem_cons _ _ _).2 (Or.inl ⟨Int.le_refl _, (canon_cons.1 hb).1⟩))
    simp [rMem_nil] at this
  | r :: as, [], ha, _, h => by
    have := (h r.1).1 ((rMem_cons _ _ _).2 (Or.inl ⟨Int.le_refl _, (canon_cons.1 ha).1⟩))
    simp [rMem_nil] at this
  | r :: as, q :: bs, ha, hb, h => by
    obtain ⟨hr, hra, hca⟩ := canon_cons.1 ha
    obtain ⟨hq, hqb, hcb⟩ := canon_cons.1 hb
    have memr : ∀ c, r.1 ≤ c → c ≤ r.2 → rMem c (q :: bs) = true := fun c h1 h2 =>
      (h c).1 ((rMem_cons _ _ _).2 (Or.inl ⟨h1, h2⟩))
    have memq : ∀ c, q.1 ≤ c → c ≤ q.2 → rMem c (r :: as) = true := fun c h1 h2 =>
      (h c).2 ((rMem_cons _ _ _).2 (Or.inl ⟨h1, h2⟩))
    have e1 : r.1 = q.1 := by
      have h1 := canon_no_member_below hb r.1 (memr r.1 (Int.le_refl _) hr)
      have h2 := canon_no_member_below ha q.1 (memq q.1 (Int.le_refl _) hq)
      omega
    -- `r.2 + 1` is not a member of `r :: as`, `q.2 + 1` is not a member of `q :: bs`
    have nr : rMem (r.2 + 1) (r :: as) = true → False := by
      intro hm
      rcases (rMem_cons _ _ _).1 hm with hm | hm
      · omega
      · obtain ⟨x, hx, hx1, _⟩ := (rMem_iff _ as).1 hm
        have := hra x hx; omega
    have nq : rMem (q.2 + 1) (q :: bs) = true → False := by
      intro hm
      rcases (rMem_cons _ _ _).1 hm with hm | hm
      · omega
      · obtain ⟨x, hx, hx1, _⟩ := (rMem_iff _ bs).1 hm
        have := hqb x hx; omega
    have e2 : r.2 = q.2 := by
      by_cases hlt : r.2 < q.2
      · exact absurd (memq (r.2 + 1) (by omega) (by omega)) nr
      · by_cases hgt : q.2 < r.2
        · exact absurd (memr (q.2 + 1) (by omega) (by omega)) nq
        · omega
    have e : r = q := Prod.ext e1 e2
    subst e
    congr 1
    apply canon_unique as bs hca hcb
    intro c
    constructor
    · intro hm
      rcases (rMem_cons _ _ _).1 ((h c).1 ((rMem_cons _ _ _).2 (Or.inr hm))) with h1 | h1
      · obtain ⟨x, hx, hx1, _⟩ := (rMem_iff _ as).1 hm
        have := hra x hx; omega
      · exact h1
    · intro hm
      rcases (rMem_cons _ _ _).1 ((h c).2 ((rMem_cons _ _ _).2 (Or.inr hm))) with h1 | h1
      · obtain ⟨x, hx, hx1, _⟩ := (rMem_iff _ bs).1 hm
        have := hqb x hx; omega
      · exact h1

/-- a canonical list is empty iff it has no member -/
theorem canon_isEmpty_iff (s : Ranges) (hc : Canon s) :
    s.isEmpty = true ↔ ∀ c, rMem c s = false := by
  cases s with
  | nil => simp [rMem_nil]
  | cons r rest =>
    simp only [List.isEmpty_cons, Bool.false_eq_true, false_iff]
    intro h
    have := h r.1
    rw [← Bool.not_eq_true, rMem_cons] at this
    exact this (Or.inl ⟨Int.le_refl _, (canon_cons.1 hc).1⟩)

/-! ## the design-space measure -/

/-- total length `Σ (end - start)` of a range list (raw 16.16 units) -/
def spanSum : Ranges → Int
  | [] => 0
  | r :: rest => (r.2 - r.1) + spanSum rest

theorem wrapI32_add (a b : Int) : wrapI32 (wrapI32 a + wrapI32 b) = wrapI32 (a + b) := by
  unfold wrapI32
  simp only []
  omega

theorem wrapI32_idem (a : Int) : wrapI32 (wrapI32 a) = wrapI32 a := by
  unfold wrapI32
  simp only []
  omega

theorem spanFold_eq : ∀ (l : Ranges) (S : Int),
    l.foldl (fun acc r => wrapI32 (acc + wrapI32 (r.2 - r.1))) (wrapI32 S) = wrapI32 (S + spanSum l)
  | [], S => by simp [spanSum]
  | r :: rest, S => by
    rw [List.foldl_cons, wrapI32_add, spanFold_eq rest (S + (r.2 - r.1)), spanSum]
    congr 1; omega

/-- `IntersectionInfo::design_space_size` for one axis: the wrapping `Fixed` sum of `end - start` is
the total length reduced to `i32` -/
theorem axisSize_eq (l : Ranges) :
    l.foldl (fun acc r => wrapI32 (acc + wrapI32 (r.2 - r.1))) 0 = wrapI32 (spanSum l) := by
  have := spanFold_eq l 0
  simpa [wrapI32] using this

/-! ## tag sets -/

theorem pairwise_lt_nodup {l : List Nat} (h : l.Pairwise (· < ·)) : l.Nodup :=
  h.imp (fun hab => Nat.ne_of_lt hab)

theorem tagInter_card (a b : List Nat) (ha : a.Nodup) (l : List Nat) (hn : l.Nodup)
    (hm : ∀ t, t ∈ l ↔ t ∈ a ∧ t ∈ b) : (a.filter fun t => b.contains t).length = l.length := by
  have h1 : (a.filter fun t => b.contains t).Nodup := ha.sublist List.filter_sublist
  have hp : l.Perm (a.filter fun t => b.contains t) :=
    (List.perm_ext_iff_of_nodup hn h1).2 (fun t => by rw [hm t]; simp [List.mem_filter])
  exact hp.length_eq.symm

end FontVerif.PatchMap
