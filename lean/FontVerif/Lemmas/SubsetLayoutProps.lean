/-
Helper definitions and lemmas for the C17 layout theorems (Props/C17Layout.lean): well-formedness
predicates of the statements (`CovOk`, `ClassOk`, `PlanOk'`, `AttachOk`, `LigOk`, `MarkSetsOk`, `StoreOk`,
`VarPlanSpec`, the pass-through correctness predicates), the per-sub-table specifications
(`subsetCoverage_spec`, `attach_list_subset`, `lig_caret_list_subset`, …) and the decomposition of a
successful `subset_gdef` run (`gdef_fields`).
-/
import FontVerif.Model.SubsetGdef
import FontVerif.Lemmas.SubsetLayout
import FontVerif.Lemmas.SubsetLayoutClassDef
import FontVerif.Lemmas.SubsetGdef
import FontVerif.Lemmas.SubsetHvar
set_option linter.unusedVariables false
namespace FontVerif.SubsetLayout
open FontVerif FontVerif.Layout FontVerif.SubsetGdef

/-! ## 1. Coverage -/

/-- a coverage table as the specification requires it: glyph array strictly ascending / range
records ascending, disjoint, with running start coverage indices; every covered glyph exists -/
def CovOk (p : LPlan) : Coverage → Prop
  | .fmt1 xs => xs.Pairwise (· < ·) ∧ ∀ g ∈ xs, g < p.numGlyphs ∧ g < 65536
  | .fmt2 rs => WFRanges 0 rs ∧ ∀ g ∈ expandRanges rs, g < p.numGlyphs ∧ g < 65536

/-- the glyph is kept for layout -/
def kept (p : LPlan) (g : Nat) : Bool := (p.get g).isSome

theorem CovOk.sorted {p : LPlan} {c : Coverage} (hc : CovOk p c) : c.glyphs.Pairwise (· < ·) := by
  cases c with
  | fmt1 xs => exact hc.1
  | fmt2 rs => exact wf_expand_sorted hc.1

theorem CovOk.get_eq {p : LPlan} {c : Coverage} (hc : CovOk p c) (g : Nat) :
    c.get g = indexIn g c.glyphs := by
  cases c with
  | fmt1 xs => exact get_fmt1 hc.1 (fun x hx => (hc.2 x hx).2) g
  | fmt2 rs =>
    apply get_fmt2 hc.1
    intro r hr
    have hse := wf_start_le_end hc.1 r hr
    exact (hc.2 r.end_ (mem_expandRanges.mpr ⟨r, hr, hse, Nat.le_refl _⟩)).2

theorem covRetained_eq {p : LPlan} (hp : PlanOk p) {c : Coverage} (hc : CovOk p c) :
    covRetained p c = .ok (c.glyphs.filterMap p.get) := by
  cases c with
  | fmt1 xs =>
    simp only [covRetained, Coverage.glyphs]
    rw [cov1Retained_eq hp hc.1]; rfl
  | fmt2 rs =>
    simp only [covRetained, Coverage.glyphs]
    exact cov2Retained_eq hp hc.1 (fun g hg => (hc.2 g hg).1)

/-- the whole behaviour of `CoverageTable::subset` on a well-formed table: nothing retained =
`Err(EMPTY)`; otherwise a table whose glyphs are the new ids of the kept covered glyphs in coverage
order and on which read-fonts' `get` (binary search) answers "position in that list" -/
theorem subsetCoverage_spec {p : LPlan} (hp : PlanOk p) {c : Coverage} (hc : CovOk p c)
    (hsmall : (c.glyphs.filterMap p.get).length < 65536) :
    (c.glyphs.filterMap p.get = [] ∧ subsetCoverage p c = .error .empty) ∨
    ∃ w, subsetCoverage p c = .ok w ∧ w.toCoverage.glyphs = c.glyphs.filterMap p.get ∧
      ∀ n, w.toCoverage.get n = indexIn n (c.glyphs.filterMap p.get) := by
  unfold subsetCoverage
  rw [covRetained_eq hp hc]
  by_cases he : c.glyphs.filterMap p.get = []
  · left
    refine ⟨he, ?_⟩
    simp [he, bind, Except.bind, throw, throwThe, MonadExceptOf.throw]
  · right
    have hlt : ∀ x ∈ c.glyphs.filterMap p.get, x < 65536 := by
      intro x hx
      obtain ⟨g, _, e⟩ := List.mem_filterMap.mp hx
      exact (hp.get_lt e).1
    obtain ⟨w, hw, hg, hget⟩ := serializeCoverage_get he (kept_sorted hp hc.sorted) hlt hsmall
    refine ⟨w, ?_, hg, hget⟩
    have : (c.glyphs.filterMap p.get).isEmpty = false := by
      cases h : c.glyphs.filterMap p.get with
      | nil => exact absurd h he
      | cons _ _ => rfl
    simp [bind, Except.bind, this, hw]

/-- **coverage_empty_iff_no_kept_glyph_core**: `CoverageTable::subset` returns `Err(EMPTY)` exactly when
no covered glyph is kept (every caller then omits the table), and succeeds otherwise -/
theorem coverage_empty_iff_no_kept_glyph_core {p : LPlan} (hp : PlanOk p) {c : Coverage} (hc : CovOk p c)
    (hsmall : (c.glyphs.filterMap p.get).length < 65536) :
    (subsetCoverage p c = .error .empty ↔ ∀ g ∈ c.glyphs, p.get g = none) ∧
    ((∃ g ∈ c.glyphs, kept p g = true) → ∃ w, subsetCoverage p c = .ok w) := by
  have hnil : c.glyphs.filterMap p.get = [] ↔ ∀ g ∈ c.glyphs, p.get g = none := by
    rw [List.filterMap_eq_nil_iff]
  rcases subsetCoverage_spec hp hc hsmall with ⟨he, hr⟩ | ⟨w, hw, hg, _⟩
  · refine ⟨⟨fun _ => hnil.mp he, fun _ => hr⟩, ?_⟩
    rintro ⟨g, hg, hk⟩
    have := hnil.mp he g hg
    simp [kept, this] at hk
  · refine ⟨⟨fun h => (by rw [hw] at h; cases h), fun hall => ?_⟩, fun _ => ⟨w, hw⟩⟩
    exfalso
    have hne : w.toCoverage.glyphs = [] := by rw [hg]; exact hnil.mpr hall
    -- the writer is only reached with a non-empty list
    unfold subsetCoverage at hw
    rw [covRetained_eq hp hc, hnil.mpr hall] at hw
    simp [bind, Except.bind, throw, throwThe, MonadExceptOf.throw] at hw

/-- non-vacuity: the hypotheses hold for a compact renumbering {0↦0, 4↦1, 5↦2, 9↦3} of a 12-glyph
font and the format 2 coverage 3..=6, 9; the subset then covers 1, 2, 3 -/
def exPlan : LPlan := { glyphset := [0, 4, 5, 9], gmap := [(0, 0), (4, 1), (5, 2), (9, 3)], numGlyphs := 12 }

def exCov : Coverage := .fmt2 [⟨3, 6, 0⟩, ⟨9, 9, 4⟩]

/-! ## 2. ClassDef -/

/-- a class definition as the specification requires it (format 2: records ascending and disjoint;
format 1 has no side condition) -/
def ClassOk : ClassDef → Prop
  | .fmt1 _ _ => True
  | .fmt2 rs => WFClassRanges rs

/-- the plan of a font with at most 65535 output glyphs -/
structure PlanOk' (p : LPlan) : Prop extends PlanOk p where
  newLt' : ∀ kv ∈ p.gmap, kv.2 < 65535
  numLe : p.numGlyphs ≤ 65536
  nonempty : p.glyphset ≠ []

/-- the class a returned class map gives (identity without remapping; an unknown class is 0) -/
def remapC (cm : Option (List (Nat × Nat))) (c : Nat) : Nat :=
  match cm with
  | none => c
  | some m => (m.lookup c).getD 0

/-- the class the subset has to give the image of kept glyph `g` -/
def wantClass (a : CdArgs) (cd : ClassDef) (g : Nat) : Nat := if passFilter a g then cd.get g else 0

theorem subsetClassDef_pairs {p : LPlan} (hp : PlanOk' p) {a : CdArgs} {cd : ClassDef}
    (hcd : ClassOk cd) : ∃ ps, cdPairs p a cd = some ps ∧ PairsSpec p a cd ps := by
  obtain ⟨ps, hps⟩ := cdPairs_total hp.nonempty a cd
  refine ⟨ps, hps, cdPairs_spec hp.toPlanOk hp.numLe a ?_ hps⟩
  intro rs e; subst e; exact hcd

theorem pairs_classes_nz {p : LPlan} {a : CdArgs} {cd : ClassDef} {ps : List (Nat × Nat)}
    (hspec : PairsSpec p a cd ps) : ∀ c ∈ retainedClasses ps, c ≠ 0 := by
  intro c hc
  obtain ⟨n, hn⟩ := ((retainedClasses_spec ps).2 c).mp hc
  obtain ⟨_, _, _, _, hc0⟩ := (hspec.2 n c).mp hn
  exact hc0

/-- **classdef_subset_get_core**: for every `ClassDefSubsetStruct`: when `ClassDef::subset` succeeds, reading
the written table with read-fonts' `ClassDef::get` at the image of a kept glyph gives the class map
applied to the original class of the glyph (the original class itself when `remap_class` is false, as
GDEF uses it; class 0 when the glyph filter rejects the glyph), and class 0 at every id that is not
the image of a kept glyph — for both source formats, both strategies of the format 2 subsetter and
both output formats. -/
theorem classdef_subset_get_core {p : LPlan} (hp : PlanOk' p) {a : CdArgs} {cd : ClassDef}
    (hcd : ClassOk cd) {out : ClassDef} {cm : Option (List (Nat × Nat))}
    (h : subsetClassDef p a cd = .ok (out, cm)) :
    (∀ g n, p.get g = some n → out.get n = remapC cm (wantClass a cd g)) ∧
    (∀ n, (∀ g, p.get g ≠ some n) → out.get n = 0) ∧
    (cm.isSome = a.remapClass) := by
  obtain ⟨ps, hps, hspec⟩ := subsetClassDef_pairs hp (a := a) hcd
  have hkeys : ∀ x ∈ ps, x.1 < 65535 := by
    intro x hx
    obtain ⟨g, hg, _⟩ := (hspec.2 x.1 x.2).mp hx
    exact hp.newLt' _ ((hp.get_iff g x.1).mp hg)
  have hget := pairsSpec_itemGet hp.toPlanOk hspec
  unfold subsetClassDef at h
  simp only [hps] at h
  split at h
  · cases h
  · by_cases hr : a.remapClass = true
    · simp only [hr, Bool.not_true, Bool.false_eq_true, ↓reduceIte] at h
      cases hcm : classMap (useClassZero p a ps.length) (retainedClasses ps) with
      | none => simp [hcm] at h
      | some m =>
        simp only [hcm] at h
        have hs' : SortedItems (ps.map fun x => (x.1, (m.lookup x.2).getD 0)) := by
          unfold SortedItems; rw [List.pairwise_map]; exact hspec.1
        have hk' : ∀ x ∈ ps.map (fun x => (x.1, (m.lookup x.2).getD 0)), x.1 < 65535 := by
          intro x hx
          obtain ⟨y, hy, e⟩ := List.mem_map.mp hx
          rw [← e]; exact hkeys y hy
        obtain ⟨cd', hw, hg'⟩ := serializeClassDef_get hs' hk'
        rw [hw] at h
        simp only [Except.map, Except.ok.injEq, Prod.mk.injEq] at h
        obtain ⟨e1, e2⟩ := h
        subst e1; subst e2
        have h0 := (classMap_lookup (retainedClasses_spec ps).1 (pairs_classes_nz hspec) hcm).1
        have hmap := itemGet_map (fun c => (m.lookup c).getD 0)
        refine ⟨?_, ?_, by simp [hr]⟩
        · intro g n hg
          rw [hg' n, hmap n ps]
          have := hget.1 g n hg
          simp only [remapC, wantClass]
          cases hi : itemGet n ps with
          | none =>
            rw [hi] at this
            simp only [Option.getD_none] at this
            rw [← this]
            simp [h0]
          | some c =>
            rw [hi] at this
            simp only [Option.getD_some] at this
            rw [← this]; rfl
        · intro n hn
          rw [hg' n, hmap n ps]
          have := hget.2 n hn
          cases hi : itemGet n ps with
          | none => rfl
          | some c =>
            rw [hi] at this
            simp only [Option.getD_some] at this
            subst this
            simp [h0]
    · simp only [hr, Bool.not_false, ↓reduceIte] at h
      obtain ⟨cd', hw, hg'⟩ := serializeClassDef_get hspec.1 hkeys
      rw [hw] at h
      simp only [Except.map, Except.ok.injEq, Prod.mk.injEq] at h
      obtain ⟨e1, e2⟩ := h
      subst e1; subst e2
      refine ⟨?_, ?_, by simp [hr]⟩
      · intro g n hg
        rw [hg' n]
        exact hget.1 g n hg
      · intro n hn
        rw [hg' n]
        exact hget.2 n hn

/-- **classdef_subset_total_core**: on a well-formed table (classes below 0xFFFF) `ClassDef::subset` fails
only with `Err(EMPTY)`, exactly when `keep_empty_table` is off and no kept glyph (passing the
filter) has a non-zero class; it never panics and never errors otherwise. -/
theorem classdef_subset_total_core {p : LPlan} (hp : PlanOk' p) {a : CdArgs} {cd : ClassDef}
    (hcd : ClassOk cd) (hcls : a.remapClass = true → ∀ g n, p.get g = some n → cd.get g < 65535) :
    (∃ r, subsetClassDef p a cd = .ok r) ∨
    (subsetClassDef p a cd = .error .empty ∧ a.keepEmpty = false ∧
      ∀ g n, p.get g = some n → wantClass a cd g = 0) := by
  obtain ⟨ps, hps, hspec⟩ := subsetClassDef_pairs hp (a := a) hcd
  have hkeys : ∀ x ∈ ps, x.1 < 65535 := by
    intro x hx
    obtain ⟨g, hg, _⟩ := (hspec.2 x.1 x.2).mp hx
    exact hp.newLt' _ ((hp.get_iff g x.1).mp hg)
  unfold subsetClassDef
  simp only [hps]
  by_cases he : (!a.keepEmpty && ps.isEmpty) = true
  · right
    simp only [he, ↓reduceIte, true_and]
    simp only [Bool.and_eq_true, Bool.not_eq_eq_eq_not, Bool.not_true, List.isEmpty_iff] at he
    refine ⟨he.1, ?_⟩
    intro g n hg
    unfold wantClass
    by_cases hf : passFilter a g = true
    · simp only [hf, ↓reduceIte]
      apply Classical.byContradiction
      intro hne
      have := (hspec.2 n (cd.get g)).mpr ⟨g, hg, hf, rfl, hne⟩
      rw [he.2] at this; cases this
    · simp [hf]
  · left
    simp only [he, Bool.false_eq_true, ↓reduceIte]
    by_cases hr : a.remapClass = true
    · simp only [hr, Bool.not_true, Bool.false_eq_true, ↓reduceIte]
      -- classes are 1..65534, so there are at most 65534 of them: the u16 counter cannot overflow
      have hlen2 : (retainedClasses ps).length ≤ 65534 := by
        have := sorted_length_le_aux (retainedClasses_spec ps).1 1 65535 (fun c hc => by
          constructor
          · have := pairs_classes_nz hspec c hc; omega
          · obtain ⟨n, hn⟩ := ((retainedClasses_spec ps).2 c).mp hc
            obtain ⟨g, hg, _, hcg, _⟩ := (hspec.2 n c).mp hn
            rw [← hcg]; exact hcls hr g n hg)
        omega
      obtain ⟨m, hm⟩ := classMap_total (useClassZero p a ps.length) hlen2
      simp only [hm]
      have hs' : SortedItems (ps.map fun x => (x.1, (m.lookup x.2).getD 0)) := by
        unfold SortedItems; rw [List.pairwise_map]; exact hspec.1
      have hk' : ∀ x ∈ ps.map (fun x => (x.1, (m.lookup x.2).getD 0)), x.1 < 65535 := by
        intro x hx
        obtain ⟨y, hy, e⟩ := List.mem_map.mp hx
        rw [← e]; exact hkeys y hy
      obtain ⟨cd', hw, _⟩ := serializeClassDef_get hs' hk'
      exact ⟨_, by rw [hw]; rfl⟩
    · simp only [hr, Bool.not_false, ↓reduceIte]
      obtain ⟨cd', hw, _⟩ := serializeClassDef_get hspec.1 hkeys
      exact ⟨_, by rw [hw]; rfl⟩

/-! ## 3. GDEF -/

/-- the sub-tables of a successful `subset_gdef` run, one equation per sub-table -/
theorem gdef_fields {p : LPlan} {g : GdefIn} {o : GdefOut} (h : subsetGdefSem p g = .ok o) :
    optSem g.glyphClassDef (fun cd => (subsetClassDef p gdefCdArgs cd).map (·.1)) = .ok o.glyphClassDef ∧
    optSem g.attachList (attachSem p) = .ok o.attachList ∧
    optSem g.ligCaretList (ligSem p (varPlan p g).vmap) = .ok o.ligCaretList ∧
    optSem g.markAttachClassDef (fun cd => (subsetClassDef p gdefCdArgs cd).map (·.1)) = .ok o.markAttachClassDef ∧
    setsPart p g = .ok o.markGlyphSets ∧
    storePart p g = .ok o.varStore ∧
    o.major = g.major ∧
    o.minor = (if o.varStore.isSome then g.minor else if o.markGlyphSets.isSome then 2 else 0) ∧
    (o.glyphClassDef.isSome || o.attachList.isSome || o.ligCaretList.isSome ||
      o.markAttachClassDef.isSome || o.markGlyphSets.isSome || o.varStore.isSome) = true := by
  unfold subsetGdefSem at h
  simp only [bind, Except.bind] at h
  split at h
  · cases h
  · rename_i store hstore
    split at h
    · cases h
    · rename_i sets hsets
      split at h
      · cases h
      · rename_i mac hmac
        split at h
        · cases h
        · rename_i lig hlig
          split at h
          · cases h
          · rename_i att hatt
            split at h
            · cases h
            · rename_i cls hcls
              split at h
              · simp only [pure, Except.pure, Except.ok.injEq] at h
                subst h
                rename_i hany
                exact ⟨hcls, hatt, hlig, hmac, hsets, hstore, rfl, rfl, hany⟩
              · cases h

theorem optSem_ok {α β : Type} {t : Tbl α} {f : α → M β} {r : Option β} (h : optSem t f = .ok r) :
    (t = .absent ∧ r = none) ∨
    ∃ x, t = .ok x ∧ ((f x = .error .empty ∧ r = none) ∨ ∃ y, f x = .ok y ∧ r = some y) := by
  unfold optSem at h
  cases t with
  | absent => left; simp only [pure, Except.pure, Except.ok.injEq] at h; exact ⟨rfl, h.symm⟩
  | bad => cases h
  | ok x =>
    right
    refine ⟨x, rfl, ?_⟩
    simp only at h
    cases hf : f x with
    | ok y =>
      simp only [hf, pure, Except.pure, Except.ok.injEq] at h
      right; exact ⟨y, rfl, h.symm⟩
    | error e =>
      cases e with
      | empty =>
        simp only [hf, pure, Except.pure, Except.ok.injEq] at h
        left; exact ⟨rfl, h.symm⟩
      | soft => simp [hf] at h
      | hard => simp [hf] at h
      | trap => simp [hf] at h

/-- read-fonts' `ClassDef::get` on an optional class definition (no table = class 0) -/
def classOf (cd : Option ClassDef) (g : Nat) : Nat :=
  match cd with
  | some cd => cd.get g
  | none => 0

def tblOpt {α : Type} : Tbl α → Option α
  | .ok x => some x
  | _ => none

theorem gdef_class_preserved_aux {p : LPlan} (hp : PlanOk' p) {t : Tbl ClassDef} {r : Option ClassDef}
    (hcd : ∀ cd, t = .ok cd → ClassOk cd)
    (h : optSem t (fun cd => (subsetClassDef p gdefCdArgs cd).map (·.1)) = .ok r) :
    (∀ g n, p.get g = some n → classOf r n = classOf (tblOpt t) g) ∧
    (∀ n, (∀ g, p.get g ≠ some n) → classOf r n = 0) := by
  have hw : ∀ cd g, wantClass gdefCdArgs cd g = cd.get g := by
    intro cd g; simp [wantClass, passFilter, gdefCdArgs]
  rcases optSem_ok h with ⟨e1, e2⟩ | ⟨cd, e1, hh⟩
  · subst e1; subst e2
    exact ⟨fun _ _ _ => rfl, fun _ _ => rfl⟩
  · subst e1
    have hok := hcd cd rfl
    rcases hh with ⟨he, e2⟩ | ⟨y, hy, e2⟩
    · subst e2
      -- subset to empty: no kept glyph has a class
      have hne : subsetClassDef p gdefCdArgs cd = .error .empty := by
        cases hs : subsetClassDef p gdefCdArgs cd with
        | ok v => rw [hs] at he; cases he
        | error e => rw [hs] at he; simp only [Except.map] at he; injection he with he; rw [he]
      rcases classdef_subset_total_core hp (a := gdefCdArgs) hok (by simp [gdefCdArgs]) with ⟨v, hv⟩ | ⟨_, _, hz⟩
      · rw [hv] at hne; cases hne
      · refine ⟨fun g n hg => ?_, fun _ _ => rfl⟩
        have := hz g n hg
        rw [hw] at this
        simp [classOf, tblOpt, this]
    · subst e2
      cases hs : subsetClassDef p gdefCdArgs cd with
      | error e => rw [hs] at hy; cases hy
      | ok v =>
        rw [hs] at hy
        simp only [Except.map, Except.ok.injEq] at hy
        obtain ⟨out, cm⟩ := v
        simp only at hy; subst hy
        obtain ⟨h1, h2, h3⟩ := classdef_subset_get_core hp hok hs
        have hcm : cm = none := by
          cases cm with
          | none => rfl
          | some m => simp [gdefCdArgs] at h3
        subst hcm
        refine ⟨fun g n hg => ?_, fun n hn => h2 n hn⟩
        have := h1 g n hg
        simpa [classOf, tblOpt, remapC, hw] using this

/-! ### coverage-indexed arrays: AttachList, LigCaretList -/

theorem take_all {α : Type} {l : List α} {k : Nat} (h : l.length ≤ k) : l.take k = l :=
  List.take_of_length_le h

theorem CovOk.length_le {p : LPlan} {c : Coverage} (hc : CovOk p c) : c.glyphs.length ≤ p.numGlyphs := by
  apply sorted_length_le hc.sorted
  intro g hg
  cases c with
  | fmt1 xs => exact (hc.2 g hg).1
  | fmt2 rs => exact (hc.2 g hg).1

/-- the coverage table written for a non-empty ascending list of retained new glyph ids -/
theorem retained_coverage {p : LPlan} (hp : PlanOk' p) {β : Type} (es : List (Nat × β))
    (hne : es ≠ []) (hs : (es.map (·.1)).Pairwise (· < ·))
    (hk : ∀ e ∈ es, ∃ g, p.get g = some e.1) :
    ∃ w, serializeCoverage (es.map (·.1)) = .ok w ∧
      ∀ n, w.toCoverage.get n = indexIn n (es.map (·.1)) := by
  have hlt : ∀ x ∈ es.map (·.1), x < 65535 := by
    intro x hx
    obtain ⟨e, he, e1⟩ := List.mem_map.mp hx
    obtain ⟨g, hg⟩ := hk e he
    rw [← e1]
    exact hp.newLt' _ ((hp.get_iff g e.1).mp hg)
  have hlen := sorted_length_le hs 65535 hlt
  obtain ⟨w, hw, _, hget⟩ := serializeCoverage_get (gs := es.map (·.1))
    (by intro h; exact hne (List.map_eq_nil_iff.mp h)) hs
    (fun x hx => by have := hlt x hx; omega) (by omega)
  exact ⟨w, hw, hget⟩

/-- a well-formed AttachList: coverage as the specification requires, one readable AttachPoint table
per covered glyph -/
structure AttachOk (p : LPlan) (a : AttachListIn) (c : Coverage) : Prop where
  cov : a.cov = some c
  covOk : CovOk p c
  count : a.glyphCount = c.glyphs.length
  readable : ∀ i, i < c.glyphs.length → ∃ bs, a.points[i]? = some (some bs)

/-- **attach_list_subset**: `AttachList::subset` on a well-formed list: `Err(EMPTY)` exactly when no
covered glyph is kept; otherwise the written list gives — through its coverage table — every kept
covered glyph the AttachPoint table the original gave it, and covers no other id. -/
theorem attach_list_subset {p : LPlan} (hp : PlanOk' p) {a : AttachListIn} {c : Coverage}
    (ha : AttachOk p a c) :
    (attachSem p a = .error .empty ∧ ∀ g ∈ c.glyphs, p.get g = none) ∨
    ∃ o, attachSem p a = .ok o ∧
      (∀ g n i bs, p.get g = some n → c.get g = some i → a.points[i]? = some (some bs) →
        ∃ j, o.cov.toCoverage.get n = some j ∧ o.points[j]? = some bs) ∧
      (∀ n, (∀ g ∈ c.glyphs, p.get g ≠ some n) → o.cov.toCoverage.get n = none) := by
  have hitems : (c.glyphs.zipIdx).take (min p.numGlyphs a.glyphCount) = c.glyphs.zipIdx := by
    apply take_all
    rw [List.length_zipIdx, ha.count]
    have := ha.covOk.length_le
    omega
  have hsorted : ((c.glyphs.zipIdx).map (·.1)).Pairwise (· < ·) := by
    rw [List.zipIdx_map_fst]; exact ha.covOk.sorted
  obtain ⟨entries, hent⟩ := attachGo_total p a.points c.glyphs.zipIdx (by
    intro it hit _
    obtain ⟨g, i⟩ := it
    have := mem_zipIdx_iff.mp hit
    exact ha.readable i (List.getElem?_eq_some_iff.mp this).1)
  obtain ⟨hes, hmem⟩ := attachGo_spec p hp.toPlanOk a.points c.glyphs.zipIdx entries hsorted hent
  unfold attachSem
  simp only [ha.cov, hitems, hent]
  by_cases he : entries = []
  · left
    subst he
    refine ⟨by simp, ?_⟩
    intro g hg
    cases hgn : p.get g with
    | none => rfl
    | some n =>
      exfalso
      obtain ⟨i, hi, e⟩ := List.getElem_of_mem hg
      obtain ⟨bs, hb⟩ := ha.readable i hi
      have := (hmem n bs).mpr ⟨g, i, mem_zipIdx_iff.mpr (by rw [List.getElem?_eq_getElem hi, e]), hgn, hb⟩
      cases this
  · right
    have hemp : entries.isEmpty = false := by cases entries <;> simp_all
    obtain ⟨w, hw, hget⟩ := retained_coverage hp entries he hes (by
      intro e hee
      obtain ⟨g, _, _, hg, _⟩ := (hmem e.1 e.2).mp hee
      exact ⟨g, hg⟩)
    simp only [hemp, Bool.false_eq_true, ↓reduceIte, hw, Except.map]
    refine ⟨_, rfl, ?_, ?_⟩
    · intro g n i bs hgn hci hb
      rw [ha.covOk.get_eq] at hci
      have hm := (hmem n bs).mpr ⟨g, i, mem_zipIdx_iff.mpr (indexIn_getElem? hci), hgn, hb⟩
      obtain ⟨j, h1, h2⟩ := entries_lookup entries n bs (hes.imp (fun h => Nat.ne_of_lt h)) hm
      exact ⟨j, by rw [hget n]; exact h1, h2⟩
    · intro n hn
      rw [hget n]
      apply indexIn_none_of_keys
      intro bs hm
      obtain ⟨g, i, hit, hgn, _⟩ := (hmem n bs).mp hm
      exact hn g (List.mem_of_getElem? (mem_zipIdx_iff.mp hit)) hgn

/-- a well-formed LigCaretList: coverage as the specification requires, one readable LigGlyph per
covered glyph whose caret values are readable (format 3 with a readable Device / VariationIndex) -/
structure LigOk (p : LPlan) (l : LigCaretListIn) (c : Coverage) : Prop where
  cov : l.cov = some c
  covOk : CovOk p c
  count : l.count = c.glyphs.length
  readable : ∀ i, i < c.glyphs.length → ∃ carets, l.ligs[i]? = some (.ok carets)

/-- the caret value the subset has to hold for an original caret value: formats 1 and 2 (coordinate,
contour point index) byte for byte; format 3 with the same coordinate and its Device table copied /
its VariationIndex replaced by the new index of `layout_varidx_delta_map` -/
def wantCaret (vmap : List (Nat × Nat)) : CaretIn → Option CaretOut
  | .bad => none
  | .f1 bs => some (.plain bs)
  | .f2 bs => some (.plain bs)
  | .f3 coord (some (.device bs)) => some (.f3 coord bs)
  | .f3 coord (some (.varIdx outer inner)) =>
    (vmap.lookup (outer * 65536 + inner)).map fun new => .f3 coord (be32 new ++ be16 0x8000)
  | .f3 _ none => none

theorem caretSem_want (vmap : List (Nat × Nat)) (c : CaretIn) (out : CaretOut)
    (h : caretSem vmap c = .ok out) : wantCaret vmap c = some out := by
  cases c with
  | bad => cases h
  | f1 bs => simp only [caretSem, pure, Except.pure, Except.ok.injEq] at h; subst h; rfl
  | f2 bs => simp only [caretSem, pure, Except.pure, Except.ok.injEq] at h; subst h; rfl
  | f3 coord dev =>
    cases dev with
    | none => cases h
    | some d =>
      cases d with
      | device bs =>
        simp only [caretSem, subsetDevice, pure, Except.pure, Except.map, Except.ok.injEq] at h
        subst h; rfl
      | varIdx o i =>
        simp only [caretSem, subsetDevice] at h
        cases hl : vmap.lookup (o * 65536 + i) with
        | none => simp [hl, Except.map] at h
        | some new =>
          simp only [hl, pure, Except.pure, Except.map, Except.ok.injEq] at h
          subst h
          simp [wantCaret, hl]

theorem ligGlyphSem_want (vmap : List (Nat × Nat)) (carets : List CaretIn) (out : List CaretOut)
    (h : ligGlyphSem vmap carets = .ok out) :
    carets.map (wantCaret vmap) = out.map some ∧ out ≠ [] := by
  unfold ligGlyphSem at h
  cases hm : carets.mapM (caretSem vmap) with
  | error e => simp [hm] at h
  | ok o' =>
    simp only [hm] at h
    split at h
    · cases h
    · rename_i hne
      simp only [pure, Except.pure, Except.ok.injEq] at h
      subst h
      refine ⟨?_, by intro e; simp [e] at hne⟩
      clear hne
      induction carets generalizing o' with
      | nil =>
        simp only [List.mapM_nil, pure, Except.pure, Except.ok.injEq] at hm
        subst hm; rfl
      | cons c rest ih =>
        simp only [List.mapM_cons, bind, Except.bind] at hm
        cases hc : caretSem vmap c with
        | error e => simp [hc] at hm
        | ok oc =>
          simp only [hc] at hm
          cases hr : rest.mapM (caretSem vmap) with
          | error e => simp [hr] at hm
          | ok orest =>
            simp only [hr, pure, Except.pure, Except.ok.injEq] at hm
            subst hm
            simp [caretSem_want vmap c oc hc, ih orest hr]

theorem caretSem_not_empty (vmap : List (Nat × Nat)) (c : CaretIn) : caretSem vmap c ≠ .error .empty := by
  cases c with
  | bad => simp [caretSem]
  | f1 bs => simp [caretSem, pure, Except.pure]
  | f2 bs => simp [caretSem, pure, Except.pure]
  | f3 coord dev =>
    cases dev with
    | none => simp [caretSem]
    | some d =>
      cases d with
      | device bs => simp [caretSem, subsetDevice, pure, Except.pure, Except.map]
      | varIdx o i =>
        simp only [caretSem, subsetDevice]
        cases vmap.lookup (o * 65536 + i) <;> simp [Except.map, pure, Except.pure]

theorem mapM_caretSem_not_empty (vmap : List (Nat × Nat)) (cs : List CaretIn) :
    cs.mapM (caretSem vmap) ≠ .error .empty := by
  induction cs with
  | nil => simp [pure, Except.pure]
  | cons c rest ih =>
    simp only [List.mapM_cons, bind, Except.bind]
    cases hc : caretSem vmap c with
    | error e =>
      intro h; simp only at h; injection h with h; subst h
      exact caretSem_not_empty vmap c hc
    | ok oc =>
      simp only
      cases hr : rest.mapM (caretSem vmap) with
      | error e =>
        intro h; simp only at h; injection h with h; subst h
        exact ih hr
      | ok orest => simp [pure, Except.pure]

/-- **lig_caret_list_subset**: whenever `LigCaretList::subset` writes a list for a well-formed
original: every kept covered glyph whose LigGlyph is written has — through the subset's coverage —
exactly its caret values in order (`wantCaret`: formats 1/2 unchanged incl. the format 2 point index,
format 3 coordinate unchanged, Device copied, VariationIndex remapped); a kept covered glyph WITHOUT
caret values is left out of the coverage (fix 87f42c2) and no other id is covered. -/
theorem lig_caret_list_subset {p : LPlan} (hp : PlanOk' p) {vmap : List (Nat × Nat)}
    {l : LigCaretListIn} {c : Coverage} (hl : LigOk p l c) {o : LigOut}
    (h : ligSem p vmap l = .ok o) :
    (∀ g n i carets, p.get g = some n → c.get g = some i → l.ligs[i]? = some (.ok carets) →
      carets ≠ [] →
      ∃ j out, o.cov.toCoverage.get n = some j ∧ o.ligs[j]? = some out ∧
        carets.map (wantCaret vmap) = out.map some) ∧
    (∀ g n i, p.get g = some n → c.get g = some i → l.ligs[i]? = some (.ok []) →
      o.cov.toCoverage.get n = none) ∧
    (∀ n, (∀ g ∈ c.glyphs, p.get g ≠ some n) → o.cov.toCoverage.get n = none) := by
  have hitems : (c.glyphs.zipIdx).take (min p.numGlyphs l.count) = c.glyphs.zipIdx := by
    apply take_all
    rw [List.length_zipIdx, hl.count]
    have := hl.covOk.length_le
    omega
  have hsorted : ((c.glyphs.zipIdx).map (·.1)).Pairwise (· < ·) := by
    rw [List.zipIdx_map_fst]; exact hl.covOk.sorted
  unfold ligSem at h
  simp only [hl.cov, hitems] at h
  cases hent : ligListGo p vmap l.ligs c.glyphs.zipIdx with
  | error e => simp [hent] at h
  | ok entries =>
    simp only [hent] at h
    obtain ⟨hes, hmem⟩ := ligListGo_spec p hp.toPlanOk vmap l.ligs c.glyphs.zipIdx entries hsorted hent
    split at h
    · cases h
    · rename_i hne
      have he : entries ≠ [] := by intro e; simp [e] at hne
      obtain ⟨w, hw, hget⟩ := retained_coverage hp entries he hes (by
        intro e hee
        obtain ⟨g, _, _, _, hg, _⟩ := (hmem e.1 e.2).mp hee
        exact ⟨g, hg⟩)
      simp only [hw, Except.map, Except.ok.injEq] at h
      subst h
      simp only
      -- a kept covered glyph with carets: its LigGlyph was subset (the whole list would have failed otherwise)
      refine ⟨?_, ?_, ?_⟩
      · intro g n i carets hgn hci hli hcne
        rw [hl.covOk.get_eq] at hci
        have hit := mem_zipIdx_iff.mpr (indexIn_getElem? hci)
        -- the loop's outcome for this glyph
        cases hs : ligGlyphSem vmap carets with
        | ok out =>
          have hm := (hmem n out).mpr ⟨g, i, carets, hit, hgn, hli, hs⟩
          obtain ⟨j, h1, h2⟩ := entries_lookup entries n out (hes.imp (fun h => Nat.ne_of_lt h)) hm
          exact ⟨j, out, by rw [hget n]; exact h1, h2, (ligGlyphSem_want vmap carets out hs).1⟩
        | error e =>
          exfalso
          -- an error other than EMPTY aborts the loop; EMPTY needs an empty caret list
          have hfail : ∀ (items : List (Nat × Nat)), (g, i) ∈ items →
              ∀ es, ligListGo p vmap l.ligs items = .ok es → e = .empty := by
            intro items
            induction items with
            | nil => intro hm; cases hm
            | cons it rest ih =>
              intro hm es hes'
              obtain ⟨g', i'⟩ := it
              simp only [ligListGo] at hes'
              rcases List.mem_cons.mp hm with e1 | hm'
              · injection e1 with e1 e2; subst e1; subst e2
                simp only [hgn, hli, hs] at hes'
                cases e with
                | empty => rfl
                | soft => simp at hes'
                | hard => simp at hes'
                | trap => simp at hes'
              · cases hg' : p.get g' with
                | none => simp only [hg'] at hes'; exact ih hm' es hes'
                | some n' =>
                  simp only [hg'] at hes'
                  cases hl' : l.ligs[i']? with
                  | none => simp [hl'] at hes'
                  | some lg =>
                    cases lg with
                    | bad => simp [hl'] at hes'
                    | ok cs =>
                      simp only [hl'] at hes'
                      cases hs' : ligGlyphSem vmap cs with
                      | error e' =>
                        cases e' with
                        | empty => simp only [hs'] at hes'; exact ih hm' es hes'
                        | soft => simp [hs'] at hes'
                        | hard => simp [hs'] at hes'
                        | trap => simp [hs'] at hes'
                      | ok o' =>
                        simp only [hs'] at hes'
                        cases hr : ligListGo p vmap l.ligs rest with
                        | error e'' => simp [hr, Except.map] at hes'
                        | ok es' => exact ih hm' es' hr
          have := hfail c.glyphs.zipIdx hit entries hent
          subst this
          -- EMPTY: mapM succeeded with an empty result, so there were no carets
          unfold ligGlyphSem at hs
          cases hm : carets.mapM (caretSem vmap) with
          | error e' =>
            simp only [hm] at hs
            injection hs with hs
            subst hs
            exact mapM_caretSem_not_empty vmap carets hm
          | ok o' =>
            simp only [hm] at hs
            split at hs
            · rename_i hemp
              cases carets with
              | nil => exact hcne rfl
              | cons c0 rest =>
                simp only [List.mapM_cons, bind, Except.bind] at hm
                cases hc0 : caretSem vmap c0 with
                | error e' => simp [hc0] at hm
                | ok oc =>
                  simp only [hc0] at hm
                  cases hr : rest.mapM (caretSem vmap) with
                  | error e' => simp [hr] at hm
                  | ok orest =>
                    simp only [hr, pure, Except.pure, Except.ok.injEq] at hm
                    subst hm
                    simp at hemp
            · cases hs
      · intro g n i hgn hci hli
        rw [hget n]
        apply indexIn_none_of_keys
        intro out hm
        obtain ⟨g', i', cs, hit, hgn', hli', hs⟩ := (hmem n out).mp hm
        have hgg := hp.get_inj hgn' hgn
        subst hgg
        rw [hl.covOk.get_eq] at hci
        have h1 := mem_zipIdx_iff.mp hit
        have h2 := indexIn_getElem? hci
        -- the glyph occurs once in the coverage
        have hii : i' = i := by
          have hd := hl.covOk.sorted
          have hi' := (List.getElem?_eq_some_iff.mp h1)
          have hi := (List.getElem?_eq_some_iff.mp h2)
          rcases Nat.lt_trichotomy i' i with hh | hh | hh
          · have := List.pairwise_iff_getElem.mp hd i' i hi'.1 hi.1 hh
            rw [hi'.2, hi.2] at this; omega
          · exact hh
          · have := List.pairwise_iff_getElem.mp hd i i' hi.1 hi'.1 hh
            rw [hi'.2, hi.2] at this; omega
        subst hii
        rw [hli] at hli'; injection hli' with hli'; injection hli' with hli'
        subst hli'
        simp [ligGlyphSem, pure, Except.pure] at hs
      · intro n hn
        rw [hget n]
        apply indexIn_none_of_keys
        intro out hm
        obtain ⟨g, i, _, hit, hgn, _⟩ := (hmem n out).mp hm
        exact hn g (List.mem_of_getElem? (mem_zipIdx_iff.mp hit)) hgn

/-! ### mark glyph sets -/

/-- well-formed MarkGlyphSets: every coverage table readable and as the specification requires -/
def MarkSetsOk (p : LPlan) (m : MarkSetsIn) : Prop :=
  ∀ s ∈ m.sets, ∃ c, s = some c ∧ CovOk p c

theorem survive_iff_used {p : LPlan} (hp : PlanOk' p) {c : Coverage} (hc : CovOk p c) :
    setUsed p (some c) = (survive p (some c)).isSome := by
  have hsmall : (c.glyphs.filterMap p.get).length < 65536 := by
    have h1 := kept_sorted hp.toPlanOk hc.sorted
    have := sorted_length_le h1 65535 (by
      intro x hx
      obtain ⟨g, _, e⟩ := List.mem_filterMap.mp hx
      exact hp.newLt' _ ((hp.get_iff g x).mp e))
    omega
  obtain ⟨hemp, hsucc⟩ := coverage_empty_iff_no_kept_glyph_core hp.toPlanOk hc hsmall
  by_cases hu : setUsed p (some c) = true
  · rw [hu]
    simp only [setUsed, List.any_eq_true, List.contains_iff_mem, decide_eq_true_eq] at hu
    obtain ⟨g, hg, hgs⟩ := hu
    have hgs' : g ∈ p.glyphset := by simpa using hgs
    obtain ⟨n, hn⟩ := hp.mem_glyphset hgs'
    obtain ⟨w, hw⟩ := hsucc ⟨g, hg, by simp [kept, hn]⟩
    simp [survive, hw]
  · have hall : ∀ g ∈ c.glyphs, p.get g = none := by
      intro g hg
      cases hgn : p.get g with
      | none => rfl
      | some n =>
        exfalso; apply hu
        simp only [setUsed, List.any_eq_true]
        exact ⟨g, hg, by simpa using (hp.get_lt hgn).2.2⟩
    have := hemp.mpr hall
    simp [survive, this]
    simpa using hu

/-! ### the variation store -/

/-- a readable ItemVariationStore (the HVAR theorems' side conditions): byte data, fewer than 2^15
region indexes per subtable, all inside the region list, every subtable holds its delta sets -/
structure StoreOk (st : StoreIn) (axisCount : Nat) (regions : List (List (Int × Int × Int))) : Prop where
  regs : st.regions = some (axisCount, regions)
  regLe : regions.length ≤ 65536
  subOk : ∀ t, SubsetHvar.SubIn.ok t ∈ st.subs →
    (∀ b ∈ t.data, b < 256) ∧ t.regionIndexes.length < 32768 ∧ SubsetHvar.SubOk t ∧
    ∀ ri ∈ t.regionIndexes, ri < regions.length

/-- what `remap_variation_indices` / `generate_varstore_inner_maps` compute: the variation index
`(outer, inner_maps[outer][i])` becomes `(number of used subtables before outer, i)` -/
def VarPlanSpec (vp : VarPlan) : Prop :=
  ∀ outer im i, vp.inner[outer]? = some im → i < im.length →
    vp.vmap.lookup (outer * 65536 + im[i]!) = some (SubsetHvar.usedBefore vp.inner outer * 65536 + i)

/-- a glyph map: injective partial function -/
def GlyphMapInj (f : Nat → Option Nat) : Prop := ∀ a b n, f a = some n → f b = some n → a = b

/-- the passed-through SingleSubst is right for kept inputs: applying the (unchanged) subtable to the
renumbered glyph gives the renumbering of what the original gives -/
def SingleCorrect (f : Nat → Option Nat) (t : SingleSubst) : Prop :=
  ∀ g n, f g = some n → t.apply n = (t.apply g).bind f

/-- the passed-through PairPos format 1 subtable gives a renumbered kept pair the original value -/
def PairCorrect {V : Type} (f : Nat → Option Nat) (t : PairPos1 V) : Prop :=
  ∀ g1 n1 g2 n2, f g1 = some n1 → f g2 = some n2 → t.lookup n1 n2 = t.lookup g1 g2

/-- a SingleSubst with a format 1 coverage as the specification requires it -/
def SingleWf (t : SingleSubst) : Prop :=
  ∃ xs, t.cov = .fmt1 xs ∧ xs.Pairwise (· < ·) ∧ (∀ x ∈ xs, x < 65536) ∧ t.subst.length = xs.length

/-- a PairPos format 1 subtable with a format 1 coverage as the specification requires it -/
def PairWf {V : Type} (t : PairPos1 V) : Prop :=
  ∃ xs, t.cov = .fmt1 xs ∧ xs.Pairwise (· < ·) ∧ (∀ x ∈ xs, x < 65536)

/-- example input of the GDEF non-vacuity examples: a version 1.0 GDEF with a format 2 glyph class
definition {3..6 ↦ 2, 9 ↦ 5} -/
def exGdef : GdefIn :=
  { major := 1, minor := 0, glyphClassDef := .ok (.fmt2 [⟨3, 6, 2⟩, ⟨9, 9, 5⟩]), attachList := .absent,
    ligCaretList := .absent, markAttachClassDef := .absent, markGlyphSets := .absent, varStore := .absent }

end FontVerif.SubsetLayout
