/-
Helper lemmas for C17 (Model/SubsetCmap.lean): klippa's format 12 group merging
(`Cmap12::serialize`) produces well-formed groups that stand for exactly the listed pairs.
-/
import FontVerif.Model.SubsetCmap
import FontVerif.Lemmas.Cmap
set_option linter.unusedVariables false
namespace FontVerif.SubsetCmap
open FontVerif FontVerif.Cmap

/-- what `Plan::unicode_to_new_gid_list` (restricted to one subtable) looks like: strictly ascending
Unicode code points, 16-bit glyph ids -/
structure Listed (l : Mapping) : Prop where
  asc : Ascending l
  bound : ∀ p ∈ l, p.1 ≤ 0x10FFFF ∧ p.2 ≤ 0xFFFF

theorem Listed.tail {p : Nat × Nat} {l : Mapping} (h : Listed (p :: l)) : Listed l :=
  ⟨(List.pairwise_cons.1 h.asc).2, fun q hq => h.bound q (List.mem_cons_of_mem _ hq)⟩

theorem expandGroup_snoc (sc ec g : Nat) (h : sc ≤ ec) :
    expandGroup (sc, ec + 1, g) = expandGroup (sc, ec, g) ++ [(ec + 1, g + (ec + 1 - sc))] := by
  unfold expandGroup
  simp only
  have : ec + 1 + 1 - sc = (ec + 1 - sc) + 1 := by omega
  rw [this, List.range'_concat]
  simp only [List.map_append, List.map_cons, List.map_nil, Nat.one_mul]
  congr 3
  · omega
  · omega

theorem k12_spec : ∀ (rest : Mapping) (lb sc ec g : Nat), lb ≤ sc → sc ≤ ec → ec ≤ 0x10FFFF → g ≤ 0xFFFF →
    AscFrom (ec + 1) rest → (∀ p ∈ rest, p.1 ≤ 0x10FFFF ∧ p.2 ≤ 0xFFFF) →
    ∃ gs, groups12Go sc ec g rest = some gs ∧ GroupsOk lb gs ∧
      expandGroups gs = expandGroup (sc, ec, g) ++ rest := by
  intro rest
  induction rest with
  | nil =>
    intro lb sc ec g h1 h2 h3 h4 _ _
    have hne : sc ≠ INVALID := by unfold INVALID; omega
    refine ⟨[(sc, ec, g)], by simp [groups12Go, hne], ⟨h1, h2, trivial⟩, by simp [expandGroups]⟩
  | cons p rest ih =>
    intro lb sc ec g h1 h2 h3 h4 hasc hb
    obtain ⟨cp, gid⟩ := p
    obtain ⟨ha1, ha2⟩ := hasc
    simp only at ha1 ha2
    have hp := hb (cp, gid) (List.mem_cons_self ..)
    simp only at hp
    have hb' : ∀ q ∈ rest, q.1 ≤ 0x10FFFF ∧ q.2 ≤ 0xFFFF := fun q hq => hb q (List.mem_cons_of_mem _ hq)
    have hne : sc ≠ INVALID := by unfold INVALID; omega
    have hcp0 : cp ≠ 0 := by omega
    unfold groups12Go
    simp only [hne, if_false, hcp0]
    by_cases hadj : cp - 1 = ec
    · simp only [hadj, if_true]
      have hov : ¬ g + (cp - sc) > 4294967295 := by omega
      simp only [hov, if_false]
      have hcp : cp = ec + 1 := by omega
      by_cases hg : gid = g + (cp - sc)
      · simp only [hg, if_true]
        obtain ⟨gs, e1, e2, e3⟩ := ih lb sc cp g h1 (by omega) hp.1 h4 ha2 hb'
        refine ⟨gs, e1, e2, ?_⟩
        rw [e3, hcp, expandGroup_snoc sc ec g h2]
        simp
      · simp only [hg, if_false]
        obtain ⟨gs, e1, e2, e3⟩ := ih (ec + 1) cp cp gid (by omega) (Nat.le_refl _) hp.1 hp.2 ha2 hb'
        refine ⟨(sc, ec, g) :: gs, by simp [e1], ⟨h1, h2, e2⟩, ?_⟩
        simp only [expandGroups, List.flatMap_cons] at e3 ⊢
        rw [e3]
        simp [expandGroup]
    · simp only [hadj, if_false]
      obtain ⟨gs, e1, e2, e3⟩ := ih (ec + 1) cp cp gid (by omega) (Nat.le_refl _) hp.1 hp.2 ha2 hb'
      refine ⟨(sc, ec, g) :: gs, by simp [e1], ⟨h1, h2, e2⟩, ?_⟩
      simp only [expandGroups, List.flatMap_cons] at e3 ⊢
      rw [e3]
      simp [expandGroup]

/-- `Cmap12::serialize`'s loop on a listed mapping: never traps, and the groups are well formed and
stand for exactly the mapping -/
theorem groups12_spec (l : Mapping) (hl : Listed l) :
    ∃ gs, groups12 l = some gs ∧ GroupsOk 0 gs ∧ expandGroups gs = l := by
  cases l with
  | nil => exact ⟨[], by simp [groups12, groups12Go, INVALID], trivial, by simp [expandGroups]⟩
  | cons p rest =>
    obtain ⟨cp, gid⟩ := p
    have hp := hl.bound (cp, gid) (List.mem_cons_self ..)
    simp only at hp
    have hasc : AscFrom (cp + 1) rest :=
      Ascending.ascFrom rest (cp + 1) hl.tail.asc (fun q hq => by
        have := (List.pairwise_cons.1 hl.asc).1 q hq
        simp only at this
        omega)
    obtain ⟨gs, e1, e2, e3⟩ := k12_spec rest 0 cp cp gid (Nat.zero_le _) (Nat.le_refl _) hp.1 hp.2 hasc
      (fun q hq => hl.bound q (List.mem_cons_of_mem _ hq))
    refine ⟨gs, ?_, e2, ?_⟩
    · unfold groups12
      rw [groups12Go]
      simp [e1]
    · rw [e3]
      simp [expandGroup]

theorem listed_small {l : Mapping} (hl : Listed l) : Small l := by
  intro p hp
  have := hl.bound p hp
  omega

end FontVerif.SubsetCmap
