/-
Sparse-bit-set codec: members inserted by the queue decoder = members of the specification's
layer, after bias / maximum; the invariant that makes the early `break 'outer` sound
(`SepFrom`: starts of a layer ascend and are at least one node size apart); and the run over
all layers.
-/
import FontVerif.Lemmas.SbsSpec
set_option linter.unusedVariables false
namespace FontVerif.SparseBitSet

/-! ### set bits -/

theorem mem_setBits {b i : Nat} : i ∈ setBits b ↔ i < 32 ∧ b.testBit i = true := by
  simp [setBits]

theorem setBits_lt {bf b i : Nat} (hb : b < 2 ^ bf) (hi : i ∈ setBits b) : i < bf := by
  rcases Nat.lt_or_ge i bf with h | h
  · exact h
  · exfalso
    have h2 : b < 2 ^ i := Nat.lt_of_lt_of_le hb (Nat.pow_le_pow_right (by decide) h)
    have h3 := Nat.testBit_lt_two_pow h2
    have h4 := (mem_setBits.mp hi).2
    rw [h3] at h4
    exact Bool.noConfusion h4

theorem setBits_pairwise (b : Nat) : (setBits b).Pairwise (· < ·) :=
  List.Pairwise.filter _ List.pairwise_lt_range

/-! ### ascending, separated starts -/

/-- every start is `≥ lo`, and each start plus the node size is `≤` the next start -/
def SepFrom (size : Nat) : Nat → List Nat → Prop
  | _, [] => True
  | lo, s :: rest => lo ≤ s ∧ SepFrom size (s + size) rest

theorem sepFrom_mono {size lo lo' : Nat} (h : lo' ≤ lo) :
    ∀ {l : List Nat}, SepFrom size lo l → SepFrom size lo' l
  | [], _ => trivial
  | s :: rest, hs => ⟨Nat.le_trans h hs.1, hs.2⟩

theorem sepFrom_children (c s bf : Nat) (tail : List Nat) (ht : SepFrom c (s + bf * c) tail) :
    ∀ (is : List Nat) (j : Nat), is.Pairwise (· < ·) → (∀ i ∈ is, j ≤ i ∧ i < bf) → j ≤ bf →
      SepFrom c (s + j * c) (is.map (fun i => s + i * c) ++ tail)
  | [], j, _, _, hj => by
    simp only [List.map_nil, List.nil_append]
    exact sepFrom_mono (Nat.add_le_add_left (Nat.mul_le_mul_right c hj) s) ht
  | i :: rest, j, hp, hb, hj => by
    simp only [List.map_cons, List.cons_append, SepFrom]
    have hi := hb i (by simp)
    refine ⟨Nat.add_le_add_left (Nat.mul_le_mul_right c hi.1) s, ?_⟩
    have hp' := List.pairwise_cons.mp hp
    have := sepFrom_children c s bf tail ht rest (i + 1) hp'.2
      (fun k hk => ⟨hp'.1 k hk, (hb k (by simp [hk])).2⟩) hi.2
    rw [Nat.succ_mul, ← Nat.add_assoc] at this
    exact this

/-- the children of a separated layer are separated with the child node size -/
theorem sepFrom_specLayer {bf : Nat} (height depth : Nat) (hd : depth ≠ height) :
    ∀ (starts bitss : List Nat) (lo : Nat), (∀ b ∈ bitss, b < 2 ^ bf) →
      SepFrom (bf * bf ^ (height - depth)) lo starts →
      SepFrom (bf ^ (height - depth)) lo (specLayer bf height depth starts bitss).2
  | [], _, lo, _, _ => by simp [specLayer, SepFrom]
  | s :: ss, [], lo, _, _ => by simp [specLayer, SepFrom]
  | s :: ss, b :: bs, lo, hb, hs => by
    have ih := sepFrom_specLayer height depth hd ss bs (s + bf * bf ^ (height - depth))
      (fun b' hb' => hb b' (by simp [hb'])) hs.2
    simp only [specLayer]
    split
    · exact sepFrom_mono (Nat.le_trans hs.1 (Nat.le_add_right _ _)) ih
    · have := sepFrom_children (bf ^ (height - depth)) s bf _ ih (setBits b) 0
        (setBits_pairwise b)
        (fun i hi => ⟨Nat.zero_le _, setBits_lt (hb b (by simp)) hi⟩) (Nat.zero_le _)
      simp only [Nat.zero_mul, Nat.add_zero] at this
      exact sepFrom_mono hs.1 this

/-- every interval of a layer starts at or after the lower bound of its starts -/
theorem specLayer_lo {bf : Nat} (height depth size : Nat) :
    ∀ (starts bitss : List Nat) (lo : Nat), SepFrom size lo starts →
      ∀ p ∈ (specLayer bf height depth starts bitss).1, lo ≤ p.1
  | [], _, lo, _ => by simp [specLayer]
  | s :: ss, [], lo, _ => by simp [specLayer]
  | s :: ss, b :: bs, lo, hs => by
    have ih := specLayer_lo (bf := bf) height depth size ss bs (s + size) hs.2
    have ih' : ∀ p ∈ (specLayer bf height depth ss bs).1, lo ≤ p.1 :=
      fun p hp => Nat.le_trans hs.1 (Nat.le_trans (Nat.le_add_right _ _) (ih p hp))
    intro p hp
    simp only [specLayer] at hp
    split at hp
    · simp only [List.mem_cons] at hp
      rcases hp with rfl | hp
      · exact hs.1
      · exact ih' p hp
    · split at hp
      · simp only [List.mem_append, List.mem_map] at hp
        rcases hp with ⟨i, _, rfl⟩ | hp
        · exact Nat.le_trans hs.1 (Nat.le_add_right _ _)
        · exact ih' p hp
      · exact ih' p hp

/-! ### members -/

theorem insMem_cons (p : Nat × Nat) (a : List (Nat × Nat)) (x : Nat) :
    InsMem (p :: a) x ↔ (p.1 ≤ x ∧ x ≤ p.2) ∨ InsMem a x := by
  simp [InsMem]

theorem filledIns_mem {bf : Nat} (hpos : 0 < bf) (height depth bias m s x : Nat) :
    InsMem (filledIns bf height depth bias m s) x ↔
      (x ≤ m ∧ x ≤ U32_MAX ∧ s + bias ≤ x ∧ x ≤ s + bf ^ (height - depth + 1) - 1 + bias) := by
  have hn : 0 < bf ^ (height - depth + 1) := Nat.pow_pos hpos
  simp only [filledIns]
  generalize bf ^ (height - depth + 1) = n at hn
  split
  · rw [insMem_cons]
    simp only [insMem_nil, or_false]
    omega
  · rename_i hc
    simp only [insMem_nil, false_iff]
    intro h
    apply hc
    omega

theorem upperIns_mem {bf : Nat} (hpos : 0 < bf) (height depth bias m : Nat) (hd : depth ≠ height) :
    ∀ (starts bitss : List Nat) (x : Nat),
      InsMem (upperIns bf height depth bias m starts bitss) x ↔
        SpecMem (specLayer bf height depth starts bitss).1 bias m x
  | [], _, x => by simp [upperIns, specLayer, insMem_nil, specMem_nil]
  | s :: ss, [], x => by simp [upperIns, specLayer, insMem_nil, specMem_nil]
  | s :: ss, b :: bs, x => by
    have ih := upperIns_mem hpos height depth bias m hd ss bs x
    simp only [upperIns, specLayer, insMem_append]
    split
    · rw [specMem_cons, filledIns_mem hpos, ih]
    · simp only [insMem_nil, false_or, ih]

theorem specMem_leaf (s bias m x : Nat) (is : List Nat) :
    SpecMem (is.map (fun i => (s + i, s + i))) bias m x ↔
      (x ≤ m ∧ x ≤ U32_MAX ∧ ∃ i ∈ is, x = s + i + bias) := by
  simp only [SpecMem, List.mem_map]
  constructor
  · rintro ⟨h1, h2, p, ⟨i, hi, rfl⟩, h3, h4⟩
    exact ⟨h1, h2, i, hi, by simp only [] at h3 h4; omega⟩
  · rintro ⟨h1, h2, i, hi, rfl⟩
    exact ⟨h1, h2, (s + i, s + i), ⟨i, hi, rfl⟩, Nat.le_refl _, Nat.le_refl _⟩

/-- the leaf loop inserts exactly the in-range values of an ascending bit list; when it breaks,
some value is out of range -/
theorem leafValues_spec (s bias m : Nat) :
    ∀ (is : List Nat), is.Pairwise (· < ·) →
      (∀ x, InsMem (leafValues s bias m is).1 x ↔
        (x ≤ m ∧ x ≤ U32_MAX ∧ ∃ i ∈ is, x = s + i + bias)) ∧
      ((leafValues s bias m is).2 = true →
        ∃ i ∈ is, ¬ (s + i + bias ≤ m ∧ s + i + bias ≤ U32_MAX))
  | [], _ => by simp [leafValues, insMem_nil]
  | i :: rest, hp => by
    have hp' := List.pairwise_cons.mp hp
    have ih := leafValues_spec s bias m rest hp'.2
    simp only [leafValues]
    split
    · rename_i hc
      refine ⟨fun x => ?_, fun h => ?_⟩
      · rw [insMem_cons, ih.1 x]
        simp only [List.mem_cons, exists_eq_or_imp]
        constructor
        · rintro (h | ⟨h1, h2, h3⟩)
          · exact ⟨by omega, by omega, Or.inl (by omega)⟩
          · exact ⟨h1, h2, Or.inr h3⟩
        · rintro ⟨h1, h2, h3 | h3⟩
          · exact Or.inl (by omega)
          · exact Or.inr ⟨h1, h2, h3⟩
      · obtain ⟨k, hk, hk2⟩ := ih.2 h
        exact ⟨k, by simp [hk], hk2⟩
    · rename_i hc
      refine ⟨fun x => ?_, fun _ => ⟨i, by simp, by omega⟩⟩
      simp only [insMem_nil, false_iff]
      rintro ⟨h1, h2, k, hk, rfl⟩
      simp only [List.mem_cons] at hk
      rcases hk with rfl | hk
      · omega
      · have := hp'.1 k hk; omega

/-- leaf layer: with ascending separated starts the members inserted (up to the `break`) are the
specification's members -/
theorem leafRun_mem {bf : Nat} (hpos : 0 < bf) (height bias m : Nat) :
    ∀ (starts bitss : List Nat) (lo : Nat), (∀ b ∈ bitss, b < 2 ^ bf) → SepFrom bf lo starts →
      ∀ x, InsMem (leafRun bf height bias m starts bitss).1 x ↔
        SpecMem (specLayer bf height height starts bitss).1 bias m x
  | [], _, lo, _, _, x => by simp [leafRun, specLayer, insMem_nil, specMem_nil]
  | s :: ss, [], lo, _, _, x => by simp [leafRun, specLayer, insMem_nil, specMem_nil]
  | s :: ss, b :: bs, lo, hb, hs, x => by
    have ih := leafRun_mem hpos height bias m ss bs (s + bf)
      (fun b' hb' => hb b' (by simp [hb'])) hs.2 x
    simp only [leafRun, specLayer]
    split
    · simp only [insMem_append]
      rw [specMem_cons, filledIns_mem hpos, ih]
    · simp only [if_true]
      have lv := leafValues_spec s bias m (setBits b) (setBits_pairwise b)
      rw [specMem_append, specMem_leaf]
      split
      · rename_i hbrk
        rw [lv.1 x]
        constructor
        · exact Or.inl
        · rintro (h | h)
          · exact h
          · exfalso
            obtain ⟨i, hi, hout⟩ := lv.2 hbrk
            have hlt := setBits_lt (hb b (by simp)) hi
            obtain ⟨h1, h2, p, hp, h3, _⟩ := h
            have := specLayer_lo (bf := bf) height height bf ss bs (s + bf) hs.2 p hp
            omega
      · simp only [insMem_append]
        rw [lv.1 x, ih]

/-! ### all layers -/

/-- what a run of the queue decoder from the beginning of layer `depth` must produce, given the
specification decoder's result for the same layer starts and stream position -/
def LayersAgree (bf height bias maxValue : Nat) (data : List Nat) (depth : Nat)
    (starts : List Nat) (st : BitIn) : Option (List (Nat × Nat) × BitIn) → Prop
  | some (ivs, st2) => ∃ ins N, (∀ fuel acc,
        decodeLoop bf height bias maxValue data (fuel + N) st (starts.map (fun s => (s, depth))) acc
          = .ok (acc ++ ins) (data.drop (bytesConsumed st2))) ∧
      ∀ x, InsMem ins x ↔ SpecMem ivs bias maxValue x
  | none => ∃ N, ∀ fuel acc,
        decodeLoop bf height bias maxValue data (fuel + N) st (starts.map (fun s => (s, depth))) acc
          = .error

theorem decodeLoop_layers {bf : Nat} (hbf : BfOk bf) (height bias maxValue : Nat)
    (data : List Nat) (hbytes : ∀ b ∈ data, b < 256) :
    ∀ (k depth : Nat), depth + k = height → ∀ (starts : List Nat) (lo : Nat) (st : BitIn),
      SepFrom (bf ^ (k + 1)) lo starts → StOk bf st → pos st ≤ 8 * data.length →
      LayersAgree bf height bias maxValue data depth starts st
        (specLayers bf height data (k + 1) depth starts st) := by
  have hpos : 0 < bf := by rcases hbf with h | h | h | h <;> omega
  intro k
  induction k with
  | zero =>
    intro depth hdk starts lo st hsep hst hle
    have hd : depth = height := by omega
    subst hd
    cases starts with
    | nil =>
      simp only [specLayers, LayersAgree]
      refine ⟨[], 1, fun fuel acc => ?_, fun x => by simp [insMem_nil, specMem_nil]⟩
      have := decodeLoop_leaf hbf depth bias maxValue data [] st st [] fuel acc hst hle
        (by simp [readNodes])
      simpa [leafRun] using this
    | cons s ss =>
      rw [specLayers.eq_3 _ _ _ _ _ _ _ (by simp)]
      cases hr : readNodes bf data (s :: ss).length st with
      | none =>
        simp only [LayersAgree]
        exact ⟨(s :: ss).length + 1, fun fuel acc => by
          rw [← Nat.add_assoc]
          exact decodeLoop_leaf_none hbf depth bias maxValue data (s :: ss) st fuel acc hst hle hr⟩
      | some r =>
        obtain ⟨bitss, st'⟩ := r
        simp only [specLayers, List.append_nil, LayersAgree]
        refine ⟨(leafRun bf depth bias maxValue (s :: ss) bitss).1, (s :: ss).length + 1,
          fun fuel acc => ?_, ?_⟩
        · rw [← Nat.add_assoc]
          exact decodeLoop_leaf hbf depth bias maxValue data (s :: ss) st st' bitss fuel acc
            hst hle hr
        · have hlt : ∀ b ∈ bitss, b < 2 ^ bf := readNodes_lt hbf hbytes _ hr
          simp only [Nat.zero_add, Nat.pow_one] at hsep
          exact leafRun_mem hpos depth bias maxValue (s :: ss) bitss lo hlt hsep
  | succ k ih =>
    intro depth hdk starts lo st hsep hst hle
    have hd : depth ≠ height := by omega
    have hk : height - depth = k + 1 := by omega
    cases starts with
    | nil =>
      simp only [specLayers, LayersAgree]
      refine ⟨[], 1, fun fuel acc => ?_, fun x => by simp [insMem_nil, specMem_nil]⟩
      have hs := skipNodes_of_readNodes hbf (data := data) (n := 0) (st' := st) (vs := [])
        hst hle (by simp [readNodes])
      simp [decodeLoop, finish, hs]
    | cons s ss =>
      rw [specLayers.eq_3 _ _ _ _ _ _ _ (by simp)]
      cases hr : readNodes bf data (s :: ss).length st with
      | none =>
        simp only [LayersAgree]
        exact ⟨(s :: ss).length, fun fuel acc => by
          have := decodeLoop_upper_none bf height depth bias maxValue data hd (s :: ss) st fuel
            [] acc hr
          simpa using this⟩
      | some r =>
        obtain ⟨bitss, st'⟩ := r
        have hrs := readNodes_some hbf _ hst hr
        have hlt : ∀ b ∈ bitss, b < 2 ^ bf := readNodes_lt hbf hbytes _ hr
        have hsep' : SepFrom (bf ^ (k + 1)) lo (specLayer bf height depth (s :: ss) bitss).2 := by
          have := sepFrom_specLayer (bf := bf) height depth hd (s :: ss) bitss lo hlt
            (by rw [hk, ← Nat.pow_succ']; exact hsep)
          rw [hk] at this
          exact this
        have hle' : pos st' ≤ 8 * data.length := by
          have := hrs.2.2.2 (by simp); omega
        have ihk := ih (depth + 1) (by omega) _ lo st' hsep' hrs.1 hle'
        have hup := fun fuel acc => decodeLoop_upper bf height depth bias maxValue data hd
          (s :: ss) st st' bitss fuel [] acc hr
        simp only [List.append_nil, List.nil_append] at hup
        simp only []
        cases hn : specLayers bf height data (k + 1) (depth + 1)
            (specLayer bf height depth (s :: ss) bitss).2 st' with
        | none =>
          rw [hn] at ihk
          simp only [LayersAgree] at ihk ⊢
          obtain ⟨N, hN⟩ := ihk
          exact ⟨N + (s :: ss).length, fun fuel acc => by
            rw [← Nat.add_assoc, hup, hN]⟩
        | some r2 =>
          obtain ⟨more, st2⟩ := r2
          rw [hn] at ihk
          simp only [LayersAgree] at ihk ⊢
          obtain ⟨ins, N, hN, hmem⟩ := ihk
          refine ⟨upperIns bf height depth bias maxValue (s :: ss) bitss ++ ins,
            N + (s :: ss).length, fun fuel acc => ?_, fun x => ?_⟩
          · rw [← Nat.add_assoc, hup, hN, List.append_assoc]
          · rw [insMem_append, specMem_append, hmem,
              upperIns_mem hpos height depth bias maxValue hd]

/-- the whole decoder against the layer-wise reader, for a non-zero supported height -/
theorem decode_layers (b0 : Nat) (tl : List Nat) (bias maxValue : Nat)
    (hbytes : ∀ b ∈ b0 :: tl, b < 256) (hh : b0 / 4 % 32 ≤ maxHeight (bfOfBits b0))
    (h0 : b0 / 4 % 32 ≠ 0) :
    match specLayers (bfOfBits b0) (b0 / 4 % 32) (b0 :: tl) (b0 / 4 % 32) 1 [0] BitIn.start with
    | some (ivs, st2) => ∃ ins,
        decode (b0 :: tl) bias maxValue = .ok ins ((b0 :: tl).drop (bytesConsumed st2)) ∧
        ∀ x, InsMem ins x ↔ SpecMem ivs bias maxValue x
    | none => decode (b0 :: tl) bias maxValue = .error := by
  have hbf := bfOk_bfOfBits b0
  have hst := stOk_start _ hbf
  have hle : pos BitIn.start ≤ 8 * (b0 :: tl).length := by simp [pos_start]; omega
  have hfuel : 8 * (b0 :: tl).length + 2 ≤ 2 * (4 * (b0 :: tl).length + 2) + pos BitIn.start := by
    omega
  have L := decodeLoop_layers hbf (b0 / 4 % 32) bias maxValue (b0 :: tl) hbytes
    (b0 / 4 % 32 - 1) 1 (by omega) [0] 0 BitIn.start ⟨Nat.le_refl _, trivial⟩ hst hle
  have e : b0 / 4 % 32 - 1 + 1 = b0 / 4 % 32 := by omega
  rw [e] at L
  have hdec : decode (b0 :: tl) bias maxValue
      = decodeLoop (bfOfBits b0) (b0 / 4 % 32) bias maxValue (b0 :: tl)
          (4 * (b0 :: tl).length + 2) BitIn.start [(0, 1)] [] := by
    simp only [decode]
    rw [if_neg (by omega), if_neg h0]
  have hne := decodeLoop_ne_outOfFuel hbf (b0 / 4 % 32) bias maxValue (b0 :: tl)
    (4 * (b0 :: tl).length + 2) BitIn.start [(0, 1)] [] hst hle hfuel
  cases hs : specLayers (bfOfBits b0) (b0 / 4 % 32) (b0 :: tl) (b0 / 4 % 32) 1 [0] BitIn.start with
  | none =>
    rw [hs] at L
    simp only [LayersAgree] at L
    obtain ⟨N, hN⟩ := L
    have hN' := hN 0 []
    simp only [List.map_cons, List.map_nil, Nat.zero_add] at hN'
    simp only []
    rw [hdec, decodeLoop_fuel_irrel _ _ _ _ _ _ N _ _ _ hne (by rw [hN']; simp), hN']
  | some r =>
    obtain ⟨ivs, st2⟩ := r
    rw [hs] at L
    simp only [LayersAgree] at L
    obtain ⟨ins, N, hN, hmem⟩ := L
    have hN' := hN 0 []
    simp only [List.map_cons, List.map_nil, Nat.zero_add, List.nil_append] at hN'
    simp only []
    refine ⟨ins, ?_, hmem⟩
    rw [hdec, decodeLoop_fuel_irrel _ _ _ _ _ _ N _ _ _ hne (by rw [hN']; simp), hN']

/-- decoder against specification decoder (the property theorem `decode_eq_spec`) -/
theorem decode_vs_spec (data : List Nat) (bias maxValue : Nat) (hbytes : ∀ b ∈ data, b < 256)
    (hh : ∀ b0 tl, data = b0 :: tl → b0 / 4 % 32 ≤ maxHeight (bfOfBits b0)) :
    (∀ ins rest, decode data bias maxValue = .ok ins rest →
      ∃ ivs, specDecode data = some (ivs, rest) ∧
        ∀ x, (∃ r ∈ ins, r.1 ≤ x ∧ x ≤ r.2) ↔ SpecMem ivs bias maxValue x) ∧
    (decode data bias maxValue = .error ↔ specDecode data = none) ∧
    (∀ ivs rest, specDecode data = some (ivs, rest) →
      ∃ ins, decode data bias maxValue = .ok ins rest) := by
  cases data with
  | nil => simp [decode, specDecode]
  | cons b0 tl =>
    have hmax := hh b0 tl rfl
    by_cases h0 : b0 / 4 % 32 = 0
    · have hd : decode (b0 :: tl) bias maxValue = .ok [] tl := by
        simp only [decode]; rw [if_neg (by omega), if_pos h0]; rfl
      have hs : specDecode (b0 :: tl) = some ([], tl) := by
        simp only [specDecode]; rw [if_pos h0]; rfl
      rw [hd, hs]
      refine ⟨?_, by simp, ?_⟩
      · intro ins rest h
        simp at h
        obtain ⟨rfl, rfl⟩ := h
        exact ⟨[], rfl, fun x => by simp [SpecMem]⟩
      · intro ivs rest h
        simp at h
        exact ⟨[], by rw [h.2]⟩
    · have L := decode_layers b0 tl bias maxValue hbytes hmax h0
      have hs : specDecode (b0 :: tl) =
          match specLayers (bfOfBits b0) (b0 / 4 % 32) (b0 :: tl) (b0 / 4 % 32) 1 [0]
              BitIn.start with
          | none => none
          | some (ivs, st) => some (ivs, (b0 :: tl).drop (bytesConsumed st)) := by
        simp only [specDecode]; rw [if_neg h0]
        generalize specLayers (bfOfBits b0) (b0 / 4 % 32) (b0 :: tl) (b0 / 4 % 32) 1 [0]
          BitIn.start = o
        cases o with
        | none => rfl
        | some r => cases r; rfl
      rw [hs]
      cases hl : specLayers (bfOfBits b0) (b0 / 4 % 32) (b0 :: tl) (b0 / 4 % 32) 1 [0]
          BitIn.start with
      | none =>
        rw [hl] at L
        simp only [] at L
        rw [L]
        simp
      | some r =>
        obtain ⟨ivs, st2⟩ := r
        rw [hl] at L
        obtain ⟨ins, hdec, hmem⟩ := L
        rw [hdec]
        refine ⟨?_, by simp, ?_⟩
        · intro ins' rest h
          simp at h
          obtain ⟨rfl, rfl⟩ := h
          exact ⟨ivs, rfl, hmem⟩
        · intro ivs' rest h
          simp at h
          exact ⟨ins, by rw [h.2]⟩

end FontVerif.SparseBitSet
